#include <amgcl/backend/builtin.hpp>
#include <amgcl/adapter/crs_tuple.hpp>
#include <amgcl/solver/bicgstab.hpp>
#include <amgcl/solver/bicgstabl.hpp>
#include <amgcl/solver/idrs.hpp>
#include <amgcl/solver/lgmres.hpp>
#include <amgcl/solver/gmres.hpp>
#include <amgcl/solver/richardson.hpp>
#include <Eigen/Dense>
#include <iostream>
#include <random>
typedef amgcl::backend::builtin<double> B; typedef amgcl::backend::crs<double> M;
typedef Eigen::Matrix<long double,-1,-1> LD; typedef Eigen::Matrix<long double,-1,1> LV;
struct dense_precond { typedef B backend_type; typedef M matrix; std::shared_ptr<M> A; LD P; int n;
  template<class V1,class V2> void apply(const V1&f,V2&&x) const { for(int i=0;i<n;++i){ long double s=0; for(int j=0;j<n;++j) s+=P(i,j)*f[j]; x[i]=(double)s; } } const M& system_matrix() const {return *A;} };
// reference right-preconditioned BiCGStab (van der Vorst), k full iterations
LV bicgstab_ref(const LD&A,const LD&P,const LV&f,LV x,int k,bool left){ LV r= left? LV(P*(f-A*x)) : LV(f-A*x); LV rh=r,p=r,v; long double rho=1,alpha=1,omega=1; for(int it=0;it<k;++it){ long double rho1=r.dot(rh); if(it>0){ long double beta=(rho1/rho)*(alpha/omega); p=r+beta*(p-omega*v); } rho=rho1; LV ph= left? p : LV(P*p); v= left? LV(P*(A*p)) : LV(A*ph); alpha=rho/rh.dot(v); LV s=r-alpha*v; LV sh= left? s : LV(P*s); LV t= left? LV(P*(A*s)) : LV(A*sh); omega=t.dot(s)/t.dot(t); x+=alpha*ph+omega*sh; r=s-omega*t; } return x; }
int main(int argc,char**argv){ std::mt19937 rng(argc>1?atoi(argv[1]):1); std::normal_distribution<double> N(0,1); double wr=0,wl=0,wrich=0,wlg=0; int cases=0, term_fail=0, term_cases=0;
  for(int rep=0;rep<40;++rep){ int n=6+rng()%12; Eigen::MatrixXd G(n,n); for(int i=0;i<n*n;++i) G(i/n,i%n)=N(rng); Eigen::HouseholderQR<Eigen::MatrixXd> qr(G); Eigen::MatrixXd Q=qr.householderQ(); Eigen::VectorXd d(n); for(int i=0;i<n;++i) d(i)=1+4.0*(rng()%1000)/1000.0; Eigen::MatrixXd As=Q*d.asDiagonal()*Q.transpose(); for(int i=0;i<n;++i)for(int j=0;j<n;++j) As(i,j)+=0.2*N(rng)*(i!=j)/n;
    Eigen::VectorXd pd(n); for(int i=0;i<n;++i) pd(i)=0.6+0.8*(rng()%1000)/1000.0; Eigen::MatrixXd Ps=Q*pd.asDiagonal()*Q.transpose();
    std::vector<ptrdiff_t> ptr(1,0),col; std::vector<double> val; for(int i=0;i<n;++i){for(int j=0;j<n;++j){col.push_back(j);val.push_back(As(i,j));} ptr.push_back(col.size());}
    dense_precond P; P.n=n; P.A=std::make_shared<M>(std::make_tuple(n,ptr,col,val)); P.P=Ps.cast<long double>(); LD A=As.cast<long double>();
    std::vector<double> f(n),x0(n); for(auto&v:f)v=N(rng); for(auto&v:x0)v=(rep%2)?N(rng):0.0; LV fv(n),xv0(n); for(int i=0;i<n;++i){fv(i)=f[i];xv0(i)=x0[i];}
    for(int k=1;k<=5;++k){ for(int left=0;left<2;++left){ amgcl::solver::bicgstab<B>::params sp; sp.maxiter=k; sp.tol=0; sp.abstol=0; sp.pside= left?amgcl::preconditioner::side::left:amgcl::preconditioner::side::right; amgcl::solver::bicgstab<B> S(n,sp); std::vector<double> x=x0; S(P,f,x); LV xr=bicgstab_ref(A,P.P,fv,xv0,k,left); double e=0; for(int i=0;i<n;++i) e=std::max(e,(double)fabsl(x[i]-xr(i))); e/= (double)xr.cwiseAbs().maxCoeff(); (left?wl:wr)=std::max(left?wl:wr,e); }
      { amgcl::solver::richardson<B>::params sp; sp.maxiter=k; sp.tol=0; sp.abstol=0; sp.damping=0.8; amgcl::solver::richardson<B> S(n,sp); std::vector<double> x=x0; S(P,f,x); LV xr=xv0; for(int it=0;it<k;++it) xr+=0.8L*(P.P*(fv-A*xr)); double e=0; for(int i=0;i<n;++i) e=std::max(e,(double)fabsl(x[i]-xr(i))); wrich=std::max(wrich,e); }
      { // LGMRES first cycle == GMRES
        amgcl::solver::lgmres<B>::params lp; lp.maxiter=k; lp.tol=0; lp.abstol=0; lp.M=30; lp.K=3; amgcl::solver::lgmres<B> Sl(n,lp); amgcl::solver::gmres<B>::params gp; gp.maxiter=k; gp.tol=0; gp.abstol=0; gp.M=33; amgcl::solver::gmres<B> Sg(n,gp); std::vector<double> xl=x0,xg=x0; Sl(P,f,xl); Sg(P,f,xg); for(int i=0;i<n;++i) wlg=std::max(wlg,std::abs(xl[i]-xg[i])); }
      cases++; }
    // finite termination with exact preconditioner / identity
    for(int ex=0;ex<2;++ex){ dense_precond Q2=P; Q2.P= ex? LD(A.inverse()) : LD(LD::Identity(n,n));
      auto check=[&](const char*nm,auto&S,int budget){ std::vector<double> x=x0; size_t it; double res; try{ std::tie(it,res)=S(Q2,f,x);}catch(std::exception&e){ printf("%s EXC %s\n",nm,e.what()); term_fail++; return; } LV xk(n); for(int i=0;i<n;++i) xk(i)=x[i]; double tr=(double)((fv-A*xk).norm()/fv.norm()); term_cases++; if(!(tr<1e-7)||it>(size_t)budget){ term_fail++; printf("termination fail %s exact=%d n=%d it=%zu res=%.2e true=%.2e\n",nm,ex,n,it,res,tr);} };
      { amgcl::solver::bicgstab<B>::params sp; sp.maxiter=n; amgcl::solver::bicgstab<B> S(n,sp); check("bicgstab",S,n); }
      { amgcl::solver::bicgstabl<B>::params sp; sp.maxiter=n; sp.L=2; amgcl::solver::bicgstabl<B> S(n,sp); check("bicgstabl",S,n+1); }
      { amgcl::solver::idrs<B>::params sp; sp.s=3; sp.maxiter=n+(n+2)/3; amgcl::solver::idrs<B> S(n,sp); check("idrs",S,n+(n+2)/3); }
      { amgcl::solver::gmres<B>::params sp; sp.maxiter=n; amgcl::solver::gmres<B> S(n,sp); check("gmres",S,n); }
    }
  }
  printf("cases=%d bicgstab vs ref: right %.2e left %.2e | richardson %.2e | lgmres(first cycle) vs gmres %.2e | termination cases=%d fails=%d\n",cases,wr,wl,wrich,wlg,term_cases,term_fail);
}
