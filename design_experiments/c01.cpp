#include <amgcl/amg.hpp>
#include <amgcl/make_solver.hpp>
#include <amgcl/solver/runtime.hpp>
#include <amgcl/coarsening/runtime.hpp>
#include <amgcl/relaxation/runtime.hpp>
#include <amgcl/preconditioner/runtime.hpp>
#include <amgcl/adapter/crs_tuple.hpp>
#include <iostream>
#include <random>
typedef amgcl::backend::builtin<double> B;
struct CSR { int n; std::vector<ptrdiff_t> ptr, col; std::vector<double> val; };
CSR grid2d(int nx,int ny,double conv,std::mt19937&rng){
  CSR A; A.n=nx*ny; A.ptr.push_back(0);
  for(int j=0;j<ny;++j)for(int i=0;i<nx;++i){ int r=j*nx+i;
    if(j>0){A.col.push_back(r-nx);A.val.push_back(-1);} if(i>0){A.col.push_back(r-1);A.val.push_back(-1-conv);} A.col.push_back(r);A.val.push_back(4+conv);
    if(i+1<nx){A.col.push_back(r+1);A.val.push_back(-1);} if(j+1<ny){A.col.push_back(r+nx);A.val.push_back(-1);} A.ptr.push_back(A.col.size()); }
  return A; }
int main(int argc,char**argv){
  std::mt19937 rng(argc>1?atoi(argv[1]):1);
  const char* solv[]={"cg","bicgstab","bicgstabl","gmres","lgmres","fgmres","idrs","richardson"};
  const char* sides[]={"right","left"};
  for(int rep=0;rep<2;++rep){
   CSR A=grid2d(30,25, rep?1.5:0.0, rng); int n=A.n;
   std::vector<double> f(n), x0(n); std::uniform_real_distribution<double> U(-1,1); for(auto&v:f)v=U(rng); for(auto&v:x0)v=rep?U(rng):0;
   long double nf=0; for(auto v:f) nf+=(long double)v*v; nf=sqrtl(nf);
   for(auto s:solv) for(auto sd:sides) for(double tol:{1e-4,1e-8,1e-12}) for(int maxit:{100,7}){
    if (rep==1 && std::string(s)=="cg") continue;
    boost::property_tree::ptree p; p.put("solver.type",s); p.put("solver.tol",tol); p.put("solver.maxiter",maxit);
    bool has_side = std::string(s)=="bicgstab"||std::string(s)=="bicgstabl"||std::string(s)=="gmres"||std::string(s)=="lgmres";
    if(!has_side && std::string(sd)=="left") continue;
    if(has_side) p.put("solver.pside",sd);
    p.put("precond.class","amg"); p.put("precond.coarse_enough",50);
    amgcl::make_solver<amgcl::runtime::preconditioner<B>, amgcl::runtime::solver::wrapper<B>> S(std::make_tuple(n,A.ptr,A.col,A.val), p);
    std::vector<double> x=x0; size_t it; double res;
    try { std::tie(it,res)=S(f,x); } catch(std::exception&e){ printf("%-10s %-5s EXC %s\n",s,sd,e.what()); continue; }
    std::vector<double> r(n); long double nr=0; for(int i=0;i<n;++i){ long double t=f[i]; for(auto j=A.ptr[i];j<A.ptr[i+1];++j) t-=(long double)A.val[j]*x[A.col[j]]; r[i]=t; nr+=t*t;} nr=sqrtl(nr);
    double tr=nr/nf; double trp=tr;
    if(std::string(sd)=="left"){ std::vector<double> z(n); S.precond().apply(r,z); long double nz=0; for(auto v:z) nz+=(long double)v*v; trp=sqrtl(nz)/nf; }
    printf("rep%d %-10s %-5s tol=%g maxit=%3d: it=%3zu rep=%.6e true=%.6e prec=%.6e ratio=%.6f %s\n",rep,s,sd,tol,maxit,it,res,tr,trp,res/trp, (std::abs(res/trp-1)>1e-3)?"<<<":"");
   }
  }
}
