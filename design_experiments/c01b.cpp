#include <amgcl/amg.hpp>
#include <amgcl/make_solver.hpp>
#include <amgcl/solver/runtime.hpp>
#include <amgcl/coarsening/runtime.hpp>
#include <amgcl/relaxation/runtime.hpp>
#include <amgcl/adapter/crs_tuple.hpp>
#include <iostream>
#include <random>
typedef amgcl::backend::builtin<double> B;
int main(int argc,char**argv){
  std::mt19937 rng(argc>1?atoi(argv[1]):1); double contrast=argc>2?atof(argv[2]):100, aniso=argc>3?atof(argv[3]):0.1; int nx=argc>4?atoi(argv[4]):70, ny=nx-7;
  std::uniform_real_distribution<double> U(0,1); int n=nx*ny; std::vector<ptrdiff_t> ptr(1,0),col; std::vector<double> val;
  std::vector<double> kx((nx+1)*ny), ky(nx*(ny+1)); for(auto&k:kx)k=std::pow(contrast,U(rng)); for(auto&k:ky)k=aniso*std::pow(contrast,U(rng));
  for(int j=0;j<ny;++j)for(int i=0;i<nx;++i){ int r=j*nx+i; double w=kx[j*(nx+1)+i],e=kx[j*(nx+1)+i+1],s=ky[j*nx+i],nn=ky[(j+1)*nx+i]; if(j>0){col.push_back(r-nx);val.push_back(-s);} if(i>0){col.push_back(r-1);val.push_back(-w);} col.push_back(r);val.push_back(w+e+s+nn); if(i+1<nx){col.push_back(r+1);val.push_back(-e);} if(j+1<ny){col.push_back(r+nx);val.push_back(-nn);} ptr.push_back(col.size()); }
  std::vector<double> f(n); for(auto&v:f)v=U(rng)-0.5; long double nf=0; for(auto v:f)nf+=v*v; nf=sqrtl(nf);
  const char* coars[]={"aggregation","smoothed_aggregation","smoothed_aggr_emin","ruge_stuben"};
  const char* relax[]={"damped_jacobi","spai0","spai1","gauss_seidel","ilu0","iluk","ilup","ilut","chebyshev"};
  const char* solv[]={"cg","bicgstab","bicgstabl","gmres","lgmres","fgmres","idrs","richardson"};
  int maxit_seen=0, bad=0, cells=0;
  for(auto c:coars)for(auto r:relax)for(auto s:solv){ boost::property_tree::ptree p; p.put("precond.coarsening.type",c); p.put("precond.relax.type",r); p.put("solver.type",s); p.put("precond.coarse_enough",200);
    amgcl::make_solver<amgcl::amg<B,amgcl::runtime::coarsening::wrapper,amgcl::runtime::relaxation::wrapper>,amgcl::runtime::solver::wrapper<B>> S(std::make_tuple(n,ptr,col,val),p);
    std::vector<double> x(n,0.0); size_t it; double res; try{ std::tie(it,res)=S(f,x);}catch(std::exception&e){ printf("%s/%s/%s EXC %s\n",c,r,s,e.what()); bad++; continue; }
    long double nr=0; for(int i=0;i<n;++i){ long double t=f[i]; for(auto j=ptr[i];j<ptr[i+1];++j) t-=(long double)val[j]*x[col[j]]; nr+=t*t;} double tr=sqrtl(nr)/nf; cells++;
    bool isr=std::string(s)=="richardson"; if(!isr) maxit_seen=std::max<int>(maxit_seen,it); if(!isr && it>=50) printf("  slow: %-20s %-14s %-10s it=%zu res=%.2e\n",c,r,s,it,res);
    if(!(res<1e-8) || !(std::abs(tr-res)<=1e-3*tr+1e-11)){ if(!isr||it<100||!(std::abs(tr-res)<=1e-3*tr+1e-11)){ printf("%-20s %-14s %-10s it=%zu res=%.2e true=%.2e\n",c,r,s,it,res,tr); bad++; } }
  }
  printf("cells=%d bad=%d max Krylov iterations=%d (n=%d contrast=%g aniso=%g)\n",cells,bad,maxit_seen,n,contrast,aniso);
}
