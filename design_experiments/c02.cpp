#include <amgcl/amg.hpp>
#include <amgcl/coarsening/runtime.hpp>
#include <amgcl/relaxation/runtime.hpp>
#include <amgcl/adapter/crs_tuple.hpp>
#include <Eigen/Dense>
#include <iostream>
#include <random>
typedef amgcl::backend::builtin<double> B;
typedef amgcl::amg<B, amgcl::runtime::coarsening::wrapper, amgcl::runtime::relaxation::wrapper> AMG;
struct CSR { int n; std::vector<ptrdiff_t> ptr, col; std::vector<double> val; };
CSR grid2d(int nx,int ny,double ex,double ey,std::mt19937&rng,double contrast){
  // variable-coefficient 5-point, Dirichlet: SPD irreducibly dd M-matrix
  CSR A; A.n=nx*ny; A.ptr.push_back(0);
  std::uniform_real_distribution<double> U(0,1);
  std::vector<double> kx((nx+1)*ny), ky(nx*(ny+1));
  for(auto&k:kx) k=ex*std::pow(contrast,U(rng)); for(auto&k:ky) k=ey*std::pow(contrast,U(rng));
  for(int j=0;j<ny;++j)for(int i=0;i<nx;++i){ int r=j*nx+i; double w=kx[j*(nx+1)+i], e=kx[j*(nx+1)+i+1], s=ky[j*nx+i], n=ky[(j+1)*nx+i];
    if(j>0){A.col.push_back(r-nx);A.val.push_back(-s);} if(i>0){A.col.push_back(r-1);A.val.push_back(-w);} A.col.push_back(r);A.val.push_back(w+e+s+n);
    if(i+1<nx){A.col.push_back(r+1);A.val.push_back(-e);} if(j+1<ny){A.col.push_back(r+nx);A.val.push_back(-n);} A.ptr.push_back(A.col.size()); }
  return A; }
int main(int argc,char**argv){
  std::mt19937 rng(argc>1?atoi(argv[1]):1);
  const char* coars[]={"aggregation","smoothed_aggregation","smoothed_aggr_emin","ruge_stuben"};
  const char* relax[]={"damped_jacobi","spai0","gauss_seidel","ilu0","iluk","ilup","chebyshev"};
  for(int rep=0;rep<3;++rep){
  int nx=8+rng()%8, ny=6+rng()%8; CSR A=grid2d(nx,ny,1.0, rep==1?0.05:1.0, rng, rep==2?100.0:1.0); int n=A.n;
  Eigen::MatrixXd Ad=Eigen::MatrixXd::Zero(n,n); for(int i=0;i<n;++i)for(auto j=A.ptr[i];j<A.ptr[i+1];++j)Ad(i,A.col[j])=A.val[j];
  Eigen::LLT<Eigen::MatrixXd> llt(Ad); Eigen::MatrixXd L=llt.matrixL();
  for(auto c:coars)for(auto r:relax)for(int ncyc=1;ncyc<=2;++ncyc){
    boost::property_tree::ptree p; p.put("coarsening.type",c); p.put("relax.type",r); p.put("coarse_enough", 10); p.put("ncycle",ncyc); p.put("npre", 1+rng()%2); p.put("npost", p.get<int>("npre"));
    AMG amg(std::make_tuple(n,A.ptr,A.col,A.val), p);
    Eigen::MatrixXd Bm(n,n); std::vector<double> e(n,0.0), x(n);
    for(int j=0;j<n;++j){ e[j]=1; amg.apply(e,x); e[j]=0; for(int i=0;i<n;++i)Bm(i,j)=x[i]; }
    double asym=(Bm-Bm.transpose()).cwiseAbs().maxCoeff()/Bm.cwiseAbs().maxCoeff();
    Eigen::MatrixXd Bs=0.5*(Bm+Bm.transpose()); Eigen::SelfAdjointEigenSolver<Eigen::MatrixXd> es(Bs);
    Eigen::MatrixXd M=L.transpose()*Bs*L; Eigen::SelfAdjointEigenSolver<Eigen::MatrixXd> e2(M);
    double lmin=e2.eigenvalues().minCoeff(), lmax=e2.eigenvalues().maxCoeff();
    std::ostringstream lv; lv<<amg; 
    printf("rep%d n=%d %-22s %-14s ncyc=%d npre=%d asym=%.1e minEigB=%.2e lam(BA) in [%.3f,%.3f] rho=%.3f %s\n",rep,n,c,r,ncyc,p.get<int>("npre"),asym,es.eigenvalues().minCoeff(),lmin,lmax,std::max(std::abs(1-lmin),std::abs(1-lmax)), (asym>1e-10||lmin<=0||lmax>=2)?"<<<<<":"");
  }}
}
