#include <amgcl/amg.hpp>
#include <amgcl/coarsening/smoothed_aggregation.hpp>
#include <amgcl/coarsening/aggregation.hpp>
#include <amgcl/coarsening/ruge_stuben.hpp>
#include <amgcl/coarsening/smoothed_aggr_emin.hpp>
#include <amgcl/relaxation/spai0.hpp>
#include <amgcl/relaxation/ilu0.hpp>
#include <amgcl/adapter/crs_tuple.hpp>
#include <iostream>
#include <cstring>
#include <random>
typedef amgcl::backend::builtin<double> B;
typedef amgcl::backend::crs<double> M;
struct Rec { std::shared_ptr<M> A,P,R,Ac; };
static std::vector<Rec> g_log; static std::vector<Rec> g_replay; static size_t g_replay_pos=0;
template<template<class> class C> struct recording { template<class Backend> struct type {
  typedef typename C<Backend>::params params; C<Backend> base; type(const params&p=params()):base(p){}
  template<class Mx> std::tuple<std::shared_ptr<Mx>,std::shared_ptr<Mx>> transfer_operators(const Mx&A){ auto t=base.transfer_operators(A); Rec r; r.A=std::make_shared<M>(A); r.P=std::make_shared<M>(*std::get<0>(t)); r.R=std::make_shared<M>(*std::get<1>(t)); g_log.push_back(r); return t; }
  template<class Mx> std::shared_ptr<Mx> coarse_operator(const Mx&A,const Mx&P,const Mx&R) const { auto ac=base.coarse_operator(A,P,R); if(!g_log.empty() && !g_log.back().Ac) g_log.back().Ac=std::make_shared<M>(*ac); return ac; } }; };
template<template<class> class C> struct replaying { template<class Backend> struct type {
  typedef typename C<Backend>::params params; C<Backend> base; type(const params&p=params()):base(p){}
  template<class Mx> std::tuple<std::shared_ptr<Mx>,std::shared_ptr<Mx>> transfer_operators(const Mx&){ if(g_replay_pos>=g_replay.size()) throw amgcl::error::empty_level(); auto&r=g_replay[g_replay_pos++]; return std::make_tuple(std::make_shared<Mx>(*r.P), std::make_shared<Mx>(*r.R)); }
  template<class Mx> std::shared_ptr<Mx> coarse_operator(const Mx&A,const Mx&P,const Mx&R) const { return base.coarse_operator(A,P,R);} }; };
template<class AMG> std::vector<double> extractB(const AMG&a,int n){ std::vector<double> Bm(n*n), e(n,0.0), x(n); for(int j=0;j<n;++j){ e[j]=1; a.apply(e,x); e[j]=0; for(int i=0;i<n;++i) Bm[i*n+j]=x[i]; } return Bm; }
int main(){
  int nx=14,ny=11,n=nx*ny; std::vector<ptrdiff_t> ptr(1,0),col; std::vector<double> val,val2; std::mt19937 rng(1); std::uniform_real_distribution<double> U(0.5,1.5);
  for(int j=0;j<ny;++j)for(int i=0;i<nx;++i){ int r=j*nx+i; if(j>0){col.push_back(r-nx);val.push_back(-1);} if(i>0){col.push_back(r-1);val.push_back(-1);} col.push_back(r);val.push_back(4.2); if(i+1<nx){col.push_back(r+1);val.push_back(-1);} if(j+1<ny){col.push_back(r+nx);val.push_back(-1);} ptr.push_back(col.size()); }
  val2=val; for(auto&v:val2) v*=U(rng);
  typedef amgcl::amg<B, recording<amgcl::coarsening::smoothed_aggregation>::type, amgcl::relaxation::ilu0> AMG;
  typedef amgcl::amg<B, replaying<amgcl::coarsening::smoothed_aggregation>::type, amgcl::relaxation::ilu0> AMGR;
  AMG::params p; p.coarse_enough=12;
  AMG a(std::make_tuple(n,ptr,col,val), p);
  std::cout<<"levels recorded: "<<g_log.size()<<"\n"<<a;
  auto B0=extractB(a,n);
  g_replay=g_log; // P,R of original
  a.rebuild(std::make_tuple(n,ptr,col,val2)); auto B1=extractB(a,n);
  AMGR::params pr; pr.coarse_enough=12; g_replay_pos=0; AMGR fresh(std::make_tuple(n,ptr,col,val2), pr); auto B1f=extractB(fresh,n);
  std::cout<<"rebuilt vs fresh-with-recorded-PR bitwise: "<<(std::memcmp(B1.data(),B1f.data(),8*n*n)==0)<<"\n";
  a.rebuild(std::make_tuple(n,ptr,col,val)); auto B2=extractB(a,n);
  std::cout<<"rebuild(original) restores bitwise: "<<(std::memcmp(B0.data(),B2.data(),8*n*n)==0)<<"\n";
}
