#include <amgcl/backend/builtin.hpp>
#include <amgcl/adapter/crs_tuple.hpp>
#include <amgcl/coarsening/plain_aggregates.hpp>
#include <amgcl/coarsening/pointwise_aggregates.hpp>
#include <amgcl/coarsening/tentative_prolongation.hpp>
#include <amgcl/coarsening/aggregation.hpp>
#include <amgcl/coarsening/smoothed_aggregation.hpp>
#include <amgcl/coarsening/smoothed_aggr_emin.hpp>
#include <amgcl/coarsening/ruge_stuben.hpp>
#include <iostream>
#include <random>
#include <set>
typedef amgcl::backend::builtin<double> B; typedef amgcl::backend::crs<double> M;
int main(){
  long cases=0, bad_part=0, bad_rowsum_sa=0, bad_rowsum_rs=0, empty=0, exc=0; int n=6;
  std::mt19937 rng(1);
  for(unsigned mask=0; mask<(1u<<15); ++mask){
    for(int vk=0; vk<2; ++vk){
    // symmetric graph on 6 vertices; values: M-matrix (vk=0) or mixed sign (vk=1); zero row sums except vertex 0 (+shift)
    double W[6][6]={{0}}; int e=0; for(int i=0;i<n;++i)for(int j=i+1;j<n;++j,++e) if(mask>>e&1){ double w=1.0+((mask*(e+3))%5)*0.25; if(vk==1 && (e%3==0)) w=-0.5*w; W[i][j]=W[j][i]=-w; }
    std::vector<ptrdiff_t> ptr(1,0),col; std::vector<double> val; bool okdiag=true;
    for(int i=0;i<n;++i){ double d=0; for(int j=0;j<n;++j) d-=W[i][j]; if(i==0) d+=0.5; if(vk==1) { d=0; for(int j=0;j<n;++j) d+=std::abs(W[i][j]); d+= (i==0?0.5:0.0); } if(d<=0) d=1.0; for(int j=0;j<n;++j){ if(j==i){col.push_back(i);val.push_back(d);} else if(W[i][j]!=0){col.push_back(j);val.push_back(W[i][j]);} } ptr.push_back(col.size()); }
    M A(std::make_tuple(n,ptr,col,val)); cases++;
    amgcl::coarsening::plain_aggregates::params ap; 
    try{ amgcl::coarsening::plain_aggregates ag(A,ap);
      // partition invariants
      std::vector<int> cnt(ag.count,0); bool bad=false;
      for(int i=0;i<n;++i){ bool strong=false; for(auto j=ptr[i];j<ptr[i+1];++j) if(ag.strong_connection[j]) strong=true; if(strong!=(ag.id[i]>=0)) bad=true; if(ag.id[i]>=(ptrdiff_t)ag.count) bad=true; if(ag.id[i]>=0) cnt[ag.id[i]]++; }
      for(auto c:cnt) if(c==0) bad=true; if(bad){ bad_part++; if(bad_part<5) printf("bad partition mask=%u vk=%d\n",mask,vk);} 
    }catch(amgcl::error::empty_level&){ empty++; }
    if(vk==0){
      // SA / RS row sums on zero-row-sum rows with strong neighbour (rows 1..5)
      try{ amgcl::coarsening::smoothed_aggregation<B> sa; auto PR=sa.transfer_operators(A); auto&P=*std::get<0>(PR); amgcl::coarsening::plain_aggregates ag(A,ap);
        for(int i=1;i<n;++i){ if(ag.id[i]<0) continue; double s=0; for(auto j=P.ptr[i];j<P.ptr[i+1];++j) s+=P.val[j]; if(std::abs(s-1)>1e-12){ bad_rowsum_sa++; if(bad_rowsum_sa<5) printf("SA rowsum %g mask=%u row %d\n",s,mask,i);} }
      }catch(amgcl::error::empty_level&){}
      try{ amgcl::coarsening::ruge_stuben<B> rs; auto PR=rs.transfer_operators(A); auto&P=*std::get<0>(PR);
        for(int i=1;i<n;++i){ bool offd=false; for(auto j=ptr[i];j<ptr[i+1];++j) if(col[j]!=i) offd=true; if(!offd) continue; double s=0; for(auto j=P.ptr[i];j<P.ptr[i+1];++j) s+=P.val[j]; if(std::abs(s-1)>1e-12){ bad_rowsum_rs++; if(bad_rowsum_rs<5) printf("RS rowsum %g mask=%u row %d\n",s,mask,i);} }
      }catch(amgcl::error::empty_level&){}
    }
  }}
  printf("cases=%ld empty_level=%ld bad_partition=%ld bad_rowsum_sa=%ld bad_rowsum_rs=%ld\n",cases,empty,bad_part,bad_rowsum_sa,bad_rowsum_rs);
}
