#include <amgcl/backend/builtin.hpp>
#include <amgcl/adapter/crs_tuple.hpp>
#include <amgcl/solver/cg.hpp>
#include <amgcl/solver/gmres.hpp>
#include <amgcl/solver/fgmres.hpp>
#include <amgcl/solver/lgmres.hpp>
#include <amgcl/solver/bicgstab.hpp>
#include <Eigen/Dense>
#include <iostream>
#include <random>
typedef amgcl::backend::builtin<double> B; typedef amgcl::backend::crs<double> M;
typedef Eigen::Matrix<long double,-1,-1> LD; typedef Eigen::Matrix<long double,-1,1> LV;
struct dense_precond { typedef B backend_type; typedef M matrix; std::shared_ptr<M> A; LD P; int n;
  template<class V1,class V2> void apply(const V1&f,V2&&x) const { for(int i=0;i<n;++i){ long double s=0; for(int j=0;j<n;++j) s+=P(i,j)*f[j]; x[i]=(double)s; } }
  const M& system_matrix() const {return *A;} };
int main(int argc,char**argv){
  std::mt19937 rng(argc>1?atoi(argv[1]):1); std::normal_distribution<double> N(0,1);
  double worst_cg=0, worst_gm=0, worst_fg=0, worst_gml=0; int cases=0; bool mono=true;
  for(int rep=0;rep<40;++rep){
    int n=6+rng()%14;
    // SPD A with kappa<=10: Q diag Q^T
    Eigen::MatrixXd G(n,n); for(int i=0;i<n*n;++i) G(i/n,i%n)=N(rng); Eigen::HouseholderQR<Eigen::MatrixXd> qr(G); Eigen::MatrixXd Q=qr.householderQ();
    Eigen::VectorXd d(n); for(int i=0;i<n;++i) d(i)=1+9.0*(rng()%1000)/1000.0; Eigen::MatrixXd As=Q*d.asDiagonal()*Q.transpose(); As=0.5*(As+As.transpose().eval());
    Eigen::MatrixXd An=As; for(int i=0;i<n;++i)for(int j=0;j<n;++j) An(i,j)+=0.3*N(rng)*(i!=j)/n; // nonsym perturbation
    // SPD preconditioner approx
    Eigen::VectorXd pd(n); for(int i=0;i<n;++i) pd(i)=0.5+(rng()%1000)/1000.0; Eigen::MatrixXd Ps=Q*pd.asDiagonal()*Q.transpose(); Ps=0.5*(Ps+Ps.transpose().eval());
    auto tocsr=[&](const Eigen::MatrixXd&X){ std::vector<ptrdiff_t> ptr(1,0),col; std::vector<double> val; for(int i=0;i<n;++i){for(int j=0;j<n;++j){col.push_back(j);val.push_back(X(i,j));} ptr.push_back(col.size());} return std::make_shared<M>(std::make_tuple(n,ptr,col,val)); };
    std::vector<double> f(n),x0(n); for(auto&v:f)v=N(rng); for(auto&v:x0)v=(rep%2)?N(rng):0.0;
    for(int k=1;k<=std::min(n,8);++k){
      // ---- CG
      { dense_precond P; P.n=n; P.A=tocsr(As); P.P=Ps.cast<long double>(); amgcl::solver::cg<B>::params sp; sp.maxiter=k; sp.tol=0; sp.abstol=0; amgcl::solver::cg<B> S(n,sp); std::vector<double> x=x0; S(P,f,x);
        LD A=As.cast<long double>(), Pm=P.P; LV fv(n),xv0(n),xk(n); for(int i=0;i<n;++i){fv(i)=f[i];xv0(i)=x0[i];xk(i)=x[i];} LV xs=A.partialPivLu().solve(fv); LV r0=fv-A*xv0;
        LD K(n,k); LV v=Pm*r0; for(int j=0;j<k;++j){ K.col(j)=v; v=Pm*(A*v); } // Krylov basis of (PA), start P r0
        Eigen::HouseholderQR<LD> hq(K); LD Qk=LD(hq.householderQ())*LD::Identity(n,k);
        // minimise ||xs - x0 - Qk y||_A -> (Qk^T A Qk) y = Qk^T A (xs-x0)
        LV y=(Qk.transpose()*A*Qk).ldlt().solve(Qk.transpose()*A*(xs-xv0)); LV xo=xv0+Qk*y; long double eo=sqrtl((xs-xo).dot(A*(xs-xo))), ea=sqrtl((xs-xk).dot(A*(xs-xk)));
        { long double e0=sqrtl((xs-xv0).dot(A*(xs-xv0))); worst_cg=std::max(worst_cg,(double)((ea-eo)/(eo+1e-9L*e0))); } }
      // ---- GMRES right, FGMRES : minimal residual over x0 + P K_k(AP, r0)
      { dense_precond P; P.n=n; P.A=tocsr(An); P.P=Ps.cast<long double>(); LD A=An.cast<long double>(), Pm=P.P; LV fv(n),xv0(n); for(int i=0;i<n;++i){fv(i)=f[i];xv0(i)=x0[i];} LV r0=fv-A*xv0;
        LD K(n,k); LV v=r0; for(int j=0;j<k;++j){ K.col(j)=v; v=A*(Pm*v); } Eigen::HouseholderQR<LD> hq(K); LD Qk=LD(hq.householderQ())*LD::Identity(n,k); LD W=A*Pm*Qk; LV y=W.householderQr().solve(r0); long double ro=(r0-W*y).norm();
        { amgcl::solver::gmres<B>::params sp; sp.maxiter=k; sp.tol=0; sp.abstol=0; sp.M=30; amgcl::solver::gmres<B> S(n,sp); std::vector<double> x=x0; auto res=S(P,f,x); LV xk(n); for(int i=0;i<n;++i) xk(i)=x[i]; long double ra=(fv-A*xk).norm(); worst_gm=std::max(worst_gm,(double)((ra-ro)/(ro+1e-9L*r0.norm()))); }
        { amgcl::solver::fgmres<B>::params sp; sp.maxiter=k; sp.tol=0; sp.abstol=0; sp.M=30; amgcl::solver::fgmres<B> S(n,sp); std::vector<double> x=x0; S(P,f,x); LV xk(n); for(int i=0;i<n;++i) xk(i)=x[i]; long double ra=(fv-A*xk).norm(); worst_fg=std::max(worst_fg,(double)((ra-ro)/(ro+1e-9L*r0.norm()))); }
        // left GMRES: minimise ||P(f - A x)|| over x0 + K_k(PA, P r0)
        { LV z0=Pm*r0; LD K2(n,k); LV v2=z0; for(int j=0;j<k;++j){ K2.col(j)=v2; v2=Pm*(A*v2);} Eigen::HouseholderQR<LD> h2(K2); LD Q2=LD(h2.householderQ())*LD::Identity(n,k); LD W2=Pm*A*Q2; LV y2=W2.householderQr().solve(z0); long double ro2=(z0-W2*y2).norm();
          amgcl::solver::gmres<B>::params sp; sp.maxiter=k; sp.tol=0; sp.abstol=0; sp.M=30; sp.pside=amgcl::preconditioner::side::left; amgcl::solver::gmres<B> S(n,sp); std::vector<double> x=x0; S(P,f,x); LV xk(n); for(int i=0;i<n;++i) xk(i)=x[i]; long double ra=(Pm*(fv-A*xk)).norm(); worst_gml=std::max(worst_gml,(double)((ra-ro2)/(ro2+1e-9L*z0.norm()))); }
      }
      cases++; }
  }
  printf("cases=%d worst rel excess over optimum: CG(A-norm err) %.2e  GMRES-right %.2e  FGMRES %.2e  GMRES-left %.2e\n",cases,worst_cg,worst_gm,worst_fg,worst_gml);
}
