#include <amgcl/backend/builtin.hpp>
#include <amgcl/adapter/crs_tuple.hpp>
#include <amgcl/relaxation/runtime.hpp>
#include <Eigen/Dense>
#include <iostream>
#include <random>
typedef amgcl::backend::builtin<double> B;
typedef amgcl::backend::crs<double> M;
typedef Eigen::Matrix<long double,-1,-1> LD; typedef Eigen::Matrix<long double,-1,1> LV;
int main(int argc,char**argv){
  std::mt19937 rng(argc>1?atoi(argv[1]):1); std::uniform_real_distribution<double> U(-1,1);
  for(int rep=0;rep<6;++rep){
    int n=8+rng()%25; bool sym=rep%2==0; bool tri = rep>=4;
    LD A=LD::Zero(n,n);
    for(int i=0;i<n;++i)for(int j=0;j<n;++j){ if(i==j) continue; bool nz = tri? (std::abs(i-j)==1) : (rng()%6==0); if(nz){ double v=-std::abs(U(rng))-0.1; A(i,j)=v; if(sym) A(j,i)=v; } }
    for(int i=0;i<n;++i){ long double s=0; for(int j=0;j<n;++j) if(j!=i) s+=fabsl(A(i,j)); A(i,i)=s+0.5+std::abs(U(rng)); }
    std::vector<ptrdiff_t> ptr(1,0),col; std::vector<double> val; for(int i=0;i<n;++i){ for(int j=0;j<n;++j) if(A(i,j)!=0){col.push_back(j); val.push_back((double)A(i,j));} ptr.push_back(col.size()); }
    M Am(std::make_tuple(n,ptr,col,val));
    LV xs(n), f; for(int i=0;i<n;++i) xs(i)=U(rng); f=A*xs;
    const char* rl[]={"damped_jacobi","spai0","spai1","gauss_seidel","ilu0","iluk","ilup","ilut","chebyshev"};
    for(auto r:rl){ boost::property_tree::ptree p; p.put("type",r); if(std::string(r)=="ilut") p.put("tau",0.0);
      amgcl::runtime::relaxation::wrapper<B> R(Am,p);
      amgcl::backend::numa_vector<double> fv(n), x(n), t(n); for(int i=0;i<n;++i){fv[i]=(double)f(i); x[i]=(double)xs(i);} 
      R.apply_pre(Am,fv,x,t); double d1=0; for(int i=0;i<n;++i) d1=std::max(d1,std::abs(x[i]-(double)xs(i)));
      for(int i=0;i<n;++i) x[i]=(double)xs(i); R.apply_post(Am,fv,x,t); double d2=0; for(int i=0;i<n;++i) d2=std::max(d2,std::abs(x[i]-(double)xs(i)));
      // extract M^-1 via apply_pre from zero: x = Minv f
      LD Mi(n,n); for(int j=0;j<n;++j){ for(int i=0;i<n;++i){fv[i]=(i==j); x[i]=0;} R.apply_pre(Am,fv,x,t); for(int i=0;i<n;++i) Mi(i,j)=x[i]; }
      LD Mp(n,n); for(int j=0;j<n;++j){ for(int i=0;i<n;++i){fv[i]=(i==j); x[i]=0;} R.apply_post(Am,fv,x,t); for(int i=0;i<n;++i) Mp(i,j)=x[i]; }
      LD Ma(n,n); for(int j=0;j<n;++j){ for(int i=0;i<n;++i){fv[i]=(i==j); x[i]=0;} R.apply(Am,fv,x); for(int i=0;i<n;++i) Ma(i,j)=x[i]; }
      // references
      long double err=-1; std::string what;
      if(std::string(r)=="damped_jacobi"){ LD D=LD::Zero(n,n); for(int i=0;i<n;++i) D(i,i)=0.72L/A(i,i); err=(Mi-D).cwiseAbs().maxCoeff(); }
      if(std::string(r)=="gauss_seidel"){ LD Lo=A.triangularView<Eigen::Lower>(); LD Up=A.triangularView<Eigen::Upper>(); err=std::max((Mi-Lo.inverse()).cwiseAbs().maxCoeff(), (Mp-Up.inverse()).cwiseAbs().maxCoeff()); }
      if(std::string(r)=="spai0"){ LD D=LD::Zero(n,n); for(int i=0;i<n;++i){ long double s=0; for(int j=0;j<n;++j) s+=A(i,j)*A(i,j); D(i,i)=A(i,i)/s;} err=(Mi-D).cwiseAbs().maxCoeff(); }
      if(std::string(r).substr(0,3)=="ilu" && tri){ err=(Ma-A.inverse()).cwiseAbs().maxCoeff(); what=" (tri exact)"; }
      if(std::string(r)=="ilu0" && !tri){ LD LU=Ma.inverse(); long double e=0; for(int i=0;i<n;++i)for(int j=0;j<n;++j) if(A(i,j)!=0) e=std::max(e,fabsl(LU(i,j)-A(i,j))); err=e; what=" (LU=A on pattern)"; }
      printf("rep%d n=%d %s %-14s fixpt pre=%.1e post=%.1e  pre==post:%.1e apply-vs-pre:%.1e  ref_err=%.1Le%s\n",rep,n,sym?"sym":"nonsym",r,d1,d2,(double)(Mi-Mp).cwiseAbs().maxCoeff(),(double)(Mi-Ma).cwiseAbs().maxCoeff(),err,what.c_str());
    }
  }
}
