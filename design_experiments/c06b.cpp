#include <amgcl/backend/builtin.hpp>
#include <amgcl/adapter/crs_tuple.hpp>
#include <amgcl/relaxation/spai1.hpp>
#include <amgcl/relaxation/spai0.hpp>
#include <amgcl/relaxation/chebyshev.hpp>
#include <amgcl/relaxation/ilu0.hpp>
#include <amgcl/relaxation/iluk.hpp>
#include <amgcl/relaxation/ilut.hpp>
#include <Eigen/Dense>
#include <iostream>
#include <random>
typedef amgcl::backend::builtin<double> B; typedef amgcl::backend::crs<double> M;
typedef Eigen::Matrix<long double,-1,-1> LD; typedef Eigen::Matrix<long double,-1,1> LV;
int main(int argc,char**argv){ std::mt19937 rng(argc>1?atoi(argv[1]):1); std::uniform_real_distribution<double> U(-1,1); double w_spai1=0,w_cheb=0,w_cheb_s=0,w_par=0; int cases=0;
  for(int rep=0;rep<40;++rep){ int n=8+rng()%30; bool sym=rep%2; LD A=LD::Zero(n,n); for(int i=0;i<n;++i)for(int j=0;j<n;++j) if(i!=j&&rng()%6==0){ double v=-0.1-std::abs(U(rng)); A(i,j)=v; if(sym)A(j,i)=v; } for(int i=0;i<n;++i){ long double s=0; for(int j=0;j<n;++j) if(j!=i) s+=fabsl(A(i,j)); A(i,i)=s+0.5+std::abs(U(rng)); }
    std::vector<ptrdiff_t> ptr(1,0),col; std::vector<double> val; for(int i=0;i<n;++i){ for(int j=0;j<n;++j) if(A(i,j)!=0){col.push_back(j);val.push_back((double)A(i,j));} ptr.push_back(col.size()); } M Am(std::make_tuple(n,ptr,col,val));
    // SPAI1: rows of M minimise ||e_i^T - m_i^T A||_2 over pattern of row i of A: gradient (m_i^T A - e_i^T) A^T restricted to pattern = 0
    { amgcl::relaxation::spai1<B> S(Am, amgcl::relaxation::spai1<B>::params(), B::params()); auto&Mm=*S.M; for(int i=0;i<n;++i){ LV m=LV::Zero(n); for(auto j=Mm.ptr[i];j<Mm.ptr[i+1];++j) m(Mm.col[j])=Mm.val[j]; LV r=(m.transpose()*A).transpose(); r(i)-=1; LV g=A*r; long double sc=A.row(i).norm()*A.norm(); for(auto j=ptr[i];j<ptr[i+1];++j) w_spai1=std::max(w_spai1,(double)(fabsl(g(col[j]))/sc)); } }
    // Chebyshev: error polynomial T_d((dI-A)/c)/T_d(d/c) with Gershgorin hi, lo=hi/30 (unscaled) ; x0=0: x = (I - p(A)) A^-1 f
    for(int scale=0;scale<2;++scale){ amgcl::relaxation::chebyshev<B>::params p; p.degree=4; p.scale=scale; amgcl::relaxation::chebyshev<B> C(Am,p,B::params());
      LD As=A; if(scale) for(int i=0;i<n;++i) As.row(i)/=A(i,i); long double hi=0; for(int i=0;i<n;++i){ long double s=0; for(int j=0;j<n;++j) s+=fabsl(As(i,j)); hi=std::max(hi,s);} long double lo=hi*(long double)(1.0f/30), d=(hi+lo)/2, c=(hi-lo)/2;
      LD Z=(d*LD::Identity(n,n)-As)/c; LD T0=LD::Identity(n,n), T1=Z; long double t0=1,t1=d/c; for(int k=2;k<=4;++k){ LD T2=2*Z*T1-T0; T0=T1;T1=T2; long double t2=2*(d/c)*t1-t0; t0=t1;t1=t2; } LD Pm=T1/t1; // error propagation
      LV xs(n); for(int i=0;i<n;++i) xs(i)=U(rng); LV f=A*xs; amgcl::backend::numa_vector<double> fv(n),x(n),t(n); for(int i=0;i<n;++i){fv[i]=(double)f(i);x[i]=0;} C.apply_pre(Am,fv,x,t); LV xe=xs-Pm*xs; double e=0; for(int i=0;i<n;++i) e=std::max(e,(double)fabsl(x[i]-xe(i))); (scale?w_cheb_s:w_cheb)=std::max(scale?w_cheb_s:w_cheb,e); }
    // parallel vs serial ILU solve
    { amgcl::relaxation::iluk<B>::params ps; ps.k=2; ps.solve.serial=true; auto pp=ps; pp.solve.serial=false; amgcl::relaxation::iluk<B> S1(Am,ps,B::params()), S2(Am,pp,B::params()); amgcl::backend::numa_vector<double> f(n),x1(n),x2(n); for(int i=0;i<n;++i) f[i]=U(rng); S1.apply(Am,f,x1); S2.apply(Am,f,x2); for(int i=0;i<n;++i) w_par=std::max(w_par,std::abs(x1[i]-x2[i])); }
    cases++; }
  printf("cases=%d spai1 gradient(rel)=%.2e chebyshev err=%.2e scaled=%.2e parallel-vs-serial ilu=%.2e\n",cases,w_spai1,w_cheb,w_cheb_s,w_par);
}
