#include <amgcl/backend/builtin.hpp>
#include <amgcl/backend/block_crs.hpp>
#include <amgcl/value_type/static_matrix.hpp>
#include <amgcl/value_type/complex.hpp>
#include <amgcl/adapter/crs_tuple.hpp>
#include <iostream>
#include <random>
#include <complex>
#include <cstring>
#include <limits>
typedef amgcl::backend::crs<double> M;
using namespace amgcl;
int main(int argc,char**argv){ std::mt19937 rng(argc>1?atoi(argv[1]):1); long bad=0, cases=0; double NaN=std::numeric_limits<double>::quiet_NaN(), Inf=std::numeric_limits<double>::infinity();
  auto ival=[&]{ return (double)((int)(rng()%9)-4); };
  for(int rep=0;rep<400;++rep){ int n=1+rng()%23, m=1+rng()%23;
    std::vector<ptrdiff_t> ptr(1,0),col; std::vector<double> val; for(int i=0;i<n;++i){ for(int j=0;j<m;++j) if(rng()%3==0){col.push_back(j);val.push_back(ival());} ptr.push_back(col.size()); }
    M A(n,m,ptr,col,val); std::vector<double> x(m),y(n),y0(n); for(auto&v:x)v=ival(); for(auto&v:y0)v=ival();
    for(double alpha:{0.0,1.0,-2.0}) for(double beta:{0.0,1.0,0.5}){ 
      // builtin
      for(int fill=0;fill<3;++fill){ y=y0; if(beta==0){ for(auto&v:y) v= fill==0?0.0:(fill==1?NaN:Inf);} backend::numa_vector<double> X(x), Y(y); backend::spmv(alpha,A,X,beta,Y); cases++;
        for(int i=0;i<n;++i){ double s=0; for(auto j=ptr[i];j<ptr[i+1];++j) s+=val[j]*x[col[j]]; double ref=alpha*s+(beta==0?0.0:beta*y0[i]); if(!(Y[i]==ref)){ bad++; if(bad<10) printf("builtin spmv mismatch rep %d a=%g b=%g fill=%d: %g vs %g\n",rep,alpha,beta,fill,Y[i],ref); break; } } }
      // block_crs with block sizes 1..5
      for(int bs=1;bs<=5;++bs){ for(int fill=0;fill<2;++fill){ y=y0; if(beta==0) for(auto&v:y) v= fill?NaN:0.0; backend::bcrs<double,ptrdiff_t,ptrdiff_t> Bm(A,bs); backend::numa_vector<double> X(x), Y(y); backend::spmv(alpha,Bm,X,beta,Y); cases++;
        for(int i=0;i<n;++i){ double s=0; for(auto j=ptr[i];j<ptr[i+1];++j) s+=val[j]*x[col[j]]; double ref=alpha*s+(beta==0?0.0:beta*y0[i]); if(!(Y[i]==ref)){ bad++; if(bad<10) printf("bcrs spmv mismatch rep %d bs=%d a=%g b=%g fill=%d row %d: %g vs %g\n",rep,bs,alpha,beta,fill,i,Y[i],ref); break; } }
        // residual
        backend::numa_vector<double> F(y0), R(n); for(int i=0;i<n;++i) R[i]=NaN; backend::residual(F,Bm,X,R); for(int i=0;i<n;++i){ double s=0; for(auto j=ptr[i];j<ptr[i+1];++j) s+=val[j]*x[col[j]]; if(!(R[i]==y0[i]-s)){ bad++; if(bad<10) printf("bcrs residual mismatch rep %d bs=%d\n",rep,bs); break;} } } }
    }
    // vector ops with NaN in output when coefficient zero
    { int k=n; backend::numa_vector<double> a(k),b(k),z(k); for(int i=0;i<k;++i){a[i]=ival();b[i]=ival();z[i]=NaN;} backend::axpby(2.0,a,0.0,z); for(int i=0;i<k;++i) if(!(z[i]==2*a[i])){bad++;break;} for(int i=0;i<k;++i) z[i]=Inf; backend::axpbypcz(1.0,a,-1.0,b,0.0,z); for(int i=0;i<k;++i) if(!(z[i]==a[i]-b[i])){bad++;break;} for(int i=0;i<k;++i) z[i]=NaN; backend::vmul(3.0,a,b,0.0,z); for(int i=0;i<k;++i) if(!(z[i]==3*a[i]*b[i])){bad++; break;} cases+=3; }
    // transpose / sum / product exact
    { auto T=backend::transpose(A); std::vector<double> D(n*m,0); for(int i=0;i<n;++i)for(auto j=ptr[i];j<ptr[i+1];++j) D[i*m+col[j]]=val[j]; bool ok=(T->nrows==(size_t)m&&T->ncols==(size_t)n); size_t cnt=0; for(size_t i=0;i<T->nrows&&ok;++i) for(auto j=T->ptr[i];j<T->ptr[i+1];++j){ if(T->val[j]!=D[T->col[j]*m+i]) ok=false; cnt++; } if(cnt!=col.size()) ok=false; if(!ok){bad++; printf("transpose mismatch rep %d\n",rep);} cases++;
      std::vector<ptrdiff_t> p2(1,0),c2; std::vector<double> v2; for(int i=0;i<n;++i){ for(int j=0;j<m;++j) if(rng()%3==0){c2.push_back(j);v2.push_back(ival());} p2.push_back(c2.size()); } M B2(n,m,p2,c2,v2); auto S=backend::sum(2.0,A,-1.0,B2,true); std::vector<double> E(n*m,0); std::vector<char> pat(n*m,0); for(int i=0;i<n;++i){for(auto j=ptr[i];j<ptr[i+1];++j){E[i*m+col[j]]+=2*val[j];pat[i*m+col[j]]=1;} for(auto j=p2[i];j<p2[i+1];++j){E[i*m+c2[j]]-=v2[j];pat[i*m+c2[j]]=1;}} ok=true; cnt=0; for(int i=0;i<n;++i){ ptrdiff_t prev=-1; for(auto j=S->ptr[i];j<S->ptr[i+1];++j){ if(S->col[j]<=prev) ok=false; prev=S->col[j]; if(!pat[i*m+S->col[j]]||S->val[j]!=E[i*m+S->col[j]]) ok=false; cnt++; } } size_t ex=0; for(auto c:pat) ex+=c; if(cnt!=ex) ok=false; if(!ok){bad++; printf("sum mismatch rep %d\n",rep);} cases++; }
    // complex inner product conj-linearity & block inner product
    { int k=n; std::vector<std::complex<double>> a(k),b(k); for(int i=0;i<k;++i){a[i]={ival(),ival()}; b[i]={ival(),ival()};} auto ip=backend::inner_product(a,b); std::complex<double> ref=0; for(int i=0;i<k;++i) ref+=a[i]*std::conj(b[i]); if(ip!=ref){bad++; printf("complex inner product mismatch\n");} cases++; }
    // diagonal with invert
    if(n==m){ auto d=backend::diagonal(A,true); for(int i=0;i<n;++i){ bool has=false; double dv=0; for(auto j=ptr[i];j<ptr[i+1];++j) if(col[j]==i){has=true;dv=val[j];break;} if(has){ double ref= dv==0?1.0:1.0/dv; if((*d)[i]!=ref){bad++; printf("diagonal invert mismatch\n"); break;} } } cases++; }
  }
  printf("cases=%ld bad=%ld\n",cases,bad);
}
