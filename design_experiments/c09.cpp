#include <amgcl/amg.hpp>
#include <amgcl/make_solver.hpp>
#include <amgcl/solver/runtime.hpp>
#include <amgcl/coarsening/runtime.hpp>
#include <amgcl/relaxation/runtime.hpp>
#include <amgcl/adapter/crs_tuple.hpp>
#include <iostream>
#include <random>
#include <cstring>
typedef amgcl::backend::builtin<double> B;
typedef amgcl::backend::crs<double> M;
struct CSR { int n; std::vector<ptrdiff_t> ptr, col; std::vector<double> val; };
CSR grid2d(int nx,int ny,double conv){ CSR A; A.n=nx*ny; A.ptr.push_back(0);
  for(int j=0;j<ny;++j)for(int i=0;i<nx;++i){ int r=j*nx+i;
    if(j>0){A.col.push_back(r-nx);A.val.push_back(-1.1);} if(i>0){A.col.push_back(r-1);A.val.push_back(-1-conv);} A.col.push_back(r);A.val.push_back(4.3+conv);
    if(i+1<nx){A.col.push_back(r+1);A.val.push_back(-0.9);} if(j+1<ny){A.col.push_back(r+nx);A.val.push_back(-1.3);} A.ptr.push_back(A.col.size()); } return A; }
uint64_t h=1469598103934665603ull; void mix(const void*p,size_t n){ const unsigned char*c=(const unsigned char*)p; for(size_t i=0;i<n;++i){h^=c[i]; h*=1099511628211ull;} }
void hm(const M&A){ mix(&A.nrows,8); mix(&A.ncols,8); mix(A.ptr,8*(A.nrows+1)); mix(A.col,8*A.ptr[A.nrows]); mix(A.val,8*A.ptr[A.nrows]); }
template<class C> void run(const char*name, const M&A){ C c; h=1469598103934665603ull; auto A0=std::make_shared<M>(A); 
  for(int l=0;l<3;++l){ std::shared_ptr<M> P,R; try{ std::tie(P,R)=c.transfer_operators(*A0);}catch(amgcl::error::empty_level){break;} amgcl::backend::sort_rows(*P); amgcl::backend::sort_rows(*R); hm(*P); hm(*R); auto Ac=c.coarse_operator(*A0,*P,*R); amgcl::backend::sort_rows(*Ac); hm(*Ac); A0=Ac; if(A0->nrows<20)break;}
  printf("%s %016lx\n",name,h); }
int main(){
  CSR a=grid2d(40,30,0.5); M A(std::make_tuple(a.n,a.ptr,a.col,a.val));
  run<amgcl::coarsening::aggregation<B>>("aggr",A); run<amgcl::coarsening::smoothed_aggregation<B>>("sa",A); run<amgcl::coarsening::smoothed_aggr_emin<B>>("emin",A); run<amgcl::coarsening::ruge_stuben<B>>("rs",A);
  // relaxations sweeps
  const char* rl[]={"damped_jacobi","spai0","spai1","gauss_seidel","ilu0","iluk","ilup","ilut","chebyshev"};
  for(auto r:rl){ boost::property_tree::ptree p; p.put("type",r); amgcl::runtime::relaxation::wrapper<B> R(A,p); amgcl::backend::numa_vector<double> f(a.n),x(a.n),t(a.n); for(int i=0;i<a.n;++i){f[i]=std::sin(i*0.7);x[i]=std::cos(i*1.3);} R.apply_pre(A,f,x,t); R.apply_post(A,f,x,t); h=1469598103934665603ull; mix(x.data(),8*a.n); printf("%s %016lx\n",r,h);} 
  { amgcl::backend::numa_vector<double> f(a.n),x(a.n); for(int i=0;i<a.n;++i){f[i]=std::sin(i*0.7);x[i]=std::cos(i*1.3);} double ip=amgcl::backend::inner_product(f,x); printf("inner %.17g\n",ip); printf("sr_gersh %.17g sr_pow %.17g\n", amgcl::backend::spectral_radius<true>(A,0), amgcl::backend::spectral_radius<true>(A,10)); }
}
