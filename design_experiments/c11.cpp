#include <amgcl/backend/builtin.hpp>
#include <amgcl/adapter/crs_tuple.hpp>
#include <amgcl/mpi/util.hpp>
#include <amgcl/mpi/distributed_matrix.hpp>
#include <amgcl/mpi/inner_product.hpp>
#include <iostream>
#include <random>
typedef amgcl::backend::builtin<double> B;
typedef amgcl::backend::crs<double> M;
int main(int argc,char**argv){
  amgcl::mpi::init mpi(&argc,&argv); amgcl::mpi::communicator comm(MPI_COMM_WORLD);
  unsigned seed=argc>1?atoi(argv[1]):1; std::mt19937 rng(seed);
  int fails=0;
  for(int rep=0;rep<30;++rep){
    int n=5+rng()%40, m=5+rng()%40;
    // global matrix n x m
    std::vector<ptrdiff_t> ptr(1,0),col; std::vector<double> val;
    for(int i=0;i<n;++i){ for(int j=0;j<m;++j) if(rng()%5==0){col.push_back(j); val.push_back((double)((int)(rng()%9)-4)+0.5);} ptr.push_back(col.size()); }
    // random contiguous partitions of rows and cols (same on all ranks since same rng)
    auto part=[&](int N){ std::vector<int> cut(comm.size+1,0); cut[comm.size]=N; for(int r=1;r<comm.size;++r) cut[r]=rng()%(N+1); std::sort(cut.begin(),cut.end()); return cut; };
    auto rp=part(n), cp=part(m);
    int rb=rp[comm.rank], re=rp[comm.rank+1];
    std::vector<ptrdiff_t> lp(1,0), lc; std::vector<double> lv; for(int i=rb;i<re;++i){ for(auto j=ptr[i];j<ptr[i+1];++j){lc.push_back(col[j]); lv.push_back(val[j]);} lp.push_back(lc.size()); }
    M loc(re-rb, m, lp, lc, lv); 
    amgcl::mpi::distributed_matrix<B> A(comm, loc, cp[comm.rank+1]-cp[comm.rank]);
    double g0=amgcl::backend::spectral_radius<false>(A,0);
    std::vector<double> all(comm.size); MPI_Allgather(&g0,1,MPI_DOUBLE,all.data(),1,MPI_DOUBLE,comm);
    double serial=0; for(int i=0;i<n;++i){double s=0; for(auto j=ptr[i];j<ptr[i+1];++j) s+=std::abs(val[j]); serial=std::max(serial,s);} 
    bool same=true; for(auto v:all) if(v!=all[0]) same=false;
    if(!same || all[0]!=serial){ if(comm.rank==0){ printf("rep %d gersh: serial %g ranks:",rep,serial); for(auto v:all) printf(" %g",v); puts(""); } fails++; }
    // transpose
    auto T=amgcl::mpi::transpose(A);
    // spmv
    A.move_to_backend();
    std::vector<double> xg(m); for(auto&v:xg) v=(double)((int)(rng()%7)-3);
    amgcl::backend::numa_vector<double> x(cp[comm.rank+1]-cp[comm.rank]), y(re-rb); for(int j=cp[comm.rank];j<cp[comm.rank+1];++j) x[j-cp[comm.rank]]=xg[j];
    amgcl::backend::spmv(1.0,A,x,0.0,y);
    for(int i=rb;i<re;++i){ double s=0; for(auto j=ptr[i];j<ptr[i+1];++j) s+=val[j]*xg[col[j]]; if(s!=y[i-rb]){ printf("rank %d rep %d spmv row %d: %g vs %g\n",comm.rank,rep,i,s,y[i-rb]); fails++; break;} }
  }
  int tot; MPI_Allreduce(&fails,&tot,1,MPI_INT,MPI_SUM,comm); if(comm.rank==0) printf("total fails %d\n",tot);
}
