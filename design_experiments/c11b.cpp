#include <amgcl/backend/builtin.hpp>
#include <amgcl/adapter/crs_tuple.hpp>
#include <amgcl/mpi/util.hpp>
#include <amgcl/mpi/distributed_matrix.hpp>
#include <amgcl/mpi/inner_product.hpp>
#include <iostream>
#include <random>
#include <map>
typedef amgcl::backend::builtin<double> B; typedef amgcl::backend::crs<double> M;
struct G { int n,m; std::vector<ptrdiff_t> ptr,col; std::vector<double> val; };
G gen(std::mt19937&rng,int n,int m){ G g; g.n=n; g.m=m; g.ptr.push_back(0); for(int i=0;i<n;++i){ for(int j=0;j<m;++j) if(rng()%4==0){g.col.push_back(j); g.val.push_back((double)((int)(rng()%9)-4)+0.5);} g.ptr.push_back(g.col.size()); } return g; }
std::shared_ptr<amgcl::mpi::distributed_matrix<B>> dist(amgcl::mpi::communicator comm,const G&g,const std::vector<int>&rp,const std::vector<int>&cp){ int rb=rp[comm.rank],re=rp[comm.rank+1]; std::vector<ptrdiff_t> lp(1,0),lc; std::vector<double> lv; for(int i=rb;i<re;++i){ for(auto j=g.ptr[i];j<g.ptr[i+1];++j){lc.push_back(g.col[j]);lv.push_back(g.val[j]);} lp.push_back(lc.size()); } M loc(re-rb,g.m,lp,lc,lv); return std::make_shared<amgcl::mpi::distributed_matrix<B>>(comm,loc,cp[comm.rank+1]-cp[comm.rank]); }
// gather a distributed matrix into a dense map on every rank (Allgather of triplets)
std::map<std::pair<long,long>,double> gather(amgcl::mpi::communicator comm,const amgcl::mpi::distributed_matrix<B>&A,int row_shift){ auto&L=*A.local(); auto&R=*A.remote(); std::vector<double> t; long cs=A.loc_col_shift(); for(size_t i=0;i<L.nrows;++i){ for(auto j=L.ptr[i];j<L.ptr[i+1];++j){t.push_back(i+row_shift);t.push_back(L.col[j]+cs);t.push_back(L.val[j]);} for(auto j=R.ptr[i];j<R.ptr[i+1];++j){t.push_back(i+row_shift);t.push_back(R.col[j]);t.push_back(R.val[j]);} }
  int cnt=t.size(); std::vector<int> cnts(comm.size),disp(comm.size+1,0); MPI_Allgather(&cnt,1,MPI_INT,cnts.data(),1,MPI_INT,comm); for(int i=0;i<comm.size;++i)disp[i+1]=disp[i]+cnts[i]; std::vector<double> all(disp.back()); MPI_Allgatherv(t.data(),cnt,MPI_DOUBLE,all.data(),cnts.data(),disp.data(),MPI_DOUBLE,comm); std::map<std::pair<long,long>,double> m; for(size_t k=0;k<all.size();k+=3){ auto key=std::make_pair((long)all[k],(long)all[k+1]); if(m.count(key)) m[key]=NAN; else m[key]=all[k+2]; } return m; }
int main(int argc,char**argv){ amgcl::mpi::init mpi(&argc,&argv); amgcl::mpi::communicator comm(MPI_COMM_WORLD); std::mt19937 rng(argc>1?atoi(argv[1]):1); int fails=0;
  auto part=[&](int N){ std::vector<int> cut(comm.size+1,0); cut[comm.size]=N; for(int r=1;r<comm.size;++r) cut[r]=rng()%(N+1); std::sort(cut.begin(),cut.end()); return cut; };
  for(int rep=0;rep<40;++rep){ int n=3+rng()%25,k=3+rng()%25,m=3+rng()%25; G a=gen(rng,n,k), b=gen(rng,k,m); auto rn=part(n), rk=part(k), rm=part(m);
    auto A=dist(comm,a,rn,rk), Bm=dist(comm,b,rk,rm);
    auto T=amgcl::mpi::transpose(*A); auto tm=gather(comm,*T,rk[comm.rank]);
    std::map<std::pair<long,long>,double> tref; for(int i=0;i<n;++i)for(auto j=a.ptr[i];j<a.ptr[i+1];++j) tref[{a.col[j],i}]=a.val[j];
    if(tm!=tref){ fails++; if(comm.rank==0) printf("rep %d transpose mismatch (%zu vs %zu entries)\n",rep,tm.size(),tref.size()); }
    auto C=amgcl::mpi::product(*A,*Bm); auto cm=gather(comm,*C,rn[comm.rank]);
    std::map<std::pair<long,long>,double> cref; for(int i=0;i<n;++i)for(auto j=a.ptr[i];j<a.ptr[i+1];++j){int c=a.col[j]; for(auto jb=b.ptr[c];jb<b.ptr[c+1];++jb) cref[{i,b.col[jb]}]+=a.val[j]*b.val[jb];}
    if(cm!=cref){ fails++; if(comm.rank==0) printf("rep %d product mismatch (%zu vs %zu entries)\n",rep,cm.size(),cref.size()); }
    if(C->glob_rows()!=n||C->glob_cols()!=m||T->glob_rows()!=k||T->glob_cols()!=n){ fails++; if(comm.rank==0) puts("global sizes wrong"); }
  }
  if(comm.rank==0) printf("np=%d fails=%d\n",comm.size,fails);
}
