#include <amgcl/backend/builtin.hpp>
#include <amgcl/adapter/crs_tuple.hpp>
#include <amgcl/mpi/util.hpp>
#include <amgcl/mpi/make_solver.hpp>
#include <amgcl/mpi/amg.hpp>
#include <amgcl/mpi/coarsening/runtime.hpp>
#include <amgcl/mpi/relaxation/runtime.hpp>
#include <amgcl/mpi/solver/runtime.hpp>
#include <amgcl/mpi/direct_solver/runtime.hpp>
#include <amgcl/mpi/partition/runtime.hpp>
#include <iostream>
#include <random>
typedef amgcl::backend::builtin<double> B;
typedef amgcl::mpi::make_solver<
  amgcl::mpi::amg<B, amgcl::runtime::mpi::coarsening::wrapper<B>, amgcl::runtime::mpi::relaxation::wrapper<B>, amgcl::runtime::mpi::direct::solver<double>, amgcl::runtime::mpi::partition::wrapper<B>>,
  amgcl::runtime::mpi::solver::wrapper<B>> Solver;
int main(int argc,char**argv){ amgcl::mpi::init mpi(&argc,&argv); amgcl::mpi::communicator comm(MPI_COMM_WORLD); unsigned seed=argc>1?atoi(argv[1]):1; std::mt19937 rng(seed);
  int nx=40,ny=30,N=nx*ny; std::vector<ptrdiff_t> gptr(1,0),gcol; std::vector<double> gval; std::uniform_real_distribution<double> U(0.5,2.0);
  // global SPD M-matrix (same on all ranks)
  std::vector<double> kx((nx+1)*ny), ky(nx*(ny+1)); for(auto&k:kx)k=U(rng); for(auto&k:ky)k=U(rng);
  for(int j=0;j<ny;++j)for(int i=0;i<nx;++i){ int r=j*nx+i; double w=kx[j*(nx+1)+i],e=kx[j*(nx+1)+i+1],s=ky[j*nx+i],n=ky[(j+1)*nx+i]; if(j>0){gcol.push_back(r-nx);gval.push_back(-s);} if(i>0){gcol.push_back(r-1);gval.push_back(-w);} gcol.push_back(r);gval.push_back(w+e+s+n); if(i+1<nx){gcol.push_back(r+1);gval.push_back(-e);} if(j+1<ny){gcol.push_back(r+nx);gval.push_back(-n);} gptr.push_back(gcol.size()); }
  std::vector<double> gf(N); for(auto&v:gf) v=U(rng)-1.2;
  const char* coars[]={"aggregation","smoothed_aggregation"}; const char* relax[]={"spai0","damped_jacobi","gauss_seidel","ilu0","iluk","ilut","chebyshev","spai1"}; const char* solv[]={"cg","bicgstab","gmres","fgmres","idrs","bicgstabl","lgmres","richardson"};
  int fails=0, runs=0;
  for(int rep=0;rep<6;++rep){
    std::vector<int> cut(comm.size+1,0); cut[comm.size]=N; for(int r=1;r<comm.size;++r) cut[r]=(rep==0)? (long)N*r/comm.size : rng()%(N+1); std::sort(cut.begin(),cut.end()); if(rep==1 && comm.size>2){ cut[2]=cut[1]; } // force an empty rank
    int rb=cut[comm.rank], re=cut[comm.rank+1], n=re-rb; std::vector<ptrdiff_t> ptr(1,0),col; std::vector<double> val; for(int i=rb;i<re;++i){ for(auto j=gptr[i];j<gptr[i+1];++j){col.push_back(gcol[j]);val.push_back(gval[j]);} ptr.push_back(col.size()); }
    const char*c=coars[rep%2]; const char*r=relax[(rep*3+seed)%8]; const char*s=solv[(rep*5+seed)%8];
    boost::property_tree::ptree p; p.put("precond.coarsening.type",c); p.put("precond.relax.type",r); p.put("solver.type",s); p.put("precond.coarse_enough",100); if(rep%3==2){ p.put("precond.repart.enable",true); p.put("precond.repart.min_per_proc",200); p.put("precond.repart.shrink_ratio",2);} if(std::string(s)=="richardson") p.put("solver.maxiter",500);
    size_t it=0; double res=-1; std::vector<double> x(n,0.0), f(gf.begin()+rb,gf.begin()+re);
    try{ Solver S(comm,std::make_tuple(n,ptr,col,val),p); std::tie(it,res)=S(f,x); }catch(std::exception&e){ printf("rank %d EXC %s (%s/%s/%s)\n",comm.rank,e.what(),c,r,s); }
    // consistency across ranks
    double pack[2]={(double)it,res}; std::vector<double> all(2*comm.size); MPI_Allgather(pack,2,MPI_DOUBLE,all.data(),2,MPI_DOUBLE,comm); bool same=true; for(int k=0;k<comm.size;++k) if(all[2*k]!=all[0]||all[2*k+1]!=all[1]) same=false;
    // gather solution, true residual
    std::vector<int> cnts(comm.size),disp(comm.size); for(int k=0;k<comm.size;++k){cnts[k]=cut[k+1]-cut[k];disp[k]=cut[k];} std::vector<double> gx(N); MPI_Allgatherv(x.data(),n,MPI_DOUBLE,gx.data(),cnts.data(),disp.data(),MPI_DOUBLE,comm);
    long double nr=0,nf=0; for(int i=0;i<N;++i){ long double t=gf[i]; for(auto j=gptr[i];j<gptr[i+1];++j) t-=(long double)gval[j]*gx[gcol[j]]; nr+=t*t; nf+=(long double)gf[i]*gf[i]; } double tr=sqrtl(nr/nf);
    runs++; bool ok = same && res<1e-8 && std::abs(tr-res)<=1e-3*tr+1e-12; if(!ok) fails++;
    if(comm.rank==0) printf("np=%d rep%d %-20s %-13s %-10s parts[%d..] it=%zu res=%.3e true=%.3e same=%d %s\n",comm.size,rep,c,r,s,cut[1],it,res,tr,same,ok?"":"<<<");
  }
  if(comm.rank==0) printf("runs=%d fails=%d\n",runs,fails);
}
