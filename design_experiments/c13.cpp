#include <amgcl/backend/builtin.hpp>
#include <amgcl/backend/builtin_hybrid.hpp>
#include <amgcl/value_type/static_matrix.hpp>
#include <amgcl/adapter/crs_tuple.hpp>
#include <amgcl/adapter/block_matrix.hpp>
#include <amgcl/adapter/eigen.hpp>
#include <amgcl/adapter/ublas.hpp>
#include <amgcl/adapter/zero_copy.hpp>
#include <amgcl/adapter/reorder.hpp>
#include <amgcl/adapter/scaled_problem.hpp>
#include <amgcl/adapter/complex.hpp>
#include <amgcl/amg.hpp>
#include <amgcl/make_solver.hpp>
#include <amgcl/make_block_solver.hpp>
#include <amgcl/coarsening/smoothed_aggregation.hpp>
#include <amgcl/coarsening/aggregation.hpp>
#include <amgcl/coarsening/as_scalar.hpp>
#include <amgcl/relaxation/spai0.hpp>
#include <amgcl/relaxation/ilu0.hpp>
#include <amgcl/relaxation/as_block.hpp>
#include <amgcl/solver/bicgstab.hpp>
#include <amgcl/solver/cg.hpp>
#include <Eigen/Sparse>
#include <boost/numeric/ublas/matrix_sparse.hpp>
#include <iostream>
#include <random>
typedef amgcl::static_matrix<double,2,2> Blk; typedef amgcl::static_matrix<double,2,1> Rhs;
typedef amgcl::backend::builtin<double> SB; typedef amgcl::backend::builtin<Blk> BB; typedef amgcl::backend::builtin_hybrid<Blk> HB;
int main(){
  int nb=120, n=2*nb; std::mt19937 rng(1); std::uniform_real_distribution<double> U(0.5,1.5);
  // scalar matrix with 2x2 block structure: 1D laplacian (x) [[2,0.3],[0.3,1]]
  std::vector<ptrdiff_t> ptr(1,0),col; std::vector<double> val; double C[2][2]={{2,0.3},{0.3,1}};
  for(int ib=0;ib<nb;++ib)for(int k=0;k<2;++k){ for(int jb=std::max(0,ib-1);jb<=std::min(nb-1,ib+1);++jb) for(int l=0;l<2;++l){ double a=(ib==jb?2.2:-1.0); col.push_back(jb*2+l); val.push_back(a*C[k][l]); } ptr.push_back(col.size()); }
  auto A=std::make_tuple(n,ptr,col,val); std::vector<double> f(n,1.0);
  auto resid=[&](const std::vector<double>&x){ long double s=0,nf=0; for(int i=0;i<n;++i){ long double r=f[i]; for(auto j=ptr[i];j<ptr[i+1];++j) r-=(long double)val[j]*x[col[j]]; s+=r*r; nf+=f[i]*f[i]; } return (double)sqrtl(s/nf); };
  { typedef amgcl::make_solver<amgcl::amg<SB,amgcl::coarsening::smoothed_aggregation,amgcl::relaxation::spai0>,amgcl::solver::bicgstab<SB>> S; S s(A); std::vector<double> x(n,0.0); auto r=s(f,x); printf("scalar: %zu %.2e true %.2e\n",std::get<0>(r),std::get<1>(r),resid(x)); }
  { typedef amgcl::make_solver<amgcl::amg<BB,amgcl::coarsening::smoothed_aggregation,amgcl::relaxation::spai0>,amgcl::solver::bicgstab<BB>> S; S s(amgcl::adapter::block_matrix<Blk>(A)); std::vector<double> x(n,0.0); auto F=amgcl::backend::reinterpret_as_rhs<Blk>(f); auto X=amgcl::backend::reinterpret_as_rhs<Blk>(x); auto r=s(F,X); printf("block: %zu %.2e true %.2e\n",std::get<0>(r),std::get<1>(r),resid(x)); }
  { typedef amgcl::make_block_solver<amgcl::amg<BB,amgcl::coarsening::smoothed_aggregation,amgcl::relaxation::spai0>,amgcl::solver::bicgstab<BB>> S; S s(A); std::vector<double> x(n,0.0); auto r=s(f,x); printf("make_block_solver: %zu %.2e true %.2e\n",std::get<0>(r),std::get<1>(r),resid(x)); }
  { typedef amgcl::make_solver<amgcl::amg<SB,amgcl::coarsening::smoothed_aggregation,amgcl::relaxation::as_block<BB,amgcl::relaxation::ilu0>::type>,amgcl::solver::bicgstab<SB>> S; S::params p; p.precond.coarsening.aggr.block_size=2; S s(A,p); std::vector<double> x(n,0.0); auto r=s(f,x); printf("as_block: %zu %.2e true %.2e\n",std::get<0>(r),std::get<1>(r),resid(x)); }
  { typedef amgcl::make_solver<amgcl::amg<BB,amgcl::coarsening::as_scalar<amgcl::coarsening::smoothed_aggregation>::type,amgcl::relaxation::spai0>,amgcl::solver::bicgstab<BB>> S; S::params p; p.precond.coarsening.aggr.block_size=2; S s(amgcl::adapter::block_matrix<Blk>(A),p); std::vector<double> x(n,0.0); auto F=amgcl::backend::reinterpret_as_rhs<Blk>(f); auto X=amgcl::backend::reinterpret_as_rhs<Blk>(x); auto r=s(F,X); printf("as_scalar: %zu %.2e true %.2e\n",std::get<0>(r),std::get<1>(r),resid(x)); }
  { typedef amgcl::make_solver<amgcl::amg<HB,amgcl::coarsening::smoothed_aggregation,amgcl::relaxation::spai0>,amgcl::solver::bicgstab<SB>> S; S::params p; p.precond.coarsening.aggr.block_size=2; S s(A,p); std::vector<double> x(n,0.0); auto r=s(f,x); printf("hybrid: %zu %.2e true %.2e\n",std::get<0>(r),std::get<1>(r),resid(x)); }
  { Eigen::SparseMatrix<double,Eigen::RowMajor,int> E(n,n); std::vector<Eigen::Triplet<double>> tr; for(int i=0;i<n;++i)for(auto j=ptr[i];j<ptr[i+1];++j) tr.emplace_back(i,col[j],val[j]); E.setFromTriplets(tr.begin(),tr.end()); E.makeCompressed();
    typedef amgcl::make_solver<amgcl::amg<SB,amgcl::coarsening::smoothed_aggregation,amgcl::relaxation::spai0>,amgcl::solver::bicgstab<SB>> S; S s(E); std::vector<double> x(n,0.0); auto r=s(f,x); printf("eigen adapter: %zu %.2e true %.2e\n",std::get<0>(r),std::get<1>(r),resid(x)); }
  { boost::numeric::ublas::compressed_matrix<double> Um(n,n); for(int i=0;i<n;++i)for(auto j=ptr[i];j<ptr[i+1];++j) Um(i,col[j])=val[j];
    typedef amgcl::make_solver<amgcl::amg<SB,amgcl::coarsening::smoothed_aggregation,amgcl::relaxation::spai0>,amgcl::solver::bicgstab<SB>> S; S s(amgcl::backend::map(Um)); boost::numeric::ublas::vector<double> fu(n,1.0), xu(n,0.0); auto r=s(fu,xu); std::vector<double> x(xu.begin(),xu.end()); printf("ublas: %zu %.2e true %.2e\n",std::get<0>(r),std::get<1>(r),resid(x)); }
  { amgcl::adapter::reorder<> perm(A); typedef amgcl::make_solver<amgcl::amg<SB,amgcl::coarsening::smoothed_aggregation,amgcl::relaxation::spai0>,amgcl::solver::bicgstab<SB>> S; S s(perm(A)); std::vector<double> fp(n), xp(n,0.0), x(n); perm.forward(f,fp); auto r=s(fp,xp); perm.inverse(xp,x); printf("reorder: %zu %.2e true %.2e\n",std::get<0>(r),std::get<1>(r),resid(x)); }
  { auto sc=amgcl::adapter::scale_diagonal<SB>(A); typedef amgcl::make_solver<amgcl::amg<SB,amgcl::coarsening::smoothed_aggregation,amgcl::relaxation::spai0>,amgcl::solver::bicgstab<SB>> S; S s(sc.matrix(A)); std::vector<double> x(n,0.0); auto r=s(*sc.rhs(f),x); sc(x); printf("scaled: %zu %.2e true %.2e\n",std::get<0>(r),std::get<1>(r),resid(x)); }
}
