#include <set>
#include <string>
#include <vector>
static std::vector<std::string> g_unknown;
#define AMGCL_PARAM_UNKNOWN(name) g_unknown.push_back(name)
#include <amgcl/amg.hpp>
#include <amgcl/make_solver.hpp>
#include <amgcl/solver/cg.hpp>
#include <amgcl/solver/lgmres.hpp>
#include <amgcl/solver/runtime.hpp>
#include <amgcl/coarsening/runtime.hpp>
#include <amgcl/relaxation/runtime.hpp>
#include <amgcl/coarsening/smoothed_aggregation.hpp>
#include <amgcl/relaxation/ilu0.hpp>
#include <amgcl/adapter/crs_tuple.hpp>
#include <boost/preprocessor/seq/for_each.hpp>
#include <boost/preprocessor/tuple/elem.hpp>
#include <iostream>
#include <cstring>
typedef amgcl::backend::builtin<double> B;
typedef boost::property_tree::ptree ptree;
// table: (path-in-struct, key-in-tree, type, nondefault value)
#define VF_FIELD(r, P, f) { auto v = (BOOST_PP_TUPLE_ELEM(3,2,f)); t.put(BOOST_PP_TUPLE_ELEM(3,1,f), v); \
   checks.push_back({BOOST_PP_TUPLE_ELEM(3,1,f), [v](const P&p){ return p.BOOST_PP_TUPLE_ELEM(3,0,f) == v; }}); }
template<class P> struct Chk { std::string key; std::function<bool(const P&)> ok; };
int main(){
  typedef amgcl::amg<B, amgcl::coarsening::smoothed_aggregation, amgcl::relaxation::ilu0> AMG; typedef AMG::params P;
  ptree t; std::vector<Chk<P>> checks;
  BOOST_PP_SEQ_FOR_EACH(VF_FIELD, P,
     ((coarse_enough,"coarse_enough",77u)) ((direct_coarse,"direct_coarse",false)) ((max_levels,"max_levels",5u)) ((npre,"npre",2u)) ((npost,"npost",3u)) ((ncycle,"ncycle",2u)) ((pre_cycles,"pre_cycles",2u)) ((allow_rebuild,"allow_rebuild",false))
     ((coarsening.aggr.eps_strong,"coarsening.aggr.eps_strong",0.11f)) ((coarsening.aggr.block_size,"coarsening.aggr.block_size",2u)) ((coarsening.relax,"coarsening.relax",0.9f)) ((coarsening.estimate_spectral_radius,"coarsening.estimate_spectral_radius",true)) ((coarsening.power_iters,"coarsening.power_iters",3))
     ((relax.damping,"relax.damping",0.75)) ((relax.solve.serial,"relax.solve.serial",true)) )
  g_unknown.clear(); P p(t);
  int bad=0; for(auto&c:checks) if(!c.ok(p)){ std::cout<<"field not imported: "<<c.key<<"\n"; bad++; }
  std::cout<<"import: "<<checks.size()<<" fields, bad="<<bad<<" unknown-reported="<<g_unknown.size()<<"\n";
  ptree out; p.get(out, ""); int ebad=0; for(auto&c:checks){ auto a=t.get<std::string>(c.key); auto b=out.get<std::string>(c.key,"<missing>"); if(a!=b){ std::cout<<"export mismatch "<<c.key<<": "<<a<<" vs "<<b<<"\n"; ebad++; } }
  std::cout<<"export bad="<<ebad<<"\n";
  // unknown keys at every level
  for(const char* k : {"bogus","coarsening.bogus","coarsening.aggr.bogus","relax.bogus","relax.solve.bogus"}){ ptree t2=t; t2.put(k, 1); g_unknown.clear(); P p2(t2); std::cout<<"extra key "<<k<<" -> reported "<<g_unknown.size()<<(g_unknown.size()?(" ("+g_unknown[0]+")"):"")<<"\n"; }
  // invalid enum
  try{ ptree t3; t3.put("type","nonsense"); amgcl::runtime::solver::wrapper<B> w(10,t3); std::cout<<"no throw!\n"; }catch(std::exception&e){ std::cout<<"invalid enum throws: "<<e.what()<<"\n"; }
}
