#include <amgcl/amg.hpp>
#include <amgcl/make_solver.hpp>
#include <amgcl/solver/runtime.hpp>
#include <amgcl/coarsening/runtime.hpp>
#include <amgcl/relaxation/runtime.hpp>
#include <amgcl/adapter/crs_tuple.hpp>
#include <iostream>
#include <cstring>
#include <random>
typedef amgcl::backend::builtin<double> B;
struct CSR{int n; std::vector<ptrdiff_t> ptr,col; std::vector<double> val;};
static CSR g; static std::vector<double> gf;
template<template<class> class C, template<class> class R> void one(const char*cn,const char*rn){
  typedef amgcl::amg<B,C,R> T; typedef amgcl::amg<B,amgcl::runtime::coarsening::wrapper,amgcl::runtime::relaxation::wrapper> RT;
  typename T::params p; p.coarse_enough=33; p.npre=2; p.npost=1; p.ncycle=2; p.pre_cycles=2;
  boost::property_tree::ptree t; t.put("coarsening.type",cn); t.put("relax.type",rn); t.put("coarse_enough",33); t.put("npre",2); t.put("npost",1); t.put("ncycle",2); t.put("pre_cycles",2);
  T a(std::make_tuple(g.n,g.ptr,g.col,g.val),p); RT b(std::make_tuple(g.n,g.ptr,g.col,g.val),t);
  std::vector<double> x1(g.n),x2(g.n); a.apply(gf,x1); b.apply(gf,x2); printf("%-22s %-14s %s\n",cn,rn,memcmp(x1.data(),x2.data(),8*g.n)?"DIFF":"bitwise"); }
#define ROW(C) one<amgcl::coarsening::C,amgcl::relaxation::damped_jacobi>(#C,"damped_jacobi"); one<amgcl::coarsening::C,amgcl::relaxation::spai0>(#C,"spai0"); one<amgcl::coarsening::C,amgcl::relaxation::spai1>(#C,"spai1"); one<amgcl::coarsening::C,amgcl::relaxation::gauss_seidel>(#C,"gauss_seidel"); one<amgcl::coarsening::C,amgcl::relaxation::ilu0>(#C,"ilu0"); one<amgcl::coarsening::C,amgcl::relaxation::iluk>(#C,"iluk"); one<amgcl::coarsening::C,amgcl::relaxation::ilup>(#C,"ilup"); one<amgcl::coarsening::C,amgcl::relaxation::ilut>(#C,"ilut"); one<amgcl::coarsening::C,amgcl::relaxation::chebyshev>(#C,"chebyshev");
template<template<class,class> class S> void solver(const char*sn){ typedef amgcl::amg<B,amgcl::coarsening::smoothed_aggregation,amgcl::relaxation::spai0> P; P::params pp; pp.coarse_enough=33; P prec(std::make_tuple(g.n,g.ptr,g.col,g.val),pp);
  typedef S<B,amgcl::solver::detail::default_inner_product> T; typename T::params sp; T s(g.n,sp); boost::property_tree::ptree t; t.put("type",sn); amgcl::runtime::solver::wrapper<B> r(g.n,t);
  std::vector<double> x1(g.n,0.0),x2(g.n,0.0); auto r1=s(prec,gf,x1); auto r2=r(prec,gf,x2); bool same=std::get<0>(r1)==std::get<0>(r2) && !memcmp(&std::get<1>(r1),&std::get<1>(r2),8) && !memcmp(x1.data(),x2.data(),8*g.n); printf("solver %-10s %s (it %zu)\n",sn,same?"bitwise":"DIFF",std::get<0>(r1)); }
int main(){ int nx=31,ny=23; g.n=nx*ny; g.ptr.push_back(0); std::mt19937 rng(3); std::uniform_real_distribution<double> U(0.5,1.5); std::vector<double> kx((nx+1)*ny),ky(nx*(ny+1)); for(auto&k:kx)k=U(rng); for(auto&k:ky)k=U(rng);
  for(int j=0;j<ny;++j)for(int i=0;i<nx;++i){ int r=j*nx+i; double w=kx[j*(nx+1)+i],e=kx[j*(nx+1)+i+1],s=ky[j*nx+i],nn=ky[(j+1)*nx+i]; if(j>0){g.col.push_back(r-nx);g.val.push_back(-s);} if(i>0){g.col.push_back(r-1);g.val.push_back(-w);} g.col.push_back(r);g.val.push_back(w+e+s+nn); if(i+1<nx){g.col.push_back(r+1);g.val.push_back(-e);} if(j+1<ny){g.col.push_back(r+nx);g.val.push_back(-nn);} g.ptr.push_back(g.col.size()); }
  gf.resize(g.n); for(auto&v:gf) v=U(rng)-1;
  ROW(aggregation) ROW(smoothed_aggregation) ROW(smoothed_aggr_emin) ROW(ruge_stuben)
  solver<amgcl::solver::cg>("cg"); solver<amgcl::solver::bicgstab>("bicgstab"); solver<amgcl::solver::bicgstabl>("bicgstabl"); solver<amgcl::solver::gmres>("gmres"); solver<amgcl::solver::lgmres>("lgmres"); solver<amgcl::solver::fgmres>("fgmres"); solver<amgcl::solver::idrs>("idrs"); solver<amgcl::solver::richardson>("richardson"); solver<amgcl::solver::preonly>("preonly");
}
