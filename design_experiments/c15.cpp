#include <amgcl/amg.hpp>
#include <amgcl/make_solver.hpp>
#include <amgcl/solver/runtime.hpp>
#include <amgcl/coarsening/runtime.hpp>
#include <amgcl/relaxation/runtime.hpp>
#include <amgcl/preconditioner/runtime.hpp>
#include <amgcl/adapter/crs_tuple.hpp>
#include <iostream>
#include <random>
#include <cstring>
#include <cmath>
typedef amgcl::backend::builtin<double> B;
typedef amgcl::make_solver<amgcl::runtime::preconditioner<B>, amgcl::runtime::solver::wrapper<B>> S;
int main(int argc,char**argv){
  std::mt19937 rng(argc>1?atoi(argv[1]):1); std::uniform_real_distribution<double> U(-1,1);
  int nx=20,ny=15,n=nx*ny; std::vector<ptrdiff_t> ptr(1,0),col; std::vector<double> val;
  for(int j=0;j<ny;++j)for(int i=0;i<nx;++i){ int r=j*nx+i; if(j>0){col.push_back(r-nx);val.push_back(-1);} if(i>0){col.push_back(r-1);val.push_back(-1.4);} col.push_back(r);val.push_back(4.5); if(i+1<nx){col.push_back(r+1);val.push_back(-1);} if(j+1<ny){col.push_back(r+nx);val.push_back(-1);} ptr.push_back(col.size()); }
  auto A=std::make_tuple(n,ptr,col,val);
  const char* solv[]={"cg","bicgstab","bicgstabl","gmres","lgmres","fgmres","idrs","richardson"};
  const char* relx[]={"spai0","gauss_seidel","ilu0","chebyshev","damped_jacobi"};
  for(auto s:solv) for(auto rl:relx){
    boost::property_tree::ptree p; p.put("solver.type",s); p.put("precond.class","amg"); p.put("precond.coarse_enough",30); p.put("precond.relax.type",rl); p.put("solver.maxiter", 9);
    if(std::string(s)=="idrs") p.put("solver.smoothing", true);
    S obj(A,p);
    std::vector<std::vector<double>> F(4,std::vector<double>(n)), X0(4,std::vector<double>(n));
    for(int k=0;k<4;++k){ for(auto&v:F[k]) v=U(rng); for(auto&v:X0[k]) v=(k%2)?U(rng):0.0; }
    F[2][5]=NAN; // failing call
    std::string verdict="ok";
    for(int k=0;k<4;++k){ int kk = (k==3)?0:k; // 4th call repeats first
      std::vector<double> x=X0[kk], xf=X0[kk]; size_t it1,it2; double r1,r2;
      try{ std::tie(it1,r1)=obj(F[kk],x);}catch(std::exception&e){ it1=999; r1=-1; }
      S fresh(A,p); try{ std::tie(it2,r2)=fresh(F[kk],xf);}catch(std::exception&e){ it2=999; r2=-1; }
      bool same = it1==it2 && (std::memcmp(&r1,&r2,8)==0) && std::memcmp(x.data(),xf.data(),8*n)==0;
      if(!same){ verdict = "DIFF at call "+std::to_string(k)+" it "+std::to_string(it1)+"/"+std::to_string(it2)+" r "+std::to_string(r1)+"/"+std::to_string(r2); break; }
    }
    printf("%-10s %-14s %s\n",s,rl,verdict.c_str());
  }
}
