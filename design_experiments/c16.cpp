#include <amgcl/backend/builtin.hpp>
#include <amgcl/value_type/static_matrix.hpp>
#include <amgcl/value_type/complex.hpp>
#include <amgcl/adapter/crs_tuple.hpp>
#include <amgcl/solver/skyline_lu.hpp>
#include <amgcl/detail/qr.hpp>
#include <amgcl/detail/inverse.hpp>
#include <Eigen/Dense>
#include <iostream>
#include <random>
#include <complex>
typedef Eigen::Matrix<long double,-1,-1> LD;
template<class T> double tod(T x){return std::abs(x);} 
template<class T> void qrtest(std::mt19937&rng,const char*nm){ std::uniform_real_distribution<double> U(-1,1);
  double worst_qr=0,worst_orth=0,worst_tri=0,worst_solve=0; int cases=0;
  for(int m=1;m<=9;++m)for(int n=1;n<=9;++n)for(int ord=0;ord<2;++ord)for(int rk=0;rk<2;++rk){
    std::vector<T> A(m*n); Eigen::Matrix<T,-1,-1> Ad(m,n);
    for(int i=0;i<m;++i)for(int j=0;j<n;++j){ T v; if constexpr(std::is_same<T,double>::value) v=U(rng); else v=T(U(rng),U(rng)); if(rk && j==n/2) v=T(0); Ad(i,j)=v; A[ord==0? i*n+j : j*m+i]=v; }
    auto A0=A; amgcl::detail::QR<T> qr; qr.factorize(m,n,A.data(), ord==0?amgcl::detail::row_major:amgcl::detail::col_major);
    int k=std::min(m,n); Eigen::Matrix<T,-1,-1> Q(m,n), R=Eigen::Matrix<T,-1,-1>::Zero(n,n);
    for(int i=0;i<m;++i)for(int j=0;j<n;++j) Q(i,j)=qr.Q(i,j);
    Eigen::Matrix<T,-1,-1> Rk=Eigen::Matrix<T,-1,-1>::Zero(k,n); for(int i=0;i<k;++i)for(int j=0;j<n;++j) Rk(i,j)=qr.R(i,j);
    Eigen::Matrix<T,-1,-1> Qk=Q.leftCols(k);
    worst_qr=std::max(worst_qr,(double)(Qk*Rk-Ad).cwiseAbs().maxCoeff());
    worst_orth=std::max(worst_orth,(double)(Qk.adjoint()*Qk-Eigen::Matrix<T,-1,-1>::Identity(k,k)).cwiseAbs().maxCoeff());
    for(int i=0;i<k;++i)for(int j=0;j<i&&j<n;++j) worst_tri=std::max(worst_tri,(double)std::abs(Rk(i,j)));
    if(!rk){ // solve
      std::vector<T> b(m), x(n); Eigen::Matrix<T,-1,1> bd(m); for(int i=0;i<m;++i){ T v; if constexpr(std::is_same<T,double>::value) v=U(rng); else v=T(U(rng),U(rng)); b[i]=v; bd(i)=v; }
      auto A1=A0; amgcl::detail::QR<T> q2; q2.solve(m,n,A1.data(),b.data(),x.data(), ord==0?amgcl::detail::row_major:amgcl::detail::col_major);
      Eigen::Matrix<T,-1,1> xr = Ad.completeOrthogonalDecomposition().solve(bd); double e=0; for(int j=0;j<n;++j) e=std::max(e,(double)std::abs(x[j]-xr(j))); 
      double sc = 1.0/ Eigen::JacobiSVD<Eigen::Matrix<T,-1,-1>>(Ad).singularValues().minCoeff(); worst_solve=std::max(worst_solve,e/sc);
    }
    cases++; }
  printf("%s cases=%d |QR-A|=%.1e |Q'Q-I|=%.1e belowdiag=%.1e solve_err/cond=%.1e\n",nm,cases,worst_qr,worst_orth,worst_tri,worst_solve); }
int main(){ std::mt19937 rng(5); qrtest<double>(rng,"real"); qrtest<std::complex<double>>(rng,"cplx");
  // inverse
  std::uniform_real_distribution<double> U(-1,1); double w=0; for(int rep=0;rep<2000;++rep){ int n=1+rng()%7; std::vector<double> A(n*n),t(n*n); std::vector<int> p(n); LD Ad(n,n); for(int i=0;i<n*n;++i){A[i]=U(rng); if(rng()%4==0) A[i]=0; Ad(i/n,i%n)=A[i];} if(std::abs((double)Ad.determinant())<1e-3) continue; amgcl::detail::inverse(n,A.data(),t.data(),p.data()); LD Ai(n,n); for(int i=0;i<n*n;++i) Ai(i/n,i%n)=A[i]; w=std::max(w,(double)((Ad*Ai-LD::Identity(n,n)).cwiseAbs().maxCoeff()/ (Ad.inverse().cwiseAbs().maxCoeff()))); }
  printf("inverse worst scaled err %.1e\n",w);
  // skyline random patterns
  double ws=0; int cnt=0; for(int rep=0;rep<3000;++rep){ int n=1+rng()%9; LD Ad=LD::Zero(n,n); std::vector<ptrdiff_t> ptr(1,0),col; std::vector<double> val; for(int i=0;i<n;++i)for(int j=0;j<n;++j) if(i!=j && rng()%3==0) Ad(i,j)=U(rng); for(int i=0;i<n;++i){ long double s=0; for(int j=0;j<n;++j) s+=fabsl(Ad(i,j)); Ad(i,i)=s+0.3; }
    for(int i=0;i<n;++i){ for(int j=0;j<n;++j) if(Ad(i,j)!=0){col.push_back(j);val.push_back((double)Ad(i,j));} ptr.push_back(col.size()); }
    amgcl::solver::skyline_lu<double> S(std::make_tuple(n,ptr,col,val)); std::vector<double> f(n),x(n); Eigen::Matrix<long double,-1,1> fd(n); for(int i=0;i<n;++i){f[i]=U(rng);fd(i)=f[i];} S(f,x); Eigen::Matrix<long double,-1,1> xr=Ad.partialPivLu().solve(fd); for(int i=0;i<n;++i) ws=std::max(ws,(double)fabsl(x[i]-xr(i))); cnt++; }
  printf("skyline cases=%d worst err %.1e\n",cnt,ws);
}
