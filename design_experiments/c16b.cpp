#include <amgcl/backend/builtin.hpp>
#include <amgcl/value_type/static_matrix.hpp>
#include <amgcl/value_type/complex.hpp>
#include <amgcl/adapter/crs_tuple.hpp>
#include <amgcl/solver/skyline_lu.hpp>
#include <amgcl/reorder/cuthill_mckee.hpp>
#include <Eigen/Dense>
#include <iostream>
#include <random>
#include <complex>
typedef std::complex<double> Z; typedef amgcl::static_matrix<double,2,2> Bk; typedef amgcl::static_matrix<double,2,1> Rk;
int main(){ std::mt19937 rng(3); std::uniform_real_distribution<double> U(-1,1); double wz=0,wb=0; long cm_bad=0,cm_cases=0; int zc=0;
  for(int rep=0;rep<1500;++rep){ int n=1+rng()%10;
    // complex
    { Eigen::MatrixXcd A=Eigen::MatrixXcd::Zero(n,n); for(int i=0;i<n;++i)for(int j=0;j<n;++j) if(i!=j&&rng()%3==0) A(i,j)=Z(U(rng),U(rng)); for(int i=0;i<n;++i){ double s=0; for(int j=0;j<n;++j) s+=std::abs(A(i,j)); A(i,i)=Z(s+0.3,U(rng)); }
      std::vector<ptrdiff_t> ptr(1,0),col; std::vector<Z> val; for(int i=0;i<n;++i){ for(int j=0;j<n;++j) if(A(i,j)!=Z(0)){col.push_back(j);val.push_back(A(i,j));} ptr.push_back(col.size()); }
      amgcl::solver::skyline_lu<Z> S(std::make_tuple(n,ptr,col,val)); std::vector<Z> f(n),x(n); Eigen::VectorXcd fd(n); for(int i=0;i<n;++i){f[i]=Z(U(rng),U(rng));fd(i)=f[i];} S(f,x); Eigen::VectorXcd xr=A.partialPivLu().solve(fd); for(int i=0;i<n;++i) wz=std::max(wz,std::abs(x[i]-xr(i))); zc++; }
    // block 2x2
    { int N=2*n; Eigen::MatrixXd A=Eigen::MatrixXd::Zero(N,N); std::vector<char> pat(n*n,0); for(int i=0;i<n;++i)for(int j=0;j<n;++j) if(i==j||rng()%3==0){ pat[i*n+j]=1; for(int a=0;a<2;++a)for(int b=0;b<2;++b) A(2*i+a,2*j+b)=U(rng)*0.3; } for(int i=0;i<N;++i){ double s=0; for(int j=0;j<N;++j) s+=std::abs(A(i,j)); A(i,i)=s+0.3; }
      std::vector<ptrdiff_t> ptr(1,0),col; std::vector<Bk> val; for(int i=0;i<n;++i){ for(int j=0;j<n;++j) if(pat[i*n+j]){ Bk b; for(int a=0;a<2;++a)for(int c=0;c<2;++c) b(a,c)=A(2*i+a,2*j+c); col.push_back(j); val.push_back(b);} ptr.push_back(col.size()); }
      amgcl::solver::skyline_lu<Bk> S(std::make_tuple(n,ptr,col,val)); std::vector<Rk> f(n),x(n); Eigen::VectorXd fd(N); for(int i=0;i<n;++i)for(int a=0;a<2;++a){ f[i](a)=U(rng); fd(2*i+a)=f[i](a);} S(f,x); Eigen::VectorXd xr=A.partialPivLu().solve(fd); for(int i=0;i<n;++i)for(int a=0;a<2;++a) wb=std::max(wb,std::abs(x[i](a)-xr(2*i+a))); }
    // cuthill mckee on random directed pattern, possibly disconnected
    for(int rev=0;rev<2;++rev){ int m=1+rng()%12; std::vector<ptrdiff_t> ptr(1,0),col; std::vector<double> val; for(int i=0;i<m;++i){ for(int j=0;j<m;++j) if(i==j? (rng()%4!=0) : (rng()%5==0)){col.push_back(j);val.push_back(1.0);} ptr.push_back(col.size()); }
      std::vector<ptrdiff_t> perm(m,-7); auto A=std::make_tuple(m,ptr,col,val); try{ if(rev) amgcl::reorder::cuthill_mckee<true>::get(A,perm); else amgcl::reorder::cuthill_mckee<false>::get(A,perm); }catch(std::exception&e){ cm_bad++; printf("CM exception %s\n",e.what()); continue; } std::vector<char> seen(m,0); bool ok=true; for(auto p:perm){ if(p<0||p>=m||seen[p]) ok=false; else seen[p]=1; } cm_cases++; if(!ok){ cm_bad++; if(cm_bad<4){ printf("CM not a permutation m=%d rev=%d:",m,rev); for(auto p:perm) printf(" %ld",(long)p); puts(""); } } }
  }
  printf("complex skyline worst=%.2e (%d)  block skyline worst=%.2e  cuthill_mckee cases=%ld bad=%ld\n",wz,zc,wb,cm_cases,cm_bad);
}
