#include <amgcl/backend/builtin.hpp>
#include <amgcl/adapter/crs_tuple.hpp>
#include <amgcl/amg.hpp>
#include <amgcl/make_solver.hpp>
#include <amgcl/coarsening/smoothed_aggregation.hpp>
#include <amgcl/relaxation/spai0.hpp>
#include <amgcl/relaxation/ilu0.hpp>
#include <amgcl/relaxation/as_preconditioner.hpp>
#include <amgcl/preconditioner/cpr.hpp>
#include <amgcl/preconditioner/cpr_drs.hpp>
#include <amgcl/preconditioner/schur_pressure_correction.hpp>
#include <amgcl/solver/cg.hpp>
#include <amgcl/solver/preonly.hpp>
#include <iostream>
#include <random>
typedef amgcl::backend::builtin<double> B;
typedef amgcl::amg<B,amgcl::coarsening::smoothed_aggregation,amgcl::relaxation::spai0> AMG;
typedef amgcl::relaxation::as_preconditioner<B,amgcl::relaxation::spai0> SP;
template<class P,class Prm> void cmp(const char*nm,int n,const std::vector<ptrdiff_t>&ptr,const std::vector<ptrdiff_t>&col,const std::vector<double>&val,const std::vector<ptrdiff_t>&col2,const std::vector<double>&val2,const Prm&prm){
  std::vector<double> f(n),x1(n),x2(n); for(int i=0;i<n;++i) f[i]=std::sin(1.0+i);
  try{ P p1(std::make_tuple(n,ptr,col,val),prm); p1.apply(f,x1); P p2(std::make_tuple(n,ptr,col2,val2),prm); p2.apply(f,x2); double d=0,s=0; for(int i=0;i<n;++i){d=std::max(d,std::abs(x1[i]-x2[i])); s=std::max(s,std::abs(x1[i]));} printf("%-8s maxdiff=%.2e (scale %.2e)\n",nm,d,s);}catch(std::exception&e){ printf("%-8s EXC %s\n",nm,e.what()); } }
int main(){ std::mt19937 rng(7); int nb=60,b=2,n=nb*b; std::vector<ptrdiff_t> ptr(1,0),col; std::vector<double> val; std::uniform_real_distribution<double> U(0.5,1.5);
  // 2-phase-like block system: block tridiagonal with full 2x2 blocks
  for(int ib=0;ib<nb;++ib)for(int k=0;k<b;++k){ for(int jb=std::max(0,ib-1);jb<=std::min(nb-1,ib+1);++jb)for(int l=0;l<b;++l){ double v=(ib==jb)?(k==l?4.0+U(rng):0.3):(k==l?-1.0*U(rng):-0.1); col.push_back(jb*b+l); val.push_back(v);} ptr.push_back(col.size()); }
  auto col2=col; auto val2=val; for(int i=0;i<n;++i){ // shuffle each row
    std::vector<int> perm(ptr[i+1]-ptr[i]); for(size_t k=0;k<perm.size();++k)perm[k]=k; std::shuffle(perm.begin(),perm.end(),rng); for(size_t k=0;k<perm.size();++k){col2[ptr[i]+k]=col[ptr[i]+perm[k]];val2[ptr[i]+k]=val[ptr[i]+perm[k]];} }
  { AMG::params p; p.coarse_enough=20; cmp<AMG>("amg",n,ptr,col,val,col2,val2,p); }
  { typedef amgcl::preconditioner::cpr<AMG,SP> C; C::params p; p.block_size=2; p.pprecond.coarse_enough=10; cmp<C>("cpr",n,ptr,col,val,col2,val2,p); }
  { typedef amgcl::preconditioner::cpr_drs<AMG,SP> C; C::params p; p.block_size=2; p.pprecond.coarse_enough=10; cmp<C>("cpr_drs",n,ptr,col,val,col2,val2,p); }
  { typedef amgcl::make_solver<AMG,amgcl::solver::preonly<B>> US; typedef amgcl::preconditioner::schur_pressure_correction<US,US> S; S::params p; p.pmask.resize(n); for(int i=0;i<n;++i)p.pmask[i]=(i%2==1); p.usolver.precond.coarse_enough=10; p.psolver.precond.coarse_enough=10; cmp<S>("schur",n,ptr,col,val,col2,val2,p); }
  { typedef amgcl::relaxation::as_preconditioner<B,amgcl::relaxation::ilu0> R; R::params p; cmp<R>("rap-ilu0",n,ptr,col,val,col2,val2,p); }
}
