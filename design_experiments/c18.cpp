#include <amgcl/backend/builtin.hpp>
#include <amgcl/adapter/crs_tuple.hpp>
#include <amgcl/preconditioner/schur_pressure_correction.hpp>
#include <Eigen/Dense>
#include <iostream>
#include <random>
typedef amgcl::backend::builtin<double> B;
typedef Eigen::Matrix<long double,-1,-1> LD; typedef Eigen::Matrix<long double,-1,1> LV;
// exact inner solver satisfying the USolver/PSolver concept
struct exact_solver {
  typedef B backend_type; typedef amgcl::detail::empty_params params; typedef B::matrix matrix;
  std::shared_ptr<matrix> A; LD Ad; int n;
  template<class Mx> exact_solver(const Mx&M, const params& =params(), const B::params& =B::params()) : A(std::make_shared<matrix>(M)), n(amgcl::backend::rows(M)) {
    Ad=LD::Zero(n,n); for(int i=0;i<n;++i) for(auto a=amgcl::backend::row_begin(M,i); a; ++a) Ad(i,a.col())+=a.value(); }
  template<class V1,class V2> std::tuple<size_t,double> operator()(const V1&f, V2&&x) const { LV b(n); for(int i=0;i<n;++i) b(i)=f[i]; LV s=Ad.partialPivLu().solve(b); for(int i=0;i<n;++i) x[i]=(double)s(i); return std::make_tuple(1,0.0); }
  // matrix-free variant: dense operator by applying spmv to unit vectors
  template<class Op,class V1,class V2> std::tuple<size_t,double> operator()(const Op&S, const V1&f, V2&&x) const { LD Sd(n,n); amgcl::backend::numa_vector<double> e(n), y(n); for(int j=0;j<n;++j){ for(int i=0;i<n;++i) e[i]=(i==j); amgcl::backend::spmv(1.0,S,e,0.0,y); for(int i=0;i<n;++i) Sd(i,j)=y[i]; } LV b(n); for(int i=0;i<n;++i) b(i)=f[i]; LV s=Sd.partialPivLu().solve(b); for(int i=0;i<n;++i) x[i]=(double)s(i); return std::make_tuple(1,0.0); }
  const matrix& system_matrix() const { return *A; } std::shared_ptr<matrix> system_matrix_ptr() const { return A; }
  size_t bytes() const { return 0; }
  friend std::ostream& operator<<(std::ostream&os,const exact_solver&){ return os<<"exact"; }
};
int main(int argc,char**argv){
  std::mt19937 rng(argc>1?atoi(argv[1]):1); std::uniform_real_distribution<double> U(-1,1);
  for(int rep=0;rep<12;++rep){
    int n=10+rng()%20; std::vector<char> pm(n); int np=0; for(int i=0;i<n;++i){ pm[i]= (rep%3==0)? (i%3==2) : (rep%3==1? (i>=2*n/3) : (rng()%3==0)); np+=pm[i]; } if(np==0||np==n) continue;
    LD K=LD::Zero(n,n); for(int i=0;i<n;++i)for(int j=0;j<n;++j) if(i!=j && rng()%4==0) K(i,j)=U(rng)*0.3; for(int i=0;i<n;++i) K(i,i)=3+U(rng);
    std::vector<ptrdiff_t> ptr(1,0),col; std::vector<double> val; for(int i=0;i<n;++i){ for(int j=0;j<n;++j) if(K(i,j)!=0){col.push_back(j);val.push_back((double)K(i,j));} ptr.push_back(col.size()); }
    for(int type=1;type<=2;++type) for(int adj=0;adj<=2;++adj){
      typedef amgcl::preconditioner::schur_pressure_correction<exact_solver,exact_solver> SPC; SPC::params p; p.type=type; p.adjust_p=adj; p.pmask=pm; p.approx_schur=false;
      SPC S(std::make_tuple(n,ptr,col,val), p);
      LD Bm(n,n); std::vector<double> e(n,0.0), x(n); for(int j=0;j<n;++j){ e[j]=1; S.apply(e,x); e[j]=0; for(int i=0;i<n;++i) Bm(i,j)=x[i]; }
      LD ref; if(type==1) ref=K.inverse(); else { LD T=K; for(int i=0;i<n;++i)for(int j=0;j<n;++j) if(pm[i]&&!pm[j]) T(i,j)=0; /* block upper: rows p, cols u zeroed -> [Kuu Kup; 0 S]*/ 
           // S = Kpp - Kpu Kuu^-1 Kup: build explicitly
           std::vector<int> iu,ip; for(int i=0;i<n;++i) (pm[i]?ip:iu).push_back(i); int nu=iu.size(),npp=ip.size(); LD Kuu(nu,nu),Kup(nu,npp),Kpu(npp,nu),Kpp(npp,npp); for(int a=0;a<nu;++a){for(int b=0;b<nu;++b)Kuu(a,b)=K(iu[a],iu[b]); for(int b=0;b<npp;++b)Kup(a,b)=K(iu[a],ip[b]);} for(int a=0;a<npp;++a){for(int b=0;b<nu;++b)Kpu(a,b)=K(ip[a],iu[b]); for(int b=0;b<npp;++b)Kpp(a,b)=K(ip[a],ip[b]);}
           LD Sc=Kpp-Kpu*Kuu.inverse()*Kup; for(int a=0;a<npp;++a)for(int b=0;b<npp;++b) T(ip[a],ip[b])=Sc(a,b); ref=T.inverse(); }
      printf("rep%d n=%d np=%d type=%d adjust_p=%d  |B-ref|=%.2Le\n",rep,n,np,type,adj,(Bm-ref).cwiseAbs().maxCoeff());
    }
  }
}
