#include <amgcl/io/mm.hpp>
#include <amgcl/io/binary.hpp>
#include <amgcl/adapter/crs_tuple.hpp>
#include <cstdio>
#include <cstdlib>
#include <new>
#include <fstream>
#include <sstream>
#include <iostream>
static const size_t CAP = size_t(1)<<30;
void* operator new(size_t n){ if(n>CAP) throw std::bad_alloc(); void*p=malloc(n?n:1); if(!p) throw std::bad_alloc(); return p; }
void* operator new[](size_t n){ if(n>CAP) throw std::bad_alloc(); void*p=malloc(n?n:1); if(!p) throw std::bad_alloc(); return p; }
void operator delete(void*p) noexcept {free(p);} void operator delete[](void*p) noexcept {free(p);} void operator delete(void*p,size_t) noexcept {free(p);} void operator delete[](void*p,size_t) noexcept {free(p);}
static bool wellformed(size_t n,size_t m,const std::vector<ptrdiff_t>&ptr,const std::vector<ptrdiff_t>&col,const std::vector<double>&val){ if(ptr.size()!=n+1||ptr[0]!=0) return false; for(size_t i=0;i<n;++i) if(ptr[i+1]<ptr[i]) return false; if((size_t)ptr[n]!=col.size()||col.size()!=val.size()) return false; for(auto c:col) if(c<0||(size_t)c>=m) return false; return true; }
int main(){
  // small valid file
  int n=4; std::vector<ptrdiff_t> ptr={0,2,5,8,10}, col={0,1, 0,1,2, 1,2,3, 2,3}; std::vector<double> val={2,-1.5, -1,2.25,-1, -1,2,-1e-3, -1,2e10};
  size_t nn=n; amgcl::io::mm_write("/tmp/exp/ok.mtx", std::tie(nn,ptr,col,val));
  std::ifstream f("/tmp/exp/ok.mtx"); std::stringstream ss; ss<<f.rdbuf(); std::string good=ss.str();
  long cases=0, thrown=0, valid=0, invalid=0; const unsigned char repl[]={0x00,0xFF,'-','9',' ','\n','e','%'};
  auto tryread=[&](const std::string&content, const char*what, long pos, int r){ { std::ofstream o("/tmp/exp/bad.mtx",std::ios::binary); o<<content; }
     cases++; try{ amgcl::io::mm_reader rd("/tmp/exp/bad.mtx"); std::vector<ptrdiff_t> p,c; std::vector<double> v; size_t rows,cols; std::tie(rows,cols)=rd(p,c,v); if(wellformed(rows,cols,p,c,v)) valid++; else { invalid++; if(invalid<=8) printf("INVALID result: %s pos=%ld repl=%d rows=%zu cols=%zu\n",what,pos,r,rows,cols);} } catch(std::exception&e){ thrown++; } };
  for(size_t t=0;t<good.size();++t) tryread(good.substr(0,t),"trunc",t,-1);
  long trunc_cases=cases, trunc_thrown=thrown;
  for(size_t pos=0;pos<good.size();++pos) for(int r=0;r<8;++r){ if((unsigned char)good[pos]==repl[r]) continue; std::string b=good; b[pos]=repl[r]; tryread(b,"corrupt",pos,r); }
  printf("file bytes=%zu cases=%ld (trunc %ld thrown %ld) thrown=%ld valid=%ld invalid=%ld\n",good.size(),cases,trunc_cases,trunc_thrown,thrown,valid,invalid);
}
