#include "../../repo/lib/amgcl.h"
#include <amgcl/amg.hpp>
#include <amgcl/make_solver.hpp>
#include <amgcl/solver/runtime.hpp>
#include <amgcl/coarsening/runtime.hpp>
#include <amgcl/relaxation/runtime.hpp>
#include <amgcl/adapter/crs_tuple.hpp>
#include <cstring>
#include <cstdio>
#include <vector>
#include <memory>
typedef amgcl::backend::builtin<double> B;
typedef amgcl::make_solver<amgcl::amg<B, amgcl::runtime::coarsening::wrapper, amgcl::runtime::relaxation::wrapper>, amgcl::runtime::solver::wrapper<B>> S;
int main(){
  int nx=25,ny=20,n=nx*ny; std::vector<int> ptr(1,0),col; std::vector<double> val;
  for(int j=0;j<ny;++j)for(int i=0;i<nx;++i){ int r=j*nx+i; if(j>0){col.push_back(r-nx);val.push_back(-1);} if(i>0){col.push_back(r-1);val.push_back(-1);} col.push_back(r);val.push_back(4.1); if(i+1<nx){col.push_back(r+1);val.push_back(-1);} if(j+1<ny){col.push_back(r+nx);val.push_back(-1);} ptr.push_back(col.size()); }
  int nnz=col.size();
  // exact-size heap copies, 1-based
  std::unique_ptr<int[]> p1(new int[n+1]), c1(new int[nnz]); std::unique_ptr<double[]> v1(new double[nnz]); for(int i=0;i<=n;++i)p1[i]=ptr[i]+1; for(int i=0;i<nnz;++i){c1[i]=col[i]+1; v1[i]=val[i];}
  std::unique_ptr<int[]> p0(new int[n+1]), c0(new int[nnz]); for(int i=0;i<=n;++i)p0[i]=ptr[i]; for(int i=0;i<nnz;++i) c0[i]=col[i];
  std::vector<double> f(n,1.0), x0(n,0.0), x1(n,0.0), x2(n,0.0);
  amgclHandle prm=amgcl_params_create(); amgcl_params_sets(prm,"solver.type","cg"); amgcl_params_seti(prm,"precond.coarse_enough",40); amgcl_params_setf(prm,"solver.tol",1e-6f); amgcl_params_sets(prm,"precond.relax.type","gauss_seidel");
  amgclHandle s0=amgcl_solver_create(n,p0.get(),c0.get(),v1.get(),prm); conv_info i0=amgcl_solver_solve(s0,f.data(),x0.data());
  amgclHandle sf=amgcl_solver_create_f(n,p1.get(),c1.get(),v1.get(),prm); conv_info i1; amgcl_solver_solve_f(sf,f.data(),x1.data(),&i1);
  boost::property_tree::ptree t; t.put("solver.type","cg"); t.put("precond.coarse_enough",40); t.put("solver.tol",1e-6f); t.put("precond.relax.type","gauss_seidel");
  S cpp(std::make_tuple(n,ptr,col,val), t); size_t it; double rs; std::tie(it,rs)=cpp(f,x2);
  printf("C: %d %.17g | F: %d %.17g | C++: %zu %.17g\n", i0.iterations,i0.residual,i1.iterations,i1.residual,it,rs);
  printf("x bitwise C vs C++: %d, F vs C: %d\n", !memcmp(x0.data(),x2.data(),8*n), !memcmp(x0.data(),x1.data(),8*n));
  std::vector<double> y0(n), y1(n); conv_info m0=amgcl_solver_solve_mtx(s0,p0.get(),c0.get(),v1.get(),f.data(),y0.data()); conv_info m1; amgcl_solver_solve_mtx_f(sf,p1.get(),c1.get(),v1.get(),f.data(),y1.data(),&m1);
  printf("mtx: %d %.17g | %d %.17g same=%d\n",m0.iterations,m0.residual,m1.iterations,m1.residual,!memcmp(y0.data(),y1.data(),8*n));
  amgcl_solver_destroy(s0); amgcl_solver_destroy(sf); amgcl_params_destroy(prm);
}
