#include "../../repo/lib/amgcl.h"
#include <amgcl/amg.hpp>
#include <amgcl/make_solver.hpp>
#include <amgcl/solver/runtime.hpp>
#include <amgcl/coarsening/runtime.hpp>
#include <amgcl/relaxation/runtime.hpp>
#include <amgcl/adapter/crs_tuple.hpp>
#include <boost/property_tree/json_parser.hpp>
#include <cstring>
#include <cstdio>
#include <fstream>
#include <vector>
#include <memory>
typedef amgcl::backend::builtin<double> B;
typedef amgcl::amg<B, amgcl::runtime::coarsening::wrapper, amgcl::runtime::relaxation::wrapper> AMG;
typedef amgcl::make_solver<AMG, amgcl::runtime::solver::wrapper<B>> S;
int main(){ int nx=23,ny=19,n=nx*ny; std::vector<int> ptr(1,0),col; std::vector<double> val;
  for(int j=0;j<ny;++j)for(int i=0;i<nx;++i){ int r=j*nx+i; if(j>0){col.push_back(r-nx);val.push_back(-1);} if(i>0){col.push_back(r-1);val.push_back(-1.3);} col.push_back(r);val.push_back(4.4); if(i+1<nx){col.push_back(r+1);val.push_back(-1);} if(j+1<ny){col.push_back(r+nx);val.push_back(-0.9);} ptr.push_back(col.size()); } int nnz=col.size();
  std::unique_ptr<int[]> p1(new int[n+1]), c1(new int[nnz]), p0(new int[n+1]), c0(new int[nnz]); std::unique_ptr<double[]> v1(new double[nnz]); for(int i=0;i<=n;++i){p1[i]=ptr[i]+1;p0[i]=ptr[i];} for(int i=0;i<nnz;++i){c1[i]=col[i]+1;c0[i]=col[i];v1[i]=val[i];}
  { std::ofstream f("/tmp/exp/p.json"); f<<"{ \"coarse_enough\": 35, \"npre\": 2, \"coarsening\": {\"type\":\"ruge_stuben\", \"eps_strong\": 0.3}, \"relax\": {\"type\":\"ilu0\", \"damping\": 0.9} }"; }
  amgclHandle prm=amgcl_params_create(); amgcl_params_read_json(prm,"/tmp/exp/p.json"); amgcl_params_seti(prm,"npost",3); amgcl_params_setf(prm,"coarsening.eps_trunc",0.15f);
  amgclHandle a0=amgcl_precond_create(n,p0.get(),c0.get(),v1.get(),prm), a1=amgcl_precond_create_f(n,p1.get(),c1.get(),v1.get(),prm);
  std::unique_ptr<double[]> f(new double[n]), x0(new double[n]), x1(new double[n]); for(int i=0;i<n;++i) f[i]=std::sin(0.3*i); amgcl_precond_apply(a0,f.get(),x0.get()); amgcl_precond_apply(a1,f.get(),x1.get());
  boost::property_tree::ptree t; boost::property_tree::read_json("/tmp/exp/p.json",t); t.put("npost",3); t.put("coarsening.eps_trunc",0.15f); AMG cpp(std::make_tuple(n,ptr,col,val),t); std::vector<double> fv(f.get(),f.get()+n), x2(n); cpp.apply(fv,x2);
  printf("precond C vs F bitwise: %d, C vs C++: %d; C++ prm: npre=%u npost=%u coarse_enough=%u\n",!memcmp(x0.get(),x1.get(),8*n),!memcmp(x0.get(),x2.data(),8*n),cpp.prm.npre,cpp.prm.npost,cpp.prm.coarse_enough);
  amgcl_precond_destroy(a0); amgcl_precond_destroy(a1); amgcl_params_destroy(prm);
}
