#!/bin/bash
# name|include|type
while IFS='|' read name inc type; do
cat > p_$name.cpp <<EOT
#include <amgcl/backend/builtin.hpp>
#include <amgcl/value_type/static_matrix.hpp>
#include <amgcl/adapter/crs_tuple.hpp>
#include <amgcl/amg.hpp>
#include <amgcl/make_solver.hpp>
#include <amgcl/coarsening/smoothed_aggregation.hpp>
#include <amgcl/relaxation/spai0.hpp>
#include <amgcl/relaxation/as_preconditioner.hpp>
#include <amgcl/solver/cg.hpp>
$inc
typedef amgcl::backend::builtin<double> B;
typedef amgcl::amg<B, amgcl::coarsening::smoothed_aggregation, amgcl::relaxation::spai0> AMG0;
typedef amgcl::make_solver<AMG0, amgcl::solver::cg<B>> MS0;
int main(){ typedef $type P; boost::property_tree::ptree in; P p(in); boost::property_tree::ptree out; p.get(out, "x."); return (int)out.size(); }
EOT
done <<'LIST'
cg|#include <amgcl/solver/cg.hpp>|amgcl::solver::cg<B>::params
bicgstab|#include <amgcl/solver/bicgstab.hpp>|amgcl::solver::bicgstab<B>::params
bicgstabl|#include <amgcl/solver/bicgstabl.hpp>|amgcl::solver::bicgstabl<B>::params
gmres|#include <amgcl/solver/gmres.hpp>|amgcl::solver::gmres<B>::params
lgmres|#include <amgcl/solver/lgmres.hpp>|amgcl::solver::lgmres<B>::params
fgmres|#include <amgcl/solver/fgmres.hpp>|amgcl::solver::fgmres<B>::params
idrs|#include <amgcl/solver/idrs.hpp>|amgcl::solver::idrs<B>::params
richardson|#include <amgcl/solver/richardson.hpp>|amgcl::solver::richardson<B>::params
preonly|#include <amgcl/solver/preonly.hpp>|amgcl::solver::preonly<B>::params
jacobi|#include <amgcl/relaxation/damped_jacobi.hpp>|amgcl::relaxation::damped_jacobi<B>::params
gs|#include <amgcl/relaxation/gauss_seidel.hpp>|amgcl::relaxation::gauss_seidel<B>::params
spai0|#include <amgcl/relaxation/spai0.hpp>|amgcl::relaxation::spai0<B>::params
spai1|#include <amgcl/relaxation/spai1.hpp>|amgcl::relaxation::spai1<B>::params
cheb|#include <amgcl/relaxation/chebyshev.hpp>|amgcl::relaxation::chebyshev<B>::params
ilu0|#include <amgcl/relaxation/ilu0.hpp>|amgcl::relaxation::ilu0<B>::params
iluk|#include <amgcl/relaxation/iluk.hpp>|amgcl::relaxation::iluk<B>::params
ilup|#include <amgcl/relaxation/ilup.hpp>|amgcl::relaxation::ilup<B>::params
ilut|#include <amgcl/relaxation/ilut.hpp>|amgcl::relaxation::ilut<B>::params
aggr|#include <amgcl/coarsening/aggregation.hpp>|amgcl::coarsening::aggregation<B>::params
sa|#include <amgcl/coarsening/smoothed_aggregation.hpp>|amgcl::coarsening::smoothed_aggregation<B>::params
emin|#include <amgcl/coarsening/smoothed_aggr_emin.hpp>|amgcl::coarsening::smoothed_aggr_emin<B>::params
rs|#include <amgcl/coarsening/ruge_stuben.hpp>|amgcl::coarsening::ruge_stuben<B>::params
amg|#include <amgcl/amg.hpp>|AMG0::params
ms|#include <amgcl/make_solver.hpp>|MS0::params
defl|#include <amgcl/deflated_solver.hpp>|amgcl::deflated_solver<AMG0, amgcl::solver::cg<B>>::params
cpr|#include <amgcl/preconditioner/cpr.hpp>|amgcl::preconditioner::cpr<AMG0, amgcl::relaxation::as_preconditioner<B, amgcl::relaxation::spai0>>::params
cprdrs|#include <amgcl/preconditioner/cpr_drs.hpp>|amgcl::preconditioner::cpr_drs<AMG0, amgcl::relaxation::as_preconditioner<B, amgcl::relaxation::spai0>>::params
bcrs|#include <amgcl/backend/block_crs.hpp>|amgcl::backend::block_crs<double>::params
LIST
