#include <amgcl/backend/builtin.hpp>
#include <amgcl/value_type/complex.hpp>
#include <amgcl/adapter/crs_tuple.hpp>
#include <amgcl/adapter/complex.hpp>
#include <amgcl/amg.hpp>
#include <amgcl/make_solver.hpp>
#include <amgcl/coarsening/smoothed_aggregation.hpp>
#include <amgcl/relaxation/spai0.hpp>
#include <amgcl/solver/bicgstab.hpp>
#include <iostream>
#include <random>
#include <complex>
typedef std::complex<double> Z;
int main(){ std::mt19937 rng(1); std::uniform_real_distribution<double> U(-1,1); int nx=30,ny=25,n=nx*ny; std::vector<ptrdiff_t> ptr(1,0),col; std::vector<Z> val;
  for(int j=0;j<ny;++j)for(int i=0;i<nx;++i){ int r=j*nx+i; if(j>0){col.push_back(r-nx);val.push_back(Z(-1,0.1));} if(i>0){col.push_back(r-1);val.push_back(Z(-1,-0.2));} col.push_back(r);val.push_back(Z(4.2,0.5)); if(i+1<nx){col.push_back(r+1);val.push_back(Z(-1,0.2));} if(j+1<ny){col.push_back(r+nx);val.push_back(Z(-1,-0.1));} ptr.push_back(col.size()); }
  std::vector<Z> f(n), xc(n,Z(0)); for(auto&v:f) v=Z(U(rng),U(rng));
  auto A=std::make_tuple(n,ptr,col,val);
  // adapter structure vs definition
  { auto R=amgcl::adapter::complex_matrix(A); long bad=0; if(amgcl::backend::rows(R)!=(size_t)2*n) bad++; for(int i=0;i<2*n;++i){ int k=0; auto a=amgcl::backend::row_begin(R,i); for(auto j=ptr[i/2];j<ptr[i/2+1];++j){ Z v=val[j]; double e0=(i%2==0)?v.real():v.imag(), e1=(i%2==0)?-v.imag():v.real(); if(!a||a.col()!=2*col[j]||a.value()!=e0) bad++; ++a; if(!a||a.col()!=2*col[j]+1||a.value()!=e1) bad++; ++a; } if(a) bad++; } printf("adapter structure bad=%ld\n",bad); }
  typedef amgcl::backend::builtin<Z> CB; typedef amgcl::backend::builtin<double> RB;
  { amgcl::make_solver<amgcl::amg<CB,amgcl::coarsening::smoothed_aggregation,amgcl::relaxation::spai0>,amgcl::solver::bicgstab<CB>> S(A); auto r=S(f,xc); printf("complex: it=%zu res=%.2e\n",std::get<0>(r),std::get<1>(r)); }
  std::vector<Z> xr(n,Z(0));
  { amgcl::make_solver<amgcl::amg<RB,amgcl::coarsening::smoothed_aggregation,amgcl::relaxation::spai0>,amgcl::solver::bicgstab<RB>> S(amgcl::adapter::complex_matrix(A)); auto F=amgcl::adapter::complex_range(f); auto X=amgcl::adapter::complex_range(xr); auto r=S(F,X); printf("real-equivalent: it=%zu res=%.2e\n",std::get<0>(r),std::get<1>(r)); }
  auto resid=[&](const std::vector<Z>&x){ long double s=0,nf=0; for(int i=0;i<n;++i){ std::complex<long double> t=f[i]; for(auto j=ptr[i];j<ptr[i+1];++j) t-=std::complex<long double>(val[j])*std::complex<long double>(x[col[j]]); s+=std::norm(t); nf+=std::norm(std::complex<long double>(f[i])); } return (double)sqrtl(s/nf); };
  double d=0,sc=0; for(int i=0;i<n;++i){ d=std::max(d,std::abs(xc[i]-xr[i])); sc=std::max(sc,std::abs(xc[i])); } printf("true residual complex %.2e real-equiv %.2e  |x diff|=%.2e (scale %.2e)\n",resid(xc),resid(xr),d,sc);
}
