#include <amgcl/backend/builtin.hpp>
#include <amgcl/value_type/static_matrix.hpp>
#include <amgcl/adapter/crs_tuple.hpp>
#include <amgcl/adapter/block_matrix.hpp>
#include <amgcl/preconditioner/cpr.hpp>
#include <amgcl/preconditioner/cpr_drs.hpp>
#include <amgcl/preconditioner/dummy.hpp>
#include <amgcl/deflated_solver.hpp>
#include <amgcl/amg.hpp>
#include <amgcl/coarsening/smoothed_aggregation.hpp>
#include <amgcl/relaxation/spai0.hpp>
#include <amgcl/relaxation/as_preconditioner.hpp>
#include <amgcl/solver/cg.hpp>
#include <Eigen/Dense>
#include <iostream>
#include <random>
typedef amgcl::backend::builtin<double> SB; typedef amgcl::static_matrix<double,2,2> Bk; typedef amgcl::backend::builtin<Bk> BB;
typedef Eigen::Matrix<long double,-1,-1> LD; typedef Eigen::Matrix<long double,-1,1> LV;
// recording exact preconditioner (dense inverse), scalar backend
template<class Bk_> struct exact_prec { typedef Bk_ backend_type; typedef typename Bk_::matrix matrix; typedef amgcl::detail::empty_params params; typedef typename amgcl::backend::builtin<typename Bk_::value_type>::matrix build_matrix;
  std::shared_ptr<matrix> A; static std::shared_ptr<build_matrix>& last(){ static std::shared_ptr<build_matrix> p; return p; }
  exact_prec(std::shared_ptr<build_matrix> M,const params& =params(),const typename Bk_::params& =typename Bk_::params()):A(M){ last()=std::make_shared<build_matrix>(*M); init(); }
  template<class Mx> exact_prec(const Mx&M,const params& =params(),const typename Bk_::params& =typename Bk_::params()):A(std::make_shared<matrix>(M)){ last()=std::make_shared<build_matrix>(*A); init(); }
  LD Ai; int n; void init(){ n=A->nrows; LD Ad=LD::Zero(n,n); for(int i=0;i<n;++i)for(auto j=A->ptr[i];j<A->ptr[i+1];++j) Ad(i,A->col[j])+=A->val[j]; Ai=Ad.inverse(); }
  template<class V1,class V2> void apply(const V1&f,V2&&x) const { for(int i=0;i<n;++i){ long double s=0; for(int j=0;j<n;++j) s+=Ai(i,j)*f[j]; x[i]=(double)s; } }
  const matrix& system_matrix() const {return *A;} std::shared_ptr<matrix> system_matrix_ptr() const {return A;} size_t bytes() const {return 0;} friend std::ostream& operator<<(std::ostream&o,const exact_prec&){return o<<"exact";} };
int main(int argc,char**argv){ std::mt19937 rng(argc>1?atoi(argv[1]):1); std::uniform_real_distribution<double> U(-1,1); double w_app=0,w_form=0,w_blk=0,w_pu=0; int cases=0;
  for(int rep=0;rep<20;++rep){ int nb=5+rng()%12,b=2,n=nb*b; LD A=LD::Zero(n,n); for(int ib=0;ib<nb;++ib)for(int jb=0;jb<nb;++jb) if(ib==jb||rng()%4==0) for(int k=0;k<b;++k)for(int l=0;l<b;++l) A(ib*b+k,jb*b+l)=0.3*U(rng); for(int i=0;i<n;++i){ long double s=0; for(int j=0;j<n;++j) s+=fabsl(A(i,j)); A(i,i)=s+0.5; }
    std::vector<ptrdiff_t> ptr(1,0),col; std::vector<double> val; for(int i=0;i<n;++i){ for(int j=0;j<n;++j) if(A(i,j)!=0){col.push_back(j);val.push_back((double)A(i,j));} ptr.push_back(col.size()); }
    typedef amgcl::relaxation::as_preconditioner<SB,amgcl::relaxation::spai0> SP; typedef amgcl::preconditioner::cpr<exact_prec<SB>,SP> CPR; CPR::params p; p.block_size=b; CPR C(std::make_tuple(n,ptr,col,val),p);
    auto App=exact_prec<SB>::last(); // recorded pressure matrix
    // reference App: (first row of inverse of diag block) . (first column of block (ip,cp))
    LD Ar=LD::Zero(nb,nb); LD F=LD::Zero(nb,n); for(int ip=0;ip<nb;++ip){ LD Dg=A.block(ip*b,ip*b,b,b); LD Di=Dg.inverse(); for(int k=0;k<b;++k) F(ip,ip*b+k)=Di(0,k); for(int cp=0;cp<nb;++cp){ long double s=0; for(int k=0;k<b;++k) s+=Di(0,k)*A(ip*b+k,cp*b); Ar(ip,cp)=s; } }
    LD Ag=LD::Zero(nb,nb); for(int i=0;i<nb;++i)for(auto j=App->ptr[i];j<App->ptr[i+1];++j) Ag(i,App->col[j])+=App->val[j]; w_app=std::max(w_app,(double)(Ag-Ar).cwiseAbs().maxCoeff());
    // formula: x = S f + Scatter Ar^-1 F (f - A S f), S=spai0 diag
    LD Sd=LD::Zero(n,n); for(int i=0;i<n;++i){ long double s=0; for(int j=0;j<n;++j) s+=A(i,j)*A(i,j); Sd(i,i)=A(i,i)/s; } LD Sc=LD::Zero(n,nb); for(int ip=0;ip<nb;++ip) Sc(ip*b,ip)=1;
    LD Bref=Sd+Sc*Ar.inverse()*F*(LD::Identity(n,n)-A*Sd); LD Bm(n,n); std::vector<double> e(n,0.0),x(n); for(int j=0;j<n;++j){e[j]=1;C.apply(e,x);e[j]=0;for(int i=0;i<n;++i)Bm(i,j)=x[i];} w_form=std::max(w_form,(double)(Bm-Bref).cwiseAbs().maxCoeff());
    // block input
    { typedef amgcl::relaxation::as_preconditioner<BB,amgcl::relaxation::spai0> SPb; typedef amgcl::preconditioner::cpr<exact_prec<SB>,SPb> CPRb; CPRb::params pb; auto Ab=std::make_tuple(n,ptr,col,val); CPRb Cb(amgcl::adapter::block_matrix<Bk>(Ab),pb); LD Bb(n,n); std::vector<double> e2(n,0.0),x2(n); for(int j=0;j<n;++j){ e2[j]=1; auto F2=amgcl::backend::reinterpret_as_rhs<Bk>(e2); auto X2=amgcl::backend::reinterpret_as_rhs<Bk>(x2); Cb.apply(F2,X2); e2[j]=0; for(int i=0;i<n;++i)Bb(i,j)=x2[i]; }
      // block spai0 differs from scalar spai0 in general (block inverse norm) -> compare only pressure stage: Bb - Sb where Sb is its own S... skip S: compare (Bb - Bm) restricted? just report
      w_blk=std::max(w_blk,(double)(Bb-Bm).cwiseAbs().maxCoeff()); }
    // partial update with same matrix
    { C.partial_update(std::make_tuple(n,ptr,col,val)); LD B2(n,n); for(int j=0;j<n;++j){e[j]=1;C.apply(e,x);e[j]=0;for(int i=0;i<n;++i)B2(i,j)=x[i];} w_pu=std::max(w_pu,(double)(B2-Bm).cwiseAbs().maxCoeff()); }
    cases++; }
  printf("cases=%d |App-ref|=%.2e |B-formula|=%.2e |Bblock-Bscalar|=%.2e (smoothers differ) partial_update diff=%.2e\n",cases,w_app,w_form,w_blk,w_pu);
}
