#include <amgcl/amg.hpp>
#include <amgcl/coarsening/runtime.hpp>
#include <amgcl/relaxation/runtime.hpp>
#include <amgcl/adapter/crs_tuple.hpp>
#include <Eigen/Dense>
#include <iostream>
#include <random>
typedef amgcl::backend::builtin<double> B; typedef amgcl::backend::crs<double> M;
typedef Eigen::Matrix<long double,-1,-1> LD;
typedef amgcl::amg<B, amgcl::runtime::coarsening::wrapper, amgcl::runtime::relaxation::wrapper> AMG;
namespace amgcl { namespace verif { void (*point_hook)(const char*, long)=nullptr; void (*barrier_hook)(const char*)=nullptr;
struct access { template<class A> static const decltype(A::levels)& levels(const A&a){ return a.levels; } }; }}
LD dense(const M&A){ LD D=LD::Zero(A.nrows,A.ncols); for(size_t i=0;i<A.nrows;++i)for(auto j=A.ptr[i];j<A.ptr[i+1];++j) D(i,A.col[j])+=A.val[j]; return D; }
struct Lev { LD A,P,R,Mpre,Mpost,Sol; bool has_solve=false, has_relax=false; int n; };
// reference: returns matrix X such that cycle(rhs, x0=0) gives x = X rhs ; general affine: x' = E x + X rhs. We need recursion with x given. Represent cycle as (E, X): x_out = E x_in + X f.
std::pair<LD,LD> cyc(const std::vector<Lev>&L,size_t l,int npre,int npost,int ncycle){ int n=L[l].n; LD I=LD::Identity(n,n);
  if(l+1==L.size()){ if(L[l].has_solve) return {LD::Zero(n,n), L[l].Sol}; LD E=I,X=LD::Zero(n,n); auto step=[&](const LD&Mi){ LD Es=I-Mi*L[l].A; E=Es*E; X=Es*X+Mi; }; for(int i=0;i<npre;++i) step(L[l].Mpre); for(int i=0;i<npost;++i) step(L[l].Mpost); return {E,X}; }
  LD E=I,X=LD::Zero(n,n); auto sub=cyc(L,l+1,npre,npost,ncycle); // coarse: u = Xc * fc (u0=0)
  for(int j=0;j<ncycle;++j){ auto step=[&](const LD&Mi){ LD Es=I-Mi*L[l].A; E=Es*E; X=Es*X+Mi; }; for(int i=0;i<npre;++i) step(L[l].Mpre);
    // x += P Xc R (f - A x)
    LD Cg=L[l].P*sub.second*L[l].R; LD Es=I-Cg*L[l].A; E=Es*E; X=Es*X+Cg; for(int i=0;i<npost;++i) step(L[l].Mpost); }
  return {E,X}; }
int main(int argc,char**argv){ std::mt19937 rng(argc>1?atoi(argv[1]):1); std::uniform_real_distribution<double> U(0.5,1.5); double worst=0; int cases=0;
  const char* coars[]={"aggregation","smoothed_aggregation","smoothed_aggr_emin","ruge_stuben"}; const char* relax[]={"damped_jacobi","spai0","spai1","gauss_seidel","ilu0","iluk","ilup","ilut","chebyshev"};
  for(int rep=0;rep<2;++rep){ int nx=9+rng()%6,ny=7+rng()%5,n=nx*ny; std::vector<ptrdiff_t> ptr(1,0),col; std::vector<double> val; std::vector<double> kx((nx+1)*ny),ky(nx*(ny+1)); for(auto&k:kx)k=U(rng); for(auto&k:ky)k=U(rng);
    for(int j=0;j<ny;++j)for(int i=0;i<nx;++i){ int r=j*nx+i; double w=kx[j*(nx+1)+i],e=kx[j*(nx+1)+i+1],s=ky[j*nx+i],nn=ky[(j+1)*nx+i]; if(j>0){col.push_back(r-nx);val.push_back(-s);} if(i>0){col.push_back(r-1);val.push_back(-w*(1+0.3*rep));} col.push_back(r);val.push_back(w+e+s+nn+0.4*rep); if(i+1<nx){col.push_back(r+1);val.push_back(-e);} if(j+1<ny){col.push_back(r+nx);val.push_back(-nn);} ptr.push_back(col.size()); }
    for(auto c:coars)for(auto r:relax){ int npre=1+rng()%3,npost=1+rng()%3,ncycle=1+rng()%2,pre_cycles=1+rng()%2; bool direct=rng()%3!=0; boost::property_tree::ptree p; p.put("coarsening.type",c); p.put("relax.type",r); p.put("coarse_enough",8); p.put("npre",npre); p.put("npost",npost); p.put("ncycle",ncycle); p.put("pre_cycles",pre_cycles); p.put("direct_coarse",direct); if(rng()%4==0) p.put("max_levels",2);
      AMG a(std::make_tuple(n,ptr,col,val),p); auto&lv=amgcl::verif::access::levels(a); std::vector<Lev> L; 
      for(auto it=lv.begin(); it!=lv.end(); ++it){ Lev l; l.n=it->m_rows; auto nx_=it; ++nx_; bool last=(nx_==lv.end());
        if(it->A) l.A=dense(*it->A); if(it->P) l.P=dense(*it->P); if(it->R) l.R=dense(*it->R);
        if(it->relax){ l.has_relax=true; l.Mpre=LD(l.n,l.n); l.Mpost=LD(l.n,l.n); amgcl::backend::numa_vector<double> f(l.n),x(l.n),t(l.n); for(int j=0;j<l.n;++j){ for(int i=0;i<l.n;++i){f[i]=(i==j);x[i]=0;} it->relax->apply_pre(*it->A,f,x,t); for(int i=0;i<l.n;++i) l.Mpre(i,j)=x[i]; for(int i=0;i<l.n;++i){f[i]=(i==j);x[i]=0;} it->relax->apply_post(*it->A,f,x,t); for(int i=0;i<l.n;++i) l.Mpost(i,j)=x[i]; } }
        if(it->solve){ l.has_solve=true; l.Sol=LD(l.n,l.n); amgcl::backend::numa_vector<double> f(l.n),x(l.n); for(int j=0;j<l.n;++j){ for(int i=0;i<l.n;++i){f[i]=(i==j);x[i]=0;} (*it->solve)(f,x); for(int i=0;i<l.n;++i) l.Sol(i,j)=x[i]; } }
        (void)last; L.push_back(l); }
      auto ex=cyc(L,0,npre,npost,ncycle); // one cycle: x = E x + X f ; apply(): x=0 then pre_cycles cycles
      LD Bref=LD::Zero(n,n); for(int k=0;k<pre_cycles;++k) Bref=ex.first*Bref+ex.second;
      LD Bm(n,n); std::vector<double> e(n,0.0),x(n); for(int j=0;j<n;++j){ e[j]=1; a.apply(e,x); e[j]=0; for(int i=0;i<n;++i)Bm(i,j)=x[i]; }
      double err=(double)((Bm-Bref).cwiseAbs().maxCoeff()/Bref.cwiseAbs().maxCoeff()); worst=std::max(worst,err); cases++; if(!(err<1e-11)) printf("MISMATCH %s %s levels=%zu npre=%d npost=%d ncycle=%d pre_cycles=%d direct=%d err=%.2e\n",c,r,L.size(),npre,npost,ncycle,pre_cycles,direct,err); }
  }
  printf("cases=%d worst relative |B - Bref| = %.2e\n",cases,worst);
}
