#include <amgcl/backend/builtin.hpp>
#include <amgcl/adapter/crs_tuple.hpp>
#include <amgcl/deflated_solver.hpp>
#include <amgcl/amg.hpp>
#include <amgcl/coarsening/smoothed_aggregation.hpp>
#include <amgcl/relaxation/spai0.hpp>
#include <amgcl/solver/cg.hpp>
#include <amgcl/solver/bicgstab.hpp>
#include <iostream>
#include <random>
typedef amgcl::backend::builtin<double> B;
int main(int argc,char**argv){ std::mt19937 rng(argc>1?atoi(argv[1]):1); std::uniform_real_distribution<double> U(0.5,1.5); int bad=0,cases=0;
  for(int rep=0;rep<10;++rep){ int nx=20+rng()%15,ny=15+rng()%10,n=nx*ny; std::vector<ptrdiff_t> ptr(1,0),col; std::vector<double> val; std::vector<double> kx((nx+1)*ny),ky(nx*(ny+1)); for(auto&k:kx)k=U(rng)*((rng()%2)?1:50); for(auto&k:ky)k=U(rng);
    for(int j=0;j<ny;++j)for(int i=0;i<nx;++i){ int r=j*nx+i; double w=kx[j*(nx+1)+i],e=kx[j*(nx+1)+i+1],s=ky[j*nx+i],nn=ky[(j+1)*nx+i]; if(j>0){col.push_back(r-nx);val.push_back(-s);} if(i>0){col.push_back(r-1);val.push_back(-w);} col.push_back(r);val.push_back(w+e+s+nn); if(i+1<nx){col.push_back(r+1);val.push_back(-e);} if(j+1<ny){col.push_back(r+nx);val.push_back(-nn);} ptr.push_back(col.size()); }
    int nv=1+rng()%5; std::vector<double> Z(nv*n); for(int k=0;k<nv;++k)for(int i=0;i<n;++i) Z[k*n+i]= (k==0)?1.0: ((i%nx)*k/(double)nx < 0.5*k ? 1.0:0.0) + 0.01*U(rng);
    typedef amgcl::deflated_solver<amgcl::amg<B,amgcl::coarsening::smoothed_aggregation,amgcl::relaxation::spai0>,amgcl::solver::cg<B>> S; S::params p; p.nvec=nv; p.vec=Z.data(); p.precond.coarse_enough=50;
    S s(std::make_tuple(n,ptr,col,val),p); std::vector<double> f(n),x(n,0.0); for(auto&v:f)v=U(rng)-1; size_t it; double res; std::tie(it,res)=s(f,x);
    long double nr=0,nf=0; std::vector<long double> r(n); for(int i=0;i<n;++i){ long double t=f[i]; for(auto j=ptr[i];j<ptr[i+1];++j) t-=(long double)val[j]*x[col[j]]; r[i]=t; nr+=t*t; nf+=(long double)f[i]*f[i]; } double tr=sqrtl(nr/nf);
    // projection property: after project(f, y) residual orthogonal to Z
    std::vector<double> y(n); for(auto&v:y) v=U(rng); s.project(f,y); double orth=0; for(int k=0;k<nv;++k){ long double d=0,nz=0,nrr=0; for(int i=0;i<n;++i){ long double t=f[i]; for(auto j=ptr[i];j<ptr[i+1];++j) t-=(long double)val[j]*y[col[j]]; d+=Z[k*n+i]*t; nz+=Z[k*n+i]*Z[k*n+i]; nrr+=t*t; } orth=std::max(orth,(double)(fabsl(d)/sqrtl(nz*nrr))); }
    cases++; bool ok= res<1e-8 && std::abs(tr-res)<=1e-3*tr+1e-12 && orth<1e-10; if(!ok) bad++; printf("rep%d n=%d nvec=%d it=%zu res=%.2e true=%.2e orth=%.2e %s\n",rep,n,nv,it,res,tr,orth,ok?"":"<<<"); }
  printf("cases=%d bad=%d\n",cases,bad);
}
