#include <amgcl/amg.hpp>
#include <amgcl/make_solver.hpp>
#include <amgcl/solver/runtime.hpp>
#include <amgcl/coarsening/runtime.hpp>
#include <amgcl/relaxation/runtime.hpp>
#include <amgcl/preconditioner/runtime.hpp>
#include <amgcl/adapter/crs_tuple.hpp>
#include <iostream>
#include <random>
#include <map>
typedef amgcl::backend::builtin<double> B;
struct CSR{ std::string name; int n; std::vector<ptrdiff_t> ptr,col; std::vector<double> val; };
int main(int argc,char**argv){ int which=argc>1?atoi(argv[1]):-1; std::vector<CSR> ms;
  { CSR a{"1x1",1,{0,1},{0},{2.0}}; ms.push_back(a);} 
  { CSR a; a.name="diag"; a.n=700; a.ptr.push_back(0); for(int i=0;i<a.n;++i){a.col.push_back(i);a.val.push_back(1.0+i%7);a.ptr.push_back(a.col.size());} ms.push_back(a);} 
  { CSR a; a.name="disconnected"; a.n=800; a.ptr.push_back(0); for(int i=0;i<a.n;++i){ int blk=i/4, k=i%4; if(k>0){a.col.push_back(i-1);a.val.push_back(-1);} a.col.push_back(i);a.val.push_back(2.5); if(k<3){a.col.push_back(i+1);a.val.push_back(-1);} a.ptr.push_back(a.col.size()); (void)blk;} ms.push_back(a);} 
  { CSR a; a.name="posoffdiag"; a.n=600; a.ptr.push_back(0); for(int i=0;i<a.n;++i){ if(i>0){a.col.push_back(i-1);a.val.push_back(i%3==0?0.4:-1.0);} a.col.push_back(i);a.val.push_back(2.5); if(i+1<a.n){a.col.push_back(i+1);a.val.push_back((i+1)%3==0?0.4:-1.0);} a.ptr.push_back(a.col.size()); } ms.push_back(a);} 
  { CSR a; a.name="allpos"; a.n=600; a.ptr.push_back(0); for(int i=0;i<a.n;++i){ if(i>0){a.col.push_back(i-1);a.val.push_back(0.5);} a.col.push_back(i);a.val.push_back(2.5); if(i+1<a.n){a.col.push_back(i+1);a.val.push_back(0.5);} a.ptr.push_back(a.col.size()); } ms.push_back(a);} 
  { CSR a; a.name="small<coarse_enough"; a.n=50; a.ptr.push_back(0); for(int i=0;i<a.n;++i){ if(i>0){a.col.push_back(i-1);a.val.push_back(-1);} a.col.push_back(i);a.val.push_back(2.0); if(i+1<a.n){a.col.push_back(i+1);a.val.push_back(-1);} a.ptr.push_back(a.col.size()); } ms.push_back(a);} 
  { CSR a; a.name="2x2ident"; a.n=2; a.ptr={0,1,2}; a.col={0,1}; a.val={1,1}; ms.push_back(a);} 
  const char* coars[]={"aggregation","smoothed_aggregation","smoothed_aggr_emin","ruge_stuben"};
  const char* relax[]={"damped_jacobi","spai0","spai1","gauss_seidel","ilu0","iluk","ilup","ilut","chebyshev"};
  const char* solv[]={"cg","bicgstab","bicgstabl","gmres","lgmres","fgmres","idrs","richardson","preonly"};
  int idx=0; for(auto&m:ms){ if(which>=0&&idx++!=which) continue; long ok=0,exc=0,nonfin=0,noconv=0; std::map<std::string,int> msgs;
    for(auto c:coars)for(auto r:relax)for(auto s:solv)for(int variant=0;variant<3;++variant){ boost::property_tree::ptree p; p.put("precond.coarsening.type",c); p.put("precond.relax.type",r); p.put("solver.type",s); if(variant==0) p.put("precond.coarse_enough",100); if(variant==1){ p.put("precond.coarse_enough",0); p.put("precond.max_levels",1);} if(variant==2){ p.put("precond.coarse_enough",1); p.put("precond.direct_coarse",false);} 
      std::vector<double> f(m.n,1.0), x(m.n,0.0);
      try{ amgcl::make_solver<amgcl::amg<B,amgcl::runtime::coarsening::wrapper,amgcl::runtime::relaxation::wrapper>,amgcl::runtime::solver::wrapper<B>> S(std::make_tuple(m.n,m.ptr,m.col,m.val),p); size_t it; double res; std::tie(it,res)=S(f,x); if(!std::isfinite(res)) nonfin++; else if(res>1e-8 && std::string(s)!="preonly") noconv++; else ok++; }catch(std::exception&e){ exc++; msgs[e.what()]++; } }
    printf("%-20s n=%d ok=%ld nonconverged=%ld nonfinite=%ld exceptions=%ld",m.name.c_str(),m.n,ok,noconv,nonfin,exc); for(auto&kv:msgs) printf(" [%s x%d]",kv.first.c_str(),kv.second); puts(""); }
}
