#include <amgcl/backend/builtin.hpp>
#include <amgcl/relaxation/gauss_seidel.hpp>
#include <amgcl/adapter/crs_tuple.hpp>
#include <iostream>
#include <random>
int main(int argc, char**argv){
  int n = 400; unsigned seed = argc>1?atoi(argv[1]):1; bool sym = argc>2 && atoi(argv[2]);
  std::mt19937 rng(seed);
  std::vector<std::vector<std::pair<int,double>>> rows(n);
  for(int i=0;i<n;++i){ rows[i].push_back({i, 10.0}); }
  std::uniform_int_distribution<int> U(0,n-1); std::uniform_real_distribution<double> V(-1,1);
  for(int k=0;k<3*n;++k){ int i=U(rng), j=U(rng); if(i==j) continue; double v=V(rng);
    bool dup=false; for(auto&p:rows[i]) if(p.first==j) dup=true; if(dup) continue;
    rows[i].push_back({j,v}); if(sym){ bool d2=false; for(auto&p:rows[j]) if(p.first==i) d2=true; if(!d2) rows[j].push_back({i,v}); } }
  std::vector<ptrdiff_t> ptr(1,0), col; std::vector<double> val;
  for(int i=0;i<n;++i){ std::sort(rows[i].begin(), rows[i].end()); for(auto&p:rows[i]){col.push_back(p.first); val.push_back(p.second);} ptr.push_back(col.size()); }
  typedef amgcl::backend::builtin<double> B;
  amgcl::backend::crs<double> A(std::make_tuple(n, ptr, col, val));
  amgcl::relaxation::gauss_seidel<B>::params ps; ps.serial = true;
  amgcl::relaxation::gauss_seidel<B>::params pp; pp.serial = false;
  amgcl::relaxation::gauss_seidel<B> S(A, ps, B::params()), P(A, pp, B::params());
  amgcl::backend::numa_vector<double> f(n), xs(n), xp(n), t(n);
  for(int i=0;i<n;++i){ f[i]=V(rng); xs[i]=xp[i]=V(rng);} 
  S.apply_pre(A,f,xs,t); P.apply_pre(A,f,xp,t);
  double d=0; for(int i=0;i<n;++i) d=std::max(d, std::abs(xs[i]-xp[i]));
  S.apply_post(A,f,xs,t); P.apply_post(A,f,xp,t);
  double d2=0; for(int i=0;i<n;++i) d2=std::max(d2, std::abs(xs[i]-xp[i]));
  std::cout<<"maxdiff pre "<<d<<" post "<<d2<<"\n";
}
