#include <amgcl/backend/builtin.hpp>
#include <amgcl/adapter/crs_tuple.hpp>
#include <amgcl/relaxation/ilu0.hpp>
#include <amgcl/relaxation/iluk.hpp>
#include <amgcl/relaxation/ilup.hpp>
#include <Eigen/Dense>
#include <iostream>
#include <random>
#include <set>
typedef amgcl::backend::builtin<double> B; typedef amgcl::backend::crs<double> M;
typedef Eigen::Matrix<long double,-1,-1> LD;
namespace amgcl { namespace verif { void (*point_hook)(const char*, long)=nullptr; void (*barrier_hook)(const char*)=nullptr;
struct access { template<class R> static auto& ilu(const R&r){ return *r.ilu; } template<class R> static auto& base(const R&r){ return *r.base; }
  template<class S> static std::tuple<const M*,const M*,const backend::numa_vector<double>*> serial_LUD(const S&s){ return std::make_tuple(s.L.get(), s.U.get(), s.D.get()); } }; }}
typedef std::set<std::pair<int,int>> Pat;
Pat doc_pattern(const Pat&S0,int n,int k){ Pat S=S0; for(int lev=0;lev<k;++lev){ Pat T=S; // pattern of L_{lev} U_{lev}: (i,j) if exists m<min(i,j): (i,m) in S (lower), (m,j) in S (upper)
    for(auto&a:S){ int i=a.first,m=a.second; if(m>=i) continue; for(auto&b:S){ if(b.first!=m) continue; int j=b.second; if(j<=m) continue; T.insert({i,j}); } } S=T; } return S; }
int main(int argc,char**argv){ std::mt19937 rng(argc>1?atoi(argv[1]):1); std::uniform_real_distribution<double> U(-1,1); long cases=0,bad=0;
  for(int rep=0;rep<60;++rep){ int n=5+rng()%14; bool sym=rep%2; LD A=LD::Zero(n,n); for(int i=0;i<n;++i)for(int j=0;j<n;++j) if(i!=j&&rng()%5==0){ double v=-0.1-std::abs(U(rng)); A(i,j)=v; if(sym)A(j,i)=v; } for(int i=0;i<n;++i){ long double s=0; for(int j=0;j<n;++j) if(j!=i) s+=fabsl(A(i,j)); A(i,i)=s+0.5; }
    std::vector<ptrdiff_t> ptr(1,0),col; std::vector<double> val; Pat S0; for(int i=0;i<n;++i){ for(int j=0;j<n;++j) if(A(i,j)!=0){col.push_back(j);val.push_back((double)A(i,j)); S0.insert({i,j});} ptr.push_back(col.size()); } M Am(std::make_tuple(n,ptr,col,val));
    for(int k=0;k<=3;++k) for(int kind=0;kind<3;++kind){ // 0: ilu0 (k==0 only), 1: iluk, 2: ilup
      if(kind==0&&k>0) continue; const M*L;const M*Uu;const amgcl::backend::numa_vector<double>*D; std::shared_ptr<void> keep; Pat expect;
      if(kind==0){ auto r=std::make_shared<amgcl::relaxation::ilu0<B>>(Am, []{amgcl::relaxation::ilu0<B>::params p; p.solve.serial=true; return p;}(), B::params()); std::tie(L,Uu,D)=amgcl::verif::access::serial_LUD(amgcl::verif::access::ilu(*r)); keep=r; expect=S0; }
      if(kind==1){ amgcl::relaxation::iluk<B>::params p; p.k=k; p.solve.serial=true; auto r=std::make_shared<amgcl::relaxation::iluk<B>>(Am,p,B::params()); std::tie(L,Uu,D)=amgcl::verif::access::serial_LUD(amgcl::verif::access::ilu(*r)); keep=r; expect=doc_pattern(S0,n,k); }
      if(kind==2){ amgcl::relaxation::ilup<B>::params p; p.k=k; p.solve.serial=true; auto r=std::make_shared<amgcl::relaxation::ilup<B>>(Am,p,B::params()); std::tie(L,Uu,D)=amgcl::verif::access::serial_LUD(amgcl::verif::access::ilu(amgcl::verif::access::base(*r))); keep=r; // pattern of A^(k+1)
          Pat S=S0; for(int t=0;t<k;++t){ Pat T; for(auto&a:S)for(auto&b:S0) if(a.second==b.first) T.insert({a.first,b.second}); S=T; } expect=S; }
      LD Ld=LD::Identity(n,n), Ud=LD::Zero(n,n); Pat got; for(int i=0;i<n;++i){ for(auto j=L->ptr[i];j<L->ptr[i+1];++j){ Ld(i,L->col[j])=L->val[j]; got.insert({i,(int)L->col[j]}); if(L->col[j]>=i) bad++; } for(auto j=Uu->ptr[i];j<Uu->ptr[i+1];++j){ Ud(i,Uu->col[j])=Uu->val[j]; got.insert({i,(int)Uu->col[j]}); if(Uu->col[j]<=i) bad++; } Ud(i,i)=1.0L/(*D)[i]; got.insert({i,i}); }
      LD LU=Ld*Ud; long double e=0; for(auto&g:got) e=std::max(e,fabsl(LU(g.first,g.second)-A(g.first,g.second)));
      bool pat_ok = (kind==2)? std::includes(expect.begin(),expect.end(),got.begin(),got.end()) && std::includes(got.begin(),got.end(),S0.begin(),S0.end()) : (got==expect);
      cases++; if(!(e<1e-13) || !pat_ok){ bad++; printf("rep%d n=%d kind=%d k=%d: |LU-A| on pattern=%.2Le pattern got=%zu expect=%zu ok=%d\n",rep,n,kind,k,e,got.size(),expect.size(),pat_ok); }
    } }
  printf("cases=%ld bad=%ld\n",cases,bad);
}
