#include <amgcl/backend/builtin.hpp>
#include <amgcl/adapter/crs_tuple.hpp>
#include <amgcl/relaxation/iluk.hpp>
#include <Eigen/Dense>
#include <iostream>
typedef amgcl::backend::builtin<double> B; typedef amgcl::backend::crs<double> M; typedef Eigen::Matrix<long double,-1,-1> LD;
namespace amgcl { namespace verif { void (*point_hook)(const char*, long)=nullptr; void (*barrier_hook)(const char*)=nullptr;
struct access { template<class R> static auto& ilu(const R&r){ return *r.ilu; } template<class S> static std::tuple<const M*,const M*,const backend::numa_vector<double>*> LUD(const S&s){ return std::make_tuple(s.L.get(), s.U.get(), s.D.get()); } }; }}
int main(){
  // search all 4x4 and 5x5 patterns for ILU(1) where LU != A on pattern
  for(int n=4;n<=5;++n){ int off=n*(n-1); long found=0, total=0; for(unsigned long mask=0; mask<(1ul<<off); ++mask){ LD A=LD::Zero(n,n); int e=0; for(int i=0;i<n;++i)for(int j=0;j<n;++j){ if(i==j)continue; if(mask>>e&1) A(i,j)=-1; ++e; } for(int i=0;i<n;++i) A(i,i)=n+1;
      std::vector<ptrdiff_t> ptr(1,0),col; std::vector<double> val; for(int i=0;i<n;++i){ for(int j=0;j<n;++j) if(A(i,j)!=0){col.push_back(j);val.push_back((double)A(i,j));} ptr.push_back(col.size()); } M Am(std::make_tuple(n,ptr,col,val));
      amgcl::relaxation::iluk<B>::params p; p.k=1; p.solve.serial=true; amgcl::relaxation::iluk<B> R(Am,p,B::params()); const M*L;const M*U;const amgcl::backend::numa_vector<double>*D; std::tie(L,U,D)=amgcl::verif::access::LUD(amgcl::verif::access::ilu(R));
      LD Ld=LD::Identity(n,n),Ud=LD::Zero(n,n); std::vector<std::pair<int,int>> got; for(int i=0;i<n;++i){ for(auto j=L->ptr[i];j<L->ptr[i+1];++j){Ld(i,L->col[j])=L->val[j];got.push_back({i,(int)L->col[j]});} for(auto j=U->ptr[i];j<U->ptr[i+1];++j){Ud(i,U->col[j])=U->val[j];got.push_back({i,(int)U->col[j]});} Ud(i,i)=1.0L/(*D)[i]; got.push_back({i,i}); }
      LD LU=Ld*Ud; long double err=0; std::pair<int,int> w; for(auto&g:got){ long double d=fabsl(LU(g.first,g.second)-A(g.first,g.second)); if(d>err){err=d;w=g;} } total++; if(err>1e-12){ found++; if(found==1){ std::cout<<"n="<<n<<" first failing pattern (ILU(1)), worst entry ("<<w.first<<","<<w.second<<") err="<<(double)err<<"\nA=\n"<<A.cast<double>()<<"\nL=\n"<<Ld.cast<double>()<<"\nU=\n"<<Ud.cast<double>()<<"\nLU=\n"<<LU.cast<double>()<<"\n"; } } }
    std::cout<<"n="<<n<<" patterns="<<total<<" violating="<<found<<"\n"; if(found) break; }
}
