#include <amgcl/io/mm.hpp>
#include <amgcl/io/binary.hpp>
#include <amgcl/adapter/crs_tuple.hpp>
#include <amgcl/value_type/complex.hpp>
#include <iostream>
#include <random>
#include <cstring>
#include <fstream>
#include <limits>
#include <complex>
template<class V> bool same(const std::vector<V>&a,const std::vector<V>&b){ return a.size()==b.size() && (a.empty()||!memcmp(a.data(),b.data(),a.size()*sizeof(V))); }
int main(){ std::mt19937_64 rng(1); long bad=0,cases=0;
  for(int rep=0;rep<60;++rep){ size_t n=1+rng()%15, m=1+rng()%15; std::vector<ptrdiff_t> ptr(1,0),col; std::vector<double> val; for(size_t i=0;i<n;++i){ for(size_t j=0;j<m;++j) if(rng()%3==0){ col.push_back(j); double v; uint64_t bits=rng(); switch(rng()%5){ case 0: v=std::numeric_limits<double>::denorm_min()*(1+rng()%1000); break; case 1: v=std::numeric_limits<double>::max()/(1+rng()%7); break; case 2: v=-std::numeric_limits<double>::min()*(1+rng()%3); break; default: memcpy(&v,&bits,8); if(!std::isfinite(v)) v=1.0/3; } val.push_back(v);} ptr.push_back(col.size()); }
    // rectangular matrix via crs struct
    amgcl::backend::crs<double> A(n,m,ptr,col,val); amgcl::io::mm_write("/tmp/exp/rt.mtx",A);
    std::vector<ptrdiff_t> p2,c2; std::vector<double> v2; size_t r,c; std::tie(r,c)=amgcl::io::mm_reader("/tmp/exp/rt.mtx")(p2,c2,v2); cases++; if(r!=n||c!=m||!same(ptr,p2)||!same(col,c2)||!same(val,v2)){ bad++; printf("mm double roundtrip mismatch rep %d\n",rep); }
    // row range
    for(int t=0;t<3;++t){ ptrdiff_t b=rng()%(n+1), e=b+rng()%(n-b+1); std::vector<ptrdiff_t> p3,c3; std::vector<double> v3; std::tie(r,c)=amgcl::io::mm_reader("/tmp/exp/rt.mtx")(p3,c3,v3,b,e); cases++; bool ok=(r==(size_t)(e-b)&&c==m&&p3.size()==(size_t)(e-b+1)); for(ptrdiff_t i=b;i<e&&ok;++i){ if(p3[i-b+1]-p3[i-b]!=ptr[i+1]-ptr[i]) ok=false; else for(ptrdiff_t j=0;j<ptr[i+1]-ptr[i];++j) if(c3[p3[i-b]+j]!=col[ptr[i]+j]||memcmp(&v3[p3[i-b]+j],&val[ptr[i]+j],8)) ok=false; } if(!ok){bad++; printf("mm row range mismatch rep %d [%ld,%ld)\n",rep,(long)b,(long)e);} }
    // dense
    { std::vector<double> d(n*m); for(auto&v:d){ uint64_t bits=rng(); memcpy(&v,&bits,8); if(!std::isfinite(v)) v=0.1; } amgcl::io::mm_write("/tmp/exp/rtd.mtx",d.data(),n,m); std::vector<double> d2; std::tie(r,c)=amgcl::io::mm_reader("/tmp/exp/rtd.mtx")(d2); cases++; if(r!=n||c!=m||!same(d,d2)){bad++; printf("mm dense roundtrip mismatch\n");} ptrdiff_t b=rng()%(n+1), e=b+rng()%(n-b+1); std::vector<double> d3; std::tie(r,c)=amgcl::io::mm_reader("/tmp/exp/rtd.mtx")(d3,b,e); cases++; if(r!=(size_t)(e-b)||d3.size()!=(e-b)*m||(d3.size()&&memcmp(d3.data(),d.data()+b*m,d3.size()*8))){bad++; printf("mm dense range mismatch\n");} }
    // float / complex / int
    { std::vector<float> vf(val.size()); for(auto&v:vf){ uint32_t bits=rng(); memcpy(&v,&bits,4); if(!std::isfinite(v)) v=0.3f; } amgcl::backend::crs<float,ptrdiff_t,ptrdiff_t> Af(n,m,ptr,col,vf); amgcl::io::mm_write("/tmp/exp/rtf.mtx",Af); std::vector<ptrdiff_t> p4,c4; std::vector<float> v4; amgcl::io::mm_reader("/tmp/exp/rtf.mtx")(p4,c4,v4); cases++; if(!same(ptr,p4)||!same(col,c4)||!same(vf,v4)){bad++; printf("mm float roundtrip mismatch\n");} }
    { typedef std::complex<double> Z; std::vector<Z> vz(val.size()); for(auto&v:vz){ double a,b; uint64_t x=rng(),y=rng(); memcpy(&a,&x,8); memcpy(&b,&y,8); if(!std::isfinite(a))a=0.5; if(!std::isfinite(b))b=-0.25; v=Z(a,b);} amgcl::backend::crs<Z,ptrdiff_t,ptrdiff_t> Az(n,m,ptr,col,vz); amgcl::io::mm_write("/tmp/exp/rtz.mtx",Az); std::vector<ptrdiff_t> p5,c5; std::vector<Z> v5; amgcl::io::mm_reader("/tmp/exp/rtz.mtx")(p5,c5,v5); cases++; if(!same(ptr,p5)||!same(col,c5)||!same(vz,v5)){bad++; printf("mm complex roundtrip mismatch\n");} }
    { std::vector<int> vi(val.size()); for(auto&v:vi) v=(int)rng(); amgcl::backend::crs<int,ptrdiff_t,ptrdiff_t> Ai(n,m,ptr,col,vi); amgcl::io::mm_write("/tmp/exp/rti.mtx",Ai); std::vector<ptrdiff_t> p6,c6; std::vector<int> v6; amgcl::io::mm_reader("/tmp/exp/rti.mtx")(p6,c6,v6); cases++; if(!same(ptr,p6)||!same(col,c6)||!same(vi,v6)){bad++; printf("mm int roundtrip mismatch\n");} }
    // binary
    { std::ofstream f("/tmp/exp/rt.bin",std::ios::binary); amgcl::io::write(f,n); amgcl::io::write(f,ptr); amgcl::io::write(f,col); amgcl::io::write(f,val); f.close(); size_t nn; std::vector<ptrdiff_t> p7,c7; std::vector<double> v7; amgcl::io::read_crs("/tmp/exp/rt.bin",nn,p7,c7,v7); cases++; if(nn!=n||!same(ptr,p7)||!same(col,c7)||!same(val,v7)){bad++; printf("binary roundtrip mismatch\n");}
      ptrdiff_t b=rng()%(n+1), e=b+rng()%(n-b+1); amgcl::io::read_crs("/tmp/exp/rt.bin",nn,p7,c7,v7,b,e); cases++; bool ok=(p7.size()==(size_t)(e-b+1)); for(ptrdiff_t i=b;i<e&&ok;++i){ if(p7[i-b+1]-p7[i-b]!=ptr[i+1]-ptr[i]) ok=false; else for(ptrdiff_t j=0;j<ptr[i+1]-ptr[i];++j) if(c7[p7[i-b]+j]!=col[ptr[i]+j]||memcmp(&v7[p7[i-b]+j],&val[ptr[i]+j],8)) ok=false; } if(!ok){bad++; printf("binary range mismatch rep %d [%ld,%ld) n=%zu\n",rep,(long)b,(long)e,n);} }
  }
  // symmetric file
  { std::ofstream f("/tmp/exp/sym.mtx"); f<<"%%MatrixMarket matrix coordinate real symmetric\n% c\n3 3 4\n1 1 2.5\n2 1 -1\n3 2 -0.5\n3 3 4\n"; f.close(); std::vector<ptrdiff_t> p,c; std::vector<double> v; amgcl::io::mm_reader("/tmp/exp/sym.mtx")(p,c,v); std::vector<ptrdiff_t> ep={0,2,4,6}, ec={0,1,0,2,1,2}; std::vector<double> ev={2.5,-1,-1,-0.5,-0.5,4}; cases++; if(!same(p,ep)||!same(c,ec)||!same(v,ev)){bad++; printf("symmetric expansion mismatch\n");} }
  printf("cases=%ld bad=%ld\n",cases,bad);
}
