#include <amgcl/backend/builtin.hpp>
#include <amgcl/adapter/crs_tuple.hpp>
#include <amgcl/coarsening/aggregation.hpp>
#include <amgcl/coarsening/smoothed_aggregation.hpp>
#include <amgcl/coarsening/smoothed_aggr_emin.hpp>
#include <iostream>
#include <random>
#include <map>
typedef amgcl::backend::builtin<double> B; typedef amgcl::backend::crs<double> M;
template<class C> void run(const char*nm,const M&A,const M&Ab,int b){ typename C::params p1; C c1(p1); auto P1=std::get<0>(c1.transfer_operators(A)); typename C::params p2; p2.aggr.block_size=b; C c2(p2); auto P2=std::get<0>(c2.transfer_operators(Ab));
  std::map<std::pair<long,long>,double> m1,m2; for(size_t i=0;i<P1->nrows;++i)for(auto j=P1->ptr[i];j<P1->ptr[i+1];++j) for(int k=0;k<b;++k) m1[{(long)i*b+k,(long)P1->col[j]*b+k}]=P1->val[j]; for(size_t i=0;i<P2->nrows;++i)for(auto j=P2->ptr[i];j<P2->ptr[i+1];++j) m2[{(long)i,(long)P2->col[j]}]=P2->val[j];
  long diff=0; for(auto&kv:m1){ auto it=m2.find(kv.first); if(it==m2.end()||memcmp(&it->second,&kv.second,8)) diff++; } printf("%s b=%d: P1 %zux%zu, Pb %zux%zu entries %zu vs %zu, differing %ld\n",nm,b,P1->nrows,P1->ncols,P2->nrows,P2->ncols,m1.size(),m2.size(),diff); }
int main(){ std::mt19937 rng(4); std::uniform_real_distribution<double> U(0.2,2.0); int nx=17,ny=12,n=nx*ny; std::vector<ptrdiff_t> ptr(1,0),col; std::vector<double> val;
  std::vector<double> kx((nx+1)*ny), ky(nx*(ny+1)); for(auto&k:kx)k=U(rng); for(auto&k:ky)k=0.2*U(rng);
  for(int j=0;j<ny;++j)for(int i=0;i<nx;++i){ int r=j*nx+i; double w=kx[j*(nx+1)+i],e=kx[j*(nx+1)+i+1],s=ky[j*nx+i],nn=ky[(j+1)*nx+i]; if(j>0){col.push_back(r-nx);val.push_back(-s);} if(i>0){col.push_back(r-1);val.push_back(-w);} col.push_back(r);val.push_back(w+e+s+nn); if(i+1<nx){col.push_back(r+1);val.push_back(-e);} if(j+1<ny){col.push_back(r+nx);val.push_back(-nn);} ptr.push_back(col.size()); }
  M A(std::make_tuple(n,ptr,col,val));
  for(int b=2;b<=3;++b){ std::vector<ptrdiff_t> bp(1,0),bc; std::vector<double> bv; for(int i=0;i<n;++i)for(int k=0;k<b;++k){ for(auto j=ptr[i];j<ptr[i+1];++j){bc.push_back(col[j]*b+k);bv.push_back(val[j]);} bp.push_back(bc.size()); } M Ab(std::make_tuple(n*b,bp,bc,bv));
    run<amgcl::coarsening::aggregation<B>>("aggregation",A,Ab,b); run<amgcl::coarsening::smoothed_aggregation<B>>("smoothed_aggregation",A,Ab,b); run<amgcl::coarsening::smoothed_aggr_emin<B>>("emin",A,Ab,b); }
}
