#include <amgcl/amg.hpp>
#include <amgcl/make_solver.hpp>
#include <amgcl/solver/runtime.hpp>
#include <amgcl/coarsening/runtime.hpp>
#include <amgcl/relaxation/runtime.hpp>
#include <amgcl/adapter/crs_tuple.hpp>
#include <iostream>
#include <random>
typedef amgcl::backend::builtin<double> B;
int main(int argc,char**argv){
  std::mt19937 rng(1); double contrast=100, aniso=0.1; int nx=70, ny=nx-7;
  std::uniform_real_distribution<double> U(0,1); int n=nx*ny; std::vector<ptrdiff_t> ptr(1,0),col; std::vector<double> val;
  std::vector<double> kx((nx+1)*ny), ky(nx*(ny+1)); for(auto&k:kx)k=std::pow(contrast,U(rng)); for(auto&k:ky)k=aniso*std::pow(contrast,U(rng));
  for(int j=0;j<ny;++j)for(int i=0;i<nx;++i){ int r=j*nx+i; double w=kx[j*(nx+1)+i],e=kx[j*(nx+1)+i+1],s=ky[j*nx+i],nn=ky[(j+1)*nx+i]; if(j>0){col.push_back(r-nx);val.push_back(-s);} if(i>0){col.push_back(r-1);val.push_back(-w);} col.push_back(r);val.push_back(w+e+s+nn); if(i+1<nx){col.push_back(r+1);val.push_back(-e);} if(j+1<ny){col.push_back(r+nx);val.push_back(-nn);} ptr.push_back(col.size()); }
  std::vector<double> f(n); for(auto&v:f)v=U(rng)-0.5;
  boost::property_tree::ptree p; p.put("precond.coarsening.type","smoothed_aggr_emin"); p.put("precond.relax.type","spai0"); p.put("solver.type",argv[1]); p.put("precond.coarse_enough",200); p.put("solver.verbose",true); p.put("solver.maxiter", 12);
  amgcl::make_solver<amgcl::amg<B,amgcl::runtime::coarsening::wrapper,amgcl::runtime::relaxation::wrapper>,amgcl::runtime::solver::wrapper<B>> S(std::make_tuple(n,ptr,col,val),p);
  std::cout<<S.precond()<<"\n"; std::vector<double> x(n,0.0); auto r=S(f,x); std::cout<<std::get<0>(r)<<" "<<std::get<1>(r)<<"\n";
  // apply precond to f and check NaN
  std::vector<double> z(n); S.precond().apply(f,z); int nn=0; for(auto v:z) if(!(v==v)) nn++; std::cout<<"NaN in precond apply: "<<nn<<"\n";
}
