#include <amgcl/backend/builtin.hpp>
#include <amgcl/adapter/crs_tuple.hpp>
#include <amgcl/coarsening/smoothed_aggr_emin.hpp>
#include <amgcl/coarsening/smoothed_aggregation.hpp>
#include <iostream>
#include <random>
typedef amgcl::backend::builtin<double> B; typedef amgcl::backend::crs<double> M;
int nonfinite(const M&A){ int c=0; for(size_t i=0;i<A.nnz;++i) if(!std::isfinite(A.val[i])) c++; return c; }
int main(){
  std::mt19937 rng(1); double contrast=100, aniso=0.1; int nx=70, ny=nx-7;
  std::uniform_real_distribution<double> U(0,1); int n=nx*ny; std::vector<ptrdiff_t> ptr(1,0),col; std::vector<double> val;
  std::vector<double> kx((nx+1)*ny), ky(nx*(ny+1)); for(auto&k:kx)k=std::pow(contrast,U(rng)); for(auto&k:ky)k=aniso*std::pow(contrast,U(rng));
  for(int j=0;j<ny;++j)for(int i=0;i<nx;++i){ int r=j*nx+i; double w=kx[j*(nx+1)+i],e=kx[j*(nx+1)+i+1],s=ky[j*nx+i],nn=ky[(j+1)*nx+i]; if(j>0){col.push_back(r-nx);val.push_back(-s);} if(i>0){col.push_back(r-1);val.push_back(-w);} col.push_back(r);val.push_back(w+e+s+nn); if(i+1<nx){col.push_back(r+1);val.push_back(-e);} if(j+1<ny){col.push_back(r+nx);val.push_back(-nn);} ptr.push_back(col.size()); }
  auto A=std::make_shared<M>(std::make_tuple(n,ptr,col,val));
  amgcl::coarsening::smoothed_aggr_emin<B> C;
  for(int l=0;l<3;++l){ amgcl::coarsening::pointwise_aggregates ag(*A, C.prm.aggr, 0); int removed=0; for(auto id:ag.id) if(id<0) removed++;
    auto PR=C.transfer_operators(*A); auto P=std::get<0>(PR),R=std::get<1>(PR); amgcl::backend::sort_rows(*P); amgcl::backend::sort_rows(*R); auto Ac=C.coarse_operator(*A,*P,*R); amgcl::backend::sort_rows(*Ac);
    // diag positivity and row sums of Ac
    int negdiag=0, zerodiag=0; for(size_t i=0;i<Ac->nrows;++i){ double d=0; bool f=false; for(auto j=Ac->ptr[i];j<Ac->ptr[i+1];++j) if((size_t)Ac->col[j]==i){d=Ac->val[j];f=true;} if(!f||d==0) zerodiag++; else if(d<0) negdiag++; }
    if(l==0){ int shown=0; for(size_t i=0;i<P->nrows && shown<6;++i){ bool nf=false; for(auto j=P->ptr[i];j<P->ptr[i+1];++j) if(!std::isfinite(P->val[j])) nf=true; if(!nf) continue; shown++; double D=0; int ns=0; for(auto j=A->ptr[i];j<A->ptr[i+1];++j){ if((size_t)A->col[j]==i||!ag.strong_connection[j]) D+=A->val[j]; if(ag.strong_connection[j]) ns++; } printf("  row %zu id=%ld strong=%d filtered diag=%g  P row:",i,(long)ag.id[i],ns,D); for(auto j=P->ptr[i];j<P->ptr[i+1];++j) printf(" (%ld,%g)",(long)P->col[j],P->val[j]); printf("   neighbours:"); for(auto j=A->ptr[i];j<A->ptr[i+1];++j) printf(" %ld[id=%ld,s=%d]",(long)A->col[j],(long)ag.id[A->col[j]],(int)ag.strong_connection[j]); puts(""); } }
    printf("level %d: n=%zu removed=%d nonfinite P=%d R=%d Ac=%d  Ac: zero/missing diag=%d neg diag=%d\n",l,A->nrows,removed,nonfinite(*P),nonfinite(*R),nonfinite(*Ac),zerodiag,negdiag); A=Ac; if(A->nrows<200) break; }
}
// appended debug main2
