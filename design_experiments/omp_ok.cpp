#include <omp.h>
#include <vector>
#include <cstdio>
int main(){
  int n=1000; std::vector<double> x(n,1.0), y(n,0.0);
  #pragma omp parallel
  {
    int t=omp_get_thread_num(), nt=omp_get_num_threads();
    for(int lev=0; lev<50; ++lev){
      // phase A: each thread writes own chunk of y reading all of x
      for(int i=t;i<n;i+=nt){ double s=0; for(int j=0;j<n;j+=97) s+=x[j]; y[i]=s; }
      #pragma omp barrier
      for(int i=t;i<n;i+=nt){ double s=0; for(int j=0;j<n;j+=89) s+=y[j]; x[i]=s*1e-3; }
      #pragma omp barrier
      ;
    }
  }
  printf("%g\n", x[5]);
#ifdef RACY
  #pragma omp parallel
  {
    int t=omp_get_thread_num(), nt=omp_get_num_threads();
    for(int i=t;i<n;i+=nt){ x[i] = x[(i+1)%n] + 1; }
  }
  printf("%g\n", x[5]);
#endif
}
