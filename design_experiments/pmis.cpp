#include <amgcl/backend/builtin.hpp>
#include <amgcl/adapter/crs_tuple.hpp>
#include <amgcl/mpi/util.hpp>
#include <amgcl/mpi/distributed_matrix.hpp>
#include <amgcl/mpi/coarsening/aggregation.hpp>
#include <amgcl/mpi/coarsening/smoothed_aggregation.hpp>
#include <amgcl/mpi/direct_solver/skyline_lu.hpp>
#include <iostream>
#include <random>
#include <map>
typedef amgcl::backend::builtin<double> B; typedef amgcl::backend::crs<double> M; typedef amgcl::mpi::distributed_matrix<B> DM;
std::map<std::pair<long,long>,double> gather(amgcl::mpi::communicator comm,const DM&A,long row_shift){ auto&L=*A.local(); auto&R=*A.remote(); std::vector<double> t; long cs=A.loc_col_shift(); for(size_t i=0;i<L.nrows;++i){ for(auto j=L.ptr[i];j<L.ptr[i+1];++j){t.push_back(i+row_shift);t.push_back(L.col[j]+cs);t.push_back(L.val[j]);} for(auto j=R.ptr[i];j<R.ptr[i+1];++j){t.push_back(i+row_shift);t.push_back(R.col[j]);t.push_back(R.val[j]);} }
  int cnt=t.size(); std::vector<int> cnts(comm.size),disp(comm.size+1,0); MPI_Allgather(&cnt,1,MPI_INT,cnts.data(),1,MPI_INT,comm); for(int i=0;i<comm.size;++i)disp[i+1]=disp[i]+cnts[i]; std::vector<double> all(disp.back()); MPI_Allgatherv(t.data(),cnt,MPI_DOUBLE,all.data(),cnts.data(),disp.data(),MPI_DOUBLE,comm); std::map<std::pair<long,long>,double> m; for(size_t k=0;k<all.size();k+=3){ auto key=std::make_pair((long)all[k],(long)all[k+1]); if(m.count(key)) m[key]=NAN; else m[key]=all[k+2]; } return m; }
int main(int argc,char**argv){ amgcl::mpi::init mpi(&argc,&argv); amgcl::mpi::communicator comm(MPI_COMM_WORLD); std::mt19937 rng(argc>1?atoi(argv[1]):1); std::uniform_real_distribution<double> U(0.5,2.0); int fails=0;
  for(int rep=0;rep<8;++rep){ int nx=8+rng()%10,ny=6+rng()%8,N=nx*ny; std::vector<ptrdiff_t> gptr(1,0),gcol; std::vector<double> gval; std::vector<double> kx((nx+1)*ny),ky(nx*(ny+1)); for(auto&k:kx)k=U(rng); for(auto&k:ky)k=U(rng);
    for(int j=0;j<ny;++j)for(int i=0;i<nx;++i){ int r=j*nx+i; double w=kx[j*(nx+1)+i],e=kx[j*(nx+1)+i+1],s=ky[j*nx+i],n=ky[(j+1)*nx+i]; bool iso=(rep%2==1)&&(r%17==3); if(iso){ gcol.push_back(r); gval.push_back(3.0); gptr.push_back(gcol.size()); continue; } auto nbr=[&](int q){ return !((rep%2==1)&&(q%17==3)); }; if(j>0&&nbr(r-nx)){gcol.push_back(r-nx);gval.push_back(-s);} if(i>0&&nbr(r-1)){gcol.push_back(r-1);gval.push_back(-w);} gcol.push_back(r);gval.push_back(w+e+s+n); if(i+1<nx&&nbr(r+1)){gcol.push_back(r+1);gval.push_back(-e);} if(j+1<ny&&nbr(r+nx)){gcol.push_back(r+nx);gval.push_back(-n);} gptr.push_back(gcol.size()); }
    std::vector<int> cut(comm.size+1,0); cut[comm.size]=N; for(int r=1;r<comm.size;++r) cut[r]=rng()%(N+1); std::sort(cut.begin(),cut.end()); int rb=cut[comm.rank],re=cut[comm.rank+1],n=re-rb;
    std::vector<ptrdiff_t> ptr(1,0),col; std::vector<double> val; for(int i=rb;i<re;++i){ for(auto j=gptr[i];j<gptr[i+1];++j){col.push_back(gcol[j]);val.push_back(gval[j]);} ptr.push_back(col.size()); }
    auto A=std::make_shared<DM>(comm,std::make_tuple(n,ptr,col,val),n);
    amgcl::mpi::coarsening::smoothed_aggregation<B> C; std::shared_ptr<DM> P,R; std::tie(P,R)=C.transfer_operators(*A); auto Ac=C.coarse_operator(*A,*P,*R);
    amgcl::mpi::coarsening::aggregation<B> Ca; std::shared_ptr<DM> Pt,Rt; std::tie(Pt,Rt)=Ca.transfer_operators(*A);
    auto pt=gather(comm,*Pt,rb); long nc=Pt->glob_cols(); std::vector<int> rowcnt(N,0), colcnt(nc,0); for(auto&kv:pt){ rowcnt[kv.first.first]++; colcnt[kv.first.second]++; if(kv.second!=1.0) fails++; }
    int badrow=0,badcol=0; for(int i=0;i<N;++i){ bool offd=false; for(auto j=gptr[i];j<gptr[i+1];++j) if(gcol[j]!=i) offd=true; if(rowcnt[i]!=(offd?1:0)) badrow++; } for(auto c:colcnt) if(c==0) badcol++;
    // Galerkin: Ac == R A P dense
    auto pm=gather(comm,*P,rb); auto acm=gather(comm,*Ac,P->loc_col_shift()); long ncs=P->glob_cols(); std::vector<long double> Pd(N*ncs,0); for(auto&kv:pm) Pd[kv.first.first*ncs+kv.first.second]=kv.second; std::vector<long double> AP(N*ncs,0); for(int i=0;i<N;++i)for(auto j=gptr[i];j<gptr[i+1];++j)for(long c=0;c<ncs;++c) AP[i*ncs+c]+=(long double)gval[j]*Pd[gcol[j]*ncs+c];
    double gerr=0; for(long a=0;a<ncs;++a)for(long c=0;c<ncs;++c){ long double s=0; for(int i=0;i<N;++i) s+=Pd[i*ncs+a]*AP[i*ncs+c]; auto it=acm.find({a,c}); double got= it==acm.end()?0.0:it->second; gerr=std::max(gerr,(double)fabsl(s-got)); }
    if(badrow||badcol||!(gerr<1e-12)) fails++;
    if(comm.rank==0) printf("np=%d rep%d N=%d cuts[%d,%d..] Ptent: cols=%ld badrow=%d emptycol=%d | SA: coarse=%ld |Ac-RAP|=%.2e\n",comm.size,rep,N,cut[1],comm.size>2?cut[2]:-1,nc,badrow,badcol,ncs,gerr);
  }
  if(comm.rank==0) printf("fails=%d\n",fails);
}
