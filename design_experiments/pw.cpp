#include <amgcl/backend/builtin.hpp>
#include <amgcl/adapter/crs_tuple.hpp>
#include <iostream>
int main(){
  // 2 x 12 matrix, block size 2
  std::vector<int> ptr={0,2,4}; std::vector<int> col={0,10, 1,6}; std::vector<double> val={1,2,3,4};
  amgcl::backend::crs<double,int,int> A(2,12,ptr,col,val);
  auto P = amgcl::backend::pointwise_matrix(A,2);
  std::cout<<P->nrows<<"x"<<P->ncols<<" nnz="<<P->nnz<<"\n";
  for(int i=0;i<(int)P->nrows;++i) for(int j=P->ptr[i];j<P->ptr[i+1];++j) std::cout<<i<<","<<P->col[j]<<"="<<P->val[j]<<"\n";
  // full blocks 2x4: entries rows 0,1 cols 0..3
  std::vector<int> p2={0,4,8}; std::vector<int> c2={0,1,2,3,0,1,2,3}; std::vector<double> v2={1,2,9,4, 5,6,8,7};
  amgcl::backend::crs<double,int,int> B(2,4,p2,c2,v2);
  auto Q = amgcl::backend::pointwise_matrix(B,2);
  for(int i=0;i<(int)Q->nrows;++i) for(int j=Q->ptr[i];j<Q->ptr[i+1];++j) std::cout<<i<<","<<Q->col[j]<<"="<<Q->val[j]<<"\n";
}
