#include <boost/rational.hpp>
typedef boost::rational<long long> Q;
namespace std { inline Q abs(const Q&q){ return q<0?-q:q; } }
#include <amgcl/backend/builtin.hpp>
namespace amgcl { namespace math {
template<> struct norm_impl<Q>{ static Q get(const Q&q){ return q<0?-q:q; } };
}}
#include <amgcl/adapter/crs_tuple.hpp>
#include <amgcl/solver/skyline_lu.hpp>
#include <amgcl/relaxation/ilu0.hpp>
#include <iostream>
int main(){
  typedef amgcl::backend::builtin<Q> B;
  int n=4; std::vector<ptrdiff_t> ptr={0,3,6,9,11}, col={0,1,3, 0,1,2, 1,2,3, 0,3}; std::vector<Q> val={Q(4),Q(-1),Q(-1), Q(-1),Q(4),Q(-2), Q(-1),Q(5),Q(-1), Q(-2),Q(3)};
  amgcl::backend::crs<Q> A(std::make_tuple(n,ptr,col,val));
  amgcl::solver::skyline_lu<Q> S(A); std::vector<Q> f={Q(1),Q(2),Q(3),Q(4)}, x(n); S(f,x);
  // exact residual
  bool ok=true; for(int i=0;i<n;++i){ Q r=f[i]; for(auto j=ptr[i];j<ptr[i+1];++j) r-=val[j]*x[col[j]]; if(r!=Q(0)) ok=false; }
  std::cout<<"skyline exact: "<<ok<<" x0="<<x[0]<<"\n";
  amgcl::relaxation::ilu0<B>::params p; p.solve.serial=true; amgcl::relaxation::ilu0<B> I(A,p,B::params());
  amgcl::backend::numa_vector<Q> rhs(n), y(n); for(int i=0;i<n;++i) rhs[i]=f[i]; I.apply(A,rhs,y); std::cout<<"ilu0 apply y0="<<y[0]<<"\n";
}
