#include <amgcl/backend/builtin.hpp>
#include <amgcl/adapter/crs_tuple.hpp>
#include <iostream>
#include <random>
#include <map>
typedef amgcl::backend::crs<double> M;
int main(int argc,char**argv){
  std::mt19937 rng(argc>1?atoi(argv[1]):1);
  bool intvals = argc>2 && atoi(argv[2]);
  for(int rep=0;rep<200;++rep){
    int n=1+rng()%30, k=1+rng()%30, m=1+rng()%30;
    auto gen=[&](int r,int c){ std::vector<ptrdiff_t> ptr(1,0),col; std::vector<double> val; for(int i=0;i<r;++i){ for(int j=0;j<c;++j) if(rng()%4==0){col.push_back(j); val.push_back(intvals? (double)((int)(rng()%7)-3) : std::ldexp((double)(rng()%1000003),-10)-400);} ptr.push_back(col.size()); } return M(r,c,ptr,col,val); };
    M A=gen(n,k), Bm=gen(k,m); M C1,C2;
    amgcl::backend::spgemm_saad(A,Bm,C1,true); amgcl::backend::spgemm_rmerge(A,Bm,C2);
    // dense ref
    std::vector<long double> D(n*m,0); std::vector<char> S(n*m,0);
    for(int i=0;i<n;++i)for(auto ja=A.ptr[i];ja<A.ptr[i+1];++ja){int c=A.col[ja]; for(auto jb=Bm.ptr[c];jb<Bm.ptr[c+1];++jb){ D[i*m+Bm.col[jb]]+=(long double)A.val[ja]*Bm.val[jb]; S[i*m+Bm.col[jb]]=1; }}
    auto chk=[&](const M&C,const char*nm){ int bad=0; double md=0; if(C.nrows!=(size_t)n||C.ncols!=(size_t)m) bad++; size_t cnt=0; for(int i=0;i<n;++i){ ptrdiff_t prev=-1; for(auto j=C.ptr[i];j<C.ptr[i+1];++j){ auto c=C.col[j]; if(c<=prev||c>=m) bad++; prev=c; if(!S[i*m+c]) bad++; md=std::max(md,(double)fabsl(C.val[j]-D[i*m+c])); cnt++; } } size_t exp=0; for(auto s:S) exp+=s; if(cnt!=exp) bad++; if(bad||md>1e-9) printf("rep %d %s bad=%d md=%g\n",rep,nm,bad,md); };
    chk(C1,"saad"); chk(C2,"rmerge");
  }
  puts("done");
}
