#include <amgcl/backend/builtin.hpp>
#include <amgcl/adapter/crs_tuple.hpp>
#include <amgcl/coarsening/ruge_stuben.hpp>
#include <iostream>
#include <cstring>
static unsigned char FILL=0;
void* operator new[](size_t n){ void*p=malloc(n?n:1); memset(p,FILL,n); return p;}
void* operator new(size_t n){ void*p=malloc(n?n:1); memset(p,FILL,n); return p;}
void operator delete(void*p) noexcept {free(p);} void operator delete[](void*p) noexcept {free(p);}
void operator delete(void*p,size_t) noexcept {free(p);} void operator delete[](void*p,size_t) noexcept {free(p);}
int main(int argc,char**argv){
  FILL = atoi(argv[1]);
  // 6x6: row 2 has only positive offdiagonals
  int n=6; std::vector<ptrdiff_t> ptr={0,2,5,8,11,14,16}; 
  std::vector<ptrdiff_t> col={0,1, 0,1,2, 1,2,3, 2,3,4, 3,4,5, 4,5};
  std::vector<double> val={2,-1, -1,2,-1, 0.5,2,0.5, -1,2,-1, -1,2,-1, -1,2};
  typedef amgcl::backend::builtin<double> B;
  amgcl::backend::crs<double> A(std::make_tuple(n,ptr,col,val));
  amgcl::coarsening::ruge_stuben<B> C;
  auto PR = C.transfer_operators(A); auto &P=*std::get<0>(PR);
  std::cout<<P.nrows<<"x"<<P.ncols<<" nnz="<<P.ptr[P.nrows]<<":";
  for(size_t i=0;i<P.nrows;++i) for(auto j=P.ptr[i];j<P.ptr[i+1];++j) std::cout<<" ("<<i<<","<<P.col[j]<<")="<<P.val[j];
  std::cout<<"\n";
}
