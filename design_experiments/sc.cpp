#include <amgcl/amg.hpp>
#include <amgcl/coarsening/runtime.hpp>
#include <amgcl/relaxation/runtime.hpp>
#include <amgcl/adapter/crs_tuple.hpp>
#include <iostream>
#include <cstring>
#include <random>
typedef amgcl::backend::builtin<double> B;
typedef amgcl::amg<B, amgcl::runtime::coarsening::wrapper, amgcl::runtime::relaxation::wrapper> AMG;
int main(){
  int nx=13,ny=9,n=nx*ny; std::vector<ptrdiff_t> ptr(1,0),col; std::vector<double> val; std::mt19937 rng(2); std::uniform_real_distribution<double> U(0.5,1.5);
  for(int j=0;j<ny;++j)for(int i=0;i<nx;++i){ int r=j*nx+i; double d=0.1; std::vector<std::pair<int,double>> e; if(j>0)e.push_back({r-nx,-U(rng)}); if(i>0)e.push_back({r-1,-U(rng)}); if(i+1<nx)e.push_back({r+1,-U(rng)}); if(j+1<ny)e.push_back({r+nx,-U(rng)}); for(auto&p:e)d-=p.second; e.push_back({r,d}); std::sort(e.begin(),e.end()); for(auto&p:e){col.push_back(p.first);val.push_back(p.second);} ptr.push_back(col.size()); }
  // symmetrise values
  const char* coars[]={"aggregation","smoothed_aggregation","smoothed_aggr_emin","ruge_stuben"};
  const char* relax[]={"damped_jacobi","spai0","spai1","gauss_seidel","ilu0","iluk","ilup","ilut","chebyshev"};
  for(auto c:coars)for(auto r:relax){ std::vector<std::vector<double>> Bs;
    for(int k: {0, 2, -6}){ std::vector<double> v2=val; for(auto&v:v2) v=std::ldexp(v,k);
      boost::property_tree::ptree p; p.put("coarsening.type",c); p.put("relax.type",r); p.put("coarse_enough",10);
      AMG a(std::make_tuple(n,ptr,col,v2),p); std::vector<double> Bm(n*n), e(n,0.0), x(n); for(int j=0;j<n;++j){ e[j]=1; a.apply(e,x); e[j]=0; for(int i=0;i<n;++i) Bm[i*n+j]=std::ldexp(x[i],k); } Bs.push_back(Bm); }
    bool s1=!memcmp(Bs[0].data(),Bs[1].data(),8*n*n), s2=!memcmp(Bs[0].data(),Bs[2].data(),8*n*n);
    printf("%-22s %-14s scale 4: %s  scale 2^-6: %s\n",c,r,s1?"bitwise":"DIFF",s2?"bitwise":"DIFF"); }
}
