#include <amgcl/backend/builtin.hpp>
#include <amgcl/value_type/static_matrix.hpp>
#include <amgcl/value_type/complex.hpp>
#include <amgcl/adapter/crs_tuple.hpp>
#include <Eigen/Dense>
#include <iostream>
#include <random>
typedef amgcl::backend::crs<double> M; using namespace amgcl;
int main(int argc,char**argv){ std::mt19937 rng(argc>1?atoi(argv[1]):1); std::uniform_real_distribution<double> U(-1,1); long bad=0,cases=0; double min_slack_g=1e9,min_slack_p=1e9;
  for(int rep=0;rep<300;++rep){ int n=2+rng()%25; Eigen::MatrixXd A=Eigen::MatrixXd::Zero(n,n); for(int i=0;i<n;++i)for(int j=0;j<n;++j) if(i==j||rng()%4==0) A(i,j)=U(rng)*(i==j?3:1); for(int i=0;i<n;++i) if(std::abs(A(i,i))<0.2) A(i,i)=0.5;
    std::vector<ptrdiff_t> ptr(1,0),col; std::vector<double> val; for(int i=0;i<n;++i){ for(int j=0;j<n;++j) if(A(i,j)!=0){col.push_back(j);val.push_back(A(i,j));} ptr.push_back(col.size()); } M Am(std::make_tuple(n,ptr,col,val));
    for(int scale=0;scale<2;++scale){ Eigen::MatrixXd As=A; if(scale) for(int i=0;i<n;++i) As.row(i)/=A(i,i); double rho=As.eigenvalues().cwiseAbs().maxCoeff(); double smax=Eigen::JacobiSVD<Eigen::MatrixXd>(As).singularValues()(0);
      double g= scale? backend::spectral_radius<true>(Am,0) : backend::spectral_radius<false>(Am,0); double gref=0; for(int i=0;i<n;++i) gref=std::max(gref,As.row(i).cwiseAbs().sum());
      cases++; if(!(g>=rho*(1-1e-12)) || !(std::abs(g-gref)<=1e-13*gref)){ bad++; printf("gersh fail rep%d scale=%d g=%g ref=%g rho=%g\n",rep,scale,g,gref,rho);} min_slack_g=std::min(min_slack_g,g/rho);
      for(int it:{1,3,10}){ double p= scale? backend::spectral_radius<true>(Am,it) : backend::spectral_radius<false>(Am,it); cases++; if(!(p<=smax*(1+1e-12)) || !(p>=0)){ bad++; printf("power fail rep%d scale=%d it=%d p=%g smax=%g\n",rep,scale,it,p,smax);} min_slack_p=std::min(min_slack_p,smax/p); } }
    // sort_rows / scale / crs copy ctor / move
    { std::vector<ptrdiff_t> c2=col; std::vector<double> v2=val; for(int i=0;i<n;++i){ std::vector<int> pm(ptr[i+1]-ptr[i]); for(size_t k=0;k<pm.size();++k)pm[k]=k; std::shuffle(pm.begin(),pm.end(),rng); for(size_t k=0;k<pm.size();++k){c2[ptr[i]+k]=col[ptr[i]+pm[k]];v2[ptr[i]+k]=val[ptr[i]+pm[k]];} } M Bm(n,n,ptr,c2,v2); backend::sort_rows(Bm); cases++; if(memcmp(Bm.col,col.data(),8*col.size())||memcmp(Bm.val,val.data(),8*val.size())){bad++; puts("sort_rows fail");}
      M C(Bm); backend::scale(C,0.5); cases++; for(size_t k=0;k<val.size();++k) if(C.val[k]!=0.5*val[k]){bad++; puts("scale fail"); break;} M D; D=C; M E(std::move(C)); cases++; if(E.nrows!=(size_t)n||D.nnz!=E.nnz||memcmp(D.val,E.val,8*E.nnz)){bad++; puts("copy/move fail");} }
  }
  // static_matrix identities on integer data
  { typedef static_matrix<double,3,3> S3; for(int rep=0;rep<2000;++rep){ S3 a,b,c; for(int i=0;i<9;++i){a(i)=(int)(rng()%7)-3; b(i)=(int)(rng()%7)-3; c(i)=(int)(rng()%7)-3;} S3 l=(a+b)*c, r=a*c+b*c; S3 t1=math::adjoint(a*b), t2=math::adjoint(b)*math::adjoint(a); S3 m=a-b, m2=a+(-1.0*b); cases+=3; for(int i=0;i<9;++i){ if(l(i)!=r(i)){bad++; puts("distributivity fail"); break;} if(t1(i)!=t2(i)){bad++; puts("adjoint product fail"); break;} if(m(i)!=m2(i)){bad++; puts("minus fail"); break;} }
      // inverse
      Eigen::Matrix3d ad; for(int i=0;i<3;++i)for(int j=0;j<3;++j) ad(i,j)=a(i,j); if(std::abs(ad.determinant())>0.5){ S3 ai=math::inverse(a); S3 id=a*ai; cases++; for(int i=0;i<3;++i)for(int j=0;j<3;++j) if(std::abs(id(i,j)-(i==j))>1e-12){bad++; puts("inverse fail"); i=3; break;} }
      // norm = Frobenius, inner product of rhs vectors
      double fn=0; for(int i=0;i<9;++i) fn+=a(i)*a(i); cases++; if(std::abs(math::norm(a)-std::sqrt(fn))>1e-14){bad++; puts("norm fail");}
      static_matrix<double,3,1> u,v; for(int i=0;i<3;++i){u(i)=(int)(rng()%7)-3; v(i)=(int)(rng()%7)-3;} double ip=0; for(int i=0;i<3;++i) ip+=u(i)*v(i); cases++; if(math::inner_product(u,v)!=ip){bad++; puts("inner fail");} } }
  printf("cases=%ld bad=%ld  min gersh/rho=%.3f min smax/power=%.3f\n",cases,bad,min_slack_g,min_slack_p);
}
