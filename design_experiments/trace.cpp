#include <amgcl/backend/builtin.hpp>
#include <amgcl/relaxation/gauss_seidel.hpp>
#include <amgcl/adapter/crs_tuple.hpp>
#include <iostream>
#include <random>
#include <map>
#include <omp.h>
typedef amgcl::backend::builtin<double> B;
// ---- hooks
namespace amgcl { namespace verif {
void (*point_hook)(const char*, long)=nullptr; void (*barrier_hook)(const char*)=nullptr;
struct access {
  template<class GS> static bool serial(const GS&g){ return g.is_serial; }
  template<class GS, class F> static void fwd(const GS&g, F f){ f(*g.forward); }
  template<class GS, class F> static void bwd(const GS&g, F f){ f(*g.backward); }
};
}}
static thread_local long t_epoch=0;
struct Ev{ int tid; long epoch; long idx; char rw; };
static std::vector<std::vector<Ev>> g_logs;
static void on_barrier(const char*){ ++t_epoch; }
static thread_local unsigned t_rng=0;
static void on_point(const char*, long){ if(!t_rng) t_rng=12345u+omp_get_thread_num()*7919u; t_rng=t_rng*1664525u+1013904223u; if((t_rng>>24)%16==0) sched_yield(); }
struct traced_vector { std::vector<double> v; typedef double value_type;
  struct ref { traced_vector*p; long i; operator double() const { g_logs[omp_get_thread_num()].push_back({omp_get_thread_num(),t_epoch,i,'R'}); return p->v[i]; }
    ref& operator=(double x){ g_logs[omp_get_thread_num()].push_back({omp_get_thread_num(),t_epoch,i,'W'}); p->v[i]=x; return *this; } };
  ref operator[](long i){ return ref{this,i}; } size_t size() const {return v.size();} };
int main(int argc,char**argv){
  int n=300; unsigned seed=argc>1?atoi(argv[1]):1; bool sym=argc>2&&atoi(argv[2]); std::mt19937 rng(seed);
  std::vector<std::vector<std::pair<int,double>>> rows(n); for(int i=0;i<n;++i) rows[i].push_back({i,10.0});
  std::uniform_int_distribution<int> U(0,n-1); std::uniform_real_distribution<double> V(-1,1);
  for(int k=0;k<3*n;++k){ int i=U(rng), j=U(rng); if(i==j) continue; double v=V(rng); bool dup=false; for(auto&p:rows[i]) if(p.first==j) dup=true; if(dup) continue; rows[i].push_back({j,v}); if(sym){ bool d2=false; for(auto&p:rows[j]) if(p.first==i) d2=true; if(!d2) rows[j].push_back({i,v}); } }
  std::vector<ptrdiff_t> ptr(1,0),col; std::vector<double> val; for(int i=0;i<n;++i){ std::sort(rows[i].begin(),rows[i].end()); for(auto&p:rows[i]){col.push_back(p.first);val.push_back(p.second);} ptr.push_back(col.size()); }
  amgcl::backend::crs<double> A(std::make_tuple(n,ptr,col,val));
  amgcl::relaxation::gauss_seidel<B>::params pp; amgcl::relaxation::gauss_seidel<B> P(A,pp,B::params());
  std::cout<<"serial? "<<amgcl::verif::access::serial(P)<<" threads "<<omp_get_max_threads()<<"\n";
  // (I) schedule invariant via accessor
  long viol_same=0, viol_order=0, rows_seen=0, nlev=0;
  amgcl::verif::access::fwd(P,[&](auto&sw){ int nt=sw.nthreads; nlev=sw.tasks[0].size(); std::vector<long> level(n,-1);
     for(int t=0;t<nt;++t) for(size_t l=0;l<sw.tasks[t].size();++l) for(auto r=sw.tasks[t][l].beg;r<sw.tasks[t][l].end;++r){ level[sw.ord[t][r]]=l; rows_seen++; }
     for(int i=0;i<n;++i) for(auto j=ptr[i];j<ptr[i+1];++j){ int c=col[j]; if(c==i) continue; if(level[c]==level[i]) viol_same++; else if((c<i)!=(level[c]<level[i])) viol_order++; } });
  std::cout<<"levels="<<nlev<<" rows_seen="<<rows_seen<<" same-level deps="<<viol_same<<" order violations="<<viol_order<<"\n";
  // (II) epoch trace
  g_logs.assign(omp_get_max_threads(),{}); amgcl::verif::barrier_hook=on_barrier; amgcl::verif::point_hook=on_point;
  traced_vector x; x.v.resize(n); amgcl::backend::numa_vector<double> f(n),t(n); for(int i=0;i<n;++i){f[i]=V(rng); x.v[i]=V(rng);} 
  #pragma omp parallel
  { t_epoch=0; }
  P.apply_pre(A,f,x,t);
  std::map<std::pair<long,long>, std::pair<int,std::vector<int>>> acc; long events=0, conflicts=0;
  std::map<std::pair<long,long>, int> writer; 
  for(auto&L:g_logs) for(auto&e:L){ events++; if(e.rw=='W'){ auto k=std::make_pair(e.epoch,e.idx); if(writer.count(k)&&writer[k]!=e.tid) conflicts++; writer[k]=e.tid; } }
  for(auto&L:g_logs) for(auto&e:L) if(e.rw=='R'){ auto k=std::make_pair(e.epoch,e.idx); auto it=writer.find(k); if(it!=writer.end() && it->second!=e.tid) conflicts++; }
  std::cout<<"events="<<events<<" conflicts(read/write same epoch, different threads)="<<conflicts<<"\n";
}
