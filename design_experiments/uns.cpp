#include <amgcl/amg.hpp>
#include <amgcl/relaxation/runtime.hpp>
#include <amgcl/relaxation/as_preconditioner.hpp>
#include <amgcl/coarsening/smoothed_aggregation.hpp>
#include <amgcl/coarsening/aggregation.hpp>
#include <amgcl/coarsening/pointwise_aggregates.hpp>
#include <amgcl/adapter/crs_tuple.hpp>
#include <iostream>
#include <random>
typedef amgcl::backend::builtin<double> B;
int main(){
  int n=50; std::vector<ptrdiff_t> ptr(1,0), col; std::vector<double> val;
  for(int i=0;i<n;++i){ if(i){col.push_back(i-1);val.push_back(-1);} col.push_back(i);val.push_back(2.5); if(i+1<n){col.push_back(i+1);val.push_back(-1.2);} if(i+7<n){col.push_back(i+7);val.push_back(-0.1);} ptr.push_back(col.size()); }
  auto ptr2=ptr; auto col2=col; auto val2=val; std::mt19937 rng(3);
  for(int i=0;i<n;++i){ // reverse each row
    std::reverse(col2.begin()+ptr[i], col2.begin()+ptr[i+1]); std::reverse(val2.begin()+ptr[i], val2.begin()+ptr[i+1]); }
  const char* rl[]={"damped_jacobi","spai0","spai1","gauss_seidel","ilu0","iluk","ilup","ilut","chebyshev"};
  for(auto r:rl){
    boost::property_tree::ptree p; p.put("type", r);
    std::vector<double> f(n), x1(n), x2(n); for(int i=0;i<n;++i) f[i]=std::sin(i+1.0);
    try{
    amgcl::relaxation::as_preconditioner<B, amgcl::runtime::relaxation::wrapper> P1(std::make_tuple(n,ptr,col,val), p);
    P1.apply(f,x1);
    amgcl::relaxation::as_preconditioner<B, amgcl::runtime::relaxation::wrapper> P2(std::make_tuple(n,ptr2,col2,val2), p);
    P2.apply(f,x2);
    double d=0; for(int i=0;i<n;++i) d=std::max(d,std::abs(x1[i]-x2[i]));
    std::cout<<r<<": maxdiff="<<d<<"\n";
    }catch(std::exception&e){ std::cout<<r<<": EXC "<<e.what()<<"\n"; }
  }
  // block pointwise aggregates on A (x) I_2
  {
    int b=2; std::vector<ptrdiff_t> bp(1,0), bc; std::vector<double> bv;
    for(int i=0;i<n;++i) for(int k=0;k<b;++k){ for(auto j=ptr[i];j<ptr[i+1];++j){ bc.push_back(col[j]*b+k); bv.push_back(val[j]); } bp.push_back(bc.size()); }
    amgcl::backend::crs<double> A(std::make_tuple(n,ptr,col,val)), Ab(std::make_tuple(n*b,bp,bc,bv));
    amgcl::coarsening::pointwise_aggregates::params pa; amgcl::coarsening::pointwise_aggregates a1(A,pa,0);
    pa.block_size=2; amgcl::coarsening::pointwise_aggregates a2(Ab,pa,0);
    int bad_id=0,bad_s=0; for(int i=0;i<n;++i)for(int k=0;k<b;++k){ if(a2.id[i*b+k]!= (a1.id[i]<0? a2.id[i*b+k] : a1.id[i]*b+k)) bad_id++; 
      for(auto j=ptr[i];j<ptr[i+1];++j){ auto jb=bp[i*b+k]+(j-ptr[i]); if((bool)a1.strong_connection[j]!=(bool)a2.strong_connection[jb]) bad_s++; } }
    std::cout<<"pointwise lifted: count "<<a1.count<<" vs "<<a2.count<<" bad_id="<<bad_id<<" bad_strong="<<bad_s<<"\n";
  }
}
