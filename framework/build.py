"""Build flavours and the per-translation-unit content-hash cache (DESIGN.md section 2)."""
import os, sys, hashlib, subprocess, fcntl, shlex, concurrent.futures as cf

VERIF = os.path.dirname(os.path.dirname(os.path.abspath(__file__)))

def repo():
    return os.path.abspath(os.environ.get('VERIF_REPO', '/repo'))

def build_root():
    r = repo()
    tag = 'repo' if r == '/repo' else 'alt-' + hashlib.sha1(r.encode()).hexdigest()[:10]
    return os.path.join(os.environ.get('VERIF_BUILD', os.path.join(VERIF, 'build')), tag)

WARN = ['-w']
def common():
    return ['-std=c++17', '-I' + repo(), '-I' + os.path.join(VERIF, 'include'), '-I/usr/include/eigen3',
            '-DAMGCL_VERIF'] + WARN

FLAVOURS = {
    # compiler, compile flags, link flags
    'plain':     ('g++',        ['-O2', '-g1', '-DNDEBUG', '-fopenmp', '-ffp-contract=off'], ['-fopenmp']),
    'plain-dbg': ('g++',        ['-O1', '-g', '-fopenmp', '-ffp-contract=off'], ['-fopenmp']),            # asserts live
    'asan':      ('g++',        ['-O1', '-g', '-fopenmp', '-fno-omit-frame-pointer', '-fsanitize=address,undefined',
                                 '-fno-sanitize=null', '-fno-sanitize-recover=all'], ['-fopenmp', '-fsanitize=address,undefined']),
    'plain-omp': ('clang++-14', ['-O2', '-g1', '-DNDEBUG', '-fopenmp', '-ffp-contract=off'], ['-fopenmp']),
    'tsan':      ('clang++-14', ['-O1', '-g', '-fopenmp', '-fsanitize=thread'], ['-fopenmp', '-fsanitize=thread']),
    'vg':        ('g++',        ['-O1', '-g', '-fopenmp', '-ffp-contract=off'], ['-fopenmp']),
    'mpi-plain': ('mpicxx',     ['-O2', '-g1', '-DNDEBUG', '-fopenmp', '-ffp-contract=off'], ['-fopenmp']),
    'mpi-asan':  ('mpicxx',     ['-O1', '-g', '-fopenmp', '-fno-omit-frame-pointer', '-fsanitize=address,undefined',
                                 '-fno-sanitize=null', '-fno-sanitize-recover=all'], ['-fopenmp', '-fsanitize=address,undefined']),
}

class BuildError(Exception):
    def __init__(self, msg, log=''):
        super().__init__(msg); self.log = log

def _sha(path):
    h = hashlib.sha1()
    try:
        with open(path, 'rb') as f: h.update(f.read())
    except OSError:
        return 'missing'
    return h.hexdigest()

def _parse_deps(dfile):
    try: txt = open(dfile).read()
    except OSError: return None
    txt = txt.replace('\\\n', ' ')
    parts = txt.split(':', 1)
    if len(parts) < 2: return None
    deps = shlex.split(parts[1])
    return deps

def _relevant(p):
    p = os.path.abspath(p)
    return p.startswith(repo() + os.sep) or p.startswith(VERIF + os.sep)

def _key(cmd, deps):
    h = hashlib.sha1(); h.update(' '.join(cmd).encode())
    for d in sorted(set(os.path.abspath(x) for x in deps if _relevant(x))):
        h.update(d.encode()); h.update(_sha(d).encode())
    return h.hexdigest()

def compile_tu(src, flavour, extra=()):
    """Compile one TU (cached). Returns object path. Raises BuildError."""
    cxx, cflags, _ = FLAVOURS[flavour]
    src = src.replace('{repo}', repo())
    if not os.path.isabs(src): src = os.path.join(VERIF, src)
    tag = hashlib.sha1((src + '|' + ' '.join(extra)).encode()).hexdigest()[:8]
    odir = os.path.join(build_root(), flavour); os.makedirs(odir, exist_ok=True)
    obj = os.path.join(odir, os.path.basename(src).rsplit('.', 1)[0] + '.' + tag + '.o')
    cmd = [cxx] + common() + cflags + [e.replace('{repo}', repo()) for e in extra] + ['-c', src]
    with open(obj + '.lock', 'w') as lk:
        fcntl.flock(lk, fcntl.LOCK_EX)
        deps = _parse_deps(obj + '.d')
        if deps is not None and os.path.exists(obj) and os.path.exists(obj + '.key'):
            if open(obj + '.key').read().strip() == _key(cmd, deps):
                return obj
        p = subprocess.run(cmd + ['-MMD', '-MF', obj + '.d', '-o', obj], stdout=subprocess.PIPE, stderr=subprocess.STDOUT, text=True)
        if p.returncode != 0:
            for f in (obj, obj + '.key'):
                try: os.unlink(f)
                except OSError: pass
            raise BuildError('compile failed: %s [%s]' % (os.path.basename(src), flavour), p.stdout[-6000:])
        deps = _parse_deps(obj + '.d') or [src]
        with open(obj + '.key', 'w') as f: f.write(_key(cmd, deps))
    return obj

def build(target, flavour, pool=None):
    """target: dict(name, sources[, flags, libs]).  Returns binary path."""
    cxx, _, lflags = FLAVOURS[flavour]
    srcs = target['sources']; extra = tuple(target.get('flags', ()))
    if pool is None:
        objs = [compile_tu(s, flavour, extra) for s in srcs]
    else:
        objs = list(pool.map(lambda s: compile_tu(s, flavour, extra), srcs))
    bdir = os.path.join(build_root(), flavour); binp = os.path.join(bdir, target['name'])
    h = hashlib.sha1()
    for o in objs: h.update(open(o + '.key').read().encode())
    h.update(' '.join(target.get('libs', ())).encode())
    lkey = h.hexdigest()
    with open(binp + '.lock', 'w') as lk:
        fcntl.flock(lk, fcntl.LOCK_EX)
        if os.path.exists(binp) and os.path.exists(binp + '.lkey') and open(binp + '.lkey').read() == lkey:
            return binp
        cmd = [cxx] + objs + lflags + list(target.get('libs', ())) + ['-o', binp]
        p = subprocess.run(cmd, stdout=subprocess.PIPE, stderr=subprocess.STDOUT, text=True)
        if p.returncode != 0:
            raise BuildError('link failed: %s [%s]' % (target['name'], flavour), p.stdout[-6000:])
        with open(binp + '.lkey', 'w') as f: f.write(lkey)
    return binp

def build_many(pairs, jobs=16):
    """pairs: list of (target, flavour). Returns dict {(name, flavour): path or BuildError}."""
    out = {}
    # flatten TUs first so that compilation is parallel across targets
    tus = []
    for t, fl in pairs:
        for s in t['sources']: tus.append((s, fl, tuple(t.get('flags', ()))))
    tus = list(dict.fromkeys(tus))
    errs = {}
    with cf.ThreadPoolExecutor(max_workers=jobs) as ex:
        futs = {ex.submit(compile_tu, *tu): tu for tu in tus}
        for f in cf.as_completed(futs):
            try: f.result()
            except BuildError as e: errs[futs[f]] = e
    for t, fl in pairs:
        bad = [errs[(s, fl, tuple(t.get('flags', ())))] for s in t['sources'] if (s, fl, tuple(t.get('flags', ()))) in errs]
        if bad: out[(t['name'], fl)] = bad[0]; continue
        try: out[(t['name'], fl)] = build(t, fl)
        except BuildError as e: out[(t['name'], fl)] = e
    return out
