#!/usr/bin/env python3
"""Regenerate /verif/MANIFEST.json from the registry (run after registering or dropping a check)."""
import os, sys, json, subprocess
VERIF = os.path.dirname(os.path.dirname(os.path.abspath(__file__)))
sys.path.insert(0, VERIF)
from framework import registry

NOT_BUILT = 'check not built yet (build round in progress); planned in DESIGN.md section 5'
def main():
    props = [json.loads(l)['id'] for l in open(os.path.join(VERIF, 'properties.jsonl'))]
    try: commits = subprocess.check_output(['git', '-C', '/repo', 'log', '--format=%h %s', '--grep=AMGCL_VERIF'], text=True).strip().splitlines()
    except Exception: commits = []
    checks = []; na = []
    # Only checks the lead has reviewed and run on seeds 1..3 are registered (framework/registered.txt).
    reg = set(open(os.path.join(VERIF, 'framework', 'registered.txt')).read().split())
    for p in props:
        s = registry.PROPS.get(p)
        if not s or s.get('unregistered') or p not in reg:
            na.append(dict(property_id=p, reason=(s or {}).get('na_reason', NOT_BUILT))); continue
        checks.append(dict(property_id=p, quick_cmd='./vf check %s --tier quick' % p, thorough_cmd='./vf check %s --tier thorough' % p,
                           evidence_file='/verif/evidence/%s.json' % p, replay_cmd_template='./vf replay {path}', engine='vf',
                           level_claimed=dict(category=s['level'], text=s['level_text'], design_ref=s.get('design_ref', 'DESIGN.md section 5, ' + p)),
                           level_note=s['level_note'], technique=s['technique']))
    m = dict(version=1,
             setup_cmd='./vf setup',
             hooks=dict(guard='AMGCL_VERIF', enable='header-only library: every harness is compiled with -DAMGCL_VERIF -I/repo (see framework/build.py)',
                        baseline_off_cmd='cmake -G Ninja -S /repo -B /repo/_build && cmake --build /repo/_build && ctest --test-dir /repo/_build -j8 --timeout 900',
                        source_commits=[c.split()[0] for c in commits], add_only=True),
             engines=[dict(name='vf', path='/verif/vf', serves_properties=[c['property_id'] for c in checks],
                           kind_free_text='python driver: rebuilds C++ harnesses against /repo per build flavour (plain, ASan+UBSan, TSan+Archer, valgrind, MPI), fans out seeded workloads, aggregates the JSON event logs of the monitors, matches violations against known_findings.json, writes evidence')],
             checks=checks, not_applicable=na,
             notes='Runtime monitoring and sanitizers only. Exit 0 held / 1 violation / 2 inconclusive or harness failure. VERIF_SEED and VERIF_TIER are honoured. Known findings: /verif/known_findings.json.')
    json.dump(m, open(os.path.join(VERIF, 'MANIFEST.json'), 'w'), indent=1)
    print('MANIFEST: %d checks, %d not_applicable' % (len(checks), len(na)))
if __name__ == '__main__': main()
