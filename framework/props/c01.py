from framework.registry import target, job, PROPS, COMMON_ASSUME

# ---------------------------------------------------------------------------
# C01 a reported convergence is truthful
# c01  : ONE heavy TU (amg<builtin<double>, runtime coarsening, runtime relaxation> + runtime solver wrapper through boost::property_tree):
#        4 coarsenings x 9 relaxations x 8 solvers (preonly excluded) x both preconditioning sides.
# c01t*: the same oracle for complex<double>, static_matrix<double,2|3,2|3> and float (one source, three -D targets, plain flavour only).
# ---------------------------------------------------------------------------
target('c01', ['harness/c01_truthful.cpp'])
target('c01tc', ['harness/c01_types.cpp'], flags=['-DC01_VT=1'])
target('c01tb', ['harness/c01_types.cpp'], flags=['-DC01_VT=2'])
target('c01tf', ['harness/c01_types.cpp'], flags=['-DC01_VT=3'])

# Watchdogs: every solve in these harnesses is bounded by maxiter; a call that never returns violates the iteration-bound /
# reuse clauses, so a hang that reproduces on the retry is attributed to the open case and reported (key hang:<sub>).
# Quick jobs take < 60 s each on a loaded machine: the quick watchdogs are >= 30x that.
def c01_jobs(tier):
    q = tier == 'quick'
    js = [job('truthful-plain', 'c01', 'plain', threads=1, shards=12 if q else 16, timeout=1800 if q else 7200, hang_is_violation=True),
          job('truthful-asan',  'c01', 'asan',  threads=1, shards=8 if q else 16, timeout=2700 if q else 14400, hang_is_violation=True, args=['--stride=5'] if q else ['--stride=7']),      # strides are coprime with the shard counts (cases are sharded by idx % shards)
          job('types-complex',  'c01tc', 'plain', threads=1, shards=2 if q else 4, timeout=1800 if q else 7200, hang_is_violation=True),
          job('types-block',    'c01tb', 'plain', threads=1, shards=2 if q else 4, timeout=1800 if q else 7200, hang_is_violation=True),
          job('types-float',    'c01tf', 'plain', threads=1, shards=2 if q else 4, timeout=1800 if q else 7200, hang_is_violation=True)]
    if not q:
        # 4 threads: the parallel code paths (level-scheduled ILU solves, parallel Gauss-Seidel, reductions) under the same oracle.  libgomp with the passive wait
        # policy is slow on these small systems (measured 25 s per case on the shared machine), hence every 23rd case only.
        js.append(job('truthful-plain-t4', 'c01', 'plain', threads=4, shards=4, timeout=2700 if q else 14400, hang_is_violation=True, args=['--sub', 'truthful', '--stride=23']))
    return js

# Oracle notes (rule 4 of the harness guide; details next to vf::check_truthful in include/vf/krylov.hpp):
#  * an exception thrown by the library is not a C01 violation (nothing was reported), except on the model sub-family where it counts as
#    "did not reach the tolerance"; a non-finite reported residual is truthful iff the true residual of the returned x is non-finite
#    (F12: smoothed_aggr_emin NaN hierarchies on contrast >= 30 are therefore not C01 violations; they are counted in nonfinite_reports).
#  * the "conditioning of the call" includes the preconditioner: kappa_call = ||A|| max(||A^-1||, ||P||) with ||P|| a probe estimate.  A smoother
#    that diverges (Chebyshev on a strongly non-symmetric convection-diffusion matrix: measured gain 2e11) makes every rounding bound vacuous; such
#    recursive-residual comparisons are skipped and counted (recursive_checks_skipped_ill_conditioned_call), explicit right-side residuals are still held.
#  * convergence clause: 7 Krylov methods (both sides where offered) must report < 1e-8 in < 100 iterations on vf::model_problem; Richardson is
#    held to "reduces the residual" there and to the recurrence / rate clause on n <= 300 (dense B extracted through precond().apply).
#  * rate clause: the observed per-step reduction must equal the dense model (I - w B A)^k over the same window (1 % in log scale) and, when the
#    model itself is within 5 % of its asymptote in that window, lie within 10 % of rho(I - w B A) in log scale.
PROPS['C01'] = dict(
    level='exploration', jobs=c01_jobs,
    rule='cells: every one of the 36 (coarsening, relaxation) cells x 12 (solver, side) pairs on G1 model problems (5/7/9-point diffusion, contrast <= 10, anisotropy >= 0.1, 500 <= n <= 2e4; '
         'quick 2 problems, thorough 6 problems x 3 cycle settings) with default tolerance and budget. truthful: seeded random calls over G1 (contrast <= 1e3, anisotropy >= 1e-3), G2 graph Laplacians, '
         'G3 convection-diffusion (also structurally non-symmetric), G5 Kronecker block systems, random cell, cycle / level parameters, solver parameters, right-hand side (random, consistent, scaled), '
         'initial guess (zero, random, large, near-solution), tolerance in {1e-4,1e-6,1e-8}, full and truncated (3..9) budgets: 24 monitored solves per case; every solver parameter that changes the arithmetic is drawn (BiCGStab(L): L, convex, delta in {0,1e-3,1e-2,1e-1}; IDR(s): s, smoothing, replacement, omega; GMRES family: M down to 1, LGMRES K, always_reset; Richardson damping; check_after; abstol; ns_search, also with a zero right-hand side); every third case uses a weak preconditioner (relaxation::as_preconditioner with spai0 / damped_jacobi / ilu0 / gauss_seidel / chebyshev, dummy, single-level amg), half of them on convection-diffusion, where Krylov residual histories are non-monotone and budgets are exhausted. richardson: every cell on a small model problem. '
         'types: complex (Hermitian gauge / shifted), 2x2 and 3x3 block-valued, float. A case is non-trivial when the hierarchy has >= 2 levels and at least one solver iterated (cells), '
         'or at least one monitored solve iterated and reported a finite value (other subs). distinct = distinct (sub-check, descriptor) hash.',
    exhaustive_note='the 4 x 9 x 12 (coarsening, relaxation, solver-side) grid is enumerated completely on every model problem of sub-check cells and on a small problem in sub-check richardson',
    min_nontrivial=dict(quick=120, thorough=2000),
    require_obs=dict(quick=['solves'], thorough=['solves']),
    assumptions=COMMON_ASSUME + ['model sub-family bound (contrast <= 10, anisotropy >= 0.1) is a statement about the generator, recorded in observation model_subfamily',
                                 'rounding floors use kappa_2 from a dense SVD (n <= 400) or the M-matrix bound sqrt(||A^-1||_1 ||A^-1||_inf) from a sparse LU solve, and a probe estimate of ||P||'],
    technique='reference-model oracle at the client boundary: long-double recomputation of ||f - A x|| / ||f|| (||P (f - A x)|| / ||f|| for left preconditioning, P applied through the solver\'s own precond().apply) '
              'after every make_solver::operator() call; exact iteration-bound comparison; dense extraction of the cycle for the Richardson recurrence and rate; repeated under ASan/UBSan',
    level_text='Every monitored call returns (iters, res); the harness recomputes the residual of the returned x from its own copy of the matrix in long double and compares with res under a rounding bound derived from '
               'the conditioning of the call, checks iters against maxiter (+L-1), and on model problems demands convergence of every documented combination. Held means no observed call mis-reported; unobserved inputs are not covered.',
    level_note='builtin backend only; n <= 2e4; trusts the harness residual evaluation and Eigen (SVD, SparseLU, eigenvalues); mixed-precision compositions belong to C13')
