from framework.registry import target, job, PROPS, COMMON_ASSUME

# ---------------------------------------------------------------------------
# C02 the AMG cycle is a fixed linear, symmetric positive, contracting operator
# ---------------------------------------------------------------------------
target('c02', ['harness/c02_cycle.cpp'])
# the same source on the block-valued backend builtin<static_matrix<double,BS,BS>> (monitors 1, 2, 3, 5)
target('c02b2', ['harness/c02_cycle.cpp'], flags=['-DVF_BS=2'])
target('c02b3', ['harness/c02_cycle.cpp'], flags=['-DVF_BS=3'])
def c02_jobs(tier):
    q = tier == 'quick'
    return [job('cycle-plain-t1', 'c02', 'plain', threads=1, shards=12 if q else 14, timeout=3600 if q else 7200),
            job('cycle-asan-t1', 'c02', 'asan', threads=1, shards=4, args=['--stride=7' if q else '--stride=11'], timeout=3600 if q else 7200),
            job('block2-plain-t1', 'c02b2', 'plain', threads=1, shards=4 if q else 8, timeout=3600 if q else 7200),
            job('block3-plain-t1', 'c02b3', 'plain', threads=1, shards=4 if q else 8, args=['--stride=2'] if q else [], timeout=3600 if q else 7200)]
PROPS['C02'] = dict(
    level='exploration', jobs=c02_jobs,
    rule='cycle: (matrix rep) x 4 coarsenings x 9 relaxations with random npre/npost 1-3, ncycle 1-2, pre_cycles 1-2, coarse_enough, max_levels, direct_coarse (component parameters randomised from the second matrix on); spd: (matrix rep) x 4 coarsenings x 7 symmetric smoothers x {V,W}, npre = npost; scaling: (matrix rep) x 4 coarsenings x 8 relaxations (ILUT excluded) x 5 exponents (even, odd, 2^-60..2^-120 = all coefficients below machine epsilon, 2^60..2^120); spd matrices are additionally rescaled by 2^k, k in {0, +-30, -60, 70, -100} (same problem in other units). The block jobs repeat cycle and scaling on builtin<static_matrix<double,b,b>>, b = 2, 3, with Kronecker matrices A (x) C (C SPD or identity; 3 coarsenings x 8 relaxations: Ruge-Stuben and SPAI-1 are not offered for block values), and run spd on block vector Laplacians with NON-commuting SPD edge blocks and an optional stiff one-direction reaction term (anisotropic diagonal blocks), SPD-ness validated by a Cholesky factorisation: {aggregation, smoothed_aggregation} x 7 symmetric smoothers x {V,W}, Chebyshev with scale=true forced on every other matrix. Domain of the block spd assertions: symmetry for all seven smoothers; positivity / contraction / the variational bound only for damped Jacobi, SPAI-0, Gauss-Seidel and Chebyshev (Gershgorin), whose A-norm contraction follows from A <= 2 blockdiag(A); block ILU(0)/ILU(k)/ILUP are symmetric but need not define a convergent splitting on non-M matrices (spectrum recorded only); smoothed_aggr_emin is left out for block values because it builds R independently of P and R = P^T needs commuting blocks (observed asymmetry 5e-4 on the unchanged tree). Matrices: G1 grid diffusion (2D 5/9-point, 3D, anisotropy to 1e-3, contrast to 1e3) and connected G2 graph Laplacians, 40 <= n <= 300, each validated in the harness to be a symmetric irreducibly diagonally dominant M-matrix. A case is non-trivial when the hierarchy has at least two levels; distinct = distinct (sub-check, descriptor) hash.',
    exhaustive_note='the 36 coarsening x relaxation cells (cycle), the 28 x {V,W} cells (spd) and the 32 cells (scaling) are enumerated completely; everything else is sampled',
    min_nontrivial=dict(quick=300, thorough=4500),
    require_obs=dict(quick=['cells_cycle', 'cells_spd', 'cells_scaling'], thorough=['cells_cycle', 'cells_spd', 'cells_scaling']),
    assumptions=COMMON_ASSUME + ['single thread (OMP_NUM_THREADS=1) so that two extractions of B can be compared bitwise; thread-count dependence is C09',
                                 'the smoother maps M_pre, M_post and the coarse solve used by the dense reference are extracted from the live smoother / solver objects (their own definitions are C06 / C16)'],
    technique='column-by-column extraction of the dense operator B of amg::apply; bitwise differential (history, power-of-two scaling), forward-bound linearity monitor, dense long-double reference of the documented recursion built from the level list read through the AMGCL_VERIF accessor, symmetric eigen-decomposition (Eigen) of B and of L^T B L; repeated under ASan/UBSan on a sample',
    level_text='For every coarsening x relaxation cell the real amg::apply is executed on unit vectors and B is compared (a) with itself after 200 further applications (bitwise), (b) with superposition, (c) with a long-double evaluation of the documented recursion assembled from the live level list, (d) for the symmetric smoothers with its transpose and the interval (0,2) for the spectrum of BA, (e) bitwise with the action for 2^k-scaled matrices. Held means no monitored execution violated an oracle.',
    level_note='n <= 300 only (dense extraction); builtin backend with double and static_matrix<double,2,2 / 3,3> values (item 4 only for scalar values: its domain is M-matrices); other backends are not exercised')
