from framework.registry import target, job, PROPS, COMMON_ASSUME

# ---------------------------------------------------------------------------
# C03 every coarse level is the (rescaled) Galerkin product; rebuild keeps it so
# ---------------------------------------------------------------------------
target('c03', ['harness/c03_galerkin.cpp'])
def c03_jobs(tier):
    q = tier == 'quick'
    main = 'hier,synthetic,rebuild,rebuild_refused'
    return [job('galerkin-plain-t1', 'c03', 'plain', threads=1, shards=8 if q else 14, args=['--sub', main + ',degenerate'], timeout=3600 if q else 7200),
            # 17 threads: product() switches to the row-merge SpGEMM; clang/libomp build (never g++ above 16 threads)
            job('galerkin-omp-t17', 'c03', 'plain-omp', threads=17, exclusive=True, env={'KMP_BLOCKTIME': '0'}, args=['--sub', main + ',degenerate', '--probe_all_below=0', '--stride=8' if q else '--stride=20'], timeout=3600 if q else 7200),
            job('galerkin-asan-t1', 'c03', 'asan', threads=1, shards=4, args=['--sub', main, '--stride=5' if q else '--stride=8'], timeout=3600 if q else 7200),
            # degenerate inputs separately under ASan: a crash there must not cut the main ASan workload short
            job('degenerate-asan-t1', 'c03', 'asan', threads=1, shards=2, args=['--sub', 'degenerate'], timeout=3600),
            # six cases, one process each (a crash in one must not hide the others)
            job('nullspace-degenerate-asan-t1', 'c03', 'asan', threads=1, shards=6, args=['--sub', 'nullspace_degenerate'], timeout=1800)]
PROPS['C03'] = dict(
    level='exploration', jobs=c03_jobs,
    rule='hier: seeded matrices from G1 (model and hard), G2, G3 (value- and structurally non-symmetric), G5 Kronecker blocks with aggr.block_size, random diagonally dominant, integer-valued grids / dd matrices / G7 patterns, cycling over the 4 coarsenings with randomised coarsening parameters (eps_strong, over_interp, relax, estimate_spectral_radius, power_iters, truncation, near-null-space vectors), coarse_enough, max_levels, direct_coarse, 15% of the inputs with shuffled rows; synthetic: integer A and integer transfer operators through the replaying policy for each of the 4 coarse_operator implementations; rebuild: 1-6 rebuilds per history drawn from {power-of-two scaled, scaled, perturbed, sign-changed off-diagonals, entries dropped, entries added, row-shuffled} followed by the original matrix, with every eighth history forced to a single direct-solver level (n <= coarse_enough), a single smoother level (max_levels = 1) or two levels with a direct coarse level; degenerate: 8 G6 sub-families x 4 coarsenings. A case is non-trivial when at least one coarsening step happened (degenerate and the forced single-level rebuild shapes: always); distinct = distinct (sub-check, descriptor) hash.',
    exhaustive_note='none (all four coarsenings x both SpGEMM algorithms are enumerated; inputs are sampled)',
    min_nontrivial=dict(quick=400, thorough=6000),
    require_obs=dict(quick=['rebuilds_checked', 'exact_hierarchies', 'synthetic_coarse_operators', 'rebuild_shapes'], thorough=['rebuilds_checked', 'exact_hierarchies', 'synthetic_coarse_operators', 'rebuild_shapes']),
    assumptions=COMMON_ASSUME + ['bitwise rebuild-vs-fresh comparisons are made inside one process at one thread count',
                                 'transfer operators containing NaN/Inf (finding F12, energy-minimising coarsening) are counted as an observation and excluded from the value comparison: the choice of P and R is not this property'],
    technique='recording and replaying coarsening policies passed as the Coarsening template argument of amgcl::amg (every transfer_operators / coarse_operator call deep-copied), triple-product reference in long double with a term-count rounding bound (bitwise on integer-valued data), invariant monitor over the private level list through the AMGCL_VERIF accessor, bitwise differential between rebuilt and freshly assembled hierarchies; g++ 1 thread (marker SpGEMM), clang/libomp 17 threads (row-merge SpGEMM), ASan/UBSan',
    level_text='Every coarse operator the library computed while building or rebuilding a hierarchy was compared with R A P (divided by the over-interpolation factor) computed from the definition; R was compared with the transposed copy of P; level sizes, the coarse-solver choice and the retained transfer operators were read from the live level list; after every rebuild the hierarchy and its action were compared bitwise with a fresh hierarchy built from the new matrix through the replaying policy, and the original action was required to come back bitwise. Held means no monitored execution violated an oracle.',
    level_note='builtin backend, scalar double values only (complex / block value types and other backends not exercised); rebuild histories use matrices on which every smoother is well defined')
