from framework.registry import target, job, PROPS, COMMON_ASSUME

# ---------------------------------------------------------------------------
# C04 interpolation is exact on the near-null space; aggregates partition the grid
#
# Oracle notes (why each oracle asks exactly what the property states):
#  * strong-coupling predicate: evaluated as a_ij^2 > eps^2 a_ii a_jj (Vanek et al. 1996 and the header's
#    arithmetic).  docs/components/coarsening.rst prints "a_ij^2/(a_ii a_jj) > eps_strong" (no square on eps);
#    the property text does not fix the threshold, so that documentation inconsistency is reported to the lead
#    and not asserted.  Entries within 4 u_float of the threshold are "don't care".
#  * smoothed aggregation: the filtered diagonal is a_ii^F = a_ii + sum_{weak} a_ij (row-sum preserving lumping).
#    The printed formula carries a minus sign in front of the sum (inherited from the 1996 paper); with that sign
#    the property's own row-sum clause could not hold, so the lumping form is the reference.  Rows whose filtered
#    diagonal is exactly zero are outside the formula (D^-1 undefined) and skipped.
#  * lifting oracle: applied to matrices with positive diagonal only -- pointwise_matrix keeps one *norm* per
#    block, so the sign of a_ii a_jj (which plain_aggregates sees) is by documented design not available to the
#    block path.  Energy-minimising SA is compared bitwise only single-threaded (its dampings are accumulated
#    under `omp critical`, the order is schedule dependent).
#  * Ruge-Stuben row sums: matrices in which a non-isolated row has no negative off-diagonal are not fed to
#    ruge_stuben: connect() leaves S.val unwritten for such rows (finding F3, property C10) and cfsplit then
#    indexes out of bounds depending on heap contents; the C04 clause speaks about rows with a strong (negative)
#    neighbour only.
# ---------------------------------------------------------------------------
target('c04', ['harness/c04_interp.cpp'])

RANDOM = 'lift,block_aggr,ptent_sa,rowsum'

SMALL = 'exh_sym6,exh_dir4,' + RANDOM

def c04_jobs(tier):
    q = tier == 'quick'
    # exh_sym7 (thorough only: all 2^21 graphs on 7 vertices) runs in the plain single-thread job only; it is ~1.3e7 aggregations,
    # too slow under ASan, and the 6-vertex space already runs there.
    js = [job('interp-plain-t1', 'c04', 'plain', threads=1, shards=8 if q else 14, timeout=3600 if q else 7200),
          job('interp-asan-t1', 'c04', 'asan', threads=1, shards=8, args=['--sub', SMALL], timeout=5400),
          job('interp-plain-t4', 'c04', 'plain', threads=4, args=['--sub', RANDOM], timeout=3600)]
    if not q:
        js += [job('interp-plain-t8', 'c04', 'plain', threads=8, args=['--sub', RANDOM], timeout=3600),
               job('interp-asan-t4', 'c04', 'asan', threads=4, shards=2, args=['--sub', RANDOM], timeout=5400)]
    return js

PROPS['C04'] = dict(
    level='exploration', jobs=c04_jobs,
    rule='exhaustive: every symmetric graph on 6 vertices (2^15; thorough: also 7 vertices, 2^21) and every directed pattern on 4 vertices (2^12), each with three value classes '
         '(M-matrix with zero row sums, mixed-sign, positive off-diagonals only) and eps_strong in {0, .08, .25, .5}, 512 patterns per recorded case; '
         'random: G1 grids, G2 graphs, G3 convection-diffusion (structurally non-symmetric), G5 Kronecker / punched block matrices b=2..4, '
         'null spaces none / constants / rigid-body modes / random (1..6 vectors), relax / spectral-radius / truncation settings drawn per case. '
         'A pattern is non-trivial when it has at least one edge; a random case always is (n >= 8). distinct = distinct (sub-check, descriptor) hash.',
    exhaustive_note='exh_sym6 (all 2^15 symmetric 6-vertex graphs x 3 value classes x 4 eps_strong), exh_dir4 (all 2^12 directed 4-vertex patterns x 3 x 4); thorough tier also exh_sym7 (all 2^21 symmetric 7-vertex graphs x 3 value classes x eps_strong {.08, .25})',
    min_nontrivial=dict(quick=400000, thorough=12000000),
    assumptions=COMMON_ASSUME + ['diagonal entries are stored and positive (lifting oracle); near-null-space blocks have full column rank except where stated'],
    technique='invariant monitor over the public aggregate classes (partition, contiguity, documented strong-coupling predicate), lifting differential '
              'coarsen(A (x) I_b, b) == lift(coarsen(A)) bitwise for aggregates, aggregation, smoothed aggregation and energy-min SA, long-double reference '
              'of the tentative prolongation properties (disjoint supports, Gram matrix, P_tent B_c = B) and of the documented smoothing formula, row-sum '
              'oracle for SA and Ruge-Stuben; plain and ASan+UBSan builds',
    level_text='The real aggregation, tentative-prolongation, smoothed-aggregation and Ruge-Stuben code is executed on an exhaustively enumerated space of '
               'small sparsity patterns and on seeded random matrices; every result is checked against the partition invariants and formulas of the property, '
               'with tolerances derived from rounding bounds.  Held means no observed execution violated them; it is not a proof for unobserved inputs.',
    level_note='n beyond a few thousand, non-builtin backends and block-valued (static_matrix) coarsening are not explored; energy-min SA is covered by the lifting oracle only')
