from framework.registry import target, job, PROPS, COMMON_ASSUME

# ---------------------------------------------------------------------------
# C05 each Krylov method produces its defining iterates
# One source, two targets: real (double) and complex<double> (-DC05_COMPLEX).  Light TUs (solver headers only).
# ---------------------------------------------------------------------------
target('c05r', ['harness/c05_krylov.cpp'])
target('c05c', ['harness/c05_krylov.cpp'], flags=['-DC05_COMPLEX'])

def c05_jobs(tier):
    q = tier == 'quick'
    # "With maxiter = k every method returns the k-th iterate": a solve that never returns violates that clause, so a hang that
    # reproduces on the retry is attributed to the open case and reported (key hang:<sub>).  Every call in this harness is bounded
    # by maxiter <= a few hundred on n <= 24 unknowns; the quick jobs take < 60 s each on a loaded machine, so the watchdogs are
    # >= 15x the measured time (a watchdog that fires without an open case is still only inconclusive).
    TP, TA = (900, 1500) if q else (3600, 7200)
    return [job('krylov-real-plain',    'c05r', 'plain', threads=1, shards=1 if q else 8, timeout=TP, hang_is_violation=True),
            job('krylov-complex-plain', 'c05c', 'plain', threads=1, shards=1 if q else 8, timeout=TP, hang_is_violation=True),
            job('krylov-real-asan',     'c05r', 'asan',  threads=1, shards=4 if q else 8, timeout=TA, hang_is_violation=True),
            job('krylov-complex-asan',  'c05c', 'asan',  threads=1, shards=4 if q else 8, timeout=TA, hang_is_violation=True)]

# Notes on oracle strength (rule 4 of the harness guide):
#  * optimality uses the mixed bound of DESIGN.md (attained <= optimum (1 + 1e-6) + 1e-7 initial); "agree with a reference implementation"
#    for CG / GMRES / FGMRES is evaluated against the unique dense minimiser (1e-8 of the initial error / residual), for BiCGStab against
#    van der Vorst's recurrences (1e-8 relative, skipped when the recurrences' own sensitivity estimate exceeds 1e6).
#  * BiCGStab(L >= 2) and IDR(s) have no reference in the property text beyond finite termination; the harness additionally observes their
#    *defining steps* (minimal-residual polynomial of degree L after L BiCG steps; the dimension-reduction step of IDR(s) and the monotonicity
#    that defines residual smoothing).  These are the algorithms "named" by the property's first sentence, no stronger.
#  * scale invariance (sub-check scale): iterates for (2^j A, 2^j f, 2^-j P), j in {-40,-30,-20,20,30}, must equal those for (A, f, P) BITWISE for every method
#    (power-of-two scaling is exact and every quotient the methods form is a ratio of equally scaled quantities; argued next to sub_scale in the harness;
#    verified on the unchanged tree, real and complex).  Left preconditioning reports ||P r|| / ||f||, so its reported value and tolerance carry 2^-j exactly.
#    Catches absolute thresholds inside a method (seeded change C05-3: absolute breakdown guard on <Ap,p> in CG).
#  * exactly invariant subspaces (sub-check invariant): small (Gaussian-)integer block-diagonal systems whose initial residual is c e_k in an m x m Hessenberg block, m in {1,2,3}:
#    H(m+1,m) is an exact floating-point zero; every method must deliver the solution within m (+L-1, +ceil(m/s)) iterations, identity or exact block preconditioner, real and complex.
#    Blocks have positive diagonal, non-zero sub/super-diagonal and positive definite Hermitian part so that the BiCG family does not break down *mathematically*; a documented BiCG
#    breakdown exception is accepted only if the long-double BiCG reference itself hits an exact zero quotient (e.g. block [[4,-1,1],[-1,3,1],[0,1,3]], r0 = e1: after two BiCG steps the
#    residual is the eigenvector (0,1,1), orthogonal to the shadow vector under every power of A; BiCGStab(L=4) throws 'zero rho', L <= 2 is rescued by the polynomial step).
#    GMRES with a restart shorter than m is not held (no finite termination).  Catches seeded change C05-7 (LGMRES leaves the inner loop before using the last Arnoldi column).
#  * finite termination is a statement about the generator (recorded as observation termination_generator): either m <= n/2 distinct
#    eigenvalues, or a full spectrum with kappa <= 3 and |arg| <= 0.7; calibrated on the repaired tree over 8 seeds x 800 systems
#    (every method below 1e-8 inside its budget).
PROPS['C05'] = dict(
    level='exploration', jobs=c05_jobs,
    rule='G9: dense n x n systems, 8 <= n <= 24, prescribed spectrum (kappa <= 10), Hermitian positive definite or diagonalisable non-normal (eigenvector condition <= 2), '
         'real and complex, x0 = 0 and x0 != 0, with a harness-defined dense preconditioner (identity / exact inverse / Hermitian pd approximation / general approximation). '
         'One non-trivial unit = one (method, k) pair whose iterate was compared with its long-double reference (optimality, recurrence, monotonicity step or termination run); '
         'pairs skipped because the reference recurrences are themselves ill-conditioned are counted separately and are not non-trivial. distinct = distinct (sub-check, system descriptor).',
    exhaustive_note='restart lengths M in {1,2,4,30}, L in {1,2,4}, s in 1..8, both preconditioning sides are enumerated completely for every sampled system; systems are sampled',
    min_nontrivial=dict(quick=20000, thorough=500000),
    assumptions=COMMON_ASSUME + ['finite-termination clause: "well-conditioned" means the generator bounds recorded in observation termination_generator'],
    technique='amgcl solvers driven with a harness-defined dense preconditioner so that the Krylov space is known exactly; long-double references written from the definitions '
              '(least squares over an orthonormal Krylov basis, van der Vorst / Sleijpen-Fokkema recurrences, stationary recurrence); same workload under ASan/UBSan',
    level_text='For every sampled system each solver is run with maxiter = k, tol = 0 for every k up to the subspace size and its k-th iterate is compared with the defining iterate '
               'computed independently in long double: A-norm / residual-norm minimiser over the exactly known Krylov space (CG, GMRES both sides, FGMRES, first LGMRES cycle), '
               'reference recurrences (BiCGStab both sides, BiCGStab(L), Richardson), the defining steps of IDR(s), monotonicity of the GMRES family across restarts, finite termination, and bitwise invariance of the iterates of every method under power-of-two rescaling of the system (tol = 0 budgets and a tight-tolerance run). '
               'Held means no observed execution deviated; it is not a proof for unobserved systems.',
    level_note='trusts Eigen long-double algebra as the definition; n <= 24, kappa <= 10; IDR(s) shadow space is private, so only its dimension-reduction and smoothing steps and termination are observed; '
               'BiCGStab(L) with convex = false (L > 1) has no reference and is covered by termination only')
