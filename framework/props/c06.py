from framework.registry import target, job, PROPS, COMMON_ASSUME

# ---------------------------------------------------------------------------
# C06 every relaxation sweep equals its mathematical definition
#
# Oracle notes:
#  * all definitions are evaluated on the matrix expanded to a dense complex<long double> matrix (blocks expanded), so the
#    same oracle serves real, complex and static_matrix<double,2,2> values (include/vf/c06_relax.hpp).
#  * sweep oracle: x' == x + N (f - A x) with the dense N of the documented splitting, norm-wise forward bound
#    K u (|x| + E (|f| + |A||x|)), K = 8 (maxrow*bs + 8) * stages, E = error amplification of applying N
#    (| |T^-1||T||T^-1| | for triangular solves).  Observed errors stay below 4 % of the bound, a wrong coefficient gives > 1e10 x.
#  * fixed point on integer data: bitwise for Jacobi / SPAI / Chebyshev / ILU (the residual is exactly zero);
#    Gauss-Seidel 4u (8u complex, 64u 2x2 blocks) of |x*|_inf because one division by the diagonal is rounded.
#  * SPAI-0: m_i = a_ii / sum_j |a_ij|^2.  It is the least-squares minimiser for real values and Hermitian diagonals; for a
#    complex diagonal the minimiser would carry conj(a_ii) -- per DESIGN only the formula is asserted there.
#  * SPAI-1 does not exist for block values (relaxation_is_supported is false), so it is checked for real / complex only.
#  * ILU: factors are read through the AMGCL_VERIF accessor (solve.serial = true keeps L, U, D).  (LU)_ij = a_ij is asserted on
#    the *documented* pattern (pattern of A / level-of-fill recursion / pattern of A^(k+1)); entries the code dropped because
#    they are exactly zero count as zeros.  ILUT has no documented pattern: only apply == (LU)^-1, the fixed point, and
#    exactness on no-fill matrices when nothing may be dropped (tau = 0, or a posteriori "every entry of A was kept").
#  * Chebyshev with power iterations (both scalings, power_iters in {1,2,5,10} for every system): the ellipse read back through the
#    accessor must be [est*lower, est*higher] with est = backend::spectral_radius<scale>(A, power_iters) called by the harness (the
#    estimator the parameter names; compared in 1-thread processes only, the start vector is thread seeded) and its upper end must not
#    exceed higher * sigma_max(A resp. D^-1 A) (dense SVD; holds for every power-method estimate).  The polynomial identity is asserted
#    for the read-back bounds; with Gershgorin the bounds are recomputed independently.
# ---------------------------------------------------------------------------
target('c06', ['harness/c06_real.cpp', 'harness/c06_complex.cpp', 'harness/c06_block.cpp'])
target('c06rat', ['harness/c06_rational.cpp'])

RELAX = 'relax_real,relax_complex,relax_block,as_precond'

def c06_jobs(tier):
    q = tier == 'quick'
    # The multi-threaded jobs run the seeded systems only: the exhaustive tiny-pattern sub-checks are thread independent
    # apart from the level-scheduled solve (which the seeded systems cover) and consist of ~10^5 tiny OpenMP regions,
    # which take minutes when the machine is oversubscribed.  In the thorough tier each thread count takes its own
    # sixth of the case indices (--shard k/6), so the slices differ between thread counts.
    js = [job('relax-plain-t1', 'c06', 'plain', threads=1, shards=4 if q else 12, timeout=3600),
          job('relax-plain-t8', 'c06', 'plain', threads=8, args=['--sub', RELAX] + ([] if q else ['--shard', '2/6']), timeout=3600),
          job('relax-asan-t1', 'c06', 'asan', threads=1, shards=6 if q else 12, timeout=5400),
          job('rational-plain', 'c06rat', 'plain', threads=1, timeout=1800),
          job('rational-asan', 'c06rat', 'asan', threads=1, shards=2, timeout=3600)]
    if not q:
        js += [job('relax-plain-t4', 'c06', 'plain', threads=4, args=['--sub', RELAX, '--shard', '1/6'], timeout=3600),
               job('relax-plain-t16', 'c06', 'plain', threads=16, args=['--sub', RELAX, '--shard', '0/6'], exclusive=True, timeout=5400),
               job('relax-asan-t4', 'c06', 'asan', threads=4, args=['--sub', RELAX, '--shard', '3/6'], timeout=5400)]
    return js

PROPS['C06'] = dict(
    level='exploration', jobs=c06_jobs,
    rule='per value type (real, complex, 2x2 block) seeded systems from G1 grids, G2 graphs, G3 convection-diffusion (incl. structurally '
         'non-symmetric), random diagonally dominant matrices with mixed signs, G7 random small patterns, tridiagonal and arrow matrices '
         '(n <= 36, 60 in thorough); every third system is integer valued (fixed-point oracle), the others real valued (definition oracles); '
         'all nine smoothers with default and drawn parameters (damping, degree, lower/higher, scale, power iterations, k = 0..3 and k = n, p, tau). '
         'exhaustive: every directed pattern on 4 vertices and a strided sample of those on 5 vertices for ILU(0)/ILU(1)/ILU(2)/ILUP(1)/ILU(n); '
         'all 2^12 patterns on 4 vertices x 2 value classes in exact rational arithmetic for ILU(0). '
         'A case is non-trivial when the matrix has an off-diagonal entry; distinct = distinct (sub-check, descriptor) hash.',
    exhaustive_note='ilu_small (all 2^12 directed 4-vertex patterns; every 509th / 31st 5-vertex pattern), ilu0_rational (all 2^12 4-vertex patterns x 2 value classes, exact)',
    min_nontrivial=dict(quick=5000, thorough=30000),
    require_obs=dict(quick=['gs_parallel_objects', 'ilu_level_scheduled_objects', 'cheb_power_scaled_compared', 'cheb_power_unscaled_compared'],
                     thorough=['gs_parallel_objects', 'ilu_level_scheduled_objects', 'cheb_power_scaled_compared', 'cheb_power_unscaled_compared']),
    assumptions=COMMON_ASSUME + ['matrices have sorted rows and a non-zero, dominant diagonal (no pivot breakdown)'],
    technique='dense long-double reference of each documented splitting applied to single sweeps of the real smoothers; bitwise fixed-point oracle on '
              'integer data; ILU factors read through the guarded accessor and compared with A on the documented pattern; exact rational '
              'instantiation of ILU(0); serial vs level-scheduled triangular solves at 1..16 threads; ASan+UBSan build of the same workload',
    level_text='Each smoother of the real library is executed on seeded and exhaustively enumerated small systems with real, complex and block values; '
               'its sweep is compared with x + M^-1 (f - A x) for the documented M, the incomplete factors with A on the documented pattern, and the '
               'level-scheduled triangular solve with the serial one.  Held means no observed execution violated the definitions; not a proof.',
    level_note='n <= 60 (dense references); SPAI-0 least-squares optimality is asserted for real / Hermitian diagonals only; ILUT has no pattern oracle; '
               'thread counts above 16 and non-builtin backends are not explored')
