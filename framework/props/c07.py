from framework.registry import target, job, PROPS, COMMON_ASSUME

# ---------------------------------------------------------------------------
# C07 backend vector and matrix-vector primitives equal their algebraic definitions
# ---------------------------------------------------------------------------
# Oracle notes (HARNESS_GUIDE rule 4):
#  * exact cases (integer / dyadic operands and coefficients): every intermediate of every
#    admissible evaluation order is exactly representable even in float, so equality with the
#    long-double value of the defining formula is demanded;
#  * real cases: |got - ref| <= cf (kmul k + 4) eps (|alpha| sum|a||x| + |beta||y|), cf = 2 (8 for
#    complex arithmetic), kmul = 2 for block_crs / Eigen which accumulate per block / in a second pass;
#  * inner_product is compared with the plain recursive-sum bound (n + 4) eps sum|x||y|: the property
#    asks for the value of the formula, not for the accuracy of the Kahan compensation;
#  * only *output* coefficients equal to zero are combined with non-finite pre-fills (the property says
#    nothing about NaN in an input whose coefficient is zero).
target('c07', ['harness/c07_primitives.cpp'])

RANDOM = 'spmv,vecops,mixed,mixprec,bcrs,eigen,hybrid'
def c07_jobs(tier):
    q = tier == 'quick'
    js = [job('prim-plain-t1', 'c07', 'plain', threads=1, shards=6 if q else 12, timeout=3600),
          job('prim-plain-t8', 'c07', 'plain', threads=8, args=['--sub', RANDOM], timeout=3600),
          job('prim-asan-t1', 'c07', 'asan', threads=1, shards=6 if q else 12, timeout=5400),
          job('prim-tsan-t4', 'c07', 'tsan', threads=4, shards=2 if q else 4, args=['--sub', RANDOM], timeout=5400),
          # teams smaller than omp_get_max_threads(): OMP_THREAD_LIMIT below OMP_NUM_THREADS, and calls from inside an enclosing
          # parallel region (nesting off) -- added after a seeded change (hand-made chunking by omp_get_max_threads()) was missed
          job('prim-plain-t8-limit3', 'c07', 'plain', threads=8, args=['--sub', 'vecops,spmv,mixed'], env={'OMP_THREAD_LIMIT': '3'}, timeout=3600),
          job('prim-plain-t8-nested', 'c07', 'plain', threads=8, args=['--sub', 'vecops,spmv,mixed', '--nested=1'], timeout=3600)]
    if not q:
        js += [job('prim-plain-t3', 'c07', 'plain', threads=3, args=['--sub', RANDOM], shards=2, timeout=3600),
               job('prim-asan-t4', 'c07', 'asan', threads=4, shards=4, args=['--sub', RANDOM], timeout=5400)]
    return js

PROPS['C07'] = dict(
    level='exploration', jobs=c07_jobs,
    rule='spmv_exhaustive: every sparsity pattern of the shapes 1..3 x 1..3, 1..2 x 4..5 and transposes (scalar values) and of 1..2 x 1..3 block shapes (b = 2, 3) with integer values, times every (alpha, beta) in {0,1,-1,2,0.5}^2, through builtin crs, block_crs (block sizes 1..5) and the Eigen backend. Random sub-checks (spmv, vecops, mixed, bcrs, eigen, hybrid): seeded shapes 0..500 rows (rectangular, empty rows, unsorted rows, sizes not divisible by the block size), value types float / double / long double / complex<double> / complex<float> / static_matrix<double,b,b> b=2,3,4 / static_matrix<float,2,2> / static_matrix<complex<double>,2,2> / Eigen::Matrix<double,b,b> b=2,3; coefficients from {0,1,-1,2,0.5,random}; 60% of the cases integer-valued (exact oracle), the rest real-valued (forward bound). A case is non-trivial when the operands store at least one entry (vectors: length >= 1); distinct = distinct (sub-check, descriptor) hash.',
    exhaustive_note='spmv_exhaustive (all patterns of the listed small shapes x 25 coefficient pairs x 7 backend variants; zero-coefficient runs repeated with NaN/+Inf/-Inf/huge pre-fills)',
    min_nontrivial=dict(quick=700, thorough=6000),
    require_obs=dict(quick=['tsan_processes', 'zero_coefficient_fill_runs', 'bcrs_sizes_not_divisible'], thorough=['tsan_processes', 'zero_coefficient_fill_runs', 'bcrs_sizes_not_divisible']),
    assumptions=COMMON_ASSUME,
    technique='reference-model oracle on flattened operands in complex long double (exact equality on integer data, derived forward bound on real data) + differential oracles (hostile pre-fill of outputs with zero coefficient; scalar vs block vectors), repeated under ASan/UBSan (1 thread) and TSan/Archer (4 threads) and at 1 and 8 OpenMP threads',
    level_text='Every primitive named by the property is called directly on an exhaustively enumerated space of small patterns and coefficient pairs and on seeded random operands for all listed value types and the builtin, block_crs, Eigen and builtin_hybrid backends; each result is compared with the defining formula (exactly for integer data), zero output coefficients are exercised with NaN/Inf/huge pre-filled outputs, scalar vectors are passed where block vectors are expected, and the workload is repeated under ASan+UBSan and ThreadSanitizer. Held means: no observed execution deviated; it is not a proof for unobserved inputs.',
    level_note='trusts the long-double reference arithmetic of the harness, the compilers and sanitizer runtimes; GPU / VexCL / ViennaCL / Blaze / HPX backends are not installed and not covered; thread counts other than 1, 3, 4, 8 are not explored here (C09 does)')
