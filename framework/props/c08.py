from framework.registry import target, job, PROPS, COMMON_ASSUME

# ---------------------------------------------------------------------------
# C08 sparse kernels
# ---------------------------------------------------------------------------
target('c08', ['harness/c08_kernels.cpp'])
def c08_jobs(tier):
    q = tier == 'quick'
    js = [job('kernels-plain-t1', 'c08', 'plain', threads=1, shards=6),
          job('kernels-asan-t1', 'c08', 'asan', threads=1, shards=8, args=['--sub', 'product_random,product_block,misc,transpose_adjoint,pointwise_exhaustive,pointwise_random,spectral_radius,spectral_radius_block'] if q else []),
          job('kernels-plain-t4', 'c08', 'plain', threads=4, args=['--sub', 'product_random,product_block,misc,transpose_adjoint,pointwise_random,spectral_radius,spectral_radius_block']),
          job('kernels-plain-t8', 'c08', 'plain', threads=8, args=['--sub', 'product_random,product_block,misc,pointwise_random,spectral_radius,spectral_radius_block']),
          job('kernels-omp-t17', 'c08', 'plain-omp', threads=17, args=['--sub', 'product_random,product_block,misc,pointwise_random,spectral_radius,spectral_radius_block'], exclusive=True),
          job('kernels-tsan-t4', 'c08', 'tsan', threads=4, args=['--sub', 'product_random,product_block,misc,transpose_adjoint,pointwise_random,spectral_radius,spectral_radius_block']),
          job('kernels-tsan-t17', 'c08', 'tsan', threads=17, args=['--sub', 'product_random,product_block,misc'], exclusive=True),
          # teams smaller than omp_get_max_threads(): thread limit below the configured count, and calls from inside an enclosing
          # parallel region (added after a seeded change that laid out a parallel prefix sum by omp_get_max_threads() was missed)
          job('kernels-plain-t8-limit3', 'c08', 'plain', threads=8, env={'OMP_THREAD_LIMIT': '3'}, args=['--sub', 'product_random,product_block,misc,transpose_adjoint,pointwise_random']),
          job('kernels-plain-t8-nested', 'c08', 'plain', threads=8, args=['--sub', 'product_random,product_block,misc,transpose_adjoint,pointwise_random', '--nested=1'])]
    if not q:
        js += [job('kernels-plain-t2', 'c08', 'plain', threads=2, args=['--sub', 'product_random,product_block,misc,transpose_adjoint,pointwise_random,spectral_radius,spectral_radius_block']),
               job('kernels-omp-t24', 'c08', 'plain-omp', threads=24, args=['--sub', 'product_random,product_block,misc,pointwise_random,spectral_radius,spectral_radius_block'], exclusive=True),
               job('kernels-asan-t4', 'c08', 'asan', threads=4, shards=2, args=['--sub', 'product_random,product_block,misc,transpose_adjoint,pointwise_random,spectral_radius,spectral_radius_block'])]
    return js
PROPS['C08'] = dict(
    level='exploration', jobs=c08_jobs,
    rule='exhaustive: all pattern pairs (n x k)(k x m) with n,k,m in 1..3 through both SpGEMM algorithms and product(); all block-row patterns for pointwise_matrix (2x4, 2x6 complete; 3x6 strided in quick, complete in thorough); random: seeded sparse rectangular matrices up to 300 rows (integer-valued => bitwise oracle, real-valued => forward bound). A case is non-trivial when the operands store at least one entry; distinct = distinct (sub-check, descriptor) hash.',
    exhaustive_note='product_exhaustive (3x3 pattern pairs), pointwise_exhaustive',
    min_nontrivial=dict(quick=500, thorough=3000),
    require_obs=dict(quick=['tsan_processes'], thorough=['tsan_processes']),
    assumptions=COMMON_ASSUME,
    technique='dense reference-model oracle (bitwise on integer data) + CRS well-formedness monitor over exhaustive small patterns and seeded random inputs, repeated under ASan/UBSan and TSan(Archer) at 1..24 threads',
    level_text='Every kernel named by the property is executed on an exhaustively enumerated space of small patterns and on seeded random matrices at thread counts on both sides of the 16-thread SpGEMM switch; each result is compared with a dense definition (exactly for integer data) and checked for CRS well-formedness, and the same workload runs under ASan+UBSan and ThreadSanitizer. Held means: no execution observed violated the definition; it is not a proof for unobserved inputs.',
    level_note='trusts the harness-side dense reference and the compilers/sanitizer runtimes; thread counts above 24 and non-builtin backends are not explored')
