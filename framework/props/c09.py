from framework.registry import target, job, PROPS, COMMON_ASSUME

# ---------------------------------------------------------------------------
# C09 results do not depend on the number of threads or their interleaving
# ---------------------------------------------------------------------------
# Two harnesses:
#   c09s  harness/c09_sched.cpp  monitors 2 (schedule invariant), 3 (epoch trace), sweep part of 4 (TSan workload with
#                                delay injection) and 5 (20x repetition), parallel sweep == serial sweep
#   c09d  harness/c09_diff.cpp   monitor 1 (thread-count differential, in-process thread switching), 5 (repetition of the
#                                bitwise-class computations), whole-stack TSan workload
# The driver starts one process per job, so the thread-count differential switches counts in-process with
# omp_set_num_threads(): 1,2,3,4,5,8,16 in the g++ 'plain' binary, 1,2,4,8,16,17,24,32 in the clang 'plain-omp' binary
# (never above 16 with libgomp, never a digest compared across compilers).
#
# Oracle strength relative to the property text:
#  * ILU applications are demanded bitwise inside one form of the triangular solve (t < 4 serial, t >= 4
#    level-scheduled) because no reduction, random vector, critical section or form switch is involved there; across the
#    switch only a rounding bound is demanded, as the property says.
#  * Outputs that depend on product() are demanded bitwise inside {<= 16 threads} and inside {> 16 threads}.  Across the
#    16-thread SpGEMM switch the property text still says "bitwise": a difference there is reported under the distinct keys
#    '(product|hierarchy|cycle):saad-vs-rmerge-rounding' of sub 'diff' (design finding F5) and is additionally bounded by a
#    rounding bound (a difference beyond it has the separate key suffix ':beyond-rounding-across-spgemm-switch').
#    The first coarse operator (level 2) must still have the identical sparsity pattern on both sides of the switch and values
#    within (kR+kA+kP+3) u (|R||A||P|)_ij, so a row-merge product fed with unsorted rows is not hidden behind F5; deeper levels
#    may take different discrete coarsening decisions after a last-bit change and are reported as F5 only.
#  * Energy-minimising transfer operators are compared on level 1 only (deeper levels may take different discrete
#    aggregation decisions after a last-bit change of A_c, which "equal up to rounding" cannot exclude).
#  * Full solves: "all thread counts report convergence to tol => solutions agree to 10 kappa_2(A) tol" (kappa from a dense
#    SVD of the small system); iteration counts are recorded, not compared.
target('c09s', ['harness/c09_sched.cpp'])
target('c09d', ['harness/c09_diff.cpp'])

def c09_jobs(tier):
    q = tier == 'quick'
    T = 2400 if q else 5400   # generous: a timeout is only ever "inconclusive", and oversubscribed OpenMP jobs slow down badly on a loaded machine
    js = [
        # monitor 2 exhaustively (all patterns <= 4x4, 5x5 strided in quick / complete in thorough) + parallel == serial + ILU backward error
        job('sched-exhaustive', 'c09s', 'plain', threads=4, shards=4 if q else 16, timeout=T if q else 7200,
            args=['--sub', 'sched_exhaustive', '--threads=4,5,8']),
        # monitor 2 on random inputs, monitor 3, monitor 5 on the sweeps
        job('sched-random-t4-16', 'c09s', 'plain', threads=16, shards=1 if q else 2, timeout=T,
            args=['--sub', 'sched_random,sweep_random,epoch_trace', '--threads=4,5,8,16']),
        job('sched-random-omp-t17-32', 'c09s', 'plain-omp', threads=32, exclusive=True, timeout=T,
            args=['--sub', 'sched_random,sweep_random,epoch_trace', '--threads=6,17,24,32', '--reps=5']),
        # monitor 4: ThreadSanitizer (clang + libomp + Archer) with delay injection in the row hook; structure classes in separate
        # jobs so that a race on symmetric structure can never hide behind one on non-symmetric structure
        job('sched-tsan-sym', 'c09s', 'tsan', threads=8, timeout=T, args=['--sub', 'sweep_random', '--threads=4,8', '--struct=sym', '--reps=3']),
        job('sched-tsan-nonsym', 'c09s', 'tsan', threads=8, timeout=T, args=['--sub', 'sweep_random', '--threads=4,8', '--struct=nonsym', '--reps=3']),
        # monitor 1
        job('diff-plain-t1-16', 'c09d', 'plain', threads=8, shards=2 if q else 8, timeout=T, args=['--sub', 'diff', '--threads=1,2,3,4,5,8,16']),
        job('diff-omp-t1-32', 'c09d', 'plain-omp', threads=32, exclusive=True, shards=1 if q else 2, timeout=T,
            args=['--sub', 'diff', '--threads=1,2,4,8,16,17,24,32', '--inputs=%d' % (6 if q else 24), '--nhi=%d' % (1500 if q else 3000)]),
        # monitor 5 on the bitwise-class computations
        job('repeat-plain', 'c09d', 'plain', threads=8, timeout=T, args=['--sub', 'repeat', '--rthreads=4,8']),
        job('repeat-omp-t17', 'c09d', 'plain-omp', threads=17, exclusive=True, timeout=T, args=['--sub', 'repeat', '--rthreads=17', '--inputs=%d' % (2 if q else 10), '--reps=%d' % (10 if q else 20)]),
        # monitor 4 on the whole stack (setup, kernels, sweeps, solvers), on both sides of the SpGEMM switch
        job('diff-tsan-t4', 'c09d', 'tsan', threads=4, timeout=T, args=['--sub', 'diff', '--threads=4', '--struct=sym', '--inputs=%d' % (5 if q else 30), '--nhi=1200']),
        job('diff-tsan-t17', 'c09d', 'tsan', threads=17, exclusive=True, timeout=T, args=['--sub', 'diff', '--threads=17', '--struct=sym', '--inputs=%d' % (2 if q else 10), '--nhi=900', '--cells=6']),
    ]
    if not q:
        js += [job('sched-exhaustive-omp-t17', 'c09s', 'plain-omp', threads=17, exclusive=True, timeout=T, args=['--sub', 'sched_exhaustive', '--threads=17', '--pattern_nmax=4']),
               job('diff-tsan-t8', 'c09d', 'tsan', threads=8, timeout=T, args=['--sub', 'diff', '--threads=8', '--struct=sym', '--inputs=20', '--nhi=1200']),
               job('sched-tsan-sym-t16', 'c09s', 'tsan', threads=16, timeout=T, args=['--sub', 'sweep_random', '--threads=5,16', '--struct=sym', '--reps=3'])]
    return js

PROPS['C09'] = dict(
    level='exploration', jobs=c09_jobs,
    rule='sched_exhaustive: every sparsity pattern with stored diagonal for n = 1..4 (4 165 patterns) and for n = 5 every 61st (quick) / all 2^20 (thorough), at 4, 5 and 8 threads, batch cases of 1024 masks, each pattern swept in sorted storage and with reversed / shuffled entries inside the rows (valid input of relaxation::gauss_seidel used directly), one non-trivial sub-case per pattern whose schedule tables were read; sched_random / sweep_random / epoch_trace: seeded G1 grids, G2 graph Laplacians, diagonally dominant matrices with symmetric and non-symmetric pattern, structurally non-symmetric convection-diffusion and one-sided chains (20..4000 rows) at 4..32 threads; diff: seeded G1/G2/G3 inputs (600..6000 rows) plus a small system (100..400 rows, kappa by SVD) for 12-24 solver cells per input, every output recomputed at every thread count of the list; repeat: 20 repetitions per thread count. A case is non-trivial when at least one level-scheduled object was built (>= 4 threads) or at least two thread counts were compared; distinct = distinct (sub-check, descriptor) hash.',
    exhaustive_note='sched_exhaustive: all patterns up to 4x4 in both tiers, all 2^20 5x5 patterns in the thorough tier (schedule invariant of Gauss-Seidel forward/backward and ILU(0) lower/upper)',
    min_nontrivial=dict(quick=4000, thorough=1000000),
    require_obs=dict(quick=['tsan_processes', 'schedules_checked', 'epochs_traced', 'parallel_sweeps_run', 'outputs_compared', 'repetitions'],
                     thorough=['tsan_processes', 'schedules_checked', 'epochs_traced', 'parallel_sweeps_run', 'outputs_compared', 'repetitions']),
    assumptions=COMMON_ASSUME + [
        'libgomp (1..16 threads) and libomp (1..32 threads) are the only OpenMP runtimes explored; thread counts above 32 are not run',
        'the all-interleavings clause rests on the schedule invariant (three facts that imply serial equivalence by induction over levels) plus barriers observed by the epoch trace, not on enumerating interleavings',
        'ThreadSanitizer + Archer model of OpenMP synchronisation is trusted (0 false positives measured on barrier code in this sandbox)'],
    technique='in-process thread-count differential on digests (bitwise / derived rounding bounds), schedule-table invariant through the friend accessor (exhaustive to 5x5), barrier-epoch trace with a traced vector type, ThreadSanitizer(Archer) with delay injection at the row hooks, 20x repetition',
    level_text='Every output class named by the property is recomputed from fresh objects at 1,2,3,4,5,8,16 threads (g++/libgomp) and 1,2,4,8,16,17,24,32 threads (clang/libomp) inside one process and compared bitwise or against a derived rounding bound; the task tables of the level-scheduled Gauss-Seidel and ILU sweeps are read back and checked for the three facts that make every interleaving equal to the serial sweep, exhaustively for all patterns up to 5x5; barriers are observed by an epoch trace; the same workloads run under ThreadSanitizer with injected delays and are repeated 20 times. Held means no observed execution broke an oracle; it is not a proof for unobserved inputs or thread counts.',
    level_note='trusts the OpenMP runtimes, TSan/Archer and the harness-side reference bounds; thread counts above 32 and hardware memory-model effects beyond TSan are not explored')
