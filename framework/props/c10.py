from framework.registry import target, job, PROPS, COMMON_ASSUME

# ---------------------------------------------------------------------------
# C10 outputs are a function of the inputs only; no memory errors on valid input
# ---------------------------------------------------------------------------
# One harness source, two targets:
#   c10   operator new/delete replaced (fill patterns 0x00/0xFF/0xAA/0x55/pseudo-random, freed blocks overwritten,
#         M_PERTURB for malloc, stack scribble, allocation churn)            -> 'plain' flavour, heap-content differential
#   c10n  native allocator (-DVF_NATIVE_NEW): the sanitizer / valgrind allocators must stay in place
#         -> 'asan' (ASan + UBSan + LSan, live asserts) and 'vg' (memcheck) flavours
# The driver runs one process per job; the differential therefore repeats every construction + solve from fresh objects
# under each fill pattern inside the harness -- each pattern in its own forked child that streams digests back, so a
# crash under one pattern (the usual way an uninitialised read shows up under 0xFF) is reported against the run in
# progress and the sweep continues.  --fork=0 (valgrind job) runs in-process.
# All jobs are single-threaded, as the property states.
#
# Oracle strength relative to the property text: the failure-discipline clause is checked as "a solver that reports a
# finite residual <= tol on a degenerate (validated: symmetric, diagonally dominant, kappa <= 40) system has a true
# relative residual <= 1e3 tol"; exceptions and truthfully reported non-converged / non-finite residuals are accepted, as
# the property allows (e.g. IDR(s) on the 1x1 system reports NaN).  On the regular inputs only the digests are compared
# (truthfulness there is C01).
target('c10', ['harness/c10_heap.cpp'])
target('c10n', ['harness/c10_heap.cpp'], flags=['-DVF_NATIVE_NEW'])

def c10_jobs(tier):
    q = tier == 'quick'
    T = 1200 if q else 5400
    # same options as the driver default plus a cap on single allocations (a garbage size aborts the child instead of exhausting the shared machine)
    ASAN = {'ASAN_OPTIONS': 'abort_on_error=1:detect_leaks=1:detect_stack_use_after_return=0:allocator_may_return_null=1:max_allocation_size_mb=4096'}
    return [
        # monitor 1 on G1-G5 inputs: 5 fill patterns x (12-18 coarsening/relaxation/solver/level/adapter cells + relaxation-only preconditioners)
        job('heapfill-plain', 'c10', 'plain', threads=1, shards=4 if q else 12, timeout=T, args=['--sub', 'heapfill']),
        # monitor 1 on the degenerate sweep as well (same engine, 5 fill patterns)
        job('degenerate-heapfill-plain', 'c10', 'plain', threads=1, shards=8 if q else 14, timeout=T, args=['--sub', 'degenerate'] + (['--fills=00,ff,rnd'] if q else [])),
        # monitors 3 + 4: ASan + UBSan + LSan, live asserts, native allocator
        job('degenerate-asan', 'c10n', 'asan', threads=1, shards=12 if q else 16, timeout=T, env=ASAN, args=['--sub', 'degenerate', '--fills=native']),
        job('heapfill-asan', 'c10n', 'asan', threads=1, shards=3 if q else 8, timeout=T, env=ASAN, args=['--sub', 'heapfill', '--fills=native', '--inputs=%d' % (60 if q else 400)]),
        # monitor 2: memcheck on a reduced workload (in-process; errors whose stack passes through amgcl frames become failures)
        job('heapfill-vg', 'c10n', 'vg', threads=1, shards=4 if q else 8, valgrind=True, timeout=3600 if q else 7200,
            args=['--sub', 'heapfill,degenerate', '--fills=native', '--fork=0', '--history=0', '--inputs=%d' % (12 if q else 48), '--nmax=%d' % (120 if q else 250), '--cells=12', '--solver_stride=%d' % (9 if q else 3), '--rounds=1']),
    ]

PROPS['C10'] = dict(
    level='exploration', jobs=c10_jobs,
    rule='heapfill: seeded G1 (2D/3D grid diffusion), G2 graph Laplacian, G3 convection-diffusion (symmetric and non-symmetric structure) and G5 Kronecker block inputs (200..1500 rows); per input 12-18 (coarsening, relaxation, solver, level setting, adapter) cells chosen so that all 36 coarsening x relaxation pairs are visited every three inputs, plus relaxation-only preconditioners; every run repeated from fresh objects under each fill pattern and once more in reverse order (different allocation history); inside every run the preconditioner is applied to the same vector on the fresh object and again after the solve, and the solve is repeated on the used object (all bitwise equal). degenerate: 14 G6 inputs (1x1, 2x2 identity, diagonal, disconnected blocks, rows with only positive off-diagonals, all-positive off-diagonals, smaller than coarse_enough, weak couplings that coarsen to nothing, isolated Dirichlet rows, unsorted rows, ...) x 4 coarsenings x 9 relaxations x 9 solvers x 4 level settings (default coarse_enough > n, max_levels = 1, coarse_enough = 1 with and without direct_coarse) x 2 adapters (copying tuple, zero-copy with harness-owned arrays). One non-trivial sub-case per (input, configuration) run that was started; distinct = distinct (sub-check, descriptor) hash.',
    exhaustive_note='degenerate: the full product G6 inputs x 4 coarsenings x 9 relaxations x 4 level settings x 2 adapters x 9 solvers, 1 (quick) / 6 (thorough) seeded instances per family',
    min_nontrivial=dict(quick=25000, thorough=150000),
    require_obs=dict(quick=['runs_completed', 'fill_pairs_compared', 'memcheck_processes'], thorough=['runs_completed', 'fill_pairs_compared', 'memcheck_processes']),
    assumptions=COMMON_ASSUME + [
        'prior heap contents are modelled by five fill patterns of fresh allocations (0x00, 0xFF, 0xAA, 0x55, xorshift bytes), overwritten freed blocks, M_PERTURB and a scribbled stack; an uninitialised read that influences neither control flow nor output under any of them is invisible',
        'ASan/UBSan/LSan and valgrind memcheck are trusted; UBSan null is disabled (amgcl forms &v[0] on empty vectors without dereferencing)',
        'single-threaded runs only, as the property states'],
    technique='in-harness heap-content and call-history differential (replaced operator new/delete, one forked child per fill pattern, bitwise digests of hierarchy / preconditioner application / solution), ASan+UBSan+LSan on the degenerate sweep with zero-copy ownership checks, valgrind memcheck, truthful-failure oracle',
    level_text='Every preconditioner/solver cell is constructed and applied from fresh objects under five different heap fill patterns and allocation histories and its complete hierarchy, preconditioner action and solution are compared bitwise; the degenerate-input sweep runs all cells, level settings and adapters under ASan+UBSan+LSan (live asserts) with crash attribution per run, lent arrays are checked for writes and double frees, and a reduced workload runs under memcheck. Held means no observed execution depended on heap contents, corrupted memory or misreported convergence; it is not a proof for unobserved inputs.',
    level_note='trusts the sanitizer runtimes and memcheck; multi-threaded runs and block-valued / complex backends are outside this check')
