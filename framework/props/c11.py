from framework.registry import target, job, PROPS, COMMON_ASSUME

# ---------------------------------------------------------------------------
# C11 distributed matrix algebra equals serial algebra for every partition
# ---------------------------------------------------------------------------
target('c11', ['harness/c11_distributed.cpp'])

def mjob(name, tgt, flav, ranks, args=(), **kw):
    # Every mpirun gets its own Open MPI session directory base: concurrent mpiruns that all create /tmp/ompi.<host>.<uid>
    # race in mkdir ("A call to mkdir was unable to create the desired directory ... File exists") and die before the harness starts.
    env = dict(kw.pop('env', {})); env['OMPI_MCA_orte_tmpdir_base'] = '/tmp/vf-ompi/C11-' + name
    # A distributed operation that never returns does not "equal the serial operation": a hang that reproduces on the retry
    # is attributed to the open case and reported as a violation (key hang:<sub>).  Timeouts are >= 80x the measured job time.
    kw.setdefault('hang_is_violation', True)
    return job(name, tgt, flav, mpi=ranks, args=list(args), env=env, **kw)

def c11_jobs(tier):
    q = tier == 'quick'
    TO = 600 if q else 3600
    js = []
    # exhaustive partition pairs: only meaningful on <= 4 ranks (the harness skips the sub-space above); shards are separate jobs (own session dir)
    for r, sh in ((1, 1), (2, 1), (3, 2), (4, 4)):
        for k in range(sh):
            js.append(mjob('exh-r%d-s%d' % (r, k), 'c11', 'mpi-plain', r, ['--sub', 'exhaustive'] + (['--shard', '%d/%d' % (k, sh)] if sh > 1 else []), timeout=TO))
    ranks = (1, 2, 3, 5, 8) if q else (1, 2, 3, 4, 5, 6, 7, 8)
    for r in ranks:
        js.append(mjob('rnd-r%d' % r, 'c11', 'mpi-plain', r, ['--sub', 'random'], timeout=TO))
    for r in ((3,) if q else (2, 4, 7)):
        js.append(mjob('asan-r%d' % r, 'c11', 'mpi-asan', r, ['--exh_full=3', '--exh_stride=23'] if q else ['--exh_full=4', '--exh_stride=11'], timeout=TO))
    return js

PROPS['C11'] = dict(
    level='exploration', jobs=c11_jobs,
    rule='Every rank generates the same global matrices A (n x k) and B (k x m) from the case seed and keeps the row slice given by a contiguous row partition; columns follow an independent contiguous partition. '
         'exhaustive: every (row partition, column partition) pair, empty ranks included, of integer-valued matrices with n,k <= 4 (quick) / <= 6 (thorough; quick takes a 1-in-7 sample of the pairs for sizes 5-6) on 1-4 ranks, '
         'each pair with a fresh random pattern. random: n,k,m <= 60, four partition styles (balanced, random cuts, forced empty ranks, everything on one rank), 60 % integer-valued (exact oracle) and 40 % real-valued (forward bound). '
         'In addition every random job on >= 2 ranks runs 4 (quick) / 12 (thorough) large-interface cases (every second one one-way: only rank a needs values of rank b, so b sends ghost values and receives none; two matrix-vector products in a row with different vectors, the receiver entering the first exchange 50-200 ms late through the exchange hook): two ranks own 1500-2600 rows each and every row of one couples to a distinct row of the other (integer data), so that one neighbour requests >= 1500 rows and the messages of remote_rows / product / transpose leave the eager path of the transport; remote_rows (with and without values) is checked rank-locally, product and transpose against exact sparse references. '
         'A case is non-trivial when the operands store at least one entry; distinct = distinct (sub-check, descriptor) hash; one exhaustive case covers one row partition with all its column partitions.',
    # oracle history: 'power*:finite' (power-method estimate finite and >= 0) was dropped -- stricter than the property, which only
    # asks for rank-identical values; it fired on a 2x2 zero-row-sum matrix with one row per rank (NaN on every rank).
    exhaustive_note='all (row partition, column partition) pairs for global sizes <= 4 (quick) / <= 6 (thorough) on 1..4 ranks, sub-check "exhaustive"',
    min_nontrivial=dict(quick=300, thorough=1500),
    require_obs=dict(quick=['large_interface_cases', 'one_way_large_interface_cases', 'partitions_checked', 'delays_injected', 'cases_with_empty_ranks'], thorough=['large_interface_cases', 'one_way_large_interface_cases', 'partitions_checked', 'delays_injected', 'cases_with_empty_ranks']),
    assumptions=COMMON_ASSUME + ['Open MPI 4.1.4 on one node (shared-memory transport, oversubscribed); message arrival orders are those this runtime produces, diversified by rank-seeded delays before every ghost exchange',
                                  'rank counts above 8 and non-builtin backends are not explored'],
    technique='reference-model oracle under mpirun: results of the real amgcl::mpi kernels are gathered on rank 0 and compared with dense long-double definitions (exact on integer data), plus rank-local structural monitors and ASan/UBSan builds',
    level_text='For rank counts 1..8 the constructor, transpose, product, scale, sort_rows, remote_rows, spmv, residual, inner_product, backend copy and the collective scalars of distributed_matrix are executed on exhaustively enumerated partitions of small matrices and on seeded random matrices/partitions (empty ranks included); every result is assembled on rank 0 and compared with the serial definition, collective scalars are compared across ranks bit for bit. Held means no observed execution deviated; unobserved inputs, rank counts and MPI schedules are not covered.',
    level_note='trusts the harness-side dense references, Open MPI and the compiler; message orders beyond what the local runtime plus injected delays produce are not explored')
