from framework.registry import target, job, PROPS, COMMON_ASSUME

# ---------------------------------------------------------------------------
# C12 distributed solve is truthful and rank-consistent for any rank count
# ---------------------------------------------------------------------------
target('c12', ['harness/c12_solve.cpp'])
target('c12b', ['harness/c12_block.cpp'])

def mjob(name, tgt, flav, ranks, args=(), **kw):
    # own Open MPI session directory base per mpirun (see props/c11.py: concurrent mpiruns race in mkdir of the shared one)
    env = dict(kw.pop('env', {})); env['OMPI_MCA_orte_tmpdir_base'] = '/tmp/vf-ompi/C12-' + name
    return job(name, tgt, flav, mpi=ranks, args=list(args), env=env, **kw)

def c12_jobs(tier):
    q = tier == 'quick'
    js = []
    ranks = (1, 2, 3, 4, 6, 8) if q else (1, 2, 3, 4, 5, 6, 7, 8)
    for r in ranks:
        # termination clause: a reproducible hang inside a solve is a violation (cases are small, the open case is the culprit)
        sh = 1 if q else 2
        for k in range(sh):
            js.append(mjob('solve-r%d-s%d' % (r, k), 'c12', 'mpi-plain', r, ['--sub', 'solve'] + (['--shard', '%d/%d' % (k, sh)] if sh > 1 else []), timeout=2400 if q else 5400, hang_is_violation=True))   # measured: 3-25 s per job idle, up to 390 s with the machine at load 70
    # partly convective inputs (PMIS aggregates vanish on some ranks only): own small jobs with a short watchdog so that a reproducible hang of the
    # setup is reported within the check (measured 2-4 s per job idle; 600 s is >= 100x that and ~10x the time seen at load 70)
    for r in (2, 3, 4):
        js.append(mjob('conv-r%d' % r, 'c12', 'mpi-plain', r, ['--sub', 'solve,pmis', '--convective=1'], timeout=600 if q else 1200, hang_is_violation=True))
    for r in ((2, 5) if q else (1, 2, 3, 4, 5, 6, 7, 8)):
        js.append(mjob('setup-r%d' % r, 'c12', 'mpi-plain', r, ['--sub', 'pmis,direct'], timeout=2400))
    # block size > 1 together with near-null-space vectors: separate processes (see sub_pmis in the harness)
    for r in ((1, 3) if q else (1, 2, 4, 7)):
        js.append(mjob('pmisbk-r%d' % r, 'c12', 'mpi-plain', r, ['--sub', 'pmis_bk'], timeout=2400))
    js.append(mjob('asan-pmisbk-r2', 'c12', 'mpi-asan', 2, ['--sub', 'pmis_bk', '--pmis_bk_cases=4'], timeout=3600))
    # input class "more near-null-space vectors than the smallest aggregate has unknowns": own small ASan jobs (aborts on this tree: QR::R reads past its buffer)
    for r in (1, 2):
        js.append(mjob('asan-smallaggr-r%d' % r, 'c12', 'mpi-asan', r, ['--sub', 'pmis_small_aggr', '--small_cases=%d' % (3 if q else 8)], timeout=3600))
    for r in ((3, 7) if q else (1, 2, 4, 5, 8)):
        js.append(mjob('block-r%d' % r, 'c12b', 'mpi-plain', r, timeout=2400 if q else 5400, hang_is_violation=True))   # measured: 10 s idle, 240 s at load 70
    if q:
        js.append(mjob('asan-r3', 'c12', 'mpi-asan', 3, ['--sub', 'solve,pmis,direct', '--solves=12', '--pmis_cases=8', '--direct_cases=8'], timeout=3600))
        js.append(mjob('asan-block-r2', 'c12b', 'mpi-asan', 2, ['--block_solves=6', '--sdd_solves=4', '--bp_solves=4', '--direct_cases=6'], timeout=3600))
    else:
        for r in (2, 5):
            js.append(mjob('asan-r%d' % r, 'c12', 'mpi-asan', r, ['--sub', 'solve,pmis,direct', '--solves=48', '--pmis_cases=30', '--direct_cases=30'], timeout=7200))
        js.append(mjob('asan-block-r3', 'c12b', 'mpi-asan', 3, ['--block_solves=16', '--sdd_solves=12', '--bp_solves=12', '--direct_cases=20'], timeout=7200))
    return js

PROPS['C12'] = dict(
    level='exploration', jobs=c12_jobs,
    rule='Every rank generates the same global SPD M-matrix (G1 model sub-family: 5/9-point 2-D and 7-point 3-D variable-coefficient diffusion, contrast <= 10, anisotropy >= 0.1; G2: geometric or Erdos-Renyi graph Laplacians, average degree 5-8, positive shift on every vertex; 300 <= n <= 900 quick / 1500 thorough; the generator output is validated to be symmetric, diagonally dominant with non-positive off-diagonals and lambda_min > 0) '
         'and keeps the rows of a random contiguous partition (balanced / random cuts / forced empty ranks / everything on one rank). '
         'solve: cell k of the 576-cell cross product {aggregation, smoothed_aggregation} x 9 relaxations x 8 Krylov solvers x {skyline_lu, eigen_splu} x {no repartition, merge} is (offset(ranks, seed) + 115 k) mod 576, tol 1e-8, maxiter 300 (1000 Richardson); 20 % of the calls are budget-limited (maxiter 3-9, no convergence clause), 20 % start from x0 != 0, 25 % of the eligible solvers use left preconditioning; over_interp in {1, 1.25, 1.5}. '
         'Convergence clause: res < tol within the budget for all 8 solvers, as the property states it (for CG only when npre == npost, i.e. when the cycle is symmetric); for Richardson the same configuration is additionally run by rank 0 alone (MPI_COMM_SELF) and the outcome is attached to the failure detail (single_rank_reference), because plain aggregation with over-interpolation is not a convergent stationary iteration on every G2 graph even on one rank. '
         'In addition every solve job on > 1 ranks runs 12 (quick) / 48 (thorough) thin-slab cases: a 2-D G1 grid (24-48 points per line, contrast 1 in 60 %) cut into slabs of one or two grid lines per rank so that every row on every rank has an off-process coupling; every third of them with the Chebyshev smoother, the others cycling through the remaining relaxations and CG/BiCGStab/GMRES/IDR(s)/FGMRES/LGMRES/BiCGStab(L)/Richardson. '
         'pmis also checks the distributed smoothed prolongation against its definition (I - 2/3 D_F^-1 A_F) P_tent evaluated on the assembled global matrix (weak entries lumped wherever their column lives; block size 1), every fourth pmis case being an anisotropic 2-D grid (anisotropy 0.01-0.15) cut across its weak direction; every third sdd / bp case is a structurally non-symmetric convection-diffusion problem (pure upwind convection across the cuts, or vf::convdiff with deleted partners): no convergence clause there, a Krylov breakdown is not counted, the truthful-residual and rank-consistency clauses stay. '
         'Jobs conv-r2..4 run only partly convective inputs through solve and pmis: -Laplace + p(y) du/dx upwind (p = 25 or 10-40) on the lowest third / half / quarter of the grid lines of a 12-32 x 12-36 grid cut into strips of lines, so that the strength graph is non-symmetric on some ranks only (no convergence clause, breakdowns not counted; termination by a 600 s watchdog, rank-consistency, truthful residual, partition / Galerkin / smoothed-prolongation oracles stay). '
         'pmis/direct/block/sdd/bp: seeded cases as described in the harness headers. A solve case is non-trivial when the hierarchy has >= 2 levels and the solve returned; a pmis case when it has a non-isolated unknown; distinct = distinct (sub-check, descriptor) hash.',
    # domain restriction of the convergence clause: for solver == cg it is asserted only when npre == npost.  CG needs a symmetric positive definite
    # preconditioner and a V(npre != npost) cycle is non-symmetric by the caller's own parameters (C02 states symmetry for npre == npost only); the clause
    # fired there on the unchanged tree (seed 9 solve idx 3: aggregation + ilup + cg, npre 2 / npost 1, 4 ranks, stagnation at 3e-6 while Richardson, GMRES,
    # BiCGStab converge) -- a false alarm of the check, not a finding.  Such cases are counted in 'cg_nonsymmetric_cycle_cases'; termination,
    # rank-consistency and the truthful-residual clause stay asserted for them.  (c12_block.cpp never draws npre / npost.)
    # oracle history: (1) 'non-finite:*' as an unconditional failure was replaced by "reported and true residual must be non-finite together" plus the
    # convergence clause (a diverging Richardson iteration overflows; that is truthful); (2) a differential convergence clause for Richardson (only when the
    # single-rank run converges) was tried and withdrawn: the property states convergence for every combination, so the clause is absolute and the single-rank
    # outcome is reported in the failure detail; (3) over_interp = 1.75 / 2 removed from the generator (the coarse correction of a stationary iteration overshoots).
    min_nontrivial=dict(quick=400, thorough=1500),
    require_obs=dict(quick=['solves', 'thin_slab_chebyshev_solves', 'solves_with_empty_ranks', 'solves_with_repartition', 'galerkin_entries_checked', 'partition_levels_checked', 'nullspace_entries_checked', 'direct_solves', 'partly_convective_solves', 'partly_convective_pmis_cases', 'smoothed_prolongation_rows_with_weak_entries', 'sdd_nonsym_solves', 'block_solves', 'sdd_solves', 'bp_solves'],
                     thorough=['solves', 'thin_slab_chebyshev_solves', 'solves_with_empty_ranks', 'solves_with_repartition', 'galerkin_entries_checked', 'partition_levels_checked', 'nullspace_entries_checked', 'direct_solves', 'partly_convective_solves', 'partly_convective_pmis_cases', 'smoothed_prolongation_rows_with_weak_entries', 'sdd_nonsym_solves', 'block_solves', 'sdd_solves', 'bp_solves']),
    assumptions=COMMON_ASSUME + ['Open MPI 4.1.4 on one node, oversubscribed; message arrival orders are those of this runtime diversified by rank-seeded delays before every ghost exchange',
                                  'the convergence clause is evaluated on the generator sub-families stated in the rule (tol 1e-8 within 300 Krylov / 1000 Richardson iterations)',
                                  'ParMETIS, PT-SCOTCH and PaStiX are not installed: only partition::merge, skyline_lu and eigen_splu are exercised; rank counts above 8 are not explored'],
    technique='reference-model oracles under mpirun (true residual of the gathered solution in long double, dense/sparse long-double triple product for A_c = R A P, dense LU for the direct solver, strength-of-connection definition for the partition clause), all-rank bitwise comparison of (iterations, residual), a recording coarsening wrapper as template argument of mpi::amg plus the AMGCL_VERIF friend accessor for the kept levels, watchdog for termination, ASan/UBSan builds',
    level_text='mpi::make_solver is executed for rank counts 1..8 over the cross product of the distributed coarsening, relaxation, Krylov, direct-solver and repartitioning components available offline (scalar and 2x2 block values, subdomain deflation and block preconditioner included) on seeded SPD M-matrices with random row partitions including empty ranks. Each call is watched for termination, its (iterations, residual) are compared across ranks bit for bit, the gathered solution is checked against the reported residual and the convergence clause; every level produced during setup is gathered and checked for R = P^T, A_c = R A P, the global-partition and near-null-space clauses, and the distributed direct solvers are compared with a dense solve. Held means no observed execution deviated; it is not a proof for other inputs, rank counts or message schedules.',
    level_note='trusts the harness-side references, Open MPI and the compiler; a hang is only attributed when it reproduces twice under the watchdog')
