from framework.registry import target, job, PROPS, COMMON_ASSUME

# ---------------------------------------------------------------------------
# C13 block, complex and mixed-precision formulations solve the same system
# ---------------------------------------------------------------------------
# Oracle notes (HARNESS_GUIDE rule 4):
#  * entries of every block representation are compared exactly with the scalar matrix (zero-filled blocks);
#    SpMV exactly on integer data, 2 (k + b^2 + 4) eps sum|a||x| on real data (b^2: zero-filled block terms);
#  * every solve is checked against the scalar / complex system HELD BY THE HARNESS with the C01 oracle
#    (include/vf/solvecheck.hpp): FGMRES recomputes its residual on exit => |res - true| <= max(1e-6 true,
#    8 u (maxrow+3)(|| |A||x| || + ||f||)/||f||); BiCGStab / CG carry a recursive residual => max(1e-3 true,
#    100 u (iters+1) kappa_2) with kappa_2 from a dense SVD, hence only for n <= 640; complex arithmetic u -> 4u;
#  * "returns a solution": true residual <= tol + bound with maxiter 300 on the SPD / diagonally dominant G5
#    families and the Hermitian G4 family, for the block formulations the property lists; the point-wise scalar
#    reference formulation is held to truthfulness only (observed to stall at 1e-5 on a 4x4 Kronecker system); the complex-shifted real-equivalent form is held to truthfulness only
#    (AMG on the 2n x 2n non-symmetric form is not promised to converge);
#  * rescaled systems (seeded C13-3): every third `solves` case repeats all formulations with the MATRIX multiplied by 2^-30, 2^-60,
#    2^+30 (rhs kept, so ||f|| stays away from the solvers' absolute zero-rhs threshold; the harness checks against its own
#    rescaled copy).  A power-of-two factor commutes with every rounding and all components used compare only relative
#    quantities, so a formulation must solve the rescaled system whenever it solved the unit-scale one, without new exceptions,
#    and with bitwise the same iteration count and reported residual (observed on the unchanged tree for every static_matrix
#    formulation; the Eigen-block formulation fails it because of the fuzzy isZero(), reported as a defect).  mixed_block
#    uses 2^-30 / 2^+30 only (2^-60 squared underflows in float, exactness could not be argued).
#  * same solution complex vs real-equivalent: ||x_c - x_r||/||x_c|| <= kappa_2 (relres_c + relres_r), n <= 600;
#  * mixed precision: default solver parameters (tol 1e-8, maxiter 100), solve(A, rhs, x) with the double
#    matrix as in tutorial/1.poisson3Db; coarse_enough = 100 so that the 500..640-unknown cases have >= 2 levels.
for bsz in (2, 3, 4):
    target('c13b%d' % bsz, ['harness/c13_b%d.cpp' % bsz])
target('c13c', ['harness/c13_complex.cpp'])
target('c13m', ['harness/c13_mixed.cpp'])

def c13_jobs(tier):
    q = tier == 'quick'
    js = []
    for bsz in (2, 3, 4):
        js += [job('block%d-plain-t1' % bsz, 'c13b%d' % bsz, 'plain', threads=1, shards=1 if q else 6, timeout=3600),
               job('block%d-asan-t1' % bsz, 'c13b%d' % bsz, 'asan', threads=1, shards=2 if q else 8, timeout=7200)]
    js += [job('block2-plain-t4', 'c13b2', 'plain', threads=4, timeout=3600),
           job('complex-plain-t1', 'c13c', 'plain', threads=1, shards=1 if q else 4, timeout=3600),
           job('complex-asan-t1', 'c13c', 'asan', threads=1, shards=2 if q else 6, timeout=7200),
           job('mixed-plain-t1', 'c13m', 'plain', threads=1, shards=2 if q else 8, timeout=3600),
           job('mixed-asan-t1', 'c13m', 'asan', threads=1, shards=3 if q else 8, timeout=7200)]
    if not q:
        js += [job('block3-plain-t4', 'c13b3', 'plain', threads=4, shards=2, timeout=3600),
               job('mixed-plain-t2', 'c13m', 'plain', threads=2, shards=4, timeout=3600)]
    return js

PROPS['C13'] = dict(
    level='exploration', jobs=c13_jobs,
    rule='operators: seeded scalar matrices with b x b structure, b = 2,3,4 (Kronecker A x C with SPD C, A x I i.e. structurally incomplete blocks, per-edge SPD block stencils, punched Kronecker products, random incomplete blocks; half integer-valued) presented as crs<static_matrix>, block_matrix adapter, builtin_hybrid matrix, crs<Eigen block>; solves: the G5 families on grid / graph base problems (40..900 cells, thorough ..2500) through 8 formulations per block size, every third case also with the matrix rescaled by 2^-30, 2^-60, 2^+30; complex_adapter: random complex matrices (half Gaussian-integer valued); complex_solves: Hermitian positive definite (gauge-phase) and complex-shifted G4 systems, n 60..2000 (thorough ..6000), complex value type and real-equivalent form; mixed: float hierarchy for all 4 coarsenings x 9 relaxations under double FGMRES (every case) and BiCGStab / CG (n <= 640) on G1 model problems with 500..4000 unknowns (thorough ..20000). Non-trivial: the matrix stores entries (operators, complex_adapter), at least one hierarchy of the case has >= 2 levels (solves, mixed), every complex solve case.',
    min_nontrivial=dict(quick=400, thorough=5000),
    require_obs=dict(quick=['solves', 'rescaled_solves', 'real_equivalent_solves', 'mixed_precision_solves', 'representation_spmvs'], thorough=['solves', 'rescaled_solves', 'real_equivalent_solves', 'mixed_precision_solves', 'representation_spmvs']),
    assumptions=COMMON_ASSUME,
    technique='reference-model oracles on the scalar / complex system held by the harness: exact entry comparison of every block representation, SpMV against the scalar definition, truthful-residual and is-a-solution oracle for every formulation, solution agreement complex vs real-equivalent bounded by the condition number; repeated under ASan/UBSan',
    level_text='Each G5 matrix is solved through the block value type with the block_matrix adapter, make_block_solver, the as_block relaxation, the as_scalar coarsening, the builtin_hybrid backend and Eigen block values for b = 2, 3, 4, and every returned solution is checked against the scalar system (reported residual truthful, tolerance reached); block representations are compared entry-wise and through SpMV with the scalar matrix, unblock(block(A)) with A; complex systems are solved with the complex value type and through the real-equivalent form of the complex adapter and compared; a float hierarchy under a double solver is run on the model problems for all 36 coarsening x relaxation cells. Held means: no observed execution deviated; it is not a proof for unobserved inputs.',
    level_note='block sizes above 4, Eigen blocks with complex scalars in a full solve, VexCL static matrices and GPU backends are not covered; convergence is demanded on the SPD / Hermitian / model families only')
