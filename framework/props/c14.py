from framework.registry import target, job, PROPS, COMMON_ASSUME

# ---------------------------------------------------------------------------
# C14 run-time configuration is equivalent to compile-time configuration
# ---------------------------------------------------------------------------
# Binary 'c14' (9 translation units, each 15-25 s plain / < 60 s asan):
#   c14_config.cpp            main, dispatch, documentation pass (docs/components/*.rst)
#   c14_eq_<coarsening>.cpp   9 amg<B, C, R> cells each against the run-time wrappers (36 cells)
#   c14_eq_solvers.cpp        9 solvers, runtime::preconditioner classes, make_solver compositions
#   c14_eq_block.cpp          block-valued backend (static_matrix<2,2>): 4 cells, the as_scalar dispatch, unsupported ruge_stuben
#   c14_tables.cpp            parameter table over every serial params struct
#   c14_rt_misc.cpp           enumeration strings, unknown keys through the run-time classes
# Binary 'c14_mpi_eq' (mpirun, 2-3 ranks quick / 1-5 thorough): every mpi relaxation, 4 mpi::amg cells and the 9 mpi solvers through the run-time
# wrappers against the compile-time classes, bitwise on every rank's rows, on non-uniformly scaled variable-coefficient matrices.
# Binary 'c14_mpi': parameter table + enumerations of the MPI structs (mpicxx; only params objects are
# constructed, so it runs as a singleton without mpirun).
# One tiny target per compile probe (item 4): 'c14_probe_<component>', job with compile_probe set.
#
# Oracle notes (why nothing here is stricter than the property text):
#  * bitwise equality is demanded between two executions of the same binary, same thread count (1);
#  * the workload avoids rows without negative off-diagonals so that finding F3 (ruge_stuben reads
#    unwritten strength values; heap-fill dependent) cannot masquerade as a C14 difference;
#  * parameters that are handed over by pointer (nullspace.B/cols/rows, cpr_drs.weights, schur pmask,
#    subdomain_deflation.def_vec) are checked for import only: the library copies the pointee and cannot
#    write the pointer back; they are listed in the observation 'pointer_params_not_exported_by_design'
#    and not treated as violations of "identity on value parameters";
#  * documentation coverage (docs pass) is an observation, never a violation.
C14_SRC = ['harness/c14_config.cpp', 'harness/c14_eq_aggregation.cpp', 'harness/c14_eq_smoothed_aggregation.cpp',
           'harness/c14_eq_smoothed_aggr_emin.cpp', 'harness/c14_eq_ruge_stuben.cpp', 'harness/c14_eq_solvers.cpp',
           'harness/c14_eq_block.cpp', 'harness/c14_tables.cpp', 'harness/c14_rt_misc.cpp']
target('c14', C14_SRC)
target('c14_mpi', ['harness/c14_mpi.cpp'])
target('c14_mpi_eq', ['harness/c14_mpi_equiv.cpp'])   # run-time vs compile-time MPI classes, run under mpirun

# component -> (header, params type[, mpi])
_S = 'amgcl/solver/'; _R = 'amgcl/relaxation/'; _C = 'amgcl/coarsening/'
C14_PROBES = [
    ('solver.cg',          _S + 'cg.hpp',         'amgcl::solver::cg<B>::params'),
    ('solver.bicgstab',    _S + 'bicgstab.hpp',   'amgcl::solver::bicgstab<B>::params'),
    ('solver.bicgstabl',   _S + 'bicgstabl.hpp',  'amgcl::solver::bicgstabl<B>::params'),
    ('solver.gmres',       _S + 'gmres.hpp',      'amgcl::solver::gmres<B>::params'),
    ('solver.lgmres',      _S + 'lgmres.hpp',     'amgcl::solver::lgmres<B>::params'),
    ('solver.fgmres',      _S + 'fgmres.hpp',     'amgcl::solver::fgmres<B>::params'),
    ('solver.idrs',        _S + 'idrs.hpp',       'amgcl::solver::idrs<B>::params'),
    ('solver.richardson',  _S + 'richardson.hpp', 'amgcl::solver::richardson<B>::params'),
    ('solver.preonly',     _S + 'preonly.hpp',    'amgcl::solver::preonly<B>::params'),
    ('relaxation.damped_jacobi', _R + 'damped_jacobi.hpp', 'amgcl::relaxation::damped_jacobi<B>::params'),
    ('relaxation.gauss_seidel',  _R + 'gauss_seidel.hpp',  'amgcl::relaxation::gauss_seidel<B>::params'),
    ('relaxation.spai0',         _R + 'spai0.hpp',         'amgcl::relaxation::spai0<B>::params'),
    ('relaxation.spai1',         _R + 'spai1.hpp',         'amgcl::relaxation::spai1<B>::params'),
    ('relaxation.chebyshev',     _R + 'chebyshev.hpp',     'amgcl::relaxation::chebyshev<B>::params'),
    ('relaxation.ilu0',          _R + 'ilu0.hpp',          'amgcl::relaxation::ilu0<B>::params'),
    ('relaxation.iluk',          _R + 'iluk.hpp',          'amgcl::relaxation::iluk<B>::params'),
    ('relaxation.ilup',          _R + 'ilup.hpp',          'amgcl::relaxation::ilup<B>::params'),
    ('relaxation.ilu_solve_builtin', _R + 'detail/ilu_solve.hpp', 'amgcl::relaxation::detail::ilu_solve<B>::params'),
    ('relaxation.ilu_solve_generic', _R + 'detail/ilu_solve.hpp', 'amgcl::relaxation::detail::ilu_solve<OtherBackend>::params'),
    ('coarsening.aggregation',          _C + 'aggregation.hpp',          'amgcl::coarsening::aggregation<B>::params'),
    ('coarsening.smoothed_aggregation', _C + 'smoothed_aggregation.hpp', 'amgcl::coarsening::smoothed_aggregation<B>::params'),
    ('coarsening.smoothed_aggr_emin',   _C + 'smoothed_aggr_emin.hpp',   'amgcl::coarsening::smoothed_aggr_emin<B>::params'),
    ('coarsening.ruge_stuben',          _C + 'ruge_stuben.hpp',          'amgcl::coarsening::ruge_stuben<B>::params'),
    ('coarsening.plain_aggregates',     _C + 'plain_aggregates.hpp',     'amgcl::coarsening::plain_aggregates::params'),
    ('coarsening.pointwise_aggregates', _C + 'pointwise_aggregates.hpp', 'amgcl::coarsening::pointwise_aggregates::params'),
    ('coarsening.nullspace_params',     _C + 'tentative_prolongation.hpp', 'amgcl::coarsening::nullspace_params'),
    ('amg',                 'amgcl/amg.hpp',         'AMG0::params'),
    ('make_solver',         'amgcl/make_solver.hpp', 'MS0::params'),
    ('preconditioner.cpr',     'amgcl/preconditioner/cpr.hpp',     'amgcl::preconditioner::cpr<AMG0,REL0>::params'),
    ('preconditioner.cpr_drs', 'amgcl/preconditioner/cpr_drs.hpp', 'amgcl::preconditioner::cpr_drs<AMG0,REL0>::params'),
    ('preconditioner.schur_pressure_correction', 'amgcl/preconditioner/schur_pressure_correction.hpp', 'amgcl::preconditioner::schur_pressure_correction<MS0,MS1>::params'),
    ('preconditioner.dummy',   'amgcl/preconditioner/dummy.hpp',   'amgcl::preconditioner::dummy<B>::params'),
    ('backend.block_crs',      'amgcl/backend/block_crs.hpp',      'amgcl::backend::block_crs<double>::params'),
    ('mpi.amg',                'amgcl/mpi/amg.hpp',                'MAMG0::params', True),
    ('mpi.make_solver',        'amgcl/mpi/make_solver.hpp',        'MMS0::params', True),
    ('mpi.coarsening.aggregation', 'amgcl/mpi/coarsening/aggregation.hpp', 'amgcl::mpi::coarsening::aggregation<B>::params', True),
    ('mpi.coarsening.smoothed_aggregation', 'amgcl/mpi/coarsening/smoothed_aggregation.hpp', 'amgcl::mpi::coarsening::smoothed_aggregation<B>::params', True),
    ('mpi.coarsening.pmis',    'amgcl/mpi/coarsening/pmis.hpp',    'amgcl::mpi::coarsening::pmis<B>::params', True),
    ('mpi.partition.merge',    'amgcl/mpi/partition/merge.hpp',    'amgcl::mpi::partition::merge<B>::params', True),
    ('mpi.cpr',                'amgcl/mpi/cpr.hpp',                'amgcl::mpi::cpr<MAMG0,MREL0>::params', True),
    ('mpi.schur_pressure_correction', 'amgcl/mpi/schur_pressure_correction.hpp', 'amgcl::mpi::schur_pressure_correction<MMS0,MMS0>::params', True),
    ('mpi.subdomain_deflation', 'amgcl/mpi/subdomain_deflation.hpp', 'amgcl::mpi::subdomain_deflation<MAMG0,amgcl::mpi::solver::cg<B>>::params', True),
]
for _p in C14_PROBES:
    _fl = ['-DC14_PROBE_HEADER=<%s>' % _p[1], '-DC14_PROBE_TYPE=%s' % _p[2]] + (['-DC14_PROBE_MPI'] if len(_p) > 3 else [])
    target('c14_probe_' + _p[0], ['harness/c14_probe.cpp'], flags=_fl)
# the two components whose export is a listed finding (F10, F7): the probe is the table itself, with the export step
target('c14_probe_relaxation.ilut', ['harness/c14_probe_ilut.cpp'])
target('c14_probe_deflated_solver', ['harness/c14_probe_deflated.cpp'])

def c14_jobs(tier):
    q = tier == 'quick'
    js = [job('config-plain', 'c14', 'plain', threads=1, shards=8, timeout=3600),
          job('config-asan', 'c14', 'asan', threads=1, shards=8, timeout=7200),
          job('mpi-params-plain', 'c14_mpi', 'mpi-plain', threads=1, timeout=1800)]
    # distributed run-time wrappers vs compile-time classes, bitwise per rank; own Open MPI session directory per mpirun (concurrent mpiruns race in mkdir of the shared one)
    for r in ((2, 3) if q else (1, 2, 3, 4, 5)):
        js.append(job('mpi-equiv-r%d' % r, 'c14_mpi_eq', 'mpi-plain', mpi=r, threads=1, timeout=2400, env={'OMPI_MCA_orte_tmpdir_base': '/tmp/vf-ompi/C14-equiv-r%d' % r}))
    if not q:
        js.append(job('mpi-equiv-asan-r2', 'c14_mpi_eq', 'mpi-asan', mpi=2, threads=1, timeout=3600, env={'OMPI_MCA_orte_tmpdir_base': '/tmp/vf-ompi/C14-equiv-asan'}))
    if not q:
        js.append(job('mpi-params-asan', 'c14_mpi', 'mpi-asan', threads=1, timeout=3600, noleak=True))
    for p in C14_PROBES:
        js.append(job('probe-' + p[0], 'c14_probe_' + p[0], 'mpi-plain' if len(p) > 3 else 'plain', compile_probe=p[0], compile_only=True))
    for comp, tgt in (('relaxation.ilut', 'c14_probe_relaxation.ilut'), ('deflated_solver', 'c14_probe_deflated_solver')):
        js.append(job('probe-' + comp, tgt, 'plain', compile_probe=comp, compile_only=True))
        js.append(job('table-' + comp, tgt, 'plain', threads=1, timeout=1800))     # runs only when the probe compiles
    return js

PROPS['C14'] = dict(
    level='exploration', jobs=c14_jobs,
    rule=('equiv_amg: case idx -> cell (coarsening, relaxation) = idx mod 36, seeded M-matrix (5/7/9-point diffusion, upwind convection-diffusion, 80-580 unknowns), '
          'every params field of amg/coarsening/relaxation drawn at random (non-default); non-trivial = hierarchy has >= 2 levels and the extracted operator is finite and non-zero. '
          'equiv_solver / equiv_precond / equiv_make_solver: same with random solver parameters; non-trivial = at least one iteration moved x. '
          'equiv_block: the same on A (x) C (C SPD 2x2) through builtin<static_matrix<2,2>>, 4 cells + the as_scalar dispatch (near null-space vectors given) + unsupported ruge_stuben. '
          'param_table: one case per (params struct, repetition); each imported field counts as one non-trivial sub-case. '
          'enum_strings: one case per enumeration; each accepted documented name counts. unknown_runtime: one case per random run-time tree; each injected level counts. '
          'distinct = distinct (sub-check, descriptor) hash.'),
    exhaustive_note=('all 36 (coarsening, relaxation) cells, all 9 solvers, all 4 preconditioner classes (scalar backend); every member of every params struct in the table '
                     '(45 serial + 11 MPI structs); every documented enumeration name of the 8 enumeration types; every nesting level for unknown keys; '
                     '44 compile probes'),
    min_nontrivial=dict(quick=800, thorough=3000),
    require_obs=dict(quick=['table_struct_cases', 'invalid_enum_strings_tried', 'unknown_runtime_levels', 'documented_members', 'foreign_keys_injected', 'equiv_mpi_relaxations', 'thread_history_steps'],
                     thorough=['table_struct_cases', 'invalid_enum_strings_tried', 'unknown_runtime_levels', 'documented_members', 'foreign_keys_injected', 'equiv_mpi_relaxations']),
    assumptions=COMMON_ASSUME + ['Boost.PropertyTree text round trip of arithmetic values (max_digits10) is trusted',
                                 'pointer-valued parameters are checked for import only (the library copies the pointee)'],
    technique=('differential oracle: compile-time composed classes with field-by-field filled params vs run-time wrappers fed the same values through a property tree, '
               'bitwise comparison of the extracted preconditioner matrix / (iterations, residual, x); member-table oracle for import, isolation, export, '
               're-import and unknown-key reporting with the unknown-parameter hook redefined; enumeration-string mutation; per-struct compile probes; ASan/UBSan repeat'),
    level_text=('Every cell of the run-time dispatch tables is executed against its compile-time twin on seeded systems with random non-default parameters and must agree bitwise; '
                'every member of every params struct is set through a tree, read back, exported, re-imported and isolated; unknown keys are injected at every nesting level; '
                'invalid enumeration strings must throw. Held means no observed execution deviated; it is not a proof for unobserved parameter values.'),
    level_note=('back ends other than builtin (double and 2x2 blocks), complex values and the GPU/VexCL params structs are not covered; MPI structs are checked at the params level '
                'and through the relaxation / amg / solver wrappers on <= 5 ranks; the two names a base params class whitelists for its derived class (ilu0: k, plain_aggregates: block_size) are recorded, not judged; pointer parameters are import-only'))
