from framework.registry import target, job, PROPS, COMMON_ASSUME

# ---------------------------------------------------------------------------
# C14 run-time configuration is equivalent to compile-time configuration
# ---------------------------------------------------------------------------
# One binary 'c14' (8 translation units, each < 60 s per flavour):
#   c14_config.cpp            main, dispatch, documentation pass
#   c14_eq_<coarsening>.cpp   9 amg<B, C, R> cells each against the run-time wrappers
#   c14_eq_solvers.cpp        9 solvers, runtime::preconditioner classes, make_solver compositions
#   c14_tables.cpp            parameter table over every serial params struct
#   c14_rt_misc.cpp           enumeration strings, unknown keys through the run-time classes
# plus 'c14_mpi' (parameter table of the MPI structs, built with mpicxx, run as a singleton) and one tiny
# target per compile probe.
C14_SRC = ['harness/c14_config.cpp', 'harness/c14_eq_aggregation.cpp', 'harness/c14_eq_smoothed_aggregation.cpp',
           'harness/c14_eq_smoothed_aggr_emin.cpp', 'harness/c14_eq_ruge_stuben.cpp', 'harness/c14_eq_solvers.cpp',
           'harness/c14_tables.cpp', 'harness/c14_rt_misc.cpp']
target('c14', C14_SRC)

def c14_jobs(tier):
    q = tier == 'quick'
    js = [job('config-plain', 'c14', 'plain', threads=1, shards=8, timeout=3600),
          job('config-asan', 'c14', 'asan', threads=1, shards=8, timeout=7200)]
    return js

PROPS['C14'] = dict(
    level='exploration', jobs=c14_jobs,
    rule='TODO',
    min_nontrivial=dict(quick=100, thorough=300),
    assumptions=COMMON_ASSUME,
    technique='TODO', level_text='TODO', level_note='TODO')
