from framework.registry import target, job, PROPS, COMMON_ASSUME

# ---------------------------------------------------------------------------
# C15 objects are reusable; calls do not leak state
# One heavy TU (runtime preconditioner: amg / relaxation / dummy / nested, runtime solver wrapper).
# Bitwise differentials => single thread only (the reduction order of inner products depends on the thread count, not on history).
# ---------------------------------------------------------------------------
target('c15', ['harness/c15_reuse.cpp'])

# Watchdogs: every solve in these harnesses is bounded by maxiter; a call that never returns violates the iteration-bound /
# reuse clauses, so a hang that reproduces on the retry is attributed to the open case and reported (key hang:<sub>).
# Quick jobs take < 60 s each on a loaded machine: the quick watchdogs are >= 30x that.
def c15_jobs(tier):
    q = tier == 'quick'
    return [job('reuse-plain', 'c15', 'plain', threads=1, shards=4 if q else 12, timeout=1800 if q else 7200, hang_is_violation=True),
            # asan: asserts live, LeakSanitizer on (exceptions thrown in the middle of a solve must not leak), same scripts, every 5th / 17th history
            job('reuse-asan',  'c15', 'asan',  threads=1, shards=6 if q else 12, timeout=2700 if q else 14400, hang_is_violation=True, args=['--stride=5'] if q else ['--stride=17'])]   # strides coprime with the shard counts (cases are sharded by idx % shards)

# Oracle strength notes:
#  * "fresh object" = same constructor arguments; after a rebuild step the fresh object is rebuilt with the *latest* matrix only (a rebuild
#    must not depend on earlier rebuilds or solves either).
#  * converged-initial-guess steps use a guess produced by a helper object with tolerance 1e-11 and accepted only if an independent evaluation
#    of the quantity the solver tests at start-up (true residual; preconditioned residual for left preconditioning) is <= tol / 4.  "Unchanged"
#    is value equality (x + 0 may turn -0.0 into +0.0, which the property does not forbid).
#  * NaNs compare equal to NaNs regardless of payload; everything else is bitwise.
#  * LGMRES with always_reset = false is exercised (memory / exception oracles apply) but exempt from equality, as documented.
PROPS['C15'] = dict(
    level='exploration', jobs=c15_jobs,
    rule='history scripts over one make_solver<runtime::preconditioner, runtime::solver::wrapper> object: 13 solver variants (8 solvers x sides, + LGMRES always_reset=false) x 6 preconditioners '
         '(3 AMG cells, relaxation, dummy, nested) x seeded scripts (quick 5 of length 6, thorough 400 of length 4..20) mixing solves (4 right-hand sides x 3 initial guesses), zero right-hand side, '
         'converged initial guess, failing calls (NaN / Inf / overflowing right-hand side, NaN guess, singular alternative matrix), alternative-matrix solves, precond().apply, make_solver::apply and '
         'rebuild; plus solver objects with a harness preconditioner that throws in the middle of a solve (sub throwing: within the first applications; sub midsolve: on the k-th application with k drawn after at least one complete restart cycle / BiCGStab(L) sweep / IDR(s) space of a short-cycle configuration, followed by ordinary solves), LGMRES with always_reset switched from false back to true between calls (equality demanded again from the first such call), and skyline_lu histories. A case is non-trivial when its whole script ran; '
         'distinct = distinct (sub-check, configuration, script) descriptor. Matrices: 5-point diffusion / convection-diffusion, n = 120..400.',
    exhaustive_note='the 13 x 6 (solver variant, preconditioner) grid is enumerated completely; scripts are sampled',
    min_nontrivial=dict(quick=300, thorough=25000),
    assumptions=COMMON_ASSUME + ['bitwise equality is demanded single-threaded only'],
    technique='differential oracle over call histories: reused object vs freshly constructed object, bitwise; inputs held in mprotect-ed read-only pages and digested after every call; ASan/UBSan/LeakSanitizer on the same scripts',
    level_text='After every step of every script the same call is made on a freshly constructed object and (iterations, residual, solution) are compared bitwise; zero right-hand side, converged initial guess and '
               'input immutability are checked directly (right-hand sides and user matrices live in read-only pages, so a write faults). Held means no observed history showed a difference; unobserved histories are not covered.',
    level_note='single thread; builtin<double> backend only; deflated_solver and block / complex value types are not exercised here; LGMRES(always_reset=false) exempt from equality by the property')
