from framework.registry import target, job, PROPS, COMMON_ASSUME

# ---------------------------------------------------------------------------
# C16 direct and dense kernels are exact
# ---------------------------------------------------------------------------
# Oracle notes:
#  * skyline_lu in floating point is compared with the *backward-stability* bound of LU without pivoting
#    (Higham, Accuracy and Stability of Numerical Algorithms, Thm 9.4 + 9.9 / 10.7) on matrix classes for
#    which that bound is rigorous under every symmetric reordering (row-dd, column-dd, Hermitian p.d.); the
#    property asks for "backward-stable accuracy", nothing sharper is demanded.
#  * exact modes: boost::rational (throws <=> a leading principal minor of the reordered matrix vanishes,
#    otherwise the residual is exactly zero) and dyadic data in double (all pivots +-2^k => every intermediate
#    value is representable => the double computation is exact).
#  * zero pivot for block values is demanded only for an all-zero pivot block (math::is_zero); a singular
#    non-zero block is not a "zero pivot" in the sense of the property text.
#  * object reuse: qr_reuse runs histories of 2..8 factorize / solve calls of varying shape, order and kind on ONE QR object
#    (each step: the oracles above + bitwise equality with a fresh object); every skyline_lu object solves f, f2, f again
#    (third result bitwise the first); detail::inverse is stateless, its scratch buffers are reused dirty -- catches seeded C16-6.
#  * cuthill_mckee: only "is a permutation" (the property says nothing about bandwidth).
#  * n = 0 is not fed to skyline_lu / cuthill_mckee (they write perm[0] unconditionally; the property
#    quantifies over matrices, an empty system is not one the coarse level can produce).
target('c16', ['harness/c16_direct.cpp'])
def c16_jobs(tier):
    q = tier == 'quick'
    js = [job('direct-plain-t1', 'c16', 'plain', threads=1, shards=8, timeout=3600),
          job('direct-asan-t1', 'c16', 'asan', threads=1, shards=8, args=['--cm-stride=%d' % (8 if q else 1)], timeout=5400),
          job('direct-plain-t4', 'c16', 'plain', threads=4, args=['--sub', 'skyline_random,cm_random'], timeout=3600)]
    return js
PROPS['C16'] = dict(
    level='exploration', jobs=c16_jobs,
    rule='exhaustive: all 2^12 off-diagonal patterns of 4x4 matrices x {row-dd, column-dd, Hermitian p.d.} x {double, complex, 2x2 block} through skyline_lu, the same 4096 patterns with two integer value assignments each in exact rational arithmetic, all directed graphs on <= 5 vertices (with / without diagonal) through both Cuthill-McKee variants, all QR shapes 1..12 x 1..12 x both storage orders x {double, complex, float}; random: 9 pattern families (directed, symmetric, disconnected with interleaved labels, upper/lower-only, arrow, grid, one-way cycle, dense) up to 40 (60) unknowns with value types double/float/complex/2x2/3x3 blocks, dyadic integer systems, inverses of 7 kinds of n<=8 matrices incl. zero diagonals / vanishing leading minors, random graphs with several components. A case is non-trivial when the matrix has off-diagonal entries (skyline), is not the zero matrix (QR) or not the identity fallback (inverse); distinct = distinct (sub-check, descriptor) hash.',
    exhaustive_note='skyline_exhaustive (4x4 patterns), skyline_exact (4x4 patterns, rational), cm_exhaustive (<= 5 vertices; asan quick tier: every 8th batch on 5 vertices), qr shapes',
    min_nontrivial=dict(quick=20000, thorough=80000),
    assumptions=COMMON_ASSUME + ['boost::rational<long long> arithmetic is exact for the small integer systems used (no overflow: n <= 6, |a_ij| <= 3)'],
    technique='dense complex-long-double reference model with derived backward-error bounds, exact rational / dyadic arithmetic, exhaustive small-pattern enumeration, under plain -O2 and ASan/UBSan',
    level_text='skyline_lu, detail::inverse / math::inverse, detail::QR, static_matrix arithmetic and both Cuthill-McKee variants are executed on exhaustively enumerated small structures and seeded random inputs; results are compared with dense long double references under the textbook backward-error bounds, or exactly (rationals, dyadic integers, integer identities). Held means no observed execution violated the definition.',
    level_note='floating-point oracles can only see errors above the rigorous rounding bound (about 1e3..1e5 ulp); exact modes cover small systems only; default_direct_solver.hpp is not instantiable in this tree (it calls a non-existent inverse(crs)) and is not exercised')
