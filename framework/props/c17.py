from framework.registry import target, job, PROPS, COMMON_ASSUME

# ---------------------------------------------------------------------------
# C17 matrix adapters preserve the operator; input row order does not matter
# ---------------------------------------------------------------------------
# Oracle notes (HARNESS_GUIDE rule 4):
#  * adapters: rows/cols/nonzeros, row iteration and the CRS conversion are compared exactly with the
#    source arrays; SpMV exactly on integer data and with 2 (k+4) eps sum|a||x| on real data.  The
#    block_matrix adapter is only fed sorted rows (documented precondition, docs/components/adapters.rst)
#    and its nonzeros() is documented as an estimate, so it is not compared.  Eigen / uBLAS containers keep
#    their rows sorted, so they are compared with sorted sources only (Eigen::Map over user arrays also
#    with unsorted ones).
#  * compositions (seeded C17-5): block_matrix<2,3,4> over crs_builder, tuples with every index type, iterator ranges, zero_copy,
#    zero_copy_direct, shared crs, Eigen Map / compressed / uncompressed, uBLAS; reorder<> over crs_builder, zero_copy, Eigen;
#    scale_diagonal over Eigen (over crs_builder / crs it does not compile: scaled_matrix::row_iterator needs a Base(A, i)
#    constructor).  Every adapter additionally gets the two-iterators probe: two row iterators of the same adapted matrix
#    alive at once, advanced alternately, must both reproduce their source rows (exact comparison).
#  * reorder / scale: the mapped-back solution is checked against the ORIGINAL system with the C01 oracle
#    for solvers that recompute the residual on exit (FGMRES): |res - true| <= max(1e-6 true,
#    8 u (maxrow+3)(|| |A||x| || + ||f||)/||f||).  For scale_diagonal the solver works in the scaled norm, so
#    "true" is ||S(f - A x)|| / ||S f|| (S = diag |a_ii|^-1/2) evaluated by the harness, and the residual in
#    the original norm is bounded by sqrt(max a_ii / min a_ii) times that.
#  * row order: relative 1e-12 on the extracted action (DESIGN 5/C17), asserted only when two builds
#    from the identical sorted input reproduce each other (heap garbage poisoned differently): a
#    constructor that reads uninitialised memory (F3, Ruge-Stuben) is C10's finding, not a row-order one.
#    Runs at 1 and 2 threads: the level-scheduled Gauss-Seidel (>= 4 threads) has the F4 race, a C09 matter.
target('c17a', ['harness/c17_adapters.cpp'])
target('c17r', ['harness/c17_roworder.cpp'])

def c17_jobs(tier):
    q = tier == 'quick'
    js = [job('adapters-plain-t1', 'c17a', 'plain', threads=1, shards=2 if q else 8, timeout=3600),
          job('adapters-asan-t1', 'c17a', 'asan', threads=1, shards=4 if q else 12, timeout=5400),
          job('adapters-plain-t4', 'c17a', 'plain', threads=4, args=['--sub', 'adapters,block_adapter,zerocopy'], timeout=3600),
          job('roworder-plain-t1', 'c17r', 'plain', threads=1, shards=2 if q else 8, timeout=3600),
          # (separate processes: an assertion abort in one coupled-preconditioner case must not cost the other sub-checks their ASan run)
          job('roworder-asan-t1', 'c17r', 'asan', threads=1, shards=3 if q else 10, args=['--sub', 'roworder_relax,roworder_amg'], timeout=5400),
          job('roworder-coupled-asan-t1', 'c17r', 'asan', threads=1, shards=2 if q else 6, args=['--sub', 'roworder_exhaustive,roworder_coupled'], timeout=5400)]
    if not q:
        js += [job('roworder-plain-t2', 'c17r', 'plain', threads=2, shards=4, timeout=3600),
               job('adapters-asan-t4', 'c17a', 'asan', threads=4, shards=3, args=['--sub', 'adapters,block_adapter,zerocopy'], timeout=5400)]
    return js

PROPS['C17'] = dict(
    level='exploration', jobs=c17_jobs,
    rule='adapters: seeded square matrices (1..300 rows, sorted and unsorted rows, integer- or real-valued) presented through tuples of std::vector / iterator ranges with index types int, long, unsigned, size_t, ptrdiff_t (and mixed), crs, shared_ptr<crs>, crs_builder, Eigen::SparseMatrix (compressed and uncompressed), Eigen::Map (int / ptrdiff_t), uBLAS compressed_matrix; block_adapter: block_matrix<2,3,4> over tuple, crs and every other scalar adapter (compositions) + unblock; every adapter with two row iterators alive at once; zerocopy: zero_copy / zero_copy_direct with signed and unsigned 64-bit and 32-bit indices on rectangular matrices, every 4th case builds an AMG hierarchy and an FGMRES solver on the user memory; reorder / scale: operator identities on random matrices, every 3rd case a solve on a G1 / G2 / G3 matrix (60..800 unknowns, thorough ..3000); roworder_exhaustive: see exhaustive_subspaces; roworder_*: G1/G2/G3/random diagonally dominant matrices (20..750 unknowns) and reservoir-like block systems, rows shuffled randomly or reversed, for as_preconditioner<9 relaxations>, amg<4 coarsenings x 9 relaxations (runtime wrappers)>, cpr, cpr_drs, schur_pressure_correction (types 1,2), make_solver. Non-trivial: the matrix stores entries (adapters) / the hierarchy has >= 2 levels (roworder_amg) / every class compared (roworder_relax: 9, roworder_coupled: 5 per case).',
    exhaustive_note='roworder_exhaustive: every order of the entries within each row of a 3x3 full matrix (216 orders), a 4x4 cyclic tridiagonal matrix (1296) and a 2-cell 2-phase block system (1296), for as_preconditioner<9 relaxations>, amg, cpr, cpr_drs, schur_pressure_correction (types 1, 2)',
    min_nontrivial=dict(quick=2500, thorough=15000),
    require_obs=dict(quick=['zero_copy_cases', 'adapter_compositions', 'two_iterator_probes', 'reorder_solves', 'scale_solves', 'actions_compared', 'permutations_enumerated'], thorough=['zero_copy_cases', 'adapter_compositions', 'two_iterator_probes', 'reorder_solves', 'scale_solves', 'actions_compared', 'permutations_enumerated']),
    assumptions=COMMON_ASSUME,
    technique='reference-model oracle (source arrays, long-double SpMV, P A P^T and D^-1/2 A D^-1/2 formulas, truthful-residual oracle on the original system) + differential oracle sorted vs shuffled rows on the extracted preconditioner action + pointer-identity / ownership monitor for zero-copy under ASan+LSan',
    level_text='Every adapter named by the property presents seeded matrices to the library; sizes, complete row iteration, CRS conversion and SpMV are compared with the source, zero-copy variants are checked for pointer identity, ownership and untouched user memory under AddressSanitizer, reorder<> and scale_diagonal are checked entry-wise against their formulas and by solving and mapping the solution back to the original system, and every preconditioner class that accepts a user matrix is built from sorted and from row-shuffled input and compared through its extracted action. Held means: no observed execution deviated; it is not a proof for unobserved inputs.',
    level_note='Epetra adapter not installed; permutations of row entries are sampled (random and reversed), not enumerated; row-order independence is asserted to 1e-12 relative, not bitwise; thread counts >= 4 are left to C09 for the Gauss-Seidel schedule')
