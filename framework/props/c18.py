from framework.registry import target, job, PROPS, COMMON_ASSUME

# ---------------------------------------------------------------------------
# C18 composite preconditioners realise their block formulas
# ---------------------------------------------------------------------------
# Oracle notes:
#  * inner solvers / preconditioners are harness classes (dense long double LU) satisfying the USolver / PSolver /
#    PPrecond / SPrecond concepts; they record the matrices they are constructed with.  With them the composite
#    is a fixed linear operator that is extracted on unit vectors and compared with the dense formula of the
#    documentation (docs/components/preconditioners.rst); tolerances are first-order rounding bounds computed from
#    the norms of the blocks involved (stated next to each oracle in the harness).
#  * CPR-DRS: sub-check cpr_drs_rule evaluates the dynamic-row-sum rule densely (eps_dd diagonal-dominance test and eps_ps
#    pressure-coupling test per non-pressure equation, absent entries count as 0, decisions closer than 1e-12 relative are
#    not judged) on >= 40 cells incl. cells lacking the in-cell pressure-column entry, and builds the same object with
#    1, 4 and 8 OpenMP threads (weights, pressure matrix, action bitwise equal) -- catches seeded C09-5.  The older cpr_drs
#    sub-check keeps the weaker documented semantics (weight or 0, zero thresholds drop nothing, App = Fpp A).
#  * the matrix-free Schur operator is checked directly through backend::spmv (alpha in {1,-1,2,0.5}, beta in {0,1,-1}) and
#    backend::residual at random x, and type 1 / 2 exactness is repeated with inner pressure solvers that re-evaluate the true
#    residual at non-zero iterates (gmres(2), fgmres(3), richardson; tol 1e-12; weakly coupled systems with
#    ||P^-1 (S - P)|| < 1/2 so that convergence is guaranteed) -- catches seeded C18-5.
#  * block-input cpr / cpr_drs: partial_update histories (unchanged matrix bitwise; perturbed matrix without / with transfer
#    update against the scalar twin, a fresh object and the formula) -- catches seeded C18-6.
#  * scalar-vs-block CPR is compared to a rounding bound (the property says "identically"; a correct block
#    implementation may order the b x b elimination differently); bitwise agreement is recorded as an observation.
#  * input rows are sorted (unsorted rows are C17 / finding F13).
target('c18', ['harness/c18_composite.cpp'])
def c18_jobs(tier):
    q = tier == 'quick'
    return [job('composite-plain-t1', 'c18', 'plain', threads=1, shards=8, timeout=3600),
            job('composite-asan-t1', 'c18', 'asan', threads=1, shards=8, timeout=5400),
            job('composite-plain-t4', 'c18', 'plain', threads=4, shards=2, args=['--sub', 'schur_exact,cpr,cpr_drs,deflated', '--stride=%d' % (3 if q else 5)], timeout=3600),
            job('drs-rule-plain-t4', 'c18', 'plain', threads=4, shards=2, args=['--sub', 'cpr_drs_rule'], timeout=3600),
            job('drs-rule-plain-t8', 'c18', 'plain', threads=8, args=['--sub', 'cpr_drs_rule,cpr_drs', '--stride=2'], timeout=3600)]
PROPS['C18'] = dict(
    level='exploration', jobs=c18_jobs,
    rule='G8 systems from seeded generators: saddle-point matrices [[A,B1],[B2,C]] (6..40 unknowns, A dominant, B2 = B1^T or independent, C absent / -cI / dominant / explicitly stored zero diagonal) scattered by interleaved, prefix, suffix and random pressure masks given as struct, pattern string or pointer, all of type 1/2 x adjust_p 0/1/2 x simplec_dia x approx_schur; multi-phase block systems (block size 2..4, 2..14 cells, optional unstructured tail with active_rows) for cpr / cpr_drs with identity, SPAI-0 and exact global stage, thresholds and weights; 40..96-cell systems with random eps_dd / eps_ps and missing in-cell pressure couplings for the dense dynamic-row-sum rule, each built with 1, 4 and 8 threads; 5-point / 9-point / 7-point diffusion and upwind convection-diffusion (200..1500 unknowns) with 1..5 deflation vectors for deflated_solver with AMG, SPAI-0 and identity preconditioners and CG / BiCGStab. Every case is non-trivial (np, nu > 0; at least two cells); distinct = distinct (sub-check, descriptor) hash.',
    min_nontrivial=dict(quick=1200, thorough=10000),
    assumptions=COMMON_ASSUME + ['the harness-side exact inner solvers (dense long double LU) are trusted'],
    technique='recording / exact harness-side inner components + dense long-double block formulas; operators extracted on unit vectors; friend accessor for the transfer operators; plain -O2 (1, 4 and 8 threads, plus in-process 1/4/8-thread builds of cpr_drs) and ASan/UBSan',
    level_text='schur_pressure_correction, cpr, cpr_drs and deflated_solver are instantiated with exact, recording inner components; their actions, the sub-matrices they build and their transfer operators are compared with the dense formulas of the documentation on seeded saddle-point, multi-phase and diffusion systems. Held means no observed configuration deviated from its formula beyond the stated rounding bound.',
    level_note='inner solves are exact by construction, so the statements are about the composition, not about convergence with real inner solvers; only the builtin backend; matrices up to 40 (composites) / 1500 (deflation) unknowns')
