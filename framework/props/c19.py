from framework.registry import target, job, PROPS, COMMON_ASSUME

# ---------------------------------------------------------------------------
# C19 matrix/vector files round-trip exactly; bad files fail cleanly
# ---------------------------------------------------------------------------
# Oracle notes (why nothing here asks for more than the property):
#  * round trips compare bit patterns of what the real writer wrote and the real reader returned;
#    hand-written (symmetric / foreign-format) files print doubles with >= 17 significant digits, which
#    strtod maps back to the same double, so the dense expansion is known exactly.
#  * fault enumeration accepts "throws std::exception" or "returns a result that passes the CRS monitor";
#    only the fault classes named in the property (truncation before the last data line, damaged banner,
#    wrong value kind, sizes inconsistent with the data) are required to throw.
#  * every faulted read runs in a forked child (1 OpenMP thread), so a crash is attributed to the exact
#    fault (key <reader>:crash) and the enumeration goes on.
target('c19', ['harness/c19_io.cpp'])
def c19_jobs(tier):
    q = tier == 'quick'
    return [job('io-asan', 'c19', 'asan', threads=1, shards=8, timeout=2400),
            job('io-plain', 'c19', 'plain', threads=1, shards=4, timeout=2400),
            job('io-vg', 'c19', 'vg', threads=1, shards=2 if q else 4, valgrind=True, args=['--stride=%d' % (6 if q else 4), '--child-timeout-ms=20000', '--bin-flips=0'], vgargs=['--show-mismatched-frees=no'], timeout=3600)]
PROPS['C19'] = dict(
    level='exploration', jobs=c19_jobs,
    rule='round trips: seeded random sparse (0..100% dense, 1..40 rows/cols, sorted or shuffled rows) and dense data of types double/float/complex<double>/complex<float>/int/long long with values drawn from {random bit patterns, denormals, +-max, +-min, +-0, 17-digit decimals, small integers}; every row range for n <= 6, 9 ranges otherwise; symmetric (lower/upper) and foreign-format files written by the harness. Faults: every truncation point and every byte x 8 replacements of 9 small MatrixMarket files, every truncation point and every single-bit flip of header/ptr/col regions of 3 binary files, plus an explicit list of must-throw files. A case is non-trivial when the matrix stores at least one entry (round trips) / always (fault batches); distinct = distinct (sub-check, descriptor) hash.',
    exhaustive_note='mm_faults (all truncation points, all bytes x 8 replacements of 9 files), bin_faults (all truncation points, all single-bit flips of header+ptr+col of 3 files), all row ranges for n <= 6',
    min_nontrivial=dict(quick=1600, thorough=10000),
    require_obs=dict(quick=['truncation_points', 'bytes_corrupted', 'bits_flipped', 'memcheck_processes'], thorough=['truncation_points', 'bytes_corrupted', 'bits_flipped', 'memcheck_processes']),
    assumptions=COMMON_ASSUME + ['printing a double with 17 significant digits and reading it back with strtod is the identity (IEEE 754 / glibc), used only for the harness-written symmetric and foreign-format files'],
    technique='bitwise differential (write with the real writer, read with the real reader) + exhaustive single-fault enumeration on small files with a CRS well-formedness monitor, each faulted read isolated in a child process, under ASan/UBSan, plain -O2 and memcheck',
    level_text='Every reader/writer named by the property is executed on seeded data of all supported value kinds and on an exhaustively enumerated single-fault neighbourhood (truncation, byte replacement, bit flip) of small valid files; results are compared bitwise with what was written or checked by a structural monitor, and the same reads run under ASan+UBSan and valgrind. Held means no observed read violated the property; multi-byte damage and large files are not explored.',
    level_note='trusts the harness-side monitor and the sanitizer runtimes; faults are single truncations / single bytes / single bits of small files')
