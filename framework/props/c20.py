from framework.registry import target, job, PROPS, COMMON_ASSUME

# ---------------------------------------------------------------------------
# C20 the C interface (0- and 1-based) gives the C++ results
# ---------------------------------------------------------------------------
# lib/amgcl.cpp is compiled into the harness binary (second translation unit of the target), so an edit of
# lib/amgcl.cpp or lib/amgcl.h rebuilds it.  Sub-checks of harness/c20_capi.cpp:
#   precond     create / apply / report / destroy   C handle vs C++ amg<runtime, runtime>, 1-based vs 0-based
#   solver      create / solve / solve_mtx / report / destroy   C handle vs C++ make_solver, 1-based vs 0-based
#   typed_twin  C API (setters and/or JSON file) vs COMPILE-TIME composed solver with a field-by-field filled
#               params struct (exactly representable values): "parameters reach the solver unchanged"
#   maxiter     maxiter = k, tol = 1e-30  ->  exactly k iterations (cg, bicgstab, gmres, fgmres, richardson)
#   lifecycle   create/destroy pairs incl. failing creates; LeakSanitizer at process exit
# Every array given to the C API is an exact-size heap block (ASan red zones on both sides).
# Oracle notes: all comparisons are between executions of one binary at one thread; exceptions raised by the
# library for a parameter set (e.g. IDR(s) breakdown) must occur identically on both sides and are counted, not judged
# (truthfulness of the solve belongs to C01/C05).  LSAN max_leaks keeps a leak report short enough for the driver's
# triage (it reads the tail of stderr).
target('c20', ['harness/c20_capi.cpp', '{repo}/lib/amgcl.cpp'], flags=['-I{repo}/lib'])

def c20_jobs(tier):
    return [job('capi-plain', 'c20', 'plain', threads=1, shards=8, timeout=3600),
            job('capi-asan', 'c20', 'asan', threads=1, shards=8, timeout=7200, env={'LSAN_OPTIONS': 'max_leaks=4'})]   # ASan + UBSan + LSan (detect_leaks=1)

PROPS['C20'] = dict(
    level='exploration', jobs=c20_jobs,
    rule=('one case = one generated system (5/7/9-point diffusion, shifted diffusion, upwind convection-diffusion; 36-900 unknowns; 40% of them with the entries of every row randomly permuted or reversed = valid CRS with unsorted rows, the replacement matrix of solve_mtx permuted independently) and one random parameter set '
          'expressible through the C API (component names via sets, integers/booleans via seti, reals via setf or as text, a random subset moved into a JSON file '
          'written by the harness, sometimes overridden by a setter; every 36th/54th case passes a NULL parameter handle). precond cases cycle through all 36 '
          '(coarsening, relaxation) cells, solver cases through the 9 solvers x 4 coarsenings. Non-trivial: the result is finite and the solve moved x '
          '(typed_twin / maxiter: at least one iteration; lifecycle: at least one create/destroy pair). distinct = distinct (sub-check, descriptor) hash.'),
    exhaustive_note='all 16 functions of lib/amgcl.h are called; all 36 (coarsening, relaxation) cells and all 9 solver names through both index bases',
    min_nontrivial=dict(quick=800, thorough=8000),
    require_obs=dict(quick=['create_destroy_pairs', 'failing_creates', 'unsorted_row_systems'], thorough=['create_destroy_pairs', 'failing_creates', 'unsorted_row_systems']),
    assumptions=COMMON_ASSUME + ['Boost.PropertyTree / read_json are trusted (both sides of the differential use them)'],
    technique=('differential oracle, bitwise: C handle API vs the equivalent C++ run-time classes with the same property-tree operations, 1-based vs 0-based entry points, '
               'and C API vs a compile-time composed solver with typed parameters; behavioural maxiter oracle; ASan/UBSan on exact-size heap blocks; LeakSanitizer on create/destroy pairs'),
    level_text=('Every entry point of lib/amgcl.h is executed on seeded systems and parameter sets and compared bitwise with the C++ interface; the 1-based entry points run on exact-size '
                'heap arrays under ASan; leaks of create/destroy pairs are checked at exit. Held means no observed execution deviated.'),
    level_note='only the double-precision builtin back end exists behind the C API; the Fortran module and the Python/other bindings are not exercised; thread counts > 1 are not used for the bitwise comparison')
