from framework.registry import target, job, PROPS, COMMON_ASSUME

# ---------------------------------------------------------------------------
# C20 the C interface (0- and 1-based) gives the C++ results
# ---------------------------------------------------------------------------
# lib/amgcl.cpp is compiled into the harness binary (second translation unit of the target).
target('c20', ['harness/c20_capi.cpp', '{repo}/lib/amgcl.cpp'], flags=['-I{repo}/lib'])

def c20_jobs(tier):
    return [job('capi-plain', 'c20', 'plain', threads=1, shards=8, timeout=3600),
            job('capi-asan', 'c20', 'asan', threads=1, shards=8, timeout=7200)]      # ASan + UBSan + LSan (detect_leaks=1)

PROPS['C20'] = dict(
    level='exploration', jobs=c20_jobs,
    rule='TODO', min_nontrivial=dict(quick=100, thorough=1000),
    assumptions=COMMON_ASSUME, technique='TODO', level_text='TODO', level_note='TODO')
