"""Registry of harness targets and per-property job lists."""

TARGETS = {}
PROPS = {}

def target(name, sources, flags=(), libs=()):
    TARGETS[name] = dict(name=name, sources=list(sources), flags=list(flags), libs=list(libs))

def job(name, target, flavour='plain', args=(), threads=1, shards=1, timeout=1800, **kw):
    d = dict(name=name, target=target, flavour=flavour, args=list(args), threads=threads, shards=shards, timeout=timeout)
    d.update(kw); return d

COMMON_ASSUME = [
    'g++ 12.2 / clang 14 code generation and the sanitizer runtimes are trusted',
    'the dense long-double reference algebra in /verif/include/vf (Eigen) is trusted as the definition',
    'the universal quantifier is sampled (exhaustive only where coverage.exhaustive_subspaces says so)',
]


def load_all():
    import importlib, pkgutil, os
    d = os.path.join(os.path.dirname(os.path.abspath(__file__)), 'props')
    for m in sorted(pkgutil.iter_modules([d]), key=lambda m: m.name):
        importlib.import_module('framework.props.' + m.name)

load_all()
