"""Process fan-out, watchdogs, event-log parsing, sanitizer-log triage."""
import os, re, json, time, signal, subprocess, threading, tempfile, shutil, glob

NCPU = 16

def normfunc(s):
    """Strip template arguments and parameter lists from a demangled name."""
    out = []; depth = 0
    for ch in s:
        if ch in '<(': depth += 1
        elif ch in '>)': depth = max(0, depth - 1)
        elif depth == 0: out.append(ch)
    r = ''.join(out).strip()
    r = re.sub(r'\s*\[clone.*$', '', r)
    r = re.sub(r'\._omp_fn\.\d+', '', r)
    r = re.sub(r'\.omp_outlined\.?[_\d]*', '', r)
    r = re.sub(r'^(const|static|virtual|inline|void|bool|int|long|unsigned|double|float|auto)\s+', '', r)
    # return type prefix like "std::shared_ptr amgcl::..." -> keep the last token that contains amgcl::
    toks = r.split()
    for t in toks:
        if 'amgcl::' in t or t.startswith('amgcl_'): return t
    return toks[-1] if toks else r

_FRAME = re.compile(r'^\s*#\d+\s+0x[0-9a-f]+\s+in\s+(.*?)\s+(/\S+|\S+:\d+.*|\(.*\))?$')
_VGFRAME = re.compile(r'^==\d+==\s+(?:at|by) 0x[0-9A-F]+: (.*?) \((.*?)\)\s*$')
# ThreadSanitizer frames have no address part:  "#0 func /path/file.hpp:353:34 (binary+0xf80f0) (BuildId: ...)"
_TSFRAME = re.compile(r'^\s*#\d+\s+(.*?)\s+(/\S+?:\d+(?::\d+)?)\s+\(')

def first_amgcl_frame_tsan(lines):
    first = None
    for ln in lines:
        m = _TSFRAME.match(ln.rstrip())
        if not m: continue
        fn, loc = m.group(1), m.group(2)
        if first is None: first = fn
        if 'amgcl/' in loc or 'amgcl::' in fn or '/lib/amgcl' in loc:
            f = normfunc(fn)
            if 'omp_outlined' in fn or not f or 'amgcl' not in f:
                path = loc.split(':')[0]
                f = path[path.find('amgcl/'):] if 'amgcl/' in path else os.path.basename(path)
            return f
    return normfunc(first) if first else 'unknown'

def first_amgcl_frame(lines, fmt='san'):
    first = None
    for ln in lines:
        m = (_FRAME if fmt == 'san' else _VGFRAME).match(ln.rstrip())
        if not m: continue
        fn = m.group(1)
        if first is None: first = fn
        if 'amgcl::' in fn or fn.startswith('amgcl_') or 'amgcl/' in (m.group(2) or ''):
            return normfunc(fn)
    return normfunc(first) if first else 'unknown'

def triage_stderr(text):
    """Return (kind, func) for a sanitizer / assertion / signal report in stderr, or None."""
    lines = text.splitlines()
    for i, ln in enumerate(lines):
        m = re.search(r'ERROR: AddressSanitizer: ([\w-]+)', ln)
        if m: return ('asan:' + m.group(1), first_amgcl_frame(lines[i:i + 60]))
        m = re.search(r'ERROR: LeakSanitizer', ln)
        if m: return ('lsan:leak', first_amgcl_frame(lines[i:i + 60]))
        m = re.search(r'(\S+:\d+):\d+: runtime error: (.*)', ln)
        if m:
            what = re.sub(r'0x[0-9a-f]+', 'ADDR', m.group(2)); what = re.sub(r'-?\d+(\.\d+)?(e[+-]?\d+)?', 'N', what)[:60]
            loc = m.group(1); loc = loc[loc.find('amgcl/'):] if 'amgcl/' in loc else os.path.basename(loc)
            return ('ubsan:' + what.strip().replace(' ', '_'), loc)
        m = re.search(r'(\S+):(\d+): (.*): Assertion `(.*)\' failed', ln)
        if m:
            loc = m.group(1); loc = loc[loc.find('amgcl/'):] if 'amgcl/' in loc else os.path.basename(loc)
            return ('assert', '%s:%s' % (loc, normfunc(m.group(3))))
        m = re.search(r"terminate called after throwing an instance of '(.*)'", ln)
        if m: return ('terminate', m.group(1))
    return None

def parse_tsan_logs(prefix):
    reps = []
    for f in glob.glob(prefix + '*'):
        try: txt = open(f, errors='replace').read()
        except OSError: continue
        for blk in txt.split('=================='):
            if 'WARNING: ThreadSanitizer' not in blk: continue
            kind = re.search(r'WARNING: ThreadSanitizer: ([^\(\n]+)', blk).group(1).strip().replace(' ', '-')
            # the stacks: split on blank lines; take first amgcl frame of first two stacks
            stacks = [s for s in re.split(r'\n\s*\n', blk) if '#0' in s]
            fs = sorted(set(first_amgcl_frame_tsan(s.splitlines()) for s in stacks[:2]))
            reps.append(('tsan:' + kind, '|'.join(fs), blk.strip()[:3000]))
    return reps

def parse_valgrind_log(path):
    reps = []
    try: txt = open(path, errors='replace').read()
    except OSError: return reps
    blocks = re.split(r'\n==\d+== \n', txt)
    for blk in blocks:
        m = re.search(r'==\d+== (Conditional jump or move depends on uninitialised value|Use of uninitialised value|Invalid read|Invalid write|Invalid free|Mismatched free|Syscall param .* uninitialised|Source and destination overlap|.* (?:definitely|indirectly) lost)', blk)
        if not m: continue
        kind = m.group(1)
        kind = re.sub(r'[\d,]+ bytes in [\d,]+ blocks are ', '', kind)
        kind = kind.replace(' ', '-')[:50]
        lines = blk.splitlines()
        # only the first stack (up to the origin section)
        main = []
        for ln in lines:
            if 'Uninitialised value was created' in ln or 'Address 0x' in ln: break
            main.append(ln)
        fn = first_amgcl_frame(main, 'vg')
        if 'amgcl' not in fn and 'amgcl' not in blk: continue   # not through library code
        reps.append(('vg:' + kind, fn, blk.strip()[:3000]))
    return reps

class ProcResult:
    def __init__(self): self.events = []; self.rc = None; self.timed_out = False; self.stderr = ''; self.wall = 0; self.extra = []; self.cmd = []; self.env = {}

def run_proc(cmd, env, outfile, timeout, nranks=0):
    r = ProcResult(); r.cmd = cmd; r.env = env
    e = dict(os.environ); e.update(env); e['VF_OUT'] = outfile
    errf = outfile + '.stderr'
    t0 = time.time()
    with open(errf, 'w') as ef:
        p = subprocess.Popen(cmd, env=e, stdout=ef, stderr=subprocess.STDOUT, start_new_session=True)
        try:
            p.wait(timeout=timeout)
        except subprocess.TimeoutExpired:
            r.timed_out = True
            try: os.killpg(p.pid, signal.SIGKILL)
            except OSError: pass
            p.wait()
    r.rc = p.returncode; r.wall = time.time() - t0
    try: r.stderr = open(errf, errors='replace').read()[-200000:]
    except OSError: pass
    files = [outfile] if not nranks else [outfile + '.%d' % k for k in range(nranks)]
    r.per_file = []
    for f in files:
        evs = []
        try:
            for ln in open(f, errors='replace'):
                ln = ln.strip()
                if not ln: continue
                try: evs.append(json.loads(ln))
                except ValueError: pass     # torn last line of a crashed process
        except OSError: pass
        r.per_file.append(evs); r.events.extend(evs)
    return r

class Scheduler:
    """Run callables with a cpu weight, never exceeding NCPU in flight."""
    def __init__(self, ncpu=NCPU): self.ncpu = ncpu; self.used = 0; self.cv = threading.Condition()
    def run_all(self, tasks):
        # tasks: list of (weight, fn) ; returns results in order
        res = [None] * len(tasks); ths = []
        def worker(i, w, fn):
            try: res[i] = fn()
            except Exception as ex: res[i] = ex
            finally:
                with self.cv: self.used -= w; self.cv.notify_all()
        for i, (w, fn) in enumerate(tasks):
            w = min(w, self.ncpu)
            with self.cv:
                while self.used + w > self.ncpu: self.cv.wait()
                self.used += w
            t = threading.Thread(target=worker, args=(i, w, fn)); t.start(); ths.append(t)
        for t in ths: t.join()
        return res
