// C01 -- a reported convergence is truthful (DESIGN.md 5/C01).
// One translation unit: amg<builtin<double>, runtime coarsening, runtime relaxation> + runtime solver wrapper covers
// 4 coarsenings x 9 relaxations x 8 solvers x both preconditioning sides through boost::property_tree.
// Sub-checks
//   cells      : convergence clause + truthfulness + iteration bound on the G1 model sub-family, every cell x 12 (solver, side) pairs
//   truthful   : random (family, cell, cycle/level parameters, x0, tolerance, budget) calls over G1 (any contrast), G2, G3, G5;
//                held to (a) truthfulness and (b) the iteration bound only
//   richardson : n <= 300, B extracted densely from precond().apply; iterate after k steps == dense recurrence; rate == rho(I - w B A)
// The truthful-residual oracle, its rounding bounds and its scope rules (amplifying preconditioner, smoother outside its domain, overflow,
// a-posteriori conditioning probe) live in include/vf/krylov.hpp (vf::check_truthful); condition-number bounds in include/vf/cond.hpp.
// Options: --stride=N (run every N-th case: reduced asan / multi-thread jobs), --debug=1 (print every monitored call).
#include <amgcl/backend/builtin.hpp>
#include <amgcl/adapter/crs_tuple.hpp>
#include <amgcl/amg.hpp>
#include <amgcl/make_solver.hpp>
#include <amgcl/solver/runtime.hpp>
#include <amgcl/coarsening/runtime.hpp>
#include <amgcl/relaxation/runtime.hpp>
#include <amgcl/preconditioner/runtime.hpp>
#include <vf/hooks.hpp>
#include <vf/dense.hpp>
#include <vf/krylov.hpp>
#include <vf/cond.hpp>
#include <boost/property_tree/json_parser.hpp>
#include <omp.h>

using vf::Csr; using vf::J; using vf::Rng; using vf::Case; using vf::Cond; using vf::CallSpec; using vf::SolverCfg;
typedef amgcl::backend::builtin<double> B;
typedef amgcl::amg<B, amgcl::runtime::coarsening::wrapper, amgcl::runtime::relaxation::wrapper> AMG;
typedef amgcl::make_solver<AMG, amgcl::runtime::solver::wrapper<B>> Solver;
// weak preconditioners (relaxation::as_preconditioner, dummy, single-level amg) come through the run-time preconditioner class
typedef amgcl::make_solver<amgcl::runtime::preconditioner<B>, amgcl::runtime::solver::wrapper<B>> SolverRt;
typedef boost::property_tree::ptree ptree;

static const char *COARS[4] = {"aggregation", "smoothed_aggregation", "smoothed_aggr_emin", "ruge_stuben"};
static const char *RELAX[9] = {"damped_jacobi", "spai0", "spai1", "gauss_seidel", "ilu0", "iluk", "ilup", "ilut", "chebyshev"};

// Probe estimate of ||P||_2 (a lower estimate): the gain ||P v|| / ||v|| over (i) three seeded random vectors (the rounding noise that P amplifies is
// unstructured: ~ ||P||_F / sqrt(n)), (ii) the final residual direction, (iii) eight steps of the power iteration v <- P v / ||P v|| started from a
// random vector -- Krylov methods excite exactly the dominant directions of P, and a diverging smoother shows up there within a few steps.
template <class ApplyP> static double probe_precond_norm(const Csr<double> &A, ApplyP applyP, const std::vector<double> &f, const std::vector<double> &x) {
    Rng r(0x5eed ^ A.n); double g = 0; std::vector<double> z(A.n), v;
    auto gain = [&](const std::vector<double> &w) -> double { double nv = vf::norm2(w); if (!(nv > 0) || !std::isfinite(nv)) return 0.0; std::fill(z.begin(), z.end(), 0.0); applyP(w, z); double nz = vf::norm2(z); return std::isfinite(nz) ? nz / nv : std::numeric_limits<double>::infinity(); };
    for (int k = 0; k < 4; ++k) {
        if (k < 3) v = vf::random_vector(A.n, r); else { auto y = vf::spmv_ld(A, x); v.resize(A.n); for (size_t i = 0; i < A.n; ++i) v[i] = (double)((long double)f[i] - y[i]); }
        double gk = gain(v); if (!std::isfinite(gk)) return gk; g = std::max(g, gk);
    }
    v = vf::random_vector(A.n, r);
    for (int k = 0; k < 8; ++k) { double gk = gain(v); if (!std::isfinite(gk)) return gk; g = std::max(g, gk); double nz = vf::norm2(z); if (!(nz > 0)) break; for (size_t i = 0; i < A.n; ++i) v[i] = z[i] / nz; }
    return g;
}

struct Problem { Csr<double> A; std::string family; J desc; Cond K; bool model = false; int block = 1; };

static Problem gen_problem(Rng &r, int fam, size_t nmax) {
    Problem P;
    switch (fam) {
    case 0: { vf::GridSpec g; bool three = r.coin(0.3); double n = r.uni(150, (double)nmax);
        if (three) { int s = std::max(4, (int)std::cbrt(n)); g.nx = s + (int)r.range(0, 2); g.ny = s; g.nz = std::max(3, s - (int)r.range(0, 2)); }
        else { int s = std::max(8, (int)std::sqrt(n)); g.nx = s + (int)r.range(0, 5); g.ny = std::max(6, s - (int)r.range(0, 3)); g.nine = r.coin(0.25); }
        g.contrast = r.logu(1, 1e3); g.aniso = r.logu(1e-3, 1);
        P.A = vf::grid_diffusion(g, r); P.family = "grid"; P.desc = J().n("nx", g.nx).n("ny", g.ny).n("nz", g.nz).n("contrast", g.contrast).n("aniso", g.aniso).bl("nine", g.nine); break; }
    case 1: { vf::GridSpec g; P.A = vf::model_problem(r, 500, (int)std::max<size_t>(600, nmax), &g); P.family = "grid-model"; P.model = true;
        P.desc = J().n("nx", g.nx).n("ny", g.ny).n("nz", g.nz).n("contrast", g.contrast).n("aniso", g.aniso).bl("nine", g.nine); break; }
    case 2: { size_t n = r.range(100, (long)std::min<size_t>(nmax, 2000)); double deg = r.uni(3, 8); bool geo = r.coin(), sh = r.coin();
        P.A = vf::graph_laplacian(n, deg, r, geo, sh); P.family = "graph"; P.desc = J().n("avgdeg", deg).bl("geometric", geo).bl("shift_all", sh); break; }
    case 3: { int nx = (int)r.range(10, (long)std::max(12.0, std::sqrt((double)nmax))), ny = (int)r.range(10, (long)std::max(12.0, std::sqrt((double)nmax))); double pe = r.logu(0.1, 50); bool sn = r.coin(0.4);
        P.A = vf::convdiff(nx, ny, pe, r, sn); P.family = sn ? "convdiff-structnonsym" : "convdiff"; P.desc = J().n("nx", nx).n("ny", ny).n("peclet", pe); break; }
    default: { vf::GridSpec g; int s = (int)r.range(8, (long)std::max(10.0, std::sqrt((double)nmax / 3))); g.nx = s + (int)r.range(0, 3); g.ny = s; g.contrast = r.logu(1, 30); g.aniso = r.logu(0.05, 1);
        Csr<double> Base = vf::grid_diffusion(g, r); int b = (int)r.range(2, 3); std::vector<double> C = vf::spd_block(b, r);
        P.A = vf::kron(Base, C, b); P.family = "kron"; P.block = b; P.desc = J().n("nx", g.nx).n("ny", g.ny).n("b", b).n("contrast", g.contrast).n("aniso", g.aniso);
        if (P.A.n > 400) { Cond Kb = cond_of(Base); Eigen::MatrixXd Cd(b, b); for (int i = 0; i < b * b; ++i) Cd(i / b, i % b) = C[i]; Eigen::JacobiSVD<Eigen::MatrixXd> svd(Cd);
            P.K.normA = Kb.normA * svd.singularValues()[0]; P.K.normAinv = Kb.normAinv / svd.singularValues()[b - 1]; P.K.how = "kron(m-matrix-bound, svd)"; return P; }
        break; }
    }
    P.K = cond_of(P.A);
    return P;
}

//---------------------------------------------------------------------------
static void put_solver(ptree &p, const SolverCfg &s, double tol, size_t maxiter) {
    p.put("solver.type", s.type); p.put("solver.tol", tol); p.put("solver.maxiter", maxiter);
    if (s.has_side) p.put("solver.pside", s.left ? "left" : "right");
}
static size_t nlevels(const Solver &S) { return amgcl::verif::access::levels(S.precond()).size(); }
static size_t nlevels(const SolverRt &) { return 0; }

struct Outcome { bool threw = false; std::string what; size_t iters = 0; double res = 0, tru = 0; size_t levels = 0; };

// one monitored call: construct make_solver from the tree, call operator()(rhs, x), evaluate oracles (a) and (b)
template <class SolverT>
static Outcome monitored_solve_t(Case &c, const Csr<double> &A, const Cond &K, const ptree &p, const CallSpec &cs,
                                 const std::vector<double> &f, const std::vector<double> &x0, const std::string &cell, bool cheb_outside_domain) {
    Outcome o; std::vector<double> x = x0;
    try {
        SolverT S(A.tie(), p); o.levels = nlevels(S);
        std::vector<double> fcopy = f;
        std::tie(o.iters, o.res) = S(fcopy, x);
        auto applyP = [&](const std::vector<double> &r, std::vector<double> &z) { S.precond().apply(r, z); };
        Cond Kc = K; Kc.normP = probe_precond_norm(A, applyP, f, x);
        // the Chebyshev smoother is built for symmetric positive definite spectra (Adams et al. 2003, cited in chebyshev.hpp); on the non-symmetric families
        // its evaluation is numerically unstable (measured: BiCGStab(L) gap 1e5 u ||A|| ||x0|| with ||P|| = 1.4): only explicit right-side residuals are held there
        Kc.smoother_outside_domain = cheb_outside_domain;
        if (vf::opt_int("debug", 0)) { std::ostringstream ps; boost::property_tree::write_json(ps, p.get_child("solver"), false); fprintf(stderr, "%s: iters=%zu res=%g normA=%g normAinv=%g normP~%g %s", vf::cfg_name(cs.cfg).c_str(), o.iters, o.res, K.normA, K.normAinv, Kc.normP, ps.str().c_str()); }
        if (Kc.normP > 10 * K.normAinv) vf::obs_sum("calls_with_preconditioner_norm_above_10x_inverse_norm");
        vf::Rerun<double> rerun = [&](const std::vector<double> &f2, std::vector<double> &x2) { try { SolverT S2(A.tie(), p); S2(f2, x2); return true; } catch (const std::exception &) { return false; } };
        vf::check_truthful(c, cs, A, f, x0, x, o.iters, o.res, Kc, applyP, "", &o.tru, rerun);
        vf::obs_sum("solves"); vf::obs_add("cells_covered", cell + "+" + vf::cfg_name(cs.cfg));
    } catch (const std::exception &e) { o.threw = true; o.what = e.what(); vf::obs_sum("exceptions_not_counted_as_violation"); }
    return o;
}
static Outcome monitored_solve(Case &c, const Csr<double> &A, const Cond &K, const ptree &p, const CallSpec &cs,
                               const std::vector<double> &f, const std::vector<double> &x0, const std::string &tag = "", bool symmetric = true) {
    (void)tag; std::string rl = p.get<std::string>("precond.relax.type");
    return monitored_solve_t<Solver>(c, A, K, p, cs, f, x0, p.get<std::string>("precond.coarsening.type") + "+" + rl, !symmetric && rl == "chebyshev");
}

//---------------------------------------------------------------------------
// cells: the convergence clause.  idx = ((problem * 4 + coarsening) * 9 + relaxation) * nvariants + variant
//---------------------------------------------------------------------------
static void sub_cells() {
    const int nprob = (int)vf::tier(2, 6), nvar = (int)vf::tier(1, 3);
    long stride = vf::opt_int("stride", 1);
    for (int pi = 0; pi < nprob; ++pi) {
        Problem P; std::vector<double> f; bool made = false;
        for (int ci = 0; ci < 4; ++ci) for (int ri = 0; ri < 9; ++ri) for (int v = 0; v < nvar; ++v) {
            long idx = ((long)(pi * 4 + ci) * 9 + ri) * nvar + v;
            if (!vf::selected("cells", idx) || (idx / nvar) % stride != 0) continue;
            if (!made) {   // the problem is a function of (seed, problem index) only, shared by its 36 cells
                Rng r(vf::case_seed("cells_problem", pi)); vf::GridSpec g;
                int lo[6] = {3000, 500, 1500, 6000, 12000, 800}, hi[6] = {6000, 1500, 3000, 9000, 20000, 2500};
                P.A = vf::model_problem(r, lo[pi % 6], hi[pi % 6], &g); P.family = "grid-model"; P.model = true;
                P.desc = J().n("nx", g.nx).n("ny", g.ny).n("nz", g.nz).n("contrast", g.contrast).n("aniso", g.aniso).bl("nine", g.nine);
                P.K = cond_of(P.A); f = vf::random_vector(P.A.n, r); made = true;
            }
            const Csr<double> &A = P.A; size_t ce = std::min<size_t>(400, std::max<size_t>(50, A.n / 10));
            Case c("cells", idx, J().s("family", P.family).n("problem", pi).n("n", A.n).n("nnz", A.nnz()).s("coarsening", COARS[ci]).s("relaxation", RELAX[ri]).n("variant", v).n("coarse_enough", ce).o("grid", P.desc));
            std::vector<double> x0(A.n, 0.0); size_t levels = 0; int maxit_seen = 0; bool nt = false;
            for (const SolverCfg &s : vf::SOLVER_CFGS) {
                ptree p; p.put("precond.coarsening.type", COARS[ci]); p.put("precond.relax.type", RELAX[ri]); p.put("precond.coarse_enough", ce);
                if (v == 1) p.put("precond.ncycle", 2);
                if (v == 2) { p.put("precond.npre", 2); p.put("precond.npost", 2); }
                CallSpec cs; cs.cfg = s; cs.tol = 1e-8; cs.maxiter = 100; cs.L = 2;
                put_solver(p, s, cs.tol, cs.maxiter);     // default tolerance and default budget, written out explicitly
                Outcome o = monitored_solve(c, A, P.K, p, cs, f, x0);
                const std::string key = "convergence:" + vf::cfg_name(s);
                if (o.threw) { c.check(false, key, "exception on a model problem (no convergence reported): " + o.what); continue; }
                levels = o.levels;
                bool rich = std::string(s.type) == "richardson";
                if (!rich) {
                    c.check(std::isfinite(o.res) && o.res < 1e-8 && o.iters < 100, key, "documented combination did not reach the default tolerance inside the default budget on a model problem",
                            J().n("iters", o.iters).n("reported", o.res).n("true", o.tru));
                    maxit_seen = std::max<int>(maxit_seen, (int)o.iters); vf::obs_max("max_krylov_iterations_on_model_problems", (double)o.iters);
                    if (o.iters >= 2) nt = true;
                } else {
                    // stationary iteration: must converge (contract); reaching 1e-8 within 100 steps is not demanded of it (rate clause: sub richardson)
                    bool conv = std::isfinite(o.res) && (o.res < 1e-8 || (o.iters == 100 && o.res < 1.0));
                    c.check(conv, key, "Richardson iteration did not reduce the residual on a model problem", J().n("iters", o.iters).n("reported", o.res));
                    if (!(o.res < 1e-8)) vf::obs_sum("richardson_cells_not_at_1e-8_after_100");
                }
            }
            if (levels >= 2 && nt) c.nontrivial();
            vf::sample("cells", J().s("coarsening", COARS[ci]).s("relaxation", RELAX[ri]).n("n", A.n).n("levels", levels).n("max_krylov_iters", maxit_seen).n("kappa_bound", P.K.kappa()).s("kappa_how", P.K.how));
        }
    }
    vf::obs_set("model_subfamily", "vf::model_problem: 5/7/9-point diffusion, contrast <= 10, anisotropy >= 0.1, 500 <= n <= 2e4; coarse_enough = clamp(n/10, 50, 400)");
}

//---------------------------------------------------------------------------
// truthful: random calls held to (a) and (b) only
//---------------------------------------------------------------------------
static void random_precond(ptree &p, Rng &r, const Problem &P, int ci, int ri, bool wide) {
    p.put("precond.coarsening.type", COARS[ci]); p.put("precond.relax.type", RELAX[ri]);
    p.put("precond.coarse_enough", (int)r.pick(std::vector<int>{10, 30, 80, 200, 500}));
    if (!wide) return;
    if (r.coin(0.3)) p.put("precond.ncycle", 2);
    int npre = (int)r.range(0, 3), npost = (int)r.range(0, 3); if (npre + npost == 0) npost = 1;
    if (r.coin(0.5)) { p.put("precond.npre", npre); p.put("precond.npost", npost); }
    if (r.coin(0.2)) p.put("precond.pre_cycles", (int)r.pick(std::vector<int>{0, 2}));
    if (r.coin(0.2)) p.put("precond.direct_coarse", false);
    if (r.coin(0.25)) p.put("precond.max_levels", (int)r.range(1, 3));
    if (ci != 3 && P.block > 1 && r.coin(0.6)) p.put("precond.coarsening.aggr.block_size", P.block);
    if (ci != 3 && r.coin(0.2)) p.put("precond.coarsening.aggr.eps_strong", r.pick(std::vector<double>{0.0, 0.02, 0.2}));
    if (ci == 3 && r.coin(0.3)) p.put("precond.coarsening.eps_strong", r.pick(std::vector<double>{0.1, 0.5}));
    std::string rl = RELAX[ri];
    if (rl == "iluk" && r.coin()) p.put("precond.relax.k", 2);
    if (rl == "ilup" && r.coin()) p.put("precond.relax.k", 2);
    if (rl == "damped_jacobi" && r.coin()) p.put("precond.relax.damping", r.pick(std::vector<double>{0.5, 0.9}));
    if (rl == "chebyshev" && r.coin()) p.put("precond.relax.degree", (int)r.pick(std::vector<int>{2, 3, 8}));
    if (rl == "gauss_seidel" && r.coin(0.3)) p.put("precond.relax.serial", true);
}
// every solver parameter that changes the arithmetic is drawn, including the rarely set ones (reliable updates of BiCGStab(L), IDR(s) smoothing /
// replacement / omega, LGMRES K / always_reset, short restarts, Richardson damping, check_after, abstol, ns_search)
static void random_solver_extras(ptree &p, Rng &r, const SolverCfg &s, CallSpec &cs, bool zero_rhs) {
    std::string t = s.type;
    if (t == "gmres" || t == "fgmres") { if (r.coin(0.6)) p.put("solver.M", (int)r.pick(std::vector<int>{1, 2, 5, 10, 30})); }
    if (t == "lgmres") { if (r.coin(0.6)) { p.put("solver.M", (int)r.pick(std::vector<int>{1, 3, 5, 10, 30})); p.put("solver.K", (int)r.range(0, 4)); } if (r.coin(0.3)) p.put("solver.always_reset", false); }
    if (t == "bicgstabl") { if (r.coin(0.7)) { cs.L = (int)r.pick(std::vector<int>{1, 2, 3, 4}); p.put("solver.L", cs.L); } if (r.coin(0.3)) p.put("solver.convex", false);
        if (r.coin(0.6)) { cs.delta = r.pick(std::vector<double>{1e-3, 1e-2, 1e-1}); p.put("solver.delta", cs.delta); } }
    if (t == "idrs") { if (r.coin(0.7)) p.put("solver.s", (int)r.range(1, 8)); if (r.coin(0.4)) p.put("solver.smoothing", true); if (r.coin(0.4)) p.put("solver.replacement", true); if (r.coin(0.4)) p.put("solver.omega", r.pick(std::vector<double>{0.0, 0.3, 0.9})); }
    if (t == "bicgstab") { if (r.coin(0.3)) p.put("solver.check_after", true); }
    if (t == "richardson") { if (r.coin(0.5)) p.put("solver.damping", r.pick(std::vector<double>{0.3, 0.5, 0.8, 1.2})); }
    if (r.coin(0.15)) p.put("solver.abstol", r.pick(std::vector<double>{1e-30, 1e-9, 1e-4}));       // absolute target: an earlier (truthful) exit
    cs.ns_search = zero_rhs || r.coin(0.1); if (cs.ns_search) p.put("solver.ns_search", true);   // with a non-zero rhs the flag must not change anything
}

// weak preconditioners: Krylov residual histories are non-monotone, budgets are exhausted, reliable-update logic is exercised
static const char *WEAK[7] = {"relaxation:spai0", "relaxation:damped_jacobi", "relaxation:ilu0", "relaxation:gauss_seidel", "relaxation:chebyshev", "dummy", "amg:max_levels=1"};
static void weak_precond(ptree &p, Rng &r, int k) {
    switch (k) {
    case 0: case 1: case 2: case 3: case 4: { static const char *t[5] = {"spai0", "damped_jacobi", "ilu0", "gauss_seidel", "chebyshev"}; p.put("precond.class", "relaxation"); p.put("precond.type", t[k]); break; }
    case 5: p.put("precond.class", "dummy"); break;
    default: p.put("precond.class", "amg"); p.put("precond.max_levels", 1); p.put("precond.coarse_enough", 10); p.put("precond.relax.type", r.pick(std::vector<std::string>{"spai0", "damped_jacobi", "gauss_seidel", "ilu0"}));
             p.put("precond.coarsening.type", "smoothed_aggregation"); if (r.coin()) { p.put("precond.npre", (int)r.range(1, 2)); p.put("precond.npost", (int)r.range(0, 2)); } break;
    }
}

static void sub_truthful() {
    long N = vf::tier(48, 1200); long stride = vf::opt_int("stride", 1);
    for (long idx = 0; idx < N; ++idx) {
        if (!vf::selected("truthful", idx) || idx % stride != 0) continue;
        Rng r(vf::case_seed("truthful", idx));
        int fam = (int)(idx % 5); bool small = (idx / 5) % 3 == 0;             // a third of the cases have n <= 400 (exact kappa_2)
        // every third case uses a weak preconditioner (as_preconditioner / dummy / single-level amg), half of them on convection-diffusion
        int weak = idx % 3 == 2 ? (int)((idx / 3) % 7) : -1; if (weak >= 0) fam = (idx / 21) % 2 ? 3 : (int)((idx / 42) % 2);
        if (weak == 4 && fam == 3) fam = 1;                                     // Chebyshev stays inside its (SPD) domain here
        size_t nmax = small ? 400 : (weak >= 0 ? 2500 : (vf::thorough() ? 8000 : 4000));
        Problem P = gen_problem(r, fam, nmax); const Csr<double> &A = P.A;
        int ci = (int)((idx / 5 + idx) % 4), ri = (int)((idx / 3 + 2 * idx) % 9);   // every cell is visited as idx runs
        ptree pp; if (weak >= 0) weak_precond(pp, r, weak); else random_precond(pp, r, P, ci, ri, true);
        const std::string cname = weak >= 0 ? "-" : COARS[ci], rname = weak >= 0 ? WEAK[weak] : RELAX[ri];
        // right-hand side and initial guess
        std::vector<double> xs = vf::random_vector(A.n, r), f(A.n), x0(A.n, 0.0);
        int fkind = (int)r.range(0, 2); if (idx % 16 == 5) fkind = 3;          // zero right-hand side, solved with ns_search = true (null-space search mode: residual relative to 1)
        if (fkind == 3) std::fill(f.begin(), f.end(), 0.0); else
        if (fkind == 0) f = vf::random_vector(A.n, r); else { auto y = vf::spmv_ld(A, xs); for (size_t i = 0; i < A.n; ++i) f[i] = (double)y[i]; if (fkind == 2) for (auto &v : f) v *= 1e-5; }
        int xkind = (int)r.range(0, 3); if (fkind == 3) xkind = 1;
        if (xkind == 1) x0 = vf::random_vector(A.n, r);
        else if (xkind == 2) { double sc = r.logu(1e-2, 1e3); x0 = vf::random_vector(A.n, r); for (auto &v : x0) v *= sc; }
        else if (xkind == 3) { for (size_t i = 0; i < A.n; ++i) x0[i] = xs[i] * (fkind == 2 ? 1e-5 : 1.0) * (1 + 1e-3 * r.uni(-1, 1)); }   // close to the solution when f = A xs
        std::ostringstream ps; boost::property_tree::write_json(ps, pp, false);
        Case c("truthful", idx, J().s("family", P.family).n("n", A.n).n("nnz", A.nnz()).s("coarsening", cname).s("relaxation", rname).n("rhs_kind", fkind).n("x0_kind", xkind)
               .n("kappa_bound", P.K.kappa()).s("kappa_how", P.K.how).o("gen", P.desc).s("precond_params", ps.str()));
        size_t levels = 0; bool any = false; int nexc = 0;
        for (const SolverCfg &s : vf::SOLVER_CFGS) {
            for (int rep = 0; rep < 2; ++rep) {
                ptree p = pp; CallSpec cs; cs.cfg = s; cs.L = 2;
                cs.tol = r.pick(std::vector<double>{1e-4, 1e-6, 1e-8}); cs.maxiter = rep == 0 ? 100 : (size_t)r.range(3, 9);   // converged and budget-limited exits
                put_solver(p, s, cs.tol, cs.maxiter); random_solver_extras(p, r, s, cs, fkind == 3);
                bool nonsym = P.family.rfind("convdiff", 0) == 0;
                Outcome o = weak >= 0 ? monitored_solve_t<SolverRt>(c, A, P.K, p, cs, f, x0, rname, nonsym && weak == 4)
                                      : monitored_solve(c, A, P.K, p, cs, f, x0, "", !nonsym);
                if (o.threw) { ++nexc; vf::obs_add("exception_texts", o.what.substr(0, 60)); continue; }
                levels = std::max(levels, o.levels); if (o.iters >= 1 && std::isfinite(o.res)) any = true;
                if (rep == 0 && idx < 40) vf::sample("truthful", J().s("family", P.family).n("n", A.n).s("cell", cname + "+" + rname + "+" + vf::cfg_name(s)).n("tol", cs.tol).n("maxiter", cs.maxiter).n("iters", o.iters).n("reported", o.res).n("true", o.tru), 6);
            }
        }
        // reliable-update sweep: with a weak preconditioner BiCGStab(L) is run for every delta > 0 and L in {1, 2, 4}, right side (the flush of the accumulated
        // correction is side-specific) and left side alternating, with the full budget
        if (weak >= 0) for (double dl : {1e-3, 1e-2, 1e-1}) for (int Lp : {1, 2, 4}) { const SolverCfg &s = vf::SOLVER_CFGS[(Lp == 2 && dl == 1e-2) ? 4 : 3];
            ptree p = pp; CallSpec cs; cs.cfg = s; cs.L = Lp; cs.delta = dl; cs.tol = 1e-8; cs.maxiter = (size_t)r.pick(std::vector<int>{100, 300}); cs.ns_search = fkind == 3;
            put_solver(p, s, cs.tol, cs.maxiter); p.put("solver.L", Lp); p.put("solver.delta", dl); if (cs.ns_search) p.put("solver.ns_search", true);
            Outcome o = monitored_solve_t<SolverRt>(c, A, P.K, p, cs, f, x0, rname, P.family.rfind("convdiff", 0) == 0 && weak == 4); if (!o.threw && o.iters >= 1) any = true; vf::obs_sum("reliable_update_sweep_solves"); }
        if (any) c.nontrivial();
        vf::obs_add("families_seen", P.family);
    }
}

//---------------------------------------------------------------------------
// richardson: iterate == dense recurrence, rate == rho(I - w B A)
//---------------------------------------------------------------------------
static void sub_richardson() {
    const int nprob = (int)vf::tier(1, 6); long stride = vf::opt_int("stride", 1);
    for (int pi = 0; pi < nprob; ++pi) for (int ci = 0; ci < 4; ++ci) for (int ri = 0; ri < 9; ++ri) {
        long idx = (long)(pi * 4 + ci) * 9 + ri;
        if (!vf::selected("richardson", idx) || idx % stride != 0) continue;
        Rng r(vf::case_seed("richardson", idx));
        vf::GridSpec g; if (r.coin(0.25)) { g.nx = (int)r.range(5, 6); g.ny = (int)r.range(5, 6); g.nz = (int)r.range(4, 7); } else { g.nx = (int)r.range(10, 17); g.ny = (int)r.range(10, 17); g.nine = r.coin(0.25); }
        g.contrast = r.coin(0.3) ? 1.0 : r.logu(1, 10); g.aniso = r.coin(0.5) ? 1.0 : r.logu(0.1, 1);
        Csr<double> A = vf::grid_diffusion(g, r); size_t n = A.n;
        double w = (idx % 2) ? r.pick(std::vector<double>{0.8, 0.6, 1.1}) : 1.0;
        ptree pp; pp.put("precond.coarsening.type", COARS[ci]); pp.put("precond.relax.type", RELAX[ri]); pp.put("precond.coarse_enough", (int)r.range(15, 40));
        int variant = pi % 4; if (variant == 1) pp.put("precond.ncycle", 2); if (variant == 2) { pp.put("precond.npre", 2); pp.put("precond.npost", 1); } if (variant == 3) pp.put("precond.pre_cycles", 2);
        Case c("richardson", idx, J().s("family", "grid-model-small").n("n", n).n("nnz", A.nnz()).s("coarsening", COARS[ci]).s("relaxation", RELAX[ri]).n("damping", w).n("variant", variant)
               .n("nx", g.nx).n("ny", g.ny).n("nz", g.nz).n("contrast", g.contrast).n("aniso", g.aniso));
        try {
            auto mk = [&](size_t k) { ptree p = pp; p.put("solver.type", "richardson"); p.put("solver.tol", 0.0); p.put("solver.maxiter", k); p.put("solver.damping", w); return p; };
            vf::LD Ad = vf::to_dense(A); vf::LD Bd; size_t levels = 0;
            { Solver S(A.tie(), mk(1)); levels = nlevels(S); Bd = vf::extract_operator(n, [&](const std::vector<double> &e, std::vector<double> &x) { S.precond().apply(e, x); }); }
            vf::LD E = vf::LD::Identity(n, n) - (long double)w * (Bd * Ad);
            if (!(vf::maxabs(Bd) < 1e300)) { c.fail("richardson:nonfinite-preconditioner", "precond().apply produced non-finite values on a small model problem"); }
            else {
            // --- recurrence clause, k = 1..8, random rhs and x0 != 0
            std::vector<double> f = vf::random_vector(n, r), x0 = vf::random_vector(n, r);
            vf::LV fv = vf::to_lv(f), xr = vf::to_lv(x0); vf::LD absB = Bd.cwiseAbs(), absA = Ad.cwiseAbs(); vf::LV absf = fv.cwiseAbs();
            long double G = 1, gmax = 0; { vf::LD Ep = vf::LD::Identity(n, n); for (int m = 1; m <= 8; ++m) { Ep = Ep * E; G = std::max(G, Ep.cwiseAbs().rowwise().sum().maxCoeff()); } }
            const double u = 1.1102230246251565e-16;
            for (size_t k = 1; k <= 8; ++k) {
                { vf::LV gj = absB * (absA * xr.cwiseAbs() + absf) + xr.cwiseAbs(); gmax = std::max(gmax, gj.cwiseAbs().maxCoeff()); }
                { vf::LV res = fv - Ad * xr; xr = xr + (long double)w * (Bd * res); }
                Solver S(A.tie(), mk(k)); std::vector<double> x = x0; size_t it; double rs; std::tie(it, rs) = S(f, x);
                long double err = 0; for (size_t i = 0; i < n; ++i) err = std::max(err, fabsl((long double)x[i] - xr[i]));
                // forward bound: every step evaluates a residual (u (row+2) (|A||x|+|f|)) and one cycle (a fixed sequence of O(100) sparse products / sweeps
                // whose entry-wise error is bounded by c u |B| |r|); the perturbations are propagated by powers of E (G = max_m ||E^m||_inf >= 1).
                long double bound = 1e3L * u * k * G * gmax;
                c.check(it == k, "richardson:iteration-count", "Richardson with tol = 0 did not perform exactly maxiter steps", J().n("k", k).n("iters", it));
                c.check((double)err <= (double)bound && std::isfinite((double)err), "richardson:iterate-differs-from-recurrence", "iterate after k steps differs from x <- x + w B (f - A x) repeated k times",
                        J().n("k", k).n("err", (double)err).n("bound", (double)bound).n("damping", w));
                vf::obs_max("richardson_max_err_over_bound", (double)(err / bound));
            }
            // --- rate clause
            Eigen::MatrixXd Ed = E.cast<double>(); Eigen::EigenSolver<Eigen::MatrixXd> es(Ed, false); double rho = 0; for (int i = 0; i < es.eigenvalues().size(); ++i) rho = std::max(rho, std::abs(es.eigenvalues()[i]));
            vf::obs_max("max_rho_I_minus_wBA", rho); vf::obs_min("min_rho_I_minus_wBA", rho);
            if (!c.check(std::isfinite(rho) && rho < 1.0, "richardson-rate:cycle-not-contracting", "rho(I - w B A) >= 1 on a small model problem: the stationary iteration cannot converge", J().n("rho", rho).n("damping", w))) {}
            else if (rho > 1e-6) {
                // window [k1, k2]: residual reduced by about 1e-3 at k1 and never below 1e-9 at k2 (rounding floor of the double iterates ~ u kappa);
                // a cycle that contracts faster than 1e-3 per step leaves no such window (counted, the recurrence clause above still holds it)
                long kcap = (long)std::floor(std::log(1e-9) / std::log(rho));
                if (kcap < 3) { vf::obs_sum("rate_clause_skipped_contraction_below_1e-3"); if (levels >= 2) c.nontrivial(); continue; }
                size_t k2 = (size_t)std::min<long>(80, kcap), k1 = (size_t)std::ceil(std::log(1e-3) / std::log(rho));
                k1 = std::max<size_t>(1, std::min<size_t>(k1, std::min<size_t>(40, k2 - 2)));
                std::vector<double> xs = vf::random_vector(n, r), f2(n), z0(n, 0.0); { auto y = vf::spmv_ld(A, xs); for (size_t i = 0; i < n; ++i) f2[i] = (double)y[i]; }
                vf::LV f2v = vf::to_lv(f2), xm = vf::LV::Zero(n); long double m1 = 0, m2 = 0;
                for (size_t k = 1; k <= k2; ++k) { vf::LV res = f2v - Ad * xm; xm = xm + (long double)w * (Bd * res); if (k == k1) { vf::LV rr = f2v - Ad * xm; m1 = rr.norm(); } if (k == k2) { vf::LV rr = f2v - Ad * xm; m2 = rr.norm(); } }
                double o1, o2; size_t i1, i2; { Solver S(A.tie(), mk(k1)); std::vector<double> x = z0; std::tie(i1, o1) = S(f2, x); } { Solver S(A.tie(), mk(k2)); std::vector<double> x = z0; std::tie(i2, o2) = S(f2, x); }
                double lm = std::log((double)(m2 / m1)) / (double)(k2 - k1), lo = std::log(o2 / o1) / (double)(k2 - k1), lr = std::log(rho);
                // observed per-step reduction must equal the one of the dense model over the same window (1 % in log scale) ...
                c.check(std::isfinite(lo) && std::fabs(lo - lm) <= 0.01 * std::fabs(lm) + 1e-9, "richardson-rate:observed-differs-from-model", "observed residual reduction per step differs from the dense model (I - w B A)^k over the same steps",
                        J().n("observed", std::exp(lo)).n("model", std::exp(lm)).n("rho", rho).n("k1", k1).n("k2", k2));
                // ... and, once the model itself is in its asymptotic regime (within 5 %), lie within 10 % of rho(I - w B A) in log scale
                if (std::fabs(lm / lr - 1) <= 0.05) { c.check(std::fabs(lo / lr - 1) <= 0.10, "richardson-rate:not-at-contraction-factor", "observed reduction factor is not within 10 % (log scale) of rho(I - w B A)", J().n("observed", std::exp(lo)).n("rho", rho).n("k1", k1).n("k2", k2));
                    vf::obs_sum("rate_clause_evaluated"); vf::obs_max("max_log_rate_deviation", std::fabs(lo / lr - 1)); }
                else vf::obs_sum("rate_window_not_asymptotic");
                vf::sample("richardson", J().s("coarsening", COARS[ci]).s("relaxation", RELAX[ri]).n("n", n).n("levels", levels).n("damping", w).n("rho", rho).n("observed_factor", std::exp(lo)).n("k1", k1).n("k2", k2));
            }
            if (levels >= 2) c.nontrivial();
            }
        } catch (const std::exception &e) { c.fail("exception:richardson", e.what()); }
    }
}

int main(int argc, char **argv) {
    vf::init(argc, argv);
    vf::obs_add("threads_seen", std::to_string(omp_get_max_threads()));
    if (vf::sub_enabled("cells")) sub_cells();
    if (vf::sub_enabled("truthful")) sub_truthful();
    if (vf::sub_enabled("richardson")) sub_richardson();
    return vf::finish();
}
