// C01 -- truthfulness and iteration bound for complex, block-valued and single-precision formulations (DESIGN.md 5/C01, thorough workload).
// One source, three targets:  -DC01_VT=1 complex<double>,  -DC01_VT=2 static_matrix<double,2,2> (and 3x3),  -DC01_VT=3 float.
// Same oracle as c01_truthful.cpp (vf/krylov.hpp) evaluated on the scalar form of the system with the harness's own copy of the matrix.
#include <amgcl/backend/builtin.hpp>
#include <amgcl/value_type/complex.hpp>
#include <amgcl/value_type/static_matrix.hpp>
#include <amgcl/adapter/crs_tuple.hpp>
#include <amgcl/adapter/block_matrix.hpp>
#include <amgcl/amg.hpp>
#include <amgcl/make_solver.hpp>
#include <amgcl/solver/runtime.hpp>
#include <amgcl/coarsening/runtime.hpp>
#include <amgcl/relaxation/runtime.hpp>
#include <vf/hooks.hpp>
#include <vf/cond.hpp>
#include <boost/property_tree/json_parser.hpp>
#include <omp.h>

#ifndef C01_VT
#  define C01_VT 1
#endif

using vf::Csr; using vf::J; using vf::Rng; using vf::Case; using vf::Cond; using vf::CallSpec; using vf::SolverCfg;
typedef boost::property_tree::ptree ptree;
static const char *COARS[4] = {"aggregation", "smoothed_aggregation", "smoothed_aggr_emin", "ruge_stuben"};
static const char *RELAX[9] = {"damped_jacobi", "spai0", "spai1", "gauss_seidel", "ilu0", "iluk", "ilup", "ilut", "chebyshev"};

template <class Backend> struct Stack {
    typedef amgcl::amg<Backend, amgcl::runtime::coarsening::wrapper, amgcl::runtime::relaxation::wrapper> AMG;
    typedef amgcl::make_solver<AMG, amgcl::runtime::solver::wrapper<Backend>> Solver;
};

static void put_all(ptree &p, Rng &r, int ci, int ri, const SolverCfg &s, CallSpec &cs) {
    p.put("precond.coarsening.type", COARS[ci]); p.put("precond.relax.type", RELAX[ri]); p.put("precond.coarse_enough", (int)r.pick(std::vector<int>{20, 60, 150}));
    if (r.coin(0.3)) p.put("precond.ncycle", 2); if (r.coin(0.3)) { p.put("precond.npre", (int)r.range(1, 2)); p.put("precond.npost", (int)r.range(1, 3)); }
    p.put("solver.type", s.type); p.put("solver.tol", cs.tol); p.put("solver.maxiter", cs.maxiter); if (s.has_side) p.put("solver.pside", s.left ? "left" : "right");
    std::string t = s.type;
    if (t == "bicgstabl" && r.coin()) { cs.L = (int)r.pick(std::vector<int>{1, 3, 4}); p.put("solver.L", cs.L); }
    if (t == "bicgstabl" && r.coin(0.3)) { cs.delta = 1e-2; p.put("solver.delta", cs.delta); }
    if (t == "idrs" && r.coin()) { p.put("solver.s", (int)r.range(1, 6)); if (r.coin(0.4)) p.put("solver.smoothing", true); }
    if ((t == "gmres" || t == "fgmres" || t == "lgmres") && r.coin()) p.put("solver.M", (int)r.pick(std::vector<int>{4, 10}));
}

// probe estimate of ||P|| (see c01_truthful.cpp): random vectors, the final residual, eight power-iteration steps
template <class S, class ApplyP> static double probe_norm(const Csr<S> &A, ApplyP applyP, const std::vector<S> &resid) {
    Rng r(0x5eed ^ A.n); double g = 0; std::vector<S> z(A.n), v(A.n);
    auto rnd = [&]() { for (auto &e : v) e = S((typename vf::ldtype<S>::real)r.uni(-1, 1)); };
    auto gain = [&](const std::vector<S> &w) -> double { double nv = (double)vf::norm2_ld(w); if (!(nv > 0) || !std::isfinite(nv)) return 0.0; std::fill(z.begin(), z.end(), S()); applyP(w, z); double nz = (double)vf::norm2_ld(z); return std::isfinite(nz) ? nz / nv : std::numeric_limits<double>::infinity(); };
    for (int k = 0; k < 4; ++k) { if (k < 3) rnd(); else v = resid; double gk = gain(v); if (!std::isfinite(gk)) return gk; g = std::max(g, gk); }
    rnd();
    for (int k = 0; k < 8; ++k) { double gk = gain(v); if (!std::isfinite(gk)) return gk; g = std::max(g, gk); double nz = (double)vf::norm2_ld(z); if (!(nz > 0)) break; for (size_t i = 0; i < A.n; ++i) v[i] = z[i] * S((typename vf::ldtype<S>::real)(1.0 / nz)); }
    return g;
}

// Generic monitored call.  MakeSolver builds the amgcl object; Call runs it on scalar vectors; Apply applies its preconditioner to scalar vectors.
template <class S, class Build>
static void monitored(Case &c, const Csr<S> &A, const Cond &K, const ptree &p, const CallSpec &cs, const std::vector<S> &f, const std::vector<S> &x0, Build build, bool &any) {
    try {
        auto H = build(p);                                    // shared_ptr to a holder with solve(f, x) and apply(r, z)
        std::vector<S> x = x0, fc = f; size_t iters; double res; std::tie(iters, res) = H->solve(fc, x);
        auto applyP = [&](const std::vector<S> &r, std::vector<S> &z) { H->apply(r, z); };
        Cond Kc = K; vf::Residual<S> R = vf::residual_ld(A, f, x); Kc.normP = R.finite ? probe_norm(A, applyP, R.r) : std::numeric_limits<double>::infinity();
        if (Kc.normP > 10 * K.normAinv) vf::obs_sum("calls_with_preconditioner_norm_above_10x_inverse_norm");
        vf::Rerun<S> rerun = [&](const std::vector<S> &f2, std::vector<S> &x2) { try { auto H2 = build(p); H2->solve(f2, x2); return true; } catch (const std::exception &) { return false; } };
        double tru = 0; vf::check_truthful(c, cs, A, f, x0, x, iters, res, Kc, applyP, "", &tru, rerun);
        vf::obs_sum("solves"); if (iters >= 1 && std::isfinite(res)) any = true;
        vf::obs_add("cells_covered", p.get<std::string>("precond.coarsening.type") + "+" + p.get<std::string>("precond.relax.type") + "+" + vf::cfg_name(cs.cfg));
        vf::sample("types", J().n("n", A.n).s("cell", p.get<std::string>("precond.coarsening.type") + "+" + p.get<std::string>("precond.relax.type") + "+" + vf::cfg_name(cs.cfg)).n("tol", cs.tol).n("maxiter", cs.maxiter).n("iters", iters).n("reported", res).n("true", tru), 4);
    } catch (const std::exception &e) { vf::obs_sum("exceptions_not_counted_as_violation"); vf::obs_add("exception_texts", std::string(e.what()).substr(0, 50)); }
}

#if C01_VT == 1
//--------------------------------------------------------------------------- complex<double>
typedef std::complex<double> Z; typedef amgcl::backend::builtin<Z> BK; static const char *VT = "complex";
struct Holder { Stack<BK>::Solver S; template <class Mt> Holder(const Mt &A, const ptree &p) : S(A, p) {}
    std::tuple<size_t, double> solve(const std::vector<Z> &f, std::vector<Z> &x) { return S(f, x); }
    void apply(const std::vector<Z> &r, std::vector<Z> &z) { S.precond().apply(r, z); } };
static void run_cases() {
    long N = vf::tier(12, 240);
    for (long idx = 0; idx < N; ++idx) {
        if (!vf::selected("complex", idx)) continue;
        Rng r(vf::case_seed("complex", idx)); bool small = idx % 2 == 0; vf::GridSpec g; int s = small ? (int)r.range(8, 18) : (int)r.range(25, 45); g.nx = s + (int)r.range(0, 3); g.ny = s; g.contrast = r.logu(1, 30); g.aniso = r.logu(0.05, 1);
        Csr<double> Ar = vf::grid_diffusion(g, r); Cond K = vf::cond_of(Ar); int kind = (int)(idx % 3); Csr<Z> A; std::string fam;
        if (kind == 0) { A = vf::complex_hermitian(Ar, r); fam = "hermitian-gauge"; }                       // D A D^H, D unitary diagonal: same singular values as A
        else { double sg = r.logu(0.05, 5); A = vf::complex_shifted(Ar, sg); fam = "shifted";                // A + i sigma I, A SPD: sigma_max = sqrt(lmax^2 + s^2), sigma_min >= lmin
               K.normA = std::sqrt(K.normA * K.normA + sg * sg);
               if (kind == 2) { A = vf::complex_hermitian(Ar, r); for (size_t i = 0; i < A.n; ++i) for (ptrdiff_t j = A.ptr[i]; j < A.ptr[i + 1]; ++j) if ((size_t)A.col[j] == i) A.val[j] += Z(0, sg); fam = "hermitian-gauge-shifted"; } }
        int ci = (int)(idx % 3), ri = (int)((idx / 3) % 9);      // ruge_stuben is not offered for non-scalar value types (the runtime wrapper throws)
        K.smoother_outside_domain = kind != 0 && std::string(RELAX[ri]) == "chebyshev";     // non-Hermitian spectrum: outside the Chebyshev smoother's domain (see c01_truthful.cpp)
        std::vector<Z> f(A.n), x0(A.n, Z(0)); for (auto &v : f) v = Z(r.uni(-1, 1), r.uni(-1, 1)); if (r.coin()) for (auto &v : x0) v = Z(r.uni(-1, 1), r.uni(-1, 1));
        Case c("complex", idx, J().s("value_type", VT).s("family", fam).n("n", A.n).n("nnz", A.nnz()).s("coarsening", COARS[ci]).s("relaxation", RELAX[ri]).n("kappa_bound", K.kappa()).n("contrast", g.contrast).n("aniso", g.aniso));
        bool any = false;
        for (const SolverCfg &sc : vf::SOLVER_CFGS) for (int rep = 0; rep < 2; ++rep) {
            CallSpec cs; cs.cfg = sc; cs.tol = r.pick(std::vector<double>{1e-4, 1e-6, 1e-8}); cs.maxiter = rep ? (size_t)r.range(3, 9) : 100; ptree p; put_all(p, r, ci, ri, sc, cs);
            monitored<Z>(c, A, K, p, cs, f, x0, [&](const ptree &pp) { return std::make_shared<Holder>(A.tie(), pp); }, any);
        }
        if (any) c.nontrivial();
    }
}
#elif C01_VT == 2
//--------------------------------------------------------------------------- block-valued 2x2 / 3x3
static const char *VT = "block";
template <int Bs> struct HolderB { typedef amgcl::static_matrix<double, Bs, Bs> Blk; typedef amgcl::backend::builtin<Blk> BK; typename Stack<BK>::Solver S;
    template <class Mt> HolderB(const Mt &A, const ptree &p) : S(amgcl::adapter::block_matrix<Blk>(A), p) {}
    std::tuple<size_t, double> solve(const std::vector<double> &f, std::vector<double> &x) { auto F = amgcl::backend::reinterpret_as_rhs<Blk>(f); auto X = amgcl::backend::reinterpret_as_rhs<Blk>(x); return S(F, X); }
    void apply(const std::vector<double> &r, std::vector<double> &z) { auto R = amgcl::backend::reinterpret_as_rhs<Blk>(r); auto Zv = amgcl::backend::reinterpret_as_rhs<Blk>(z); S.precond().apply(R, Zv); } };
struct HolderAny { std::function<std::tuple<size_t, double>(const std::vector<double>&, std::vector<double>&)> s; std::function<void(const std::vector<double>&, std::vector<double>&)> a;
    std::tuple<size_t, double> solve(const std::vector<double> &f, std::vector<double> &x) { return s(f, x); } void apply(const std::vector<double> &r, std::vector<double> &z) { a(r, z); } };
static void run_cases() {
    long N = vf::tier(12, 240);
    for (long idx = 0; idx < N; ++idx) {
        if (!vf::selected("block", idx)) continue;
        Rng r(vf::case_seed("block", idx)); bool small = idx % 2 == 0; int b = 2 + (int)((idx / 2) % 2); vf::GridSpec g; int s = small ? (int)r.range(6, 11) : (int)r.range(16, 30); g.nx = s + (int)r.range(0, 3); g.ny = s; g.contrast = r.logu(1, 30); g.aniso = r.logu(0.05, 1);
        Csr<double> Base = vf::grid_diffusion(g, r); std::vector<double> C = vf::spd_block(b, r); Csr<double> A = vf::kron(Base, C, b);
        Cond K; if (A.n <= 400) K = vf::cond_of(A); else { Cond Kb = vf::cond_of(Base); Eigen::MatrixXd Cd(b, b); for (int i = 0; i < b * b; ++i) Cd(i / b, i % b) = C[i]; Eigen::JacobiSVD<Eigen::MatrixXd> svd(Cd); K.normA = Kb.normA * svd.singularValues()[0]; K.normAinv = Kb.normAinv / svd.singularValues()[b - 1]; K.how = "kron(m-matrix-bound, svd)"; }
        { bool full = true; for (double v : C) if (v == 0) full = false; if (!full) { fprintf(stderr, "block generator produced an incomplete block\n"); exit(3); } }
        int ci = (int)(idx % 3), ri = (int)((idx / 3) % 9);      // ruge_stuben is not offered for non-scalar value types (the runtime wrapper throws)
        std::vector<double> f = vf::random_vector(A.n, r), x0(A.n, 0.0); if (r.coin()) x0 = vf::random_vector(A.n, r);
        Case c("block", idx, J().s("value_type", VT).n("block_size", b).n("n", A.n).n("nnz", A.nnz()).s("coarsening", COARS[ci]).s("relaxation", RELAX[ri]).n("kappa_bound", K.kappa()).n("contrast", g.contrast).n("aniso", g.aniso));
        bool any = false;
        for (const SolverCfg &sc : vf::SOLVER_CFGS) for (int rep = 0; rep < 2; ++rep) {
            CallSpec cs; cs.cfg = sc; cs.tol = r.pick(std::vector<double>{1e-4, 1e-6, 1e-8}); cs.maxiter = rep ? (size_t)r.range(3, 9) : 100; ptree p; put_all(p, r, ci, ri, sc, cs);
            monitored<double>(c, A, K, p, cs, f, x0, [&](const ptree &pp) { auto H = std::make_shared<HolderAny>();
                if (b == 2) { auto h = std::make_shared<HolderB<2>>(A.tie(), pp); H->s = [h](const std::vector<double> &ff, std::vector<double> &xx) { return h->solve(ff, xx); }; H->a = [h](const std::vector<double> &rr, std::vector<double> &zz) { h->apply(rr, zz); }; }
                else { auto h = std::make_shared<HolderB<3>>(A.tie(), pp); H->s = [h](const std::vector<double> &ff, std::vector<double> &xx) { return h->solve(ff, xx); }; H->a = [h](const std::vector<double> &rr, std::vector<double> &zz) { h->apply(rr, zz); }; }
                return H; }, any);
        }
        if (any) c.nontrivial();
    }
}
#else
//--------------------------------------------------------------------------- float backend
typedef amgcl::backend::builtin<float> BK; static const char *VT = "float";
struct Holder { Stack<BK>::Solver S; template <class Mt> Holder(const Mt &A, const ptree &p) : S(A, p) {}
    std::tuple<size_t, double> solve(const std::vector<float> &f, std::vector<float> &x) { size_t it; float rs; std::tie(it, rs) = S(f, x); return std::make_tuple(it, (double)rs); }
    void apply(const std::vector<float> &r, std::vector<float> &z) { S.precond().apply(r, z); } };
static void run_cases() {
    long N = vf::tier(12, 240);
    for (long idx = 0; idx < N; ++idx) {
        if (!vf::selected("float", idx)) continue;
        Rng r(vf::case_seed("float", idx)); vf::GridSpec g; int s = (int)r.range(8, 18); g.nx = s + (int)r.range(0, 2); g.ny = s; g.contrast = r.logu(1, 10); g.aniso = r.logu(0.2, 1); g.shift = r.uni(0.05, 0.5);    // n <= 400: exact kappa_2 of the float matrix
        Csr<double> Ad = vf::grid_diffusion(g, r); Csr<float> A(Ad.n, Ad.m); A.ptr = Ad.ptr; A.col = Ad.col; A.val.assign(Ad.val.begin(), Ad.val.end());
        Csr<double> Af = Ad; for (size_t k = 0; k < Af.val.size(); ++k) Af.val[k] = (double)A.val[k]; Cond K = vf::cond_of(Af);     // the system that is solved is the rounded one
        int ci = (int)(idx % 4), ri = (int)((idx / 4) % 9);
        std::vector<float> f(A.n), x0(A.n, 0.0f); for (auto &v : f) v = (float)r.uni(-1, 1); if (r.coin()) for (auto &v : x0) v = (float)r.uni(-1, 1);
        Case c("float", idx, J().s("value_type", VT).n("n", A.n).n("nnz", A.nnz()).s("coarsening", COARS[ci]).s("relaxation", RELAX[ri]).n("kappa", K.kappa()).n("contrast", g.contrast).n("aniso", g.aniso));
        bool any = false;
        for (const SolverCfg &sc : vf::SOLVER_CFGS) for (int rep = 0; rep < 2; ++rep) {
            CallSpec cs; cs.cfg = sc; cs.tol = r.pick(std::vector<double>{1e-2, 1e-3, 1e-4}); cs.maxiter = rep ? (size_t)r.range(3, 9) : 100; ptree p; put_all(p, r, ci, ri, sc, cs);
            monitored<float>(c, A, K, p, cs, f, x0, [&](const ptree &pp) { return std::make_shared<Holder>(A.tie(), pp); }, any);
        }
        if (any) c.nontrivial();
    }
}
#endif

int main(int argc, char **argv) {
    vf::init(argc, argv);
    vf::obs_add("value_types", VT); vf::obs_add("threads_seen", std::to_string(omp_get_max_threads()));
    run_cases();
    return vf::finish();
}
