// C02 -- the AMG cycle is a fixed linear, symmetric positive, contracting operator
// (DESIGN.md 5/C02).  One TU, runtime wrappers: 4 coarsenings x 9 relaxations.
//
// sub-checks
//   cycle    history independence (bitwise), linearity (forward bound), smoother
//            consistency and the dense long-double reference of the documented
//            recursion, all 36 cells
//   spd      symmetry, positivity, contraction: 4 coarsenings x 7 symmetric smoothers
//            x {V, W}, npre = npost, G1 / G2 matrices validated to be SPD irreducibly
//            diagonally dominant M-matrices
//   scaling  B(2^k A) == 2^-k B(A) bitwise (ILUT excluded by the property)
//
// Rounding bound used for every "equal up to rounding" comparison of actions
// (derivation): every step of the cycle has the form x <- x + M (f - A x).  The
// residual is formed with error <= c u (|f| + |A||x|), c <= row length + 2, and is
// then mapped by operators whose composition is bounded by ||B||; with |x| <=
// ||B|| ||f|| this gives, per step, u c ||B|| (1 + ||A|| ||B||) ||f||.  The number
// of such steps along one application is at most
//   S = pre_cycles * (npre + npost + 2) * sum_l ncycle^l   (<= ~400 here),
// so   ||fl(B f) - B f||_inf <= K u ||B||_inf (1 + ||A||_inf ||B||_inf) ||f||_inf,
// K = 64 * S (64 >= c for the row lengths generated here; measured on the unchanged tree:
// worst observed error / bound = 2e-4).  Genuine breakages of the recursion
// change B by 1e-3 .. 1 relative; the bound is 1e-13 .. 1e-9.
#include <amgcl/amg.hpp>
#include <amgcl/coarsening/runtime.hpp>
#include <amgcl/relaxation/runtime.hpp>
#include <amgcl/adapter/crs_tuple.hpp>
#include <vf/hooks.hpp>
#include <vf/hcycle.hpp>
#include <Eigen/Eigenvalues>
#include <Eigen/Cholesky>
#include <omp.h>

using vf::Csr; using vf::J; using vf::Rng; using vf::Case; using vf::LD; using vf::LV;
// VF_BS = 1: scalar double backend (default).  VF_BS = 2, 3: the same monitors (except item 4, whose
// domain is scalar M-matrices) on the block-valued backend builtin<static_matrix<double,BS,BS>> with
// Kronecker matrices A (x) C, C SPD.  All sizes below are scalar sizes (block rows * BS).
#ifndef VF_BS
#  define VF_BS 1
#endif
static const int BS = VF_BS;
#if VF_BS == 1
typedef double Val; typedef double Rhs;
static inline double bget(const Val &v, int, int) { return v; }
static inline double &rget(Rhs &v, int) { return v; }
static const int NCOARS = 4, NRELAX = 9, NRELAX_SCALING = 8;
static const char *COARS[] = {"aggregation", "smoothed_aggregation", "smoothed_aggr_emin", "ruge_stuben"};
static const char *RELAX9[] = {"damped_jacobi", "spai0", "gauss_seidel", "ilu0", "iluk", "ilup", "chebyshev", "spai1", "ilut"};   // first 7: symmetric smoothers of the property
#else
#include <amgcl/value_type/static_matrix.hpp>
#include <amgcl/adapter/block_matrix.hpp>
typedef amgcl::static_matrix<double, VF_BS, VF_BS> Val; typedef amgcl::static_matrix<double, VF_BS, 1> Rhs;
static inline double bget(const Val &v, int r, int c) { return v(r, c); }
static inline double &rget(Rhs &v, int r) { return v(r, 0); }
// Ruge-Stuben and SPAI-1 are not offered for block value types (coarsening_is_supported / relaxation_is_supported)
static const int NCOARS = 3, NRELAX = 8, NRELAX_SCALING = 7;
static const char *COARS[] = {"aggregation", "smoothed_aggregation", "smoothed_aggr_emin"};
static const char *RELAX9[] = {"damped_jacobi", "spai0", "gauss_seidel", "ilu0", "iluk", "ilup", "chebyshev", "ilut"};
#endif
typedef amgcl::backend::builtin<Val> Backend;
typedef amgcl::backend::crs<Val> Mat;
typedef amgcl::amg<Backend, amgcl::runtime::coarsening::wrapper, amgcl::runtime::relaxation::wrapper> AMG;
typedef boost::property_tree::ptree ptree;
typedef amgcl::backend::numa_vector<Rhs> NV;
static const double U = 1.1102230246251565e-16;

struct Cfg { std::string coars, relax; double alpha = VF_BS == 1 ? 1.5 : 2.0;   /* documented default of over_interp: 1.5 scalar, 2.0 block values */ unsigned npre = 1, npost = 1, ncycle = 1, pre_cycles = 1, coarse_enough = 10, max_levels = 0; bool direct = true; ptree p; J desc; };

// draw a configuration; wide = randomise the component parameters too; sym = keep npre == npost and the smoother parameters inside the theory's domain
static Cfg draw(Rng &r, const std::string &coars, const std::string &relax, bool wide, bool sym, int ncycle_forced = 0) {
    Cfg c; c.coars = coars; c.relax = relax;
    c.npre = (unsigned)r.range(1, 3); c.npost = sym ? c.npre : (unsigned)r.range(1, 3);
    c.ncycle = ncycle_forced ? ncycle_forced : (unsigned)r.range(1, 2); c.pre_cycles = r.coin(0.3) ? 2 : 1;
    c.coarse_enough = (unsigned)r.pick(std::vector<long>{4, 8, 12, 20, 40}); c.direct = !r.coin(0.25);
    if (r.coin(0.25)) c.max_levels = (unsigned)r.pick(std::vector<long>{1, 2, 2, 3});
    if (!wide) { c.npre = c.npost = (unsigned)r.range(1, 2); c.pre_cycles = 1; c.max_levels = 0; c.direct = true; c.coarse_enough = 10; if (!sym) { c.npost = (unsigned)r.range(1, 2); c.pre_cycles = (unsigned)r.range(1, 2); c.direct = !r.coin(0.3); if (r.coin(0.25)) c.max_levels = 2; } }
    ptree &p = c.p; J &d = c.desc;
    p.put("coarsening.type", coars); p.put("relax.type", relax);
    p.put("npre", c.npre); p.put("npost", c.npost); p.put("ncycle", c.ncycle); p.put("pre_cycles", c.pre_cycles);
    p.put("coarse_enough", c.coarse_enough); p.put("direct_coarse", c.direct); if (c.max_levels) p.put("max_levels", c.max_levels);
    d.s("coarsening", coars).s("relax", relax).n("npre", c.npre).n("npost", c.npost).n("ncycle", c.ncycle).n("pre_cycles", c.pre_cycles).n("coarse_enough", c.coarse_enough).bl("direct_coarse", c.direct).n("max_levels", c.max_levels);
    if (wide) {
        auto putd = [&](const char *k, double v) { p.put(k, v); d.n(k, v); };
        auto puti = [&](const char *k, long v) { p.put(k, v); d.n(k, v); };
        auto putb = [&](const char *k, bool v) { p.put(k, v); d.bl(k, v); };
        if (coars == "ruge_stuben") { if (r.coin()) putd("coarsening.eps_strong", r.uni(0.1, 0.5)); if (r.coin()) { putb("coarsening.do_trunc", r.coin()); putd("coarsening.eps_trunc", r.uni(0.05, 0.4)); } }
        else { if (r.coin()) putd("coarsening.aggr.eps_strong", r.uni(0.02, 0.2));
            if (coars == "aggregation" && r.coin()) { c.alpha = r.uni(1.0, 1.8); putd("coarsening.over_interp", c.alpha); }
            if (coars == "smoothed_aggregation") { if (r.coin()) putd("coarsening.relax", r.uni(0.6, 1.2)); if (r.coin(0.4)) { putb("coarsening.estimate_spectral_radius", true); puti("coarsening.power_iters", r.coin() ? 0 : 5); } } }
        if (relax == "damped_jacobi") putd("relax.damping", r.uni(0.5, 1.0));
        if (relax == "ilu0" && r.coin()) putd("relax.damping", r.uni(0.7, 1.0));
        if (relax == "iluk") { puti("relax.k", r.range(1, 2)); if (r.coin()) putd("relax.damping", r.uni(0.7, 1.0)); }
        if (relax == "ilup") puti("relax.k", r.range(1, 2));
        if (relax == "ilut") { puti("relax.p", r.range(1, 3)); putd("relax.tau", r.pick(std::vector<double>{1e-3, 1e-2, 1e-1})); }
        if (relax == "chebyshev") { puti("relax.degree", r.range(1, 5)); if (r.coin()) putd("relax.lower", r.uni(1.0 / 30, 0.2)); if (r.coin(0.3)) putd("relax.higher", r.uni(1.0, 1.2)); if (r.coin(0.3)) putb("relax.scale", true); }
        if (relax == "gauss_seidel" && r.coin(0.3)) putb("relax.serial", true);
    }
    return c;
}

#if VF_BS == 1
static std::shared_ptr<AMG> build(const Csr<double> &A, const ptree &p) { return std::make_shared<AMG>(A.tie(), AMG::params(p)); }
static void apply(const AMG &a, const std::vector<double> &f, std::vector<double> &x) { a.apply(f, x); }
static void cycle(const AMG &a, const std::vector<double> &f, std::vector<double> &x) { a.cycle(f, x); }
#else
static std::shared_ptr<AMG> build(const Csr<double> &A, const ptree &p) { return std::make_shared<AMG>(amgcl::adapter::block_matrix<Val>(A.tie()), AMG::params(p)); }
static void apply(const AMG &a, const std::vector<double> &f, std::vector<double> &x) { size_t nb = f.size() / BS; auto F = amgcl::make_iterator_range(reinterpret_cast<const Rhs*>(f.data()), reinterpret_cast<const Rhs*>(f.data()) + nb); auto X = amgcl::make_iterator_range(reinterpret_cast<Rhs*>(x.data()), reinterpret_cast<Rhs*>(x.data()) + nb); a.apply(F, X); }
static void cycle(const AMG &a, const std::vector<double> &f, std::vector<double> &x) { size_t nb = f.size() / BS; auto F = amgcl::make_iterator_range(reinterpret_cast<const Rhs*>(f.data()), reinterpret_cast<const Rhs*>(f.data()) + nb); auto X = amgcl::make_iterator_range(reinterpret_cast<Rhs*>(x.data()), reinterpret_cast<Rhs*>(x.data()) + nb); a.cycle(F, X); }
#endif
static LD extractB(const AMG &a, size_t n) { return vf::extract_operator(n, [&](const std::vector<double> &f, std::vector<double> &x) { apply(a, f, x); }); }
static size_t nlevels(AMG &a) { return amgcl::verif::access::levels(a).size(); }
static std::string sizes(AMG &a) { std::string s; for (auto &l : amgcl::verif::access::levels(a)) { if (!s.empty()) s += ">"; s += std::to_string(l.m_rows * BS); } return s; }
// dense scalar image of a (block-)valued CRS matrix
static LD dense_of(const Mat &M) { LD D = LD::Zero(M.nrows * BS, M.ncols * BS); for (size_t i = 0; i < M.nrows; ++i) for (auto j = M.ptr[i]; j < M.ptr[i + 1]; ++j) for (int r = 0; r < BS; ++r) for (int c = 0; c < BS; ++c) D(i * BS + r, M.col[j] * BS + c) += (long double)bget(M.val[j], r, c); return D; }
// the matrix of a case: scalar M-matrix (BS = 1) or its Kronecker product with an SPD block
static Csr<double> case_matrix(Rng &r, int nmin, int nmax, std::string &fam, J &md) {
    Csr<double> A = vf::random_spd_mmatrix(r, std::max(12, nmin / BS), std::max(16, nmax / BS), fam, &md);
    if (BS == 1) return A;
    std::vector<double> C = r.coin(0.25) ? vf::identity_block(BS) : vf::spd_block(BS, r); fam += "(x)C"; md.n("block", BS); return vf::kron(A, C, BS);
}

// number of smoothing / correction steps along one application (see the header comment)
static double step_count(const Cfg &c, size_t L) { double s = 0, w = 1; for (size_t l = 0; l < L; ++l) { s += w; w *= c.ncycle; } return c.pre_cycles * (c.npre + c.npost + 2.0) * s; }
static double action_bound(const Cfg &c, size_t L, double normA, double normB) { return 64 * step_count(c, L) * U * normB * (1 + normA * normB); }

static void dump_levels(AMG &a) {      // --dump=1: where do non-finite numbers enter the hierarchy
    size_t li = 0; for (auto &l : amgcl::verif::access::levels(a)) { auto bad = [](const Mat &M) { size_t k = 0; for (size_t i = 0; i < M.nnz; ++i) for (int r = 0; r < BS; ++r) for (int q = 0; q < BS; ++q) if (!std::isfinite(bget(M.val[i], r, q))) ++k; return k; };
        auto zero_cols = [](const Mat &M) { std::vector<double> cm(M.ncols, 0.0); for (size_t i = 0; i < M.nrows; ++i) for (auto j = M.ptr[i]; j < M.ptr[i + 1]; ++j) for (int r = 0; r < BS; ++r) for (int q = 0; q < BS; ++q) cm[M.col[j]] = std::max(cm[M.col[j]], std::fabs(bget(M.val[j], r, q))); size_t k = 0; for (double v : cm) if (v < 1e-12) ++k; return k; };
        fprintf(stderr, "level %zu rows %zu: A nonfinite %zu, P nonfinite %zu zero-cols %zu, R nonfinite %zu, solve %d relax %d\n", li++, l.m_rows * BS, l.A ? bad(*l.A) : 0, l.P ? bad(*l.P) : 0, l.P ? zero_cols(*l.P) : 0, l.R ? bad(*l.R) : 0, (int)(bool)l.solve, (int)(bool)l.relax); }
}
// Known weakness of the energy-minimising coarsening (reported; listed by the lead as a known finding): the column damping
// omega_j can cancel a tentative prolongation column completely when the aggregate is a whole connected component of the
// FILTERED matrix (strongly anisotropic grids on coarse levels: pairs coupled only to each other) -- P gets zero columns, the
// Galerkin matrix a zero row/column; the direct solver throws or the smoothed level yields NaN.  Recognised from the level list
// so that it carries one specific key.
static bool emin_vanishing_column(AMG &a) {
    for (auto &l : amgcl::verif::access::levels(a)) { if (!l.P) continue; const Mat &P = *l.P; std::vector<double> cm(P.ncols, 0.0); double gm = 0;
        for (size_t i = 0; i < P.nrows; ++i) for (auto j = P.ptr[i]; j < P.ptr[i + 1]; ++j) for (int r = 0; r < BS; ++r) for (int q = 0; q < BS; ++q) { double v = std::fabs(bget(P.val[j], r, q)); if (!(v <= cm[P.col[j]])) cm[P.col[j]] = v; if (v > gm) gm = v; }
        for (double v : cm) if (v <= 1e-10 * gm) return true; }
    return false;
}
static const char *EMIN_KEY = "coarse-matrix-singular:smoothed_aggr_emin:vanishing-prolongation-column";
static bool check_finite(Case &c, const LD &B, const Cfg &cfg, AMG &a) {
    bool ok = vf::all_finite(B);
    c.check(ok, !ok && cfg.coars == "smoothed_aggr_emin" && emin_vanishing_column(a) ? std::string(EMIN_KEY) : "apply:nonfinite-action:" + cfg.coars, "the preconditioner returns NaN/Inf for a unit right-hand side on a valid SPD M-matrix");
    return ok;
}
// key of an exception thrown while building / applying: the emin weakness above is recognised by rebuilding without the direct coarse solver
static std::string exception_key(const Cfg &cfg, const Csr<double> &A) {
    if (cfg.coars == "smoothed_aggr_emin") { try { ptree p = cfg.p; p.put("direct_coarse", false); std::shared_ptr<AMG> a = build(A, p); if (emin_vanishing_column(*a)) return EMIN_KEY; } catch (...) {} }
    return "exception:" + cfg.coars + "/" + cfg.relax;
}

//---------------------------------------------------------------------------
// cycle: monitors 1 (history), 2 (linearity), 3 (cycle structure)
//---------------------------------------------------------------------------
struct Lev { LD A, P, R, Mpre, Mpost, Sol; bool has_solve = false, has_relax = false, has_A = false, has_P = false; size_t n = 0; };

static LV nv2lv(NV &v) { LV r(v.size() * BS); for (size_t i = 0; i < v.size(); ++i) for (int k = 0; k < BS; ++k) r[i * BS + k] = rget(v[i], k); return r; }
static void nv_unit(NV &v, size_t j) { for (size_t i = 0; i < v.size(); ++i) for (int k = 0; k < BS; ++k) rget(v[i], k) = (i * BS + k == j) ? 1.0 : 0.0; }
static void nv_zero(NV &v) { for (size_t i = 0; i < v.size(); ++i) for (int k = 0; k < BS; ++k) rget(v[i], k) = 0.0; }
static void nv_col(NV &v, LD &M, size_t j) { for (size_t i = 0; i < v.size(); ++i) for (int k = 0; k < BS; ++k) M(i * BS + k, j) = rget(v[i], k); }

// one-cycle solution operator X_l (x_out = x_in + X (f - A x_in)), from the documented recursion
static LD ref_cycle(const std::vector<Lev> &L, size_t l, const Cfg &c) {
    const Lev &v = L[l]; size_t n = v.n;
    if (l + 1 == L.size() && v.has_solve) return v.Sol;
    LD X = LD::Zero(n, n), I = LD::Identity(n, n);
    auto step = [&](const LD &M) { LD Rm = I - v.A * X; X = X + M * Rm; };
    if (l + 1 == L.size()) { for (unsigned i = 0; i < c.npre; ++i) step(v.Mpre); for (unsigned i = 0; i < c.npost; ++i) step(v.Mpost); return X; }
    LD Xc = ref_cycle(L, l + 1, c); LD Cg = v.P * (Xc * v.R);
    for (unsigned j = 0; j < c.ncycle; ++j) { for (unsigned i = 0; i < c.npre; ++i) step(v.Mpre); step(Cg); for (unsigned i = 0; i < c.npost; ++i) step(v.Mpost); }
    return X;
}

static void sub_cycle() {
    long cells = NCOARS * NRELAX, nmat = vf::tier(BS == 1 ? 3 : 2, BS == 1 ? 40 : 10), N = nmat * cells, stride = vf::opt_int("stride", 1);
    for (long idx = 0; idx < N; ++idx) {
        if (!vf::selected("cycle", idx) || idx % stride) continue;
        Rng r(vf::case_seed("cycle", idx)); int ci = (int)(idx % NCOARS), ri = (int)((idx / NCOARS) % NRELAX); long rep = idx / cells;
        std::string fam; J md; Csr<double> A = case_matrix(r, 40, rep % 4 == 3 ? 200 : 120, fam, md); size_t n = A.n;
        Cfg cfg = draw(r, COARS[ci], RELAX9[ri], rep >= 1, false);
        Case c("cycle", idx, J().o("matrix", md).o("cfg", cfg.desc));
        try {
            std::shared_ptr<AMG> amg = build(A, cfg.p); AMG &a = *amg; size_t nl = nlevels(a);
            LD B0 = extractB(a, n);
            if (!check_finite(c, B0, cfg, a)) { if (vf::opt_int("dump", 0)) dump_levels(a); continue; }
            double nA = vf::norm_inf(A), nB = (double)vf::norm_inf(B0), bound = action_bound(cfg, nl, nA, nB);
            // --- 1. history independence: 200 applications / cycles on random, huge, tiny, sparse vectors, then B again
            { std::vector<double> f(n), x(n);
              for (int k = 0; k < 200; ++k) { double sc = k % 4 == 1 ? 1e100 : k % 4 == 2 ? 1e-290 : 1.0; for (auto &v : f) v = sc * r.uni(-1, 1); if (k % 7 == 0) { std::fill(f.begin(), f.end(), 0.0); f[r.next() % n] = 1e30; }
                  if (k % 5 == 4) { for (auto &v : x) v = sc * r.uni(-1, 1); cycle(a, f, x); } else apply(a, f, x); }
              LD B1 = extractB(a, n);
              c.check(vf::bitwise_equal(B0, B1), "history:action-changed:" + cfg.relax, "B extracted after 200 further applications differs bitwise from the first extraction");
              if (vf::opt_int("nonfinite_history", 1)) {     // an application to a NaN / Inf right-hand side must not poison later ones
                  for (auto &v : f) v = r.uni(-1, 1); f[r.next() % n] = std::numeric_limits<double>::quiet_NaN(); f[r.next() % n] = std::numeric_limits<double>::infinity(); apply(a, f, x);
                  LD B2 = extractB(a, n);
                  c.check(vf::bitwise_equal(B0, B2), "history:action-changed-after-nonfinite-rhs:" + cfg.relax, "B extracted after an application to a right-hand side holding NaN/Inf differs from the first extraction"); } }
            // --- 2. linearity
            { double worst = 0; bool ok = true;
              for (int k = 0; k < 6; ++k) { std::vector<double> f = vf::random_vector(n, r), g = vf::random_vector(n, r), h(n), x(n); double al = k < 2 ? r.uni(-2, 2) : r.logu(1e-8, 1e8) * (r.coin() ? 1 : -1), be = k < 2 ? r.uni(-2, 2) : r.logu(1e-8, 1e8);
                  if (k == 5) { std::fill(g.begin(), g.end(), 0.0); g[r.next() % n] = 1; }
                  for (size_t i = 0; i < n; ++i) h[i] = al * f[i] + be * g[i];
                  apply(a, h, x); LV ref = B0 * vf::to_lv(h); double hn = 0; for (double v : h) hn = std::max(hn, std::fabs(v));
                  double err = 0; for (size_t i = 0; i < n; ++i) { double e = (double)fabsl((long double)x[i] - ref[i]); if (!(e <= err)) err = e; }
                  if (!(err <= bound * hn)) ok = false; if (hn > 0 && nB > 0) worst = std::max(worst, err / (hn * nB)); }
              c.check(ok, "linearity:superposition:" + cfg.relax, "apply(a f + b g) differs from a B f + b B g by more than the forward rounding bound", J().n("bound_rel", bound / nB).n("worst_rel", worst));
              vf::obs_max("max_linearity_err_rel", worst); }
            // --- 3. cycle structure through the accessor
            { auto &lv = amgcl::verif::access::levels(a); std::vector<Lev> L; bool consistent = true; double worst_cons = 0; size_t li = 0;
              for (auto it = lv.begin(); it != lv.end(); ++it, ++li) { Lev l; size_t mb = it->m_rows, m = mb * BS; l.n = m;
                  if (it->A) { l.A = dense_of(*it->A); l.has_A = true; } if (it->P) { l.P = dense_of(*it->P); l.R = dense_of(*it->R); l.has_P = true; }
                  if (it->relax) { l.has_relax = true; l.Mpre = LD(m, m); l.Mpost = LD(m, m); NV f(mb), x(mb), t(mb); nv_zero(t);
                      for (size_t j = 0; j < m; ++j) { nv_unit(f, j); nv_zero(x); it->relax->apply_pre(*it->A, f, x, t); nv_col(x, l.Mpre, j);
                          nv_zero(x); it->relax->apply_post(*it->A, f, x, t); nv_col(x, l.Mpost, j); }
                      // smoother consistency: one sweep from x0 is x0 + M (f - A x0)
                      for (int pass = 0; pass < 2; ++pass) { const LD &Mx = pass ? l.Mpost : l.Mpre; NV x0(mb); for (size_t i = 0; i < mb; ++i) for (int k = 0; k < BS; ++k) { rget(f[i], k) = r.uni(-1, 1); rget(x0[i], k) = r.uni(-1, 1); rget(x[i], k) = rget(x0[i], k); }
                          if (pass) it->relax->apply_post(*it->A, f, x, t); else it->relax->apply_pre(*it->A, f, x, t);
                          LV rl = nv2lv(f) - l.A * nv2lv(x0); LV ref = nv2lv(x0) + Mx * rl; LV got = nv2lv(x); long double nM = vf::norm_inf(Mx), nAl = vf::norm_inf(l.A);
                          double err = 0; for (size_t i = 0; i < m; ++i) { double e = (double)fabsl(got[i] - ref[i]); if (!(e <= err)) err = e; }
                          double bd = (double)(8 * 64 * 8 * U * (1 + nM * (1 + nAl)) * (1 + nM * nAl));   // <= 8 inner steps (Chebyshev degree, ILU solves), same derivation as the header bound
                          if (!(err <= bd)) consistent = false; worst_cons = std::max(worst_cons, err / bd); } }
                  if (it->solve) { l.has_solve = true; l.Sol = LD(m, m); NV f(mb), x(mb); for (size_t j = 0; j < m; ++j) { nv_unit(f, j); nv_zero(x); (*it->solve)(f, x); nv_col(x, l.Sol, j); } }
                  L.push_back(l); }
              c.check(consistent, "smoother:not-affine-consistent:" + cfg.relax, "a sweep started from x0 differs from x0 + M (f - A x0) with M extracted from the same smoother", J().n("worst_over_bound", worst_cons));
              // structural expectations of the documented recursion
              bool shape = !L.empty() && L[0].n == n; for (size_t l = 0; l + 1 < L.size(); ++l) shape = shape && L[l].has_A && L[l].has_P && L[l].has_relax && !L[l].has_solve && (size_t)L[l].P.rows() == L[l].n && (size_t)L[l].P.cols() == L[l + 1].n && (size_t)L[l].R.rows() == L[l + 1].n && (size_t)L[l].R.cols() == L[l].n;
              if (!L.empty()) shape = shape && (L.back().has_solve || (L.back().has_relax && L.back().has_A));
              if (c.check(shape, "structure:level-list", "the level list is not (A, P, R, smoother)* followed by a direct-solver or smoother level", J().s("sizes", sizes(a)))) {
                  if (cfg.max_levels) c.check(L.size() <= cfg.max_levels, "structure:max_levels", "more levels than max_levels");
                  LD Xc = ref_cycle(L, 0, cfg); LD Bref = LD::Zero(n, n), I = LD::Identity(n, n), Ad = vf::to_dense(A);
                  for (unsigned k = 0; k < cfg.pre_cycles; ++k) { LD Rm = I - Ad * Bref; Bref = Bref + Xc * Rm; }
                  LD Df = B0 - Bref; double err = (double)vf::maxabs(Df), nBr = (double)vf::norm_inf(Bref), bd = action_bound(cfg, nl, nA, std::max(nB, nBr));
                  c.check_le(err, bd, "cycle:recursion-mismatch:" + cfg.relax, "B differs from the dense long-double evaluation of the documented recursion (pre-smooth, residual, restrict, zero guess, ncycle visits, prolong-add, post-smooth; pre_cycles repetitions)");
                  vf::obs_max("max_cycle_ref_err_rel", err / (double)vf::maxabs(Bref)); vf::obs_max("max_cycle_ref_err_over_bound", err / bd);
                  if (L.size() >= 2) c.nontrivial(); } }
            vf::obs_add("cells_cycle", cfg.coars + "/" + cfg.relax); vf::obs_max("max_levels_seen", (double)nl);
            vf::sample("cycle", J().s("family", fam).n("n", n).s("coarsening", cfg.coars).s("relax", cfg.relax).n("npre", cfg.npre).n("npost", cfg.npost).n("ncycle", cfg.ncycle).n("pre_cycles", cfg.pre_cycles).s("level_sizes", sizes(a)).bl("direct_coarse", cfg.direct));
        } catch (const std::exception &e) { c.fail(exception_key(cfg, A), e.what()); }
    }
}

//---------------------------------------------------------------------------
// spd: monitor 4
//---------------------------------------------------------------------------
static void sub_spd() {
    // Block values: the energy-minimising coarsening is left out of this sub-check.  It computes R independently of P (R = R_t - Omega R_t A D^-1,
    // P = P_t - D^-1 A P_t Omega with block-valued Omega_j); R = P^T then needs the blocks to commute, so with non-commuting blocks the cycle is not
    // variational (observed on the unchanged tree: max|B - B^T| = 5e-4, lambda_max(BA) = 1.00002) -- neither C02 nor C03 claims R = P^T for it.
    const int NCS = BS == 1 ? NCOARS : 2;      // COARS[0], COARS[1] = aggregation, smoothed_aggregation
    long cells = NCS * 7 * 2, nmat = vf::tier(BS == 1 ? 3 : 3, BS == 1 ? 60 : 20), N = nmat * cells, stride = vf::opt_int("stride", 1);
    for (long idx = 0; idx < N; ++idx) {
        if (!vf::selected("spd", idx) || idx % stride) continue;
        Rng r(vf::case_seed("spd", idx)); int ci = (int)(idx % NCS), ri = (int)((idx / NCS) % 7), ncyc = 1 + (int)((idx / (NCS * 7)) % 2); long rep = idx / cells;
        // BS = 1: SPD irreducibly diagonally dominant M-matrix (the property's domain).  BS > 1: block vector Laplacian on such a graph
        // with non-commuting SPD edge weights (hcycle.hpp); SPD-ness is validated below by the Cholesky factorisation (exit 3 otherwise).
        std::string fam; J md; Csr<double> A = vf::random_spd_mmatrix(r, std::max(16, 50 / BS), (rep % 5 == 4 ? 300 : 160) / BS, fam, &md);
        if (BS > 1) { double reaction = (rep % 2 == 0 || r.coin(0.4)) ? r.logu(1.5, 40.0) : 0.0;     // stiff reaction in one direction per node: anisotropic diagonal blocks
            A = vf::block_laplacian(A, BS, r, reaction); fam += "-block-laplacian"; md.n("block", BS).n("n_scalar", A.n).n("reaction", reaction); }
        size_t n = A.n;
        Cfg cfg = draw(r, COARS[ci], RELAX9[ri], rep >= 1, true, ncyc);
        if (BS > 1 && cfg.relax == "chebyshev" && rep % 2 == 0) { cfg.p.put("relax.scale", true); cfg.desc.bl("relax.scale(forced)", true); }   // the diagonally scaled variant needs block values to be exercised at all
        // smoothers whose A-norm contraction is guaranteed on this input class: all seven on M-matrices; for block SPD input damped block Jacobi
        // (A <= 2 D, omega <= 1), SPAI-0 (M_i = A_ii / sum_j |A_ij|_F^2, same argument), symmetric block Gauss-Seidel and Chebyshev with the
        // Gershgorin bound (a norm bound for blocks).  Incomplete block factorisations of an SPD non-M matrix are symmetric (U = D L^T) but need
        // not define a convergent splitting: for ilu0 / iluk / ilup with block values only symmetry is asserted, the spectrum is recorded.
        bool smoother_ok = BS == 1 || (cfg.relax != "ilu0" && cfg.relax != "iluk" && cfg.relax != "ilup");
        int unit = rep >= 1 ? (int)r.pick(std::vector<long>{0, 0, 0, 30, -30, -60, 70, -100}) : 0;     // the same problem in other physical units (still an SPD M-matrix)
        if (unit) { A = vf::scaled_pow2(A, unit); md.n("scaled_by_pow2", unit); }
        Case c("spd", idx, J().o("matrix", md).o("cfg", cfg.desc));
        try {
            std::shared_ptr<AMG> amg = build(A, cfg.p); AMG &a = *amg; size_t nl = nlevels(a);
            LD B = extractB(a, n); if (!check_finite(c, B, cfg, a)) { if (vf::opt_int("dump", 0)) dump_levels(a); continue; }
            double nA = vf::norm_inf(A), nB = (double)vf::norm_inf(B), mB = (double)vf::maxabs(B);
            LD Bt = B.transpose(); LD As = B - Bt; double asym = (double)vf::maxabs(As);
            c.check_le(asym, 2 * action_bound(cfg, nl, nA, nB), "spd:not-symmetric:" + cfg.relax, "max|B - B^T| exceeds the rounding bound: the cycle is not a symmetric operator");
            vf::obs_max("max_asymmetry_rel", asym / mB);
            // spectrum: B_s = (B + B^T)/2 ; A = L L^T ; eigenvalues of L^T B_s L are those of B A
            Eigen::MatrixXd Ad = vf::to_dense(A).cast<double>(); Eigen::MatrixXd Bs = (0.5L * (B + Bt)).cast<double>();
            Eigen::LLT<Eigen::MatrixXd> llt(Ad); if (llt.info() != Eigen::Success) { fprintf(stderr, "internal: generated matrix is not SPD\n"); exit(3); }
            Eigen::SelfAdjointEigenSolver<Eigen::MatrixXd> eb(Bs, Eigen::EigenvaluesOnly); Eigen::MatrixXd Lm = llt.matrixL(); Eigen::MatrixXd Mx = Lm.transpose() * Bs * Lm; Eigen::MatrixXd Ms = 0.5 * (Mx + Mx.transpose());
            Eigen::SelfAdjointEigenSolver<Eigen::MatrixXd> em(Ms, Eigen::EigenvaluesOnly);
            double bmin = eb.eigenvalues().minCoeff(), bmax = eb.eigenvalues().maxCoeff(), lmin = em.eigenvalues().minCoeff(), lmax = em.eigenvalues().maxCoeff();
            // eigenvalue error of the symmetric solver <= ~ n u ||.||_2 ; demand a margin of 100 n u
            double mg = 100 * n * 2 * U;
            // Domain of the contraction clause.  For the Galerkin coarsenings (R = P^T, A_c = R A P) the classical argument gives
            // sigma(B A) in (0, 1] on every level.  Plain aggregation rescales the coarse operator, A_c = P^T A P / alpha, i.e. the
            // coarse correction is over-weighted by alpha (documented "over-interpolation"): with lc = largest eigenvalue of B_c A_c
            // of the level below, sigma(B A) of one visit lies in (0, max(1, alpha lc)], so a V-cycle only has the bound alpha^(L-1)
            // and contraction is guaranteed iff every alpha lc < 2.  (Observed on the unchanged tree: default over_interp = 1.5,
            // Gauss-Seidel, V-cycle, levels 225>32>5>1: lambda_max(BA) = 2.7.)  That is a property of the documented method, not of
            // the code, so outside the guaranteed region only symmetry and the theoretical bound are asserted.
            double alpha = cfg.coars == "aggregation" ? cfg.alpha : 1.0, lb = 1.0; bool guaranteed = true;
            for (size_t l = nl; l-- > 1;) { double t = alpha * lb; if (!(t < 2)) guaranteed = false; lb = cfg.ncycle >= 2 ? 1.0 : std::max(1.0, t); }   // W: the visit is squared, sigma(BA) <= 1 (alpha <= 2 here)   // lb = bound for one visit of level l-1
            if (!smoother_ok) { vf::obs_sum("spd_cases_block_ilu_symmetry_only"); vf::obs_max("max_lambda_BA_block_ilu", lmax); vf::obs_min("min_lambda_BA_block_ilu", lmin); }
            else if (guaranteed) {
                c.check(std::isfinite(bmin) && bmin > mg * bmax, "spd:not-positive:" + cfg.relax, "the symmetric part of B has a non-positive eigenvalue", J().n("lambda_min", bmin).n("lambda_max", bmax));
                c.check(std::isfinite(lmin) && std::isfinite(lmax) && lmin > mg * std::max(1.0, lmax) && lmax < 2 - mg * 2, "spd:not-contracting:" + cfg.relax, "eigenvalues of B A leave (0, 2): rho(I - B A) >= 1", J().n("lambda_min", lmin).n("lambda_max", lmax).n("levels", nl));
                c.check(std::isfinite(lmax) && lmax <= lb * (1 + 1e-8), "spd:above-theoretical-bound:" + cfg.relax, "largest eigenvalue of B A exceeds the bound of the variational theory (1 for Galerkin coarsenings, alpha^(L-1) for rescaled aggregation)", J().n("lambda_max", lmax).n("bound", lb));
                double rho = std::max(std::fabs(1 - lmin), std::fabs(1 - lmax)); vf::obs_max("max_rho", rho); vf::obs_min("min_lambda_BA", lmin); vf::obs_max("max_lambda_BA", lmax); vf::obs_sum("spd_cases_in_guaranteed_domain");
            } else {
                vf::obs_sum("spd_cases_aggregation_overinterpolation_outside_guarantee"); vf::obs_max("max_lambda_BA_outside_guarantee", lmax);
                if (cfg.pre_cycles == 1) { c.check(std::isfinite(lmin) && lmin > mg * std::max(1.0, lmax), "spd:not-positive:" + cfg.relax, "B A has a non-positive eigenvalue", J().n("lambda_min", lmin));
                    c.check(std::isfinite(lmax) && lmax <= lb * (1 + 1e-8), "spd:above-theoretical-bound:" + cfg.relax, "largest eigenvalue of B A exceeds alpha^(L-1), the bound for rescaled aggregation", J().n("lambda_max", lmax).n("bound", lb).n("alpha", alpha).n("levels", nl)); } }
            double rho = std::max(std::fabs(1 - lmin), std::fabs(1 - lmax));
            if (nl >= 2) c.nontrivial();
            vf::obs_add("cells_spd", cfg.coars + "/" + cfg.relax + (ncyc == 1 ? "/V" : "/W"));
            vf::sample("spd", J().s("family", fam).n("n", n).s("coarsening", cfg.coars).s("relax", cfg.relax).n("npre_npost", cfg.npre).n("ncycle", cfg.ncycle).s("level_sizes", sizes(a)).n("asymmetry_rel", asym / mB).n("rho", rho));
        } catch (const std::exception &e) { c.fail(exception_key(cfg, A), e.what()); }
    }
}

//---------------------------------------------------------------------------
// scaling: monitor 5
//---------------------------------------------------------------------------
static void sub_scaling() {
    long cells = NCOARS * NRELAX_SCALING, nmat = vf::tier(BS == 1 ? 2 : 1, BS == 1 ? 20 : 6), N = nmat * cells, stride = vf::opt_int("stride", 1);
    for (long idx = 0; idx < N; ++idx) {
        if (!vf::selected("scaling", idx) || idx % stride) continue;
        Rng r(vf::case_seed("scaling", idx)); int ci = (int)(idx % NCOARS), ri = (int)((idx / NCOARS) % NRELAX_SCALING); long rep = idx / cells;   // RELAX9[0 .. NRELAX_SCALING-1]: everything but ILUT
        std::string fam; J md; Csr<double> A = case_matrix(r, 40, 140, fam, md); size_t n = A.n;
        Cfg cfg = draw(r, COARS[ci], RELAX9[ri], rep >= 1, false);
        // moderate exponents (even and odd) and extreme ones: 2^-60 .. 2^-120 puts every coefficient below machine epsilon,
        // 2^60 .. 2^120 far above 1/epsilon; squares and triple products of the entries still stay inside the double range
        std::vector<int> ks = {2, -2}; ks.push_back((int)r.pick(std::vector<long>{1, -1, 3, -3, 10, -10, 9, -9, 40, -40})); ks.push_back((int)r.pick(std::vector<long>{-60, -60, -75, -120})); ks.push_back((int)r.pick(std::vector<long>{60, 77, 120}));
        Case c("scaling", idx, J().o("matrix", md).o("cfg", cfg.desc).arr("k", ks));
        try {
            std::shared_ptr<AMG> a0 = build(A, cfg.p); LD B0 = extractB(*a0, n); if (!check_finite(c, B0, cfg, *a0)) continue;
            for (int k : ks) { Csr<double> Ak = vf::scaled_pow2(A, k); std::shared_ptr<AMG> ak = build(Ak, cfg.p); LD Bk = extractB(*ak, n);
                for (size_t j = 0; j < n; ++j) for (size_t i = 0; i < n; ++i) Bk(i, j) = std::ldexp((double)Bk(i, j), k);
                bool same = vf::bitwise_equal(B0, Bk); double df = 0; if (!same) { LD Df = B0 - Bk; df = (double)(vf::maxabs(Df) / vf::maxabs(B0)); }
                c.check(same, std::string("scaling:not-exact:") + (k <= -50 ? "coefficients-below-epsilon" : k >= 50 ? "coefficients-above-1/epsilon" : "moderate") + ":" + cfg.coars + "/" + cfg.relax, "B(2^k A) is not 2^-k B(A) bitwise", J().n("k", k).n("rel_diff", df).s("levels0", sizes(*a0)).s("levelsk", sizes(*ak))); }
            if (nlevels(*a0) >= 2) c.nontrivial();
            vf::obs_add("cells_scaling", cfg.coars + "/" + cfg.relax);
        } catch (const std::exception &e) { c.fail(exception_key(cfg, A), e.what()); }
    }
}

int main(int argc, char **argv) {
    vf::init(argc, argv);
    if (omp_get_max_threads() != 1 && !vf::opt_int("allow_threads", 0)) { fprintf(stderr, "c02 is a single-thread check (bitwise differentials)\n"); return 3; }
    if (vf::sub_enabled("cycle")) sub_cycle();
    if (vf::sub_enabled("spd")) sub_spd();
    if (vf::sub_enabled("scaling")) sub_scaling();
    return vf::finish();
}
