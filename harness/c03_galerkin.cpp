// C03 -- every coarse level is the (rescaled) Galerkin product; rebuild keeps it so
// (DESIGN.md 5/C03).  One TU: recording / replaying coarsening policies wrapped
// around the runtime coarsening wrapper => all four coarsenings.
//
// sub-checks
//   hier       real hierarchies over the generated families: every coarse_operator
//              call observed by the recording policy is checked against the
//              mathematical triple product (long double, term-count rounding bound;
//              bitwise-exact on integer-valued data), R == P^T exactly (aggregation,
//              SA, RS), strictly decreasing sizes, the private level list (accessor)
//              against the recording, coarse-solver / smoother choice on the last level
//   synthetic  integer-valued A and integer-valued transfer operators fed through the
//              replaying policy: coarse_operator of all four coarsenings exact
//   rebuild    histories of 1..6 rebuild() calls (scaled / perturbed / sign-changed /
//              pattern-changed / row-shuffled matrices) ending with the original:
//              transfer operators unchanged, Galerkin chain, level list and action
//              bitwise equal to a fresh hierarchy built through the replaying policy;
//              the original action restored bitwise
//   degenerate G6 inputs (1x1, diagonal, disconnected, n <= coarse_enough, pairs with
//              a 2-vector near null space, ...): same oracles, sizes must decrease
//
// The SpGEMM algorithm behind coarse_operator is selected by the library from
// omp_get_max_threads() (> 16: row-merge); the job list runs this binary with 1
// thread (g++/libgomp) and with 17 threads (clang/libomp build).
#include <amgcl/amg.hpp>
#include <amgcl/coarsening/runtime.hpp>
#include <amgcl/relaxation/runtime.hpp>
#include <amgcl/adapter/crs_tuple.hpp>
#include <vf/hooks.hpp>
#include <vf/hcycle.hpp>
#include <omp.h>
#include <sys/resource.h>

using vf::Csr; using vf::J; using vf::Rng; using vf::Case;
typedef amgcl::backend::builtin<double> Backend;
typedef amgcl::backend::crs<double> Mat;
typedef boost::property_tree::ptree ptree;
static const double U = 1.1102230246251565e-16;

//---------------------------------------------------------------------------
// recording / replaying coarsening policies (documented extension point:
// the Coarsening template argument of amgcl::amg)
//---------------------------------------------------------------------------
struct Ev { int kind; std::shared_ptr<Mat> A, P, R, Ac; };     // kind 0: transfer_operators, 1: coarse_operator, 2: transfer_operators threw empty_level
static std::vector<Ev> g_tape;
struct ReplaySrc { std::vector<std::pair<std::shared_ptr<Mat>, std::shared_ptr<Mat>>> pr; size_t pos = 0; bool overrun = false; };
static ReplaySrc g_rep;

template <template <class> class C> struct recording { template <class B> struct type {
    typedef typename C<B>::params params; C<B> base;
    type(const params &p = params()) : base(p) {}
    template <class Mx> std::tuple<std::shared_ptr<Mx>, std::shared_ptr<Mx>> transfer_operators(const Mx &A) {
        try { auto t = base.transfer_operators(A); Ev e; e.kind = 0; e.A = std::make_shared<Mat>(A); e.P = std::make_shared<Mat>(*std::get<0>(t)); e.R = std::make_shared<Mat>(*std::get<1>(t)); g_tape.push_back(e); return t; }
        catch (amgcl::error::empty_level) { Ev e; e.kind = 2; e.A = std::make_shared<Mat>(A); g_tape.push_back(e); throw; }
    }
    template <class Mx> std::shared_ptr<Mx> coarse_operator(const Mx &A, const Mx &P, const Mx &R) const {
        auto ac = base.coarse_operator(A, P, R); Ev e; e.kind = 1; e.A = std::make_shared<Mat>(A); e.P = std::make_shared<Mat>(P); e.R = std::make_shared<Mat>(R); e.Ac = std::make_shared<Mat>(*ac); g_tape.push_back(e); return ac; }
}; };
template <template <class> class C> struct replaying { template <class B> struct type {
    typedef typename C<B>::params params; C<B> base;
    type(const params &p = params()) : base(p) {}
    template <class Mx> std::tuple<std::shared_ptr<Mx>, std::shared_ptr<Mx>> transfer_operators(const Mx &) {
        if (g_rep.pos >= g_rep.pr.size()) { g_rep.overrun = true; throw amgcl::error::empty_level(); }
        auto &r = g_rep.pr[g_rep.pos++]; return std::make_tuple(std::make_shared<Mx>(*r.first), std::make_shared<Mx>(*r.second)); }
    template <class Mx> std::shared_ptr<Mx> coarse_operator(const Mx &A, const Mx &P, const Mx &R) const {
        auto ac = base.coarse_operator(A, P, R); Ev e; e.kind = 1; e.A = std::make_shared<Mat>(A); e.P = std::make_shared<Mat>(P); e.R = std::make_shared<Mat>(R); e.Ac = std::make_shared<Mat>(*ac); g_tape.push_back(e); return ac; }
}; };
typedef amgcl::amg<Backend, recording<amgcl::runtime::coarsening::wrapper>::type, amgcl::runtime::relaxation::wrapper> AMGrec;
typedef amgcl::amg<Backend, replaying<amgcl::runtime::coarsening::wrapper>::type, amgcl::runtime::relaxation::wrapper> AMGrep;

//---------------------------------------------------------------------------
// canonical copies and bitwise comparison
//---------------------------------------------------------------------------
static Csr<double> canon(const Mat &M) {       // sorted-row copy (own sort, stable for equal columns)
    Csr<double> C(M.nrows, M.ncols);
    for (size_t i = 0; i < M.nrows; ++i) { std::vector<std::pair<ptrdiff_t, double>> e; for (auto j = M.ptr[i]; j < M.ptr[i + 1]; ++j) e.emplace_back(M.col[j], M.val[j]);
        std::stable_sort(e.begin(), e.end(), [](const auto &a, const auto &b) { return a.first < b.first; }); for (auto &p : e) C.push(p.first, p.second); C.end_row(); }
    return C;
}
static bool same(const Csr<double> &a, const Csr<double> &b) { return a.n == b.n && a.m == b.m && a.ptr == b.ptr && a.col == b.col && vf::bitwise_equal(a.val, b.val); }
static bool rows_sorted_unique(const Mat &M) { for (size_t i = 0; i < M.nrows; ++i) for (auto j = M.ptr[i] + 1; j < M.ptr[i + 1]; ++j) if (M.col[j - 1] >= M.col[j]) return false; return true; }
static std::string wellformed(const Mat &C) {
    if (C.nrows == 0) return ""; if (!C.ptr) return "null-ptr"; if (C.ptr[0] != 0) return "ptr0";
    for (size_t i = 0; i < C.nrows; ++i) if (C.ptr[i + 1] < C.ptr[i]) return "ptr-not-monotone";
    if ((size_t)C.ptr[C.nrows] != C.nnz) return "nnz-mismatch";
    std::vector<ptrdiff_t> seen(C.ncols, -1);
    for (size_t i = 0; i < C.nrows; ++i) for (auto j = C.ptr[i]; j < C.ptr[i + 1]; ++j) { auto c = C.col[j]; if (c < 0 || (size_t)c >= C.ncols) return "col-out-of-range"; if (seen[c] == (ptrdiff_t)i) return "duplicate-column"; seen[c] = i; }
    return "";
}
static void dump(const char *name, const Mat &M) { fprintf(stderr, "%s %zux%zu nnz=%zu\n", name, M.nrows, M.ncols, (size_t)M.nnz); for (size_t i = 0; i < M.nrows; ++i) { fprintf(stderr, "  %zu:", i); for (auto j = M.ptr[i]; j < M.ptr[i + 1]; ++j) fprintf(stderr, " (%ld,%.17g)", (long)M.col[j], M.val[j]); fprintf(stderr, "\n"); } }
static void dump_tape() { if (!vf::opt_int("dump", 0)) return; for (auto &e : g_tape) { fprintf(stderr, "--- event kind %d\n", e.kind); if (e.A) dump("A", *e.A); if (e.P) dump("P", *e.P); if (e.R) dump("R", *e.R); if (e.Ac) dump("Ac", *e.Ac); } }
static bool finite_vals(const Mat &M) { for (size_t k = 0; k < M.nnz; ++k) if (!std::isfinite(M.val[k])) return false; return true; }

//---------------------------------------------------------------------------
// Galerkin oracle: (R A P)_ij = sum_k sum_l R_ik A_kl P_lj from the definition,
// long double accumulation, term count and sum of |terms| per entry.
//   |fl(sum) - sum| <= (T + 2) u' sum|terms|, T = number of terms (two roundings per
//   term product, <= T additions in whatever association) -- u' = 1.01 u; the oracle
//   uses 2 (T + 6) u sum|terms| (+ the rounding of the optional rescaling).
// exact = integer-valued data: bitwise equality demanded.
// alpha = over-interpolation factor (0 = plain Galerkin).  over_interp is a float
// parameter and the library multiplies by 1/over_interp formed in float: the scale s
// actually used must satisfy |s alpha - 1| <= 2^-22 and be one number for all entries.
//---------------------------------------------------------------------------
struct RefEntry { ptrdiff_t col; long double v, a; long t; };
static bool check_galerkin(Case &c, const Ev &e, double alpha, bool exact, const std::string &tag) {
    const Mat &A = *e.A, &P = *e.P, &R = *e.R, &Ac = *e.Ac; size_t nc = P.ncols;
    bool dims = R.nrows == nc && R.ncols == A.nrows && P.nrows == A.ncols && A.nrows == A.ncols && Ac.nrows == nc && Ac.ncols == nc;
    if (!c.check(dims, "galerkin:dimensions:" + tag, "coarse operator / transfer operator shapes are inconsistent", J().n("n", A.nrows).n("Pcols", P.ncols).n("Rrows", R.nrows).n("Ac_rows", Ac.nrows).n("Ac_cols", Ac.ncols))) return false;
    std::string wf = wellformed(Ac); if (!c.check(wf.empty(), "galerkin:malformed:" + wf + ":" + tag, "coarse matrix fails the CRS well-formedness monitor: " + wf)) return false;
    if (!(finite_vals(A) && finite_vals(P) && finite_vals(R))) { vf::obs_sum("galerkin_skipped_nonfinite_operands"); vf::obs_add("nonfinite_transfer_operators_from", tag); return false; }   // transfer operators are the coarsening's choice (C04 / F12); nothing to compare
    std::vector<long double> acc(nc, 0), ab(nc, 0); std::vector<long> cnt(nc, 0); std::vector<char> touched(nc, 0); std::vector<ptrdiff_t> list;
    std::vector<std::vector<RefEntry>> ref(nc); long double vmax = 0; size_t imax = 0; ptrdiff_t jmax = -1;
    for (size_t i = 0; i < nc; ++i) { list.clear();
        for (auto jr = R.ptr[i]; jr < R.ptr[i + 1]; ++jr) { auto k = R.col[jr]; long double rv = R.val[jr];
            for (auto ja = A.ptr[k]; ja < A.ptr[k + 1]; ++ja) { auto l = A.col[ja]; long double ra = rv * (long double)A.val[ja];
                for (auto jp = P.ptr[l]; jp < P.ptr[l + 1]; ++jp) { auto j = P.col[jp]; long double t = ra * (long double)P.val[jp]; if (!touched[j]) { touched[j] = 1; list.push_back(j); } acc[j] += t; ab[j] += fabsl(t); ++cnt[j]; } } }
        for (auto j : list) { ref[i].push_back(RefEntry{j, acc[j], ab[j], cnt[j]}); if (fabsl(acc[j]) > vmax) { vmax = fabsl(acc[j]); imax = i; jmax = j; } acc[j] = 0; ab[j] = 0; cnt[j] = 0; touched[j] = 0; } }
    // scale
    long double s = 1; bool scale_ok = true;
    if (alpha > 0) { s = 1 / (long double)alpha;
        if (!exact && jmax >= 0) { double got = 0; for (auto j = Ac.ptr[imax]; j < Ac.ptr[imax + 1]; ++j) if (Ac.col[j] == jmax) got = Ac.val[j]; for (auto &re : ref[imax]) if (re.col == jmax) s = (long double)got / re.v;
            scale_ok = std::isfinite((double)s) && fabsl(s * alpha - 1) <= 2.4e-7L; vf::obs_max("max_scale_dev", (double)fabsl(s * alpha - 1)); }
        c.check(scale_ok, "galerkin:rescaling:" + tag, "coarse operator is not R A P divided by the over-interpolation factor", J().n("alpha", alpha).n("scale_seen", (double)s)); if (!scale_ok) return false; }
    // values
    bool val_ok = true, extra_ok = true; double worst = 0; std::vector<long double> got(nc, 0); std::vector<char> has(nc, 0); size_t bi = 0; ptrdiff_t bj = -1; double bgot = 0, bref = 0;
    for (size_t i = 0; i < nc; ++i) {
        for (auto j = Ac.ptr[i]; j < Ac.ptr[i + 1]; ++j) { got[Ac.col[j]] = Ac.val[j]; has[Ac.col[j]] = 1; }
        for (auto &re : ref[i]) { long double want = re.v * s, g = got[re.col];   // an entry absent from Ac counts as 0
            if (exact) { if (!(g == want)) { if (val_ok) { bi = i; bj = re.col; bgot = (double)g; bref = (double)want; } val_ok = false; } }
            else { long double bd = 2 * (re.t + 6) * U * re.a * fabsl(s) + 4 * U * fabsl(want), d = fabsl(g - want); if (!(d <= bd)) { if (val_ok) { bi = i; bj = re.col; bgot = (double)g; bref = (double)want; } val_ok = false; } if (re.a > 0) worst = std::max(worst, (double)(d / (re.a * fabsl(s)))); }
            has[re.col] = 2; }
        for (auto j = Ac.ptr[i]; j < Ac.ptr[i + 1]; ++j) { if (has[Ac.col[j]] == 1 && Ac.val[j] != 0) extra_ok = false; got[Ac.col[j]] = 0; has[Ac.col[j]] = 0; }
        for (auto &re : ref[i]) { got[re.col] = 0; has[re.col] = 0; } }
    c.check(val_ok, "galerkin:value:" + tag, exact ? "integer-valued coarse operator differs from the exact triple product" : "coarse operator entry outside the rounding bound of the triple product R A P", J().n("row", bi).n("col", bj).n("got", bgot).n("ref", bref).n("alpha", alpha));
    c.check(extra_ok, "galerkin:spurious-entry:" + tag, "coarse operator stores a non-zero where the triple product has no term");
    if (!exact) vf::obs_max("max_galerkin_rel_discrepancy", worst);
    return val_ok && extra_ok;
}

// R is the exact transposed copy of P
static bool is_transpose(const Mat &P, const Mat &R) {
    if (R.nrows != P.ncols || R.ncols != P.nrows || R.nnz != P.nnz) return false;
    typedef std::tuple<ptrdiff_t, ptrdiff_t, uint64_t> T; std::vector<T> a, b; auto bits = [](double v) { uint64_t u; std::memcpy(&u, &v, 8); return u; };
    for (size_t i = 0; i < P.nrows; ++i) for (auto j = P.ptr[i]; j < P.ptr[i + 1]; ++j) a.emplace_back((ptrdiff_t)i, (ptrdiff_t)P.col[j], bits(P.val[j]));
    for (size_t i = 0; i < R.nrows; ++i) for (auto j = R.ptr[i]; j < R.ptr[i + 1]; ++j) b.emplace_back((ptrdiff_t)R.col[j], (ptrdiff_t)i, bits(R.val[j]));
    std::sort(a.begin(), a.end()); std::sort(b.begin(), b.end()); return a == b;
}

//---------------------------------------------------------------------------
// configuration
//---------------------------------------------------------------------------
static const char *COARS[] = {"aggregation", "smoothed_aggregation", "smoothed_aggr_emin", "ruge_stuben"};
static const char *RELAX[] = {"spai0", "damped_jacobi", "gauss_seidel", "ilu0", "chebyshev", "iluk", "ilup", "spai1", "ilut"};
struct Cfg { std::string coars, relax; unsigned coarse_enough = 10, max_levels = 0, npre = 1, npost = 1, ncycle = 1, pre_cycles = 1; bool direct = true; double alpha = 0; int block = 1, nullcols = 0; ptree p; std::shared_ptr<std::vector<double>> nullB;
    std::vector<std::pair<std::string, std::string>> kv;     // what was put into the tree, for the descriptor (later puts replace earlier ones)
    void note(const std::string &k, const std::string &raw) { for (auto &e : kv) if (e.first == k) { e.second = raw; return; } kv.emplace_back(k, raw); }
    void putd(const std::string &k, double v) { p.put(k, v); note(k, vf::jnum(v)); }
    void puti(const std::string &k, long v) { p.put(k, v); note(k, vf::jnum(v)); }
    void putb(const std::string &k, bool v) { p.put(k, v); note(k, v ? "true" : "false"); }
    void puts(const std::string &k, const std::string &v) { p.put(k, v); note(k, vf::jstr(v)); }
    void set_coarse_enough(unsigned v) { coarse_enough = v; puti("coarse_enough", v); }
    void set_max_levels(unsigned v) { max_levels = v; puti("max_levels", v); }
    void set_alpha(double a) { alpha = a; putd("coarsening.over_interp", a); }
    void set_nullspace(int cols, std::shared_ptr<std::vector<double>> B, size_t n) { nullcols = cols; nullB = B; puti("coarsening.nullspace.cols", cols); p.put("coarsening.nullspace.rows", n); p.put("coarsening.nullspace.B", B->data()); }
    J desc() const { J d; for (auto &e : kv) d.raw(e.first, e.second); return d; } };

static Cfg draw(Rng &r, const std::string &coars, const std::string &relax, size_t n, bool wide, int block = 1) {
    Cfg c; c.coars = coars; c.relax = relax;
    c.puts("coarsening.type", coars); c.puts("relax.type", relax);
    unsigned ce = (unsigned)r.pick(std::vector<long>{1, 3, 8, 20, 50}); if (n > 600) ce = (unsigned)r.pick(std::vector<long>{20, 50, 200}); c.set_coarse_enough(ce);
    c.direct = !r.coin(0.25); c.putb("direct_coarse", c.direct); if (r.coin(0.25)) c.set_max_levels((unsigned)r.range(1, 4));
    c.npre = (unsigned)r.range(1, 2); c.npost = (unsigned)r.range(1, 2); c.ncycle = (unsigned)r.range(1, 2); c.pre_cycles = r.coin(0.2) ? 2 : 1;
    c.puti("npre", c.npre); c.puti("npost", c.npost); c.puti("ncycle", c.ncycle); c.puti("pre_cycles", c.pre_cycles);
    if (coars == "aggregation") c.alpha = 1.5;     // documented default for scalar value types
    if (block > 1 && coars != "ruge_stuben") { c.block = block; c.puti("coarsening.aggr.block_size", block); }
    if (wide) {
        if (coars == "ruge_stuben") { if (r.coin()) c.putd("coarsening.eps_strong", r.uni(0.05, 0.6)); if (r.coin()) { c.putb("coarsening.do_trunc", r.coin()); c.putd("coarsening.eps_trunc", r.uni(0.05, 0.5)); } }
        else { if (r.coin()) c.putd("coarsening.aggr.eps_strong", r.pick(std::vector<double>{0.0, 0.02, 0.08, 0.2, 0.5}));
            if (coars == "aggregation" && r.coin(0.7)) c.set_alpha(r.pick(std::vector<double>{1.0, 1.2, 1.5, 1.8, 2.0, 3.0}));
            if (coars == "smoothed_aggregation") { if (r.coin()) c.putd("coarsening.relax", r.uni(0.3, 1.5)); if (r.coin(0.4)) { c.putb("coarsening.estimate_spectral_radius", true); c.puti("coarsening.power_iters", r.coin() ? 0 : (long)r.range(1, 8)); } }
            if (block == 1 && r.coin(0.2) && n >= 8) { int nc = (int)r.range(1, 2); auto B = std::make_shared<std::vector<double>>(n * nc);   // near null space: constant (+ a smooth ramp)
                for (size_t i = 0; i < n; ++i) { (*B)[i * nc] = 1.0; if (nc > 1) (*B)[i * nc + 1] = (double)i / n + 0.01 * r.uni(-1, 1); }
                c.set_nullspace(nc, B, n); if (!c.max_levels) c.set_max_levels(10); } }   // guard: with near-null-space vectors a level may fail to shrink (reported by the size oracle); never let the hierarchy run away
        if (r.coin(0.15)) c.putb("allow_rebuild", true);
    }
    if (relax == "ilut") { c.puti("relax.p", r.range(1, 3)); c.putd("relax.tau", 1e-2); }
    if (relax == "iluk" || relax == "ilup") c.puti("relax.k", r.range(1, 2));
    return c;
}

// Known weakness of the energy-minimising coarsening (reported to the lead, not part of this property): the damping
// omega_j = (A P_t e_j, A D^-1 A P_t e_j) / |A D^-1 A P_t e_j|^2 can cancel a tentative column completely (e.g. an aggregate that is
// a whole connected component: for [[5,-1],[-1,5]] omega = 1.25 and 1 - 0.8 omega = 0), the coarse matrix then has a zero row/column:
// the direct coarse solver throws or the smoothed coarse level returns NaN.  Recognised from the recorded transfer operators.
static bool vanishing_prolongation_column() {
    for (auto &e : g_tape) { if (e.kind != 0 || !e.P) continue; const Mat &P = *e.P; std::vector<double> cm(P.ncols, 0.0); double gm = 0;
        for (size_t i = 0; i < P.nrows; ++i) for (auto j = P.ptr[i]; j < P.ptr[i + 1]; ++j) { double v = std::fabs(P.val[j]); if (!(v <= cm[P.col[j]])) cm[P.col[j]] = v; if (v > gm) gm = v; }
        for (double v : cm) if (v <= 1e-10 * gm) return true; }
    return false;
}
static std::string build_failure_key(const std::string &coars, const std::exception &e);
// stable key fragment from an exception text (digits dropped)
static std::string exkey(const std::exception &e) { std::string s = e.what(), o; for (char ch : s) { if (o.size() >= 40) break; if (std::isdigit((unsigned char)ch)) continue; o += (ch == ' ' ? '_' : ch); } return o; }

template <class AMG> static std::string sizes(AMG &a) { std::string s; for (auto &l : amgcl::verif::access::levels(a)) { if (!s.empty()) s += ">"; s += std::to_string(l.m_rows); } return s; }

// probe of the action: unit vectors (all when n <= 150) and random vectors; the bit pattern of all results
template <class AMG> static std::vector<double> probe(const AMG &a, size_t n, uint64_t seed) {
    Rng r(seed); std::vector<double> out, f(n), x(n); std::vector<size_t> units;
    if (n <= (size_t)vf::opt_int("probe_all_below", 150)) for (size_t j = 0; j < n; ++j) units.push_back(j); else for (int k = 0; k < 12; ++k) units.push_back(r.next() % n);
    for (size_t j : units) { std::fill(f.begin(), f.end(), 0.0); f[j] = 1; a.apply(f, x); out.insert(out.end(), x.begin(), x.end()); }
    for (int k = 0; k < 6; ++k) { for (auto &v : f) v = r.uni(-1, 1); a.apply(f, x); out.insert(out.end(), x.begin(), x.end()); }
    return out;
}
static bool finite_vec(const std::vector<double> &v) { for (double x : v) if (!std::isfinite(x)) return false; return true; }

static std::string build_failure_key(const std::string &coars, const std::exception &e) {
    if (coars == "smoothed_aggr_emin" && vanishing_prolongation_column()) return "coarse-matrix-singular:smoothed_aggr_emin:vanishing-prolongation-column";
    return "exception:build:" + coars + ":" + exkey(e);
}
//---------------------------------------------------------------------------
// oracles over one construction: tape + level list
//---------------------------------------------------------------------------
struct Built { std::vector<Csr<double>> A, P, R; std::vector<std::shared_ptr<Mat>> Praw, Rraw; bool ended_empty = false; bool nonfinite = false; };

// returns false when the structural picture is broken (later oracles are skipped)
static bool check_build(Case &c, AMGrec &a, const Cfg &cfg, const Csr<double> &A0, bool exact, Built &out) {
    const std::string &tag = cfg.coars; auto &lv = amgcl::verif::access::levels(a);
    // split the tape
    std::vector<const Ev*> T, C; bool order_ok = true; int expect = 0;
    // a library may decline a coarsening step whose result is empty or not smaller than the fine level (same effect as an empty level)
    if (!g_tape.empty() && g_tape.back().kind == 0 && (g_tape.back().P->ncols == 0 || g_tape.back().P->ncols >= g_tape.back().A->nrows)) { g_tape.pop_back(); out.ended_empty = true; vf::obs_sum("declined_non_shrinking_steps"); }
    for (auto &e : g_tape) { if (e.kind == 2) { out.ended_empty = true; if (expect != 0) order_ok = false; expect = 3; continue; } if (e.kind != expect) order_ok = false; if (e.kind == 0) { T.push_back(&e); expect = 1; } else { C.push_back(&e); expect = 0; } }
    if (!c.check(order_ok && T.size() == C.size(), "policy:call-protocol:" + tag, "amg did not call transfer_operators / coarse_operator alternately", J().n("transfer_calls", T.size()).n("coarse_calls", C.size()))) return false;
    size_t m = T.size(), L = lv.size();
    c.check(L == m + 1, "levels:count:" + tag, "number of levels differs from the number of coarsening steps + 1", J().n("levels", L).n("steps", m).s("sizes", sizes(a)));
    if (L != m + 1) return false;
    Csr<double> cur = canon(Mat(A0.n, A0.m, A0.ptr, A0.col, A0.val));   // the hierarchy starts from the sorted input
    bool all_finite = true;
    size_t li = 0; auto it = lv.begin();
    for (; li < m; ++li, ++it) { const Ev &t = *T[li], &k = *C[li]; Csr<double> At = canon(*t.A), Pk = canon(*t.P), Rk = canon(*t.R);
        c.check(same(At, cur), "chain:transfer-input:" + tag, "the matrix given to transfer_operators on this level is not the previous coarse operator (sorted)", J().n("level", li));
        c.check(same(canon(*k.A), cur) && same(canon(*k.P), Pk) && same(canon(*k.R), Rk), "chain:coarse-operator-arguments:" + tag, "coarse_operator was not called with this level's matrix and the transfer operators just produced", J().n("level", li));
        bool fin = finite_vals(*t.P) && finite_vals(*t.R); all_finite = all_finite && fin;
        // sizes strictly decrease
        c.check(t.P->ncols > 0 && t.P->ncols < t.A->nrows, "sizes:not-decreasing:" + tag, "coarse level is not strictly smaller than the fine level", J().n("level", li).n("fine", t.A->nrows).n("coarse", t.P->ncols));
        // R == P^T (not claimed for energy minimisation)
        if (cfg.coars != "smoothed_aggr_emin" && fin) c.check(is_transpose(*t.P, *t.R), "transfer:R-not-adjoint-of-P:" + tag, "restriction is not the exact transposed copy of the prolongation", J().n("level", li));
        // Galerkin
        check_galerkin(c, k, cfg.alpha, exact, tag);
        // the private level list against the recording
        bool lvl_ok = it->A && it->P && it->R && it->relax && !it->solve && it->m_rows == t.A->nrows && it->m_nonzeros == t.A->nnz;
        if (c.check(lvl_ok, "levels:intermediate-level-shape:" + tag, "an intermediate level lacks A / P / R / smoother, holds a direct solver, or reports wrong sizes", J().n("level", li))) {
            c.check(same(canon(*it->A), cur) && rows_sorted_unique(*it->A), "levels:A-differs-from-recorded:" + tag, "level matrix differs from the matrix the coarsening saw", J().n("level", li));
            c.check(same(canon(*it->P), Pk) && same(canon(*it->R), Rk) && rows_sorted_unique(*it->P) && rows_sorted_unique(*it->R), "levels:PR-differ-from-recorded:" + tag, "level transfer operators differ from those returned by the coarsening", J().n("level", li));
            bool allow = a.prm.allow_rebuild;
            c.check(allow ? (it->bP && it->bR && same(canon(*it->bP), Pk) && same(canon(*it->bR), Rk)) : (!it->bP && !it->bR), "levels:retained-PR:" + tag, "retained transfer operators (bP, bR) do not match allow_rebuild / the recorded operators", J().n("level", li)); }
        c.check(t.A->nrows > cfg.coarse_enough, "levels:coarsened-below-coarse_enough:" + tag, "a level with at most coarse_enough unknowns was coarsened further", J().n("level", li).n("rows", t.A->nrows));
        out.A.push_back(cur); out.P.push_back(Pk); out.R.push_back(Rk); out.Praw.push_back(t.P); out.Rraw.push_back(t.R);
        cur = canon(*k.Ac); }
    out.A.push_back(cur); out.nonfinite = !all_finite;
    // last level
    size_t nl = cur.n; bool small = nl <= cfg.coarse_enough; const auto &last = *it;
    c.check(last.m_rows == nl, "levels:last-level-size:" + tag, "the last level does not have the size of the last coarse operator", J().n("got", last.m_rows).n("expected", nl));
    if (small) { c.check(cfg.direct ? (bool)last.solve && !last.relax : !last.solve && (bool)last.relax, "levels:coarse-solver-choice:" + tag, "last level (<= coarse_enough unknowns): direct solver must be present iff direct_coarse, smoother otherwise", J().n("rows", nl).bl("direct_coarse", cfg.direct).bl("has_solve", (bool)last.solve).bl("has_relax", (bool)last.relax)); }
    else { c.check(!last.solve && (bool)last.relax, "levels:coarse-solver-choice:" + tag, "last level larger than coarse_enough must be handled by the smoother", J().n("rows", nl).bl("has_solve", (bool)last.solve));
        c.check((cfg.max_levels && L == cfg.max_levels) || out.ended_empty, "levels:stopped-early:" + tag, "coarsening stopped above coarse_enough without reaching max_levels or an empty level", J().n("rows", nl).n("levels", L)); }
    if (cfg.max_levels) c.check(L <= cfg.max_levels, "levels:max_levels-exceeded:" + tag, "more levels than max_levels");
    if (last.A) c.check(same(canon(*last.A), cur), "levels:A-differs-from-recorded:" + tag, "last level matrix differs from the last coarse operator");
    if (last.relax) c.check((bool)last.A, "levels:last-level-shape:" + tag, "smoother level without a matrix");
    c.check(!last.P && !last.R && !last.bP && !last.bR, "levels:last-level-shape:" + tag, "last level holds transfer operators");
    return true;
}

//---------------------------------------------------------------------------
// input families
//---------------------------------------------------------------------------
static Csr<double> int_grid(int nx, int ny, Rng &r, int shift) {   // 5-point Laplacian with integer face coefficients
    std::vector<std::tuple<ptrdiff_t, ptrdiff_t, double>> t; auto id = [&](int i, int j) { return (ptrdiff_t)j * nx + i; };
    for (int j = 0; j < ny; ++j) for (int i = 0; i < nx; ++i) { t.emplace_back(id(i, j), id(i, j), (double)shift + (i == 0) + (i == nx - 1) + (j == 0) + (j == ny - 1));
        if (i + 1 < nx) { double w = (double)r.range(1, 3); t.emplace_back(id(i, j), id(i + 1, j), -w); t.emplace_back(id(i + 1, j), id(i, j), -w); t.emplace_back(id(i, j), id(i, j), w); t.emplace_back(id(i + 1, j), id(i + 1, j), w); }
        if (j + 1 < ny) { double w = (double)r.range(1, 3); t.emplace_back(id(i, j), id(i, j + 1), -w); t.emplace_back(id(i, j + 1), id(i, j), -w); t.emplace_back(id(i, j), id(i, j), w); t.emplace_back(id(i, j + 1), id(i, j + 1), w); } }
    return vf::from_triplets<double>((size_t)nx * ny, (size_t)nx * ny, t);
}
static Csr<double> int_dd(size_t n, double dens, Rng &r, bool symmetric) {     // integer-valued strictly diagonally dominant, mixed signs off the diagonal
    std::vector<std::tuple<ptrdiff_t, ptrdiff_t, double>> t; std::vector<double> rs(n, 0);
    for (size_t i = 0; i < n; ++i) for (size_t j = symmetric ? i + 1 : 0; j < n; ++j) if (i != j && r.coin(dens)) { double v = (double)r.range(1, 4) * (r.coin(0.8) ? -1 : 1); t.emplace_back(i, j, v); rs[i] += std::fabs(v); if (symmetric) { t.emplace_back(j, i, v); rs[j] += std::fabs(v); } }
    for (size_t i = 0; i < n; ++i) t.emplace_back(i, i, rs[i] + (double)r.range(1, 2));
    return vf::from_triplets<double>(n, n, t);
}

struct Input { Csr<double> A; std::string family; bool integer = false; int block = 1; };
static Input gen_input(Rng &r, int kind, bool big, bool huge = false) {
    Input in; int nmax = huge ? 12000 : big ? 2500 : 400; if (huge) big = true;
    switch (kind) {
        case 0: { vf::GridSpec g; in.A = vf::model_problem(r, 60, nmax, &g); in.family = "G1-model"; break; }
        case 1: { vf::GridSpec g; int s = (int)r.range(6, huge ? 100 : big ? 40 : 18); g.nx = s; g.ny = (int)r.range(5, s); g.contrast = r.logu(1, 1e3); g.aniso = r.logu(1e-3, 1); g.nine = r.coin(0.3); in.A = vf::grid_diffusion(g, r); in.family = "G1-hard"; break; }
        case 2: in.A = vf::connected_graph_laplacian((size_t)r.range(30, nmax / 2), r.uni(2.5, 7), r, r.coin(), r.coin(0.3)); in.family = "G2-graph"; break;
        case 3: in.A = vf::convdiff((int)r.range(6, big ? 40 : 18), (int)r.range(5, big ? 40 : 18), r.logu(0.1, 50), r, false); in.family = "G3-convdiff"; break;
        case 4: in.A = vf::convdiff((int)r.range(6, big ? 40 : 18), (int)r.range(5, 18), r.logu(0.1, 50), r, true); in.family = "G3-struct-nonsym"; break;
        case 5: { int b = (int)r.range(2, 3); vf::GridSpec g; g.nx = (int)r.range(5, 12); g.ny = (int)r.range(4, 10); g.contrast = r.logu(1, 10); Csr<double> S = vf::grid_diffusion(g, r); in.A = vf::kron(S, vf::spd_block(b, r), b); if (r.coin(0.3)) in.A = vf::punch_blocks(in.A, 0.2, r); in.block = b; in.family = "G5-kron"; break; }
        case 6: in.A = vf::random_dd((size_t)r.range(20, 300), r.uni(0.01, 0.08), r, r.coin(), 1.3); for (size_t i = 0; i < in.A.n; ++i) for (auto j = in.A.ptr[i]; j < in.A.ptr[i + 1]; ++j) if ((size_t)in.A.col[j] == i) in.A.val[j] = std::fabs(in.A.val[j]); in.family = "random-dd"; break;
        case 7: in.A = int_grid((int)r.range(4, big ? 30 : 14), (int)r.range(3, 14), r, (int)r.range(0, 2)); in.integer = true; in.family = "int-grid"; break;
        case 8: in.A = int_dd((size_t)r.range(6, 120), r.uni(0.03, 0.3), r, r.coin()); in.integer = true; in.family = "int-dd"; break;
        default: { size_t n = (size_t)r.range(3, 6); uint64_t mask = r.next() & ((1ULL << vf::offdiag_count(n)) - 1); if (r.coin()) mask = vf::sym_mask_to_full(n, r.next() & ((1ULL << (n * (n - 1) / 2)) - 1));
            in.A = vf::pattern_matrix(n, mask, [&](size_t, size_t) { return -(double)r.range(1, 3); }, [&](size_t, double s) { return s + 1; }); in.integer = true; in.family = "G7-pattern"; break; }
    }
    return in;
}
static const int NKINDS = 10;

// relaxation that is well defined on the family (ILU on non-M-matrices may legitimately hit a zero pivot: not this property's business)
static std::string pick_relax(Rng &r, const Input &in) {
    bool spdish = in.family == "G1-model" || in.family == "G1-hard" || in.family == "G2-graph" || in.family == "int-grid";
    if (spdish) return RELAX[r.next() % 9];
    return RELAX[r.next() % 3];
}

//---------------------------------------------------------------------------
static void sub_hier() {
    long N = vf::tier(240, 4000), stride = vf::opt_int("stride", 1);
    for (long idx = 0; idx < N; ++idx) {
        if (!vf::selected("hier", idx) || idx % stride) continue;
        Rng r(vf::case_seed("hier", idx)); int kind = (int)(idx % NKINDS), ci = (int)((idx / NKINDS) % 4);
        Input in = gen_input(r, kind, idx % 7 == 6, vf::thorough() && idx % 50 == 48); size_t n = in.A.n;
        Cfg cfg = draw(r, COARS[ci], pick_relax(r, in), n, idx >= 40, in.block);
        bool exact = in.integer && cfg.coars == "aggregation" && cfg.nullcols == 0;
        if (exact) cfg.set_alpha(r.pick(std::vector<double>{1.0, 2.0, 4.0}));
        Csr<double> Ain = r.coin(0.15) ? vf::shuffle_rows(in.A, r) : in.A;
        Case c("hier", idx, J().s("family", in.family).n("n", n).n("nnz", in.A.nnz()).bl("integer", in.integer).o("cfg", cfg.desc()).n("threads", omp_get_max_threads()));
        g_tape.clear();
        try {
            AMGrec a(Ain.tie(), AMGrec::params(cfg.p)); Built b;
            if (check_build(c, a, cfg, in.A, exact, b)) { if (b.P.size() >= 1) c.nontrivial();
                vf::obs_add("coarsenings_seen", cfg.coars); vf::obs_max("max_levels_seen", (double)(b.P.size() + 1)); if (exact) vf::obs_sum("exact_hierarchies"); if (b.nonfinite) vf::obs_sum("hierarchies_with_nonfinite_transfer_operators");
                vf::sample("hier", J().s("family", in.family).n("n", n).s("coarsening", cfg.coars).n("alpha", cfg.alpha).s("level_sizes", sizes(a)).bl("exact", exact).n("threads", omp_get_max_threads())); }
        } catch (const std::exception &e) { c.fail(build_failure_key(cfg.coars, e), e.what()); }
    }
}

//---------------------------------------------------------------------------
// synthetic transfer operators through the replaying policy: integer data, all four coarse_operator implementations exact
static void sub_synthetic() {
    long N = vf::tier(160, 2000), stride = vf::opt_int("stride", 1);
    for (long idx = 0; idx < N; ++idx) {
        if (!vf::selected("synthetic", idx) || idx % stride) continue;
        Rng r(vf::case_seed("synthetic", idx)); int ci = (int)(idx % 4);
        Csr<double> A = r.coin() ? int_grid((int)r.range(3, 12), (int)r.range(3, 10), r, 1) : int_dd((size_t)r.range(6, 90), r.uni(0.05, 0.3), r, true);
        size_t n = A.n; double alpha = ci == 0 ? r.pick(std::vector<double>{1.0, 2.0, 4.0}) : 0.0; bool general_R = r.coin(0.3);
        // levels of integer aggregation-like P: row i -> aggregate i / g with weight 1..3 (+ a second entry sometimes); R = P^T (+ extra integer entries when general_R)
        g_rep = ReplaySrc(); size_t cur = n; int nlev = (int)r.range(1, 3);
        for (int l = 0; l < nlev && cur >= 4; ++l) { size_t g = (size_t)r.range(2, 3), nc = (cur + g - 1) / g; Csr<double> P(cur, nc);
            for (size_t i = 0; i < cur; ++i) { size_t a = i / g; std::vector<std::pair<ptrdiff_t, double>> e; e.emplace_back(a, (double)r.range(1, 3)); if (i % g != 0 && r.coin(0.2) && nc > 1) { size_t b2 = (a + 1) % nc; if (b2 != a) e.emplace_back(b2, (double)r.range(1, 2)); }
                if (r.coin()) std::reverse(e.begin(), e.end()); for (auto &q : e) P.push(q.first, q.second); P.end_row(); }
            Csr<double> Rt = vf::transpose(P); if (general_R) { std::vector<std::tuple<ptrdiff_t, ptrdiff_t, double>> t; for (size_t i = 0; i < Rt.n; ++i) { for (auto j = Rt.ptr[i]; j < Rt.ptr[i + 1]; ++j) t.emplace_back(i, Rt.col[j], Rt.val[j]); if (r.coin(0.3)) t.emplace_back(i, (ptrdiff_t)(r.next() % cur), 1.0); } Rt = vf::from_triplets<double>(nc, cur, t); }
            g_rep.pr.emplace_back(std::make_shared<Mat>(cur, nc, P.ptr, P.col, P.val), std::make_shared<Mat>(nc, cur, Rt.ptr, Rt.col, Rt.val)); cur = nc; }
        ptree p; p.put("coarsening.type", COARS[ci]); if (alpha > 0) p.put("coarsening.over_interp", alpha); p.put("relax.type", "damped_jacobi"); p.put("coarse_enough", 1); p.put("direct_coarse", !general_R);
        p.put("max_levels", g_rep.pr.size() + 1);
        Case c("synthetic", idx, J().s("coarsening", COARS[ci]).n("n", n).n("levels", g_rep.pr.size() + 1).n("alpha", alpha).bl("general_R", general_R).n("threads", omp_get_max_threads()));
        g_tape.clear();
        try { AMGrep a(A.tie(), AMGrep::params(p)); size_t k = 0; Csr<double> curA = canon(Mat(A.n, A.m, A.ptr, A.col, A.val));
            for (auto &e : g_tape) { if (e.kind != 1) continue; c.check(same(canon(*e.A), curA) && k < g_rep.pr.size() && same(canon(*e.P), canon(*g_rep.pr[k].first)) && same(canon(*e.R), canon(*g_rep.pr[k].second)), "chain:coarse-operator-arguments:" + std::string(COARS[ci]), "coarse_operator was not called with the level matrix and the supplied transfer operators", J().n("level", k));
                check_galerkin(c, e, alpha, true, COARS[ci]); curA = canon(*e.Ac); ++k; }
            c.check(k == g_rep.pr.size() && !g_rep.overrun, "policy:call-protocol:" + std::string(COARS[ci]), "number of coarse_operator calls differs from the number of supplied transfer operator pairs", J().n("calls", k).n("pairs", g_rep.pr.size()));
            if (k) c.nontrivial(); vf::obs_add("synthetic_coarse_operators", COARS[ci]);
        } catch (const std::exception &e) { c.fail(build_failure_key(COARS[ci], e), e.what()); }
    }
}

//---------------------------------------------------------------------------
// rebuild histories
static Csr<double> mutate(const Csr<double> &A, int how, Rng &r, std::string &name) {
    Csr<double> M = A;
    auto fix_diag = [&](Csr<double> &X) { for (size_t i = 0; i < X.n; ++i) { double s = 0; ptrdiff_t dpos = -1; for (auto j = X.ptr[i]; j < X.ptr[i + 1]; ++j) { if ((size_t)X.col[j] == i) dpos = j; else s += std::fabs(X.val[j]); } if (dpos >= 0) X.val[dpos] = std::max(std::fabs(X.val[dpos]), s * 1.05 + 1e-3); } };
    switch (how) {
        case 0: { int k = (int)r.range(-6, 6); M = vf::scaled_pow2(A, k ? k : 1); name = "scaled-pow2"; break; }
        case 1: { double s = r.logu(1e-3, 1e3); for (auto &v : M.val) v *= s; name = "scaled"; break; }
        case 2: { for (auto &v : M.val) v *= r.uni(0.7, 1.3); fix_diag(M); name = "perturbed"; break; }
        case 3: { for (size_t i = 0; i < M.n; ++i) for (auto j = M.ptr[i]; j < M.ptr[i + 1]; ++j) if ((size_t)M.col[j] != i && r.coin(0.3)) M.val[j] = -M.val[j]; name = "sign-changed"; break; }
        case 4: { Csr<double> D(A.n, A.m); for (size_t i = 0; i < A.n; ++i) { for (auto j = A.ptr[i]; j < A.ptr[i + 1]; ++j) if ((size_t)A.col[j] == i || !r.coin(0.2)) D.push(A.col[j], A.val[j] * r.uni(0.8, 1.2)); D.end_row(); } fix_diag(D); M = D; name = "entries-dropped"; break; }
        case 5: { std::vector<std::tuple<ptrdiff_t, ptrdiff_t, double>> t; for (size_t i = 0; i < A.n; ++i) { for (auto j = A.ptr[i]; j < A.ptr[i + 1]; ++j) t.emplace_back(i, A.col[j], A.val[j]); if (r.coin(0.2)) t.emplace_back(i, (ptrdiff_t)(r.next() % A.n), -r.uni(0.01, 0.3)); } M = vf::from_triplets<double>(A.n, A.m, t); fix_diag(M); name = "entries-added"; break; }
        default: { M = vf::shuffle_rows(A, r); for (auto &v : M.val) v *= 1.5; name = "row-shuffled-scaled"; break; }
    }
    return M;
}

static void sub_rebuild() {
    long N = vf::tier(128, 1600), stride = vf::opt_int("stride", 1);
    for (long idx = 0; idx < N; ++idx) {
        if (!vf::selected("rebuild", idx) || idx % stride) continue;
        Rng r(vf::case_seed("rebuild", idx)); int ci = (int)(idx % 4), kind = (int)((idx / 4) % 7); if (kind == 5) kind = 7;   // all families but kron (block_size) keep it simple: 0,1,2,3,4,6,7
        Input in = gen_input(r, kind, false); size_t n = in.A.n;
        Cfg cfg = draw(r, COARS[ci], pick_relax(r, in), n, idx >= 16, 1); if (cfg.coarse_enough > 20) cfg.set_coarse_enough(8);
        // hierarchy shapes that the random draw (almost) never produces: the whole system handled by the direct solver alone (the single
        // level then owns a backend matrix AND a solver), one smoother-only level, and two levels with a direct coarse level
        int shape = (int)((idx / 4) % 8);
        if (shape == 5) { cfg.set_coarse_enough((unsigned)(n + r.range(0, 50))); cfg.direct = true; cfg.putb("direct_coarse", true); if (cfg.max_levels) cfg.set_max_levels((unsigned)r.range(1, 3)); }
        else if (shape == 6) { cfg.set_max_levels(1); if (cfg.coarse_enough >= n) cfg.set_coarse_enough(8); }
        else if (shape == 7) { cfg.set_coarse_enough((unsigned)std::max<size_t>(2, n / 2)); cfg.direct = true; cfg.putb("direct_coarse", true); if (cfg.max_levels == 1) cfg.set_max_levels(2); }
        const char *shape_name = shape == 5 ? "single-level-direct" : shape == 6 ? "single-level-smoother" : shape == 7 ? "two-level-direct" : "random";
        int nreb = (int)r.range(1, 6);
        Case c("rebuild", idx, J().s("family", in.family).n("n", n).n("nnz", in.A.nnz()).n("rebuilds", nreb).s("shape", shape_name).o("cfg", cfg.desc()).n("threads", omp_get_max_threads()));
        g_tape.clear();
        try {
            AMGrec a(in.A.tie(), AMGrec::params(cfg.p)); Built b0;
            if (!check_build(c, a, cfg, in.A, false, b0)) continue;
            if (!a.prm.allow_rebuild) { fprintf(stderr, "internal: allow_rebuild default is not true for the builtin backend\n"); exit(3); }
            size_t m = b0.P.size(); uint64_t pseed = r.next(); std::vector<double> act0 = probe(a, n, pseed);
            if (b0.nonfinite || !finite_vec(act0)) { vf::obs_sum("rebuild_cases_skipped_nonfinite_hierarchy"); continue; }
            auto &lv = amgcl::verif::access::levels(a); std::string hist;
            for (int step = 0; step <= nreb; ++step) {
                std::string mname = "original"; Csr<double> An = step == nreb ? in.A : mutate(in.A, (int)r.range(0, 6), r, mname); hist += (hist.empty() ? "" : ",") + mname;
                g_tape.clear();
                try { a.rebuild(An.tie()); }
                catch (const std::exception &e) {      // a component may legitimately refuse a matrix (e.g. zero pivot); then a fresh build must refuse it too
                    g_rep = ReplaySrc(); for (size_t l = 0; l < m; ++l) g_rep.pr.emplace_back(b0.Praw[l], b0.Rraw[l]); bool fresh_throws = false;
                    try { AMGrep fresh(An.tie(), AMGrep::params(cfg.p)); } catch (const std::exception &) { fresh_throws = true; }
                    c.check(fresh_throws, "rebuild:exception:" + cfg.coars + "/" + cfg.relax, std::string("rebuild threw although a fresh hierarchy can be built from the same matrix: ") + e.what(), J().n("step", step).s("matrix", mname));
                    vf::obs_sum("rebuild_histories_cut_by_component_exception"); break; }
                std::string tag = cfg.coars; J where = J().n("step", step).s("matrix", mname).s("history", hist);
                // (a) coarse_operator calls seen during the rebuild (a library may also form R A' P without consulting the policy:
                //     then this part observes nothing and (b), (c) carry the check): original transfer operators, chained, Galerkin
                size_t k = 0; Csr<double> first = canon(Mat(An.n, An.m, An.ptr, An.col, An.val)), cur = first; std::vector<Csr<double>> chain(1, cur); bool proto = true;
                for (auto &e : g_tape) if (e.kind != 1) proto = false;
                if (proto && g_tape.size() == m) {
                    for (auto &e : g_tape) {
                        c.check(same(canon(*e.A), cur), "rebuild:chain:" + tag, "rebuild: coarse_operator on this level was not given the new matrix of the level", where);
                        c.check(same(canon(*e.P), b0.P[k]) && same(canon(*e.R), b0.R[k]), "rebuild:transfer-operators-changed:" + tag, "rebuild: coarse_operator was given transfer operators that differ from the original ones", where);
                        check_galerkin(c, e, cfg.alpha, false, tag); cur = canon(*e.Ac); chain.push_back(cur); ++k; }
                    vf::obs_sum("rebuilds_observed_through_policy"); }
                else { chain.clear(); vf::obs_sum("rebuilds_not_observed_through_policy"); }
                // (b) level list: transfer operators untouched; every stored level matrix is the (rescaled) Galerkin product of the level above
                size_t li = 0; bool lv_ok = lv.size() == m + 1; const Mat *Aprev = nullptr, *Pprev = nullptr, *Rprev = nullptr;
                for (auto it = lv.begin(); lv_ok && it != lv.end(); ++it, ++li) {
                    if (li < m) c.check(it->P && it->R && it->bP && it->bR && same(canon(*it->P), b0.P[li]) && same(canon(*it->R), b0.R[li]) && same(canon(*it->bP), b0.P[li]) && same(canon(*it->bR), b0.R[li]), "rebuild:transfer-operators-changed:" + tag, "rebuild changed P / R / bP / bR of a level", where);
                    if (li == 0) c.check(it->A && same(canon(*it->A), first), "rebuild:stale-level-matrix:" + tag, "after rebuild the finest level does not hold the new matrix", J().n("level", li).n("step", step).s("matrix", mname));
                    if (it->A && !chain.empty()) c.check(same(canon(*it->A), chain[li]), "rebuild:stale-level-matrix:" + tag, "after rebuild a level matrix is not the coarse operator computed for the new matrix", J().n("level", li).n("step", step).s("matrix", mname));
                    if (it->A && Aprev && Pprev && Rprev) { Ev e; e.kind = 1; e.A = std::make_shared<Mat>(*Aprev); e.P = std::make_shared<Mat>(*Pprev); e.R = std::make_shared<Mat>(*Rprev); e.Ac = std::make_shared<Mat>(*it->A);
                        if (!check_galerkin(c, e, cfg.alpha, false, tag)) c.fail("rebuild:stale-level-matrix:" + tag, "after rebuild a level matrix is not R A' P (rescaled) of the level above", J().n("level", li).n("step", step).s("matrix", mname)); }
                    Aprev = it->A ? it->A.get() : nullptr; Pprev = it->bP ? it->bP.get() : nullptr; Rprev = it->bR ? it->bR.get() : nullptr; }
                c.check(lv_ok, "rebuild:level-count-changed:" + tag, "rebuild changed the number of levels", where);
                // (c) fresh hierarchy from An with the recorded transfer operators (replaying policy): level matrices and action bitwise equal
                g_rep = ReplaySrc(); for (size_t l = 0; l < m; ++l) g_rep.pr.emplace_back(b0.Praw[l], b0.Rraw[l]);
                std::vector<Ev> keep; keep.swap(g_tape);
                AMGrep fresh(An.tie(), AMGrep::params(cfg.p)); g_tape.clear();
                auto &fl = amgcl::verif::access::levels(fresh);
                bool same_shape = fl.size() == lv.size() && g_rep.pos == m && (g_rep.overrun == b0.ended_empty);
                c.check(same_shape, "rebuild:fresh-hierarchy-shape:" + tag, "a fresh hierarchy built from the new matrix with the recorded transfer operators has a different shape", J().n("fresh_levels", fl.size()).n("levels", lv.size()).n("step", step).s("matrix", mname));
                if (same_shape) { auto i1 = lv.begin(); auto i2 = fl.begin(); size_t l2 = 0; for (; i1 != lv.end(); ++i1, ++i2, ++l2) { bool eq = (bool)i1->A == (bool)i2->A && (bool)i1->relax == (bool)i2->relax && (bool)i1->solve == (bool)i2->solve && (!i1->A || same(canon(*i1->A), canon(*i2->A)));
                        c.check(eq, "rebuild:differs-from-fresh-hierarchy:" + tag, "rebuilt level differs from the level of a fresh hierarchy assembled from the new matrix with the same transfer operators", J().n("level", l2).n("step", step).s("matrix", mname)); }
                    std::vector<double> ar = probe(a, n, pseed), af = probe(fresh, n, pseed);
                    c.check(vf::bitwise_equal(ar, af), "rebuild:action-differs-from-fresh:" + tag + "/" + cfg.relax, "after rebuild the preconditioner does not act bitwise like a fresh hierarchy built from the new matrix with the same transfer operators", where);
                    if (step == nreb) c.check(vf::bitwise_equal(ar, act0), "rebuild:original-action-not-restored:" + tag + "/" + cfg.relax, "rebuild with the original matrix does not restore the original action bitwise", where); }
                vf::obs_sum("rebuilds_checked");
            }
            if (m >= 1 || shape == 5 || shape == 6) c.nontrivial(); vf::obs_add("rebuild_shapes", std::string(shape_name) + ":" + std::to_string(lv.size()) + (lv.back().solve ? "-levels-direct" : "-levels-smoother")); vf::obs_add("rebuild_cells", cfg.coars + "/" + cfg.relax);
            vf::sample("rebuild", J().s("family", in.family).n("n", n).s("coarsening", cfg.coars).s("relax", cfg.relax).s("history", hist).s("level_sizes", sizes(a)).n("threads", omp_get_max_threads()));
        } catch (const std::exception &e) { c.fail(build_failure_key(cfg.coars, e), e.what()); }
    }
    // allow_rebuild = false: rebuild must refuse, nothing retained
    if (vf::selected("rebuild_refused", 0)) { Rng r(vf::case_seed("rebuild_refused", 0)); Case c("rebuild_refused", 0, J().s("what", "allow_rebuild=false"));
        Csr<double> A = int_grid(8, 7, r, 1); ptree p; p.put("coarsening.type", "smoothed_aggregation"); p.put("relax.type", "spai0"); p.put("coarse_enough", 5); p.put("allow_rebuild", false);
        g_tape.clear(); AMGrec a(A.tie(), AMGrec::params(p)); bool threw = false; try { a.rebuild(A.tie()); } catch (const std::runtime_error &) { threw = true; }
        c.check(threw, "rebuild:allowed-without-allow_rebuild", "rebuild() did not refuse although allow_rebuild is off"); bool none = true; for (auto &l : amgcl::verif::access::levels(a)) if (l.bP || l.bR) none = false; c.check(none, "levels:retained-PR:smoothed_aggregation", "transfer operators retained although allow_rebuild is off"); }
}

//---------------------------------------------------------------------------
// degenerate inputs
static Csr<double> pairs_matrix(size_t n) { std::vector<std::tuple<ptrdiff_t, ptrdiff_t, double>> t; for (size_t i = 0; i < n; i += 2) { t.emplace_back(i, i, 3.0); t.emplace_back(i + 1, i + 1, 3.0); t.emplace_back(i, i + 1, -2.0); t.emplace_back(i + 1, i, -2.0); } return vf::from_triplets<double>(n, n, t); }

static void run_degenerate(const char *sub, long idx, const Csr<double> &A, const std::string &fam, Cfg &cfg, bool integer, Rng &r) {
    size_t n = A.n; bool exact = integer && cfg.coars == "aggregation" && !cfg.nullcols; if (exact) cfg.set_alpha(2.0);
    Case c(sub, idx, J().s("family", fam).n("n", n).n("nnz", A.nnz()).n("nullspace_cols", cfg.nullcols).o("cfg", cfg.desc()).n("threads", omp_get_max_threads()));
    g_tape.clear();
    try { AMGrec a(A.tie(), AMGrec::params(cfg.p)); dump_tape(); Built b; check_build(c, a, cfg, A, exact, b); c.nontrivial(); vf::obs_add("degenerate_families", fam);
        // the hierarchy of a valid (non-singular, diagonally dominant) matrix must also be applicable
        std::vector<double> f(n, 1.0), x(n, 0.0); a.apply(f, x); bool emin_known = cfg.coars == "smoothed_aggr_emin" && vanishing_prolongation_column();
        c.check(finite_vec(x) || b.nonfinite, emin_known ? "coarse-matrix-singular:smoothed_aggr_emin:vanishing-prolongation-column" : "apply:nonfinite-action:" + cfg.coars, "apply on a degenerate but valid matrix returned NaN/Inf", J().s("sizes", sizes(a)));
    } catch (const std::exception &e) { c.fail(build_failure_key(cfg.coars, e), e.what()); }
    (void)r;
}

static void sub_degenerate() {
    long N = vf::tier(64, 960), stride = vf::opt_int("stride", 1);
    for (long idx = 0; idx < N; ++idx) {
        if (!vf::selected("degenerate", idx) || idx % stride) continue;
        Rng r(vf::case_seed("degenerate", idx)); int ci = (int)(idx % 4), kind = (int)((idx / 4) % 8); Csr<double> A; std::string fam; bool integer = true;
        switch (kind) {
            case 0: A = Csr<double>(1, 1); A.push(0, (double)r.range(1, 5)); A.end_row(); fam = "1x1"; break;
            case 1: { size_t n = (size_t)r.range(2, 30); A = Csr<double>(n, n); for (size_t i = 0; i < n; ++i) { A.push(i, (double)r.range(1, 9)); A.end_row(); } fam = "diagonal"; break; }
            case 2: { A = int_grid((int)r.range(2, 5), (int)r.range(2, 4), r, 1); fam = "below-coarse_enough"; break; }
            case 3: { size_t nb = (size_t)r.range(2, 5); std::vector<std::tuple<ptrdiff_t, ptrdiff_t, double>> t; size_t off = 0; for (size_t b = 0; b < nb; ++b) { Csr<double> S = int_grid((int)r.range(1, 4), (int)r.range(1, 4), r, 1); for (size_t i = 0; i < S.n; ++i) for (auto j = S.ptr[i]; j < S.ptr[i + 1]; ++j) t.emplace_back(off + i, off + S.col[j], S.val[j]); off += S.n; } A = vf::from_triplets<double>(off, off, t); fam = "block-diagonal"; break; }
            case 4: { size_t n = (size_t)r.range(4, 40); std::vector<std::tuple<ptrdiff_t, ptrdiff_t, double>> t; for (size_t i = 0; i < n; ++i) { t.emplace_back(i, i, 8.0); if (i + 1 < n) { t.emplace_back(i, i + 1, 1.0 + (double)r.range(0, 2)); t.emplace_back(i + 1, i, 1.0 + (double)r.range(0, 2)); } } A = vf::from_triplets<double>(n, n, t); fam = "positive-offdiagonals"; break; }
            case 5: { A = pairs_matrix(2 * (size_t)r.range(2, 20)); fam = "disconnected-pairs"; break; }
            case 6: { size_t n = (size_t)r.range(5, 40); Csr<double> F = int_dd(n, 0.15, r, false); A = Csr<double>(n, n); for (size_t i = 0; i < n; ++i) { for (auto j = F.ptr[i]; j < F.ptr[i + 1]; ++j) if ((size_t)F.col[j] == i || i % 3) A.push(F.col[j], F.val[j]); A.end_row(); } fam = "some-diagonal-rows"; break; }
            default: { size_t n = (size_t)r.range(8, 60); A = vf::connected_graph_laplacian(n, 3, r, false, false); integer = false; fam = "tiny-graph"; break; }
        }
        Cfg cfg = draw(r, COARS[ci], RELAX[r.next() % 3], A.n, false, 1);
        cfg.set_coarse_enough((unsigned)r.pick(std::vector<long>{1, 1, 2, 5})); if (!cfg.max_levels || cfg.max_levels > 8) cfg.set_max_levels(8);   // guard: a non-decreasing hierarchy must not run away
        run_degenerate("degenerate", idx, A, fam, cfg, integer, r);
    }
}

// near-null-space vectors that span (or exceed) every aggregate: 2-point components with 2 or 3 vectors.
// One case per process (see the job list): the 3-vector variant removes every aggregate.
static void sub_nullspace_degenerate() {
    for (long idx = 0; idx < 6; ++idx) {
        if (!vf::selected("nullspace_degenerate", idx)) continue;
        Rng r(vf::case_seed("nullspace_degenerate", idx)); int ci = (int)(idx % 3), cols = idx < 3 ? 2 : 3; size_t n = 2 * (size_t)r.range(4, 16);
        Csr<double> A = pairs_matrix(n); Cfg cfg = draw(r, COARS[ci], "damped_jacobi", n, false, 1); cfg.set_coarse_enough(2); cfg.set_max_levels(cols == 2 ? 2 : 4);
        auto B = std::make_shared<std::vector<double>>(n * cols); for (size_t i = 0; i < n; ++i) { (*B)[cols * i] = 1; (*B)[cols * i + 1] = (i % 2) ? 1.0 : -1.0; if (cols > 2) (*B)[cols * i + 2] = (double)i; }
        cfg.set_nullspace(cols, B, n);
        run_degenerate("nullspace_degenerate", idx, A, cols == 2 ? "disconnected-pairs+2-vectors" : "disconnected-pairs+3-vectors", cfg, false, r);
    }
}

int main(int argc, char **argv) {
    vf::init(argc, argv);
#if !defined(__SANITIZE_ADDRESS__)
    { struct rlimit rl; rl.rlim_cur = rl.rlim_max = (rlim_t)8 << 30; setrlimit(RLIMIT_AS, &rl); }   // a runaway hierarchy must end in bad_alloc, not in the OOM killer
#endif
    vf::obs_add("threads_seen", std::to_string(omp_get_max_threads()));
    vf::obs_add("spgemm_algorithm", omp_get_max_threads() > 16 ? "rmerge" : "saad");
    if (vf::sub_enabled("hier")) sub_hier();
    if (vf::sub_enabled("synthetic")) sub_synthetic();
    if (vf::sub_enabled("rebuild") || vf::sub_enabled("rebuild_refused")) sub_rebuild();
    if (vf::sub_enabled("degenerate")) sub_degenerate();
    if (vf::sub_enabled("nullspace_degenerate")) sub_nullspace_degenerate();
    return vf::finish();
}
