// C04 -- interpolation is exact on the near-null space; aggregates partition the grid
// (DESIGN.md 5/C04).
//
// Monitors (I) over the public classes plain_aggregates / pointwise_aggregates /
// tentative_prolongation (through coarsening::aggregation) / smoothed_aggregation /
// smoothed_aggr_emin / ruge_stuben and reference oracles (R) written from the
// documented definitions in long double.  Nothing of the aggregation algorithm is
// re-implemented: the oracles are the partition invariants of the property text,
// the documented strong-coupling predicate, the lifting identity
// coarsen(A (x) I_b, block_size b) == lift(coarsen(A)), and the documented
// smoothing formula evaluated densely.
#include <amgcl/backend/builtin.hpp>
#include <amgcl/adapter/crs_tuple.hpp>
#include <amgcl/coarsening/plain_aggregates.hpp>
#include <amgcl/coarsening/pointwise_aggregates.hpp>
#include <amgcl/coarsening/tentative_prolongation.hpp>
#include <amgcl/coarsening/aggregation.hpp>
#include <amgcl/coarsening/smoothed_aggregation.hpp>
#include <amgcl/coarsening/smoothed_aggr_emin.hpp>
#include <amgcl/coarsening/ruge_stuben.hpp>
#include <vf/hooks.hpp>
#include <vf/dense.hpp>
#include <omp.h>

using namespace amgcl;
typedef backend::builtin<double> B;
typedef backend::crs<double> M;
using vf::Csr; using vf::J; using vf::Rng; using vf::Case;
typedef coarsening::plain_aggregates PlainAggr;
typedef coarsening::pointwise_aggregates PwAggr;

static const long double U64 = 1.1102230246251565e-16L;   // unit roundoff of double
static const long double UF = 5.9604644775390625e-08L;    // unit roundoff of float

// One failure line per (case, key): exhaustive cases batch 512 patterns, and a defect that fires on most of them
// must not flood the event log.  The first witness (pattern mask) and the number of occurrences are recorded.
struct Chk {
    Case &cs; std::string ctx; std::map<std::string, std::tuple<long, std::string, J, std::string>> f;
    explicit Chk(Case &c_) : cs(c_) {}
    bool check(bool ok, const std::string &key, const std::string &what, const J &detail = J()) {
        ++cs.checks; if (!ok) { auto &e = f[key]; if (!std::get<0>(e)++) { std::get<1>(e) = what; std::get<2>(e) = detail; std::get<3>(e) = ctx; } } return ok; }
    void nontrivial(long n = 1) { cs.nontrivial(n); }
    ~Chk() { for (auto &kv : f) { J d = std::get<2>(kv.second); d.n("occurrences_in_case", std::get<0>(kv.second)); if (!std::get<3>(kv.second).empty()) d.s("first_witness", std::get<3>(kv.second)); cs.fail(kv.first, std::get<1>(kv.second), d); } }
};

static M to_amg(const Csr<double> &A) { return M(A.n, A.m, A.ptr, A.col, A.val); }

// generator self-check: a harness bug must never look like a violation
static void require(bool ok, const char *what) { if (!ok) { fprintf(stderr, "c04 harness inconsistency: %s\n", what); exit(3); } }

static bool is_symmetric(const Csr<double> &A) {
    Csr<double> T = vf::transpose(A);
    return T.ptr == A.ptr && T.col == A.col && T.val == A.val;
}

//---------------------------------------------------------------------------
// Documented strong-coupling predicate of plain_aggregates:  i ~ j  iff
//   a_ij^2 > eps^2 a_ii a_jj   (Vanek et al. 1996; the form the header evaluates.
// docs/components/coarsening.rst prints eps_strong without the square -- recorded
// as a documentation inconsistency in props/c04.py, not asserted).
// Returns 0 weak / 1 strong / 2 don't care (within 4 u_float of the threshold:
// eps_strong is a float and is squared in float by the library).
//---------------------------------------------------------------------------
static std::vector<char> ref_strong(const Csr<double> &A, float eps) {
    std::vector<long double> d(A.n, 0.0L);
    for (size_t i = 0; i < A.n; ++i) for (ptrdiff_t j = A.ptr[i]; j < A.ptr[i + 1]; ++j) if (A.col[j] == (ptrdiff_t)i) d[i] += A.val[j];
    long double e2 = (long double)eps * (long double)eps;
    std::vector<char> s(A.nnz(), 0);
    for (size_t i = 0; i < A.n; ++i) for (ptrdiff_t j = A.ptr[i]; j < A.ptr[i + 1]; ++j) {
        ptrdiff_t c = A.col[j]; if (c == (ptrdiff_t)i) { s[j] = 0; continue; }
        long double lhs = e2 * d[i] * d[c], rhs = (long double)A.val[j] * A.val[j];
        long double tol = 4 * UF * std::max(fabsl(lhs), fabsl(rhs));
        s[j] = fabsl(lhs - rhs) <= tol ? 2 : (lhs < rhs ? 1 : 0);
    }
    return s;
}

// Partition invariants of the property text, evaluated on the *returned* flags:
//  aggregated <=> the row has a strong connection; ids in [0,count); every id used.
static bool check_partition(Chk &c, const Csr<double> &A, size_t count, const std::vector<char> &s, const std::vector<ptrdiff_t> &id, const std::string &comp) {
    bool ok = true;
    ok &= c.check(s.size() == A.nnz() && id.size() == A.n, comp + ":sizes", "strong_connection / id have wrong length");
    if (!ok) return false;
    std::vector<long> cnt(count, 0); bool cover = true, range = true, diag = true;
    for (size_t i = 0; i < A.n; ++i) {
        bool strong = false;
        for (ptrdiff_t j = A.ptr[i]; j < A.ptr[i + 1]; ++j) { if (s[j]) strong = true; if (s[j] && A.col[j] == (ptrdiff_t)i) diag = false; }
        if (strong != (id[i] >= 0)) cover = false;
        if (id[i] >= (ptrdiff_t)count) range = false; else if (id[i] >= 0) cnt[id[i]]++;
    }
    bool nonempty = true; for (long k : cnt) if (!k) nonempty = false;
    ok &= c.check(cover, comp + ":coverage", "a variable with a strong neighbour is in no aggregate, or an isolated one is in some aggregate");
    ok &= c.check(range, comp + ":id-out-of-range", "aggregate id >= count");
    ok &= c.check(nonempty, comp + ":empty-aggregate", "aggregate numbering is not contiguous (an id below count is unused)");
    ok &= c.check(diag, comp + ":diagonal-flagged-strong", "the diagonal entry is flagged as a strong connection");
    return ok;
}

struct AggrOut { bool empty = false; size_t count = 0; std::vector<char> s; std::vector<ptrdiff_t> id; };

static AggrOut run_plain(const Csr<double> &A, float eps) {
    AggrOut o; M a = to_amg(A); PlainAggr::params p; p.eps_strong = eps;
    try { PlainAggr ag(a, p); o.count = ag.count; o.s = ag.strong_connection; o.id = ag.id; } catch (const error::empty_level &) { o.empty = true; }
    return o;
}
static AggrOut run_pointwise(const Csr<double> &A, float eps, unsigned b, unsigned min_aggr) {
    AggrOut o; M a = to_amg(A); PwAggr::params p; p.eps_strong = eps; p.block_size = b;
    try { PwAggr ag(a, p, min_aggr); o.count = ag.count; o.s = ag.strong_connection; o.id = ag.id; } catch (const error::empty_level &) { o.empty = true; }
    return o;
}

// plain_aggregates against the documented predicate + partition invariants;
// pointwise_aggregates(block_size 1) must be the same object.
static AggrOut check_plain(Chk &c, const Csr<double> &A, float eps, const std::string &tag) {
    std::vector<char> ref = ref_strong(A, eps);
    AggrOut o = run_plain(A, eps);
    bool any_definite = false, any_maybe = false; for (char r : ref) { if (r == 1) any_definite = true; if (r == 2) any_maybe = true; }
    if (o.empty) {
        c.check(!any_definite, "plain_aggregates:empty-level-with-strong-connections" + tag, "empty_level thrown although the documented predicate marks a strong connection");
    } else {
        c.check(any_definite || any_maybe, "plain_aggregates:aggregates-without-strong-connections" + tag, "aggregates returned although no connection is strong by the documented predicate");
        bool flags = o.s.size() == ref.size();
        for (size_t j = 0; flags && j < ref.size(); ++j) if (ref[j] != 2 && (bool)o.s[j] != (bool)ref[j]) flags = false;
        c.check(flags, "plain_aggregates:strong-flag" + tag, "strong_connection differs from a_ij^2 > eps^2 a_ii a_jj", J().n("eps", eps));
        check_partition(c, A, o.count, o.s, o.id, "plain_aggregates" + tag);
    }
    AggrOut p1 = run_pointwise(A, eps, 1, 0);
    c.check(p1.empty == o.empty && p1.count == o.count && p1.s == o.s && p1.id == o.id, "pointwise_aggregates:block1-differs-from-plain" + tag, "pointwise_aggregates(block_size=1) is not plain_aggregates");
    return o;
}

// Lifting oracle for the aggregates: pointwise_aggregates(A (x) I_b, b) == lift(plain_aggregates(A)).
// Precondition (checked by the callers' generators): positive diagonal -- the pointwise
// reduction keeps one *norm* per block, so the sign of a_ii a_jj is not available to it.
static void check_lift_aggr(Chk &c, const Csr<double> &A, const AggrOut &pl, float eps, int b, const std::string &tag) {
    Csr<double> Ab = vf::kron(A, vf::identity_block(b), b);
    require(Ab.nnz() == A.nnz() * b, "kron(A, I_b) entry count");
    AggrOut pw = run_pointwise(Ab, eps, b, 0);
    if (!c.check(pw.empty == pl.empty, "pointwise_aggregates:lift-empty-level" + tag, "A (x) I_b and A disagree on empty_level", J().n("b", b))) return;
    if (pl.empty) return;
    c.check(pw.count == pl.count * b, "pointwise_aggregates:lift-count" + tag, "count(A (x) I_b) != b * count(A)", J().n("b", b).n("got", pw.count).n("plain", pl.count));
    bool ids = pw.id.size() == A.n * b, flags = pw.s.size() == Ab.nnz();
    for (size_t i = 0; ids && i < A.n; ++i) for (int k = 0; k < b; ++k) {
        ptrdiff_t got = pw.id[i * b + k];
        if (pl.id[i] >= 0 ? got != pl.id[i] * b + k : got >= 0) ids = false;
    }
    // row i*b+k of A (x) I_b stores the entries of row i in the same order
    for (size_t i = 0; flags && i < A.n; ++i) for (int k = 0; k < b; ++k) {
        ptrdiff_t rb = Ab.ptr[i * b + k]; require(Ab.ptr[i * b + k + 1] - rb == A.ptr[i + 1] - A.ptr[i], "kron row length");
        for (ptrdiff_t j = A.ptr[i]; j < A.ptr[i + 1]; ++j) if ((bool)pw.s[rb + (j - A.ptr[i])] != (bool)pl.s[j]) flags = false;
    }
    c.check(ids, "pointwise_aggregates:lift-id" + tag, "ids of A (x) I_b are not b*id+k of the ids of A (a block was split or assigned differently)", J().n("b", b));
    c.check(flags, "pointwise_aggregates:lift-strong-flag" + tag, "strong flags of A (x) I_b are not the lifted flags of A", J().n("b", b));
}

//---------------------------------------------------------------------------
// Tentative prolongation oracles (through the public aggregation coarsening).
//---------------------------------------------------------------------------
struct Sparse { size_t n = 0, m = 0; std::vector<std::map<ptrdiff_t, double>> rows; bool wellformed = true; };
static Sparse to_rows(const M &P) {
    Sparse S; S.n = P.nrows; S.m = P.ncols; S.rows.resize(P.nrows);
    if (P.nrows && P.ptr[0] != 0) S.wellformed = false;
    for (size_t i = 0; i < P.nrows; ++i) { if (P.ptr[i + 1] < P.ptr[i]) { S.wellformed = false; break; }
        for (auto j = P.ptr[i]; j < P.ptr[i + 1]; ++j) { auto cc = P.col[j]; if (cc < 0 || (size_t)cc >= P.ncols || S.rows[i].count(cc)) S.wellformed = false; else S.rows[i][cc] = P.val[j]; } }
    return S;
}
static bool is_transpose(const M &P, const M &R) {
    if (R.nrows != P.ncols || R.ncols != P.nrows || R.nnz != P.nnz) return false;
    Sparse p = to_rows(P), r = to_rows(R); if (!p.wellformed || !r.wellformed) return false;
    for (size_t i = 0; i < p.n; ++i) for (auto &e : p.rows[i]) { auto it = r.rows[e.first].find(i); if (it == r.rows[e.first].end() || memcmp(&it->second, &e.second, sizeof(double))) return false; }
    return true;
}

struct NullSpace { int cols = 0; std::vector<double> Bm; std::string kind = "none"; };

// returns 0 when the level is empty, 1 when P_tent was checked, -1 when an early check failed
static int check_ptent(Chk &c, const Csr<double> &A, float eps, int b, const NullSpace &ns, const std::string &tag,
                        std::shared_ptr<M> *Pout = nullptr, AggrOut *agout = nullptr) {
    typedef coarsening::aggregation<B> Coarsening;
    M a = to_amg(A); Coarsening::params prm; prm.aggr.eps_strong = eps; prm.aggr.block_size = b; prm.nullspace.cols = ns.cols; prm.nullspace.B = ns.Bm;
    AggrOut ag = run_pointwise(A, eps, b, ns.cols);
    std::shared_ptr<M> P, R; bool empty = false; Coarsening C(prm);
    try { std::tie(P, R) = C.transfer_operators(a); } catch (const error::empty_level &) { empty = true; }
    if (!c.check(empty == ag.empty, "aggregation:empty-level-disagrees-with-aggregates" + tag, "transfer_operators and pointwise_aggregates disagree on empty_level")) return -1;
    if (empty) return 0;
    if (agout) *agout = ag;
    Sparse S = to_rows(*P);
    if (!c.check(S.wellformed && P->nrows == A.n, "tentative_prolongation:malformed" + tag, "P_tent is not a well-formed CRS matrix with n rows")) return -1;
    c.check(is_transpose(*P, *R), "aggregation:R-not-transpose" + tag, "restriction is not the transpose of the prolongation");
    if (ns.cols == 0) {
        c.check(P->ncols == ag.count, "tentative_prolongation:ncols" + tag, "P_tent has a column count different from the aggregate count", J().n("ncols", P->ncols).n("count", ag.count));
        bool pat = true, one = true;
        for (size_t i = 0; i < A.n; ++i) {
            if (ag.id[i] < 0) { if (!S.rows[i].empty()) pat = false; continue; }
            if (S.rows[i].size() != 1 || S.rows[i].begin()->first != ag.id[i]) pat = false; else if (S.rows[i].begin()->second != 1.0) one = false;
        }
        c.check(pat, "tentative_prolongation:support" + tag, "row i of P_tent is not supported on column id[i] only (overlapping / missing support)");
        c.check(one, "tentative_prolongation:constant" + tag, "P_tent does not reproduce the constant vector on aggregated rows");
        std::vector<long> colcnt(P->ncols, 0); for (size_t i = 0; i < A.n; ++i) for (auto &e : S.rows[i]) colcnt[e.first]++;
        bool nonempty = true; for (long k : colcnt) if (!k) nonempty = false;
        c.check(nonempty, "tentative_prolongation:empty-column" + tag, "P_tent has an empty column");
    } else {
        int nc = ns.cols; size_t nba = ag.count / b;
        c.check(ag.count % b == 0 && P->ncols == nba * nc, "tentative_prolongation:ncols" + tag, "P_tent column count != cols * aggregates", J().n("ncols", P->ncols).n("nba", nba).n("cols", nc));
        // min_aggregate rule: every surviving aggregate holds at least `cols` unknowns
        std::vector<std::vector<size_t>> members(nba); bool idok = true;
        for (size_t i = 0; i < A.n; ++i) if (ag.id[i] >= 0) { size_t g = ag.id[i] / b; if (g >= nba) { idok = false; continue; } members[g].push_back(i); }
        if (!c.check(idok, "pointwise_aggregates:id-out-of-range" + tag, "aggregate id >= count")) return -1;
        bool big = true; for (auto &mm : members) if ((int)mm.size() < nc) big = false;
        c.check(big, "pointwise_aggregates:small-aggregate-kept" + tag, "an aggregate with fewer unknowns than null-space vectors survived");
        bool pat = true;
        for (size_t i = 0; i < A.n; ++i) {
            if (ag.id[i] < 0) { if (!S.rows[i].empty()) pat = false; continue; }
            size_t g = ag.id[i] / b; if ((int)S.rows[i].size() != nc) { pat = false; continue; }
            int k = 0; for (auto &e : S.rows[i]) { if (e.first != (ptrdiff_t)(g * nc + k)) pat = false; ++k; }
        }
        c.check(pat, "tentative_prolongation:support" + tag, "columns of different aggregates overlap / a row is not supported on its aggregate's columns");
        const std::vector<double> &Bc = C.prm.nullspace.B;
        if (c.check(Bc.size() == nba * nc * nc, "tentative_prolongation:coarse-nullspace-size" + tag, "coarse null space has the wrong size") && pat) {
            double worst_g = 0, worst_r = 0; bool gram = true, repro = true, finite = true;
            for (size_t g = 0; g < nba; ++g) {
                size_t d = members[g].size(); if ((int)d < nc) continue;
                vf::LD Q(d, nc), Bf(d, nc), Rc(nc, nc);
                for (size_t r = 0; r < d; ++r) { size_t i = members[g][r]; int k = 0; for (auto &e : S.rows[i]) { Q(r, k) = e.second; ++k; } for (int k2 = 0; k2 < nc; ++k2) Bf(r, k2) = ns.Bm[i * nc + k2]; }
                for (int p = 0; p < nc; ++p) for (int q = 0; q < nc; ++q) Rc(p, q) = Bc[g * nc * nc + p * nc + q];
                if (!Q.allFinite() || !Rc.allFinite()) { finite = false; continue; }
                // Householder QR: |Q^T Q - I| and |QR - B| / |B|_F are bounded by c * d * cols * u (Higham, Thm 19.4); c = 20
                long double bound = 20.0L * d * nc * U64;
                vf::LD G = Q.transpose() * Q; G -= vf::LD::Identity(nc, nc); long double eg = vf::maxabs(G);
                vf::LD E = Q * Rc; E -= Bf; long double bn = Bf.norm(); long double er = bn > 0 ? vf::maxabs(E) / bn : vf::maxabs(E);
                if (!(eg <= bound)) gram = false; if (!(er <= bound)) repro = false;
                worst_g = std::max(worst_g, (double)(eg / bound)); worst_r = std::max(worst_r, (double)(er / bound));
            }
            c.check(finite, "tentative_prolongation:non-finite" + tag, "P_tent or coarse null space contains NaN/Inf");
            c.check(gram, "tentative_prolongation:gram" + tag, "columns of P_tent are not orthonormal", J().n("excess", worst_g).s("nullspace", ns.kind));
            c.check(repro, "tentative_prolongation:nullspace-reproduction" + tag, "P_tent * B_coarse != B on aggregated rows", J().n("excess", worst_r).s("nullspace", ns.kind));
            vf::obs_max("ptent_gram_over_bound", worst_g); vf::obs_max("ptent_repro_over_bound", worst_r);
        }
    }
    if (Pout) *Pout = P;
    return 1;
}

//---------------------------------------------------------------------------
// Smoothed aggregation: P == (I - omega D^-1 A_F) P_tent with the filtered matrix
// A_F = strong off-diagonals + lumped diagonal  a_ii^F = a_ii + sum_{weak} a_ij
// (the row-sum preserving lumping that the property's row-sum clause presupposes;
// see props/c04.py for the sign remark on the printed formula), D = diag(A_F).
// Flags come from the public aggregates class with the same parameters, P_tent
// from the public non-smoothed coarsening with the same parameters.
//---------------------------------------------------------------------------
struct SaCfg { float eps = 0.08f; int b = 1; float relax = 1.0f; bool est = false; };
static void check_sa(Chk &c, const Csr<double> &A, const SaCfg &cfg, const NullSpace &ns, bool symmetric, const std::string &tag) {
    typedef coarsening::smoothed_aggregation<B> SA;
    std::shared_ptr<M> Pt; AggrOut ag;
    int have = check_ptent(c, A, cfg.eps, cfg.b, ns, tag, &Pt, &ag);
    if (have < 0) return;
    M a = to_amg(A); SA::params prm; prm.aggr.eps_strong = cfg.eps; prm.aggr.block_size = cfg.b; prm.nullspace.cols = ns.cols; prm.nullspace.B = ns.Bm;
    prm.relax = cfg.relax; prm.estimate_spectral_radius = cfg.est; prm.power_iters = 0;
    SA sa(prm); std::shared_ptr<M> P, R; bool empty = false;
    try { std::tie(P, R) = sa.transfer_operators(a); } catch (const error::empty_level &) { empty = true; }
    if (!c.check(empty == (have == 0), "smoothed_aggregation:empty-level-disagrees" + tag, "smoothed_aggregation and aggregation disagree on empty_level")) return;
    if (empty) return;
    Sparse S = to_rows(*P), T = to_rows(*Pt);
    if (!c.check(S.wellformed && P->nrows == A.n && P->ncols == Pt->ncols, "smoothed_aggregation:malformed" + tag, "P is malformed or has a shape different from P_tent")) return;
    c.check(is_transpose(*P, *R), "smoothed_aggregation:R-not-transpose" + tag, "restriction is not the transpose of the prolongation");
    c.check(sa.prm.aggr.eps_strong == cfg.eps * 0.5f, "smoothed_aggregation:eps-not-halved" + tag, "eps_strong is not halved for the next level");
    // omega
    long double omega = (long double)cfg.relax;
    if (cfg.est) { long double rho = 0; for (size_t i = 0; i < A.n; ++i) { long double s = 0, d = 0; for (auto j = A.ptr[i]; j < A.ptr[i + 1]; ++j) { s += fabsl((long double)A.val[j]); if (A.col[j] == (ptrdiff_t)i) d = A.val[j]; } require(d != 0, "zero diagonal"); rho = std::max(rho, s / fabsl(d)); } omega *= (4.0L / 3) / rho; }
    else omega *= 2.0L / 3;
    bool value = true, finite = true, rowsum = true; double worst = 0, worst_rs = 0; long rows_checked = 0, rs_checked = 0;
    std::vector<long double> ref(P->ncols, 0.0L), acc(P->ncols, 0.0L); std::vector<char> seen(P->ncols, 0); std::vector<ptrdiff_t> touched;
    size_t maxrow = 0; for (size_t i = 0; i < A.n; ++i) maxrow = std::max<size_t>(maxrow, A.ptr[i + 1] - A.ptr[i]);
    for (size_t i = 0; i < A.n; ++i) {
        long double dF = 0, dFabs = 0, rs = 0; bool strong_nb = false; size_t k = 0;
        for (auto j = A.ptr[i]; j < A.ptr[i + 1]; ++j) { rs += A.val[j]; if (A.col[j] == (ptrdiff_t)i || !ag.s[j]) { dF += A.val[j]; dFabs += fabsl((long double)A.val[j]); } else if (A.col[j] / cfg.b != (ptrdiff_t)i / cfg.b) strong_nb = true; }   // a neighbour is another grid node
        if (dF == 0) continue;          // D^-1 does not exist: the documented formula says nothing about this row
        touched.clear();
        auto add = [&](ptrdiff_t col, long double v, long double av) { if (!seen[col]) { seen[col] = 1; touched.push_back(col); } ref[col] += v; acc[col] += av; ++k; };
        // (I - omega D^-1 A_F)_ii = 1 - omega ; its magnitude for the bound is |p| + omega |p| (omega itself is rounded)
        for (auto &e : T.rows[i]) add(e.first, (1 - omega) * e.second, (1 + fabsl(omega)) * fabsl((long double)e.second));
        for (auto j = A.ptr[i]; j < A.ptr[i + 1]; ++j) { ptrdiff_t cc = A.col[j]; if (cc == (ptrdiff_t)i || !ag.s[j]) continue; long double w = -omega * A.val[j] / dF; for (auto &e : T.rows[cc]) add(e.first, w * e.second, fabsl(w * e.second)); }
        // forward bound of the row's sparse accumulation: (terms + row length + 6) u sum|terms|  (omega, filtered diagonal, 1/dF,
        // products, sums; kappa below); the Gershgorin radius adds the length of the longest row
        // the filtered diagonal is a sum with cancellation: its relative error is (row length) u * sum|terms| / |sum|
        long double kappa = dFabs / fabsl(dF);
        long double fac = (k + (A.ptr[i + 1] - A.ptr[i]) * kappa + 6 + (cfg.est ? maxrow + 4 : 0)) * U64; long double psum = 0, accsum = 0;
        for (ptrdiff_t col : touched) accsum += acc[col];
        for (auto &e : S.rows[i]) { if (!std::isfinite(e.second)) finite = false; psum += e.second;
            long double r = ref[e.first], bd = fac * acc[e.first]; long double dlt = fabsl(e.second - r);
            if (!(dlt <= bd)) { if (!(acc[e.first] == 0 && e.second == 0)) value = false; } if (acc[e.first] > 0) worst = std::max(worst, (double)(dlt / (fac * acc[e.first]))); }
        for (ptrdiff_t col : touched) { if (!S.rows[i].count(col) && !(fabsl(ref[col]) <= fac * acc[col])) value = false; }
        ++rows_checked;
        // row-sum clause: symmetric matrix, zero row sum (exact), strong neighbour, no null space given (constant)
        if (symmetric && ns.cols == 0 && rs == 0 && strong_nb) { ++rs_checked; long double bd = fac * (accsum + 1); long double dl = fabsl(psum - 1); if (!(dl <= bd)) { rowsum = false; if (vf::opt_int("debug", 0)) { fprintf(stderr, "SA row %zu id=%ld dF=%Lg: A:", i, (long)ag.id[i], dF); for (auto j = A.ptr[i]; j < A.ptr[i + 1]; ++j) fprintf(stderr, " (%ld %g s%d id%ld)", (long)A.col[j], A.val[j], (int)ag.s[j], (long)ag.id[A.col[j]]); fprintf(stderr, "\n  P:"); for (auto &e : S.rows[i]) fprintf(stderr, " (%ld %.17g)", (long)e.first, e.second); fprintf(stderr, " sum=%.17Lg\n", psum); } }
            worst_rs = std::max(worst_rs, (double)(dl / bd)); }
        for (ptrdiff_t col : touched) { ref[col] = 0; acc[col] = 0; seen[col] = 0; }
    }
    c.check(finite, "smoothed_aggregation:non-finite" + tag, "P contains NaN/Inf");
    c.check(value, "smoothed_aggregation:formula" + tag, "P != (I - omega D^-1 A_F) P_tent", J().n("excess_over_bound", worst).n("relax", cfg.relax).bl("estimate_spectral_radius", cfg.est).n("block_size", cfg.b));
    c.check(rowsum, "smoothed_aggregation:row-sum" + tag, "interpolation row of a zero-row-sum row with a strong neighbour does not sum to one", J().n("excess_over_bound", worst_rs));
    vf::obs_max("sa_formula_over_bound", worst); vf::obs_sum("sa_rows_checked", rows_checked); vf::obs_sum("sa_rowsum_rows", rs_checked);
}

//---------------------------------------------------------------------------
// Ruge-Stuben: rows of P sum to one on zero-row-sum rows that have a strong
// (negative) neighbour; symmetric input.  Inputs with a non-isolated row that has
// no negative off-diagonal are not fed (see props/c04.py: finding F3 / C10).
//---------------------------------------------------------------------------
static bool rs_admissible(const Csr<double> &A) {
    for (size_t i = 0; i < A.n; ++i) { bool off = false, neg = false; for (auto j = A.ptr[i]; j < A.ptr[i + 1]; ++j) if (A.col[j] != (ptrdiff_t)i) { off = true; if (A.val[j] < 0) neg = true; } if (off && !neg) return false; }
    return true;
}
static void check_rs(Chk &c, const Csr<double> &A, float eps, bool trunc, float eps_trunc, const std::string &tag) {
    typedef coarsening::ruge_stuben<B> RS; M a = to_amg(A); RS::params prm; prm.eps_strong = eps; prm.do_trunc = trunc; prm.eps_trunc = eps_trunc;
    RS rs(prm); std::shared_ptr<M> P, R;
    try { std::tie(P, R) = rs.transfer_operators(a); } catch (const error::empty_level &) { return; }
    Sparse S = to_rows(*P);
    if (!c.check(S.wellformed && P->nrows == A.n, "ruge_stuben:malformed" + tag, "P is not a well-formed CRS matrix with n rows")) return;
    c.check(is_transpose(*P, *R), "ruge_stuben:R-not-transpose" + tag, "restriction is not the transpose of the prolongation");
    bool rowsum = true, rowsum_tie = true, finite = true; double worst = 0; long rows = 0;
    for (size_t i = 0; i < A.n; ++i) {
        long double rsum = 0; bool neg = false; for (auto j = A.ptr[i]; j < A.ptr[i + 1]; ++j) { rsum += A.val[j]; if (A.col[j] != (ptrdiff_t)i && A.val[j] < 0) neg = true; }
        long double ps = 0, pa = 0; for (auto &e : S.rows[i]) { if (!std::isfinite(e.second)) finite = false; ps += e.second; pa += fabsl((long double)e.second); }
        if (rsum != 0 || !neg) continue;
        // alpha, beta: sums of same-signed numbers, three quotients, one product per weight -> (4k + 16) u sum|p_ij|
        long double bd = (4 * (A.ptr[i + 1] - A.ptr[i]) + 16) * U64 * (pa + 1), dl = fabsl(ps - 1);
        if (!(dl <= bd)) {
            // classify the input row for the failure key: does it contain a coupling exactly at the truncation threshold
            // (v == eps_trunc * largest same-signed coupling)?  Input classification only, nothing of the algorithm.
            bool tie = false;
            if (trunc) for (auto j = A.ptr[i]; j < A.ptr[i + 1]; ++j) for (auto q = A.ptr[i]; q < A.ptr[i + 1]; ++q)
                if (j != q && A.col[j] != (ptrdiff_t)i && A.col[q] != (ptrdiff_t)i && A.val[q] == A.val[j] * eps_trunc) tie = true;
            if (tie) rowsum_tie = false; else rowsum = false;
            if (vf::opt_int("debug", 0)) { fprintf(stderr, "RS row %zu: A:", i); for (auto j = A.ptr[i]; j < A.ptr[i + 1]; ++j) fprintf(stderr, " (%ld %g)", (long)A.col[j], A.val[j]); fprintf(stderr, "\n  P:"); for (auto &e : S.rows[i]) fprintf(stderr, " (%ld %.17g)", (long)e.first, e.second); fprintf(stderr, " sum=%.17Lg\n", ps); }
        }
        worst = std::max(worst, (double)(dl / bd)); ++rows;
    }
    c.check(finite, "ruge_stuben:non-finite" + tag, "P contains NaN/Inf");
    c.check(rowsum, "ruge_stuben:row-sum" + tag, "interpolation row of a zero-row-sum row with a strong neighbour does not sum to one", J().n("excess_over_bound", worst).bl("do_trunc", trunc).n("eps_trunc", eps_trunc).n("eps_strong", eps));
    c.check(rowsum_tie, "ruge_stuben:row-sum:truncation-tie" + tag, "interpolation row does not sum to one; the row has a coupling exactly at the truncation threshold eps_trunc * largest", J().n("excess_over_bound", worst).n("eps_trunc", eps_trunc).n("eps_strong", eps));
    vf::obs_max("rs_rowsum_over_bound", worst); vf::obs_sum("rs_rowsum_rows", rows);
}

//---------------------------------------------------------------------------
// Exhaustive small patterns (G7).  Off-diagonal weights are multiples of 1/4 so
// that every row sum is exact.  Value classes:
//   0 M-matrix: a_ij = -w, a_ii = sum w (+1/2 on vertex 0)  -> zero row sums on rows 1..n-1
//   1 mixed   : every third edge is +w/2, a_ii = -sum a_ij when that is positive (zero row sum), else sum|a_ij|
//   2 positive off-diagonals only, a_ii = sum |a_ij| (+1/2 on vertex 0)
// All classes have positive diagonals (precondition of the lifting oracle).
//---------------------------------------------------------------------------
static Csr<double> small_matrix(size_t n, uint64_t fullmask, int cls, uint64_t salt) {
    std::vector<std::vector<double>> W(n, std::vector<double>(n, 0.0)); size_t k = 0;
    for (size_t i = 0; i < n; ++i) for (size_t j = 0; j < n; ++j) { if (i == j) continue; if (fullmask >> k & 1) {
            size_t lo = std::min(i, j), hi = std::max(i, j), e = lo * n + hi;          // same weight for (i,j) and (j,i)
            double w = 1.0 + (double)((salt * 2654435761ULL + e * 40503ULL) % 5) * 0.25;
            if (cls == 0) W[i][j] = -w; else if (cls == 1) W[i][j] = (e % 3 == 0) ? 0.5 * w : -w; else W[i][j] = w; }
        ++k; }
    Csr<double> A(n, n);
    for (size_t i = 0; i < n; ++i) {
        double s = 0, sa = 0; for (size_t j = 0; j < n; ++j) { s += W[i][j]; sa += std::fabs(W[i][j]); }
        double d = cls == 0 ? -s : (cls == 1 ? (-s > 0 ? -s : sa) : sa); if (i == 0 && cls != 1) d += 0.5; if (d <= 0) d = 1.0;
        for (size_t j = 0; j < n; ++j) { if (j == i) A.push(i, d); else if (W[i][j] != 0) A.push(j, W[i][j]); } A.end_row();
    }
    return A;
}
template <class C> static void lift_transfer(Chk &c, const std::string &name, const M &a, const M &ab, int b, float eps);
static const float EPS_LIST[4] = {0.0f, 0.08f, 0.25f, 0.5f};
static const char *CLS_NAME[3] = {"mmatrix", "mixed", "posoff"};

static void one_small(Chk &c, const Csr<double> &A, float eps, int cls, bool symmetric, uint64_t mask) {
    AggrOut pl = check_plain(c, A, eps, "");
    check_lift_aggr(c, A, pl, eps, 2, "");
    if (mask % 4 == 1) check_lift_aggr(c, A, pl, eps, 3, "");
    if (mask % 2 == 0) { int b = 2 + (int)((mask >> 1) % 2); M a = to_amg(A); Csr<double> Ab = vf::kron(A, vf::identity_block(b), b); M ab = to_amg(Ab);
        lift_transfer<coarsening::aggregation<B>>(c, "aggregation", a, ab, b, eps); lift_transfer<coarsening::smoothed_aggregation<B>>(c, "smoothed_aggregation", a, ab, b, eps); }
    NullSpace none; SaCfg cfg; cfg.eps = eps; cfg.relax = (mask % 3 == 0) ? 1.0f : (mask % 3 == 1 ? 0.75f : 1.5f); cfg.est = (mask % 2 == 1);
    check_sa(c, A, cfg, none, symmetric, "");
    if (mask % 8 == 3) {        // null space of dimension 1 / 2 on the tiny graphs: (1), (1, i)
        NullSpace ns; ns.cols = 1 + (int)((mask >> 3) % 2); ns.kind = "poly"; ns.Bm.resize(A.n * ns.cols); for (size_t i = 0; i < A.n; ++i) { ns.Bm[i * ns.cols] = 1; if (ns.cols > 1) ns.Bm[i * ns.cols + 1] = (double)i - 2; }
        check_sa(c, A, cfg, ns, symmetric, "");
    }
    if (symmetric && cls != 2 && rs_admissible(A)) { check_rs(c, A, eps == 0 ? 0.25f : eps, mask % 2 == 0, mask % 4 < 2 ? 0.2f : 0.5f, ""); }
}

static void sub_exhaustive(const std::string &sub, size_t n, bool symmetric, uint64_t batch, const std::vector<int> &eps_idx) {
    if (!vf::sub_enabled(sub)) return;
    uint64_t nmask = symmetric ? 1ULL << (n * (n - 1) / 2) : 1ULL << (n * (n - 1)); long idx = 0;
    for (int cls = 0; cls < 3; ++cls) for (int ie : eps_idx) for (uint64_t base = 0; base < nmask; base += batch, ++idx) {
        if (!vf::selected(sub, idx)) continue;
        Case cs(sub, idx, J().s("values", CLS_NAME[cls]).n("eps_strong", EPS_LIST[ie]).n("n", n).n("mask_from", base).n("masks", std::min(batch, nmask - base))); Chk c(cs);
        for (uint64_t m = base; m < std::min(nmask, base + batch); ++m) {
            uint64_t full = symmetric ? vf::sym_mask_to_full(n, m) : m;
            Csr<double> A = small_matrix(n, full, cls, m);
            if (symmetric) require(is_symmetric(A), "small_matrix symmetric");
            c.ctx = "mask=" + std::to_string(m);
            try { one_small(c, A, EPS_LIST[ie], cls, symmetric, m); } catch (const std::exception &e) { c.check(false, "exception:" + sub, e.what()); }
            if (m) c.nontrivial();
        }
    }
    std::string eps_txt; for (int ie : eps_idx) eps_txt += (eps_txt.empty() ? "" : ", ") + std::to_string(EPS_LIST[ie]).substr(0, 4);
    vf::obs_set(sub + "_space", std::string("all 2^") + std::to_string(symmetric ? n * (n - 1) / 2 : n * (n - 1)) + (symmetric ? " symmetric graphs on " : " directed patterns on ") + std::to_string(n) + " vertices x {mmatrix, mixed, posoff} x eps_strong {" + eps_txt + "}");
}

//---------------------------------------------------------------------------
// Random families
//---------------------------------------------------------------------------
struct Gen { Csr<double> A; std::string family; int nx = 0, ny = 0; bool symmetric = false; };
// exact-row-sum variant of a matrix: off-diagonals rounded to multiples of 1/8, diagonal = -sum (+1 on row 0)
static Csr<double> quantize_zero_rowsum(const Csr<double> &A) {
    Csr<double> Q(A.n, A.m);
    for (size_t i = 0; i < A.n; ++i) { double s = 0; std::vector<std::pair<ptrdiff_t, double>> row;
        for (auto j = A.ptr[i]; j < A.ptr[i + 1]; ++j) if (A.col[j] != (ptrdiff_t)i) { double v = std::round(A.val[j] * 8) / 8; if (v == 0) v = A.val[j] < 0 ? -0.125 : 0.125; row.emplace_back(A.col[j], v); s += v; }
        double d = -s + (i == 0 ? 1.0 : 0.0); if (d <= 0) d = std::fabs(s) + 1; row.emplace_back(i, d); std::sort(row.begin(), row.end()); for (auto &e : row) Q.push(e.first, e.second); Q.end_row(); }
    return Q;
}
static Gen gen_matrix(Rng &r, int max_side) {
    Gen g; int kind = (int)r.range(0, 5);
    if (kind <= 1) { vf::GridSpec s; s.nx = (int)r.range(3, max_side); s.ny = (int)r.range(3, max_side); s.nz = kind == 1 && r.coin(0.5) ? (int)r.range(2, 4) : 1; s.contrast = r.coin() ? 1 : r.logu(1, 1000); s.aniso = r.coin() ? 1 : r.logu(1e-3, 1); s.nine = s.nz == 1 && r.coin(0.3);
        g.A = vf::grid_diffusion(s, r); g.family = "G1-grid"; g.nx = s.nx; g.ny = s.ny * s.nz; g.symmetric = true; }
    else if (kind == 2) { size_t n = r.range(8, max_side * max_side); g.A = vf::graph_laplacian(n, r.uni(2, 6), r, r.coin()); g.family = "G2-graph"; g.symmetric = true; }
    else if (kind == 3) { int nx = (int)r.range(3, max_side), ny = (int)r.range(3, max_side); g.A = vf::convdiff(nx, ny, r.logu(0.1, 50), r, r.coin()); g.family = "G3-convdiff"; g.nx = nx; g.ny = ny; }
    else if (kind == 4) { size_t n = r.range(8, max_side * max_side); g.A = quantize_zero_rowsum(vf::graph_laplacian(n, r.uni(2, 6), r, r.coin())); g.family = "G2-graph-exact-rowsum"; g.symmetric = true; }
    else { vf::GridSpec s; s.nx = (int)r.range(3, max_side); s.ny = (int)r.range(3, max_side); s.contrast = r.coin() ? 1 : r.logu(1, 100); g.A = quantize_zero_rowsum(vf::grid_diffusion(s, r)); g.family = "G1-grid-exact-rowsum"; g.nx = s.nx; g.ny = s.ny; g.symmetric = true; }
    for (size_t i = 0; i < g.A.n; ++i) { bool pos = false; for (auto j = g.A.ptr[i]; j < g.A.ptr[i + 1]; ++j) if (g.A.col[j] == (ptrdiff_t)i && g.A.val[j] > 0) pos = true; require(pos, "generator: positive diagonal"); }
    if (g.symmetric) require(is_symmetric(g.A), "generator: symmetric family is symmetric");
    return g;
}
static NullSpace gen_nullspace(Rng &r, size_t n, int b, int nxgrid) {
    NullSpace ns; int kind = (int)r.range(0, 3);
    if (kind == 0) return ns;
    if (kind == 1) { // constants per component: cols = b
        ns.cols = b; ns.kind = "constants"; ns.Bm.assign(n * b, 0.0); for (size_t i = 0; i < n; ++i) ns.Bm[i * b + i % b] = 1; }
    else if (kind == 2 && b >= 2 && b <= 3) { // rigid body modes, nodes on a (jittered) grid
        int nn = (int)(n / b), nx = nxgrid > 0 ? nxgrid : std::max(1, (int)std::sqrt((double)nn)); ns.cols = b == 2 ? 3 : 6; ns.kind = "rigid-body"; ns.Bm.assign(n * ns.cols, 0.0);
        for (int p = 0; p < nn; ++p) { double x = p % nx + r.uni(-0.2, 0.2), y = (p / nx) % 7 + r.uni(-0.2, 0.2), z = p / (nx * 7) + r.uni(-0.2, 0.2);
            if (b == 2) { double *r0 = &ns.Bm[(p * 2) * 3], *r1 = &ns.Bm[(p * 2 + 1) * 3]; r0[0] = 1; r0[2] = -y; r1[1] = 1; r1[2] = x; }
            else { double *r0 = &ns.Bm[(p * 3) * 6], *r1 = &ns.Bm[(p * 3 + 1) * 6], *r2 = &ns.Bm[(p * 3 + 2) * 6]; r0[0] = 1; r1[1] = 1; r2[2] = 1; r0[3] = -y; r1[3] = x; r1[4] = -z; r2[4] = y; r0[5] = z; r2[5] = -x; } } }
    else { ns.cols = (int)r.range(1, 4); ns.kind = "random"; ns.Bm.resize(n * ns.cols); for (auto &v : ns.Bm) v = r.uni(-1, 1); if (r.coin()) for (size_t i = 0; i < n; ++i) ns.Bm[i * ns.cols] = 1; }
    return ns;
}

// lift of a sparse matrix: P (x) I_b as a row map
static std::vector<std::map<ptrdiff_t, double>> lift_rows(const Sparse &S, int b) {
    std::vector<std::map<ptrdiff_t, double>> L(S.n * b);
    for (size_t i = 0; i < S.n; ++i) for (auto &e : S.rows[i]) for (int k = 0; k < b; ++k) L[i * b + k][e.first * b + k] = e.second;
    return L;
}
static bool rows_bitwise_equal(const std::vector<std::map<ptrdiff_t, double>> &X, const std::vector<std::map<ptrdiff_t, double>> &Y, long *ndiff) {
    long d = 0; if (X.size() != Y.size()) { *ndiff = -1; return false; }
    for (size_t i = 0; i < X.size(); ++i) { if (X[i].size() != Y[i].size()) { ++d; continue; } auto a = X[i].begin(); auto b2 = Y[i].begin();
        for (; a != X[i].end(); ++a, ++b2) if (a->first != b2->first || memcmp(&a->second, &b2->second, sizeof(double))) { ++d; break; } }
    *ndiff = d; return d == 0;
}
template <class C> static void lift_transfer(Chk &c, const std::string &name, const M &a, const M &ab, int b, float eps) {
    typename C::params p1, p2; p1.aggr.eps_strong = eps; p2.aggr.eps_strong = eps; p2.aggr.block_size = b;
    C c1(p1), c2(p2); std::shared_ptr<M> P1, R1, P2, R2; bool e1 = false, e2 = false;
    try { std::tie(P1, R1) = c1.transfer_operators(a); } catch (const error::empty_level &) { e1 = true; }
    try { std::tie(P2, R2) = c2.transfer_operators(ab); } catch (const error::empty_level &) { e2 = true; }
    if (!c.check(e1 == e2, name + ":lift-empty-level", "A and A (x) I_b disagree on empty_level", J().n("b", b))) return;
    if (e1) return;
    Sparse s1 = to_rows(*P1), s2 = to_rows(*P2), t1 = to_rows(*R1), t2 = to_rows(*R2);
    if (!c.check(s1.wellformed && s2.wellformed && t1.wellformed && t2.wellformed, name + ":malformed", "transfer operator is not well-formed CRS")) return;
    long nd = 0;
    bool okP = P2->nrows == P1->nrows * b && P2->ncols == P1->ncols * b && rows_bitwise_equal(lift_rows(s1, b), s2.rows, &nd);
    c.check(okP, name + ":lift-P", "transfer_operators(A (x) I_b).P is not bitwise P (x) I_b", J().n("b", b).n("rows_differing", nd).n("rows", P2->nrows).n("eps_strong", eps));
    bool okR = R2->nrows == R1->nrows * b && R2->ncols == R1->ncols * b && rows_bitwise_equal(lift_rows(t1, b), t2.rows, &nd);
    c.check(okR, name + ":lift-R", "transfer_operators(A (x) I_b).R is not bitwise R (x) I_b", J().n("b", b).n("rows_differing", nd).n("rows", R2->nrows).n("eps_strong", eps));
}

static void sub_lift() {
    if (!vf::sub_enabled("lift")) return;
    long N = vf::tier(60, 2000);
    for (long idx = 0; idx < N; ++idx) {
        if (!vf::selected("lift", idx)) continue;
        Rng r(vf::case_seed("lift", idx)); Gen g = gen_matrix(r, vf::thorough() && idx % 7 == 0 ? 40 : 16);
        int b = (int)r.range(2, 4); float eps = r.pick(std::vector<float>{0.0f, 0.08f, 0.08f, 0.25f, 0.5f});
        Case cs("lift", idx, g.A.desc(g.family).n("b", b).n("eps_strong", eps).n("threads", omp_get_max_threads())); Chk c(cs);
        try {
        AggrOut pl = check_plain(c, g.A, eps, "");
        check_lift_aggr(c, g.A, pl, eps, b, "");
        M a = to_amg(g.A); Csr<double> Ab = vf::kron(g.A, vf::identity_block(b), b); M ab = to_amg(Ab);
        lift_transfer<coarsening::aggregation<B>>(c, "aggregation", a, ab, b, eps);
        lift_transfer<coarsening::smoothed_aggregation<B>>(c, "smoothed_aggregation", a, ab, b, eps);
        // energy-minimising SA accumulates its column dampings under `omp critical`: bitwise only single-threaded
        if (omp_get_max_threads() == 1) lift_transfer<coarsening::smoothed_aggr_emin<B>>(c, "smoothed_aggr_emin", a, ab, b, eps);
        if (!pl.empty) c.nontrivial();
        } catch (const std::exception &e) { c.check(false, "exception:lift", e.what()); }
        vf::sample("lift", g.A.desc(g.family).n("b", b).n("eps_strong", eps));
    }
}

// block matrices that are not Kronecker lifts: ids must keep the b unknowns of a node together and
// the flags must be the expansion of the flags of the reduced (one norm per block) matrix.
static void sub_block_aggr() {
    if (!vf::sub_enabled("block_aggr")) return;
    long N = vf::tier(60, 3000);
    for (long idx = 0; idx < N; ++idx) {
        if (!vf::selected("block_aggr", idx)) continue;
        Rng r(vf::case_seed("block_aggr", idx)); Gen g = gen_matrix(r, 12); int b = (int)r.range(2, 4);
        Csr<double> Ab = vf::kron(g.A, vf::spd_block(b, r), b); bool punched = r.coin(); if (punched) Ab = vf::punch_blocks(Ab, r.uni(0.1, 0.6), r);
        float eps = r.pick(std::vector<float>{0.0f, 0.08f, 0.25f}); unsigned min_aggr = (unsigned)r.range(0, 2 * b);
        Case cs("block_aggr", idx, Ab.desc("G5-" + g.family).n("b", b).bl("incomplete_blocks", punched).n("eps_strong", eps).n("min_aggregate", min_aggr)); Chk c(cs);
        try {
        // reduced matrix by definition: entry (I,J) present iff the block stores something, value = max |a_ij|
        size_t np = g.A.n; std::vector<std::map<ptrdiff_t, double>> red(np);
        for (size_t i = 0; i < Ab.n; ++i) for (auto j = Ab.ptr[i]; j < Ab.ptr[i + 1]; ++j) { double &v = red[i / b][Ab.col[j] / b]; v = std::max(v, std::fabs(Ab.val[j])); }
        Csr<double> Ap(np, np); for (size_t i = 0; i < np; ++i) { for (auto &e : red[i]) Ap.push(e.first, e.second); Ap.end_row(); }
        AggrOut pl = run_plain(Ap, eps), pw = run_pointwise(Ab, eps, b, min_aggr);
        if (c.check(pl.empty == pw.empty, "pointwise_aggregates:empty-level", "block matrix and its reduced matrix disagree on empty_level") && !pl.empty) {
            // aggregates that survive min_aggregate: b * points >= min_aggregate, renumbered in order
            std::vector<long> sz(pl.count, 0); for (auto v : pl.id) if (v >= 0) sz[v]++;
            std::vector<ptrdiff_t> renum(pl.count, -1); size_t m = 0; for (size_t k = 0; k < pl.count; ++k) if (min_aggr <= 1 || (unsigned long)b * sz[k] >= min_aggr) renum[k] = m++;
            c.check(pw.count == m * b, "pointwise_aggregates:count", "count != b * surviving point aggregates", J().n("got", pw.count).n("expected", m * b));
            bool together = true, ids = true, flags = pw.s.size() == Ab.nnz();
            for (size_t p = 0; p < np; ++p) for (int k = 0; k < b; ++k) { ptrdiff_t got = pw.id[p * b + k]; ptrdiff_t e = pl.id[p] >= 0 ? renum[pl.id[p]] : -1;
                if ((got >= 0) != (pw.id[p * b] >= 0) || (got >= 0 && got / b != pw.id[p * b] / b)) together = false;
                if (e >= 0 ? got != e * b + k : got >= 0) ids = false; }
            for (size_t i = 0; flags && i < Ab.n; ++i) for (auto j = Ab.ptr[i]; j < Ab.ptr[i + 1]; ++j) { size_t ip = i / b; ptrdiff_t cp = Ab.col[j] / b; bool sp = cp == (ptrdiff_t)ip;
                if (!sp) { size_t pos = 0; for (auto q = Ap.ptr[ip]; q < Ap.ptr[ip + 1]; ++q) if (Ap.col[q] == cp) pos = q; sp = pl.s[pos]; }
                bool expect = sp && Ab.col[j] != (ptrdiff_t)i; if ((bool)pw.s[j] != expect) flags = false; }
            c.check(together, "pointwise_aggregates:block-split", "the unknowns of one grid node are not in the same aggregate");
            c.check(ids, "pointwise_aggregates:id", "ids are not b*id+k of the aggregates of the reduced matrix");
            c.check(flags, "pointwise_aggregates:strong-flag", "flags are not the expansion of the reduced matrix's flags (diagonal excluded)");
            c.nontrivial();
        }
        } catch (const std::exception &e) { c.check(false, "exception:block_aggr", e.what()); }
            }
}

static void sub_ptent_sa() {
    if (!vf::sub_enabled("ptent_sa")) return;
    long N = vf::tier(120, 6000);
    for (long idx = 0; idx < N; ++idx) {
        if (!vf::selected("ptent_sa", idx)) continue;
        Rng r(vf::case_seed("ptent_sa", idx)); Gen g = gen_matrix(r, vf::thorough() && idx % 9 == 0 ? 45 : 14);
        int b = r.coin(0.5) ? 1 : (int)r.range(2, 4); Csr<double> A = g.A; std::string fam = g.family; bool sym = g.symmetric;
        if (b > 1) { bool ident = r.coin(0.3); A = vf::kron(g.A, ident ? vf::identity_block(b) : vf::spd_block(b, r), b); if (!ident && r.coin(0.4)) { A = vf::punch_blocks(A, r.uni(0.05, 0.4), r); sym = false; } fam = "G5-" + fam; if (sym) sym = is_symmetric(A); }
        NullSpace ns = gen_nullspace(r, A.n, b, g.nx);
        SaCfg cfg; cfg.b = b; cfg.eps = r.pick(std::vector<float>{0.0f, 0.08f, 0.08f, 0.25f, 0.5f}); cfg.relax = r.pick(std::vector<float>{1.0f, 1.0f, 0.5f, 1.3f}); cfg.est = r.coin(0.4);
        Case cs("ptent_sa", idx, A.desc(fam).n("b", b).s("nullspace", ns.kind).n("cols", ns.cols).n("eps_strong", cfg.eps).n("relax", cfg.relax).bl("estimate_spectral_radius", cfg.est).bl("symmetric", sym).n("threads", omp_get_max_threads())); Chk c(cs);
        try {
        check_sa(c, A, cfg, ns, sym, "");
        if (b == 1) check_plain(c, A, cfg.eps, "");
        c.nontrivial();
        } catch (const std::exception &e) { c.check(false, "exception:ptent_sa", e.what()); }
        vf::sample("ptent_sa", A.desc(fam).n("b", b).s("nullspace", ns.kind).n("cols", ns.cols).n("eps_strong", cfg.eps));
    }
}

static void sub_rowsum() {
    if (!vf::sub_enabled("rowsum")) return;
    long N = vf::tier(100, 4000);
    for (long idx = 0; idx < N; ++idx) {
        if (!vf::selected("rowsum", idx)) continue;
        Rng r(vf::case_seed("rowsum", idx)); Gen g; do { g = gen_matrix(r, vf::thorough() && idx % 9 == 0 ? 40 : 14); } while (g.family.find("exact-rowsum") == std::string::npos);
        // optionally turn some couplings positive (keeps symmetry and exact zero row sums)
        bool mixed = r.coin(0.3); Csr<double> A = g.A;
        if (mixed) { Csr<double> T = A; for (size_t i = 0; i < A.n; ++i) for (auto j = A.ptr[i]; j < A.ptr[i + 1]; ++j) { size_t lo = std::min<size_t>(i, A.col[j]), hi = std::max<size_t>(i, A.col[j]); if (lo != hi && (lo * 7 + hi * 13 + idx) % 5 == 0) T.val[j] = 0.5 * std::fabs(A.val[j]); }
            A = quantize_zero_rowsum(T); }
        require(is_symmetric(A), "rowsum generator symmetric");
        float eps = r.pick(std::vector<float>{0.1f, 0.25f, 0.25f, 0.5f}); bool trunc = r.coin(0.6); float et = r.pick(std::vector<float>{0.05f, 0.2f, 0.2f, 0.5f});
        Case cs("rowsum", idx, A.desc(g.family).bl("mixed_signs", mixed).n("rs_eps_strong", eps).bl("do_trunc", trunc).n("eps_trunc", et).n("threads", omp_get_max_threads())); Chk c(cs);
        try {
        if (rs_admissible(A)) check_rs(c, A, eps, trunc, et, "");
        SaCfg cfg; cfg.eps = r.pick(std::vector<float>{0.0f, 0.08f, 0.25f}); cfg.relax = r.pick(std::vector<float>{1.0f, 0.6f}); cfg.est = r.coin(); NullSpace none;
        check_sa(c, A, cfg, none, true, "");
        c.nontrivial();
        } catch (const std::exception &e) { c.check(false, "exception:rowsum", e.what()); }
        vf::sample("rowsum", A.desc(g.family).bl("mixed_signs", mixed).bl("do_trunc", trunc));
    }
}

int main(int argc, char **argv) {
    vf::init(argc, argv);
    vf::obs_add("threads_seen", std::to_string(omp_get_max_threads()));
    sub_exhaustive("exh_sym6", 6, true, 512, {0, 1, 2, 3});
    sub_exhaustive("exh_dir4", 4, false, 512, {0, 1, 2, 3});
    if (vf::thorough()) sub_exhaustive("exh_sym7", 7, true, 4096, {1, 2});     // 2^21 graphs x 3 value classes x 2 eps_strong
    sub_lift();
    sub_block_aggr();
    sub_ptent_sa();
    sub_rowsum();
    return vf::finish();
}
