// C05 -- each Krylov method produces its defining iterates (DESIGN.md 5/C05).
// Compiled twice: real (double) and, with -DC05_COMPLEX, complex<double>.
// The amgcl solvers are driven with a harness-defined dense preconditioner class (identity / exact inverse / SPD or general
// approximation) so the Krylov space is known exactly.  References are written from the mathematical definitions in long double:
//   * optimality: orthonormal basis of x0 + K_k, dense least squares for the A-norm error (CG) / residual norm (GMRES family)
//   * BiCGStab: van der Vorst's recurrences (right and left preconditioning)
//   * Richardson: x <- x + w P (f - A x), k times
//   * GMRES-family monotonicity in k across restarts; finite termination within n (+ceil(n/s), +L-1) steps
#include <amgcl/backend/builtin.hpp>
#ifdef C05_COMPLEX
#  include <amgcl/value_type/complex.hpp>
#endif
#include <amgcl/adapter/crs_tuple.hpp>
#include <amgcl/solver/cg.hpp>
#include <amgcl/solver/bicgstab.hpp>
#include <amgcl/solver/bicgstabl.hpp>
#include <amgcl/solver/gmres.hpp>
#include <amgcl/solver/fgmres.hpp>
#include <amgcl/solver/lgmres.hpp>
#include <amgcl/solver/idrs.hpp>
#include <amgcl/solver/richardson.hpp>
#include <vf/hooks.hpp>
#include <vf/dense.hpp>
#include <vf/krylov.hpp>
#include <omp.h>
#include <functional>
#include <cstring>

using vf::J; using vf::Rng; using vf::Case;
#ifdef C05_COMPLEX
typedef std::complex<double> S; typedef std::complex<long double> L; static const char *VT = "complex";
#else
typedef double S; typedef long double L; static const char *VT = "real";
#endif
typedef long double R;
typedef amgcl::backend::builtin<S> B; typedef amgcl::backend::crs<S> M;
typedef Eigen::Matrix<L, Eigen::Dynamic, Eigen::Dynamic> Mat; typedef Eigen::Matrix<L, Eigen::Dynamic, 1> Vec;
namespace side = amgcl::preconditioner::side;

static inline L mkL(R re, R im) {
#ifdef C05_COMPLEX
    return L(re, im);
#else
    (void)im; return re;
#endif
}
static inline S roundS(L v) { return vf::from_ld<S>(v); }
static inline L widen(S v) { return vf::to_ld(v); }
static R gauss(Rng &r) { double u1 = std::max(r.uni(), 1e-300), u2 = r.uni(); return std::sqrt(-2 * std::log(u1)) * std::cos(6.283185307179586 * u2); }
static Mat random_unitary(int n, Rng &r) { Mat G(n, n); for (int i = 0; i < n; ++i) for (int j = 0; j < n; ++j) G(i, j) = mkL(gauss(r), gauss(r)); Eigen::HouseholderQR<Mat> qr(G); Mat Q = qr.householderQ(); return Q; }
static Mat round_to_working(const Mat &A) { Mat Rn(A.rows(), A.cols()); for (int i = 0; i < A.rows(); ++i) for (int j = 0; j < A.cols(); ++j) Rn(i, j) = widen(roundS(A(i, j))); return Rn; }

//---------------------------------------------------------------------------
// The harness-defined preconditioner: applies a fixed dense matrix (long double accumulate, one rounding per entry).
//---------------------------------------------------------------------------
struct DensePrecond {
    typedef B backend_type; typedef M matrix; typedef S value_type;
    std::shared_ptr<M> A; Mat P; int n = 0; mutable long napply = 0;
    template <class V1, class V2> void apply(const V1 &f, V2 &&x) const { ++napply;
        for (int i = 0; i < n; ++i) { L s = 0; for (int j = 0; j < n; ++j) s += P(i, j) * widen(f[j]); x[i] = roundS(s); } }
    const M &system_matrix() const { return *A; }
    std::shared_ptr<M> system_matrix_ptr() const { return A; }
};

//---------------------------------------------------------------------------
// G9: well-conditioned small dense systems with prescribed spectrum
//---------------------------------------------------------------------------
struct System { int n; Mat A, P; Vec f, x0, xs; std::string akind, pkind; int distinct; double kappa; bool spd; DensePrecond prec; std::vector<S> fv, x0v; };

static std::vector<R> spectrum(int n, int m, double kappa, Rng &r) { std::vector<R> d(m); for (int i = 0; i < m; ++i) d[i] = 1 + (kappa - 1) * r.uni(); if (m > 1) { d[0] = 1; d[m - 1] = kappa; } std::vector<R> full(n); for (int i = 0; i < n; ++i) full[i] = d[i % m]; return full; }
static Mat hermitian_with(const std::vector<R> &d, const Mat &Q) { int n = (int)d.size(); Mat D = Mat::Zero(n, n); for (int i = 0; i < n; ++i) D(i, i) = d[i]; Mat A = Q * D * Q.adjoint(); Mat Ah = (A + A.adjoint()) * mkL(0.5, 0); return Ah; }
// diagonalisable non-normal matrix X D X^-1, kappa(X) <= 2
static Mat nonnormal_with(const std::vector<L> &d, Rng &r) { int n = (int)d.size(); Mat Q1 = random_unitary(n, r), Q2 = random_unitary(n, r); Mat Sg = Mat::Zero(n, n), Si = Mat::Zero(n, n), D = Mat::Zero(n, n);
    for (int i = 0; i < n; ++i) { R s = 1 + r.uni(); Sg(i, i) = s; Si(i, i) = 1 / s; D(i, i) = d[i]; } Mat X = Q1 * Sg * Q2.adjoint(), Xi = Q2 * Si * Q1.adjoint(); Mat A = X * D * Xi; return A; }

static System make_system(Rng &r, bool spd, int pkind /*0 id, 1 exact, 2 hermitian pd approx, 3 general approx*/, int nmin = 8, int nmax = 24, bool few_distinct = false, double kmax = 10, bool x0zero_ok = true, double theta_max = 1.0) {
    System s; int n = s.n = (int)r.range(nmin, nmax); s.spd = spd; s.kappa = r.uni(1.5, kmax);
    s.distinct = few_distinct ? (int)r.range(2, std::max(2, n / 2)) : n;
    std::vector<R> d = spectrum(n, s.distinct, s.kappa, r);
    if (spd) { s.A = round_to_working(hermitian_with(d, random_unitary(n, r))); Mat Ah = (s.A + s.A.adjoint()) * mkL(0.5, 0); s.A = round_to_working(Ah); s.akind = "hpd"; }
    else { std::vector<L> dl(n);
#ifdef C05_COMPLEX
        for (int i = 0; i < n; ++i) { R th = r.uni(-theta_max, theta_max); dl[i] = std::polar<R>(d[i], th); }     // eigenvalues in the right half plane, |arg| <= theta_max <= 1 rad
        if (few_distinct) for (int i = 0; i < n; ++i) dl[i] = dl[i % s.distinct];
#else
        for (int i = 0; i < n; ++i) dl[i] = d[i];
#endif
        s.A = round_to_working(nonnormal_with(dl, r)); s.akind = "nonnormal"; }
    // validate the generator: invertible and (when demanded) Hermitian positive definite
    { Eigen::FullPivLU<Mat> lu(s.A); if (!lu.isInvertible()) { fprintf(stderr, "c05: singular system generated\n"); exit(3); } }
    if (spd) { Mat d0 = s.A - s.A.adjoint(); if (d0.cwiseAbs().maxCoeff() != 0) { fprintf(stderr, "c05: matrix not exactly Hermitian\n"); exit(3); } Eigen::LLT<Mat> llt(s.A); if (llt.info() != Eigen::Success) { fprintf(stderr, "c05: matrix not positive definite\n"); exit(3); } }
    switch (pkind) {
    case 0: s.P = Mat::Identity(n, n); s.pkind = "identity"; break;
    case 1: { Mat Ai = s.A.fullPivLu().inverse(); s.P = Ai; s.pkind = "exact"; break; }
    case 2: { std::vector<R> pd(n); for (auto &v : pd) v = (0.5 + r.uni()) / (R)(0.5 * (1 + s.kappa)); Mat Ph = hermitian_with(pd, random_unitary(n, r)); Mat P2 = (Ph + Ph.adjoint()) * mkL(0.5, 0); s.P = P2; s.pkind = "hpd-approx"; break; }
    default: { std::vector<L> pd(n); for (auto &v : pd) v = mkL((0.5 + r.uni()) / (R)(0.5 * (1 + s.kappa)), 0); s.P = nonnormal_with(pd, r); s.pkind = "general-approx"; break; }
    }
    s.f = Vec(n); s.x0 = Vec::Zero(n); s.fv.resize(n); s.x0v.assign(n, S());
    for (int i = 0; i < n; ++i) { S v = roundS(mkL(gauss(r), gauss(r))); s.fv[i] = v; s.f[i] = widen(v); }
    if (!x0zero_ok || r.coin()) for (int i = 0; i < n; ++i) { S v = roundS(mkL(gauss(r), gauss(r))); s.x0v[i] = v; s.x0[i] = widen(v); }
    s.xs = s.A.fullPivLu().solve(s.f);
    std::vector<ptrdiff_t> ptr(1, 0), col; std::vector<S> val;
    for (int i = 0; i < n; ++i) { for (int j = 0; j < n; ++j) { col.push_back(j); val.push_back(roundS(s.A(i, j))); } ptr.push_back((ptrdiff_t)col.size()); }
    s.prec.n = n; s.prec.P = s.P; s.prec.A = std::make_shared<M>(std::make_tuple((size_t)n, ptr, col, val));
    return s;
}
static J sysdesc(const System &s) { return J().s("value_type", VT).n("n", s.n).s("A", s.akind).s("P", s.pkind).n("distinct_eigenvalues", s.distinct).n("kappa", s.kappa).bl("x0_zero", s.x0.norm() == 0); }
static Vec to_vec(const std::vector<S> &x) { Vec v(x.size()); for (size_t i = 0; i < x.size(); ++i) v[i] = widen(x[i]); return v; }

// Orthonormal basis of K_k(Op, v) by Arnoldi-type orthogonalisation (twice), long double.  Stops when the space becomes invariant.
template <class Op> static Mat krylov_basis(Op op, const Vec &v, int k) {
    int n = (int)v.size(); Mat Q(n, 0); Vec w = v; R scale = v.norm(); if (!(scale > 0)) return Q;
    for (int j = 0; j < k && j < n; ++j) {
        R before = w.norm();
        for (int pass = 0; pass < 2; ++pass) for (int i = 0; i < Q.cols(); ++i) { L h = Q.col(i).dot(w); w -= h * Q.col(i); }
        R nw = w.norm(); if (!(nw > 1e-13L * before) || !(before > 0)) break;        // invariant subspace reached (grade of v)
        Q.conservativeResize(n, j + 1); Q.col(j) = w / nw; w = op(Vec(Q.col(j)));
    }
    return Q;
}

template <class Prm> static void budget(Prm &p, size_t k) { p.maxiter = k; p.tol = 0; }   // abstol stays at its default (min positive double): an exactly zero residual stops

struct Run { size_t iters = 0; double res = 0; std::vector<S> x; bool threw = false; std::string what; };
template <class Solver> static Run run(const Solver &Sv, const System &s) { Run r; r.x = s.x0v; std::vector<S> f = s.fv;
    try { std::tie(r.iters, r.res) = Sv(s.prec, f, r.x); } catch (const std::exception &e) { r.threw = true; r.what = e.what(); } return r; }
static bool allfinite(const std::vector<S> &x) { for (auto &v : x) if (!vf::finite_s(v)) return false; return true; }

//---------------------------------------------------------------------------
// cg: A-norm optimality over x0 + K_k(PA, P r0)
//---------------------------------------------------------------------------
static void sub_cg() {
    long N = vf::tier(100, 1500);
    for (long idx = 0; idx < N; ++idx) {
        if (!vf::selected("cg", idx)) continue;
        Rng r(vf::case_seed("cg", idx)); int pk = (int)(idx % 3); System s = make_system(r, true, pk);       // identity / exact / hpd-approx
        Case c("cg", idx, sysdesc(s)); int n = s.n; const Mat &A = s.A, &P = s.P;
        Vec r0 = s.f - A * s.x0, e0 = s.xs - s.x0; R init = std::sqrt(std::abs(e0.dot(A * e0)));
        int kmax = std::min(n, vf::thorough() ? n : 12);
        for (int k = 1; k <= kmax; ++k) {
            amgcl::solver::cg<B>::params prm; budget(prm, k); amgcl::solver::cg<B> Sv(n, prm); Run o = run(Sv, s);
            if (o.threw) { c.fail("cg:exception", o.what, J().n("k", k)); continue; }
            if (!c.check(allfinite(o.x), "cg:nonfinite-iterate", "non-finite iterate on a well-conditioned system", J().n("k", k))) continue;
            Mat Q = krylov_basis([&](const Vec &v) { return Vec(P * (A * v)); }, Vec(P * r0), k);
            Vec xo = s.x0; if (Q.cols()) { Mat G = Q.adjoint() * A * Q; Vec rhs = Q.adjoint() * (A * e0); Vec y = G.fullPivLu().solve(rhs); xo = s.x0 + Q * y; }
            Vec xk = to_vec(o.x), eo = s.xs - xo, ea = s.xs - xk, dk = xk - xo;
            R opt = std::sqrt(std::abs(eo.dot(A * eo))), att = std::sqrt(std::abs(ea.dot(A * ea))), dev = std::sqrt(std::abs(dk.dot(A * dk)));
            c.check((double)att <= (double)(opt * (1 + 1e-6L) + 1e-7L * init), "cg:not-A-norm-optimal", "CG iterate does not minimise the A-norm error over the preconditioned Krylov space",
                    J().n("k", k).n("attained", (double)att).n("optimum", (double)opt).n("initial", (double)init).n("iters", o.iters));
            c.check((double)dev <= (double)(1e-8L * init), "cg:iterate-differs-from-minimiser", "CG iterate differs from the dense A-norm minimiser (reference iterate)", J().n("k", k).n("deviation", (double)dev).n("initial", (double)init));
            c.check(o.iters <= (size_t)k, "cg:iterations-exceed-maxiter", "more iterations than maxiter", J().n("k", k).n("iters", o.iters));
            vf::obs_max("cg_max_excess_over_mixed_bound", (double)((att - opt) / (opt * 1e-6L + 1e-7L * init))); vf::obs_max("cg_max_deviation_from_minimiser", (double)(dev / init));
            vf::obs_sum("method_k_pairs"); c.nontrivial();
        }
        vf::sample("cg", sysdesc(s).n("kmax", kmax));
    }
}

//---------------------------------------------------------------------------
// gmres family: residual optimality (right: over x0 + P K_k(AP, r0); left: ||P(f - A x)|| over x0 + K_k(PA, P r0)),
// agreement with the least-squares minimiser, monotonicity of the reported residual in k across restarts
//---------------------------------------------------------------------------
struct LsRef { R opt, init; Vec xo; };
static LsRef ls_right(const System &s, int k) { const Mat &A = s.A, &P = s.P; Vec r0 = s.f - A * s.x0; LsRef o; o.init = r0.norm(); o.xo = s.x0; o.opt = o.init;
    Mat Q = krylov_basis([&](const Vec &v) { return Vec(A * (P * v)); }, r0, k); if (!Q.cols()) return o;
    Mat W = A * P * Q; Vec y = W.fullPivHouseholderQr().solve(r0); Vec rr = r0 - W * y; o.opt = rr.norm(); o.xo = s.x0 + P * (Q * y); return o; }
static LsRef ls_left(const System &s, int k) { const Mat &A = s.A, &P = s.P; Vec z0 = P * (s.f - A * s.x0); LsRef o; o.init = z0.norm(); o.xo = s.x0; o.opt = o.init;
    Mat Q = krylov_basis([&](const Vec &v) { return Vec(P * (A * v)); }, z0, k); if (!Q.cols()) return o;
    Mat W = P * A * Q; Vec y = W.fullPivHouseholderQr().solve(z0); Vec rr = z0 - W * y; o.opt = rr.norm(); o.xo = s.x0 + Q * y; return o; }

template <class F> static void optimal_k(Case &c, const System &s, const std::string &name, bool left, int k, F make_and_run) {
    Run o = make_and_run(k);
    if (o.threw) { c.fail(name + ":exception", o.what, J().n("k", k)); return; }
    if (!c.check(allfinite(o.x), name + ":nonfinite-iterate", "non-finite iterate on a well-conditioned system", J().n("k", k))) return;
    LsRef ref = left ? ls_left(s, k) : ls_right(s, k); Vec xk = to_vec(o.x);
    Vec ra = s.f - s.A * xk; if (left) ra = s.P * ra; R att = ra.norm();
    c.check((double)att <= (double)(ref.opt * (1 + 1e-6L) + 1e-7L * ref.init), name + ":residual-not-minimal", "iterate does not minimise the (preconditioned) residual norm over the Krylov space",
            J().n("k", k).n("attained", (double)att).n("optimum", (double)ref.opt).n("initial", (double)ref.init).n("iters", o.iters));
    // agreement with the reference iterate (unique least-squares minimiser): measured through the residual it produces
    Vec dx = xk - ref.xo; Vec dr = s.A * dx; if (left) dr = s.P * dr;
    c.check((double)dr.norm() <= (double)(1e-8L * ref.init), name + ":iterate-differs-from-minimiser", "iterate differs from the dense least-squares minimiser (reference iterate)", J().n("k", k).n("deviation", (double)dr.norm()).n("initial", (double)ref.init));
    c.check(o.iters <= (size_t)k, name + ":iterations-exceed-maxiter", "more iterations than maxiter", J().n("k", k).n("iters", o.iters));
    // the reported value is the attained one (right: ||f - A x|| / ||f||, left: ||P(f - A x)|| / ||f||)
    R nf = s.f.norm(); c.check(std::fabs(o.res - (double)(att / nf)) <= 1e-8 * (double)(ref.init / nf) + 1e-6 * (double)(att / nf), name + ":reported-residual", "reported residual is not the residual of the returned iterate", J().n("k", k).n("reported", o.res).n("attained", (double)(att / nf)));
    vf::obs_max(name + "_max_excess_over_mixed_bound", (double)((att - ref.opt) / (ref.opt * 1e-6L + 1e-7L * ref.init)));
    vf::obs_sum("method_k_pairs"); c.nontrivial();
}

static void sub_gmres() {
    long N = vf::tier(100, 2000);
    for (long idx = 0; idx < N; ++idx) {
        if (!vf::selected("gmres", idx)) continue;
        Rng r(vf::case_seed("gmres", idx)); int pk = (int)(idx % 4); bool spd = (idx / 4) % 3 == 0; if (spd && pk == 3) pk = 2;
        System s = make_system(r, spd, pk); Case c("gmres", idx, sysdesc(s)); int n = s.n;
        int kmax = std::min(n, vf::thorough() ? n : 10);
        for (int k = 1; k <= kmax; ++k) {
            optimal_k(c, s, "gmres", false, k, [&](int kk) { amgcl::solver::gmres<B>::params p; budget(p, kk); p.M = 30; p.pside = side::right; amgcl::solver::gmres<B> Sv(n, p); return run(Sv, s); });
            optimal_k(c, s, "gmres-left", true, k, [&](int kk) { amgcl::solver::gmres<B>::params p; budget(p, kk); p.M = 30; p.pside = side::left; amgcl::solver::gmres<B> Sv(n, p); return run(Sv, s); });
            optimal_k(c, s, "fgmres", false, k, [&](int kk) { amgcl::solver::fgmres<B>::params p; budget(p, kk); p.M = 30; amgcl::solver::fgmres<B> Sv(n, p); return run(Sv, s); });
            // LGMRES: the first cycle (k <= M + K) has no augmentation vectors and must be a GMRES cycle
            { unsigned Mi = (unsigned)r.pick(std::vector<int>{24, 30}), Ki = (unsigned)r.range(0, 3);
              optimal_k(c, s, "lgmres", false, k, [&](int kk) { amgcl::solver::lgmres<B>::params p; budget(p, kk); p.M = Mi; p.K = Ki; p.pside = side::right; amgcl::solver::lgmres<B> Sv(n, p); return run(Sv, s); });
              optimal_k(c, s, "lgmres-left", true, k, [&](int kk) { amgcl::solver::lgmres<B>::params p; budget(p, kk); p.M = Mi; p.K = Ki; p.pside = side::left; amgcl::solver::lgmres<B> Sv(n, p); return run(Sv, s); }); }
        }
        vf::sample("gmres", sysdesc(s).n("kmax", kmax));
    }
}

// restart lengths M in {1,2,4,30}: reported (and true) residual non-increasing in k
static void sub_monotone() {
    long N = vf::tier(60, 1000);
    for (long idx = 0; idx < N; ++idx) {
        if (!vf::selected("monotone", idx)) continue;
        Rng r(vf::case_seed("monotone", idx)); int pk = (int)(idx % 4); bool spd = (idx / 4) % 4 == 0; if (spd && pk == 3) pk = 2; if (pk == 1) pk = 2;    // exact P converges in one step: nothing to observe
        System s = make_system(r, spd, pk); Case c("monotone", idx, sysdesc(s)); int n = s.n; R nf = s.f.norm();
        int K = vf::thorough() ? 2 * n : 16;
        Mat aA = s.A.cwiseAbs(); R nP = 1; { Eigen::JacobiSVD<Mat> svd(s.P); nP = svd.singularValues()[0]; }
        for (int Mr : {1, 2, 4, 30}) for (int which = 0; which < 5; ++which) {
            static const char *nm[5] = {"gmres", "gmres-left", "fgmres", "lgmres", "lgmres-left"};
            bool left = which == 1 || which == 4; double prev = std::numeric_limits<double>::infinity(), prevt = prev;
            unsigned Kl = (unsigned)(idx % 3); int cyc = which >= 3 ? Mr + (int)Kl : Mr;      // inner cycle length (LGMRES: M + K)
            int Kmax = cyc >= n ? std::min(K, n) : K;                                       // "k up to the subspace size": a single cycle cannot exceed n steps
            for (int k = 0; k <= Kmax; ++k) {
                Run o;
                if (which <= 1) { amgcl::solver::gmres<B>::params p; budget(p, k); p.M = Mr; p.pside = left ? side::left : side::right; amgcl::solver::gmres<B> Sv(n, p); o = run(Sv, s); }
                else if (which == 2) { amgcl::solver::fgmres<B>::params p; budget(p, k); p.M = Mr; amgcl::solver::fgmres<B> Sv(n, p); o = run(Sv, s); }
                else { amgcl::solver::lgmres<B>::params p; budget(p, k); p.M = Mr; p.K = Kl; p.pside = left ? side::left : side::right; amgcl::solver::lgmres<B> Sv(n, p); o = run(Sv, s); }
                if (o.threw) { c.fail(std::string(nm[which]) + ":exception", o.what, J().n("k", k).n("M", Mr)); break; }
                Vec xk = to_vec(o.x); Vec ra = s.f - s.A * xk; if (left) ra = s.P * ra; double tr = (double)(ra.norm() / nf);
                // rounding slack: two working-precision evaluations of the residual are compared; each is off by at most
                // 8 u (n + 3) (|| |A||x| || + ||f||) (times ||P||_2 on the left side), relative to ||f||
                Vec ax = aA * xk.cwiseAbs(); double slack = 2 * (double)(8.0L * vf::unit_roundoff<S>::get() * (n + 3) * (ax.norm() + nf) * (left ? nP : (R)1) / nf);
                c.check(std::isfinite(o.res) && o.res <= prev * (1 + 1e-10) + slack, std::string(nm[which]) + ":reported-residual-increases", "reported residual increased from k-1 to k", J().n("k", k).n("M", Mr).n("prev", prev).n("now", o.res).n("slack", slack));
                c.check(std::isfinite(tr) && tr <= prevt * (1 + 1e-10) + slack, std::string(nm[which]) + ":true-residual-increases", "true (preconditioned) residual of the iterate increased from k-1 to k", J().n("k", k).n("M", Mr).n("prev", prevt).n("now", tr).n("slack", slack));
                prev = o.res; prevt = tr; vf::obs_sum("method_k_pairs");
            }
            c.nontrivial();
        }
    }
}

//---------------------------------------------------------------------------
// BiCGStab (and BiCGStab(1), which names the same algorithm) against van der Vorst's recurrences
//---------------------------------------------------------------------------
struct BiRef { Vec x; R amp; };
static BiRef bicgstab_ref(const Mat &A, const Mat &P, const Vec &f, Vec x, int k, bool left) {
    Vec r = left ? Vec(P * (f - A * x)) : Vec(f - A * x); Vec rh = r, p = r, v = Vec::Zero(r.size()); L rho = 1, alpha = 1, omega = 1; R amp = 1;
    auto cosang = [](L ip, const Vec &a, const Vec &b) { R d = a.norm() * b.norm(); return d > 0 ? (R)std::abs(ip) / d : (R)0; };
    for (int it = 0; it < k; ++it) {
        L rho1 = rh.dot(r); R c1 = cosang(rho1, rh, r); if (it > 0) { L beta = (rho1 / rho) * (alpha / omega); p = r + beta * (p - omega * v); } rho = rho1;
        Vec ph = left ? p : Vec(P * p); v = left ? Vec(P * (A * p)) : Vec(A * ph); L rv = rh.dot(v); alpha = rho / rv;
        Vec s = r - alpha * v; Vec sh = left ? s : Vec(P * s); Vec t = left ? Vec(P * (A * s)) : Vec(A * sh); L ts = t.dot(s); omega = ts / t.dot(t);
        x += alpha * ph + omega * sh; r = s - omega * t;
        // sensitivity of the recurrences: every quotient amplifies relative perturbations by 1 / cos(angle)
        R c2 = cosang(rv, rh, v), c3 = cosang(ts, t, s);
        amp *= 1 / std::max<R>(1e-30L, std::min(c1, std::min(c2, c3)));
    }
    return BiRef{x, amp};
}
static void sub_bicgstab() {
    long N = vf::tier(120, 2000);
    for (long idx = 0; idx < N; ++idx) {
        if (!vf::selected("bicgstab", idx)) continue;
        Rng r(vf::case_seed("bicgstab", idx)); int pk = (int)(idx % 4); if (pk == 1) pk = 3;    // exact P: one step and the residual is rounding noise, recurrences meaningless afterwards
        System s = make_system(r, (idx / 4) % 4 == 0, pk == 3 && (idx / 4) % 4 == 0 ? 2 : pk, 8, 24, false, 5.0); Case c("bicgstab", idx, sysdesc(s)); int n = s.n;
        for (int k = 1; k <= 8; ++k) for (int left = 0; left < 2; ++left) for (int which = 0; which < 2; ++which) {
            std::string name = std::string(which ? "bicgstabl(L=1)" : "bicgstab") + (left ? "-left" : "");
            BiRef ref = bicgstab_ref(s.A, s.P, s.f, s.x0, k, left);
            // the comparison is meaningful while u * amplification stays far below the tolerance (near-breakdown steps are skipped, counted)
            if (!(ref.amp < 1e6L) || !std::isfinite((double)ref.x.norm())) { vf::obs_sum("bicgstab_near_breakdown_skipped"); continue; }
            Run o;
            if (!which) { amgcl::solver::bicgstab<B>::params p; budget(p, k); p.pside = left ? side::left : side::right; amgcl::solver::bicgstab<B> Sv(n, p); o = run(Sv, s); }
            else { amgcl::solver::bicgstabl<B>::params p; budget(p, k); p.L = 1; p.pside = left ? side::left : side::right; amgcl::solver::bicgstabl<B> Sv(n, p); o = run(Sv, s); }
            if (o.threw) { c.fail(name + ":exception", o.what, J().n("k", k)); continue; }
            Vec xk = to_vec(o.x); R err = (xk - ref.x).cwiseAbs().maxCoeff(), sc = ref.x.cwiseAbs().maxCoeff();
            c.check(allfinite(o.x) && (double)err <= 1e-8 * (double)sc, name + ":iterate-differs-from-reference", "k-th iterate differs from van der Vorst's BiCGStab recurrences",
                    J().n("k", k).n("err", (double)err).n("scale", (double)sc).n("amplification", (double)ref.amp));
            c.check(o.iters == (size_t)k, name + ":iteration-count", "tol = 0 run did not perform exactly maxiter iterations", J().n("k", k).n("iters", o.iters));
            vf::obs_max(name + "_max_rel_err", (double)(err / sc)); vf::obs_sum("method_k_pairs"); c.nontrivial();
        }
        vf::sample("bicgstab", sysdesc(s));
    }
}

//---------------------------------------------------------------------------
// BiCGStab(L), L in {2,4} (default "convex" = plain minimal-residual polynomial): reference from the definition in Sleijpen & Fokkema (1993):
// L BiCG steps building r_j = Op^j r, u_j = Op^j u, then the degree-L minimal residual polynomial: gamma = argmin || r_0 - [r_1..r_L] gamma ||
// (dense least squares in long double), x += sum gamma_j r_{j-1}, u_0 -= sum gamma_j u_j, r_0 -= sum gamma_j r_j, omega = gamma_L.
//---------------------------------------------------------------------------
static BiRef bicgstabl_ref(const Mat &A, const Mat &P, const Vec &f, const Vec &x0, int Lp, int cycles, bool left) {
    int n = (int)f.size(); auto Op = [&](const Vec &v) { return left ? Vec(P * (A * v)) : Vec(A * (P * v)); };
    auto cosang = [](L ip, const Vec &a, const Vec &b) { R d = a.norm() * b.norm(); return d > 0 ? (R)std::abs(ip) / d : (R)0; };
    Vec b = left ? Vec(P * (f - A * x0)) : Vec(f - A * x0); std::vector<Vec> Rv(Lp + 1, Vec::Zero(n)), U(Lp + 1, Vec::Zero(n)); Rv[0] = b; Vec rt = b, X = Vec::Zero(n);
    L alpha = 0, rho0 = 1, omega = 1; R amp = 1, cond2sum = 0;
    for (int c = 0; c < cycles; ++c) {
        rho0 = -omega * rho0;
        for (int j = 0; j < Lp; ++j) {
            L rho1 = rt.dot(Rv[j]); amp *= 1 / std::max<R>(1e-30L, cosang(rho1, rt, Rv[j]));
            L beta = alpha * (rho1 / rho0); rho0 = rho1;
            for (int i = 0; i <= j; ++i) { Vec t = Rv[i] - beta * U[i]; U[i] = t; }
            U[j + 1] = Op(U[j]); L sigma = rt.dot(U[j + 1]); amp *= 1 / std::max<R>(1e-30L, cosang(sigma, rt, U[j + 1])); alpha = rho1 / sigma;
            X += alpha * U[0];
            for (int i = 0; i <= j; ++i) Rv[i] -= alpha * U[i + 1];
            Rv[j + 1] = Op(Rv[j]);
        }
        Mat Rm(n, Lp); for (int j = 1; j <= Lp; ++j) Rm.col(j - 1) = Rv[j];
        Vec g = Rm.fullPivHouseholderQr().solve(Rv[0]);
        { Eigen::JacobiSVD<Mat> svd(Rm); R smax = svd.singularValues()[0], smin = svd.singularValues()[Lp - 1]; R cd = smin > 0 ? smax / smin : (R)1e30L; cond2sum += cd * cd; }   // normal equations square the conditioning (first order: the cycles add up)
        omega = g[Lp - 1];
        for (int j = 1; j <= Lp; ++j) X += g[j - 1] * Rv[j - 1];
        for (int j = 1; j <= Lp; ++j) U[0] -= g[j - 1] * U[j];
        for (int j = 1; j <= Lp; ++j) Rv[0] -= g[j - 1] * Rv[j];
    }
    Vec x = left ? Vec(x0 + X) : Vec(x0 + P * X); return BiRef{x, amp * cond2sum};
}
static void sub_bicgstabl() {
    long N = vf::tier(100, 1500);
    for (long idx = 0; idx < N; ++idx) {
        if (!vf::selected("bicgstabl", idx)) continue;
        Rng r(vf::case_seed("bicgstabl", idx)); int pk = (int)(idx % 3) == 1 ? 3 : (int)(idx % 3); bool spd = (idx / 3) % 4 == 0; if (spd && pk == 3) pk = 2;
        System s = make_system(r, spd, pk, 10, 24, false, 4.0); Case c("bicgstabl", idx, sysdesc(s)); int n = s.n;
        for (int Lp : {2, 4}) for (int cyc = 1; cyc <= (Lp == 2 ? 3 : 2); ++cyc) for (int left = 0; left < 2; ++left) {
            std::string name = "bicgstabl(L=" + std::to_string(Lp) + ")" + (left ? "-left" : "");
            BiRef ref = bicgstabl_ref(s.A, s.P, s.f, s.x0, Lp, cyc, left);
            // tolerance 1e-8, widened to 1e3 u amp when the recurrences / normal equations are sensitive; beyond 1e-3 nothing can be said (skipped, counted)
            double tolr = std::max(1e-8, 1e3 * vf::unit_roundoff<S>::get() * (double)ref.amp);
            if (!(tolr < 1e-3) || !std::isfinite((double)ref.x.norm())) { vf::obs_sum("bicgstabl_ill_conditioned_skipped"); continue; }
            amgcl::solver::bicgstabl<B>::params p; budget(p, (size_t)Lp * cyc); p.L = Lp; p.pside = left ? side::left : side::right; amgcl::solver::bicgstabl<B> Sv(n, p); Run o = run(Sv, s);
            if (o.threw) { c.fail(name + ":exception", o.what, J().n("cycles", cyc)); continue; }
            Vec xk = to_vec(o.x); R err = (xk - ref.x).cwiseAbs().maxCoeff(), sc = ref.x.cwiseAbs().maxCoeff();
            c.check(allfinite(o.x) && (double)err <= tolr * (double)sc, name + ":iterate-differs-from-reference", "iterate after whole BiCGStab(L) cycles differs from the definition (BiCG steps + minimal residual polynomial of degree L)",
                    J().n("cycles", cyc).n("L", Lp).n("err", (double)err).n("scale", (double)sc).n("amplification", (double)ref.amp));
            c.check(o.iters == (size_t)Lp * cyc, name + ":iteration-count", "tol = 0 run did not perform exactly maxiter iterations", J().n("iters", o.iters).n("expected", Lp * cyc));
            vf::obs_max(name + "_max_rel_err", (double)(err / sc)); vf::obs_sum("method_k_pairs"); c.nontrivial();
        }
    }
}

//---------------------------------------------------------------------------
// IDR(s): the shadow space is private to the solver, but its defining dimension-reduction step is observable from outside:
// after s intermediate steps, step s+1 is  x <- x + w Prec r,  r <- (I - w A Prec) r  with w = argmin ||r - w A Prec r|| (params::omega = 0), or that value
// increased by omega / |cos(A Prec r, r)| when the cosine is below params::omega ("maintaining the convergence" strategy documented in params).
// Two runs (maxiter = s and s + 1) give x_s and x_{s+1}; r_s is recomputed from x_s.
//---------------------------------------------------------------------------
static void sub_idrs() {
    long N = vf::tier(100, 1500);
    for (long idx = 0; idx < N; ++idx) {
        if (!vf::selected("idrs", idx)) continue;
        Rng r(vf::case_seed("idrs", idx)); int pk = (int)(idx % 3) == 1 ? 3 : (int)(idx % 3); bool spd = (idx / 3) % 4 == 0; if (spd && pk == 3) pk = 2;
        System s = make_system(r, spd, pk, 12, 24, false, 6.0); Case c("idrs", idx, sysdesc(s)); int n = s.n;
        R nA, nP; { Eigen::JacobiSVD<Mat> sa(s.A), sp(s.P); nA = sa.singularValues()[0]; nP = sp.singularValues()[0]; }
        for (unsigned sv = 1; sv <= 8; ++sv) for (int strat = 0; strat < 2; ++strat) {
            double om = strat ? 0.7 : 0.0; std::string name = "idrs";
            amgcl::solver::idrs<B>::params p; p.s = sv; p.omega = om; p.tol = 0;
            p.maxiter = sv; amgcl::solver::idrs<B> S1(n, p); Run a = run(S1, s);
            p.maxiter = sv + 1; amgcl::solver::idrs<B> S2(n, p); Run b = run(S2, s);
            if (a.threw || b.threw) { c.fail(name + ":exception", a.threw ? a.what : b.what); continue; }
            if (!c.check(a.iters == sv && b.iters == sv + 1, name + ":iteration-count", "tol = 0 runs did not perform exactly maxiter iterations", J().n("s", sv).n("iters_a", a.iters).n("iters_b", b.iters))) continue;
            Vec xa = to_vec(a.x), xb = to_vec(b.x), rs = s.f - s.A * xa, v = s.P * rs, t = s.A * v, dx = xb - xa;
            L w = t.dot(rs) / t.dot(t); R rho = (R)std::abs(t.dot(rs)) / (t.norm() * rs.norm());
            if (!(rs.norm() > 1e-6L * s.f.norm()) || !(rho > 1e-3L)) { vf::obs_sum("idrs_step_skipped_converged_or_orthogonal"); continue; }   // nothing to observe / quotient ill-conditioned
            if ((R)om > rho) w *= (L)((R)om / rho);
            Vec ex = w * v; R err = (dx - ex).norm(), sc = ex.norm();
            // 1e-8 relative to the step (quotient sensitivity 1/cos) plus the gap between the solver's recursively updated residual and the true residual
            // of x_s used here: 100 u (s+1) ||A|| max||x_j|| (Greenbaum), mapped to the step by ||P|| / cos
            R gap = 100.0L * vf::unit_roundoff<S>::get() * (sv + 1) * nA * nP * (xa.norm() + xb.norm() + s.x0.norm()) / std::min<R>(1, rho);
            c.check(allfinite(b.x) && (double)err <= 1e-8 * (double)sc / (double)std::min<R>(1, rho) + (double)gap, name + ":dimension-reduction-step", "step s+1 of IDR(s) is not x + w Prec r with the minimal-residual w (adjusted by params::omega)",
                    J().n("s", sv).n("omega_param", om).n("err", (double)err).n("scale", (double)sc).n("cos", (double)rho));
            vf::obs_max("idrs_mr_step_max_rel_err", (double)(err / sc)); vf::obs_sum("method_k_pairs"); c.nontrivial();
        }
        // residual smoothing (params::smoothing): the returned iterate is the minimal-residual combination of the previous smoothed iterate and the new
        // IDR iterate, so the residual of the returned x cannot increase with k
        { unsigned sv = (unsigned)(1 + idx % 8); Mat aA = s.A.cwiseAbs(); R nf = s.f.norm(); double prev = std::numeric_limits<double>::infinity();
          for (unsigned k = 0; k <= 2 * (sv + 1) && k <= (unsigned)n; ++k) {
            amgcl::solver::idrs<B>::params p; p.s = sv; p.smoothing = true; p.tol = 0; p.maxiter = k; amgcl::solver::idrs<B> Sv(n, p); Run o = run(Sv, s);
            if (o.threw) { c.fail("idrs-smoothing:exception", o.what, J().n("k", k)); break; }
            Vec xk = to_vec(o.x); double tr = (double)((s.f - s.A * xk).norm() / nf); Vec ax = aA * xk.cwiseAbs();
            double slack = 2 * (double)(8.0L * vf::unit_roundoff<S>::get() * (n + 3) * (ax.norm() + nf) / nf) + (double)(100.0L * vf::unit_roundoff<S>::get() * (k + 1) * nA * (xk.norm() + s.x0.norm()) / nf);   // evaluation noise + recursive-residual gap
            c.check(std::isfinite(tr) && tr <= prev * (1 + 1e-10) + slack, "idrs-smoothing:residual-increases", "with residual smoothing the residual of the returned iterate increased from k-1 to k", J().n("s", sv).n("k", k).n("prev", prev).n("now", tr));
            prev = tr; vf::obs_sum("method_k_pairs"); }
        }
    }
}

//---------------------------------------------------------------------------
// Richardson: x + w P (f - A x) repeated k times
//---------------------------------------------------------------------------
static void sub_richardson() {
    long N = vf::tier(100, 1500);
    for (long idx = 0; idx < N; ++idx) {
        if (!vf::selected("richardson", idx)) continue;
        Rng r(vf::case_seed("richardson", idx)); int pk = (int)(idx % 4); System s = make_system(r, idx % 3 == 0, (idx % 3 == 0 && pk == 3) ? 2 : pk); int n = s.n;
        double w = r.pick(std::vector<double>{1.0, 0.8, 0.5, 1.3}); Case c("richardson", idx, sysdesc(s).n("damping", w));
        Vec xr = s.x0; Mat aP = s.P.cwiseAbs(), aA = s.A.cwiseAbs(); R g = 0, G = 1;
        Mat E = Mat::Identity(n, n) - (L)(R)w * (s.P * s.A), Ep = Mat::Identity(n, n);
        for (int k = 1; k <= 10; ++k) {
            { Ep = Ep * E; G = std::max(G, (R)Ep.cwiseAbs().rowwise().sum().maxCoeff()); }
            { Vec gj = aP * (aA * xr.cwiseAbs() + s.f.cwiseAbs()) + xr.cwiseAbs(); g = std::max(g, (R)gj.cwiseAbs().maxCoeff()); }
            { Vec res = s.f - s.A * xr; xr = xr + (L)(R)w * (s.P * res); }
            amgcl::solver::richardson<B>::params p; budget(p, k); p.damping = w; amgcl::solver::richardson<B> Sv(n, p); Run o = run(Sv, s);
            if (o.threw) { c.fail("richardson:exception", o.what, J().n("k", k)); continue; }
            Vec xk = to_vec(o.x); R err = (xk - xr).cwiseAbs().maxCoeff();
            // forward bound: k steps, each a working-precision residual (n + 2 roundings per entry), one rounding of P r and the axpby; the perturbations
            // propagate through powers of E = I - w P A (G = max_m<=k ||E^m||_inf >= 1, computed densely).
            R bound = 64.0L * vf::unit_roundoff<S>::get() * (n + 4) * k * g * G;
            c.check(allfinite(o.x) && (double)err <= (double)bound, "richardson:iterate-differs-from-recurrence", "iterate differs from x + w P (f - A x) repeated k times", J().n("k", k).n("err", (double)err).n("bound", (double)bound).n("damping", w));
            c.check(o.iters == (size_t)k, "richardson:iteration-count", "tol = 0 run did not perform exactly maxiter iterations", J().n("k", k).n("iters", o.iters));
            vf::obs_max("richardson_max_err_over_bound", (double)(err / bound)); vf::obs_sum("method_k_pairs"); c.nontrivial();
        }
    }
}

//---------------------------------------------------------------------------
// finite termination: exact or identity preconditioner, m <= n distinct eigenvalues, tol 1e-8, budget n (+ceil(n/s), +L-1)
//---------------------------------------------------------------------------
static void sub_termination() {
    long N = vf::tier(160, 2400);
    for (long idx = 0; idx < N; ++idx) {
        if (!vf::selected("termination", idx)) continue;
        Rng r(vf::case_seed("termination", idx)); bool exact = idx % 2; bool spd = (idx / 2) % 3 == 0; bool few = (idx / 6) % 2 == 0;
        System s = make_system(r, spd, exact ? 1 : 0, 8, 24, few, few ? 10.0 : 3.0, true, few ? 1.0 : 0.7); int n = s.n; Case c("termination", idx, sysdesc(s)); R nf = s.f.norm();
        auto verdict = [&](const std::string &name, const Run &o, size_t bud, size_t slack) {
            if (o.threw) {   // a breakdown exception is acceptable only if the initial guess already satisfied the tolerance (nothing to do)
                Vec r0 = s.f - s.A * s.x0; c.check((double)(r0.norm() / nf) < 1e-8, name + ":exception", "exception on a well-conditioned system: " + o.what); return; }
            Vec xk = to_vec(o.x); double tr = (double)((s.f - s.A * xk).norm() / nf);
            c.check(allfinite(o.x) && o.res < 1e-7 && tr < 1e-7 && o.iters <= bud + slack, name + ":no-finite-termination", "method did not deliver the solution within its finite-termination budget",
                    J().n("iters", o.iters).n("budget", bud).n("reported", o.res).n("true", tr));
            vf::obs_max(name + "_max_iters_over_n", (double)o.iters / n); if (!few) vf::obs_max(name + "_max_final_residual_full_spectrum", std::max(o.res, tr)); vf::obs_sum("method_k_pairs"); c.nontrivial();
        };
        size_t nn = (size_t)n;
        if (spd) { amgcl::solver::cg<B>::params p; p.maxiter = nn; amgcl::solver::cg<B> Sv(n, p); verdict("cg", run(Sv, s), nn, 0); }
        for (int left = 0; left < 2; ++left) { amgcl::solver::bicgstab<B>::params p; p.maxiter = nn; p.pside = left ? side::left : side::right; amgcl::solver::bicgstab<B> Sv(n, p); verdict(left ? "bicgstab-left" : "bicgstab", run(Sv, s), nn, 0); }
        for (int Lp : {1, 2, 4}) { amgcl::solver::bicgstabl<B>::params p; p.L = Lp; p.maxiter = nn; amgcl::solver::bicgstabl<B> Sv(n, p); verdict("bicgstabl(L=" + std::to_string(Lp) + ")", run(Sv, s), nn, (size_t)Lp - 1); }
        for (int left = 0; left < 2; ++left) { amgcl::solver::gmres<B>::params p; p.maxiter = nn; p.M = 30; p.pside = left ? side::left : side::right; amgcl::solver::gmres<B> Sv(n, p); verdict(left ? "gmres-left" : "gmres", run(Sv, s), nn, 0); }
        { amgcl::solver::fgmres<B>::params p; p.maxiter = nn; p.M = 30; amgcl::solver::fgmres<B> Sv(n, p); verdict("fgmres", run(Sv, s), nn, 0); }
        { amgcl::solver::lgmres<B>::params p; p.maxiter = nn; p.M = 30; p.K = 3; amgcl::solver::lgmres<B> Sv(n, p); verdict("lgmres", run(Sv, s), nn, 0); }
        { unsigned sv = (unsigned)(1 + (idx / 12) % 8); size_t bud = nn + (nn + sv - 1) / sv; amgcl::solver::idrs<B>::params p; p.s = sv; p.maxiter = (unsigned)bud; amgcl::solver::idrs<B> Sv(n, p); verdict("idrs", run(Sv, s), bud, 0); vf::obs_add("idrs_s_seen", std::to_string(sv)); }
        if (exact) { amgcl::solver::richardson<B>::params p; p.maxiter = nn; amgcl::solver::richardson<B> Sv(n, p); verdict("richardson", run(Sv, s), nn, 0); }
        vf::sample("termination", sysdesc(s));
    }
}

//---------------------------------------------------------------------------
// scale: Krylov iterates do not depend on the units of the system.  For (2^j A, 2^j f, 2^-j P) -- the preconditioned operator is unchanged -- every
// method must return the same iterate as for (A, f, P), for maxiter = k with tol = 0 and for a tight-tolerance run.  Power-of-two scaling is exact in
// binary floating point (no overflow / underflow for |j| <= 40 here: squared norms move by 2^(2j), the smallest quantities are ~1e-32 2^-80), every
// quotient the methods form (alpha, beta, omega, Givens coefficients, Gram-matrix solves, c = M^-1 f in IDR(s)) is a ratio of equally scaled
// quantities, sqrt of an even power of two is exact, and the stopping thresholds are relative (tol ||f||); the only absolute constants of the solvers
// are abstol = DBL_MIN and the zero-right-hand-side test ||f|| < 4.4e-16, from which ||f|| 2^-40 ~ 1e-12 stays clear.  Hence BITWISE equality of
// (iters, reported residual, x) is demanded (left side: the reported value and the tolerance carry 2^-j, see below).  An absolute threshold inside a method (e.g. a "breakdown" guard on <Ap,p>) breaks it.
//---------------------------------------------------------------------------
static System scaled_system(const System &s, int j) {
    System t = s; int n = s.n; R up = std::ldexp((R)1, j), dn = std::ldexp((R)1, -j);
    t.A = s.A * (L)up; t.P = s.P * (L)dn; t.f = s.f * (L)up; for (int i = 0; i < n; ++i) t.fv[i] = roundS(t.f[i]);
    std::vector<ptrdiff_t> ptr(1, 0), col; std::vector<S> val;
    for (int i = 0; i < n; ++i) { for (int k = 0; k < n; ++k) { col.push_back(k); val.push_back(roundS(t.A(i, k))); } ptr.push_back((ptrdiff_t)col.size()); }
    t.prec.n = n; t.prec.P = t.P; t.prec.napply = 0; t.prec.A = std::make_shared<M>(std::make_tuple((size_t)n, ptr, col, val));
    // the scaling must be exact (harness-side consistency)
    for (int i = 0; i < n; ++i) { if (widen(t.fv[i]) != s.f[i] * (L)up) { fprintf(stderr, "c05 scale: inexact scaling of f\n"); exit(3); } for (int k = 0; k < n; ++k) if (widen(roundS(t.A(i, k))) != s.A(i, k) * (L)up) { fprintf(stderr, "c05 scale: inexact scaling of A\n"); exit(3); } }
    return t;
}
static bool same_bits(const S &a, const S &b) { return memcmp(&a, &b, sizeof(S)) == 0 || (!vf::finite_s(a) && !vf::finite_s(b)); }
static void sub_scale() {
    long N = vf::tier(40, 600);
    for (long idx = 0; idx < N; ++idx) {
        if (!vf::selected("scale", idx)) continue;
        Rng r(vf::case_seed("scale", idx)); bool spd = idx % 2 == 0; int pk = (int)((idx / 2) % 3) == 1 ? (spd ? 2 : 3) : (int)((idx / 2) % 3);   // identity / approx / approx
        System s0 = make_system(r, spd, pk, 8, 20, false, 8.0); int n = s0.n; Case c("scale", idx, sysdesc(s0));
        typedef std::function<Run(const System &, size_t /*maxiter*/, double /*tol*/)> Runner; std::vector<std::pair<std::string, Runner>> methods;
        if (spd) methods.emplace_back("cg", [n](const System &s, size_t k, double tol) { amgcl::solver::cg<B>::params p; p.maxiter = k; p.tol = tol; amgcl::solver::cg<B> Sv(n, p); return run(Sv, s); });
        for (int left = 0; left < 2; ++left) {
            std::string sd = left ? "-left" : "";
            methods.emplace_back("bicgstab" + sd, [n, left](const System &s, size_t k, double tol) { amgcl::solver::bicgstab<B>::params p; p.maxiter = k; p.tol = tol; p.pside = left ? side::left : side::right; amgcl::solver::bicgstab<B> Sv(n, p); return run(Sv, s); });
            for (int Lp : {1, 2, 4}) methods.emplace_back("bicgstabl(L=" + std::to_string(Lp) + ")" + sd, [n, left, Lp](const System &s, size_t k, double tol) { amgcl::solver::bicgstabl<B>::params p; p.L = Lp; p.maxiter = k; p.tol = tol; p.pside = left ? side::left : side::right; amgcl::solver::bicgstabl<B> Sv(n, p); return run(Sv, s); });
            for (int Mr : {3, 30}) methods.emplace_back("gmres(M=" + std::to_string(Mr) + ")" + sd, [n, left, Mr](const System &s, size_t k, double tol) { amgcl::solver::gmres<B>::params p; p.M = Mr; p.maxiter = k; p.tol = tol; p.pside = left ? side::left : side::right; amgcl::solver::gmres<B> Sv(n, p); return run(Sv, s); });
            methods.emplace_back("lgmres" + sd, [n, left](const System &s, size_t k, double tol) { amgcl::solver::lgmres<B>::params p; p.M = 4; p.K = 2; p.maxiter = k; p.tol = tol; p.pside = left ? side::left : side::right; amgcl::solver::lgmres<B> Sv(n, p); return run(Sv, s); });
        }
        methods.emplace_back("fgmres", [n](const System &s, size_t k, double tol) { amgcl::solver::fgmres<B>::params p; p.M = 5; p.maxiter = k; p.tol = tol; amgcl::solver::fgmres<B> Sv(n, p); return run(Sv, s); });
        for (int sm = 0; sm < 2; ++sm) { unsigned sv = (unsigned)(1 + (idx + 3 * sm) % 8);
            methods.emplace_back(std::string("idrs") + (sm ? "-smoothing" : ""), [n, sv, sm](const System &s, size_t k, double tol) { amgcl::solver::idrs<B>::params p; p.s = sv; p.smoothing = sm; p.maxiter = (unsigned)k; p.tol = tol; amgcl::solver::idrs<B> Sv(n, p); return run(Sv, s); }); }
        methods.emplace_back("richardson", [n](const System &s, size_t k, double tol) { amgcl::solver::richardson<B>::params p; p.damping = 0.8; p.maxiter = k; p.tol = tol; amgcl::solver::richardson<B> Sv(n, p); return run(Sv, s); });
        // budgets: tol = 0 with k in {1, 3, n/2, n} and a tight-tolerance run (1e-13, 3 n iterations)
        std::vector<std::pair<size_t, double>> budgets = {{1, 0.0}, {3, 0.0}, {(size_t)n / 2, 0.0}, {(size_t)n, 0.0}, {(size_t)3 * n, 1e-13}};
        std::vector<System> scaled; static const int JS[5] = {-40, -30, -20, 20, 30}; for (int j : JS) scaled.push_back(scaled_system(s0, j));
        for (auto &m : methods) for (auto &bt : budgets) {
            Run base = m.second(s0, bt.first, bt.second);
            for (int q = 0; q < 5; ++q) {
                // left preconditioning reports || P (f - A x) || / ||f|| by definition: P r is unchanged, ||f|| is scaled, so the reported value (and the
                // relative tolerance that is compared with it) carries the factor 2^-j exactly; iterates and iteration counts do not
                bool isleft = m.first.find("-left") != std::string::npos; double tolq = isleft ? std::ldexp(bt.second, -JS[q]) : bt.second; double expect = isleft ? std::ldexp(base.res, -JS[q]) : base.res;
                Run o = m.second(scaled[q], bt.first, tolq); std::string why;
                if (o.threw != base.threw) why = o.threw ? "scaled run threw: " + o.what : "unscaled run threw: " + base.what;
                else if (!o.threw) { if (o.iters != base.iters) why = "iterations " + std::to_string(o.iters) + " vs " + std::to_string(base.iters);
                    else if (memcmp(&o.res, &expect, sizeof(double)) && !(std::isnan(o.res) && std::isnan(expect))) { char b[96]; snprintf(b, sizeof b, "reported residual %.17g vs %.17g", o.res, expect); why = b; }
                    else for (int i = 0; i < n; ++i) if (!same_bits(o.x[i], base.x[i])) { char b[160]; snprintf(b, sizeof b, "x[%d] = %.17g vs %.17g", i, std::abs(o.x[i]), std::abs(base.x[i])); why = b; break; } }
                c.check(why.empty(), m.first + ":iterate-depends-on-scaling", "iterate for (2^j A, 2^j f, 2^-j P) differs from the iterate for (A, f, P): " + why,
                        J().n("j", JS[q]).n("maxiter", bt.first).n("tol", bt.second).n("iters_unscaled", base.iters).n("res_unscaled", base.res));
                vf::obs_sum("method_k_pairs"); c.nontrivial();
            }
        }
    }
}

//---------------------------------------------------------------------------
// invariant: exactly invariant subspaces ("lucky breakdown").  Block-diagonal systems with small (Gaussian-)integer entries: an m x m upper-Hessenberg
// block B (tridiagonal Hermitian pd for CG) with non-zero subdiagonal, m in {1,2,3}, placed on random indices, and an integer diagonally dominant
// remainder.  The initial residual is c e_first (c a power of two times a unit), so the Arnoldi / Lanczos vectors are exact unit vectors, every vector
// stays exactly inside the block and the (m+1)-th Krylov vector is an exact floating-point zero (H(m+1,m) == 0).  Preconditioner: identity, or the exact
// inverse on the block (for which blocks are drawn until B^-1 is exactly representable).  Every method must return the solution within m iterations (+L-1 for
// BiCGStab(L), + ceil(m/s) for IDR(s); Richardson: one step with the exact preconditioner); a breakdown exception is acceptable only if the iterate it
// leaves behind already satisfies the tolerance.
//---------------------------------------------------------------------------
// smallest |cos| of the two BiCG quotients (rho = (r~, Op^j r_j), sigma = (r~, Op^(j+1) u_j)) over the first `steps` BiCG steps of a BiCGStab(L) cycle, long double:
// an exact 0 is a *mathematical* (serious Lanczos) breakdown of the BiCG process with shadow vector r~ = r0, e.g. when r_j is an eigenvector orthogonal to r~
static R bicg_min_cos(const Mat &A, const Mat &P, const Vec &f, const Vec &x0, int steps, bool left) {
    int n = (int)f.size(); auto Op = [&](const Vec &v) { return left ? Vec(P * (A * v)) : Vec(A * (P * v)); };
    auto cosang = [](L ip, const Vec &a, const Vec &b) { R d = a.norm() * b.norm(); return d > 0 ? (R)std::abs(ip) / d : (R)0; };
    Vec b = left ? Vec(P * (f - A * x0)) : Vec(f - A * x0); std::vector<Vec> Rv(steps + 1, Vec::Zero(n)), U(steps + 1, Vec::Zero(n)); Rv[0] = b; Vec rt = b; L alpha = 0, rho0 = 1; R mc = 1, r0n = b.norm();
    for (int j = 0; j < steps; ++j) {
        if (!(Rv[0].norm() > 1e-14L * r0n)) break;                           // converged: the solver leaves the cycle here
        L rho1 = rt.dot(Rv[j]); mc = std::min(mc, cosang(rho1, rt, Rv[j])); if (!(mc > 0)) return 0;
        L beta = alpha * (rho1 / rho0); rho0 = rho1;
        for (int i = 0; i <= j; ++i) { Vec t = Rv[i] - beta * U[i]; U[i] = t; }
        U[j + 1] = Op(U[j]); L sigma = rt.dot(U[j + 1]); mc = std::min(mc, cosang(sigma, rt, U[j + 1])); if (!(mc > 0)) return 0; alpha = rho1 / sigma;
        for (int i = 0; i <= j; ++i) Rv[i] -= alpha * U[i + 1];
        Rv[j + 1] = Op(Rv[j]);
    }
    return mc;
}
static L gint(Rng &r, int lo, int hi, bool nz = false) { for (;;) { R a = (R)r.range(lo, hi), b = 0;
#ifdef C05_COMPLEX
        b = (R)r.range(lo, hi);
#endif
        if (!nz || a != 0 || b != 0) return mkL(a, b); } }
static void sub_invariant() {
    long N = vf::tier(90, 1800);
    for (long idx = 0; idx < N; ++idx) {
        if (!vf::selected("invariant", idx)) continue;
        Rng r(vf::case_seed("invariant", idx)); int m = 1 + (int)(idx % 3); bool spd = (idx / 3) % 2 == 0; bool exactP = (idx / 6) % 2; bool x0zero = (idx / 12) % 2 == 0;
        int n = (int)r.range(m + 3, 12); Mat Bm, Bi; bool ok = false;
        for (int attempt = 0; attempt < 2000 && !ok; ++attempt) {
            Bm = Mat::Zero(m, m);
            if (spd) { for (int i = 0; i < m; ++i) Bm(i, i) = mkL((R)r.range(1, 4), 0); for (int i = 0; i + 1 < m; ++i) { L o = gint(r, -2, 2, true); Bm(i + 1, i) = o;
#ifdef C05_COMPLEX
                    Bm(i, i + 1) = std::conj(o);
#else
                    Bm(i, i + 1) = o;
#endif
                } Eigen::LLT<Mat> llt(Bm); if (llt.info() != Eigen::Success) continue; }
            else { // upper Hessenberg, positive diagonal, non-zero sub- and super-diagonal, positive definite Hermitian part: the exact structure must not
                   // produce the *mathematical* breakdowns of the BiCG family (omega = (As,s)/(As,As) = 0 or (r~, A p) = 0 happen exactly when a
                   // diagonal / super-diagonal entry is 0; on the unchanged tree bicgstab then returns NaN, bicgstabl throws its documented exception)
                for (int i = 0; i < m; ++i) for (int j = 0; j < m; ++j) if (j + 1 >= i) Bm(i, j) = i == j ? mkL((R)r.range(2, 4), 0) : gint(r, -1, 1, j == i + 1);
                for (int i = 0; i + 1 < m; ++i) Bm(i + 1, i) = gint(r, -1, 1, true);
                Mat Hp = (Bm + Bm.adjoint()) * mkL(0.5, 0); Eigen::LLT<Mat> llt(Hp); if (llt.info() != Eigen::Success) continue; }
            Eigen::FullPivLU<Mat> lu(Bm); if (!lu.isInvertible()) continue; Bi = lu.inverse();
            if (exactP) {   // exact inverse wanted: round to multiples of 1/64 and verify B Bi == I exactly
                for (int i = 0; i < m; ++i) for (int j = 0; j < m; ++j) { std::complex<R> z = Bi(i, j); Bi(i, j) = mkL(std::round(z.real() * 64) / 64, std::round(z.imag() * 64) / 64); }
                Mat T = Bm * Bi - Mat::Identity(m, m); if (T.cwiseAbs().maxCoeff() != 0) continue; }
            if (Bm.cwiseAbs().maxCoeff() * Bi.cwiseAbs().maxCoeff() > 60) continue;           // keep the block well conditioned
            ok = true;
        }
        if (!ok) { fprintf(stderr, "c05 invariant: no exactly invertible block found\n"); exit(3); }
        // placement and remainder
        std::vector<int> perm(n); for (int i = 0; i < n; ++i) perm[i] = i; r.shuffle(perm); std::vector<int> bi(perm.begin(), perm.begin() + m), rest(perm.begin() + m, perm.end());
        System s; s.n = n; s.spd = spd; s.kappa = 0; s.distinct = m; s.akind = spd ? "integer-block-hpd" : "integer-block-hessenberg"; s.pkind = exactP ? "exact-on-block" : "identity";
        s.A = Mat::Zero(n, n); s.P = Mat::Identity(n, n);
        for (int i = 0; i < m; ++i) for (int j = 0; j < m; ++j) { s.A(bi[i], bi[j]) = Bm(i, j); if (exactP) s.P(bi[i], bi[j]) = Bi(i, j); }
        for (size_t i = 0; i < rest.size(); ++i) { s.A(rest[i], rest[i]) = mkL(6, 0); if (i + 1 < rest.size()) { L o = gint(r, -1, 1); s.A(rest[i], rest[i + 1]) = o;
#ifdef C05_COMPLEX
                s.A(rest[i + 1], rest[i]) = std::conj(o);
#else
                s.A(rest[i + 1], rest[i]) = o;
#endif
            } if (exactP) s.P(rest[i], rest[i]) = mkL(0.125, 0); }
        s.x0 = Vec::Zero(n); s.x0v.assign(n, S()); if (!x0zero) for (int i = 0; i < n; ++i) { L v = gint(r, -3, 3); s.x0[i] = v; s.x0v[i] = roundS(v); }
        L cc = mkL(0, 0); { R mag = std::ldexp((R)1, (int)r.range(-3, 4)); int u4 = (int)r.range(0, 3);
#ifdef C05_COMPLEX
            cc = u4 == 0 ? L(mag, 0) : u4 == 1 ? L(-mag, 0) : u4 == 2 ? L(0, mag) : L(0, -mag);
#else
            cc = (u4 % 2) ? -mag : mag;
#endif
        }
        Vec g = Vec::Zero(n); g[bi[0]] = cc; s.f = s.A * s.x0 + g; s.fv.resize(n); for (int i = 0; i < n; ++i) { s.fv[i] = roundS(s.f[i]); if (widen(s.fv[i]) != s.f[i]) { fprintf(stderr, "c05 invariant: inexact rhs\n"); exit(3); } }
        Vec xb = Vec::Zero(n); { Vec gb(m); gb.setZero(); gb[0] = cc; Vec yb = Bi * gb; for (int i = 0; i < m; ++i) xb[bi[i]] = yb[i]; } s.xs = s.x0 + xb;
        { Vec chk = s.A * s.xs - s.f; if (!(chk.cwiseAbs().maxCoeff() <= 1e-17L * (1 + s.f.cwiseAbs().maxCoeff()))) { fprintf(stderr, "c05 invariant: reference solution inaccurate\n"); exit(3); } }
        std::vector<ptrdiff_t> ptr(1, 0), col; std::vector<S> val;
        for (int i = 0; i < n; ++i) { for (int j = 0; j < n; ++j) { col.push_back(j); val.push_back(roundS(s.A(i, j))); } ptr.push_back((ptrdiff_t)col.size()); }
        s.prec.n = n; s.prec.P = s.P; s.prec.A = std::make_shared<M>(std::make_tuple((size_t)n, ptr, col, val));
        if (vf::opt_int("debug", 0)) { std::ostringstream os; os << Bm; fprintf(stderr, "invariant idx=%ld m=%d block=\n%s\n", idx, m, os.str().c_str()); }
        Case c("invariant", idx, sysdesc(s).n("m", m)); R nf = s.f.norm(), sc = std::max<R>(1, s.xs.cwiseAbs().maxCoeff()); size_t mm = exactP ? 1 : (size_t)m;   // with the exact block inverse P A = I on the block
        auto verdict = [&](const std::string &name, const Run &o, size_t bud, int bicg_steps = 0, bool left = false) {
            // a documented BiCG breakdown exception is not held against the solver when the BiCG process itself breaks down in exact arithmetic (reference)
            if (o.threw && bicg_steps > 0 && bicg_min_cos(s.A, s.P, s.f, s.x0, bicg_steps, left) < 1e-12L) { vf::obs_sum("invariant_mathematical_bicg_breakdown_confirmed_by_reference"); return; }
            Vec xk = to_vec(o.x); double tr = (double)((s.f - s.A * xk).norm() / nf); double err = (double)((xk - s.xs).cwiseAbs().maxCoeff() / sc);
            if (o.threw) { c.check(allfinite(o.x) && tr < 1e-8, name + ":exception-before-convergence", "breakdown exception although the iterate left behind does not satisfy the tolerance: " + o.what, J().n("true", tr).n("m", m)); return; }
            c.check(allfinite(o.x) && std::isfinite(o.res) && tr < 1e-7 && err < 1e-7 && o.iters <= bud, name + ":invariant-subspace-not-exploited", "initial residual spans an exactly invariant subspace of dimension m: the method did not return the solution within its budget",
                    J().n("m", m).n("iters", o.iters).n("budget", bud).n("reported", o.res).n("true", tr).n("error", err));
            vf::obs_sum("method_k_pairs"); c.nontrivial();
        };
        const size_t MAXIT = 60;
        if (spd) { amgcl::solver::cg<B>::params p; p.maxiter = MAXIT; amgcl::solver::cg<B> Sv(n, p); verdict("cg", run(Sv, s), mm); }
        for (int left = 0; left < 2; ++left) { std::string sd = left ? "-left" : ""; auto ps = left ? side::left : side::right;
            { amgcl::solver::bicgstab<B>::params p; p.maxiter = MAXIT; p.pside = ps; amgcl::solver::bicgstab<B> Sv(n, p); verdict("bicgstab" + sd, run(Sv, s), mm); }
            for (int Lp : {1, 2, 4}) { amgcl::solver::bicgstabl<B>::params p; p.L = Lp; p.maxiter = MAXIT; p.pside = ps; amgcl::solver::bicgstabl<B> Sv(n, p); verdict("bicgstabl(L=" + std::to_string(Lp) + ")" + sd, run(Sv, s), mm + Lp - 1, Lp, left); }
            for (int Mr : {2, 30}) { amgcl::solver::gmres<B>::params p; p.M = Mr; p.maxiter = MAXIT; p.pside = ps; amgcl::solver::gmres<B> Sv(n, p); if (Mr >= (int)mm) verdict("gmres(M=" + std::to_string(Mr) + ")" + sd, run(Sv, s), mm); }   // a restart shorter than m has no finite termination
            for (int Kr : {0, 2}) { amgcl::solver::lgmres<B>::params p; p.M = 4; p.K = Kr; p.maxiter = MAXIT; p.pside = ps; amgcl::solver::lgmres<B> Sv(n, p); verdict("lgmres(K=" + std::to_string(Kr) + ")" + sd, run(Sv, s), mm); }
        }
        { amgcl::solver::fgmres<B>::params p; p.M = 5; p.maxiter = MAXIT; amgcl::solver::fgmres<B> Sv(n, p); verdict("fgmres", run(Sv, s), mm); }
        { unsigned sv = (unsigned)(1 + (idx / 24) % 6); amgcl::solver::idrs<B>::params p; p.s = sv; p.maxiter = MAXIT; amgcl::solver::idrs<B> Sv(n, p); verdict("idrs", run(Sv, s), mm + (mm + sv - 1) / sv); }
        if (exactP) { amgcl::solver::richardson<B>::params p; p.maxiter = MAXIT; amgcl::solver::richardson<B> Sv(n, p); verdict("richardson", run(Sv, s), 1); }
    }
}

int main(int argc, char **argv) {
    vf::init(argc, argv);
    vf::obs_add("value_types", VT);
    vf::obs_set("termination_generator", "G9 n in 8..24; m distinct eigenvalues: 2 <= m <= n/2 with kappa <= 10, |arg| <= 1 rad (complex), or m = n with kappa <= 3, |arg| <= 0.7 rad; eigenvector condition <= 2; identity or exact preconditioner");
    if (vf::sub_enabled("cg")) sub_cg();
    if (vf::sub_enabled("gmres")) sub_gmres();
    if (vf::sub_enabled("monotone")) sub_monotone();
    if (vf::sub_enabled("bicgstab")) sub_bicgstab();
    if (vf::sub_enabled("bicgstabl")) sub_bicgstabl();
    if (vf::sub_enabled("idrs")) sub_idrs();
    if (vf::sub_enabled("richardson")) sub_richardson();
    if (vf::sub_enabled("termination")) sub_termination();
    if (vf::sub_enabled("scale")) sub_scale();
    if (vf::sub_enabled("invariant")) sub_invariant();
    return vf::finish();
}
