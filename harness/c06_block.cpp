// C06, block-valued (static_matrix<double,2,2>) instantiation (see c06_real.cpp).
#define VF_HOOKS_NO_DEF
#include <vf/c06_relax.hpp>
void c06_block() { c06::sub_relax<amgcl::static_matrix<double, 2, 2>>("relax_block", 36, 400); }
