// C06, complex-valued instantiation (see c06_real.cpp).
#define VF_HOOKS_NO_DEF
#include <vf/c06_relax.hpp>
void c06_complex() { c06::sub_relax<std::complex<double>>("relax_complex", 36, 400); }
