// C06, exact mode: ILU(0) instantiated with boost::rational<long long> on every directed sparsity pattern on 4
// vertices (G7).  In exact arithmetic (I+L)(D^-1+U) must equal A on the pattern of A with no tolerance at all,
// the factors must stay inside that pattern, and apply() must solve (LU) y = f exactly.
#include <boost/rational.hpp>
typedef boost::rational<long long> Q;
namespace std { inline Q abs(const Q &q) { return q < 0 ? -q : q; } }
#include <amgcl/backend/builtin.hpp>
namespace amgcl { namespace math { template <> struct norm_impl<Q> { static Q get(const Q &q) { return q < 0 ? -q : q; } }; } }
#include <amgcl/adapter/crs_tuple.hpp>
#include <amgcl/relaxation/ilu0.hpp>
#include <vf/hooks.hpp>
#include <vf/gen.hpp>

using vf::J; using vf::Case; using vf::Rng;
typedef amgcl::backend::builtin<Q> B;

int main(int argc, char **argv) {
    vf::init(argc, argv);
    const size_t n = 4; const uint64_t nmask = 1ULL << vf::offdiag_count(n), batch = 256; long idx = 0;
    for (int vals = 0; vals < 2; ++vals) for (uint64_t base = 0; base < nmask; base += batch, ++idx) {
        if (!vf::selected("ilu0_rational", idx)) continue;
        Case c("ilu0_rational", idx, J().n("n", n).s("values", vals ? "mixed-sign integers" : "M-matrix integers").n("mask_from", base).n("masks", batch));
        Rng r(vf::case_seed("ilu0_rational", idx)); long bad_pattern = 0, bad_lu = 0, bad_apply = 0, bad_struct = 0, exc = 0; uint64_t first = ~0ULL;
        for (uint64_t mask = base; mask < base + batch; ++mask) {
            vf::Csr<double> S = vf::pattern_matrix(n, mask, [&](size_t, size_t) { double v = (double)r.range(1, 3); return vals && r.coin(0.4) ? v : -v; }, [&](size_t, double s) { return s + (double)r.range(1, 3); });
            std::vector<Q> val(S.val.size()); for (size_t k = 0; k < val.size(); ++k) val[k] = Q((long long)S.val[k]);
            amgcl::backend::crs<Q> A(n, n, S.ptr, S.col, val); Q Ad[4][4]; for (auto &row : Ad) for (auto &v : row) v = Q(0);
            for (size_t i = 0; i < n; ++i) for (auto j = S.ptr[i]; j < S.ptr[i + 1]; ++j) Ad[i][S.col[j]] = val[j];
            bool fail = false;
            try {
                amgcl::relaxation::ilu0<B>::params p; p.solve.serial = true; amgcl::relaxation::ilu0<B> I(A, p, B::params());
                auto &sol = *amgcl::verif::access::ilu(I); auto &L = amgcl::verif::access::L(sol); auto &U = amgcl::verif::access::U(sol); auto &D = amgcl::verif::access::D(sol);
                Q Ld[4][4], Ud[4][4]; for (size_t i = 0; i < n; ++i) for (size_t j = 0; j < n; ++j) { Ld[i][j] = Q(i == j ? 1 : 0); Ud[i][j] = Q(0); }
                bool st = true, pat = true;
                for (size_t i = 0; i < n; ++i) {
                    for (auto j = L->ptr[i]; j < L->ptr[i + 1]; ++j) { auto cc = L->col[j]; if (cc < 0 || (size_t)cc >= i) { st = false; continue; } Ld[i][cc] = L->val[j]; if (Ad[i][cc] == Q(0)) pat = false; }
                    for (auto j = U->ptr[i]; j < U->ptr[i + 1]; ++j) { auto cc = U->col[j]; if ((size_t)cc <= i || (size_t)cc >= n) { st = false; continue; } Ud[i][cc] = U->val[j]; if (Ad[i][cc] == Q(0)) pat = false; }
                    if ((*D)[i] == Q(0)) st = false; else Ud[i][i] = Q(1) / (*D)[i];
                }
                if (!st) { ++bad_struct; fail = true; } if (!pat) { ++bad_pattern; fail = true; }
                Q LU[4][4]; bool eq = true;
                for (size_t i = 0; i < n; ++i) for (size_t j = 0; j < n; ++j) { Q s(0); for (size_t k = 0; k < n; ++k) s += Ld[i][k] * Ud[k][j]; LU[i][j] = s; if (Ad[i][j] != Q(0) && s != Ad[i][j]) eq = false; }
                if (st && !eq) { ++bad_lu; fail = true; }
                amgcl::backend::numa_vector<Q> f(n), y(n); for (size_t i = 0; i < n; ++i) f[i] = Q((long long)r.range(-5, 5));
                I.apply(A, f, y); bool ap = true; for (size_t i = 0; i < n; ++i) { Q s(0); for (size_t j = 0; j < n; ++j) s += LU[i][j] * y[j]; if (s != f[i]) ap = false; }
                if (st && !ap) { ++bad_apply; fail = true; }
            } catch (const std::exception &e) { ++exc; fail = true; }
            if (fail && first == ~0ULL) first = mask;
            c.checks += 4; if (mask) c.nontrivial();
        }
        J w = J().n("first_mask", (long long)first);
        if (bad_struct) c.fail("ilu0(exact):factors-malformed", "factor outside its triangle or zero inverted pivot", J(w).n("count", bad_struct));
        if (bad_pattern) c.fail("ilu0(exact):pattern-outside-A", "the exact factors store an entry outside the pattern of A", J(w).n("count", bad_pattern));
        if (bad_lu) c.fail("ilu0(exact):LU-ne-A-on-pattern", "(LU)_ij != a_ij in exact rational arithmetic", J(w).n("count", bad_lu));
        if (bad_apply) c.fail("ilu0(exact):apply", "apply() does not solve (LU) y = f exactly", J(w).n("count", bad_apply));
        if (exc) c.fail("ilu0(exact):exception", "exception on a strictly diagonally dominant integer matrix", J(w).n("count", exc));
    }
    vf::obs_set("ilu0_rational_space", "all 2^12 directed patterns on 4 vertices x {M-matrix, mixed-sign} integer values, boost::rational<long long>");
    return vf::finish();
}
