// C06 -- every relaxation sweep equals its mathematical definition (DESIGN.md 5/C06).
// Real-valued instantiation and main(); complex and block values live in c06_complex.cpp / c06_block.cpp,
// the shared oracles in include/vf/c06_relax.hpp.
#include <vf/c06_relax.hpp>

void c06_complex();
void c06_block();

// as_preconditioner must hand rhs to the smoother's apply() unchanged: bitwise equal to the smoother itself
template <template <class> class Relax> static void one_as_precond(c06::Chk &c, const char *name, const c06::Sys<double> &S, vf::Rng &r) {
    typedef amgcl::backend::builtin<double> B; typename Relax<B>::params p; B::params bp;
    try {
        Relax<B> rel(*S.Am, p, bp); amgcl::relaxation::as_preconditioner<B, Relax> P(*S.Am, p, bp);
        c06::LZV f = c06::random_lzv<double>(S.N, r, false); c06::Vec<double> fv(S.n), x1(S.n), x2(S.n); c06::to_vec<double>(f, fv);
        rel.apply(*S.Am, fv, x1); P.apply(fv, x2); bool same = true; for (size_t i = 0; i < S.n; ++i) if (memcmp(&x1[i], &x2[i], sizeof(double))) same = false;
        c.check(same, std::string("as_preconditioner:") + name, "as_preconditioner<Relax>::apply differs from Relax::apply on the same (sorted) matrix");
    } catch (const std::exception &e) { c.check(false, std::string("as_preconditioner:exception:") + name, e.what()); }
}
static void sub_as_precond() {
    if (!vf::sub_enabled("as_precond")) return;
    long N = vf::tier(20, 200);
    for (long idx = 0; idx < N; ++idx) {
        if (!vf::selected("as_precond", idx)) continue;
        vf::Rng r(vf::case_seed("as_precond", idx)); c06::Sys<double> S = c06::make_system<double>(r, false, 40);
        vf::Case cs("as_precond", idx, S.desc()); c06::Chk c(cs);
        using namespace amgcl::relaxation;
        one_as_precond<damped_jacobi>(c, "damped_jacobi", S, r); one_as_precond<spai0>(c, "spai0", S, r); one_as_precond<spai1>(c, "spai1", S, r); one_as_precond<gauss_seidel>(c, "gauss_seidel", S, r);
        one_as_precond<chebyshev>(c, "chebyshev", S, r); one_as_precond<ilu0>(c, "ilu0", S, r); one_as_precond<iluk>(c, "iluk", S, r); one_as_precond<ilup>(c, "ilup", S, r); one_as_precond<ilut>(c, "ilut", S, r);
        cs.nontrivial();
    }
}

// Small patterns (G7): every directed pattern on 4 vertices and a strided (quick) / dense (thorough) sample of the 2^20
// patterns on 5 vertices, ILU(0), ILU(1), ILU(2), ILUP(1): documented pattern and (LU)_ij = a_ij on it.
static void sub_ilu_small() {
    if (!vf::sub_enabled("ilu_small")) return;
    long idx = 0; const uint64_t batch = 256;
    for (size_t n = 4; n <= 5; ++n) {
        uint64_t nmask = 1ULL << vf::offdiag_count(n), stride = n == 4 ? 1 : (vf::thorough() ? 31 : 509);
        for (uint64_t base = 0; base < nmask; base += batch * stride, ++idx) {
            if (!vf::selected("ilu_small", idx)) continue;
            vf::Case cs("ilu_small", idx, vf::J().n("n", n).n("mask_from", base).n("stride", stride).n("masks", batch).n("threads", omp_get_max_threads())); c06::Chk c(cs);
            vf::Rng r(vf::case_seed("ilu_small", idx));
            for (uint64_t q = 0; q < batch; ++q) { uint64_t mask = base + q * stride; if (mask >= nmask) break;
                c06::Skel sk; bool unit = q % 2 == 0;   // A = (n+1) I - pattern, or random dominant values
                sk.A = vf::pattern_matrix(n, mask, [&](size_t, size_t) { return unit ? -1.0 : -r.uni(0.3, 1.0); }, [&](size_t, double sum) { return unit ? (double)n + 1 : sum + r.uni(0.2, 1.0); });
                sk.family = "G7-pattern"; sk.pattern_sym = c06::pattern_symmetric(sk.A); c06::Sys<double> S = c06::make_system_from<double>(sk, r); c.ctx = "n=" + std::to_string(n) + " mask=" + std::to_string(mask);
                c06::IluCfg cfg; cfg.k = 0; c06::check_ilu<double, c06::ILU0>(c, S, r, cfg);
                for (int k = 1; k <= 2; ++k) { cfg.k = k; c06::check_ilu<double, c06::ILUK>(c, S, r, cfg); }
                cfg.k = 1; c06::check_ilu<double, c06::ILUP>(c, S, r, cfg);
                cfg.k = (int)n; cfg.expect_exact = true; c06::check_ilu<double, c06::ILUK>(c, S, r, cfg);
                if (mask) cs.nontrivial();
            }
        }
    }
    vf::obs_set("ilu_small_space", "all 2^12 directed patterns on 4 vertices; every 509th (quick) / 31st (thorough) of the 2^20 patterns on 5 vertices");
}

int main(int argc, char **argv) {
    vf::init(argc, argv);
    vf::obs_add("threads_seen", std::to_string(omp_get_max_threads()));
    c06::sub_relax<double>("relax_real", 60, 600);
    c06_complex();
    c06_block();
    sub_as_precond();
    sub_ilu_small();
    return vf::finish();
}
