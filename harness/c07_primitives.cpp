// C07 -- backend vector and matrix-vector primitives equal their algebraic definitions
// (DESIGN.md 5/C07).
//
// Oracles
//  R  every result is compared with the defining formula evaluated on the *flattened*
//     operands (a b x b block matrix is a scalar (nb) x (mb) matrix, a block vector a
//     scalar vector) in complex long double.  Integer / dyadic operands ("exact" cases)
//     make every intermediate exactly representable in float, so the comparison is
//     exact equality; real operands are compared with the forward bound
//         |got - ref| <= cf (k + 4) eps  ( |alpha| sum_j |a_ij||x_j| + |beta||y_i| )
//     (gamma_{k+2} of a length-k recursive sum plus the two scalings, first order
//     (k+2) eps/2; cf = 2 leaves room for the long-double reference itself when the
//     value type is long double, cf = 8 for complex arithmetic (|fl(xy) - xy| <= sqrt(5) u |xy|)).
//  D  zero output coefficient: the call is repeated with the output pre-filled with
//     NaN, +Inf, -Inf and a huge number; all results must be identical to the result
//     with the original output.
//  D  scalar vectors passed where block vectors are expected: identical results.
//  S  the same workload under ASan/UBSan and TSan (registered in props/c07.py).
#include <amgcl/backend/builtin.hpp>
#include <amgcl/backend/block_crs.hpp>
#include <amgcl/backend/eigen.hpp>
#include <amgcl/backend/builtin_hybrid.hpp>
#include <amgcl/value_type/static_matrix.hpp>
#include <amgcl/value_type/complex.hpp>
#include <amgcl/value_type/eigen.hpp>
#include <amgcl/adapter/crs_tuple.hpp>
#include <vf/hooks.hpp>
#include <vf/gen.hpp>
#include <omp.h>
#include <memory>

using namespace amgcl;
using vf::J; using vf::Rng; using vf::Case;
// set-valued observations are comma lists: keep commas out of the tokens
static std::string tok(std::string s) { for (auto &ch : s) if (ch == ',') ch = ';'; return s; }
typedef long double LD; typedef std::complex<LD> CL;

//---------------------------------------------------------------------------
// element access over the value types
//---------------------------------------------------------------------------
template <class T> struct is_cplx : std::false_type {};
template <class T> struct is_cplx<std::complex<T>> : std::true_type {};

template <class T> typename std::enable_if<std::is_arithmetic<T>::value, CL>::type el(const T &v, int = 0, int = 0) { return CL((LD)v, 0); }
template <class T> CL el(const std::complex<T> &v, int = 0, int = 0) { return CL((LD)v.real(), (LD)v.imag()); }
template <class T, int N, int M> CL el(const static_matrix<T, N, M> &v, int p, int q = 0) { return el(v(p, q)); }
template <class T, int N, int M> CL el(const Eigen::Matrix<T, N, M> &v, int p, int q = 0) { return el(v(p, q)); }

template <class T> typename std::enable_if<std::is_arithmetic<T>::value>::type setel(T &v, int, int, LD re, LD) { v = (T)re; }
template <class T> void setel(std::complex<T> &v, int, int, LD re, LD im) { v = std::complex<T>((T)re, (T)im); }
template <class T, int N, int M> void setel(static_matrix<T, N, M> &v, int p, int q, LD re, LD im) { setel(v(p, q), 0, 0, re, im); }
template <class T, int N, int M> void setel(Eigen::Matrix<T, N, M> &v, int p, int q, LD re, LD im) { setel(v(p, q), 0, 0, re, im); }

template <class V> struct vt {
    typedef typename math::scalar_of<V>::type S;
    typedef typename math::element_of<V>::type E;
    typedef typename math::rhs_of<V>::type R;
    static const int br = math::static_rows<V>::value, bc = math::static_cols<V>::value;
    static const bool cplx = is_cplx<E>::value;
    static double eps() { return (double)std::numeric_limits<S>::epsilon(); }
    static double cf() { return cplx ? 8.0 : 2.0; }
};

static LD gscalar(Rng &r, bool exact) { return exact ? (LD)r.range(-4, 4) : (LD)r.uni(-2, 2); }
template <class V> V genv(Rng &r, bool exact) {
    V v; for (int p = 0; p < vt<V>::br; ++p) for (int q = 0; q < vt<V>::bc; ++q) { LD re = gscalar(r, exact), im = vt<V>::cplx ? gscalar(r, exact) : 0; setel(v, p, q, re, im); }
    return v;
}
template <class R> std::vector<R> genvec(size_t n, Rng &r, bool exact) { std::vector<R> v(n); for (auto &e : v) e = genv<R>(r, exact); return v; }

// coefficients {0, 1, -1, 2, 0.5, random}; "random" is a dyadic number in exact cases
template <class C> C coef(Rng &r, int k, bool exact) {
    static const LD tab[5] = {0, 1, -1, 2, 0.5};
    auto one = [&](int kk) -> LD { return kk < 5 ? tab[kk] : (exact ? (LD)r.range(-6, 6) * 0.25L : (LD)r.uni(-3, 3)); };
    C c; LD re = one(k), im = 0;
    if (is_cplx<C>::value) { im = one((int)r.range(0, 5)); if (k == 0) im = 0; }   // k == 0 means the coefficient *is* zero
    setel(c, 0, 0, re, im); return c;
}

// flatten a vector-like container of (block) values into complex long double scalars
template <class Vec> std::vector<CL> flat(const Vec &x) {
    typedef typename backend::value_type<Vec>::type T; const int b = math::static_rows<T>::value;
    size_t n = x.size(); std::vector<CL> f(n * b);
    for (size_t i = 0; i < n; ++i) for (int p = 0; p < b; ++p) f[i * b + p] = el(x[i], p, 0);
    return f;
}
template <class Vec, class R> std::unique_ptr<Vec> mkvec(const std::vector<R> &v) {
    std::unique_ptr<Vec> p(new Vec(v.size())); for (size_t i = 0; i < v.size(); ++i) (*p)[i] = v[i]; return p;
}
// pre-fill an output with a hostile value: 1 NaN, 2 +Inf, 3 -Inf, 4 huge
template <class Vec> void fill_special(Vec &y, int kind) {
    typedef typename backend::value_type<Vec>::type T; typedef typename math::scalar_of<T>::type S; const int b = math::static_rows<T>::value;
    S s = kind == 1 ? std::numeric_limits<S>::quiet_NaN() : kind == 2 ? std::numeric_limits<S>::infinity() : kind == 3 ? -std::numeric_limits<S>::infinity()
        : (sizeof(S) == 4 ? (S)1e30 : (S)1e300);
    for (size_t i = 0; i < (size_t)y.size(); ++i) for (int p = 0; p < b; ++p) setel(y[i], p, 0, s, s);
}
static bool same(const std::vector<CL> &a, const std::vector<CL> &b) {
    if (a.size() != b.size()) return false;
    for (size_t i = 0; i < a.size(); ++i) {
        if (!(a[i].real() == b[i].real()) || !(a[i].imag() == b[i].imag())) return false;
        if (std::signbit(a[i].real()) != std::signbit(b[i].real()) || std::signbit(a[i].imag()) != std::signbit(b[i].imag())) return false;
    }
    return true;
}

//---------------------------------------------------------------------------
// reference values
//---------------------------------------------------------------------------
struct Ref { std::vector<CL> v; std::vector<LD> acc; std::vector<long> k;
    explicit Ref(size_t n = 0) : v(n, CL(0)), acc(n, 0), k(n, 0) {} };

// got vs ref.  exact: equality.  otherwise forward bound cf (kmul k + 4) eps acc.
static bool cmp(Case &c, const std::string &key, const std::string &what, const std::vector<CL> &got, const Ref &ref, bool exact, double eps, double cf, double kmul = 1) {
    bool ok = got.size() == ref.v.size(); size_t bad = 0; double worst = 0; LD gv = 0, rv = 0, bd = 0, gi = 0, ri = 0;
    for (size_t i = 0; ok && i < got.size(); ++i) {
        bool fin = std::isfinite((double)got[i].real()) && std::isfinite((double)got[i].imag());
        if (exact) { if (!fin || !(got[i].real() == ref.v[i].real()) || !(got[i].imag() == ref.v[i].imag())) { ok = false; bad = i; gv = got[i].real(); rv = ref.v[i].real(); gi = got[i].imag(); ri = ref.v[i].imag(); } }
        else {
            LD d = std::abs(got[i] - ref.v[i]), bound = (LD)cf * (LD)(kmul * ref.k[i] + 4) * (LD)eps * ref.acc[i];
            if (!fin || !(d <= bound)) { ok = false; bad = i; gv = got[i].real(); rv = ref.v[i].real(); gi = got[i].imag(); ri = ref.v[i].imag(); bd = bound; }
            if (ref.acc[i] > 0) worst = std::max(worst, (double)(d / ((LD)eps * ref.acc[i])));
        }
    }
    if (!exact && ok) vf::obs_max("max_err_over_eps_abs_sum", worst);     // (of the comparisons that held: how much of the bound is used)
    vf::obs_sum("calls_compared");
    return c.check(ok, key, what + (exact ? " (integer-valued operands: exact equality demanded)" : " (outside the forward rounding bound)"),
                   J().n("component", bad).n("got_re", gv).n("ref_re", rv).n("got_im", gi).n("ref_im", ri).n("bound", bd).n("size", got.size()).n("ref_size", ref.v.size()));
}

// Run an operation that writes `out`; when the output coefficient is zero repeat it with hostile
// pre-fills and demand identical results.  Returns the flattened result of the plain run.
template <class Vec, class R, class Op>
std::vector<CL> run_out(Case &c, const std::string &key, const std::vector<R> &out0, bool zero_coef, Op op) {
    auto y = mkvec<Vec>(out0); op(*y); std::vector<CL> res = flat(*y);
    if (zero_coef) {
        static const char *nm[5] = {"", "NaN", "+Inf", "-Inf", "huge"};
        for (int kind = 1; kind <= 4; ++kind) {
            auto y2 = mkvec<Vec>(out0); fill_special(*y2, kind); op(*y2); std::vector<CL> r2 = flat(*y2);
            c.check(same(res, r2), key + ":stale-output", std::string("zero output coefficient, but an output pre-filled with ") + nm[kind] + " changes the result", J().s("fill", nm[kind]));
            vf::obs_sum("zero_coefficient_fill_runs");
        }
    }
    return res;
}

//---------------------------------------------------------------------------
// block CSR container of the harness + flattened scalar form
//---------------------------------------------------------------------------
template <class V> struct BC { size_t n = 0, m = 0; std::vector<ptrdiff_t> ptr, col; std::vector<V> val; BC() : ptr(1, 0) {} };
struct Flat { size_t n = 0, m = 0; std::vector<std::vector<std::pair<size_t, CL>>> rows; };

template <class V> Flat flatten(const BC<V> &A) {
    const int br = vt<V>::br, bc = vt<V>::bc; Flat F; F.n = A.n * br; F.m = A.m * bc; F.rows.resize(F.n);
    for (size_t i = 0; i < A.n; ++i) for (ptrdiff_t j = A.ptr[i]; j < A.ptr[i + 1]; ++j) for (int p = 0; p < br; ++p) for (int q = 0; q < bc; ++q)
        F.rows[i * br + p].emplace_back((size_t)A.col[j] * bc + q, el(A.val[j], p, q));
    return F;
}
// random pattern: n x m (block units), density d, optional unsorted rows; mask >= 0 => exact pattern from bits
template <class V> BC<V> gen_bc(size_t n, size_t m, double d, Rng &r, bool exact, bool sorted, long long mask = -1) {
    BC<V> A; A.n = n; A.m = m;
    for (size_t i = 0; i < n; ++i) {
        std::vector<ptrdiff_t> cols;
        for (size_t j = 0; j < m; ++j) { bool on = mask >= 0 ? ((mask >> (i * m + j)) & 1) : r.coin(d); if (on) cols.push_back((ptrdiff_t)j); }
        if (!sorted) r.shuffle(cols);
        for (auto cidx : cols) { A.col.push_back(cidx); A.val.push_back(genv<V>(r, exact)); }
        A.ptr.push_back((ptrdiff_t)A.col.size());
    }
    return A;
}
static Ref ref_spmv(const Flat &F, const std::vector<CL> &x, const std::vector<CL> &y0, CL alpha, CL beta) {
    if (x.size() != F.m || y0.size() != F.n) { fprintf(stderr, "harness: ref_spmv shape mismatch\n"); exit(3); }
    Ref R(F.n);
    for (size_t i = 0; i < F.n; ++i) { CL s = 0; LD a = 0; for (auto &e : F.rows[i]) { s += e.second * x[e.first]; a += std::abs(e.second) * std::abs(x[e.first]); }
        bool bz = beta == CL(0); R.v[i] = alpha * s + (bz ? CL(0) : beta * y0[i]); R.acc[i] = std::abs(alpha) * a + (bz ? 0 : std::abs(beta) * std::abs(y0[i])); R.k[i] = (long)F.rows[i].size(); }
    return R;
}

// one spmv + (optionally) residual evaluation against the reference
template <class VX, class VY, class Mat, class RX, class RY, class Coef>
void check_spmv(Case &c, const std::string &tag, const Mat &A, const Flat &F, const std::vector<RX> &x, const std::vector<RY> &y0, Coef alpha, Coef beta, bool exact, double eps, double cf, double kmul = 1) {
    auto X = mkvec<VX>(x); CL ca = el(alpha), cb = el(beta);
    Ref ref = ref_spmv(F, flat(x), flat(y0), ca, cb);
    try {
        std::vector<CL> got = run_out<VY>(c, tag + ":spmv", y0, cb == CL(0), [&](VY &y) { backend::spmv(alpha, A, *X, beta, y); });
        cmp(c, tag + ":spmv:value", "spmv(alpha, A, x, beta, y) differs from alpha A x + beta y", got, ref, exact, eps, cf, kmul);
    } catch (const std::exception &e) { c.fail(tag + ":spmv:exception", e.what()); }
}
template <class VF, class VX, class VR, class Mat, class RX, class RY>
void check_residual(Case &c, const std::string &tag, const Mat &A, const Flat &F, const std::vector<RX> &x, const std::vector<RY> &f, const std::vector<RY> &rjunk, bool exact, double eps, double cf, double kmul = 1) {
    auto X = mkvec<VX>(x); auto Fv = mkvec<VF>(f);
    Ref ref = ref_spmv(F, flat(x), flat(f), CL(-1), CL(1));
    try {
        // the output of residual() is always overwritten: coefficient of the old content is zero
        std::vector<CL> got = run_out<VR>(c, tag + ":residual", rjunk, true, [&](VR &rr) { backend::residual(*Fv, A, *X, rr); });
        cmp(c, tag + ":residual:value", "residual(f, A, x, r) differs from f - A x", got, ref, exact, eps, cf, kmul);
    } catch (const std::exception &e) { c.fail(tag + ":residual:exception", e.what()); }
}

static size_t pick_size(Rng &r, long idx) { return idx % 7 == 0 ? (size_t)r.range(60, 500) : idx % 3 == 0 ? (size_t)r.range(13, 60) : (size_t)r.range(1, 12); }

//---------------------------------------------------------------------------
// sub: spmv -- builtin crs<V> with every vector flavour, random shapes
//---------------------------------------------------------------------------
template <class V> void spmv_case(long idx, long rep, const std::string &tn) {
    typedef typename vt<V>::R R; typedef typename vt<V>::S S; typedef typename vt<V>::E E;
    Rng r(vf::case_seed("spmv", idx)); bool exact = r.coin(0.6), sorted = r.coin(0.7);
    size_t n = pick_size(r, rep), m = r.coin(0.4) ? n : pick_size(r, rep + 1); if (rep % 23 == 5) n = 0; if (rep % 19 == 7) m = 0;
    double d = n * m <= 150 ? r.pick(std::vector<double>{0.1, 0.3, 0.7, 1.0}) : std::min(1.0, r.uni(1, 8) / std::max<size_t>(1, m));
    BC<V> A = gen_bc<V>(n, m, d, r, exact, sorted); Flat F = flatten(A);
    Case c("spmv", idx, J().s("type", tn).n("n", n).n("m", m).n("nnz", A.col.size()).bl("exact", exact).bl("sorted", sorted).n("threads", omp_get_max_threads()));
    backend::crs<V> M(n, m, A.ptr, A.col, A.val);
    std::vector<R> x = genvec<R>(m, r, exact), y0 = genvec<R>(n, r, exact);
    const double eps = vt<V>::eps(), cf = vt<V>::cf();
    int npairs = (n * m <= 150) ? 36 : 8;
    for (int k = 0; k < npairs; ++k) {
        int ka = npairs == 36 ? k / 6 : (int)r.range(0, 5), kb = npairs == 36 ? k % 6 : (k < 3 ? 0 : (int)r.range(0, 5));
        S a = coef<S>(r, ka, exact), b = coef<S>(r, kb, exact);
        check_spmv<backend::numa_vector<R>, backend::numa_vector<R>>(c, "builtin", M, F, x, y0, a, b, exact, eps, cf);
        if (vt<V>::cplx && k % 3 == 0) { E ea = coef<E>(r, ka, exact), eb = coef<E>(r, kb, exact);
            check_spmv<backend::numa_vector<R>, backend::numa_vector<R>>(c, "builtin_complex_coef", M, F, x, y0, ea, eb, exact, eps, cf); }
    }
    // other vector containers accepted by the builtin backend, and 32-bit index types
    { S a = coef<S>(r, (int)r.range(1, 5), exact), b = coef<S>(r, (int)r.range(0, 5), exact);
      check_spmv<std::vector<R>, std::vector<R>>(c, "builtin_stdvector", M, F, x, y0, a, b, exact, eps, cf);
      check_spmv<backend::numa_vector<R>, std::vector<R>>(c, "builtin_stdvector", M, F, x, y0, a, S(0), exact, eps, cf);
      std::vector<int> p32(A.ptr.begin(), A.ptr.end()), c32(A.col.begin(), A.col.end());
      backend::crs<V, int, int> M32(n, m, p32, c32, A.val);
      check_spmv<backend::numa_vector<R>, backend::numa_vector<R>>(c, "builtin_int32", M32, F, x, y0, a, b, exact, eps, cf);
      check_residual<backend::numa_vector<R>, backend::numa_vector<R>, backend::numa_vector<R>>(c, "builtin_int32", M32, F, x, y0, genvec<R>(n, r, exact), exact, eps, cf);
      if (n == m) { auto T = std::tie(n, A.ptr, A.col, A.val);
          check_spmv<backend::numa_vector<R>, backend::numa_vector<R>>(c, "crs_tuple", T, F, x, y0, a, b, exact, eps, cf);
          check_spmv<std::vector<R>, backend::numa_vector<R>>(c, "crs_tuple", T, F, x, y0, a, S(0), exact, eps, cf); }
      // iterator_range over user memory as output
      { std::vector<R> ybuf = y0; auto X = mkvec<backend::numa_vector<R>>(x); auto rng = make_iterator_range(ybuf.data(), ybuf.data() + ybuf.size());
        backend::spmv(a, M, *X, b, rng); cmp(c, "builtin_iterator_range:spmv:value", "spmv into an iterator_range differs from the definition", flat(ybuf), ref_spmv(F, flat(x), flat(y0), el(a), el(b)), exact, eps, cf); }
    }
    check_residual<backend::numa_vector<R>, backend::numa_vector<R>, backend::numa_vector<R>>(c, "builtin", M, F, x, y0, genvec<R>(n, r, exact), exact, eps, cf);
    check_residual<std::vector<R>, std::vector<R>, std::vector<R>>(c, "builtin_stdvector", M, F, x, y0, genvec<R>(n, r, exact), exact, eps, cf);
    if (A.col.size()) c.nontrivial();
    vf::sample("spmv", J().s("type", tn).n("n", n).n("m", m).n("nnz", A.col.size()).bl("exact", exact).n("threads", omp_get_max_threads()));
    vf::obs_add("value_types_seen", tok(tn));
}

//---------------------------------------------------------------------------
// sub: vecops -- axpby, axpbypcz, vmul, lin_comb, copy, clear (any vector type Vec of R, DVec of V)
//---------------------------------------------------------------------------
template <class V, class Vec, class DVec, class C>
void vecops_body(Case &c, const std::string &tag, Rng &r, size_t n, bool exact) {
    typedef typename vt<V>::R R; const int b = vt<V>::br; const double eps = vt<V>::eps(), cf = vt<V>::cf();
    std::vector<R> x = genvec<R>(n, r, exact), y = genvec<R>(n, r, exact), z = genvec<R>(n, r, exact);
    std::vector<V> D = genvec<V>(n, r, exact);
    std::vector<CL> fx = flat(x), fy = flat(y), fz = flat(z);
    auto X = mkvec<Vec>(x); auto Y = mkvec<Vec>(y); auto Dv = mkvec<DVec>(D);
    const int ncoef = 6; bool all = n <= 40;
    // axpby: y = a x + b y
    for (int k = 0; k < (all ? ncoef * ncoef : 10); ++k) {
        int ka = all ? k / ncoef : (int)r.range(0, 5), kb = all ? k % ncoef : (k < 4 ? 0 : (int)r.range(0, 5));
        C a = coef<C>(r, ka, exact), bb = coef<C>(r, kb, exact); CL ca = el(a), cb = el(bb); bool bz = cb == CL(0);
        Ref ref(n * b); for (size_t i = 0; i < n * b; ++i) { ref.v[i] = ca * fx[i] + (bz ? CL(0) : cb * fy[i]); ref.acc[i] = std::abs(ca) * std::abs(fx[i]) + (bz ? 0 : std::abs(cb) * std::abs(fy[i])); ref.k[i] = 1; }
        std::vector<CL> got = run_out<Vec>(c, tag + ":axpby", y, bz, [&](Vec &o) { backend::axpby(a, *X, bb, o); });
        cmp(c, tag + ":axpby:value", "axpby(a, x, b, y) differs from a x + b y", got, ref, exact, eps, cf);
    }
    // axpbypcz: z = a x + b y + c z
    for (int k = 0; k < (all ? ncoef * ncoef * ncoef : 12); ++k) {
        int ka = all ? k / (ncoef * ncoef) : (int)r.range(0, 5), kb = all ? (k / ncoef) % ncoef : (int)r.range(0, 5), kc = all ? k % ncoef : (k < 5 ? 0 : (int)r.range(0, 5));
        C a = coef<C>(r, ka, exact), bb = coef<C>(r, kb, exact), cc = coef<C>(r, kc, exact); CL ca = el(a), cb = el(bb), cz = el(cc); bool zz = cz == CL(0);
        Ref ref(n * b); for (size_t i = 0; i < n * b; ++i) { ref.v[i] = ca * fx[i] + cb * fy[i] + (zz ? CL(0) : cz * fz[i]);
            ref.acc[i] = std::abs(ca) * std::abs(fx[i]) + std::abs(cb) * std::abs(fy[i]) + (zz ? 0 : std::abs(cz) * std::abs(fz[i])); ref.k[i] = 2; }
        std::vector<CL> got = run_out<Vec>(c, tag + ":axpbypcz", z, zz, [&](Vec &o) { backend::axpbypcz(a, *X, bb, *Y, cc, o); });
        cmp(c, tag + ":axpbypcz:value", "axpbypcz(a, x, b, y, c, z) differs from a x + b y + c z", got, ref, exact, eps, cf);
    }
    // vmul: z = a D y + b z  (D: vector of (block) diagonal values)
    for (int k = 0; k < (all ? ncoef * ncoef : 10); ++k) {
        int ka = all ? k / ncoef : (int)r.range(0, 5), kb = all ? k % ncoef : (k < 4 ? 0 : (int)r.range(0, 5));
        C a = coef<C>(r, ka, exact), bb = coef<C>(r, kb, exact); CL ca = el(a), cb = el(bb); bool bz = cb == CL(0);
        Ref ref(n * b);
        for (size_t i = 0; i < n; ++i) for (int p = 0; p < b; ++p) { CL s = 0; LD ac = 0; for (int q = 0; q < b; ++q) { CL dv = el(D[i], p, q); s += dv * fy[i * b + q]; ac += std::abs(dv) * std::abs(fy[i * b + q]); }
            ref.v[i * b + p] = ca * s + (bz ? CL(0) : cb * fz[i * b + p]); ref.acc[i * b + p] = std::abs(ca) * ac + (bz ? 0 : std::abs(cb) * std::abs(fz[i * b + p])); ref.k[i * b + p] = b + 1; }
        std::vector<CL> got = run_out<Vec>(c, tag + ":vmul", z, bz, [&](Vec &o) { backend::vmul(a, *Dv, *Y, bb, o); });
        cmp(c, tag + ":vmul:value", "vmul(a, x, y, b, z) differs from a x.y + b z", got, ref, exact, eps, cf);
    }
    // lin_comb: y = sum_j c_j v_j + alpha y, 1..5 vectors
    for (int nv = 1; nv <= 5; ++nv) for (int kal = 0; kal < (all ? ncoef : 2); ++kal) {
        std::vector<std::vector<R>> vs(nv); std::vector<std::unique_ptr<Vec>> vp; std::vector<Vec*> ptrs; std::vector<C> cs(nv); std::vector<std::vector<CL>> fv(nv);
        for (int j = 0; j < nv; ++j) { vs[j] = genvec<R>(n, r, exact); vp.push_back(mkvec<Vec>(vs[j])); ptrs.push_back(vp.back().get()); cs[j] = coef<C>(r, (int)r.range(0, 5), exact); fv[j] = flat(vs[j]); }
        C al = coef<C>(r, all ? kal : (kal == 0 ? 0 : (int)r.range(1, 5)), exact); CL cal = el(al); bool az = cal == CL(0);
        Ref ref(n * b); for (size_t i = 0; i < n * b; ++i) { CL s = az ? CL(0) : cal * fy[i]; LD ac = az ? 0 : std::abs(cal) * std::abs(fy[i]); for (int j = 0; j < nv; ++j) { s += el(cs[j]) * fv[j][i]; ac += std::abs(el(cs[j])) * std::abs(fv[j][i]); }
            ref.v[i] = s; ref.acc[i] = ac; ref.k[i] = 2 * nv + 1; }
        std::vector<CL> got = run_out<Vec>(c, tag + ":lin_comb", y, az, [&](Vec &o) { backend::lin_comb(nv, cs, ptrs, al, o); });
        cmp(c, tag + ":lin_comb:value", "lin_comb(n, c, v, alpha, y) differs from sum c_j v_j + alpha y", got, ref, exact, eps, cf);
    }
    // copy / clear: previous output content must not matter, result exact
    { Ref ref(n * b); for (size_t i = 0; i < n * b; ++i) ref.v[i] = fx[i];
      std::vector<CL> got = run_out<Vec>(c, tag + ":copy", y, true, [&](Vec &o) { backend::copy(*X, o); }); cmp(c, tag + ":copy:value", "copy(x, y): y differs from x", got, ref, true, eps, cf);
      Ref zr(n * b); std::vector<CL> g2 = run_out<Vec>(c, tag + ":clear", y, true, [&](Vec &o) { backend::clear(o); }); cmp(c, tag + ":clear:value", "clear(x): x is not zero", g2, zr, true, eps, cf); }
}

// inner product: definition sum_i x_i conj(y_i) and conjugate-linearity in the second argument
template <class V, class Vec>
void inner_body(Case &c, const std::string &tag, Rng &r, size_t n, bool exact) {
    typedef typename vt<V>::R R; typedef typename vt<V>::E E; const int b = vt<V>::br; const double eps = vt<V>::eps(), cf = vt<V>::cf();
    std::vector<R> x = genvec<R>(n, r, exact), y = genvec<R>(n, r, exact); std::vector<CL> fx = flat(x), fy = flat(y);
    auto X = mkvec<Vec>(x); auto Y = mkvec<Vec>(y);
    Ref ref(1); for (size_t i = 0; i < n * b; ++i) { ref.v[0] += fx[i] * std::conj(fy[i]); ref.acc[0] += std::abs(fx[i]) * std::abs(fy[i]); } ref.k[0] = (long)(n * b);
    E ip = backend::inner_product(*X, *Y); std::vector<CL> got(1, el(ip));
    cmp(c, tag + ":inner_product:value", "inner_product(x, y) differs from sum_i x_i conj(y_i)", got, ref, exact, eps, cf);
    // (x, s y) = conj(s) (x, y) and (s x, y) = s (x, y) for a (Gaussian) integer s: exact in exact cases
    E s; setel(s, 0, 0, (LD)r.range(1, 3) * (r.coin() ? 1 : -1), vt<V>::cplx ? (LD)r.range(1, 3) : 0); CL cs = el(s);
    std::vector<R> sy(n), sx(n);
    for (size_t i = 0; i < n; ++i) for (int p = 0; p < b; ++p) { CL vy = cs * fy[i * b + p], vx = cs * fx[i * b + p]; setel(sy[i], p, 0, vy.real(), vy.imag()); setel(sx[i], p, 0, vx.real(), vx.imag()); }
    auto SY = mkvec<Vec>(sy); auto SX = mkvec<Vec>(sx);
    E ip2 = backend::inner_product(*X, *SY), ip1 = backend::inner_product(*SX, *Y);
    // compared with the *measured* (x, y) so that the two linearity clauses are independent of the value clause
    Ref r2(1), r1(1); r2.v[0] = std::conj(cs) * el(ip); r1.v[0] = cs * el(ip); r2.acc[0] = r1.acc[0] = std::abs(cs) * ref.acc[0]; r2.k[0] = r1.k[0] = ref.k[0] + 2;
    cmp(c, tag + ":inner_product:conjugate-linear-2nd", "inner_product(x, s y) differs from conj(s) inner_product(x, y)", std::vector<CL>(1, el(ip2)), r2, exact, eps, 2 * cf);
    cmp(c, tag + ":inner_product:linear-1st", "inner_product(s x, y) differs from s inner_product(x, y)", std::vector<CL>(1, el(ip1)), r1, exact, eps, 2 * cf);
}

template <class V> void vecops_case(long idx, long rep, const std::string &tn) {
    typedef typename vt<V>::R R; typedef typename vt<V>::S S; typedef typename vt<V>::E E;
    Rng r(vf::case_seed("vecops", idx)); bool exact = r.coin(0.6); size_t n = pick_size(r, rep); if (rep % 17 == 3) n = 0;
    Case c("vecops", idx, J().s("type", tn).n("n", n).bl("exact", exact).n("threads", omp_get_max_threads()));
    vecops_body<V, backend::numa_vector<R>, backend::numa_vector<V>, S>(c, "builtin", r, n, exact);
    if (vt<V>::cplx) vecops_body<V, backend::numa_vector<R>, backend::numa_vector<V>, E>(c, "builtin_complex_coef", r, std::min<size_t>(n, 12), exact);
    if (rep % 3 == 0) vecops_body<V, std::vector<R>, std::vector<V>, S>(c, "builtin_stdvector", r, std::min<size_t>(n, 20), exact);
    // Eigen blocks with complex scalars get their own key prefix (one root cause, see props/c07.py)
    const bool ecb = tn.find("Eigen::Matrix<complex") == 0;
    inner_body<V, backend::numa_vector<R>>(c, ecb ? "builtin_eigen_complex_block" : "builtin", r, n, exact);
    if (!ecb) inner_body<V, std::vector<R>>(c, "builtin_stdvector", r, n, exact);
    if (n) c.nontrivial();
    vf::sample("vecops", J().s("type", tn).n("n", n).bl("exact", exact).n("threads", omp_get_max_threads()));
}

//---------------------------------------------------------------------------
// sub: mixed -- scalar vectors where block vectors are expected (block value types only)
//---------------------------------------------------------------------------
template <class V> void mixed_case(long idx, long rep, const std::string &tn) {
    typedef typename vt<V>::R R; typedef typename vt<V>::S S; const int b = vt<V>::br;
    Rng r(vf::case_seed("mixed", idx)); bool exact = r.coin(0.5); size_t n = pick_size(r, rep), m = r.coin() ? n : pick_size(r, rep + 1);
    double d = n * m <= 150 ? r.pick(std::vector<double>{0.2, 0.5, 1.0}) : std::min(1.0, r.uni(1, 6) / m);
    BC<V> A = gen_bc<V>(n, m, d, r, exact, r.coin(0.7)); backend::crs<V> M(n, m, A.ptr, A.col, A.val); Flat F = flatten(A);
    Case c("mixed", idx, J().s("type", tn).n("n", n).n("m", m).n("nnz", A.col.size()).bl("exact", exact).n("threads", omp_get_max_threads()));
    std::vector<R> x = genvec<R>(m, r, exact), y0 = genvec<R>(n, r, exact), f = genvec<R>(n, r, exact); std::vector<V> D = genvec<V>(n, r, exact);
    // the same data as scalar vectors (S is the element type here: real blocks only)
    auto scal = [&](const std::vector<R> &v) { std::vector<S> s(v.size() * b); for (size_t i = 0; i < v.size(); ++i) for (int p = 0; p < b; ++p) s[i * b + p] = (S)el(v[i], p, 0).real(); return s; };
    std::vector<S> xs = scal(x), ys0 = scal(y0), fs = scal(f);
    const double eps = vt<V>::eps(), cf = vt<V>::cf();
    for (int k = 0; k < 6; ++k) {
        S a = coef<S>(r, (int)r.range(0, 5), exact), bb = coef<S>(r, k < 2 ? 0 : (int)r.range(0, 5), exact); bool bz = bb == S(0);
        auto Xb = mkvec<backend::numa_vector<R>>(x); auto Xs = mkvec<backend::numa_vector<S>>(xs);
        std::vector<CL> gb = run_out<backend::numa_vector<R>>(c, "mixed_block:spmv", y0, bz, [&](backend::numa_vector<R> &y) { backend::spmv(a, M, *Xb, bb, y); });
        std::vector<CL> gs = run_out<backend::numa_vector<S>>(c, "mixed_scalar:spmv", ys0, bz, [&](backend::numa_vector<S> &y) { backend::spmv(a, M, *Xs, bb, y); });
        std::vector<CL> gv = run_out<std::vector<S>>(c, "mixed_stdvector:spmv", ys0, bz, [&](std::vector<S> &y) { backend::spmv(a, M, xs, bb, y); });
        std::vector<CL> gm = run_out<backend::numa_vector<R>>(c, "mixed_x_scalar_y_block:spmv", y0, bz, [&](backend::numa_vector<R> &y) { backend::spmv(a, M, *Xs, bb, y); });
        std::vector<CL> gn = run_out<backend::numa_vector<S>>(c, "mixed_x_block_y_scalar:spmv", ys0, bz, [&](backend::numa_vector<S> &y) { backend::spmv(a, M, *Xb, bb, y); });
        c.check(same(gb, gs), "mixed:spmv:scalar-vs-block", "spmv with scalar vectors differs from spmv with block vectors");
        c.check(same(gb, gv), "mixed:spmv:stdvector-vs-block", "spmv with std::vector<scalar> differs from spmv with block vectors");
        c.check(same(gb, gm) && same(gb, gn), "mixed:spmv:half-mixed-vs-block", "spmv with one scalar and one block vector differs from spmv with block vectors");
        cmp(c, "mixed_scalar:spmv:value", "spmv with scalar vectors differs from alpha A x + beta y", gs, ref_spmv(F, flat(x), flat(y0), el(a), el(bb)), exact, eps, cf);
        // vmul with block diagonal and scalar vectors
        auto Dv = mkvec<backend::numa_vector<V>>(D); auto Yb = mkvec<backend::numa_vector<R>>(f); auto Ys = mkvec<backend::numa_vector<S>>(fs);
        std::vector<CL> vb = run_out<backend::numa_vector<R>>(c, "mixed_block:vmul", y0, bz, [&](backend::numa_vector<R> &z) { backend::vmul(a, *Dv, *Yb, bb, z); });
        std::vector<CL> vs = run_out<backend::numa_vector<S>>(c, "mixed_scalar:vmul", ys0, bz, [&](backend::numa_vector<S> &z) { backend::vmul(a, *Dv, *Ys, bb, z); });
        c.check(same(vb, vs), "mixed:vmul:scalar-vs-block", "vmul with scalar vectors differs from vmul with block vectors");
    }
    { auto Xb = mkvec<backend::numa_vector<R>>(x); auto Xs = mkvec<backend::numa_vector<S>>(xs); auto Fb = mkvec<backend::numa_vector<R>>(f); auto Fs = mkvec<backend::numa_vector<S>>(fs);
      std::vector<CL> rb = run_out<backend::numa_vector<R>>(c, "mixed_block:residual", y0, true, [&](backend::numa_vector<R> &rr) { backend::residual(*Fb, M, *Xb, rr); });
      std::vector<CL> rs = run_out<backend::numa_vector<S>>(c, "mixed_scalar:residual", ys0, true, [&](backend::numa_vector<S> &rr) { backend::residual(*Fs, M, *Xs, rr); });
      std::vector<CL> rm = run_out<backend::numa_vector<S>>(c, "mixed_f_block:residual", ys0, true, [&](backend::numa_vector<S> &rr) { backend::residual(*Fb, M, *Xs, rr); });
      c.check(same(rb, rs) && same(rb, rm), "mixed:residual:scalar-vs-block", "residual with scalar vectors differs from residual with block vectors");
      cmp(c, "mixed_scalar:residual:value", "residual with scalar vectors differs from f - A x", rs, ref_spmv(F, flat(x), flat(f), CL(-1), CL(1)), exact, eps, cf); }
    if (A.col.size()) c.nontrivial();
    vf::sample("mixed", J().s("type", tn).n("n", n).n("m", m).n("nnz", A.col.size()));
}

//---------------------------------------------------------------------------
// sub: bcrs -- block_crs backend, block sizes 1..5, sizes not divisible by the block size
//---------------------------------------------------------------------------
template <class T> void bcrs_check(Case &c, const BC<T> &A, Rng &r, bool exact, bool all_coefs) {
    typedef backend::bcrs<T, ptrdiff_t, ptrdiff_t> BM; const double eps = vt<T>::eps(), cf = vt<T>::cf();
    auto Ap = std::make_shared<backend::crs<T>>(A.n, A.m, A.ptr, A.col, A.val); Flat F = flatten(A);
    std::vector<T> x = genvec<T>(A.m, r, exact), y0 = genvec<T>(A.n, r, exact);
    for (size_t bs = 1; bs <= 5; ++bs) {
        std::string tag = "block_crs";
        std::shared_ptr<BM> B = (bs % 2) ? std::make_shared<BM>(*Ap, bs) : backend::block_crs<T>::copy_matrix(Ap, typename backend::block_crs<T>::params(bs));
        bool shape = backend::rows(*B) == A.n && backend::cols(*B) == A.m && B->block_size == bs && B->brows == (A.n + bs - 1) / bs && B->bcols == (A.m + bs - 1) / bs;
        c.check(shape, "block_crs:shape", "bcrs rows/cols/block counts differ from the source matrix", J().n("bs", bs));
        int np = all_coefs ? 25 : 6;
        for (int k = 0; k < np; ++k) { T a = coef<T>(r, all_coefs ? k / 5 : (int)r.range(0, 5), exact), b = coef<T>(r, all_coefs ? k % 5 : (k < 2 ? 0 : (int)r.range(0, 5)), exact);
            check_spmv<backend::numa_vector<T>, backend::numa_vector<T>>(c, tag, *B, F, x, y0, a, b, exact, eps, cf, 2); }
        check_residual<backend::numa_vector<T>, backend::numa_vector<T>, backend::numa_vector<T>>(c, tag, *B, F, x, y0, genvec<T>(A.n, r, exact), exact, eps, cf, 2);
        if (A.n % bs || A.m % bs) vf::obs_sum("bcrs_sizes_not_divisible");
    }
}
template <class T> void bcrs_case(long idx, long rep, const std::string &tn) {
    Rng r(vf::case_seed("bcrs", idx)); bool exact = r.coin(0.6); size_t n = pick_size(r, rep), m = r.coin(0.4) ? n : pick_size(r, rep + 1);
    double d = n * m <= 150 ? r.pick(std::vector<double>{0.1, 0.3, 0.7, 1.0}) : std::min(1.0, r.uni(1, 8) / m);
    BC<T> A = gen_bc<T>(n, m, d, r, exact, r.coin(0.7));
    Case c("bcrs", idx, J().s("type", tn).n("n", n).n("m", m).n("nnz", A.col.size()).bl("exact", exact).n("threads", omp_get_max_threads()));
    bcrs_check<T>(c, A, r, exact, false);
    if (A.col.size()) c.nontrivial();
    vf::sample("bcrs", J().s("type", tn).n("n", n).n("m", m).n("nnz", A.col.size()).bl("exact", exact));
}

//---------------------------------------------------------------------------
// sub: eigen -- Eigen backend (Map<SparseMatrix>, dense Eigen vectors)
//---------------------------------------------------------------------------
template <class T> void eigen_check(Case &c, const BC<T> &A, Rng &r, bool exact, bool all_coefs) {
    typedef Eigen::Matrix<T, Eigen::Dynamic, 1> EV; const double eps = vt<T>::eps(), cf = vt<T>::cf();
    auto Ap = std::make_shared<backend::crs<T>>(A.n, A.m, A.ptr, A.col, A.val); Flat F = flatten(A);
    auto E = backend::eigen<T>::copy_matrix(Ap, typename backend::eigen<T>::params());
    c.check(backend::rows(*E) == A.n && backend::cols(*E) == A.m && backend::nonzeros(*E) == A.col.size(), "eigen:shape", "Eigen backend matrix shape / nonzeros differ from the source");
    std::vector<T> x = genvec<T>(A.m, r, exact), y0 = genvec<T>(A.n, r, exact);
    int np = all_coefs ? 25 : 8;
    for (int k = 0; k < np; ++k) { T a = coef<T>(r, all_coefs ? k / 5 : (int)r.range(0, 5), exact), b = coef<T>(r, all_coefs ? k % 5 : (k < 3 ? 0 : (int)r.range(0, 5)), exact);
        check_spmv<EV, EV>(c, "eigen", *E, F, x, y0, a, b, exact, eps, cf, 2); }
    check_residual<EV, EV, EV>(c, "eigen", *E, F, x, y0, genvec<T>(A.n, r, exact), exact, eps, cf, 2);
}
template <class T> void eigen_case(long idx, long rep, const std::string &tn) {
    typedef Eigen::Matrix<T, Eigen::Dynamic, 1> EV;
    Rng r(vf::case_seed("eigen", idx)); bool exact = r.coin(0.6); size_t n = pick_size(r, rep), m = r.coin(0.4) ? n : pick_size(r, rep + 1);
    double d = n * m <= 150 ? r.pick(std::vector<double>{0.1, 0.3, 0.7, 1.0}) : std::min(1.0, r.uni(1, 8) / m);
    BC<T> A = gen_bc<T>(n, m, d, r, exact, true);
    Case c("eigen", idx, J().s("type", tn).n("n", n).n("m", m).n("nnz", A.col.size()).bl("exact", exact).n("threads", omp_get_max_threads()));
    eigen_check<T>(c, A, r, exact, false);
    vecops_body<T, EV, EV, T>(c, "eigen", r, std::min<size_t>(n, 40), exact);
    inner_body<T, EV>(c, "eigen", r, n, exact);
    if (A.col.size()) c.nontrivial();
    vf::sample("eigen", J().s("type", tn).n("n", n).n("m", m).n("nnz", A.col.size()).bl("exact", exact));
}

//---------------------------------------------------------------------------
// sub: hybrid -- builtin_hybrid<Block>: scalar matrix stored with block values, scalar vectors
//---------------------------------------------------------------------------
template <class Blk> void hybrid_case(long idx, long rep, const std::string &tn) {
    const int b = math::static_rows<Blk>::value; typedef backend::builtin_hybrid<Blk> HB;
    Rng r(vf::case_seed("hybrid", idx)); bool exact = r.coin(0.6); size_t nb = pick_size(r, rep), mb = r.coin() ? nb : pick_size(r, rep + 1); if (nb > 200) nb = 200; if (mb > 200) mb = 200;
    size_t n = nb * b, m = mb * b; double d = n * m <= 300 ? r.pick(std::vector<double>{0.1, 0.3, 0.7, 1.0}) : std::min(1.0, r.uni(1, 10) / m);
    BC<double> A = gen_bc<double>(n, m, d, r, exact, true);       // structurally incomplete blocks are the rule here
    Case c("hybrid", idx, J().s("type", tn).n("n", n).n("m", m).n("nnz", A.col.size()).bl("exact", exact).n("threads", omp_get_max_threads()));
    auto As = std::make_shared<backend::crs<double>>(n, m, A.ptr, A.col, A.val); Flat F = flatten(A);
    try {
        auto H = HB::copy_matrix(As, typename HB::params());
        c.check(backend::rows(*H) == nb && backend::cols(*H) == mb, "hybrid:shape", "hybrid matrix block shape differs from n/b x m/b");
        std::vector<double> x = genvec<double>(m, r, exact), y0 = genvec<double>(n, r, exact);
        for (int k = 0; k < 8; ++k) { double a = coef<double>(r, (int)r.range(0, 5), exact), bb = coef<double>(r, k < 3 ? 0 : (int)r.range(0, 5), exact);
            check_spmv<backend::numa_vector<double>, backend::numa_vector<double>>(c, "hybrid", *H, F, x, y0, a, bb, exact, vt<double>::eps(), 2, 1); }
        check_residual<backend::numa_vector<double>, backend::numa_vector<double>, backend::numa_vector<double>>(c, "hybrid", *H, F, x, y0, genvec<double>(n, r, exact), exact, vt<double>::eps(), 2, 1);
    } catch (const std::exception &e) { c.fail("hybrid:exception", e.what()); }
    if (A.col.size()) c.nontrivial();
    vf::sample("hybrid", J().s("type", tn).n("n", n).n("m", m).n("nnz", A.col.size()));
}

//---------------------------------------------------------------------------
// sub: spmv_exhaustive -- every sparsity pattern of small shapes x every coefficient pair of
// {0,1,-1,2,0.5}^2, integer values, through builtin, block_crs (1..5) and the Eigen backend
//---------------------------------------------------------------------------
static void sub_exhaustive() {
    static const int shapes[][2] = {{1,1},{1,2},{2,1},{2,2},{1,3},{3,1},{2,3},{3,2},{3,3},{1,4},{4,1},{2,4},{4,2},{1,5},{5,1},{2,5},{5,2}};
    long idx = 0;
    for (auto &sh : shapes) { int n = sh[0], m = sh[1]; long long nm = 1LL << (n * m);
        for (long long base = 0; base < nm; base += 32, ++idx) {
            if (!vf::selected("spmv_exhaustive", idx)) continue;
            Rng r(vf::case_seed("spmv_exhaustive", idx));
            Case c("spmv_exhaustive", idx, J().n("n", n).n("m", m).n("mask_from", base).n("threads", omp_get_max_threads()));
            for (long long mask = base; mask < std::min(nm, base + 32); ++mask) {
                BC<double> A = gen_bc<double>(n, m, 0, r, true, true, mask);
                backend::crs<double> M(n, m, A.ptr, A.col, A.val); Flat F = flatten(A);
                std::vector<double> x = genvec<double>(m, r, true), y0 = genvec<double>(n, r, true);
                for (int k = 0; k < 25; ++k) { double a = coef<double>(r, k / 5, true), b = coef<double>(r, k % 5, true);
                    check_spmv<backend::numa_vector<double>, backend::numa_vector<double>>(c, "builtin", M, F, x, y0, a, b, true, 0, 0); }
                check_residual<backend::numa_vector<double>, backend::numa_vector<double>, backend::numa_vector<double>>(c, "builtin", M, F, x, y0, y0, true, 0, 0);
                bcrs_check<double>(c, A, r, true, true);
                eigen_check<double>(c, A, r, true, true);
                if (mask) c.nontrivial();
            }
        }
    }
    // block-valued matrices: every block pattern up to 2 x 3 blocks, b = 2 and 3, scalar and block vectors
    for (int b = 2; b <= 3; ++b) for (int n = 1; n <= 2; ++n) for (int m = 1; m <= 3; ++m) { long long nm = 1LL << (n * m);
        for (long long base = 0; base < nm; base += 16, ++idx) {
            if (!vf::selected("spmv_exhaustive", idx)) continue;
            Rng r(vf::case_seed("spmv_exhaustive", idx));
            Case c("spmv_exhaustive", idx, J().n("block", b).n("n", n).n("m", m).n("mask_from", base).n("threads", omp_get_max_threads()));
            for (long long mask = base; mask < std::min(nm, base + 16); ++mask) {
                auto body = [&](auto tag) { typedef decltype(tag) V; typedef typename vt<V>::R R;
                    BC<V> A = gen_bc<V>(n, m, 0, r, true, true, mask); backend::crs<V> M(n, m, A.ptr, A.col, A.val); Flat F = flatten(A);
                    std::vector<R> x = genvec<R>(m, r, true), y0 = genvec<R>(n, r, true);
                    for (int k = 0; k < 25; ++k) { double a = coef<double>(r, k / 5, true), bb = coef<double>(r, k % 5, true);
                        check_spmv<backend::numa_vector<R>, backend::numa_vector<R>>(c, "builtin_block", M, F, x, y0, a, bb, true, 0, 0); }
                    check_residual<backend::numa_vector<R>, backend::numa_vector<R>, backend::numa_vector<R>>(c, "builtin_block", M, F, x, y0, y0, true, 0, 0); };
                if (b == 2) body(static_matrix<double, 2, 2>()); else body(static_matrix<double, 3, 3>());
                if (mask) c.nontrivial();
            }
        }
    }
    vf::obs_set("spmv_exhaustive_space", "all sparsity patterns of shapes up to 3x3, 1..2 x 4..5 and transposes (scalar) and up to 2x3 blocks (b=2,3), integer values, all (alpha,beta) in {0,1,-1,2,0.5}^2; builtin, block_crs bs 1..5, Eigen backend");
}

//---------------------------------------------------------------------------
// sub: mixprec -- a single-precision block matrix applied to DOUBLE precision scalar vectors (the combination a float
// hierarchy under a double solver produces).  Integer-valued data: every product and sum is exact in float and double, so
// the result must equal the integer value of alpha A x + beta y (resp. f - A x) exactly.
// (added after a seeded change in the scalar -> block reinterpretation of vectors was missed)
//---------------------------------------------------------------------------
template <int b> void mixprec_case(long idx, long rep, const std::string &tn) {
    typedef static_matrix<float, b, b> FB; Rng r(vf::case_seed("mixprec", idx)); size_t n = 1 + r.range(0, rep % 2 ? 40 : 8), m = r.coin() ? n : 1 + r.range(0, 12);
    std::vector<ptrdiff_t> ptr(1, 0), col; std::vector<FB> val; double dens = r.pick(std::vector<double>{0.2, 0.5, 1.0});
    for (size_t i = 0; i < n; ++i) { for (size_t j = 0; j < m; ++j) if (r.coin(dens)) { col.push_back(j); FB v; for (int p = 0; p < b * b; ++p) v(p) = (float)r.range(-3, 3); val.push_back(v); } ptr.push_back(col.size()); }
    backend::crs<FB> M(n, m, ptr, col, val);
    Case c("mixprec", idx, J().s("type", tn).n("n", n).n("m", m).n("nnz", col.size()).n("threads", omp_get_max_threads()));
    std::vector<double> x(m * b), y0(n * b), f(n * b); for (auto &v : x) v = (double)r.range(-4, 4); for (auto &v : y0) v = (double)r.range(-4, 4); for (auto &v : f) v = (double)r.range(-4, 4);
    std::vector<long> Ax(n * b, 0); for (size_t i = 0; i < n; ++i) for (auto j = ptr[i]; j < ptr[i + 1]; ++j) for (int p = 0; p < b; ++p) for (int q = 0; q < b; ++q) Ax[i * b + p] += (long)val[j](p, q) * (long)x[col[j] * b + q];
    for (int k = 0; k < 4; ++k) { double a = (double)r.range(-2, 2), bb = k < 2 ? 0.0 : (double)r.range(-2, 2);
        backend::numa_vector<double> X(x), Y(y0); if (bb == 0.0 && k == 1) for (size_t i = 0; i < n * b; ++i) Y[i] = std::numeric_limits<double>::quiet_NaN();
        backend::spmv(a, M, X, bb, Y); bool ok = true; for (size_t i = 0; i < n * b; ++i) { double ref = a * (double)Ax[i] + (bb == 0.0 ? 0.0 : bb * y0[i]); if (!(Y[i] == ref)) ok = false; }
        c.check(ok, "mixprec:spmv:float-block-matrix-double-scalar-vectors", "spmv of a float block matrix with double scalar vectors differs from alpha A x + beta y (exact integer data)");
        std::vector<double> xs = x, ys = y0; backend::spmv(a, M, xs, bb == 0.0 ? 0.0 : bb, ys); ok = true; for (size_t i = 0; i < n * b; ++i) { double ref = a * (double)Ax[i] + (bb == 0.0 ? 0.0 : bb * y0[i]); if (!(ys[i] == ref)) ok = false; }
        c.check(ok, "mixprec:spmv:float-block-matrix-double-std-vectors", "spmv of a float block matrix with std::vector<double> differs from alpha A x + beta y (exact integer data)"); }
    { backend::numa_vector<double> X(x), F(f), R(n * b); backend::residual(F, M, X, R); bool ok = true; for (size_t i = 0; i < n * b; ++i) if (!(R[i] == f[i] - (double)Ax[i])) ok = false;
      c.check(ok, "mixprec:residual:float-block-matrix-double-scalar-vectors", "residual of a float block matrix with double scalar vectors differs from f - A x (exact integer data)"); }
    if (!col.empty()) c.nontrivial(); vf::obs_sum("mixed_precision_block_calls", 9);
}

//---------------------------------------------------------------------------
// dispatch
//---------------------------------------------------------------------------
typedef void (*casefn)(long, long, const std::string &);
struct Ent { const char *name; casefn fn; };
template <class T, int N> using EM = Eigen::Matrix<T, N, N>;

static void run_table(const char *sub, const std::vector<Ent> &tab, long per_type) {
    if (!vf::sub_enabled(sub)) return;
    long N = per_type * (long)tab.size();
    // --nested=1: every case is executed by thread 0 of an enclosing parallel region of two threads.  Nesting is off by
    // default, so the primitives' own parallel regions then run with a team of ONE thread while omp_get_max_threads()
    // still reports the configured count -- the definitions must hold for whatever team the runtime hands out.
    const bool nested = vf::opt_int("nested", 0) != 0;
    for (long idx = 0; idx < N; ++idx) { if (!vf::selected(sub, idx)) continue; const Ent &e = tab[idx % tab.size()];
        if (!nested) { e.fn(idx, idx / (long)tab.size(), e.name); continue; }
#pragma omp parallel num_threads(2)
        { if (omp_get_thread_num() == 0) e.fn(idx, idx / (long)tab.size(), e.name); }
    }
}

int main(int argc, char **argv) {
    vf::init(argc, argv);
    vf::obs_add("threads_seen", std::to_string(omp_get_max_threads()));
    { int team = 0;
#pragma omp parallel
      {
#pragma omp single
        team = omp_get_num_threads(); }
      vf::obs_add("team_sizes_seen", std::to_string(team) + "of" + std::to_string(omp_get_max_threads()) + (vf::opt_int("nested", 0) ? "(nested:1)" : "")); }
    typedef std::complex<double> Z; typedef std::complex<float> Zf;
#define VT_LIST(F) \
    {"float", F<float>}, {"double", F<double>}, {"long double", F<long double>}, {"complex<double>", F<Z>}, {"complex<float>", F<Zf>}, \
    {"static_matrix<double,2,2>", F<static_matrix<double,2,2>>}, {"static_matrix<double,3,3>", F<static_matrix<double,3,3>>}, {"static_matrix<double,4,4>", F<static_matrix<double,4,4>>}, \
    {"static_matrix<float,2,2>", F<static_matrix<float,2,2>>}, {"static_matrix<complex<double>,2,2>", F<static_matrix<Z,2,2>>}, \
    {"Eigen::Matrix<double,2,2>", F<EM<double,2>>}, {"Eigen::Matrix<double,3,3>", F<EM<double,3>>}
    std::vector<Ent> t_spmv = { VT_LIST(spmv_case), {"Eigen::Matrix<complex<double>,2,2>", spmv_case<EM<Z,2>>} };
    std::vector<Ent> t_vec = { VT_LIST(vecops_case), {"Eigen::Matrix<complex<double>,2,2>", vecops_case<EM<Z,2>>} };
    std::vector<Ent> t_mixed = { {"static_matrix<double,2,2>", mixed_case<static_matrix<double,2,2>>}, {"static_matrix<double,3,3>", mixed_case<static_matrix<double,3,3>>}, {"static_matrix<double,4,4>", mixed_case<static_matrix<double,4,4>>},
                                 {"static_matrix<float,2,2>", mixed_case<static_matrix<float,2,2>>}, {"Eigen::Matrix<double,2,2>", mixed_case<EM<double,2>>}, {"Eigen::Matrix<double,3,3>", mixed_case<EM<double,3>>} };
    std::vector<Ent> t_bcrs = { {"double", bcrs_case<double>}, {"float", bcrs_case<float>} };
    std::vector<Ent> t_eigen = { {"double", eigen_case<double>}, {"float", eigen_case<float>}, {"complex<double>", eigen_case<Z>} };
    std::vector<Ent> t_hyb = { {"static_matrix<double,2,2>", hybrid_case<static_matrix<double,2,2>>}, {"static_matrix<double,3,3>", hybrid_case<static_matrix<double,3,3>>}, {"static_matrix<double,4,4>", hybrid_case<static_matrix<double,4,4>>} };
    run_table("spmv", t_spmv, vf::tier(40, 600));
    run_table("vecops", t_vec, vf::tier(20, 300));
    run_table("mixed", t_mixed, vf::tier(40, 600));
    std::vector<Ent> t_mixprec = { {"static_matrix<float,2,2> x double", mixprec_case<2>}, {"static_matrix<float,3,3> x double", mixprec_case<3>}, {"static_matrix<float,4,4> x double", mixprec_case<4>} };
    run_table("mixprec", t_mixprec, vf::tier(40, 400));
    run_table("bcrs", t_bcrs, vf::tier(100, 2000));
    run_table("eigen", t_eigen, vf::tier(50, 1000));
    run_table("hybrid", t_hyb, vf::tier(80, 1200));
    if (vf::sub_enabled("spmv_exhaustive")) sub_exhaustive();
    return vf::finish();
}
