// C08 -- sparse matrix kernels equal their dense definitions (DESIGN.md 5/C08).
// Oracles: dense reference (exact on integer-valued data), CRS well-formedness monitor.
#include <amgcl/backend/builtin.hpp>
#include <amgcl/value_type/static_matrix.hpp>
#include <amgcl/value_type/complex.hpp>
#include <amgcl/adapter/crs_tuple.hpp>
#include <amgcl/adapter/block_matrix.hpp>
#include <vf/hooks.hpp>
#include <vf/dense.hpp>
#include <omp.h>
#include <array>

using namespace amgcl;
typedef backend::crs<double> M;
using vf::Csr; using vf::J; using vf::Rng; using vf::Case;

static M to_amg(const Csr<double> &A) { return M(A.n, A.m, A.ptr, A.col, A.val); }

// CRS well-formedness monitor.  Returns empty string when fine.
template <class Mat> std::string wellformed(const Mat &C, size_t n, size_t m, bool need_sorted_unique) {
    if (C.nrows != n || C.ncols != m) return "shape";
    if (n == 0) return "";
    if (!C.ptr) return "null-ptr";
    if (C.ptr[0] != 0) return "ptr0";
    for (size_t i = 0; i < n; ++i) if (C.ptr[i + 1] < C.ptr[i]) return "ptr-not-monotone";
    if ((size_t)C.ptr[n] != C.nnz) return "nnz-mismatch";
    std::vector<char> seen(m, 0);
    for (size_t i = 0; i < n; ++i) {
        for (auto j = C.ptr[i]; j < C.ptr[i + 1]; ++j) {
            auto c = C.col[j]; if (c < 0 || (size_t)c >= m) return "col-out-of-range";
            if (seen[c]) return "duplicate-column"; seen[c] = 1;
            if (need_sorted_unique && j > C.ptr[i] && C.col[j - 1] >= c) return "row-not-sorted";
        }
        for (auto j = C.ptr[i]; j < C.ptr[i + 1]; ++j) seen[C.col[j]] = 0;
    }
    return "";
}

// structural + numeric dense reference of a product
struct DenseRef { size_t n, m; std::vector<long double> v; std::vector<char> s; std::vector<long double> absacc;
    DenseRef(size_t n_, size_t m_) : n(n_), m(m_), v(n_ * m_, 0), s(n_ * m_, 0), absacc(n_ * m_, 0) {} };

static DenseRef ref_product(const Csr<double> &A, const Csr<double> &B) {
    DenseRef D(A.n, B.m);
    for (size_t i = 0; i < A.n; ++i) for (auto ja = A.ptr[i]; ja < A.ptr[i + 1]; ++ja) { auto c = A.col[ja];
        for (auto jb = B.ptr[c]; jb < B.ptr[c + 1]; ++jb) { size_t k = i * B.m + B.col[jb]; long double p = (long double)A.val[ja] * B.val[jb]; D.v[k] += p; D.absacc[k] += fabsl(p); D.s[k] = 1; } }
    return D;
}
// compare CRS result with dense reference; exact => bitwise equality demanded
template <class Mat> bool cmp_dense(Case &c, const std::string &what, const Mat &C, const DenseRef &D, bool exact, bool sorted, double kfac = 8) {
    std::string wf = wellformed(C, D.n, D.m, sorted);
    if (!c.check(wf.empty(), what + ":malformed:" + wf, "CRS well-formedness monitor: " + wf)) return false;
    size_t cnt = 0, exp = 0; for (auto s : D.s) exp += s;
    double worst = 0; bool structural_ok = true, value_ok = true;
    for (size_t i = 0; i < D.n; ++i) for (auto j = C.ptr[i]; j < C.ptr[i + 1]; ++j) { size_t k = i * D.m + C.col[j]; ++cnt;
        if (!D.s[k]) structural_ok = false;
        long double d = fabsl((long double)C.val[j] - D.v[k]);
        if (exact) { if (!((long double)C.val[j] == D.v[k])) value_ok = false; }
        else { long double bound = kfac * 1.2e-16L * (D.absacc[k] + 1e-300L) * 8; if (!(d <= bound)) value_ok = false; if (D.absacc[k] > 0) worst = std::max(worst, (double)(d / D.absacc[k])); }
    }
    if (cnt != exp) structural_ok = false;
    c.check(structural_ok, what + ":pattern", "result pattern differs from the structural definition", J().n("entries", cnt).n("expected", exp));
    c.check(value_ok, what + ":value", exact ? "integer-valued result differs from the exact dense value" : "value outside forward rounding bound");
    if (!exact) vf::obs_max("max_rel_discrepancy_" + what, worst);
    return structural_ok && value_ok;
}

// pzero: probability that a stored entry holds an explicit zero (a valid CRS matrix may store zeros; the structural
// definitions of product / sum / transpose count them as entries)
static Csr<double> from_mask(size_t n, size_t m, uint64_t mask, Rng &r, bool unsorted = false, double pzero = 0) {
    Csr<double> A(n, m);
    for (size_t i = 0; i < n; ++i) { std::vector<ptrdiff_t> cols; for (size_t j = 0; j < m; ++j) if (mask >> (i * m + j) & 1) cols.push_back(j);
        if (unsorted) r.shuffle(cols);
        for (auto cidx : cols) { int v = (int)r.range(1, 4); if (pzero > 0 && r.coin(pzero)) v = 0; A.push(cidx, r.coin() ? v : -v); } A.end_row(); }
    return A;
}
static void store_zeros(Csr<double> &A, Rng &r, double p) { for (auto &v : A.val) if (r.coin(p)) v = 0.0; }

static void check_product_pair(Case &c, const Csr<double> &A, const Csr<double> &B, bool exact, bool all_algos) {
    M a = to_amg(A), b = to_amg(B); DenseRef D = ref_product(A, B);
    { M C; backend::spgemm_saad(a, b, C, true); cmp_dense(c, "spgemm_saad", C, D, exact, true); }
    if (all_algos) {
        { M C; backend::spgemm_saad(a, b, C, false); cmp_dense(c, "spgemm_saad_nosort", C, D, exact, false); }
        { M C; backend::spgemm_rmerge(a, b, C); cmp_dense(c, "spgemm_rmerge", C, D, exact, true); }
    }
    { auto C = backend::product(a, b, true); cmp_dense(c, "product", *C, D, exact, true); }
}

//---------------------------------------------------------------------------
static void sub_product_exhaustive() {
    // all pattern pairs for shapes (n x k) * (k x m), n,k,m in 1..3 ; integer values => exact
    long idx = 0;
    std::vector<std::array<int, 3>> shapes;
    for (int n = 1; n <= 3; ++n) for (int k = 1; k <= 3; ++k) for (int m = 1; m <= 3; ++m) shapes.push_back({n, k, m});
    // wider inner dimension: rows of A with 4..6 entries drive the pairwise-merge loop and the tail merge of the row-merge algorithm
    shapes.push_back({1, 4, 2}); shapes.push_back({1, 5, 2}); shapes.push_back({2, 4, 2}); shapes.push_back({1, 6, 2}); shapes.push_back({1, 4, 3});
    for (auto &sh : shapes) { int n = sh[0], k = sh[1], m = sh[2];
        uint64_t na = 1ULL << (n * k), nb = 1ULL << (k * m);
        for (uint64_t ca = 0; ca < na; ca += 64, ++idx) {     // batch: up to 64 A masks x all B masks
            if (!vf::selected("product_exhaustive", idx)) continue;
            Case c("product_exhaustive", idx, J().n("n", n).n("k", k).n("m", m).n("amask_from", ca));
            Rng r(vf::case_seed("product_exhaustive", idx));
            for (uint64_t ma = ca; ma < std::min(na, ca + 64); ++ma) for (uint64_t mb = 0; mb < nb; ++mb) {
                Csr<double> A = from_mask(n, k, ma, r), B = from_mask(k, m, mb, r);
                check_product_pair(c, A, B, true, true);
                if (ma && mb) c.nontrivial();
                // the same pattern pair with explicitly stored zeros among the values (every 4th pair, to bound the cost)
                if (ma && mb && ((ma * 31 + mb) & 3) == 0) { Csr<double> Az = from_mask(n, k, ma, r, false, 0.35), Bz = from_mask(k, m, mb, r, false, 0.35); check_product_pair(c, Az, Bz, true, true); }
            }
        }
    }
    vf::obs_set("product_exhaustive_space", "all pattern pairs (n x k)(k x m), n,k,m in 1..3, plus shapes (1,4,2) (1,5,2) (2,4,2) (1,6,2) (1,4,3); sorted rows, integer values");
}

static void sub_product_random() {
    long N = vf::tier(60, 1500);
    for (long idx = 0; idx < N; ++idx) {
        if (!vf::selected("product_random", idx)) continue;
        Rng r(vf::case_seed("product_random", idx));
        size_t n = r.range(1, idx % 5 == 0 ? 300 : 60), k = r.range(1, idx % 5 == 0 ? 300 : 60), m = r.range(1, idx % 5 == 0 ? 300 : 60);
        double dens = r.pick(std::vector<double>{0.02, 0.1, 0.3, 0.7}); bool exact = r.coin(0.4);
        Csr<double> A = exact ? vf::random_int_sparse(n, k, dens, 5, r) : vf::random_real_sparse(n, k, dens, r);
        Csr<double> B = exact ? vf::random_int_sparse(k, m, dens, 5, r) : vf::random_real_sparse(k, m, dens, r);
        bool zeros = idx % 3 == 1; if (zeros) { store_zeros(A, r, 0.15); store_zeros(B, r, 0.15); }
        Case c("product_random", idx, J().n("n", n).n("k", k).n("m", m).n("dens", dens).bl("exact", exact).bl("stored_zeros", zeros).n("threads", omp_get_max_threads()));
        check_product_pair(c, A, B, exact, true);
        if (A.nnz() && B.nnz()) c.nontrivial();
        // unsorted inputs are permitted for the marker algorithm: result duplicate-free and equal as a set
        Csr<double> Au = vf::shuffle_rows(A, r), Bu = vf::shuffle_rows(B, r);
        { M a = to_amg(Au), b = to_amg(Bu), C; DenseRef D = ref_product(A, B); backend::spgemm_saad(a, b, C, false); cmp_dense(c, "spgemm_saad_unsorted_in", C, D, exact, false, 16);
          M C2; backend::spgemm_saad(a, b, C2, true); cmp_dense(c, "spgemm_saad_unsorted_in_sorted_out", C2, D, exact, true, 16); }
        vf::sample("product_random", J().n("n", n).n("k", k).n("m", m).n("nnzA", A.nnz()).n("nnzB", B.nnz()).bl("exact", exact).n("threads", omp_get_max_threads()));
    }
}

//---------------------------------------------------------------------------
// block-valued products: 2x2 blocks with small integer entries (blocks do not commute), exact dense reference
//   C(i,j) = sum_k A(i,k) * B(k,j)   (in this order)
static void sub_product_block() {
    typedef static_matrix<double, 2, 2> Bk; typedef backend::crs<Bk> BM;
    long N = vf::tier(60, 800);
    for (long idx = 0; idx < N; ++idx) {
        if (!vf::selected("product_block", idx)) continue;
        Rng r(vf::case_seed("product_block", idx)); size_t n = r.range(1, 14), k = r.range(1, 14), m = r.range(1, 14); double dens = r.pick(std::vector<double>{0.15, 0.4, 0.8});
        Csr<double> PA = vf::random_int_sparse(n, k, dens, 1, r), PB = vf::random_int_sparse(k, m, dens, 1, r);
        auto blocks = [&](size_t nnz) { std::vector<Bk> v(nnz); for (auto &b : v) for (int q = 0; q < 4; ++q) b(q) = (double)r.range(-3, 3); return v; };
        std::vector<Bk> va = blocks(PA.nnz()), vb = blocks(PB.nnz()); BM a(n, k, PA.ptr, PA.col, va), b(k, m, PB.ptr, PB.col, vb);
        Case c("product_block", idx, J().n("n", n).n("k", k).n("m", m).n("dens", dens).n("threads", omp_get_max_threads()));
        std::vector<Bk> D(n * m, math::zero<Bk>()); std::vector<char> S(n * m, 0);
        for (size_t i = 0; i < n; ++i) for (auto ja = PA.ptr[i]; ja < PA.ptr[i + 1]; ++ja) { auto cc = PA.col[ja]; for (auto jb = PB.ptr[cc]; jb < PB.ptr[cc + 1]; ++jb) { size_t q = i * m + PB.col[jb]; D[q] = D[q] + va[ja] * vb[jb]; S[q] = 1; } }
        auto cmp = [&](const BM &C, const std::string &what, bool sorted) {
            std::string wf = wellformed(C, n, m, sorted); if (!c.check(wf.empty(), what + ":malformed:" + wf, "CRS well-formedness monitor: " + wf)) return;
            size_t cnt = 0, exp = 0; for (auto x : S) exp += x; bool pat = true, val = true;
            for (size_t i = 0; i < n; ++i) for (auto j = C.ptr[i]; j < C.ptr[i + 1]; ++j) { size_t q = i * m + C.col[j]; ++cnt; if (!S[q]) pat = false; for (int t = 0; t < 4; ++t) if (!(C.val[j](t) == D[q](t))) val = false; }
            if (cnt != exp) pat = false;
            c.check(pat, what + ":pattern", "block product pattern differs from the structural definition"); c.check(val, what + ":value", "block product differs from sum_k A(i,k) B(k,j) (integer blocks: exact)"); };
        { BM C; backend::spgemm_saad(a, b, C, true); cmp(C, "spgemm_saad(block)", true); }
        { BM C; backend::spgemm_saad(a, b, C, false); cmp(C, "spgemm_saad_nosort(block)", false); }
        { BM C; backend::spgemm_rmerge(a, b, C); cmp(C, "spgemm_rmerge(block)", true); }
        { auto C = backend::product(a, b, true); cmp(*C, "product(block)", true); }
        if (PA.nnz() && PB.nnz()) c.nontrivial();
    }
}

//---------------------------------------------------------------------------
static void sub_transpose_sum_misc() {
    long N = vf::tier(150, 3000);
    for (long idx = 0; idx < N; ++idx) {
        if (!vf::selected("misc", idx)) continue;
        Rng r(vf::case_seed("misc", idx));
        size_t n = r.range(1, 40), m = r.range(1, 40); double dens = r.pick(std::vector<double>{0.05, 0.2, 0.6});
        Csr<double> A = vf::random_int_sparse(n, m, dens, 6, r), B = vf::random_int_sparse(n, m, dens, 6, r);
        if (idx % 3 == 2) { store_zeros(A, r, 0.2); store_zeros(B, r, 0.2); }
        Case c("misc", idx, J().n("n", n).n("m", m).n("dens", dens).bl("stored_zeros", idx % 3 == 2));
        M a = to_amg(A), b = to_amg(B);
        // transpose
        { auto T = backend::transpose(a); DenseRef D(m, n); for (size_t i = 0; i < n; ++i) for (auto j = A.ptr[i]; j < A.ptr[i + 1]; ++j) { D.v[A.col[j] * n + i] = A.val[j]; D.s[A.col[j] * n + i] = 1; }
          cmp_dense(c, "transpose", *T, D, true, true); }
        // sum (sorted and not)
        for (int sorted = 0; sorted < 2; ++sorted) { double al = (double)r.range(-3, 3), be = (double)r.range(-3, 3);
          auto S = backend::sum(al, a, be, b, (bool)sorted); DenseRef D(n, m);
          for (size_t i = 0; i < n; ++i) { for (auto j = A.ptr[i]; j < A.ptr[i + 1]; ++j) { D.v[i * m + A.col[j]] += al * A.val[j]; D.s[i * m + A.col[j]] = 1; } for (auto j = B.ptr[i]; j < B.ptr[i + 1]; ++j) { D.v[i * m + B.col[j]] += be * B.val[j]; D.s[i * m + B.col[j]] = 1; } }
          cmp_dense(c, sorted ? "sum_sorted" : "sum", *S, D, true, (bool)sorted); }
        // scale
        { M s(a); backend::scale(s, 0.5); bool ok = s.nnz == A.nnz(); for (size_t k = 0; ok && k < A.nnz(); ++k) ok = s.val[k] == 0.5 * A.val[k] && s.col[k] == A.col[k]; c.check(ok, "scale:value", "scale(A, 0.5) differs from 0.5 * A"); }
        // sort_rows
        { Csr<double> U = vf::shuffle_rows(A, r); M u = to_amg(U); backend::sort_rows(u); bool ok = u.nnz == A.nnz(); for (size_t k = 0; ok && k < A.nnz(); ++k) ok = u.col[k] == A.col[k] && u.val[k] == A.val[k]; for (size_t i = 0; ok && i <= n; ++i) ok = u.ptr[i] == A.ptr[i];
          c.check(ok, "sort_rows:value", "sort_rows of a shuffled matrix is not the sorted matrix"); }
        // copy / convert constructors
        { std::vector<int> p32(A.ptr.begin(), A.ptr.end()), c32(A.col.begin(), A.col.end()); std::vector<float> vf32(A.val.begin(), A.val.end());
          backend::crs<float, int, int> f(std::make_tuple(n, p32, c32, vf32)); f.ncols = m;
          backend::crs<double, long, long> d(f); bool ok = d.nrows == n && d.nnz == A.nnz(); for (size_t k = 0; ok && k < A.nnz(); ++k) ok = d.col[k] == A.col[k] && d.val[k] == A.val[k]; for (size_t i = 0; ok && i <= n; ++i) ok = d.ptr[i] == A.ptr[i];
          c.check(ok, "convert_ctor:value", "crs<double,long,long>(crs<float,int,int>) lost or changed entries");
          M cp(a); M as; as = a; M mv(std::move(cp)); ok = mv.nrows == n && mv.ncols == m && mv.nnz == A.nnz() && as.nnz == A.nnz() && as.ncols == m; for (size_t k = 0; ok && k < A.nnz(); ++k) ok = mv.val[k] == A.val[k] && as.val[k] == A.val[k] && mv.col[k] == A.col[k] && as.col[k] == A.col[k];
          c.check(ok, "copy_ctor:value", "copy / assign / move of crs changed the matrix");
          c.check(wellformed(as, n, m, true).empty() && wellformed(mv, n, m, true).empty(), "copy_ctor:malformed", "copied CRS malformed"); }
        // diagonal (plain and inverted) on square part; also for the row-shuffled copy (unsorted rows are valid CRS input)
        if (n == m) { Csr<double> Ush = vf::shuffle_rows(A, r); M ush = to_amg(Ush);
          for (int inv = 0; inv < 2; ++inv) { auto du = backend::diagonal(ush, (bool)inv); bool oku = du->size() == n;
            for (size_t i = 0; oku && i < n; ++i) { bool has = false; double dv = 0; for (auto j = A.ptr[i]; j < A.ptr[i + 1]; ++j) if (A.col[j] == (ptrdiff_t)i) { has = true; dv = A.val[j]; }
              if (has) { double ref = inv ? (dv == 0 ? 1.0 : 1.0 / dv) : dv; oku = (*du)[i] == ref; } }
            c.check(oku, inv ? "diagonal_inv:unsorted-rows" : "diagonal:unsorted-rows", "diagonal() of a matrix with unsorted rows differs from the stored diagonal entries"); }
          for (int inv = 0; inv < 2; ++inv) { auto d = backend::diagonal(a, (bool)inv); bool ok = d->size() == n;
            for (size_t i = 0; ok && i < n; ++i) { bool has = false; double dv = 0; for (auto j = A.ptr[i]; j < A.ptr[i + 1]; ++j) if (A.col[j] == (ptrdiff_t)i) { has = true; dv = A.val[j]; }
              if (has) { double ref = inv ? (dv == 0 ? 1.0 : 1.0 / dv) : dv; ok = (*d)[i] == ref; } }
            c.check(ok, inv ? "diagonal_inv:value" : "diagonal:value", "diagonal() differs from the stored diagonal entries"); } }
        if (A.nnz()) c.nontrivial();
    }
}

// complex / block transpose must be the adjoint
static void sub_transpose_adjoint() {
    long N = vf::tier(60, 1000);
    for (long idx = 0; idx < N; ++idx) {
        if (!vf::selected("transpose_adjoint", idx)) continue;
        Rng r(vf::case_seed("transpose_adjoint", idx)); size_t n = r.range(1, 25), m = r.range(1, 25);
        Csr<double> S = vf::random_int_sparse(n, m, 0.3, 3, r);
        Case c("transpose_adjoint", idx, J().n("n", n).n("m", m).n("nnz", S.nnz()));
        { typedef std::complex<double> Z; std::vector<Z> v(S.nnz()); for (auto &z : v) z = Z((double)r.range(-4, 4), (double)r.range(-4, 4));
          backend::crs<Z> A(n, m, S.ptr, S.col, v); auto T = backend::transpose(A); std::string wf = wellformed(*T, m, n, true); c.check(wf.empty(), "transpose_complex:malformed:" + wf, "malformed");
          bool ok = wf.empty() && T->nnz == S.nnz(); std::vector<Z> D(n * m, Z(0)); for (size_t i = 0; i < n; ++i) for (auto j = S.ptr[i]; j < S.ptr[i + 1]; ++j) D[i * m + S.col[j]] = v[j];
          for (size_t i = 0; ok && i < m; ++i) for (auto j = T->ptr[i]; j < T->ptr[i + 1]; ++j) if (T->val[j] != std::conj(D[T->col[j] * m + i])) ok = false;
          c.check(ok, "transpose_complex:value", "transpose of a complex matrix is not the conjugate transpose"); }
        { typedef static_matrix<double, 2, 2> Bk; std::vector<Bk> v(S.nnz()); for (auto &b : v) for (int k = 0; k < 4; ++k) b(k) = (double)r.range(-4, 4);
          backend::crs<Bk> A(n, m, S.ptr, S.col, v); auto T = backend::transpose(A); std::string wf = wellformed(*T, m, n, true); c.check(wf.empty(), "transpose_block:malformed:" + wf, "malformed");
          bool ok = wf.empty() && T->nnz == S.nnz(); std::map<std::pair<size_t, size_t>, Bk> D; for (size_t i = 0; i < n; ++i) for (auto j = S.ptr[i]; j < S.ptr[i + 1]; ++j) D[{i, (size_t)S.col[j]}] = v[j];
          for (size_t i = 0; ok && i < m; ++i) for (auto j = T->ptr[i]; j < T->ptr[i + 1]; ++j) { auto it = D.find({(size_t)T->col[j], i}); if (it == D.end()) { ok = false; break; } for (int p = 0; p < 2; ++p) for (int q = 0; q < 2; ++q) if (T->val[j](p, q) != it->second(q, p)) ok = false; }
          c.check(ok, "transpose_block:value", "transpose of a block-valued matrix does not transpose the blocks"); }
        { typedef std::complex<double> Z; typedef static_matrix<Z, 2, 2> Bk; std::vector<Bk> v(S.nnz()); for (auto &b : v) for (int k = 0; k < 4; ++k) b(k) = Z((double)r.range(-4, 4), (double)r.range(-4, 4));
          backend::crs<Bk> A(n, m, S.ptr, S.col, v); auto T = backend::transpose(A); std::string wf = wellformed(*T, m, n, true); c.check(wf.empty(), "transpose_complex_block:malformed:" + wf, "malformed");
          bool ok = wf.empty() && T->nnz == S.nnz(); std::map<std::pair<size_t, size_t>, Bk> D; for (size_t i = 0; i < n; ++i) for (auto j = S.ptr[i]; j < S.ptr[i + 1]; ++j) D[{i, (size_t)S.col[j]}] = v[j];
          for (size_t i = 0; ok && i < m; ++i) for (auto j = T->ptr[i]; j < T->ptr[i + 1]; ++j) { auto it = D.find({(size_t)T->col[j], i}); if (it == D.end()) { ok = false; break; } for (int p = 0; p < 2; ++p) for (int q = 0; q < 2; ++q) if (T->val[j](p, q) != std::conj(it->second(q, p))) ok = false; }
          c.check(ok, "transpose_complex_block:value", "transpose of a complex block-valued matrix is not the conjugate transpose of the blocks"); }
        if (S.nnz()) c.nontrivial();
    }
}

//---------------------------------------------------------------------------
// pointwise_matrix: entry (I,J) present iff block (I,J) has a stored entry; value = max |a_ij| over the stored entries of the block
static void check_pointwise(Case &c, const Csr<double> &A, int b, const std::string &tag) {
    M a = to_amg(A); std::shared_ptr<backend::crs<double>> P;
    try { P = backend::pointwise_matrix(a, b); } catch (const std::exception &e) { c.fail("pointwise_matrix:exception" + tag, e.what()); return; }
    size_t np = A.n / b, mp = A.m / b; std::string wf = wellformed(*P, np, mp, true);
    if (!c.check(wf.empty(), "pointwise_matrix:malformed:" + wf + tag, "CRS well-formedness monitor: " + wf)) return;
    std::vector<double> D(np * mp, 0); std::vector<char> S(np * mp, 0);
    for (size_t i = 0; i < A.n; ++i) for (auto j = A.ptr[i]; j < A.ptr[i + 1]; ++j) { size_t k = (i / b) * mp + A.col[j] / b; D[k] = std::max(D[k], std::fabs(A.val[j])); S[k] = 1; }
    size_t cnt = 0, exp = 0; for (auto s : S) exp += s; bool pat = true, val = true;
    for (size_t i = 0; i < np; ++i) for (auto j = P->ptr[i]; j < P->ptr[i + 1]; ++j) { size_t k = i * mp + P->col[j]; ++cnt; if (!S[k]) pat = false; if (!(P->val[j] == D[k])) val = false; }
    if (cnt != exp) pat = false;
    c.check(pat, "pointwise_matrix:pattern" + tag, "block pattern differs from 'block present iff it stores an entry'", J().n("entries", cnt).n("expected", exp).n("block_size", b));
    c.check(val, "pointwise_matrix:value" + tag, "pointwise entry is not the largest norm in the block", J().n("block_size", b));
}
static void sub_pointwise() {
    // exhaustive: all patterns of (b x 2b..3b) block rows, b = 2: 2 x 6 => 2^12 masks; plus random with complete/incomplete blocks
    long idx = 0;
    for (int b = 2; b <= 3; ++b) for (int nbc = 2; nbc <= (b == 2 ? 3 : 2); ++nbc) {
        size_t n = b, m = (size_t)b * nbc; uint64_t nm = 1ULL << (n * m);
        uint64_t step = nm > 4096 ? 509 : 1;   // 3 x 6 = 2^18: strided sample in quick, all in thorough
        if (vf::thorough()) step = 1;
        for (uint64_t base = 0; base < nm; base += 256 * step, ++idx) {
            if (!vf::selected("pointwise_exhaustive", idx)) continue;
            Case c("pointwise_exhaustive", idx, J().n("b", b).n("block_cols", nbc).n("mask_from", base).n("stride", step));
            Rng r(vf::case_seed("pointwise_exhaustive", idx));
            for (uint64_t k = 0; k < 256; ++k) { uint64_t mask = base + k * step; if (mask >= nm) break; Csr<double> A = from_mask(n, m, mask, r); check_pointwise(c, A, b, ""); if (mask) c.nontrivial(); }
        }
    }
    long N = vf::tier(80, 2000);
    for (long k = 0; k < N; ++k) {
        if (!vf::selected("pointwise_random", k)) continue;
        Rng r(vf::case_seed("pointwise_random", k)); int b = (int)r.range(1, 4); size_t np = r.range(1, 12), mp = r.range(1, 12);
        bool full = r.coin(0.4); Csr<double> A;
        if (full) { Csr<double> Pp = vf::random_int_sparse(np, mp, 0.4, 1, r); std::vector<double> Cb(b * b); for (auto &v : Cb) v = (double)r.range(1, 9) * (r.coin() ? 1 : -1); A = vf::kron(Pp, Cb, b); for (auto &v : A.val) v *= (double)r.range(1, 3); }
        else A = vf::random_int_sparse(np * b, mp * b, r.pick(std::vector<double>{0.05, 0.2, 0.5}), 9, r);
        Case c("pointwise_random", k, J().n("b", b).n("np", np).n("mp", mp).bl("full_blocks", full).n("nnz", A.nnz()));
        check_pointwise(c, A, b, ""); if (A.nnz()) c.nontrivial();
        if (k < 3) vf::sample("pointwise", J().n("b", b).n("np", np).n("mp", mp).bl("full_blocks", full).n("nnz", A.nnz()));
    }
}

//---------------------------------------------------------------------------
static void sub_spectral() {
    long N = vf::tier(80, 1200);
    for (long idx = 0; idx < N; ++idx) {
        if (!vf::selected("spectral_radius", idx)) continue;
        Rng r(vf::case_seed("spectral_radius", idx)); size_t n = r.range(2, 30);
        Csr<double> A = r.coin() ? vf::random_dd(n, r.uni(0.1, 0.5), r, r.coin()) : vf::graph_laplacian(n, 3, r);
        Case c("spectral_radius", idx, J().n("n", n).n("nnz", A.nnz()).n("threads", omp_get_max_threads()));
        M a = to_amg(A); vf::LD D = vf::to_dense(A);
        for (int scale = 0; scale < 2; ++scale) {
            vf::LD As = D; if (scale) for (size_t i = 0; i < n; ++i) As.row(i) /= D(i, i);
            double rho = vf::spectral_radius(As), smax = vf::sigma_max(As); double gref = 0; for (size_t i = 0; i < n; ++i) gref = std::max(gref, (double)As.row(i).cwiseAbs().sum());
            double g = scale ? backend::spectral_radius<true>(a, 0) : backend::spectral_radius<false>(a, 0);
            c.check(std::isfinite(g) && std::fabs(g - gref) <= 1e-13 * gref, scale ? "gershgorin_scaled:value" : "gershgorin:value", "Gershgorin estimate differs from max row sum of |entries|", J().n("got", g).n("ref", gref));
            c.check(std::isfinite(g) && g >= rho * (1 - 1e-10), scale ? "gershgorin_scaled:bound" : "gershgorin:bound", "Gershgorin estimate below the true spectral radius", J().n("got", g).n("rho", rho));
            for (int it : {1, 2, 5, 20}) { double p = scale ? backend::spectral_radius<true>(a, it) : backend::spectral_radius<false>(a, it);
                c.check(std::isfinite(p) && p >= 0 && p <= smax * (1 + 1e-10), scale ? "power_scaled:bound" : "power:bound", "power-method estimate exceeds the largest singular value", J().n("got", p).n("sigma_max", smax).n("iters", it));
                if (p > 0) vf::obs_min("min_sigma_over_power", smax / p); }
            vf::obs_min("min_gershgorin_over_rho", g / rho);
        }
        c.nontrivial();
    }
}

// Gershgorin bound for block-valued matrices (2x2 blocks): the estimate must be an upper bound of the spectral radius of the
// equivalent scalar matrix (resp. of D^-1 A with the block diagonal D when scaled), for ill-conditioned diagonal blocks too.
static void sub_spectral_block() {
    typedef static_matrix<double, 2, 2> Bk; long N = vf::tier(60, 800);
    for (long idx = 0; idx < N; ++idx) {
        if (!vf::selected("spectral_radius_block", idx)) continue;
        Rng r(vf::case_seed("spectral_radius_block", idx)); size_t n = r.range(2, 12);
        Csr<double> P = vf::random_dd(n, r.uni(0.2, 0.6), r, true); std::vector<Bk> v(P.nnz()); double aniso = r.logu(1.0, 200.0);
        for (size_t i = 0; i < n; ++i) for (auto j = P.ptr[i]; j < P.ptr[i + 1]; ++j) { Bk b; if (P.col[j] == (ptrdiff_t)i) { b(0, 0) = r.uni(1, 2) * aniso; b(1, 1) = r.uni(1, 2); b(0, 1) = r.uni(-0.3, 0.3); b(1, 0) = r.uni(-0.3, 0.3); } else for (int q = 0; q < 4; ++q) b(q) = r.uni(-1, 1) * (q == 3 ? 1.0 : 0.3); v[j] = b; }
        backend::crs<Bk> a(n, n, P.ptr, P.col, v);
        Case c("spectral_radius_block", idx, J().n("n", n).n("nnz", P.nnz()).n("aniso", aniso));
        vf::LD D = vf::LD::Zero(2 * n, 2 * n), Dg = vf::LD::Zero(2 * n, 2 * n);
        for (size_t i = 0; i < n; ++i) for (auto j = P.ptr[i]; j < P.ptr[i + 1]; ++j) for (int p = 0; p < 2; ++p) for (int q = 0; q < 2; ++q) { D(2 * i + p, 2 * P.col[j] + q) = v[j](p, q); if (P.col[j] == (ptrdiff_t)i) Dg(2 * i + p, 2 * i + q) = v[j](p, q); }
        for (int scale = 0; scale < 2; ++scale) {
            vf::LD As = D; if (scale) { vf::LD Di = Dg.inverse(); As = Di * D; }
            double rho = vf::spectral_radius(As); double g = scale ? backend::spectral_radius<true>(a, 0) : backend::spectral_radius<false>(a, 0);
            c.check(std::isfinite(g) && g >= rho * (1 - 1e-10), scale ? "gershgorin_scaled(block):bound" : "gershgorin(block):bound", "Gershgorin estimate of a block-valued matrix is below the true spectral radius", J().n("got", g).n("rho", rho).n("aniso", aniso));
            vf::obs_min(scale ? "min_gershgorin_over_rho_block_scaled" : "min_gershgorin_over_rho_block", g / rho);
        }
        c.nontrivial();
    }
}

int main(int argc, char **argv) {
    vf::init(argc, argv);
    vf::obs_add("threads_seen", std::to_string(omp_get_max_threads()));
    vf::obs_add("product_algorithm", omp_get_max_threads() > 16 ? "rmerge(product)" : "saad(product)");
    // --nested=1: the whole workload is executed by thread 0 of an enclosing parallel region of two threads (nesting is off by
    // default): the kernels' own parallel regions then get a team of ONE thread while omp_get_max_threads() still reports the
    // configured count.  Together with the OMP_THREAD_LIMIT job this produces teams smaller than omp_get_max_threads().
    auto all = [&]() {
        if (vf::sub_enabled("product_exhaustive")) sub_product_exhaustive();
        if (vf::sub_enabled("product_random")) sub_product_random();
        if (vf::sub_enabled("product_block")) sub_product_block();
        if (vf::sub_enabled("misc")) sub_transpose_sum_misc();
        if (vf::sub_enabled("transpose_adjoint")) sub_transpose_adjoint();
        if (vf::sub_enabled("pointwise_exhaustive") || vf::sub_enabled("pointwise_random")) sub_pointwise();
        if (vf::sub_enabled("spectral_radius")) sub_spectral();
        if (vf::sub_enabled("spectral_radius_block")) sub_spectral_block();
    };
    { int team = 0;
#pragma omp parallel
      {
#pragma omp single
        team = omp_get_num_threads(); }
      vf::obs_add("team_sizes_seen", std::to_string(team) + "of" + std::to_string(omp_get_max_threads()) + (vf::opt_int("nested", 0) ? "(nested:1)" : "")); }
    if (vf::opt_int("nested", 0)) {
#pragma omp parallel num_threads(2)
        { if (omp_get_thread_num() == 0) all(); }
    } else all();
    return vf::finish();
}
