// C09 (differential) -- results do not depend on the number of threads (DESIGN.md 5/C09, monitors 1, 4, 5).
//
// One process switches the OpenMP thread count with omp_set_num_threads() (1,2,3,4,5,8,16 in the g++ 'plain'
// build; 1,2,4,8,16,17,24,32 in the clang 'plain-omp' build -- never a digest across compilers), recomputes every
// output from fresh objects, and compares:
//   bitwise class   SpGEMM (both algorithms and product()), transpose, diagonal, SpMV / residual / vector updates,
//                   plain aggregates, P/R/A of every level for aggregation / smoothed aggregation / Ruge-Stuben,
//                   Gershgorin radii, relaxation sweeps (Gauss-Seidel, Jacobi, SPAI-0/1, Chebyshev; ILU within one
//                   form of the triangular solve), the AMG cycle built from those
//   rounding class  inner products (derived bound, bitwise on integer data), energy-minimising transfer
//                   operators (level 1), ILU across the serial / level-scheduled switch, full solves
//                   ("all report convergence => solutions agree to 10 kappa tol").
// product() switches from the marker algorithm to row-merge above 16 threads (design finding F5): outputs that
// depend on it are compared bitwise inside {<=16} and inside {>16}; a difference between the two groups is
// reported under the distinct keys '(product|hierarchy|cycle):saad-vs-rmerge-rounding' and bounded by a forward rounding bound.
#include <amgcl/backend/builtin.hpp>
#include <amgcl/adapter/crs_tuple.hpp>
#include <amgcl/amg.hpp>
#include <amgcl/make_solver.hpp>
#include <amgcl/solver/runtime.hpp>
#include <amgcl/coarsening/runtime.hpp>
#include <amgcl/relaxation/runtime.hpp>
#include <amgcl/coarsening/plain_aggregates.hpp>
#include <vf/hooks.hpp>
#include <vf/dense.hpp>
#include <vf/threads.hpp>

using namespace amgcl;
typedef backend::builtin<double> B;
typedef backend::crs<double> M;
typedef backend::numa_vector<double> NV;
typedef amgcl::verif::access ACC;
typedef boost::property_tree::ptree ptree;
typedef amg<B, runtime::coarsening::wrapper, runtime::relaxation::wrapper> AMG;
typedef make_solver<AMG, runtime::solver::wrapper<B>> Solver;
using vf::Csr; using vf::J; using vf::Rng; using vf::Case;

static const double U = 1.1102230246251565e-16;
static M to_amg(const Csr<double> &A) { return M(A.n, A.m, A.ptr, A.col, A.val); }

//---------------------------------------------------------------------------
// Output records
//---------------------------------------------------------------------------
enum Cls { BIT, ROUND, INFO };
struct Out {
    Cls cls = BIT; uint64_t h = 0;
    bool spgemm = false;            // depends on product(): bitwise only inside a SpGEMM algorithm group
    bool formdep = false;           // ILU: bitwise only inside {t < 4} / {t >= 4}
    bool has_pattern = false; uint64_t hp = 0;   // pattern digest that must agree even across the SpGEMM switch (first coarse operator)
    bool exact_on_integer = false;  // every sum is exact on integer-valued input: bitwise even across the SpGEMM switch
    std::vector<double> vals;       // values for rounding comparisons (ROUND, and BIT outputs that may legitimately differ across a switch)
    std::vector<double> atol;       // per-value absolute tolerance (size 1 = same for all)
    std::string tag;                // appended to the failure key (e.g. ':struct-nonsym')
    bool converged = true; double resid = 0; size_t iters = 0;
};
typedef std::map<std::string, Out> Outs;

static Out bit(uint64_t h) { Out o; o.h = h; return o; }
template <class V> static std::vector<double> as_vec(const V &x) { std::vector<double> v(x.size()); for (size_t i = 0; i < x.size(); ++i) v[i] = x[i]; return v; }
static std::vector<double> crs_vals(const M &A) { return std::vector<double>(A.val, A.val + (A.nrows ? A.ptr[A.nrows] : 0)); }
static double maxabs(const std::vector<double> &v) { double m = 0; for (double x : v) m = std::max(m, std::fabs(x)); return m; }

struct Input { Csr<double> A; std::string family; bool sym_struct = true, sym_val = true, integer = false; int block = 1; };

//---------------------------------------------------------------------------
// Everything that is computed at one thread count
//---------------------------------------------------------------------------
static const char *COARS[] = {"aggregation", "smoothed_aggregation", "ruge_stuben", "smoothed_aggr_emin"};
static const char *RELAX[] = {"damped_jacobi", "spai0", "spai1", "gauss_seidel", "chebyshev", "ilu0", "iluk", "ilup", "ilut"};
static const char *SOLV[]  = {"cg", "bicgstab", "bicgstabl", "gmres", "lgmres", "fgmres", "idrs", "richardson"};

// forward rounding bound of the Galerkin product per stored entry of Ac = R A P:
//   |fl(Ac_ij) - Ac_ij| <= (kR + kA + kP + 3) u (|R||A||P|)_ij  for every order of summation (kX = longest row of X),
// so two correct SpGEMM algorithms differ by at most twice that.
static std::vector<double> galerkin_bound(const M &R, const M &A, const M &P, const M &Ac) {
    size_t nc = Ac.nrows; std::vector<double> acc(Ac.ncols, 0.0), out(nc ? Ac.ptr[nc] : 0, 0.0); size_t kR = 0, kA = 0, kP = 0;
    for (size_t i = 0; i < R.nrows; ++i) kR = std::max<size_t>(kR, R.ptr[i + 1] - R.ptr[i]);
    for (size_t i = 0; i < A.nrows; ++i) kA = std::max<size_t>(kA, A.ptr[i + 1] - A.ptr[i]);
    for (size_t i = 0; i < P.nrows; ++i) kP = std::max<size_t>(kP, P.ptr[i + 1] - P.ptr[i]);
    double fac = 2.0 * (double)(kR + kA + kP + 3) * U;
    for (size_t i = 0; i < nc && i < R.nrows; ++i) {
        for (int pass = 0; pass < 2; ++pass) {
            if (pass == 1) for (auto j = Ac.ptr[i]; j < Ac.ptr[i + 1]; ++j) out[j] = fac * acc[Ac.col[j]];
            for (auto jr = R.ptr[i]; jr < R.ptr[i + 1]; ++jr) { auto k = R.col[jr]; double rv = std::fabs(R.val[jr]);
                for (auto ja = A.ptr[k]; ja < A.ptr[k + 1]; ++ja) { auto l = A.col[ja]; double av = rv * std::fabs(A.val[ja]);
                    for (auto jp = P.ptr[l]; jp < P.ptr[l + 1]; ++jp) { if (pass == 0) acc[P.col[jp]] += av * std::fabs(P.val[jp]); else acc[P.col[jp]] = 0; } } }
        }
    }
    return out;
}

static void hierarchy_outputs(Outs &o, const Input &in, const std::string &coars, const std::string &name, ptree p, bool bitclass) {
    p.put("coarsening.type", coars); p.put("relax.type", "spai0"); p.put("coarse_enough", 40);
    AMG amg(in.A.tie(), p);
    int l = 0; std::shared_ptr<M> pA, pP, pR;
    for (auto &lvl : ACC::levels(amg)) {
        ++l; std::string pre = "hier." + name + ".L" + std::to_string(l);
        auto put = [&](const char *w, const std::shared_ptr<M> &X, bool dep) {
            if (!X) return; Out q;
            if (bitclass) { q = bit(vf::crs_hash(*X)); q.spgemm = dep; }
            else { q.cls = ROUND; q.h = vf::crs_hash(*X, false); q.vals = crs_vals(*X); q.spgemm = dep;
                   // energy-minimising operators: omega_c = <AP_c, ADAP_c> / <ADAP_c, ADAP_c> is accumulated in a thread-dependent order
                   // (critical section).  |d omega| <= 2 m u |AP_c||ADAP_c| / |ADAP_c|^2 (Cauchy-Schwarz on the numerator sum, m <= n terms),
                   // dP_ic = -AP_ic/d_i * d omega_c; with |AP_c|/|ADAP_c| and |AP_ic/d_i| bounded by 10 max(1,|P|max) on the generated
                   // diagonally dominant inputs this gives |dP| <= 200 n u max(1,|P|max); the same for R, squared amplification for A_c.
                   double s = std::max(1.0, maxabs(q.vals)); q.atol.assign(1, 200.0 * (double)in.A.n * U * s * (std::string(w) == "A" ? 20 : 1)); }
            o[pre + "." + w] = q; };
        put("A", lvl.A, l > 1); put("P", lvl.P, l > 1 || !bitclass); put("R", lvl.R, l > 1 || !bitclass);
        if (!bitclass) break;       // deeper levels of the rounding class may legitimately take different discrete decisions
        // first coarse operator: across the SpGEMM switch its pattern must be identical and its values within the Galerkin rounding bound
        // (deeper levels may legitimately take different discrete coarsening decisions after a last-bit change and are only reported as F5)
        if (l == 2 && lvl.A && pA && pP && pR) { Out &q = o[pre + ".A"]; q.has_pattern = true; q.hp = vf::crs_hash(*lvl.A, false); q.vals = crs_vals(*lvl.A); q.atol = galerkin_bound(*pR, *pA, *pP, *lvl.A); if (q.atol.size() != q.vals.size()) q.atol.assign(1, 0.0); }
        pA = lvl.A; pP = lvl.P; pR = lvl.R;
    }
    Out nl; nl.h = (uint64_t)l; nl.spgemm = true; o["hier." + name + ".levels"] = nl; if (!bitclass) o["hier." + name + ".levels"].cls = INFO;
}

static void compute_outputs(Outs &o, const Input &in, const Input &small, const std::vector<int> &cells, uint64_t vseed, bool bit_only, bool with_solves) {
    const Csr<double> &A = in.A; size_t n = A.n; M a = to_amg(A);
    Rng rv(vseed); NV x(n), y(n), z(n), f(n); std::vector<double> xi(n), yi(n);
    for (size_t i = 0; i < n; ++i) { x[i] = rv.uni(-1, 1); y[i] = rv.uni(-1, 1); z[i] = rv.uni(-1, 1); f[i] = rv.uni(-1, 1); xi[i] = (double)rv.range(-9, 9); yi[i] = (double)rv.range(-9, 9); }
    const std::string stag = in.sym_struct ? "" : ":struct-nonsym";
    // --- SpGEMM
    { M C; backend::spgemm_saad(a, a, C, true); o["spgemm_saad"] = bit(vf::crs_hash(C)); }
    { M C; backend::spgemm_rmerge(a, a, C); o["spgemm_rmerge"] = bit(vf::crs_hash(C)); }
    { auto C = backend::product(a, a, true); Out q = bit(vf::crs_hash(*C)); q.spgemm = true; q.vals = crs_vals(*C);
      // forward bound of one entry of A*A: |fl(sum) - sum| <= k u sum|a_il a_lj| <= k u (|A||A|)_ij, k = longest row; evaluated with the norm bound |A|max^2 k
      size_t k = 0; for (size_t i = 0; i < n; ++i) k = std::max<size_t>(k, A.ptr[i + 1] - A.ptr[i]); double am = maxabs(A.val); q.atol.assign(1, 2.0 * k * U * k * am * am);
      q.exact_on_integer = true; o["product"] = q; }
    { auto T = backend::transpose(a); o["transpose"] = bit(vf::crs_hash(*T)); }
    { auto d = backend::diagonal(a, true); o["diagonal_inv"] = bit(vf::vec_hash(*d)); }
    // --- SpMV and vector updates
    { NV w(n); for (size_t i = 0; i < n; ++i) w[i] = y[i]; backend::spmv(0.7, a, x, 0.3, w); o["spmv"] = bit(vf::vec_hash(w)); }
    { NV w(n); backend::residual(f, a, x, w); o["residual"] = bit(vf::vec_hash(w)); }
    { NV w(n); for (size_t i = 0; i < n; ++i) w[i] = y[i]; backend::axpby(1.3, x, -0.6, w); uint64_t h1 = vf::vec_hash(w); backend::axpbypcz(0.4, x, 1.7, y, -0.2, w); uint64_t h2 = vf::vec_hash(w);
      backend::vmul(0.9, x, y, 0.5, w); uint64_t h3 = vf::vec_hash(w); NV c2(n); backend::copy(w, c2); backend::clear(w); vf::Digest d; d.pod(h1); d.pod(h2); d.pod(h3); d.pod(vf::vec_hash(c2)); d.pod(vf::vec_hash(w)); o["vector_updates"] = bit(d.h); }
    // --- reductions
    { double ip = backend::inner_product(x, y); long double s = 0; for (size_t i = 0; i < n; ++i) s += fabsl((long double)x[i] * y[i]);
      // per thread Kahan summation (error <= 3u sum|x_i y_i|) + plain accumulation of <= 64 partial sums + rounding of the products
      Out q; q.cls = ROUND; q.vals.assign(1, ip); q.atol.assign(1, (double)((64 + 8) * U * s)); o["inner_product"] = q; }
    { NV a1(n), b1(n); for (size_t i = 0; i < n; ++i) { a1[i] = xi[i]; b1[i] = yi[i]; } double ip = backend::inner_product(a1, b1); Out q = bit(0); memcpy(&q.h, &ip, 8); o["inner_product_integer"] = q; }
    { double g1 = backend::spectral_radius<true>(a, 0), g2 = backend::spectral_radius<false>(a, 0); vf::Digest d; d.pod(g1); d.pod(g2); o["gershgorin"] = bit(d.h); }
    if (!bit_only) { double p1 = backend::spectral_radius<true>(a, 8); Out q; q.cls = INFO; q.vals.assign(1, p1); o["power_radius"] = q; }
    // --- aggregates
    { coarsening::plain_aggregates::params ap; coarsening::plain_aggregates ag(a, ap); vf::Digest d; uint64_t c = ag.count; d.pod(c); d.vec(ag.id); { uint64_t ns = ag.strong_connection.size(); d.pod(ns); for (size_t q = 0; q < ag.strong_connection.size(); ++q) { char b = ag.strong_connection[q] ? 1 : 0; d.pod(b); } }   /* element-wise: independent of the container type of the public flag array */ o["plain_aggregates"] = bit(d.h); }
    // --- hierarchies.  An exception of a bitwise-class construction is itself an output that must not depend on the thread count; for the
    // rounding class (energy minimisation: a last-bit change of omega can decide whether skyline_lu meets an exactly zero pivot) it is recorded only.
    auto hier = [&](const std::string &coars, const std::string &name, const ptree &p, bool bitclass) {
        try { hierarchy_outputs(o, in, coars, name, p, bitclass); }
        catch (const std::exception &e) { for (auto it = o.begin(); it != o.end();) { if (it->first.compare(0, 6 + name.size(), "hier." + name + ".") == 0) it = o.erase(it); else ++it; }
            Out q = bit(vf::hash_str(e.what())); q.spgemm = true; if (!bitclass) { q.cls = INFO; vf::obs_sum("rounding_class_hierarchy_exceptions"); } o["hier." + name + ".exception"] = q; } };
    hier("aggregation", "aggregation", ptree(), true);
    hier("smoothed_aggregation", "smoothed_aggregation", ptree(), true);
    { ptree p; p.put("coarsening.estimate_spectral_radius", true); p.put("coarsening.power_iters", 0); hier("smoothed_aggregation", "smoothed_aggregation_gershgorin", p, true); }
    hier("ruge_stuben", "ruge_stuben", ptree(), true);
    if (in.block > 1) {     // pointwise (block) aggregates
        ptree p; p.put("coarsening.aggr.block_size", in.block); hier("aggregation", "aggregation_block", p, true); hier("smoothed_aggregation", "smoothed_aggregation_block", p, true); }
    if (!bit_only) hier("smoothed_aggr_emin", "smoothed_aggr_emin", ptree(), false);
    // --- relaxation sweeps
    for (const char *rn : RELAX) {
        ptree p; p.put("type", rn); runtime::relaxation::wrapper<B> R(a, p, B::params());
        NV w(n), t(n); for (size_t i = 0; i < n; ++i) w[i] = x[i];
        R.apply_pre(a, f, w, t); R.apply_post(a, f, w, t);
        Out q = bit(vf::vec_hash(w)); std::string r = rn;
        if (r.compare(0, 3, "ilu") == 0) { q.formdep = true; q.vals = as_vec(w);
            // across the serial / level-scheduled switch the row sums are associated differently: normwise forward bound
            // gamma_k cond(L) cond(U) |x|, cond <= 1e3 for the diagonally dominant factors generated here (the componentwise
            // backward-error version of this oracle is in c09_sched, sub sweep_random)
            q.atol.assign(1, 1e-9 * std::max(1.0, maxabs(q.vals))); }
        if (r == "gauss_seidel") q.tag = stag;
        o["relax." + r] = q;
    }
    // --- AMG cycle as a preconditioner (bitwise-class components only)
    { const char *cc[][2] = {{"smoothed_aggregation", "spai0"}, {"aggregation", "gauss_seidel"}, {"ruge_stuben", "damped_jacobi"}, {"smoothed_aggregation", "chebyshev"}};
      for (auto &c2 : cc) { ptree p; p.put("coarsening.type", c2[0]); p.put("relax.type", c2[1]); p.put("coarse_enough", 40); AMG amg(A.tie(), p); NV w(n); amg.apply(f, w);
          Out q = bit(vf::vec_hash(w)); q.spgemm = true; q.vals = as_vec(w); q.atol.assign(1, 1e-9 * std::max(1.0, maxabs(q.vals)));
          if (std::string(c2[1]) == "gauss_seidel") q.tag = stag; o[std::string("cycle.") + c2[0] + "+" + c2[1]] = q; } }
    // --- full solves on the small system
    if (with_solves && !bit_only) {
        size_t m = small.A.n; Rng rs(vseed ^ 0x5bd1e995); std::vector<double> rhs(m); for (auto &v : rhs) v = rs.uni(-1, 1);
        for (int cell : cells) {
            const char *cn = COARS[cell % 4], *rn = RELAX[(cell / 4) % 9], *sn = SOLV[(cell / 36) % 8];
            if (!small.sym_val && std::string(sn) == "cg") sn = "bicgstab";
            ptree p; p.put("precond.coarsening.type", cn); p.put("precond.relax.type", rn); p.put("precond.coarse_enough", 30); p.put("solver.type", sn); p.put("solver.tol", 1e-8); p.put("solver.maxiter", 300);
            std::string name = std::string("solve.") + cn + "+" + rn + "+" + sn; Out q; q.cls = ROUND;
            // thread-seeded random vectors: power-iteration Chebyshev / spectral-radius estimate in smoothed aggregation (and IDR(s) shadow vectors)
            if (std::string(rn) == "chebyshev" && cell % 2) { p.put("precond.relax.power_iters", 8); name += "[power]"; }
            if (std::string(cn) == "smoothed_aggregation" && (cell / 4) % 3 == 0) { p.put("precond.coarsening.estimate_spectral_radius", true); p.put("precond.coarsening.power_iters", 5); name += "[sr-power]"; }
            try { Solver S(small.A.tie(), p); std::vector<double> sol(m, 0.0); size_t it; double res; std::tie(it, res) = S(rhs, sol);
                  q.vals = sol; q.iters = it; q.resid = res; q.converged = std::isfinite(res) && res <= 1e-8; }
            catch (const std::exception &e) { q.converged = false; q.resid = NAN; q.tag = std::string(":exception:") + e.what(); }
            o[name] = q;
        }
    }
}

//---------------------------------------------------------------------------
// Comparison of the outputs of two thread counts
//---------------------------------------------------------------------------
static int group_of(int t) { return t > 16 ? 1 : 0; }
static int form_of(int t) { return t >= 4 ? 1 : 0; }
struct Cmp { Case &c; std::set<std::string> seen; double kappa_small = 0;
    void fail(const std::string &key, const std::string &what, const J &d) { if (seen.insert(key).second) c.fail(key, what, d); } };

static double max_excess(const Out &a, const Out &b, double *maxdiff = nullptr) {     // max_i |a_i - b_i| / tol_i ; inf when shapes differ or non-finite
    if (a.vals.size() != b.vals.size()) return INFINITY; double w = 0, md = 0;
    for (size_t i = 0; i < a.vals.size(); ++i) { double ta = a.atol.size() == 1 ? a.atol[0] : a.atol[i], tb = b.atol.size() == 1 ? b.atol[0] : b.atol[i]; double d = std::fabs(a.vals[i] - b.vals[i]);
        if (!std::isfinite(d)) { if (a.vals[i] == b.vals[i] || (std::isnan(a.vals[i]) && std::isnan(b.vals[i]))) continue; return INFINITY; }
        md = std::max(md, d); double r = d / (std::max(ta, tb) + 1e-300); w = std::max(w, r); }
    if (maxdiff) *maxdiff = md; return w;
}

static void compare(Cmp &k, const std::string &name, int ta, const Out &a, int tb, const Out &b, const Input &in) {
    J d = J().s("output", name).n("threads_a", ta).n("threads_b", tb).bl("struct_sym", in.sym_struct).bl("integer", in.integer);
    std::string base = name; size_t dot = name.find(".L"); (void)dot;
    ++k.c.checks;
    if (a.cls == INFO) return;
    if (name.compare(0, 6, "solve.") == 0) {
        // cells whose setup involves an unordered critical-section accumulation (energy minimisation) or a thread-seeded random vector (power
        // iteration, IDR(s) shadow space) are not continuous functions of those: a last-bit change of omega decides whether skyline_lu meets an
        // exactly zero pivot, a different random start vector changes the spectral-radius estimate of an 8-step power iteration.  For them a
        // differing outcome (exception / divergence at one thread count) is recorded, and only "all converge => solutions agree" is demanded.
        bool discontinuous = name.find("smoothed_aggr_emin") != std::string::npos || name.find("[power]") != std::string::npos || name.find("[sr-power]") != std::string::npos || name.find("+idrs") != std::string::npos;
        if (discontinuous && (a.tag != b.tag || a.converged != b.converged)) { vf::obs_sum("rounding_class_solve_pairs_with_differing_outcome"); return; }
        if (!a.tag.empty() || !b.tag.empty()) { if (a.tag != b.tag) k.fail(name + ":exception-thread-dependent", "solver construction / solve throws at one thread count only: " + a.tag + " vs " + b.tag, d); return; }
        // iteration counts legitimately differ by a few between thread counts (rounding class): a run that stops at maxiter within 100 tol of
        // the target while the other one just made it is not a refutation; a run that is nowhere near convergence is
        if (a.converged != b.converged && std::isfinite(a.resid) && std::isfinite(b.resid) && std::max(a.resid, b.resid) <= 100 * 1e-8) { vf::obs_sum("solve_pairs_borderline_at_maxiter"); return; }
        if (a.converged != b.converged) { k.fail(name + ":convergence-thread-dependent", "solver reports convergence at one thread count and not at the other", J(d).n("resid_a", a.resid).n("resid_b", b.resid).n("iters_a", a.iters).n("iters_b", b.iters)); return; }
        if (!a.converged) { vf::obs_sum("solve_pairs_not_converged"); return; }
        long double num = 0, den = 0; for (size_t i = 0; i < a.vals.size(); ++i) { long double e = (long double)a.vals[i] - b.vals[i]; num += e * e; den += (long double)a.vals[i] * a.vals[i]; }
        double rel = (double)(std::sqrt(num) / std::sqrt(den)); double bound = 10 * k.kappa_small * 1e-8;
        vf::obs_max("solve_max_rel_diff_over_bound", rel / bound); vf::obs_max("solve_max_iter_diff", std::fabs((double)a.iters - (double)b.iters)); vf::obs_sum("solve_pairs_compared");
        if (!(rel <= bound)) k.fail(name + ":solutions-disagree", "both thread counts report convergence to 1e-8 but the solutions differ by more than 10 kappa tol", J(d).n("rel_diff", rel).n("bound", bound).n("kappa", k.kappa_small));
        return;
    }
    if (a.cls == ROUND) {
        if (a.h != b.h) { k.fail(name + ":pattern-thread-dependent" + a.tag, "sparsity pattern of a rounding-class output depends on the thread count", d); return; }
        double md = 0, ex = max_excess(a, b, &md); vf::obs_max("rounding_class_max_diff_over_bound[" + name.substr(0, name.find('.')) + "]", ex);
        if (!(ex <= 1)) k.fail(name + ":beyond-rounding" + a.tag, "rounding-class output differs between thread counts by more than its summation-order bound", J(d).n("excess", ex).n("max_abs_diff", md));
        return;
    }
    // bitwise class
    if (a.h == b.h) return;
    bool cross_group = a.spgemm && group_of(ta) != group_of(tb) && !(in.integer && a.exact_on_integer);
    bool cross_form = a.formdep && form_of(ta) != form_of(tb);
    if (cross_group || cross_form) {
        // design finding F5: one stable key per output family (direct product / hierarchy / cycle), the output name goes into the detail
        if (cross_group) k.fail(std::string(name.compare(0, 5, "hier.") == 0 ? "hierarchy" : name.compare(0, 6, "cycle.") == 0 ? "cycle" : "product") + ":saad-vs-rmerge-rounding", "output differs bitwise between <= 16 and > 16 threads (product() switches from the marker algorithm to row-merge)", d);
        if (cross_group && (a.has_pattern || b.has_pattern) && a.hp != b.hp) k.fail(name.substr(0, name.find(".L")) + ":pattern-differs-across-spgemm-switch", "first coarse operator has a different sparsity pattern below and above 16 threads (rounding cannot change a pattern)", d);
        if (!a.vals.empty()) { double md = 0, ex = max_excess(a, b, &md); vf::obs_max(cross_group ? "across_spgemm_switch_max_diff_over_bound" : "ilu_across_form_max_diff_over_bound", ex);
            if (!(ex <= 1)) k.fail(name + (cross_group ? ":beyond-rounding-across-spgemm-switch" : ":beyond-rounding-across-form") + a.tag, "difference across the algorithm switch exceeds the rounding bound", J(d).n("excess", ex).n("max_abs_diff", md)); }
        return;
    }
    k.fail(name + ":thread-dependent" + a.tag, "bitwise-class output differs between two thread counts", d);
}

static void compare_all(Cmp &k, const std::vector<int> &threads, const std::vector<Outs> &res, const Input &in) {
    // reference per SpGEMM group = first thread count of the group; every other count against the reference of its own group,
    // and the two references against each other
    int refA = -1, refB = -1;
    for (size_t i = 0; i < threads.size(); ++i) { if (group_of(threads[i]) == 0 && refA < 0) refA = (int)i; if (group_of(threads[i]) == 1 && refB < 0) refB = (int)i; }
    auto pair = [&](int i, int j, bool formdep_only = false) { for (auto &kv : res[i]) { if (formdep_only && !kv.second.formdep) continue; auto it = res[j].find(kv.first); if (it == res[j].end()) { if (kv.second.cls == BIT && kv.second.spgemm && group_of(threads[i]) != group_of(threads[j]) && kv.first.find(".L1.") == std::string::npos && kv.first.find(".L2.") == std::string::npos) k.fail("hierarchy:saad-vs-rmerge-rounding", "deeper level exists on one side of the SpGEMM switch only (different discrete coarsening decision after a last-bit change)", J().s("output", kv.first).n("threads_a", threads[i]).n("threads_b", threads[j])); else if (kv.second.cls == BIT) k.fail(kv.first.substr(0, kv.first.find(".L")) + ":missing", "bitwise-class output exists at one thread count only (construction threw at the other)", J().s("output", kv.first).n("threads_a", threads[i]).n("threads_b", threads[j])); continue; } compare(k, kv.first, threads[i], kv.second, threads[j], it->second, in); } };
    for (size_t i = 0; i < threads.size(); ++i) { int ref = group_of(threads[i]) == 0 ? refA : refB; if ((int)i != ref) pair(ref, (int)i); }
    if (refA >= 0 && refB >= 0) pair(refA, refB);
    // ILU applications: bitwise inside the level-scheduled form (>= 4 threads) of each group as well
    for (int g = 0; g < 2; ++g) { int first = -1; for (size_t i = 0; i < threads.size(); ++i) { if (group_of(threads[i]) != g || form_of(threads[i]) != 1) continue; if (first < 0) { first = (int)i; continue; } if (first != (g == 0 ? refA : refB)) pair(first, (int)i, true); } }
}

//---------------------------------------------------------------------------
// Inputs
//---------------------------------------------------------------------------
static bool struct_sym(const Csr<double> &A) { Csr<double> T = vf::transpose(A); return T.ptr == A.ptr && T.col == A.col; }
static std::string g_struct = "both";      // --struct=sym: only structurally symmetric systems on every level (TSan jobs: keeps the race of design finding F4 in its own job)
static Input big_input(Rng &r, long idx, int nlo, int nhi) {
    Input in; int fam = (int)(idx % 6);
    if (g_struct == "sym") { fam = (int)(idx % 5); if (fam == 4) fam = 5; } else if (g_struct == "nonsym") fam = 4;
    switch (fam) {
        case 0: in.A = vf::model_problem(r, nlo, nhi); in.family = "G1-model"; break;
        case 1: { vf::GridSpec g; int s = (int)std::sqrt((double)r.range(nlo, nhi)); g.nx = s; g.ny = s; in.A = vf::grid_diffusion(g, r); in.family = "G1-integer-laplacian"; in.integer = true; break; }   // entries -1 / 4: every sum exact
        case 2: in.A = vf::graph_laplacian((size_t)r.range(nlo, nhi) / 2, r.uni(3, 6), r, false, true); in.family = "G2-graph"; break;
        case 3: { int s = (int)std::sqrt((double)r.range(nlo, nhi)); in.A = vf::convdiff(s, s, r.logu(0.1, 5), r, false); in.family = "G3-convdiff"; in.sym_val = false; break; }
        case 4: { int s = (int)std::sqrt((double)r.range(nlo, nhi)); in.A = vf::convdiff(s, s, r.logu(0.1, 5), r, true); in.family = "G3-convdiff-structnonsym"; in.sym_val = false; break; }
        default: { vf::GridSpec g; int s = (int)std::sqrt((double)r.range(nlo, nhi) / 2); g.nx = s; g.ny = s; g.contrast = r.logu(1, 10); in.A = vf::kron(vf::grid_diffusion(g, r), vf::spd_block(2, r), 2); in.family = "G5-kron-block2"; in.block = 2; }   // pointwise aggregates
    }
    in.sym_struct = struct_sym(in.A); return in;
}
static Input small_input(Rng &r, long idx) {
    // (non-symmetric values make the filtered matrix of the energy-minimising coarsening structurally non-symmetric on coarse levels)
    Input in; if (idx % 3 == 2 && g_struct != "sym") { int s = (int)r.range(10, 17); in.A = vf::convdiff(s, s, r.logu(0.1, 2), r, false); in.family = "G3-convdiff"; in.sym_val = false; }
    else { in.A = vf::model_problem(r, 150, 380); in.family = "G1-model"; }
    in.sym_struct = struct_sym(in.A); return in;
}

//---------------------------------------------------------------------------
static void sub_diff(const std::vector<int> &threads) {
    long N = vf::opt_int("inputs", vf::tier(16, 160)); int ncell = (int)vf::opt_int("cells", vf::tier(12, 24));
    int nlo = (int)vf::opt_int("nlo", 600), nhi = (int)vf::opt_int("nhi", vf::tier(2500, 5000));
    for (long idx = 0; idx < N; ++idx) {
        if (!vf::selected("diff", idx)) continue;
        Rng r(vf::case_seed("diff", idx)); Input in = big_input(r, idx, nlo, nhi), sm = small_input(r, idx);
        std::vector<int> cells; for (int q = 0; q < ncell; ++q) cells.push_back((int)((idx * ncell + q) * 37 % 288));       // 37 is coprime to 288: all cells are visited in turn
        Case c("diff", idx, in.A.desc(in.family).bl("struct_sym", in.sym_struct).bl("integer", in.integer).s("threads", vf::join_ints(threads)).n("n_small", sm.A.n).s("small_family", sm.family));
        Cmp k{c}; k.kappa_small = vf::cond2(vf::to_dense(sm.A));
        if (!(k.kappa_small >= 1 && k.kappa_small < 1e6)) { fprintf(stderr, "c09_diff: internal: small system badly conditioned (%g)\n", k.kappa_small); exit(3); }
        std::vector<Outs> res(threads.size()); uint64_t vseed = r.next();
        try { for (size_t i = 0; i < threads.size(); ++i) { omp_set_num_threads(threads[i]); compute_outputs(res[i], in, sm, cells, vseed, false, true); } }
        catch (const std::exception &e) { c.fail("exception:diff", e.what()); continue; }
        compare_all(k, threads, res, in);
        c.nontrivial(); for (int t : threads) vf::obs_add("threads_seen", std::to_string(t)); vf::obs_sum("outputs_compared", (double)res[0].size() * (threads.size() - 1));
        for (int cell : cells) vf::obs_add("cells_seen", std::to_string(cell));
        vf::sample("diff", in.A.desc(in.family).bl("struct_sym", in.sym_struct).s("threads", vf::join_ints(threads)).n("outputs", res[0].size()).n("kappa_small", k.kappa_small));
    }
}

// monitor 5: every bitwise-class computation 20 times per thread count with delay injection -> one digest
static void sub_repeat(const std::vector<int> &threads) {
    long N = vf::opt_int("inputs", vf::tier(5, 40)); int reps = (int)vf::opt_int("reps", 20);
    amgcl::verif::point_hook = vf::delay_point; vf::delay_level() = 2;
    for (long idx = 0; idx < N; ++idx) {
        if (!vf::selected("repeat", idx)) continue;
        Rng r(vf::case_seed("repeat", idx)); Input in = big_input(r, idx, 300, 900), sm;
        Case c("repeat", idx, in.A.desc(in.family).bl("struct_sym", in.sym_struct).bl("integer", in.integer).s("threads", vf::join_ints(threads)).n("reps", reps));
        Cmp k{c}; uint64_t vseed = r.next(); std::vector<int> nocells;
        try {
            for (int t : threads) { omp_set_num_threads(t); Outs first;
                for (int rep = 0; rep < reps; ++rep) { vf::delay_salt() = (unsigned)(r.next() | 1); Outs o; compute_outputs(o, in, sm, nocells, vseed, true, false);
                    if (rep == 0) { first = o; continue; }
                    for (auto &kv : o) { ++c.checks; if (kv.second.cls == BIT && kv.second.h != first[kv.first].h) k.fail(kv.first + ":repetition-digests-differ" + kv.second.tag, "two repetitions of the same computation at one thread count differ", J().s("output", kv.first).n("threads", t).n("rep", rep).bl("struct_sym", in.sym_struct)); } }
                vf::obs_sum("repetitions", reps); }
        } catch (const std::exception &e) { c.fail("exception:repeat", e.what()); continue; }
        c.nontrivial(); for (int t : threads) vf::obs_add("threads_seen", std::to_string(t));
    }
    amgcl::verif::point_hook = nullptr; vf::delay_level() = 0;
}

int main(int argc, char **argv) {
    vf::init(argc, argv); omp_set_dynamic(0);
    g_struct = vf::opt("struct", "both"); if (g_struct != "both" && g_struct != "sym" && g_struct != "nonsym") { fprintf(stderr, "bad --struct\n"); return 3; }
#if defined(__clang__)
    std::vector<int> threads = vf::thread_list("threads", "1,2,4,8,16,17,24,32");
#else
    std::vector<int> threads = vf::thread_list("threads", "1,2,3,4,5,8,16");
#endif
    if (vf::sub_enabled("diff")) sub_diff(threads);
    if (vf::sub_enabled("repeat")) { std::vector<int> rt = vf::thread_list("rthreads", vf::opt("threads", "4,8")); sub_repeat(rt); }
    return vf::finish();
}
