// C09 (schedules) -- the level-scheduled Gauss-Seidel sweep and ILU triangular solves
// (DESIGN.md 5/C09, monitors 2, 3 and the sweep part of 4, 5).
//
//  monitor 2  schedule invariant (I): task tables of gauss_seidel::parallel_sweep<fwd|bwd> and
//             ilu_solve::sptr_solve<L|U>, read through the friend accessor after construction.
//  monitor 3  epoch trace: traced solution vector + barrier hook, offline log checker.
//  monitor 4  workload for ThreadSanitizer (tsan flavour) with delay injection in the row hook.
//  monitor 5  20x repetition of every sweep with delay injection: one digest.
//  differential: level-scheduled Gauss-Seidel == serial sweep bitwise (same operations per row);
//             level-scheduled ILU solve satisfies the componentwise backward error bound of a
//             triangular solve w.r.t. the factors held by the serial form.
#include <amgcl/backend/builtin.hpp>
#include <amgcl/adapter/crs_tuple.hpp>
#include <amgcl/relaxation/gauss_seidel.hpp>
#include <amgcl/relaxation/ilu0.hpp>
#include <amgcl/relaxation/iluk.hpp>
#include <amgcl/relaxation/ilut.hpp>
#include <amgcl/relaxation/ilup.hpp>
#include <vf/hooks.hpp>
#include <vf/gen.hpp>
#include <vf/threads.hpp>

using namespace amgcl;
typedef backend::builtin<double> B;
typedef backend::crs<double> M;
typedef backend::numa_vector<double> NV;
typedef amgcl::verif::access ACC;
using vf::Csr; using vf::J; using vf::Rng; using vf::Case;

static M to_amg(const Csr<double> &A) { return M(A.n, A.m, A.ptr, A.col, A.val); }
static std::string g_struct = "both";          // --struct=sym|nonsym|both : which structure classes to run

//---------------------------------------------------------------------------
// Monitor 2.  The t-th task of every thread forms level t.
//   rows      every row appears exactly once; tasks of a thread tile its local rows; all threads hold the same number of tasks
//   copy      the reordered copy of a row equals the row of the swept matrix (columns and values, in order)
//   same      for rows i != j of one level: j not in cols(i)
//   order     for every stored column c != i of row i: level(c) < level(i) if c precedes i in sweep order, level(c) > level(i) otherwise
// By induction over levels these facts make every interleaving permitted between barriers reproduce the serial sweep.
//---------------------------------------------------------------------------
struct SchedFail { std::string what; long row = -1, col = -1, lvl = -1; };
template <class Sweep>
static bool check_schedule(const Sweep &sw, const M &A, bool ascending, std::vector<SchedFail> &fails, long *nlev_out = nullptr) {
    const ptrdiff_t n = A.nrows; size_t f0 = fails.size();
    int nt = ACC::nthreads(sw); auto &tasks = ACC::tasks(sw); auto &ptr = ACC::ptr(sw); auto &col = ACC::col(sw); auto &val = ACC::val(sw); auto &ord = ACC::ord(sw);
    if ((int)tasks.size() != nt || (int)ptr.size() != nt || (int)col.size() != nt || (int)val.size() != nt || (int)ord.size() != nt) { fails.push_back({"table-shape"}); return false; }
    size_t nlev = tasks[0].size();
    for (int t = 0; t < nt; ++t) if (tasks[t].size() != nlev) { fails.push_back({"task-count-mismatch", -1, -1, (long)tasks[t].size()}); return false; }
    if (nlev_out) *nlev_out = (long)nlev;
    std::vector<long> level(n, -1); std::vector<int> seen(n, 0);
    std::vector<std::pair<int, ptrdiff_t>> where(n, {-1, -1});
    for (int t = 0; t < nt; ++t) {
        ptrdiff_t expect = 0;
        if (ptr[t].size() != ord[t].size() + 1) { fails.push_back({"table-shape"}); return false; }
        for (size_t l = 0; l < nlev; ++l) {
            auto &tk = tasks[t][l];
            if (tk.beg != expect || tk.end < tk.beg || tk.end > (ptrdiff_t)ord[t].size()) { fails.push_back({"task-tiling", -1, -1, (long)l}); return false; }
            expect = tk.end;
            for (ptrdiff_t r = tk.beg; r < tk.end; ++r) { ptrdiff_t i = ord[t][r]; if (i < 0 || i >= n) { fails.push_back({"row-coverage", (long)i}); return false; } ++seen[i]; level[i] = (long)l; where[i] = {t, r}; }
        }
        if (expect != (ptrdiff_t)ord[t].size()) { fails.push_back({"task-tiling"}); return false; }
    }
    for (ptrdiff_t i = 0; i < n; ++i) if (seen[i] != 1) { fails.push_back({"row-coverage", (long)i, -1, seen[i]}); return false; }
    bool copy_ok = true, same_ok = true, order_ok = true;
    for (ptrdiff_t i = 0; i < n; ++i) {
        int t = where[i].first; ptrdiff_t r = where[i].second; ptrdiff_t b = ptr[t][r], e = ptr[t][r + 1];
        if (b < 0 || e < b || e > (ptrdiff_t)col[t].size() || e > (ptrdiff_t)val[t].size() || e - b != A.ptr[i + 1] - A.ptr[i]) { if (copy_ok) fails.push_back({"row-copy", (long)i}); copy_ok = false; continue; }
        for (ptrdiff_t j = b, ja = A.ptr[i]; j < e; ++j, ++ja) {
            ptrdiff_t c = col[t][j];
            if (c != A.col[ja] || memcmp(&val[t][j], &A.val[ja], sizeof(double))) { if (copy_ok) fails.push_back({"row-copy", (long)i, (long)c}); copy_ok = false; }
            if (c < 0 || c >= n) { if (copy_ok) fails.push_back({"row-copy", (long)i, (long)c}); copy_ok = false; continue; }
            if (c == i) continue;
            if (level[c] == level[i]) { if (same_ok) fails.push_back({"same-level-dependency", (long)i, (long)c, level[i]}); same_ok = false; }
            else { bool precedes = ascending ? c < i : c > i; if (precedes != (level[c] < level[i])) { if (order_ok) fails.push_back({"level-order", (long)i, (long)c, level[i]}); order_ok = false; } }
        }
    }
    return fails.size() == f0;
}

// is the pattern structurally symmetric
static bool struct_sym(const Csr<double> &A) {
    std::set<std::pair<ptrdiff_t, ptrdiff_t>> s; for (size_t i = 0; i < A.n; ++i) for (auto j = A.ptr[i]; j < A.ptr[i + 1]; ++j) s.insert({(ptrdiff_t)i, A.col[j]});
    for (auto &p : s) if (!s.count({p.second, p.first})) return false; return true;
}
static bool want_struct(bool sym) { return g_struct == "both" || (sym ? g_struct == "sym" : g_struct == "nonsym"); }

//---------------------------------------------------------------------------
// One matrix through everything that concerns Gauss-Seidel.
//---------------------------------------------------------------------------
struct Tally { long sched = 0, sweeps = 0, rows = 0; };
typedef relaxation::gauss_seidel<B> GS;

// report helper: at most one failure event per key and batch case, with the first witness
struct KeyOnce { Case &c; std::set<std::string> seen; std::map<std::string, long> count;
    KeyOnce(Case &c_) : c(c_) {}
    void fail(const std::string &key, const std::string &what, const J &d) { ++count[key]; if (seen.insert(key).second) c.fail(key, what, d); }
};

static void gs_schedule(KeyOnce &k, const Csr<double> &A, const M &a, const GS &P, const std::string &tag, const J &wit, Tally &ty) {
    if (ACC::is_serial(P)) { k.fail("gauss_seidel:unexpected-serial", "gauss_seidel fell back to the serial sweep at >= 4 threads", wit); return; }
    for (int dir = 0; dir < 2; ++dir) {
        std::vector<SchedFail> f; long nlev = 0;
        bool ok = dir == 0 ? check_schedule(*ACC::forward(P), a, true, f, &nlev) : check_schedule(*ACC::backward(P), a, false, f, &nlev);
        ++k.c.checks; ++ty.sched; ty.rows += (long)A.n;
        vf::obs_max("max_levels_seen", (double)nlev);
        if (!ok) for (auto &e : f) k.fail(std::string("gauss_seidel.") + (dir ? "backward" : "forward") + ":schedule:" + e.what + tag,
            "level schedule of the parallel Gauss-Seidel sweep violates the invariant '" + e.what + "'", J(wit).n("row", e.row).n("col", e.col).n("level", e.lvl));
    }
}

// parallel sweep == serial sweep, bitwise, `reps` repetitions with delay injection
static void gs_sweeps(KeyOnce &k, const Csr<double> &A, const M &a, const GS &P, const GS &S, Rng &r, int reps, const std::string &tag, const J &wit, Tally &ty) {
    size_t n = A.n; NV f(n), x0(n), t(n);
    for (size_t i = 0; i < n; ++i) { f[i] = r.uni(-1, 1); x0[i] = r.uni(-1, 1); }
    NV xs(n); for (size_t i = 0; i < n; ++i) xs[i] = x0[i];
    S.apply_pre(a, f, xs, t); uint64_t hs1 = vf::vec_hash(xs); S.apply_post(a, f, xs, t); uint64_t hs2 = vf::vec_hash(xs);
    std::set<uint64_t> d1, d2;
    for (int rep = 0; rep < reps; ++rep) {
        vf::delay_salt() = (unsigned)(r.next() | 1);
        NV xp(n); for (size_t i = 0; i < n; ++i) xp[i] = x0[i];
        P.apply_pre(a, f, xp, t); uint64_t h1 = vf::vec_hash(xp); P.apply_post(a, f, xp, t); uint64_t h2 = vf::vec_hash(xp);
        d1.insert(h1); d2.insert(h2); ++ty.sweeps;
        ++k.c.checks; if (h1 != hs1) k.fail("gauss_seidel.forward:sweep-differs-from-serial" + tag, "level-scheduled forward sweep is not bitwise equal to the serial sweep", J(wit).n("rep", rep));
        ++k.c.checks; if (h2 != hs2) k.fail("gauss_seidel.backward:sweep-differs-from-serial" + tag, "level-scheduled pre+post sweep is not bitwise equal to the serial sweeps", J(wit).n("rep", rep));
    }
    ++k.c.checks; if (d1.size() > 1 || d2.size() > 1) k.fail("gauss_seidel:repetition-digests-differ" + tag, "repetitions of the same parallel sweep gave different results", J(wit).n("distinct_pre", d1.size()).n("distinct_post", d2.size()));
}

// Gauss-Seidel on one stored matrix: schedule invariant and / or sweeps.  Called for the sorted storage and for a storage with
// permuted entries inside the rows (duplicate-free unsorted rows are valid input of relaxation::gauss_seidel used directly).
static void gs_all(KeyOnce &k, const Csr<double> &A, Rng &r, int reps, bool sched, bool sweeps, const std::string &tag, const J &wit, Tally &ty) {
    M a = to_amg(A); GS::params pp; pp.serial = false; GS P(a, pp, B::params());
    if (sched) gs_schedule(k, A, a, P, tag, wit, ty);
    if (sweeps && !ACC::is_serial(P)) { GS::params ps; ps.serial = true; GS S(a, ps, B::params()); gs_sweeps(k, A, a, P, S, r, reps, tag, wit, ty); }
}
static Csr<double> unsorted_storage(const Csr<double> &A, Rng &r, bool reverse) { return vf::shuffle_rows(A, r, reverse); }

//---------------------------------------------------------------------------
// ILU: schedules of the triangular solves against the factors held by the serial form.
//---------------------------------------------------------------------------
template <class R> static std::shared_ptr<relaxation::detail::ilu_solve<B>> ilu_of(R &r) { return ACC::ilu(r); }
static std::shared_ptr<relaxation::detail::ilu_solve<B>> ilu_of(relaxation::ilup<B> &r) { return ACC::ilu(*ACC::base(r)); }

template <class R> struct ilu_name;
template <> struct ilu_name<relaxation::ilu0<B>> { static const char *get() { return "ilu0"; } };
template <> struct ilu_name<relaxation::iluk<B>> { static const char *get() { return "iluk"; } };
template <> struct ilu_name<relaxation::ilut<B>> { static const char *get() { return "ilut"; } };
template <> struct ilu_name<relaxation::ilup<B>> { static const char *get() { return "ilup"; } };

template <class P> static void set_serial(P &p, bool s) { p.solve.serial = s; }
static void set_serial(relaxation::ilup<B>::params &p, bool s) { p.solve.serial = s; }

// componentwise backward error of x = (D^-1 + U)^-1 (I + L)^-1 b in long double:
//   |b - (I+L)(Dinv+U) x| <= 3 (k+3) u (|I+L| |Dinv+U| |x|)   (Higham, Accuracy and Stability, Thm 8.5 applied to both
//   substitutions, k = longest row; holds for every order of evaluation of the row sums, hence for both forms)
static double ilu_backward_ratio(const M &L, const M &U, const NV &D, const NV &b, const NV &x) {
    size_t n = L.nrows; std::vector<long double> y(n), ya(n); size_t k = 0;
    for (size_t i = 0; i < n; ++i) { long double di = 1.0L / (long double)D[i]; long double s = di * x[i], sa = fabsl(di * x[i]);
        for (auto j = U.ptr[i]; j < U.ptr[i + 1]; ++j) { s += (long double)U.val[j] * x[U.col[j]]; sa += fabsl((long double)U.val[j] * x[U.col[j]]); }
        y[i] = s; ya[i] = sa; k = std::max<size_t>(k, U.ptr[i + 1] - U.ptr[i]); }
    double worst = 0;
    for (size_t i = 0; i < n; ++i) { long double s = y[i], sa = ya[i];
        for (auto j = L.ptr[i]; j < L.ptr[i + 1]; ++j) { s += (long double)L.val[j] * y[L.col[j]]; sa += fabsl((long double)L.val[j]) * ya[L.col[j]]; }
        k = std::max<size_t>(k, L.ptr[i + 1] - L.ptr[i]);
        long double res = fabsl((long double)b[i] - s); long double bound = 3.0L * (k + 3) * 1.1102230246251565e-16L * sa + 1e-300L;
        double ratio = (double)(res / bound); if (!(ratio <= worst)) worst = std::isfinite(ratio) ? std::max(worst, ratio) : INFINITY; }
    return worst;
}

template <class R>
static void ilu_all(KeyOnce &k, const Csr<double> &A, const M &a, typename R::params prm, Rng &r, int reps, bool do_sweeps, const std::string &tag, const J &wit, Tally &ty) {
    const std::string nm = ilu_name<R>::get();
    std::shared_ptr<R> Rp, Rs;
    try { set_serial(prm, false); Rp = std::make_shared<R>(a, prm, B::params()); set_serial(prm, true); Rs = std::make_shared<R>(a, prm, B::params()); }
    catch (const std::exception &e) { k.fail(nm + ":exception" + tag, e.what(), wit); return; }
    auto ip = ilu_of(*Rp), is = ilu_of(*Rs);
    auto &Lp = ACC::lower(*ip); auto &Up = ACC::upper(*ip); auto &Ls = ACC::L(*is); auto &Us = ACC::U(*is); auto &Ds = ACC::D(*is);
    if (!Lp || !Up || !Ls || !Us || !Ds) { k.fail(nm + ":unexpected-form" + tag, "parallel / serial form of ilu_solve not built as requested", wit); return; }
    for (int w = 0; w < 2; ++w) {
        std::vector<SchedFail> f; long nlev = 0; bool ok = w == 0 ? check_schedule(*Lp, *Ls, true, f, &nlev) : check_schedule(*Up, *Us, false, f, &nlev);
        ++k.c.checks; ++ty.sched; ty.rows += (long)A.n; vf::obs_max("max_levels_seen", (double)nlev);
        if (!ok) for (auto &e : f) k.fail(nm + (w ? ".upper" : ".lower") + ":schedule:" + e.what + tag, "level schedule of the ILU triangular solve violates the invariant '" + e.what + "'", J(wit).n("row", e.row).n("col", e.col).n("level", e.lvl));
    }
    { // the inverted diagonal carried by the upper schedule equals D of the serial form
        auto &Dt = ACC::D(*Up); auto &ord = ACC::ord(*Up); bool ok = (int)Dt.size() == ACC::nthreads(*Up);
        for (size_t t = 0; ok && t < Dt.size(); ++t) { ok = Dt[t].size() == ord[t].size(); for (size_t q = 0; ok && q < ord[t].size(); ++q) ok = !memcmp(&Dt[t][q], &(*Ds)[ord[t][q]], sizeof(double)); }
        ++k.c.checks; if (!ok) k.fail(nm + ".upper:schedule:diagonal-copy" + tag, "per-thread copy of the inverted diagonal differs from D", wit);
    }
    if (!do_sweeps) return;
    size_t n = A.n; NV b(n); for (size_t i = 0; i < n; ++i) b[i] = r.uni(-1, 1);
    NV xs(n); for (size_t i = 0; i < n; ++i) xs[i] = b[i]; is->solve(xs);
    double bs = ilu_backward_ratio(*Ls, *Us, *Ds, b, xs);
    if (!(bs <= 1)) { fprintf(stderr, "c09_sched: internal: serial ILU solve outside its own backward error bound (%g)\n", bs); exit(3); }   // validates the oracle itself
    std::set<uint64_t> dg; double worst = 0, maxdiff = 0;
    for (int rep = 0; rep < reps; ++rep) {
        vf::delay_salt() = (unsigned)(r.next() | 1);
        NV xp(n); for (size_t i = 0; i < n; ++i) xp[i] = b[i]; ip->solve(xp); dg.insert(vf::vec_hash(xp)); ++ty.sweeps;
        double br = ilu_backward_ratio(*Ls, *Us, *Ds, b, xp); worst = std::max(worst, br);
        ++k.c.checks; if (!(br <= 1)) k.fail(nm + ":solve-backward-error" + tag, "level-scheduled triangular solves violate the componentwise backward error bound of the factors", J(wit).n("ratio", br).n("rep", rep));
        for (size_t i = 0; i < n; ++i) { double sc = std::max(std::fabs(xs[i]), 1e-300); maxdiff = std::max(maxdiff, std::fabs(xp[i] - xs[i]) / sc); }
    }
    ++k.c.checks; if (dg.size() > 1) k.fail(nm + ":repetition-digests-differ" + tag, "repetitions of the same level-scheduled solve gave different results", J(wit).n("distinct", dg.size()));
    vf::obs_max("ilu_backward_ratio_max(bound=1)", worst);
    if (std::isfinite(maxdiff)) vf::obs_max("ilu_parallel_vs_serial_max_rel_diff", maxdiff);
}

static void all_ilu(KeyOnce &k, const Csr<double> &A, const M &a, Rng &r, int reps, bool sweeps, bool all_kinds, const std::string &tag, const J &wit, Tally &ty) {
    ilu_all<relaxation::ilu0<B>>(k, A, a, relaxation::ilu0<B>::params(), r, reps, sweeps, tag, wit, ty);
    if (!all_kinds) return;
    { relaxation::iluk<B>::params p; p.k = 1 + (int)r.range(0, 1); ilu_all<relaxation::iluk<B>>(k, A, a, p, r, reps, sweeps, tag, wit, ty); }
    { relaxation::ilut<B>::params p; p.p = 2; p.tau = 1e-2; ilu_all<relaxation::ilut<B>>(k, A, a, p, r, reps, sweeps, tag, wit, ty); }
    { relaxation::ilup<B>::params p; p.k = 1; ilu_all<relaxation::ilup<B>>(k, A, a, p, r, reps, sweeps, tag, wit, ty); }
}

//---------------------------------------------------------------------------
// sub: sched_exhaustive -- every sparsity pattern up to 5x5 (diagonal always stored), batch cases.
//---------------------------------------------------------------------------
static Csr<double> pattern_values(size_t n, uint64_t mask, uint64_t salt) {
    // diagonally dominant, non-symmetric values, deterministic in (mask, salt)
    uint64_t s = mask * 0x9e3779b97f4a7c15ULL ^ salt;
    return vf::pattern_matrix(n, mask, [&](size_t i, size_t j) { uint64_t z = s + i * 131 + j * 17; return -(0.25 + (double)(vf::splitmix64(z) % 7) * 0.125); },
                              [](size_t i, double sum) { return sum + 1.0 + 0.25 * (double)i; });
}
static void sub_sched_exhaustive(const std::vector<int> &threads) {
    long idx = 0; const uint64_t BATCH = 1024;
    long stride5 = vf::thorough() ? 1 : vf::opt_int("stride5", 61);     // 5x5: all 2^20 patterns in thorough, a strided 1/61 sample (coprime to the batch) in quick
    const size_t nmaxp = (size_t)vf::opt_int("pattern_nmax", 5);
    for (size_t n = 1; n <= nmaxp && n <= 5; ++n) {
        uint64_t nm = 1ULL << vf::offdiag_count(n); uint64_t stride = n == 5 ? (uint64_t)stride5 : 1;
        for (uint64_t base = 0; base < nm; base += BATCH * stride, ++idx) {
            if (!vf::selected("sched_exhaustive", idx)) continue;
            Case c("sched_exhaustive", idx, J().n("n", n).n("mask_from", base).n("stride", stride).s("threads", vf::join_ints(threads)).s("struct", g_struct));
            KeyOnce k(c); Rng r(vf::case_seed("sched_exhaustive", idx)); Tally ty; long pats = 0;
            for (int T : threads) {
                // thread counts above the first only re-chunk the same levels: every 4th batch is enough for them on 5x5
                if (n == 5 && T != threads[0] && ((base / (BATCH * stride)) % 4) != 0) continue;
                omp_set_num_threads(T);
                for (uint64_t q = 0; q < BATCH; ++q) {
                    uint64_t mask = base + q * stride; if (mask >= nm) break;
                    Csr<double> A = pattern_values(n, mask, 7); bool sym = struct_sym(A);
                    if (!want_struct(sym)) continue;
                    M a = to_amg(A); const std::string tag = sym ? ":struct-sym" : ":struct-nonsym";
                    J wit = J().n("n", n).n("mask", mask).n("threads", T).bl("struct_sym", sym);
                    bool sweeps = (n <= 4) || (q % 16 == 0);
                    gs_all(k, A, r, 1, true, sweeps, tag, wit, ty);
                    if (n >= 2) gs_all(k, unsorted_storage(A, r, mask % 3 != 0), r, 1, true, sweeps, tag + ":unsorted-rows", J(wit).bl("unsorted_rows", true), ty);     // reversed (2/3) or shuffled (1/3) entries inside the rows
                    if (n <= 4 || q % 4 == 0) all_ilu(k, A, a, r, 1, sweeps, false, tag, wit, ty);
                    ++pats;
                }
            }
            for (auto &kv : k.count) vf::obs_sum("failing_patterns[" + kv.first + "]", (double)kv.second);
            c.nontrivial(pats); vf::obs_sum("schedules_checked", (double)ty.sched); vf::obs_sum("rows_in_checked_schedules", (double)ty.rows); vf::obs_sum("parallel_sweeps_run", (double)ty.sweeps);
            vf::obs_sum("patterns_enumerated", (double)pats);
        }
    }
    if (nmaxp >= 5) vf::obs_set("sched_exhaustive_space", std::string("all 2^(n(n-1)) sparsity patterns with stored diagonal for n = 1..4; n = 5: ") + (stride5 == 1 ? "all 2^20" : "every " + std::to_string(stride5) + "th of 2^20") + "; thread counts " + vf::join_ints(threads));
}

//---------------------------------------------------------------------------
// random inputs beyond 5x5
//---------------------------------------------------------------------------
struct Input { Csr<double> A; std::string family; bool sym; };
static Input random_input(Rng &r, long idx, size_t nmax) {
    Input in; int fam = (int)(idx % 6);
    if (g_struct == "sym") fam = (int)(idx % 3); else if (g_struct == "nonsym") fam = 3 + (int)(idx % 3);
    size_t n = (size_t)r.range(20, (long)nmax);
    switch (fam) {
        case 0: { vf::GridSpec g; g.nx = (int)r.range(4, std::max<long>(5, (long)std::sqrt((double)nmax))); g.ny = (int)r.range(4, std::max<long>(5, (long)std::sqrt((double)nmax))); g.nine = r.coin(0.3); g.contrast = r.logu(1, 100); in.A = vf::grid_diffusion(g, r); in.family = "G1-grid"; break; }
        case 1: in.A = vf::graph_laplacian(n, r.uni(2, 6), r, r.coin(0.3), true); in.family = "G2-graph"; break;
        case 2: in.A = vf::random_dd(std::min<size_t>(n, 300), r.uni(0.01, 0.08), r, true); in.family = "dd-sympattern"; break;
        case 3: { int s = (int)r.range(5, std::max<long>(6, (long)std::sqrt((double)nmax))); in.A = vf::convdiff(s, s + (int)r.range(0, 3), r.logu(0.1, 20), r, true); in.family = "G3-convdiff-structnonsym"; break; }
        case 4: in.A = vf::random_dd(std::min<size_t>(n, 300), r.uni(0.01, 0.08), r, false); in.family = "dd-nonsympattern"; break;
        default: { // one-sided chain + random one-sided couplings: long anti-dependency chains
            std::vector<std::tuple<ptrdiff_t, ptrdiff_t, double>> t; for (size_t i = 0; i < n; ++i) { t.emplace_back(i, i, 4.0 + r.uni()); if (i + 1 < n && r.coin(0.7)) t.emplace_back(i, i + 1, -r.uni(0.2, 1)); if (i > 2 && r.coin(0.3)) t.emplace_back(i, r.range(0, (long)i - 1), -r.uni(0.2, 1)); }
            in.A = vf::from_triplets<double>(n, n, t); in.family = "onesided-chain"; }
    }
    in.sym = struct_sym(in.A); return in;
}

static void sub_sched_random(const std::vector<int> &threads) {
    long N = vf::tier(40, 600);
    for (long idx = 0; idx < N; ++idx) {
        if (!vf::selected("sched_random", idx)) continue;
        Rng r(vf::case_seed("sched_random", idx)); Input in = random_input(r, idx, vf::thorough() && idx % 10 == 0 ? 4000 : 900);
        int T = threads[idx % threads.size()]; omp_set_num_threads(T);
        Case c("sched_random", idx, in.A.desc(in.family).bl("struct_sym", in.sym).n("threads", T)); KeyOnce k(c); Tally ty;
        M a = to_amg(in.A); const std::string tag = in.sym ? ":struct-sym" : ":struct-nonsym"; J wit = J().bl("struct_sym", in.sym).n("threads", T);
        gs_all(k, in.A, r, 1, true, false, tag, wit, ty);
        gs_all(k, unsorted_storage(in.A, r, idx % 2 == 0), r, 1, true, false, tag + ":unsorted-rows", J(wit).bl("unsorted_rows", true), ty);
        all_ilu(k, in.A, a, r, 1, false, true, tag, wit, ty);
        c.nontrivial(); vf::obs_sum("schedules_checked", (double)ty.sched); vf::obs_sum("rows_in_checked_schedules", (double)ty.rows); vf::obs_add("threads_seen", std::to_string(T));
        vf::sample("sched_random", in.A.desc(in.family).bl("struct_sym", in.sym).n("threads", T).n("schedules", ty.sched));
    }
}

// sweeps with delay injection: the TSan workload, the repetition monitor, parallel == serial
static void sub_sweep_random(const std::vector<int> &threads) {
    long N = vf::tier(24, 300); int reps = (int)vf::opt_int("reps", 20);
    amgcl::verif::point_hook = vf::delay_point; vf::delay_level() = (int)vf::opt_int("delay", 2);
    for (long idx = 0; idx < N; ++idx) {
        if (!vf::selected("sweep_random", idx)) continue;
        Rng r(vf::case_seed("sweep_random", idx)); Input in = random_input(r, idx, 500);
        int T = threads[idx % threads.size()]; omp_set_num_threads(T);
        Case c("sweep_random", idx, in.A.desc(in.family).bl("struct_sym", in.sym).n("threads", T).n("reps", reps)); KeyOnce k(c); Tally ty;
        M a = to_amg(in.A); const std::string tag = in.sym ? ":struct-sym" : ":struct-nonsym"; J wit = J().bl("struct_sym", in.sym).n("threads", T);
        gs_all(k, in.A, r, reps, false, true, tag, wit, ty);
        gs_all(k, unsorted_storage(in.A, r, idx % 2 == 0), r, std::max(1, reps / 2), false, true, tag + ":unsorted-rows", J(wit).bl("unsorted_rows", true), ty);
        all_ilu(k, in.A, a, r, reps, true, true, tag, wit, ty);
        c.nontrivial(); vf::obs_sum("parallel_sweeps_run", (double)ty.sweeps); vf::obs_add("threads_seen", std::to_string(T));
        vf::sample("sweep_random", in.A.desc(in.family).bl("struct_sym", in.sym).n("threads", T).n("sweeps", ty.sweeps));
    }
    amgcl::verif::point_hook = nullptr; vf::delay_level() = 0;
}

//---------------------------------------------------------------------------
// sub: epoch_trace (monitor 3)
//---------------------------------------------------------------------------
static void report_trace(KeyOnce &k, const std::string &comp, const std::string &tag, const J &wit, long expect_epochs) {
    vf::TraceVerdict v = vf::trace_check();
    vf::obs_sum("trace_events", (double)v.events); vf::obs_sum("epochs_traced", (double)v.epochs);
    ++k.c.checks; if (v.same_epoch_conflicts) k.fail(comp + ":trace:same-epoch-conflict" + tag, "an unknown is written by one thread and read or written by another between the same two barriers", J(wit).n("conflicts", v.same_epoch_conflicts).n("index", v.w_idx).n("epoch", v.w_epoch));
    ++k.c.checks; if (v.barrier_order_violations) k.fail(comp + ":trace:barrier-not-observed" + tag, "accesses of consecutive levels overlap in time: no barrier separates them", J(wit).n("violations", v.barrier_order_violations).n("epoch", v.w_epoch));
    ++k.c.checks; if (v.events && expect_epochs >= 0 && v.epochs > expect_epochs) k.fail(comp + ":trace:epoch-count" + tag, "more barrier epochs than levels", J(wit).n("epochs", v.epochs).n("levels", expect_epochs));
}
static void sub_epoch_trace(const std::vector<int> &threads) {
    long N = vf::tier(16, 160);
    for (long idx = 0; idx < N; ++idx) {
        if (!vf::selected("epoch_trace", idx)) continue;
        Rng r(vf::case_seed("epoch_trace", idx)); Input in = random_input(r, idx, 300);
        int T = threads[idx % threads.size()]; omp_set_num_threads(T);
        Case c("epoch_trace", idx, in.A.desc(in.family).bl("struct_sym", in.sym).n("threads", T)); KeyOnce k(c);
        M a = to_amg(in.A); size_t n = in.A.n; const std::string tag = in.sym ? ":struct-sym" : ":struct-nonsym"; J wit = J().bl("struct_sym", in.sym).n("threads", T);
        amgcl::verif::barrier_hook = vf::trace_barrier_hook; amgcl::verif::point_hook = vf::delay_point; vf::delay_level() = 2; vf::delay_salt() = (unsigned)(r.next() | 1);
        NV f(n), t(n); for (size_t i = 0; i < n; ++i) f[i] = r.uni(-1, 1);
        Csr<double> Ag = idx % 2 ? unsorted_storage(in.A, r, true) : in.A; M ag = to_amg(Ag); const std::string gtag = tag + (idx % 2 ? ":unsorted-rows" : "");
        GS::params pp; pp.serial = false; GS P(ag, pp, B::params());
        if (!ACC::is_serial(P)) {
            for (int dir = 0; dir < 2; ++dir) {
                vf::traced_vector<double> x; x.v.resize(n); for (auto &v : x.v) v = r.uni(-1, 1);
                vf::trace().reset(T);
                if (dir == 0) P.apply_pre(ag, f, x, t); else P.apply_post(ag, f, x, t);
                long nlev = dir == 0 ? (long)ACC::tasks(*ACC::forward(P))[0].size() : (long)ACC::tasks(*ACC::backward(P))[0].size();
                report_trace(k, dir ? "gauss_seidel.backward" : "gauss_seidel.forward", gtag, wit, nlev + 1);
            }
        }
        { relaxation::ilu0<B>::params ip; ip.solve.serial = false; relaxation::ilu0<B> I(a, ip, B::params()); auto il = ACC::ilu(I);
          vf::traced_vector<double> x; x.v.resize(n); for (auto &v : x.v) v = r.uni(-1, 1);
          vf::trace().reset(T);
          // lower and upper solves are two parallel regions: trace them separately (the region boundary is a barrier by construction)
          ACC::lower(*il)->solve(x); report_trace(k, "ilu0.lower", tag, wit, (long)ACC::tasks(*ACC::lower(*il))[0].size() + 1);
          vf::trace().reset(T);
          ACC::upper(*il)->solve(x); report_trace(k, "ilu0.upper", tag, wit, (long)ACC::tasks(*ACC::upper(*il))[0].size() + 1); }
        amgcl::verif::barrier_hook = nullptr; amgcl::verif::point_hook = nullptr; vf::delay_level() = 0;
        c.nontrivial(); vf::obs_add("threads_seen", std::to_string(T));
        if (idx < 3) vf::sample("epoch_trace", in.A.desc(in.family).bl("struct_sym", in.sym).n("threads", T));
    }
}

int main(int argc, char **argv) {
    vf::init(argc, argv);
    g_struct = vf::opt("struct", "both");
    if (g_struct != "both" && g_struct != "sym" && g_struct != "nonsym") { fprintf(stderr, "bad --struct\n"); return 3; }
    std::vector<int> threads = vf::thread_list("threads", std::to_string(std::max(4, omp_get_max_threads())));
    for (int t : threads) if (t < 4) { fprintf(stderr, "the level-scheduled forms need >= 4 threads\n"); return 3; }
    omp_set_dynamic(0);
    if (vf::sub_enabled("sched_exhaustive")) sub_sched_exhaustive(threads);
    if (vf::sub_enabled("sched_random")) sub_sched_random(threads);
    if (vf::sub_enabled("sweep_random")) sub_sweep_random(threads);
    if (vf::sub_enabled("epoch_trace")) sub_epoch_trace(threads);
    return vf::finish();
}
