// C10 -- outputs are a function of the inputs only; no memory errors on valid input (DESIGN.md 5/C10).
//
//  monitor 1  heap-content differential: the same construction + solve is repeated from fresh objects with every fresh
//             allocation filled with 0x00 / 0xFF / 0xAA / 0x55 / pseudo-random bytes (replaced operator new, freed blocks
//             overwritten, M_PERTURB for malloc, stack scribbled, different allocation churn before each run): all digests
//             of hierarchy, preconditioner application and solution must be bitwise equal.
//  monitor 2  the same workload, reduced, under valgrind memcheck ('vg' flavour, native allocator, --fork=0).
//  monitor 3  ASan + UBSan + LSan ('asan' flavour, native allocator) on the degenerate-input sweep (G6) x all coarsening /
//             relaxation / solver cells x level settings (default, max_levels = 1, coarse_enough = 1 with and without
//             direct_coarse) x adapters (copying tuple adapter, zero-copy adapter with harness-owned arrays).
//  monitor 4  failure discipline: every run ends in a normal return, a std::exception, or a truthfully reported
//             non-converged / non-finite residual -- never in a signal or sanitizer abort.
//
// Each batch of runs is executed in a forked child (single-threaded process), which streams its records to the parent
// through a pipe: a crash or sanitizer abort kills the child only, is triaged from the child's stderr and reported against
// the run that was in progress, and the sweep continues with the next run.  --fork=0 runs everything in-process
// (valgrind job; a crash is then attributed by the driver to the open case).
#include <vf/alloc.hpp>
#include <amgcl/backend/builtin.hpp>
#include <amgcl/adapter/crs_tuple.hpp>
#include <amgcl/adapter/zero_copy.hpp>
#include <amgcl/amg.hpp>
#include <amgcl/make_solver.hpp>
#include <amgcl/solver/runtime.hpp>
#include <amgcl/coarsening/runtime.hpp>
#include <amgcl/relaxation/runtime.hpp>
#include <amgcl/relaxation/as_preconditioner.hpp>
#include <vf/hooks.hpp>
#include <vf/gen.hpp>
#include <vf/threads.hpp>
#include <unistd.h>
#include <fcntl.h>
#include <sys/wait.h>
#include <sys/mman.h>
#include <sys/resource.h>
#if defined(__SANITIZE_ADDRESS__)
#  include <sanitizer/lsan_interface.h>
#endif

using namespace amgcl;
typedef backend::builtin<double> B;
typedef backend::crs<double> M;
typedef backend::numa_vector<double> NV;
typedef amgcl::verif::access ACC;
typedef boost::property_tree::ptree ptree;
typedef amg<B, runtime::coarsening::wrapper, runtime::relaxation::wrapper> AMG;
typedef make_solver<AMG, runtime::solver::wrapper<B>> Solver;
typedef make_solver<relaxation::as_preconditioner<B, runtime::relaxation::wrapper>, runtime::solver::wrapper<B>> RSolver;
using vf::Csr; using vf::J; using vf::Rng; using vf::Case;

static const char *COARS[] = {"ruge_stuben", "aggregation", "smoothed_aggregation", "smoothed_aggr_emin"};
static const char *RELAX[] = {"damped_jacobi", "spai0", "spai1", "gauss_seidel", "chebyshev", "ilu0", "iluk", "ilup", "ilut"};
static const char *SOLV[]  = {"cg", "bicgstab", "bicgstabl", "gmres", "lgmres", "fgmres", "idrs", "richardson", "preonly"};
static const char *VARIANT[] = {"default", "max_levels=1", "coarse_enough=1,direct_coarse=0", "coarse_enough=1"};
static const char *ADAPTER[] = {"tuple", "zero_copy"};
static const double TOL = 1e-8;

struct Config { int coars, relax, solver, variant, adapter; bool relax_only = false;
    std::string name() const { return relax_only ? std::string("relaxation-only+") + RELAX[relax] + "+" + SOLV[solver] + "/" + ADAPTER[adapter]
                                                 : std::string(COARS[coars]) + "+" + RELAX[relax] + "+" + SOLV[solver] + "/" + VARIANT[variant] + "/" + ADAPTER[adapter]; } };
struct Inp { Csr<double> A; std::string family; std::vector<double> f; bool degenerate = false; };

//---------------------------------------------------------------------------
// Record stream child -> parent (text lines; fields separated by \x1f)
//---------------------------------------------------------------------------
struct Sink { int fd = -1; std::string *mem = nullptr;
    void put(const std::string &line) { if (mem) { *mem += line; *mem += '\n'; return; } std::string l = line + "\n"; size_t off = 0; while (off < l.size()) { ssize_t w = write(fd, l.data() + off, l.size() - off); if (w <= 0) _exit(97); off += (size_t)w; } }
    static std::string clean(std::string s) { for (auto &ch : s) if (ch == '\n' || ch == '\x1f' || ch == '\r') ch = ' '; if (s.size() > 400) s.resize(400); return s; }
    void start(int k) { put("S\x1f" + std::to_string(k)); }
    void end(int k, long checks) { put("E\x1f" + std::to_string(k) + "\x1f" + std::to_string(checks)); }
    void digest(int k, const std::string &name, uint64_t h) { put("D\x1f" + std::to_string(k) + "\x1f" + name + "\x1f" + vf::hex64(h)); }
    void fail(int k, const std::string &key, const std::string &what) { put("F\x1f" + std::to_string(k) + "\x1f" + clean(key) + "\x1f" + clean(what)); }
    void note(int k, const std::string &what) { put("N\x1f" + std::to_string(k) + "\x1f" + clean(what)); }
};
struct Rec { bool started = false, ended = false; long checks = 0; std::vector<std::pair<std::string, std::string>> dig, fails; std::string note; };

//---------------------------------------------------------------------------
// One run of the real code
//---------------------------------------------------------------------------
template <class Levels> static void digest_levels(Sink &s, int k, const Levels &lv) {
    int l = 0; vf::Digest all;
    for (auto &lvl : lv) { ++l; if (lvl.A) vf::digest_crs(all, *lvl.A); if (lvl.P) vf::digest_crs(all, *lvl.P); if (lvl.R) vf::digest_crs(all, *lvl.R); uint64_t mr = lvl.rows(); all.pod(mr); }
    uint64_t nl = (uint64_t)l; all.pod(nl); s.digest(k, "hierarchy", all.h);
}

static void run_one(const Inp &in, const Config &c, int k, Sink &s) {
    const Csr<double> &A = in.A; size_t n = A.n; long checks = 0;
    ptree p; p.put("solver.type", SOLV[c.solver]); if (std::string(SOLV[c.solver]) != "preonly") { p.put("solver.tol", TOL); p.put("solver.maxiter", 60); }
    if (c.relax_only) p.put("precond.type", RELAX[c.relax]);
    else { p.put("precond.coarsening.type", COARS[c.coars]); p.put("precond.relax.type", RELAX[c.relax]);
        switch (c.variant) { case 1: p.put("precond.max_levels", 1); p.put("precond.coarse_enough", 0); break;
                             case 2: p.put("precond.coarse_enough", 1); p.put("precond.direct_coarse", false); break;
                             case 3: p.put("precond.coarse_enough", 1); break; default: if (!in.degenerate) p.put("precond.coarse_enough", 30); } }
    // harness-owned arrays for the zero-copy adapter
    ptrdiff_t *zp = nullptr, *zc = nullptr; double *zv = nullptr; uint64_t zh = 0;
    if (c.adapter == 1) { zp = new ptrdiff_t[n + 1]; zc = new ptrdiff_t[A.nnz()]; zv = new double[A.nnz()]; std::copy(A.ptr.begin(), A.ptr.end(), zp); std::copy(A.col.begin(), A.col.end(), zc); std::copy(A.val.begin(), A.val.end(), zv);
        vf::Digest d; d.vec(zp, n + 1); d.vec(zc, A.nnz()); d.vec(zv, A.nnz()); zh = d.h; }
    std::vector<double> x(n, 0.0); size_t it = 0; double res = 0; bool returned = false;
    try {
        auto body = [&](auto &S, bool amg_levels) {
            (void)amg_levels; const std::string pc = c.relax_only ? std::string("relaxation:") + RELAX[c.relax] : std::string(COARS[c.coars]) + "+" + RELAX[c.relax];
            NV y0(n); S.precond().apply(in.f, y0); uint64_t h0 = vf::vec_hash(y0); s.digest(k, "precond_apply", h0);          // on the fresh object
            std::tie(it, res) = S(in.f, x); returned = true;
            s.digest(k, "solution", vf::vec_hash(x)); uint64_t itb = it, rb; memcpy(&rb, &res, 8); vf::Digest d; d.pod(itb); d.pod(rb); s.digest(k, "iters+resid", d.h);
            // "regardless of what the process did before": the same calls on the used object give the same bits
            NV y1(n); S.precond().apply(in.f, y1); ++checks;
            if (vf::vec_hash(y1) != h0) s.fail(k, "history-dependent:precond_apply:" + pc, "applying the preconditioner to the same vector before and after a solve gives different results (" + c.name() + ")");
            std::vector<double> x2(n, 0.0); size_t it2; double res2; std::tie(it2, res2) = S(in.f, x2); uint64_t rb2; memcpy(&rb2, &res2, 8); ++checks;
            if (vf::vec_hash(x2) != vf::vec_hash(x) || it2 != it || rb2 != rb) s.fail(k, std::string("history-dependent:solve:") + SOLV[c.solver] + ":" + pc, "solving the same system twice with the same object gives different results (" + c.name() + "): iterations " + std::to_string(it) + " / " + std::to_string(it2));
        };
        if (c.relax_only) {
            if (c.adapter == 1) { auto Az = adapter::zero_copy(n, zp, zc, zv); { RSolver S(Az, p); body(S, false); } }
            else { RSolver S(A.tie(), p); body(S, false); }
        } else {
            if (c.adapter == 1) { auto Az = adapter::zero_copy(n, zp, zc, zv); { Solver S(Az, p); digest_levels(s, k, ACC::levels(S.precond())); body(S, true); } }
            else { Solver S(A.tie(), p); digest_levels(s, k, ACC::levels(S.precond())); body(S, true); }
        }
    } catch (const std::exception &e) { s.digest(k, "exception", vf::hash_str(e.what())); s.note(k, std::string("exception: ") + e.what()); }
      catch (...) { s.fail(k, std::string("non-std-exception:") + (c.relax_only ? RELAX[c.relax] : COARS[c.coars]), "something that is not a std::exception was thrown"); }
    if (c.adapter == 1) {   // the library must neither have written to nor freed the borrowed arrays
        vf::Digest d; d.vec(zp, n + 1); d.vec(zc, A.nnz()); d.vec(zv, A.nnz()); ++checks;
        if (d.h != zh) s.fail(k, "zero_copy:user-arrays-modified", "arrays lent through adapter::zero_copy were written to by the library");
        delete[] zp; delete[] zc; delete[] zv;      // a library-side delete[] makes this a double free (ASan)
    }
    if (returned) {        // failure discipline: a claim of convergence must be true
        bool claims = std::string(SOLV[c.solver]) != "preonly" && std::isfinite(res) && res <= TOL; ++checks;
        if (claims && !in.degenerate) s.note(k, "converged");
        else if (claims) { double tr = vf::true_relres(A, in.f, x);
            // reported residuals may be those of the left-preconditioned system: |r|/|b| <= kappa(M^-1) * reported, and kappa <= kappa(A) <= 20
            // for the (validated) diagonally dominant inputs here; 1e3 leaves room for that and for the recurrence drift of the short recurrences
            s.note(k, "converged"); if (!(std::isfinite(tr) && tr <= 1e3 * TOL)) s.fail(k, std::string("untruthful-convergence:") + SOLV[c.solver], "solver reports convergence to 1e-8 but the true relative residual is " + std::to_string(tr) + " (" + c.name() + ")"); }
        else s.note(k, !std::isfinite(res) ? "non-finite residual reported" : (std::string(SOLV[c.solver]) == "preonly" ? "preonly" : "non-converged residual reported"));
    }
    s.end(k, checks);
}

//---------------------------------------------------------------------------
// A batch of runs under one fill pattern, in a child process (or in-process)
//---------------------------------------------------------------------------
static bool g_fork = true;
struct BatchResult { std::vector<Rec> recs; std::vector<std::pair<int, std::string>> crashes; /* (config index, key) */ std::string crash_text; bool leak = false; std::string leak_text; };

static void parse_records(const std::string &txt, std::vector<Rec> &recs) {
    size_t pos = 0;
    while (pos < txt.size()) { size_t e = txt.find('\n', pos); if (e == std::string::npos) break; std::string ln = txt.substr(pos, e - pos); pos = e + 1;
        std::vector<std::string> f; size_t a = 0; while (true) { size_t b = ln.find('\x1f', a); if (b == std::string::npos) { f.push_back(ln.substr(a)); break; } f.push_back(ln.substr(a, b - a)); a = b + 1; }
        if (f.size() < 2) continue; int k = atoi(f[1].c_str()); if (k < 0 || k >= (int)recs.size()) continue; Rec &r = recs[k];
        if (f[0] == "S") r.started = true; else if (f[0] == "E" && f.size() >= 3) { r.ended = true; r.checks = atol(f[2].c_str()); }
        else if (f[0] == "D" && f.size() >= 4) r.dig.emplace_back(f[2], f[3]); else if (f[0] == "F" && f.size() >= 4) r.fails.emplace_back(f[2], f[3]); else if (f[0] == "N" && f.size() >= 3) r.note = f[2]; }
}

// crash triage from the child's stderr: (kind, first amgcl frame)
static std::string normfunc(std::string fn) {
    std::string o; int depth = 0; for (char ch : fn) { if (ch == '<' || ch == '(') ++depth; else if (ch == '>' || ch == ')') depth = std::max(0, depth - 1); else if (!depth) o += ch; }
    size_t p = o.find("amgcl::"); if (p != std::string::npos) { size_t e = o.find(' ', p); o = o.substr(p, e == std::string::npos ? std::string::npos : e - p); } return o;
}
static std::string first_amgcl_frame(const std::string &txt, size_t from) {
    size_t pos = from; int lines = 0;
    while (pos < txt.size() && lines < 80) { size_t e = txt.find('\n', pos); if (e == std::string::npos) e = txt.size(); std::string ln = txt.substr(pos, e - pos); pos = e + 1; ++lines;
        size_t h = ln.find('#'); size_t in = ln.find(" in "); if (h == std::string::npos || in == std::string::npos) continue;
        std::string fn = ln.substr(in + 4); if (fn.find("amgcl::") != std::string::npos) return normfunc(fn); }
    return "unknown";
}
static std::string triage(const std::string &err, int status) {
    size_t p;
    if ((p = err.find("ERROR: AddressSanitizer: ")) != std::string::npos) { size_t b = p + 25, e = err.find_first_of(" \n", b); return "crash:asan:" + err.substr(b, e - b) + ":" + first_amgcl_frame(err, p); }
    if ((p = err.find("runtime error: ")) != std::string::npos) { size_t ls = err.rfind('\n', p); ls = ls == std::string::npos ? 0 : ls + 1; std::string loc = err.substr(ls, p - ls); size_t a = loc.find("amgcl/"); if (a != std::string::npos) loc = loc.substr(a); size_t c2 = loc.find(':'); if (c2 != std::string::npos) { size_t c3 = loc.find(':', c2 + 1); if (c3 != std::string::npos) loc.resize(c3); }
        size_t e = err.find('\n', p); std::string what = err.substr(p + 15, std::min<size_t>(40, e - p - 15)); for (auto &ch : what) if (ch == ' ') ch = '_'; else if (isdigit((unsigned char)ch)) ch = 'N'; return "crash:ubsan:" + what + ":" + loc; }
    if ((p = err.find("Assertion `")) != std::string::npos) { size_t ls = err.rfind('\n', p); ls = ls == std::string::npos ? 0 : ls + 1; std::string loc = err.substr(ls, p - ls); size_t a = loc.find("amgcl/"); if (a != std::string::npos) loc = loc.substr(a); size_t c2 = loc.find(':'); if (c2 != std::string::npos) { size_t c3 = loc.find(':', c2 + 1); if (c3 != std::string::npos) loc.resize(c3); } return "crash:assert:" + loc; }
    if ((p = err.find("terminate called after throwing an instance of '")) != std::string::npos) { size_t b = p + 48, e = err.find('\'', b); return "crash:terminate:" + err.substr(b, e - b); }
    if (WIFSIGNALED(status)) return "crash:signal:" + std::to_string(WTERMSIG(status));
    return "crash:exit:" + std::to_string(WIFEXITED(status) ? WEXITSTATUS(status) : -1);
}

static std::string slurp(const std::string &path) { std::string s; FILE *f = fopen(path.c_str(), "r"); if (!f) return s; char buf[65536]; size_t r; while ((r = fread(buf, 1, sizeof buf, f)) > 0) { s.append(buf, r); if (s.size() > (4u << 20)) break; } fclose(f); return s; }

static void child_body(const Inp &in, const std::vector<Config> &cfgs, int from, int fill, uint64_t seed, Sink &s) {
    vf::alloc::set_fill(fill, seed); vf::alloc::Churn churn; churn.run(seed ^ 0xabcdef, 100 + (int)(seed % 300));
    for (int k = from; k < (int)cfgs.size(); ++k) { vf::alloc::stack_scribble(vf::alloc::fill_byte(), seed + k); s.start(k); run_one(in, cfgs[k], k, s); }
    churn.release(); vf::alloc::set_fill(vf::alloc::FNATIVE, 1);
}

struct Spawn { bool clean = false; int status = 0; std::string txt, err; };
// run configs [from, to) in a forked child; records are parsed into recs
static Spawn spawn(const Inp &in, const std::vector<Config> &cfgs, int from, int to, int fill, uint64_t seed, std::vector<Rec> &recs) {
    static int serial = 0; Spawn S;
    int pf[2]; if (pipe(pf)) { perror("pipe"); exit(3); }
    std::string errpath = std::string(getenv("VF_OUT") ? getenv("VF_OUT") : "/tmp/c10") + ".child" + std::to_string(getpid()) + "." + std::to_string(serial++) + ".err";
    fflush(nullptr);
    pid_t pid = fork(); if (pid < 0) { perror("fork"); exit(3); }
    if (pid == 0) {
        close(pf[0]); int ef = open(errpath.c_str(), O_WRONLY | O_CREAT | O_TRUNC, 0644); if (ef >= 0) { dup2(ef, 2); dup2(ef, 1); close(ef); }
#if !defined(__SANITIZE_ADDRESS__)
        { struct rlimit rl = {(rlim_t)6 << 30, (rlim_t)6 << 30}; setrlimit(RLIMIT_AS, &rl); }      // a run that asks for absurd amounts of memory gets bad_alloc, the shared machine stays alive
#endif
        Sink s; s.fd = pf[1]; std::vector<Config> part(cfgs.begin(), cfgs.begin() + to); child_body(in, part, from, fill, seed, s);
        int leak = 0;
#if defined(__SANITIZE_ADDRESS__)
        leak = __lsan_do_recoverable_leak_check();
#endif
        s.put(std::string("L\x1f") + std::to_string(leak)); close(pf[1]); _exit(0);
    }
    close(pf[1]); char buf[65536]; ssize_t r; while ((r = read(pf[0], buf, sizeof buf)) > 0) S.txt.append(buf, (size_t)r); close(pf[0]);
    waitpid(pid, &S.status, 0);
    parse_records(S.txt, recs);
    S.clean = WIFEXITED(S.status) && WEXITSTATUS(S.status) == 0;
    S.err = slurp(errpath); unlink(errpath.c_str());
    return S;
}

static BatchResult run_batch(const Inp &in, const std::vector<Config> &cfgs, int fill, uint64_t seed) {
    BatchResult R; const int N = (int)cfgs.size(); R.recs.resize(N);
    if (!g_fork) { std::string mem; Sink s; s.mem = &mem; child_body(in, cfgs, 0, fill, seed, s); parse_records(mem, R.recs); return R; }
    int from = 0;
    while (from < N) {
        Spawn S = spawn(in, cfgs, from, N, fill, seed, R.recs);
        if (S.clean) { if (S.txt.find("L\x1f" "1") != std::string::npos) { R.leak = true; R.leak_text = S.err; } break; }
        // abnormal end: the run in progress is the first started-but-not-ended one at or after `from`
        int bad = -1; for (int k = from; k < N; ++k) if (R.recs[k].started && !R.recs[k].ended) { bad = k; break; }
        if (bad >= 0) { R.crashes.emplace_back(bad, triage(S.err, S.status)); if (R.crash_text.empty()) R.crash_text = S.err.substr(0, 1500); from = bad + 1; continue; }
        // the child died between runs or at its exit (e.g. glibc detecting a corrupted heap in a later free): pin the run down by
        // repeating the finished ones one per child
        int last = -1; for (int k = from; k < N; ++k) if (R.recs[k].ended) last = k;
        if (last < 0) { fprintf(stderr, "c10_heap: child died outside a monitored run (status %d): %s\n", S.status, S.err.substr(0, 2000).c_str()); exit(3); }
        int culprit = -1; std::string cerr = S.err; int cstatus = S.status;
        for (int k = from; k <= last && culprit < 0; ++k) { std::vector<Rec> scratch(N); Spawn T = spawn(in, cfgs, k, k + 1, fill, seed, scratch); if (!T.clean) { culprit = k; cerr = T.err; cstatus = T.status; } }
        if (culprit < 0) culprit = last;
        R.crashes.emplace_back(culprit, triage(cerr, cstatus) + ":after-run"); if (R.crash_text.empty()) R.crash_text = "process died after the run had returned (heap corruption detected later): " + cerr.substr(0, 1400);
        R.recs[culprit].ended = false; from = last + 1;
    }
    return R;
}

//---------------------------------------------------------------------------
// Inputs
//---------------------------------------------------------------------------
// validation of the generators: symmetric, Gershgorin bound on kappa
static void validate_dd(const Inp &in, double kmax) {
    const Csr<double> &A = in.A; double lo = 1e300, hi = 0; Csr<double> T = vf::transpose(A); Csr<double> S = A;
    { std::vector<std::tuple<ptrdiff_t, ptrdiff_t, double>> t; for (size_t i = 0; i < A.n; ++i) for (auto j = A.ptr[i]; j < A.ptr[i + 1]; ++j) t.emplace_back(i, A.col[j], A.val[j]); S = vf::from_triplets<double>(A.n, A.n, t); }
    bool sym = T.ptr == S.ptr && T.col == S.col && T.val == S.val;
    for (size_t i = 0; i < A.n; ++i) { double d = 0, s = 0; for (auto j = A.ptr[i]; j < A.ptr[i + 1]; ++j) if (A.col[j] == (ptrdiff_t)i) d = A.val[j]; else s += std::fabs(A.val[j]); lo = std::min(lo, d - s); hi = std::max(hi, d + s); }
    if (!sym || !(lo > 0) || !(hi / lo <= kmax)) { fprintf(stderr, "c10_heap: internal: generated input '%s' is not symmetric diagonally dominant with kappa bound <= %g (sym=%d lo=%g hi=%g)\n", in.family.c_str(), kmax, (int)sym, lo, hi); exit(3); }
}

static Csr<double> chain(size_t n, std::function<double(size_t)> off, double diag_extra) {   // symmetric tridiagonal, a_{i,i+1} = off(i), diagonal = sum|off| + diag_extra
    Csr<double> A(n, n); for (size_t i = 0; i < n; ++i) { double l = i > 0 ? off(i - 1) : 0, r = i + 1 < n ? off(i) : 0; if (i > 0 && l != 0) A.push(i - 1, l); A.push(i, std::fabs(l) + std::fabs(r) + diag_extra); if (i + 1 < n && r != 0) A.push(i + 1, r); A.end_row(); } return A;
}
static const int NDEGEN = 14;
static Inp degenerate_input(int which, Rng &r) {
    Inp in; in.degenerate = true; size_t big = (size_t)r.range(200, 700);
    switch (which) {
        case 0: in.family = "1x1"; in.A = Csr<double>(1, 1); in.A.push(0, r.uni(0.5, 3)); in.A.end_row(); break;
        case 1: in.family = "2x2-identity"; in.A = chain(2, [](size_t) { return 0.0; }, 1.0); break;
        case 2: in.family = "diagonal"; { size_t n = (size_t)r.range(3, 60); in.A = Csr<double>(n, n); for (size_t i = 0; i < n; ++i) { in.A.push(i, 1.0 + (double)(i % 7)); in.A.end_row(); } } break;
        case 3: in.family = "diagonal-large"; { in.A = Csr<double>(big, big); for (size_t i = 0; i < big; ++i) { in.A.push(i, r.uni(1, 4)); in.A.end_row(); } } break;
        case 4: in.family = "disconnected-blocks"; { size_t n = (size_t)r.range(20, 120); std::vector<char> cut(n); for (auto &c : cut) c = r.coin(0.35); in.A = chain(n, [&](size_t i) { return cut[i] ? 0.0 : -1.0; }, 0.5); } break;
        case 5: in.family = "rows-with-only-positive-offdiagonals"; { size_t n = (size_t)r.range(12, 90); in.A = chain(n, [&](size_t i) { return (i / 2) % 3 == 0 ? 0.4 : -1.0; }, 0.5); } break;
        case 6: in.family = "all-positive-offdiagonals"; { size_t n = (size_t)r.range(10, 80); in.A = chain(n, [](size_t) { return 0.5; }, 1.0); } break;
        case 7: in.family = "smaller-than-coarse_enough"; { size_t n = (size_t)r.range(20, 60); in.A = chain(n, [](size_t) { return -1.0; }, 0.5); } break;
        case 8: in.family = "coarsens-to-nothing(weak couplings)"; { size_t n = (size_t)r.range(20, 80); in.A = chain(n, [](size_t) { return -1e-3; }, 1.0); } break;
        case 9: in.family = "rs-uninitialised-witness-6x6"; in.A = chain(6, [](size_t i) { return (i == 1 || i == 2) ? 0.5 : -1.0; }, 0.5); break;
        case 10: in.family = "small-grid"; { vf::GridSpec g; g.nx = (int)r.range(3, 7); g.ny = (int)r.range(3, 7); g.shift = 1.0; in.A = vf::grid_diffusion(g, r); } break;
        case 11: in.family = "grid-with-isolated-dirichlet-rows"; { vf::GridSpec g; g.nx = (int)r.range(5, 12); g.ny = (int)r.range(5, 12); g.shift = 1.0; Csr<double> G = vf::grid_diffusion(g, r); std::vector<char> iso(G.n); for (auto &c : iso) c = r.coin(0.25);
                   std::vector<std::tuple<ptrdiff_t, ptrdiff_t, double>> t; for (size_t i = 0; i < G.n; ++i) for (auto j = G.ptr[i]; j < G.ptr[i + 1]; ++j) { ptrdiff_t c = G.col[j]; if (c == (ptrdiff_t)i) t.emplace_back(i, c, G.val[j]); else if (!iso[i] && !iso[c]) t.emplace_back(i, c, G.val[j]); } in.A = vf::from_triplets<double>(G.n, G.n, t); } break;
        case 12: in.family = "mixed-sign-chain-large"; in.A = chain(big, [&](size_t i) { return i % 5 == 0 ? 0.3 : (i % 7 == 0 ? 0.0 : -1.0); }, 0.6); break;
        default: in.family = "unsorted-rows-grid"; { vf::GridSpec g; g.nx = (int)r.range(4, 9); g.ny = (int)r.range(4, 9); g.shift = 1.0; in.A = vf::shuffle_rows(vf::grid_diffusion(g, r), r); } break;
    }
    in.f.resize(in.A.n); for (auto &v : in.f) v = r.uni(0.5, 1.5);
    validate_dd(in, 40.0); return in;
}
static Inp regular_input(long idx, Rng &r, int nmax) {
    Inp in; int fam = (int)(idx % 6); int s = std::max(6, (int)std::sqrt((double)r.range(nmax / 3, nmax)));
    switch (fam) {
        case 0: { vf::GridSpec g; g.nx = s; g.ny = s + (int)r.range(0, 3); g.contrast = r.logu(1, 10); g.nine = r.coin(0.3); in.A = vf::grid_diffusion(g, r); in.family = "G1-grid"; break; }
        case 1: { vf::GridSpec g; int q = std::max(3, (int)std::cbrt((double)nmax)); g.nx = q; g.ny = q; g.nz = q; g.aniso = r.logu(0.1, 1); in.A = vf::grid_diffusion(g, r); in.family = "G1-grid3d"; break; }
        case 2: in.A = vf::graph_laplacian((size_t)r.range(nmax / 3, nmax), r.uni(3, 6), r, r.coin(0.3), true); in.family = "G2-graph"; break;
        case 3: in.A = vf::convdiff(s, s, r.logu(0.1, 5), r, false); in.family = "G3-convdiff"; break;
        case 4: in.A = vf::convdiff(s, s, r.logu(0.1, 5), r, true); in.family = "G3-convdiff-structnonsym"; break;
        default: { vf::GridSpec g; g.nx = std::max(4, s / 2); g.ny = std::max(4, s / 2); Csr<double> G = vf::grid_diffusion(g, r); in.A = vf::kron(G, vf::spd_block(2, r), 2); in.family = "G5-kron-block2"; }
    }
    in.f.resize(in.A.n); for (auto &v : in.f) v = r.uni(-1, 1); return in;
}

//---------------------------------------------------------------------------
// A case: the configs of one input under every fill pattern; report
//---------------------------------------------------------------------------
static std::vector<int> g_fills; static bool g_history = true;
static std::string component_of(const Config &c, const std::string &what) {     // which component a differing digest points at
    if (what == "hierarchy" || what == "exception") return std::string("hierarchy:") + (c.relax_only ? "relaxation-only" : COARS[c.coars]);
    if (what == "precond_apply") return std::string("relaxation:") + RELAX[c.relax];
    return std::string("solver:") + SOLV[c.solver];
}
static void run_case(Case &c, const Inp &in, const std::vector<Config> &cfgs, uint64_t seed) {
    std::set<std::string> seen; auto fail_once = [&](const std::string &key, const std::string &what, const J &d) { if (seen.insert(key).second) c.fail(key, what, d); else vf::obs_sum("suppressed_repeat_failures"); };
    std::vector<BatchResult> res;
    std::vector<std::string> pname;
    for (size_t fi = 0; fi < g_fills.size(); ++fi) { res.push_back(run_batch(in, cfgs, g_fills[fi], seed + 1000 * fi)); pname.push_back(vf::alloc::fill_name(g_fills[fi])); }
    if (g_history) {    // a different history: the same runs in reverse order (what the process did before must not matter)
        std::vector<Config> rev(cfgs.rbegin(), cfgs.rend()); BatchResult rr = run_batch(in, rev, g_fills[0], seed + 77777); const int N = (int)cfgs.size();
        std::reverse(rr.recs.begin(), rr.recs.end()); for (auto &cr : rr.crashes) cr.first = N - 1 - cr.first;
        res.push_back(rr); pname.push_back(std::string(vf::alloc::fill_name(g_fills[0])) + "+reversed-order"); }
    long runs = 0, exceptions = 0, nonconv = 0;
    for (size_t fi = 0; fi < res.size(); ++fi) {
        const char *fn = pname[fi].c_str();
        for (auto &cr : res[fi].crashes) { const Config &cf = cfgs[cr.first]; ++c.checks;
            fail_once(cr.second + ":" + (cf.relax_only ? RELAX[cf.relax] : COARS[cf.coars]), "run ended in a signal / sanitizer abort instead of a return or an exception (" + cf.name() + ", heap fill " + fn + "): " + res[fi].crash_text, J().s("config", cf.name()).s("fill", fn)); }
        if (res[fi].leak) { ++c.checks; size_t p = res[fi].leak_text.find("ERROR: LeakSanitizer"); fail_once("crash:lsan:leak:" + first_amgcl_frame(res[fi].leak_text, p == std::string::npos ? 0 : p), "LeakSanitizer: memory allocated during the runs of this case is no longer reachable: " + res[fi].leak_text.substr(0, 1200), J().s("fill", fn)); }
        for (size_t k = 0; k < cfgs.size(); ++k) { const Rec &r = res[fi].recs[k]; c.checks += r.checks + 1; if (r.ended) ++runs;
            if (r.note.compare(0, 10, "exception:") == 0) { ++exceptions; vf::obs_add("exceptions_seen", r.note.substr(11, 60)); } else if (!r.note.empty() && r.note != "preonly" && r.note != "converged") ++nonconv;
            for (auto &f : r.fails) fail_once(f.first, f.second, J().s("config", cfgs[k].name()).s("fill", fn)); }
    }
    // heap-content differential
    long compared = 0;
    for (size_t fi = 1; fi < res.size(); ++fi) for (size_t k = 0; k < cfgs.size(); ++k) {
        const Rec &a = res[0].recs[k], &b = res[fi].recs[k]; if (!a.ended || !b.ended) continue; ++c.checks; ++compared;
        std::string diffw;
        if (a.dig.size() != b.dig.size()) diffw = a.dig.size() && a.dig[0].first == "exception" ? "exception" : (b.dig.size() && b.dig[0].first == "exception" ? "exception" : "hierarchy");
        else for (size_t q = 0; q < a.dig.size(); ++q) if (a.dig[q] != b.dig[q]) { diffw = a.dig[q].first == b.dig[q].first ? a.dig[q].first : "exception"; break; }
        if (!diffw.empty()) fail_once("heap-dependent:" + component_of(cfgs[k], diffw), std::string("result depends on the previous heap contents / allocation history: ") + diffw + " differs between pass " + pname[0] + " and pass " + pname[fi] + " (" + cfgs[k].name() + ")",
                                      J().s("config", cfgs[k].name()).s("fill_a", pname[0]).s("fill_b", pname[fi]).s("differs", diffw));
    }
    vf::obs_sum("runs_completed", (double)runs); vf::obs_sum("runs_ending_in_exception", (double)exceptions); vf::obs_sum("runs_reporting_nonconvergence", (double)nonconv); vf::obs_sum("fill_pairs_compared", (double)compared);
    for (auto &f : pname) vf::obs_add("fill_patterns", f);
    c.nontrivial((long)cfgs.size());
}

static void sub_heapfill() {
    long N = vf::opt_int("inputs", vf::tier(240, 2000)); int nmax = (int)vf::opt_int("nmax", vf::tier(600, 1500)); int per = (int)vf::opt_int("cells", vf::tier(12, 18));
    for (long idx = 0; idx < N; ++idx) {
        if (!vf::selected("heapfill", idx)) continue;
        Rng r(vf::case_seed("heapfill", idx)); Inp in = regular_input(idx, r, nmax);
        std::vector<Config> cfgs;       // every coarsening x relaxation pair is visited in turn (36 pairs), the solver rotates; plus relaxation-only preconditioners
        for (int q = 0; q < per; ++q) { long cell = idx * per + q; Config c; c.coars = (int)(cell % 4); c.relax = (int)((cell / 4) % 9); c.solver = (int)((cell * 5 + cell / 36) % 9); c.variant = (int)((cell / 36) % 4 == 3 ? 2 : 0); c.adapter = (int)((cell / 7) % 2); cfgs.push_back(c); }
        for (int q = 0; q < 2; ++q) { Config c; c.relax_only = true; c.coars = 0; c.relax = (int)((idx * 2 + q) % 9); c.solver = (int)((idx + q) % 9); c.variant = 0; c.adapter = q; cfgs.push_back(c); }
        Case c("heapfill", idx, in.A.desc(in.family).n("configs", cfgs.size()).n("fills", g_fills.size()));
        run_case(c, in, cfgs, r.next());
        vf::sample("heapfill", in.A.desc(in.family).n("configs", cfgs.size()).s("first_config", cfgs[0].name()));
    }
}

// G6 x every coarsening / relaxation / solver cell x level settings x adapters
static void sub_degenerate() {
    long reps = vf::opt_int("rounds", vf::tier(1, 6)); int solver_stride = (int)vf::opt_int("solver_stride", 1); long idx = 0;
    for (long round = 0; round < reps; ++round) for (int which = 0; which < NDEGEN; ++which) for (int co = 0; co < 4; ++co) for (int rl = 0; rl < 9; ++rl, ++idx) {
        if (!vf::selected("degenerate", idx)) continue;
        Rng r(vf::case_seed("degenerate", round * NDEGEN + which)); Inp in = degenerate_input(which, r);     // same matrix for all cells of (round, which)
        std::vector<Config> cfgs;
        for (int so = 0; so < 9; ++so) { if ((so + rl + co + round) % solver_stride != 0) continue;
            for (int v = 0; v < 4; ++v) for (int ad = 0; ad < 2; ++ad) { if (ad == 1 && which == 13) continue;    // the zero-copy constructor requires sorted rows
                Config c; c.coars = co; c.relax = rl; c.solver = so; c.variant = v; c.adapter = ad; cfgs.push_back(c); } }
        if (co == 0) for (int ad = 0; ad < 2; ++ad) { if (ad == 1 && which == 13) continue; Config c; c.relax_only = true; c.coars = 0; c.relax = rl; c.solver = (rl + which) % 9; c.variant = 0; c.adapter = ad; cfgs.push_back(c); }
        Case c("degenerate", idx, in.A.desc(in.family).s("coarsening", COARS[co]).s("relaxation", RELAX[rl]).n("round", round).n("configs", cfgs.size()));
        run_case(c, in, cfgs, r.next() + idx);
        vf::obs_add("degenerate_families", in.family); vf::obs_add("cells_covered", std::string(COARS[co]) + "+" + RELAX[rl]);
        if (co == 0 && rl == 0) vf::sample("degenerate", in.A.desc(in.family).n("configs", cfgs.size()));
    }
}

int main(int argc, char **argv) {
    vf::init(argc, argv);
    g_fork = vf::opt_int("fork", 1) != 0; g_history = vf::opt_int("history", 1) != 0;
    { std::stringstream ss(vf::opt("fills", VF_NEW_REPLACED ? "00,ff,aa,55,rnd" : "native")); std::string t; while (std::getline(ss, t, ',')) { int m = vf::alloc::fill_from_name(t); if (m < 0) { fprintf(stderr, "bad fill %s\n", t.c_str()); return 3; }
        if (!VF_NEW_REPLACED && m != vf::alloc::FNATIVE) { fprintf(stderr, "this binary was built with the native allocator (-DVF_NATIVE_NEW): only --fills=native\n"); return 3; } g_fills.push_back(m); } }
    if (omp_get_max_threads() != 1) { fprintf(stderr, "c10_heap must run single-threaded (property statement; fork safety)\n"); return 3; }
    vf::obs_set("allocator", VF_NEW_REPLACED ? "replaced operator new/delete with fill patterns" : "native (sanitizer / valgrind build)");
    if (vf::sub_enabled("heapfill")) sub_heapfill();
    if (vf::sub_enabled("degenerate")) sub_degenerate();
    return vf::finish();
}
