// C11 -- distributed matrix algebra equals serial algebra for every partition (DESIGN.md 5/C11).
//
// Runs under mpirun.  Every rank generates the same global matrices from the case seed, keeps its
// row slice for a contiguous row / column partition, runs the real amgcl::mpi code, and the results
// are collected on rank 0 (one Gatherv per partition) and compared with references written from the
// mathematical definition (exact for integer-valued data, forward rounding bound otherwise).
// Rank-local oracles (remote_rows, ghost exchange, sortedness, structural monitor) are evaluated on
// the rank that owns the data and shipped to rank 0 as error codes.
#include <amgcl/backend/builtin.hpp>
#include <amgcl/adapter/crs_tuple.hpp>
#include <amgcl/mpi/util.hpp>
#include <amgcl/mpi/distributed_matrix.hpp>
#include <amgcl/mpi/inner_product.hpp>
#include <vf/hooks.hpp>
#include <vf/mpi.hpp>

using namespace amgcl;
using vf::Csr; using vf::J; using vf::Rng; using vf::Case; using vfm::Part; using vfm::Bag;
typedef backend::builtin<double> BD; typedef backend::builtin<float> BF;
typedef mpi::distributed_matrix<BD> DM; typedef mpi::distributed_matrix<BF> DMF;
typedef backend::crs<double> M;
// a second backend type with the same value type: copies between BD and BD2 go through the backend-converting constructor
struct BD2 : backend::builtin<double> {}; typedef mpi::distributed_matrix<BD2> DM2;

static int g_rank = 0, g_size = 1;
static MPI_Comm g_world;

// tags of the bag
enum { T_ERR = 1, T_SCAL, T_A, T_T, T_C, T_S, T_F, T_D2, T_A2, T_Y, T_R, T_YT, T_YC, T_YF, T_SRC, T_CP, T_Y2 };
// ids of rank-local oracles (T_ERR records: i = oracle id, v = error code)
enum { E_A = 1, E_B, E_T, E_C, E_S, E_F, E_D2, E_SORT, E_RROWS, E_RROWS_NV, E_XCHG, E_THROW };
static const char *ename(long id) { static const char *n[] = {"", "ctor", "ctor(B)", "transpose", "product", "sort_rows", "copy_backend", "copy_backend_back", "sort_rows:not-sorted", "remote_rows", "remote_rows_novalues", "comm_pattern:exchange", "exception"}; return n[id]; }
// ids of collective scalars (T_SCAL records: i = scalar id)
enum { S_A_ROWS = 1, S_A_COLS, S_A_NNZ, S_T_ROWS, S_T_COLS, S_T_NNZ, S_C_ROWS, S_C_COLS, S_C_NNZ, S_F_ROWS, S_F_COLS, S_F_NNZ, S_GERSH, S_GERSH_SC, S_POW1, S_POW3, S_POW1_SC, S_DOT, S_DOT2 };
static const char *sname(long id) { static const char *n[] = {"", "glob_rows", "glob_cols", "glob_nonzeros", "transpose:glob_rows", "transpose:glob_cols", "transpose:glob_nonzeros", "product:glob_rows", "product:glob_cols", "product:glob_nonzeros",
    "copy_backend:glob_rows", "copy_backend:glob_cols", "copy_backend:glob_nonzeros", "gershgorin", "gershgorin_scaled", "power1", "power3", "power1_scaled", "inner_product", "inner_product_self"}; return n[id]; }

// dense reference with structure flags and the sum of |terms| (for the forward bound)
struct Ref { long n, m; std::vector<long double> v, acc; std::vector<char> s;
    Ref(long n_, long m_) : n(n_), m(m_), v((size_t)n_ * m_, 0), acc((size_t)n_ * m_, 0), s((size_t)n_ * m_, 0) {}
    void add(long i, long j, long double x) { size_t k = (size_t)i * m + j; v[k] += x; acc[k] += fabsl(x); s[k] = 1; } };
static Ref ref_of(const Csr<double> &A, double scale = 1, bool tr = false, bool to_float = false) {
    Ref D(tr ? A.m : A.n, tr ? A.n : A.m);
    for (size_t i = 0; i < A.n; ++i) for (auto j = A.ptr[i]; j < A.ptr[i + 1]; ++j) { double v = A.val[j] * scale; if (to_float) v = (double)(float)v; tr ? D.add(A.col[j], i, v) : D.add(i, A.col[j], v); }
    return D;
}
static Ref ref_product(const Csr<double> &A, const Csr<double> &B) {
    Ref D(A.n, B.m);
    for (size_t i = 0; i < A.n; ++i) for (auto ja = A.ptr[i]; ja < A.ptr[i + 1]; ++ja) { auto c = A.col[ja]; for (auto jb = B.ptr[c]; jb < B.ptr[c + 1]; ++jb) D.add(i, B.col[jb], (long double)A.val[ja] * B.val[jb]); }
    return D;
}
// rank 0: compare the assembled result with the reference.  exact => equality of values is demanded.
static void cmp_mat(Case &c, const std::string &what, const Bag &bag, int tag, const Ref &D, bool exact, double kfac = 4) {
    vfm::Assembled a = vfm::assemble(bag, tag, D.n, D.m);
    c.check(a.dups == 0, what + ":duplicate-entry", "an entry (i,j) is stored twice (by two ranks, or in the local and the remote part)", J().n("dups", a.dups));
    c.check(a.out_of_range == 0, what + ":index-out-of-range", "gathered entry outside the global matrix", J().n("count", a.out_of_range));
    size_t exp = 0; for (auto s : D.s) exp += s; bool pat = a.e.size() == exp, val = true; double worst = 0;
    for (auto &kv : a.e) { size_t k = (size_t)kv.first.first * D.m + kv.first.second; if (!D.s[k]) { pat = false; continue; }
        long double got = kv.second[0], d = fabsl(got - D.v[k]);
        if (exact) { if (!(got == D.v[k])) val = false; }
        else { long double bound = kfac * 1.2e-16L * D.acc[k]; if (!(d <= bound)) val = false; if (D.acc[k] > 0) worst = std::max(worst, (double)(d / D.acc[k])); } }
    c.check(pat, what + ":pattern", "assembled pattern differs from the serial definition", J().n("entries", a.e.size()).n("expected", exp));
    c.check(val, what + ":value", exact ? "integer-valued result differs from the exact serial value" : "value outside the forward rounding bound");
    if (!exact) vf::obs_max("max_rel_discrepancy_" + what, worst);
}
static void cmp_vec(Case &c, const std::string &what, const Bag &bag, int tag, const std::vector<long double> &ref, const std::vector<long double> &acc, bool exact, double kfac) {
    auto rs = bag.with(tag); std::vector<int> seen(ref.size(), 0); bool ok = rs.size() == ref.size(), val = true; double worst = 0;
    for (auto r : rs) { if (r->i < 0 || r->i >= (long)ref.size() || seen[r->i]++) { ok = false; continue; }
        long double got = r->v[0], d = fabsl(got - ref[r->i]);
        if (exact) { if (!(got == ref[r->i])) val = false; } else { if (!(d <= kfac * 1.2e-16L * acc[r->i])) val = false; if (acc[r->i] > 0) worst = std::max(worst, (double)(d / acc[r->i])); } }
    c.check(ok, what + ":layout", "gathered vector does not cover every global row exactly once", J().n("got", rs.size()).n("expected", ref.size()));
    c.check(val, what + ":value", exact ? "integer-valued result differs from the exact serial value" : "value outside the forward rounding bound");
    if (!exact) vf::obs_max("max_rel_discrepancy_" + what, worst);
}

static std::shared_ptr<DM> make_dm(mpi::communicator comm, const Csr<double> &G, const Part &rp, const Part &cp, bool tuple_ctor = false) {
    Csr<double> S = vfm::slice_rows(G, rp[g_rank], rp[g_rank + 1]);
    ptrdiff_t nc = cp[g_rank + 1] - cp[g_rank];
    if (tuple_ctor) { size_t n = S.n; return std::make_shared<DM>(comm, std::tie(n, S.ptr, S.col, S.val), nc); }
    M loc(S.n, G.m, S.ptr, S.col, S.val);
    return std::make_shared<DM>(comm, loc, nc);
}

// rank-local oracle for remote_rows: row local_index(c) of the returned matrix must be global row c of B
static int check_remote_rows(const DM &A, const DM &Bd, const Csr<double> &H, bool need_values) {
    auto Bn = mpi::remote_rows(A.cpat(), Bd, need_values);
    if (!Bn) return 1; if (Bn->nrows != A.cpat().recv.count()) return 2;
    auto Ar = A.remote(); std::set<ptrdiff_t> cols(Ar->col, Ar->col + Ar->nnz);
    if (cols.size() != Bn->nrows) return 3;
    for (auto c : cols) { int k = A.cpat().local_index(c); if (k < 0 || (size_t)k >= Bn->nrows) return 4;
        std::vector<std::pair<ptrdiff_t, double>> got, ref;
        for (auto j = Bn->ptr[k]; j < Bn->ptr[k + 1]; ++j) got.emplace_back(Bn->col[j], need_values ? Bn->val[j] : 0.0);
        for (auto j = H.ptr[c]; j < H.ptr[c + 1]; ++j) ref.emplace_back(H.col[j], need_values ? H.val[j] : 0.0);
        std::sort(got.begin(), got.end()); std::sort(ref.begin(), ref.end()); if (got != ref) return 5; }
    return 0;
}
// rank-local oracle for the ghost exchange: ship the global ids of the requested columns, the receiver must see column c at local_index(c)
static int check_exchange(const DM &A) {
    const auto &C = A.cpat(); std::vector<double> snd(C.send.count()), rcv(C.recv.count(), -1.0);
    for (size_t i = 0; i < snd.size(); ++i) { if (C.send.col[i] < 0 || C.send.col[i] >= A.loc_cols()) return 1; snd[i] = (double)(C.send.col[i] + A.loc_col_shift()); }
    C.exchange(snd.data(), rcv.data());
    auto Ar = A.remote(); for (size_t j = 0; j < Ar->nnz; ++j) { auto c = Ar->col[j]; int k = C.local_index(c); if (k < 0 || (size_t)k >= rcv.size() || rcv[k] != (double)c) return 2; }
    if (C.recv.nbr.size() + 1 != C.recv.ptr.size() || C.send.nbr.size() + 1 != C.send.ptr.size()) return 3;
    for (size_t i = 0; i < C.recv.nbr.size(); ++i) if (C.recv.nbr[i] == g_rank || C.recv.ptr[i + 1] <= C.recv.ptr[i]) return 4;
    for (size_t i = 0; i < C.send.nbr.size(); ++i) if (C.send.nbr[i] == g_rank || C.send.ptr[i + 1] <= C.send.ptr[i]) return 5;
    return 0;
}

struct Opts { bool exact; bool light; };   // light: skip the copies / float / C-spmv block (exhaustive sub-space)

// One partition of one matrix pair through every operation.  G: n x k, H: k x m.
static void check_all(Case &c, Rng &r, const Csr<double> &G, const Csr<double> &H, const Part &rn, const Part &rk, const Part &rm, const Opts &o) {
    mpi::communicator comm(g_world); Bag bag(g_world);
    const long n = G.n, k = G.m, m = H.m; const int me = g_rank;
    const bool exact = o.exact;
    // everything below that consumes r must be rank-independent
    bool shuffled = r.coin(); Csr<double> Gs = vf::shuffle_rows(G, r), Hs = vf::shuffle_rows(H, r);
    double sc = exact ? (double)r.range(-3, 3) : r.uni(-2, 2); if (r.coin(0.2)) sc = 0.5;
    double alpha = exact ? (double)r.range(-2, 3) : r.uni(-2, 2), beta = r.coin(0.3) ? 0.0 : (exact ? (double)r.range(-2, 2) : r.uni(-2, 2));
    std::vector<double> xk = exact ? vf::random_int_vector(k, r, 4) : vf::random_vector(k, r), yn = exact ? vf::random_int_vector(n, r, 4) : vf::random_vector(n, r);
    std::vector<double> xn = exact ? vf::random_int_vector(n, r, 4) : vf::random_vector(n, r), xm = exact ? vf::random_int_vector(m, r, 4) : vf::random_vector(m, r);
    bool keep = r.coin(), tuple_ctor = r.coin(0.3); double sc2 = (double)(2 + r.range(0, 2)) * (r.coin() ? 1 : -1);
    bool square = (n == k) && (rn == rk); bool fulldiag = square;
    if (square) for (long i = 0; i < n && fulldiag; ++i) { bool has = false; for (auto j = G.ptr[i]; j < G.ptr[i + 1]; ++j) if (G.col[j] == i && G.val[j] != 0) has = true; fulldiag = has; }
    double g0 = 0, g1 = 0, p1 = 0, p3 = 0, p1s = 0, dot = 0, dot2 = 0;
    try {
        auto A = make_dm(comm, shuffled ? Gs : G, rn, rk, tuple_ctor), B = make_dm(comm, shuffled ? Hs : H, rk, rm);
        bag.add(T_ERR, E_A, me, vfm::dm_local_check(*A, rn[me + 1] - rn[me], rk[me + 1] - rk[me], rk[me], k));
        bag.add(T_ERR, E_B, me, vfm::dm_local_check(*B, rk[me + 1] - rk[me], rm[me + 1] - rm[me], rm[me], m));
        bag.add(T_SCAL, S_A_ROWS, me, (double)A->glob_rows()); bag.add(T_SCAL, S_A_COLS, me, (double)A->glob_cols()); bag.add(T_SCAL, S_A_NNZ, me, (double)A->glob_nonzeros());
        vfm::bag_dm(bag, T_A, *A, rn[me]);
        bag.add(T_ERR, E_XCHG, me, check_exchange(*A));
        // transpose
        auto T = mpi::transpose(*A);
        bag.add(T_ERR, E_T, me, vfm::dm_local_check(*T, rk[me + 1] - rk[me], rn[me + 1] - rn[me], rn[me], n));
        bag.add(T_SCAL, S_T_ROWS, me, (double)T->glob_rows()); bag.add(T_SCAL, S_T_COLS, me, (double)T->glob_cols()); bag.add(T_SCAL, S_T_NNZ, me, (double)T->glob_nonzeros());
        vfm::bag_dm(bag, T_T, *T, rk[me]);
        // product
        auto C = mpi::product(*A, *B);
        bag.add(T_ERR, E_C, me, vfm::dm_local_check(*C, rn[me + 1] - rn[me], rm[me + 1] - rm[me], rm[me], m));
        bag.add(T_SCAL, S_C_ROWS, me, (double)C->glob_rows()); bag.add(T_SCAL, S_C_COLS, me, (double)C->glob_cols()); bag.add(T_SCAL, S_C_NNZ, me, (double)C->glob_nonzeros());
        vfm::bag_dm(bag, T_C, *C, rn[me]);
        // remote rows
        bag.add(T_ERR, E_RROWS, me, check_remote_rows(*A, *B, H, true));
        if (!o.light) bag.add(T_ERR, E_RROWS_NV, me, check_remote_rows(*A, *B, H, false));
        // spectral radius estimates
        g0 = backend::spectral_radius<false>(*A, 0); bag.add(T_SCAL, S_GERSH, me, g0);
        if (fulldiag) { g1 = backend::spectral_radius<true>(*A, 0); bag.add(T_SCAL, S_GERSH_SC, me, g1);
            p1 = backend::spectral_radius<false>(*A, 1); bag.add(T_SCAL, S_POW1, me, p1);
            if (!o.light) { p3 = backend::spectral_radius<false>(*A, 3); bag.add(T_SCAL, S_POW3, me, p3); p1s = backend::spectral_radius<true>(*A, 2); bag.add(T_SCAL, S_POW1_SC, me, p1s); } }
        // sort_rows + scale on a second copy built from the shuffled strip
        { auto S = make_dm(comm, Gs, rn, rk); mpi::sort_rows(*S); int e = 0;
          for (auto part : {S->local(), S->remote()}) for (size_t i = 0; i < part->nrows; ++i) for (auto j = part->ptr[i] + 1; j < part->ptr[i + 1]; ++j) if (part->col[j - 1] >= part->col[j]) e = 1;
          bag.add(T_ERR, E_SORT, me, e);
          mpi::scale(*S, sc); bag.add(T_ERR, E_S, me, vfm::dm_local_check(*S, rn[me + 1] - rn[me], rk[me + 1] - rk[me], rk[me], k)); vfm::bag_dm(bag, T_S, *S, rn[me]); }
        // copy between two backend types with the same value type, then in-place operations on the COPY: the source must stay what it was
        // (a deep copy), the copy must be the sorted / scaled matrix
        { auto Src = make_dm(comm, Gs, rn, rk); DM2 Cp(*Src); mpi::sort_rows(Cp); mpi::scale(Cp, sc2); vfm::bag_dm(bag, T_CP, Cp, rn[me]);
          Cp.move_to_backend(); vfm::bag_dm(bag, T_SRC, *Src, rn[me]); }
        // copy between backends (double -> float -> double)
        std::shared_ptr<DMF> F;
        if (!o.light) { F = std::make_shared<DMF>(*A);
            bag.add(T_ERR, E_F, me, vfm::dm_local_check(*F, rn[me + 1] - rn[me], rk[me + 1] - rk[me], rk[me], k));
            bag.add(T_SCAL, S_F_ROWS, me, (double)F->glob_rows()); bag.add(T_SCAL, S_F_COLS, me, (double)F->glob_cols()); bag.add(T_SCAL, S_F_NNZ, me, (double)F->glob_nonzeros());
            vfm::bag_dm(bag, T_F, *F, rn[me]);
            DM D2(*F); bag.add(T_ERR, E_D2, me, vfm::dm_local_check(D2, rn[me + 1] - rn[me], rk[me + 1] - rk[me], rk[me], k)); vfm::bag_dm(bag, T_D2, D2, rn[me]); }
        // matrix-vector product and residual
        A->move_to_backend(BD::params(), keep);
        if (keep) vfm::bag_dm(bag, T_A2, *A, rn[me]);
        size_t nl = rn[me + 1] - rn[me], kl = rk[me + 1] - rk[me], ml = rm[me + 1] - rm[me];
        backend::numa_vector<double> x(kl), y(nl), f(nl), rr(nl);
        for (size_t i = 0; i < kl; ++i) x[i] = xk[rk[me] + i]; for (size_t i = 0; i < nl; ++i) { y[i] = yn[rn[me] + i]; f[i] = yn[rn[me] + i]; rr[i] = 777.0; }
        backend::spmv(alpha, *A, x, beta, y); vfm::bag_vec(bag, T_Y, y, nl, rn[me]);
        backend::residual(f, *A, x, rr); vfm::bag_vec(bag, T_R, rr, nl, rn[me]);
        { T->move_to_backend(); backend::numa_vector<double> xt(nl), yt(kl); for (size_t i = 0; i < nl; ++i) xt[i] = xn[rn[me] + i]; for (size_t i = 0; i < kl; ++i) yt[i] = -555.0;
          backend::spmv(1.0, *T, xt, 0.0, yt); vfm::bag_vec(bag, T_YT, yt, kl, rk[me]); }
        if (!o.light) { C->move_to_backend(); backend::numa_vector<double> xc(ml), yc(nl); for (size_t i = 0; i < ml; ++i) xc[i] = xm[rm[me] + i]; for (size_t i = 0; i < nl; ++i) yc[i] = 0;
          backend::spmv(1.0, *C, xc, 0.0, yc); vfm::bag_vec(bag, T_YC, yc, nl, rn[me]); }
        if (F && exact) { F->move_to_backend(); backend::numa_vector<float> xf(kl), yf(nl); for (size_t i = 0; i < kl; ++i) xf[i] = (float)xk[rk[me] + i]; for (size_t i = 0; i < nl; ++i) yf[i] = 0;
          backend::spmv(1.0f, *F, xf, 0.0f, yf); vfm::bag_vec(bag, T_YF, yf, nl, rn[me]); }
        // inner products (vectors distributed like the rows of A)
        { mpi::inner_product ip(comm); backend::numa_vector<double> u(nl), v(nl); for (size_t i = 0; i < nl; ++i) { u[i] = xn[rn[me] + i]; v[i] = yn[rn[me] + i]; }
          dot = ip(u, v); dot2 = ip(u, u); bag.add(T_SCAL, S_DOT, me, dot); bag.add(T_SCAL, S_DOT2, me, dot2); }
        bag.add(T_ERR, E_THROW, me, 0);
    } catch (const std::exception &e) {
        // an exception on one rank only would dead-lock the others in the next collective; on valid input it is a violation anyway
        c.fail("exception:distributed_matrix", e.what()); bag.add(T_ERR, E_THROW, me, 1);
    }
    bag.collect();
    if (me != 0) return;
    //------------------------------------------------------------------ rank 0: oracles
    for (auto rec : bag.with(T_ERR)) { long id = rec->i; int code = (int)rec->v[0];
        bool structural = id == E_A || id == E_B || id == E_T || id == E_C || id == E_S || id == E_F || id == E_D2;
        c.check(code == 0, std::string(ename(id)) + (structural ? std::string(":malformed:") + vfm::dm_err(code) : std::string(":rank-local")), "rank-local oracle failed", J().n("rank", rec->j).n("code", code)); }
    c.check(bag.with(T_ERR).size() > 0, "harness:nothing-collected", "no record arrived on rank 0");
    // serial scalars
    double gref = 0, gsref = 0; long double dref = 0, dacc = 0, d2ref = 0;
    for (long i = 0; i < n; ++i) { long double s = 0, d = 0; for (auto j = G.ptr[i]; j < G.ptr[i + 1]; ++j) { s += fabsl(G.val[j]); if (G.col[j] == i) d = G.val[j]; } gref = std::max(gref, (double)s); if (fulldiag) gsref = std::max(gsref, (double)(s / fabsl(d))); }
    for (long i = 0; i < n; ++i) { dref += (long double)xn[i] * yn[i]; dacc += fabsl((long double)xn[i] * yn[i]); d2ref += (long double)xn[i] * xn[i]; }
    M Gm(G.n, G.m, G.ptr, G.col, G.val); double gser = backend::spectral_radius<false>(Gm, 0), gsser = fulldiag ? backend::spectral_radius<true>(Gm, 0) : 0;
    std::map<long, std::vector<double>> sc_by_id; for (auto rec : bag.with(T_SCAL)) sc_by_id[rec->i].push_back(rec->v[0]);
    Ref RC = ref_product(G, H); size_t cnnz = 0; for (auto s : RC.s) cnnz += s;
    for (auto &kv : sc_by_id) { long id = kv.first; auto &v = kv.second; std::string nm = sname(id);
        c.check((int)v.size() == g_size && vfm::all_identical(v), nm + ":rank-dependent", "collective scalar differs between ranks", J().arr("values", v));
        double expect = 0; bool have = true, tol = false;
        switch (id) { case S_A_ROWS: case S_F_ROWS: expect = n; break; case S_A_COLS: case S_F_COLS: expect = k; break; case S_A_NNZ: case S_F_NNZ: case S_T_NNZ: expect = G.nnz(); break;
            case S_T_ROWS: expect = k; break; case S_T_COLS: expect = n; break; case S_C_ROWS: expect = n; break; case S_C_COLS: expect = m; break; case S_C_NNZ: expect = cnnz; break;
            case S_GERSH: expect = gref; tol = !exact; break; case S_GERSH_SC: expect = gsref; tol = true; break;
            case S_DOT: expect = (double)dref; tol = !exact; break; case S_DOT2: expect = (double)d2ref; tol = !exact; break; default: have = false; }
        if (have) for (double x : v) {
            if (!tol) c.check(x == expect, nm + ":value", "collective scalar differs from the serial value", J().n("got", x).n("serial", expect));
            else { double bound = (id == S_DOT || id == S_DOT2) ? (n + 2) * 1.2e-16 * (double)(id == S_DOT ? dacc : d2ref) : 1e-13 * expect; c.check(std::isfinite(x) && std::fabs(x - expect) <= bound, nm + ":value", "collective scalar outside the rounding bound of the serial value", J().n("got", x).n("serial", expect)); }
            if (id == S_GERSH && exact) c.check(x == gser, nm + ":vs-serial-kernel", "differs from backend::spectral_radius on the assembled matrix", J().n("got", x).n("serial", gser));
            if (id == S_GERSH_SC && exact) c.check(x == gsser, nm + ":vs-serial-kernel", "differs from backend::spectral_radius<true> on the assembled matrix", J().n("got", x).n("serial", gsser));
        } else for (double x : v) {
            // The property only asks the power-method estimate to be identical on all ranks (checked above, bit for bit).  A first
            // version also demanded a finite value; that is more than the property states and fires on a degenerate input: every rank
            // seeds its generator identically, so with one row per rank the start vector is constant and A*b0 = 0 exactly for a
            // matrix with zero row sums (2 x 2, rows 1+0+1) -> 0/0 -> NaN on every rank.  Recorded as an observation only.
            if (!(std::isfinite(x) && x >= 0)) vf::obs_sum("power_estimates_not_finite"); else vf::obs_sum("power_estimates_finite"); }
    }
    // matrices
    cmp_mat(c, "ctor", bag, T_A, ref_of(G), true);
    cmp_mat(c, "transpose", bag, T_T, ref_of(G, 1, true), true);
    cmp_mat(c, "product", bag, T_C, RC, exact, 2.0 * (k + 2));
    cmp_mat(c, "copy_same_value_type:source-after-inplace-ops-on-copy", bag, T_SRC, ref_of(G), true); cmp_mat(c, "copy_same_value_type:copy", bag, T_CP, ref_of(G, sc2), true);
    cmp_mat(c, "scale", bag, T_S, ref_of(G, sc), true);          // one rounding, the same one in the reference
    if (!o.light) { cmp_mat(c, "copy_backend", bag, T_F, ref_of(G, 1, false, true), true); cmp_mat(c, "copy_backend_back", bag, T_D2, ref_of(G, 1, false, true), true); }
    if (keep) cmp_mat(c, "move_to_backend_keep_src", bag, T_A2, ref_of(G), true);
    // vectors
    { std::vector<long double> ry(n), ay(n), rres(n), ares(n);
      for (long i = 0; i < n; ++i) { long double s = 0, a = 0; for (auto j = G.ptr[i]; j < G.ptr[i + 1]; ++j) { s += (long double)G.val[j] * xk[G.col[j]]; a += fabsl((long double)G.val[j] * xk[G.col[j]]); }
          ry[i] = alpha * s + (long double)beta * yn[i]; ay[i] = fabsl(alpha) * a + fabsl((long double)beta * yn[i]); rres[i] = yn[i] - s; ares[i] = fabsl(yn[i]) + a; }
      cmp_vec(c, "spmv", bag, T_Y, ry, ay, exact, 2.0 * (k + 4)); cmp_vec(c, "residual", bag, T_R, rres, ares, exact, 2.0 * (k + 4)); }
    { std::vector<long double> rt(k, 0), at(k, 0); for (long i = 0; i < n; ++i) for (auto j = G.ptr[i]; j < G.ptr[i + 1]; ++j) { rt[G.col[j]] += (long double)G.val[j] * xn[i]; at[G.col[j]] += fabsl((long double)G.val[j] * xn[i]); }
      cmp_vec(c, "spmv_transposed", bag, T_YT, rt, at, exact, 2.0 * (n + 4)); }
    if (!o.light) { std::vector<long double> rc(n, 0), ac(n, 0); for (long i = 0; i < n; ++i) for (long j = 0; j < m; ++j) { size_t q = (size_t)i * m + j; if (RC.s[q]) { rc[i] += RC.v[q] * xm[j]; ac[i] += RC.acc[q] * fabsl(xm[j]); } }
      cmp_vec(c, "spmv_product", bag, T_YC, rc, ac, exact, 4.0 * (k + m + 4)); }
    if (!o.light && exact) { std::vector<long double> ry(n), ay(n); for (long i = 0; i < n; ++i) { long double s = 0; for (auto j = G.ptr[i]; j < G.ptr[i + 1]; ++j) s += (long double)G.val[j] * xk[G.col[j]]; ry[i] = s; ay[i] = 0; }
      cmp_vec(c, "spmv_float_copy", bag, T_YF, ry, ay, true, 0); }
    vf::obs_sum("partitions_checked"); if (fulldiag) vf::obs_sum("square_consistent_partitions");
}

static Csr<double> gen(size_t n, size_t m, double dens, bool exact, Rng &r, bool diag) {
    Csr<double> A = exact ? vf::random_int_sparse(n, m, dens, 5, r) : vf::random_real_sparse(n, m, dens, r);
    if (diag) { std::vector<std::tuple<ptrdiff_t, ptrdiff_t, double>> t; for (size_t i = 0; i < A.n; ++i) for (auto j = A.ptr[i]; j < A.ptr[i + 1]; ++j) if ((size_t)A.col[j] != i) t.emplace_back(i, A.col[j], A.val[j]);
        for (size_t i = 0; i < std::min(n, m); ++i) t.emplace_back(i, i, exact ? (double)(r.range(1, 6) * (r.coin() ? 1 : -1)) : r.uni(0.5, 3) * (r.coin() ? 1 : -1)); A = vf::from_triplets<double>(n, m, t); }
    return A;
}

//---------------------------------------------------------------------------
// exhaustive: all pairs (row partition, column partition) for global sizes 1..Nmax on <= 4 ranks
static void sub_exhaustive() {
    if (g_size > 4) return;
    const int full = (int)vf::opt_int("exh_full", vf::tier(4, 6)), nmax = 6;     // sizes <= full: every pair; above: strided sample of pairs
    const long stride = vf::opt_int("exh_stride", 7);
    long idx = 0; long npairs = 0;
    for (int n = 1; n <= nmax; ++n) for (int k = 1; k <= nmax; ++k) {
        std::vector<Part> pn = vfm::all_parts(n, g_size), pk = vfm::all_parts(k, g_size);
        for (size_t a = 0; a < pn.size(); ++a, ++idx) {
            if (!vf::selected("exhaustive", idx)) continue;
            bool sampled = std::max(n, k) > full;
            Rng r(vf::case_seed("exhaustive", idx)); vfm::seed_delays(vf::case_seed("exhaustive", idx), g_rank);
            Case c("exhaustive", idx, J().n("ranks", g_size).n("n", n).n("k", k).s("row_part", vfm::part_str(pn[a])).n("col_parts", pk.size()).bl("sampled", sampled));
            for (size_t b = 0; b < pk.size(); ++b) {
                if (sampled && ((a * 131 + b + idx) % stride) != 0) continue;
                double dens = r.pick(std::vector<double>{0.35, 0.7, 1.0});
                bool diag = (n == k) && r.coin(0.7);
                Csr<double> G = gen(n, k, dens, true, r, diag), H = gen(k, n, dens, true, r, false);
                check_all(c, r, G, H, pn[a], pk[b], pn[a], Opts{true, true});
                if (G.nnz()) c.nontrivial(); ++npairs;
            }
        }
    }
    vf::obs_sum("exhaustive_partition_pairs", (double)npairs);
    vf::obs_set("exhaustive_space", "every (row partition, column partition) pair of an n x k matrix, n,k <= " + std::to_string(full) + " (strided sample up to 6), ranks <= 4");
}

//---------------------------------------------------------------------------
// Large-interface cases: ONE neighbour requests >= 1500 rows from one rank, so that the per-neighbour messages of remote_rows / product
// (row widths, columns, values) exceed the eager limit of the transport (4 KiB on the shared-memory BTL) and are delivered by the
// rendezvous path, i.e. read from the sender's buffer after MPI_Isend has returned.  Two ranks (a, b) own `big` rows each and every row of
// one couples to a distinct row of the other; the remaining ranks own a handful of rows.  Integer data, exact oracles; the matrices are far too
// large for the dense references of check_all, so remote_rows is checked rank-locally against the global B and the product against a sparse
// exact reference.
static void check_large(Case &c, Rng &r, int ra, int rb, long big, bool oneway) {
    mpi::communicator comm(g_world); Bag bag(g_world); const int me = g_rank;
    Part rn(g_size + 1, 0); for (int q = 0; q < g_size; ++q) rn[q + 1] = rn[q] + ((q == ra || q == rb) ? big : r.range(0, 12)); const long N = rn[g_size];
    std::vector<ptrdiff_t> pa(big), pb(big); for (long t = 0; t < big; ++t) pa[t] = pb[t] = t; r.shuffle(pa); r.shuffle(pb);
    auto ival = [&]() { double v = (double)r.range(1, 5); return r.coin() ? v : -v; };
    std::vector<std::tuple<ptrdiff_t, ptrdiff_t, double>> ta, tb;
    for (long i = 0; i < N; ++i) { int owner = 0; while (i >= rn[owner + 1]) ++owner;
        // one-way: only rank a needs values of rank b; every other row couples to columns of its own rank only, so rank b SENDS ghost values but receives none
        if (owner == ra) ta.emplace_back(i, rn[rb] + pa[i - rn[ra]], ival()); else if (owner == rb && !oneway) ta.emplace_back(i, rn[ra] + pb[i - rn[rb]], ival());
        if (r.coin(0.5)) ta.emplace_back(i, i, ival()); if (r.coin(0.3)) ta.emplace_back(i, oneway ? r.range(rn[owner], rn[owner + 1] - 1) : r.range(0, N - 1), ival()); }
    std::vector<double> x1 = vf::random_int_vector(N, r, 4), x2 = vf::random_int_vector(N, r, 4); long sleep_us = r.range(50000, 200000);
    long m = r.range(20, 60); for (long i = 0; i < N; ++i) { int w = (int)r.range(1, 3); for (int q = 0; q < w; ++q) tb.emplace_back(i, r.range(0, m - 1), ival()); }
    Csr<double> G = vf::from_triplets<double>(N, N, ta), H = vf::from_triplets<double>(N, m, tb); Part rm = vfm::random_part(m, g_size, r);
    try {
        auto A = make_dm(comm, G, rn, rn), B = make_dm(comm, H, rn, rm);
        long req = 0; for (size_t i = 0; i < A->cpat().recv.nbr.size(); ++i) req = std::max<long>(req, A->cpat().recv.ptr[i + 1] - A->cpat().recv.ptr[i]);
        bag.add(T_SCAL, 1, me, (double)req);
        bag.add(T_ERR, E_A, me, vfm::dm_local_check(*A, rn[me + 1] - rn[me], rn[me + 1] - rn[me], rn[me], N));
        bag.add(T_ERR, E_RROWS, me, check_remote_rows(*A, *B, H, true)); bag.add(T_ERR, E_RROWS_NV, me, check_remote_rows(*A, *B, H, false));
        auto C = mpi::product(*A, *B);
        bag.add(T_ERR, E_C, me, vfm::dm_local_check(*C, rn[me + 1] - rn[me], rm[me + 1] - rm[me], rm[me], m)); vfm::bag_dm(bag, T_C, *C, rn[me]);
        { // two matrix-vector products in a row with different input vectors, no synchronisation in between; in the one-way case the receiving rank
          // enters the first exchange late (one-shot sleep in the mpi.start_exchange hook), so the sender is already in the second product by then
          auto A2 = make_dm(comm, G, rn, rn); A2->move_to_backend(); size_t nl = rn[me + 1] - rn[me]; backend::numa_vector<double> u1(nl), u2(nl), y1(nl), y2(nl);
          for (size_t i = 0; i < nl; ++i) { u1[i] = x1[rn[me] + i]; u2[i] = x2[rn[me] + i]; y1[i] = 0; y2[i] = 0; }
          if (oneway && me == ra && amgcl::verif::point_hook) vfm::delay_state().oneshot_us = sleep_us;
          backend::spmv(1.0, *A2, u1, 0.0, y1); backend::spmv(1.0, *A2, u2, 0.0, y2);
          vfm::delay_state().oneshot_us = 0; vfm::bag_vec(bag, T_Y, y1, nl, rn[me]); vfm::bag_vec(bag, T_Y2, y2, nl, rn[me]); }
        auto T = mpi::transpose(*A); bag.add(T_ERR, E_T, me, vfm::dm_local_check(*T, rn[me + 1] - rn[me], rn[me + 1] - rn[me], rn[me], N)); vfm::bag_dm(bag, T_T, *T, rn[me]);
        bag.add(T_ERR, E_THROW, me, 0);
    } catch (const std::exception &e) { c.fail("exception:distributed_matrix", e.what()); bag.add(T_ERR, E_THROW, me, 1); }
    bag.collect(); if (me) return;
    for (auto rec : bag.with(T_ERR)) { long id = rec->i; int code = (int)rec->v[0]; bool structural = id == E_A || id == E_C || id == E_T;
        c.check(code == 0, std::string(ename(id)) + (structural ? std::string(":malformed:") + vfm::dm_err(code) : std::string(":rank-local")), "rank-local oracle failed (large interface)", J().n("rank", rec->j).n("code", code)); }
    long maxreq = 0; for (auto rec : bag.with(T_SCAL)) maxreq = std::max<long>(maxreq, (long)rec->v[0]);
    c.check(maxreq >= 1500, "harness:large-interface-too-small", "no neighbour requests 1500 rows", J().n("max_rows_requested", maxreq)); vf::obs_max("max_rows_requested_by_one_neighbour", (double)maxreq);
    // exact sparse references
    std::map<std::pair<long, long>, long double> rc, rt;
    for (long i = 0; i < N; ++i) for (auto ja = G.ptr[i]; ja < G.ptr[i + 1]; ++ja) { rt[{(long)G.col[ja], i}] = G.val[ja]; auto k = G.col[ja]; for (auto jb = H.ptr[k]; jb < H.ptr[k + 1]; ++jb) rc[{i, (long)H.col[jb]}] += (long double)G.val[ja] * H.val[jb]; }
    auto cmp = [&](const std::string &what, int tag, long rows, long cols, const std::map<std::pair<long, long>, long double> &ref) { vfm::Assembled a = vfm::assemble(bag, tag, rows, cols);
        c.check(a.dups == 0 && a.out_of_range == 0, what + ":duplicate-entry", "duplicate or out-of-range entries in the gathered result (large interface)", J().n("dups", a.dups).n("range", a.out_of_range));
        bool pat = a.e.size() == ref.size(), val = true; for (auto &kv : a.e) { auto it = ref.find(kv.first); if (it == ref.end()) { pat = false; continue; } if (!((long double)kv.second[0] == it->second)) val = false; }
        c.check(pat, what + ":pattern", "assembled pattern differs from the serial definition (large interface)", J().n("entries", a.e.size()).n("expected", ref.size()));
        c.check(val, what + ":value", "integer-valued result differs from the exact serial value (large interface)"); };
    cmp("product", T_C, N, m, rc); cmp("transpose", T_T, N, N, rt);
    for (int which = 0; which < 2; ++which) { const std::vector<double> &xx = which ? x2 : x1; std::vector<long double> ry(N, 0), ay(N, 0); for (long i = 0; i < N; ++i) for (auto j = G.ptr[i]; j < G.ptr[i + 1]; ++j) ry[i] += (long double)G.val[j] * xx[G.col[j]];
        cmp_vec(c, which ? "spmv_second_of_two" : "spmv_first_of_two", bag, which ? T_Y2 : T_Y, ry, ay, true, 0); }
    if (oneway) vf::obs_sum("one_way_large_interface_cases");
    vf::obs_sum("large_interface_cases");
}

static void sub_random() {
    long N = vf::tier(80, 500);
    for (long idx = 0; idx < N; ++idx) {
        if (!vf::selected("random", idx)) continue;
        Rng r(vf::case_seed("random", idx)); vfm::seed_delays(vf::case_seed("random", idx), g_rank);
        bool small = idx % 4 == 0; size_t hi = small ? 8 : 60;
        size_t n = r.range(1, hi), k = r.range(1, hi), m = r.range(1, hi); bool sq = r.coin(0.4); if (sq) k = n;
        double dens = r.pick(std::vector<double>{0.03, 0.1, 0.3, 0.7}); bool exact = r.coin(0.6);
        Csr<double> G = gen(n, k, dens, exact, r, sq && r.coin(0.8)), H = gen(k, m, dens, exact, r, false);
        Part rn = vfm::random_part(n, g_size, r), rk = sq && r.coin(0.8) ? rn : vfm::random_part(k, g_size, r), rm = vfm::random_part(m, g_size, r);
        Case c("random", idx, J().n("ranks", g_size).n("n", n).n("k", k).n("m", m).n("dens", dens).bl("exact", exact).s("rows", vfm::part_str(rn)).s("inner", vfm::part_str(rk)).s("cols", vfm::part_str(rm)));
        check_all(c, r, G, H, rn, rk, rm, Opts{exact, false});
        if (G.nnz() && H.nnz()) c.nontrivial();
        int empties = 0; for (int q = 0; q < g_size; ++q) if (rn[q + 1] == rn[q]) ++empties; if (empties) vf::obs_sum("cases_with_empty_ranks");
        vf::sample("random_r" + std::to_string(g_size), J().n("ranks", g_size).n("n", n).n("k", k).n("m", m).n("nnzA", G.nnz()).bl("exact", exact).s("rows", vfm::part_str(rn)).s("inner", vfm::part_str(rk)), 1);
    }
    // large-interface cases (>= 2 ranks), same sub-check, indices N, N+1, ...
    long L = g_size > 1 ? vf::opt_int("large_cases", vf::tier(4, 12)) : 0;
    for (long idx = N; idx < N + L; ++idx) {
        if (!vf::selected("random", idx)) continue;
        Rng r(vf::case_seed("random", idx)); vfm::seed_delays(vf::case_seed("random", idx), g_rank);
        int ra = (int)r.range(0, g_size - 1), rb = (int)r.range(0, g_size - 2); if (rb >= ra) ++rb; long big = r.range(1500, 2600);
        bool oneway = (idx - N) % 2 == 1;
        Case c("random", idx, J().n("ranks", g_size).s("family", oneway ? "large-interface-one-way" : "large-interface").n("rows_per_big_rank", big).n("rank_a", ra).n("rank_b", rb).bl("exact", true));
        check_large(c, r, ra, rb, big, oneway); c.nontrivial();
    }
}

int main(int argc, char **argv) {
    mpi::init mpi_guard(&argc, &argv);
    vf::init(argc, argv);
    g_world = MPI_COMM_WORLD; MPI_Comm_rank(g_world, &g_rank); MPI_Comm_size(g_world, &g_size);
    if (g_rank != vf::ctx().rank) { fprintf(stderr, "rank mismatch between MPI and the environment\n"); return 3; }
    if (vf::opt_int("delays", 1)) vfm::install_delay_hook();
    vf::obs_add("rank_counts_seen", std::to_string(g_size));
    if (vf::sub_enabled("exhaustive")) sub_exhaustive();
    if (vf::sub_enabled("random")) sub_random();
    if (g_rank == 0) { vf::obs_sum("delay_hook_calls", (double)vfm::delay_state().calls); vf::obs_sum("delays_injected", (double)vfm::delay_state().slept); }
    return vf::finish();
}
