// C12 -- distributed solve is truthful and rank-consistent (DESIGN.md 5/C12), block-valued and composite part.
//
// sub-checks
//   block   mpi::make_solver with 2x2 block values (builtin<static_matrix<double,2,2>>) over the runtime components,
//           system A (x) C with A an SPD M-matrix (G1/G2) and C a 2x2 SPD block; oracles as in "solve": termination,
//           rank-consistent (iters,res), true residual of the gathered solution in the scalar system, convergence,
//           recorded hierarchy (R = P^T, A_c = s R A P on the scalar expansions).
//   sdd     mpi::subdomain_deflation< runtime local preconditioner, runtime solver, runtime direct solver >.
//   bp      mpi::make_solver< mpi::block_preconditioner< runtime local preconditioner >, runtime solver >.
//   direct  mpi::direct::skyline_lu< 2x2 block > alone against a dense solve of the scalar expansion.
#define AMGCL_HAVE_EIGEN
#include "c12_common.hpp"
#include <amgcl/value_type/static_matrix.hpp>
#include <amgcl/adapter/block_matrix.hpp>
#include <amgcl/mpi/amg.hpp>
#include <amgcl/mpi/coarsening/runtime.hpp>
#include <amgcl/mpi/relaxation/runtime.hpp>
#include <amgcl/mpi/solver/runtime.hpp>
#include <amgcl/mpi/direct_solver/runtime.hpp>
#include <amgcl/mpi/partition/runtime.hpp>
#include <amgcl/mpi/subdomain_deflation.hpp>
#include <amgcl/mpi/block_preconditioner.hpp>
#include <amgcl/preconditioner/runtime.hpp>
#include <Eigen/LU>

using namespace amgcl;
using namespace c12;
typedef static_matrix<double, 2, 2> BV; typedef static_matrix<double, 2, 1> BR;
typedef backend::builtin<BV> BB; typedef backend::builtin<double> B;

typedef runtime::mpi::coarsening::wrapper<BB> RtCB;
typedef mpi::amg<BB, Rec<RtCB, BB>, runtime::mpi::relaxation::wrapper<BB>, runtime::mpi::direct::solver<BV>, runtime::mpi::partition::wrapper<BB>> BAMG;
typedef mpi::make_solver<BAMG, runtime::mpi::solver::wrapper<BB>> BSolver;

static const char *COARS[] = {"aggregation", "smoothed_aggregation"};
static const char *RELAX[] = {"spai0", "damped_jacobi", "gauss_seidel", "ilu0", "iluk", "ilup", "ilut", "chebyshev"};   // spai1 is not offered for block values (relaxation_is_supported)
static const char *SOLV[] = {"cg", "bicgstab", "bicgstabl", "gmres", "lgmres", "fgmres", "idrs", "richardson"};
static const char *DIRECT[] = {"skyline_lu", "eigen_splu"};

//---------------------------------------------------------------------------
static void sub_block() {
    World &w = world(); mpi::communicator comm(w.comm); const int NC = 2 * 8 * 8 * 2;
    long N = vf::opt_int("block_solves", vf::tier(24, 96)); long offset = (long)(w.size * 53 + vf::ctx().seed * 31);
    for (long idx = 0; idx < N; ++idx) {
        if (!vf::selected("block", idx)) continue;
        uint64_t cs = vf::case_seed("block", idx * 16 + w.size); Rng r(cs); vfm::seed_delays(cs, w.rank);
        long cell = (offset + idx * 79) % NC;
        std::string co = COARS[cell % 2], rl = RELAX[(cell / 2) % 8], sv = SOLV[(cell / 16) % 8]; bool repart = (cell / 128) % 2;
        Problem p = make_problem(r, 200, (int)vf::tier(500, 800));
        std::vector<double> Cb = r.coin(0.3) ? vf::identity_block(2) : vf::spd_block(2, r); Csr<double> K = vf::kron(p.A, Cb, 2);
        // A (x) C with missing zero entries restored: block rows need all four scalars only where the block adapter reads them; kron drops exact zeros, the adapter treats them as zeros
        long nb = p.A.n; Part rp = vfm::random_part(nb, w.size, r);
        std::vector<double> F = vf::random_vector(2 * nb, r), X0(2 * nb, 0.0);
        bool budget = r.coin(0.2); size_t maxiter = budget ? (size_t)r.range(3, 9) : (sv == "richardson" ? 1000 : 300); double tol = 1e-8;
        ptree prm; prm.put("precond.coarsening.type", co); prm.put("precond.relax.type", rl); prm.put("precond.direct.type", "skyline_lu"); prm.put("precond.repart.type", "merge");
        unsigned coarse_enough = (unsigned)r.range(15, 80); prm.put("precond.coarse_enough", coarse_enough);
        if (repart) { prm.put("precond.repart.enable", true); prm.put("precond.repart.min_per_proc", r.range(20, 300)); prm.put("precond.repart.shrink_ratio", r.range(2, 4)); }
        prm.put("solver.type", sv); prm.put("solver.maxiter", maxiter); prm.put("solver.tol", tol);
        std::string cellname = co + ":" + rl + ":" + sv; std::string tag = cellname + (w.size > 1 ? ":np>1" : ":np=1");
        Case c("block", idx, J().n("ranks", w.size).s("coarsening", co).s("relax", rl).s("solver", sv).s("direct", "skyline_lu").bl("repart", repart).s("family", p.family + "(x)2x2").n("n", 2 * nb).s("rows", vfm::part_str(rp)).bl("budget_limited", budget).n("coarse_enough", coarse_enough));
        Csr<double> S = vfm::slice_rows(K, 2 * rp[w.rank], 2 * rp[w.rank + 1]); size_t nloc = S.n, nlb = nloc / 2;
        std::vector<BR> f(nlb), x(nlb); for (size_t i = 0; i < nlb; ++i) for (int q = 0; q < 2; ++q) { f[i](q) = F[2 * (rp[w.rank] + i) + q]; x[i](q) = 0; }
        SolveOut o; std::unique_ptr<BSolver> slv; g_rec.lv.clear(); g_rec.on = true;
        try { auto strip = std::tie(nloc, S.ptr, S.col, S.val); auto Ab = adapter::block_matrix<BV>(strip); slv.reset(new BSolver(comm, Ab, prm)); g_rec.on = false; std::tie(o.iters, o.res) = (*slv)(f, x); }
        catch (const std::exception &e) { g_rec.on = false; o.threw = true; o.what = e.what(); c.fail("exception:" + tag, e.what()); }
        bool same = check_rank_consistent(c, tag, o);
        int t = o.threw, gt = 0; MPI_Allreduce(&t, &gt, 1, MPI_INT, MPI_MAX, w.comm); if (gt) continue;
        std::vector<double> gx = allgather_vec(nlb ? &x[0](0) : nullptr, rp, 2);
        if (w.rank) continue;
        double kappa = kappa_spd(K);
        // Richardson: a single-rank run of the same configuration is attached to the failure detail (see c12_solve.cpp)
        bool ref_converges = true;
        if (sv == "richardson" && !budget) { if (w.size == 1) ref_converges = false; else { try { mpi::communicator self(MPI_COMM_SELF); size_t nn = K.n; auto st = std::tie(nn, K.ptr, K.col, K.val); auto Ab = adapter::block_matrix<BV>(st);
                std::vector<BR> fr(nb), xr(nb); for (long i = 0; i < nb; ++i) for (int q = 0; q < 2; ++q) { fr[i](q) = F[2 * i + q]; xr[i](q) = 0; } BSolver ref(self, Ab, prm); size_t it; double rr; std::tie(it, rr) = ref(fr, xr); ref_converges = std::isfinite(rr) && rr < tol; }
              catch (const std::exception &) { ref_converges = false; } } vf::obs_sum(ref_converges ? "richardson_reference_converges" : "richardson_reference_diverges"); }
        TruthSpec ts; ts.solver = sv; ts.maxiter = maxiter; ts.tol = tol; ts.kappa = kappa; ts.must_converge = !budget; if (sv == "richardson" && !budget) ts.note = w.size == 1 ? "this is the single-rank run" : (ref_converges ? "converges" : "does not converge either");
        if (same) check_truth(c, tag, K, F, gx, X0, o, ts);
        double s = co == "aggregation" ? (double)(1 / 1.5f) : 1.0;
        for (size_t l = 0; l < g_rec.lv.size(); ++l) { LevelRec &L = g_rec.lv[l]; std::string lt = co + ":block:level";
            c.check(L.bad == 0, "hierarchy:duplicate-or-out-of-range-entry:" + lt, "a gathered level matrix has duplicate or out-of-range entries", J().n("level", l).n("count", L.bad));
            check_transpose(c, lt, L.P, L.R); if (L.have_ac) check_galerkin(c, lt + (repart ? ":repart" : ""), L.A, L.P, L.R, L.Ac, s);
            if (l + 1 < g_rec.lv.size() && L.have_ac) c.check(same_matrix(L.Ac, g_rec.lv[l + 1].A), "hierarchy:next-level-matrix:block:" + std::string(repart ? "repart" : "norepart"), "the matrix coarsened on the next level is not the Galerkin matrix of this level", J().n("level", l)); }
        c.check(!g_rec.lv.empty(), "harness:nothing-recorded:" + tag, "recording coarsening wrapper saw no level");
        c.nontrivial(); vf::obs_add("block_cells_covered", cellname + (repart ? ":merge" : ":norepart")); vf::obs_sum("block_solves"); if (part_modes(rp) == "empty-ranks") vf::obs_sum("block_solves_with_empty_ranks");
        vf::sample("block_r" + std::to_string(w.size), J().n("ranks", w.size).s("cell", cellname).bl("repart", repart).s("family", p.family).n("n", 2 * nb).s("rows", vfm::part_str(rp)).n("iters", o.iters).n("res", o.res).n("levels", g_rec.lv.size() + 1), 2);
    }
}

//---------------------------------------------------------------------------
// subdomain deflation and block preconditioner (scalar values, local runtime preconditioner)
//---------------------------------------------------------------------------
typedef mpi::subdomain_deflation<runtime::preconditioner<B>, runtime::mpi::solver::wrapper<B>, runtime::mpi::direct::solver<double>> SDD;
typedef mpi::make_solver<mpi::block_preconditioner<runtime::preconditioner<B>>, runtime::mpi::solver::wrapper<B>> BPSolver;

static void local_precond(ptree &prm, const std::string &path, Rng &r, std::string &name) {
    static const char *LR[] = {"spai0", "ilu0", "damped_jacobi", "gauss_seidel", "iluk", "chebyshev"};
    if (r.coin(0.6)) { std::string co = r.coin() ? "smoothed_aggregation" : "aggregation", rl = LR[r.range(0, 5)]; prm.put(path + "class", "amg"); prm.put(path + "coarsening.type", co); prm.put(path + "relax.type", rl); prm.put(path + "coarse_enough", r.range(10, 60)); name = "amg:" + co + ":" + rl; }
    else { std::string rl = LR[r.range(0, 4)]; prm.put(path + "class", "relaxation"); prm.put(path + "type", rl); name = "relaxation:" + rl; }
}

static void sub_sdd_bp(const std::string &sub) {
    World &w = world(); mpi::communicator comm(w.comm); const bool sdd = sub == "sdd";
    long N = vf::opt_int(sub + "_solves", vf::tier(16, 80));
    static const char *IS[] = {"cg", "bicgstab", "gmres", "fgmres", "idrs", "lgmres", "bicgstabl"};
    for (long idx = 0; idx < N; ++idx) {
        if (!vf::selected(sub, idx)) continue;
        uint64_t cs = vf::case_seed(sub, idx * 16 + w.size); Rng r(cs); vfm::seed_delays(cs, w.rank);
        Problem p = make_problem(r, 200, (int)vf::tier(700, 1200));
        // every third case: structurally NON-symmetric convection-diffusion (not an SPD M-matrix: no convergence clause, a Krylov breakdown is not a
        // failure; termination, rank-consistency and the truthful-residual clause stay).  Either pure upwind convection across the cuts (one-sided
        // coupling between the slabs of different ranks: receive-neighbours != send-neighbours) or vf::convdiff with randomly deleted partners.
        const bool nonsym = idx % 3 == 2; bool line_cuts = false; int gnx = 0, gny = 0;
        if (nonsym) { gnx = (int)r.range(8, 24); gny = (int)r.range(std::max(6, 2 * w.size), std::max(12, 3 * w.size) + 8);
            if (r.coin(0.6)) { p.A = oneway_convection(gnx, gny, r.uni(0.5, 3.0), r.uni(0.0, 0.3), r); p.family = "G3-oneway-upwind"; line_cuts = true; }
            else { p.A = vf::convdiff(gnx, gny, r.uni(0.5, 4.0), r, true); p.family = "G3-convdiff-struct-nonsym"; line_cuts = r.coin(); }
            p.f = vf::random_vector(p.A.n, r); p.x0.assign(p.A.n, 0.0); }
        long n = p.A.n;
        // every rank owns rows here: a sub-domain without unknowns has no local problem to precondition / deflate (stated in the rule)
        Part rp = vfm::random_part(n, w.size, r, 1, r.coin() ? 0 : 1); { bool ok = true; for (int k = 0; k < w.size; ++k) if (rp[k + 1] - rp[k] < 2) ok = false; if (!ok) rp = vfm::random_part(n, w.size, r, 1, 0); }
        if (line_cuts) for (int k = 0; k <= w.size; ++k) rp[k] = (ptrdiff_t)((long)gny * k / w.size) * gnx;      // cuts between grid lines
        std::string sv = IS[nonsym ? r.range(1, 6) : r.range(0, 6)], lp, ds = DIRECT[r.range(0, 1)]; int ndv = sdd ? (int)r.range(1, 2) : 0; size_t maxiter = 500; double tol = 1e-8;
        ptree prm; std::function<double(ptrdiff_t, unsigned)> dv; ptrdiff_t nl = rp[w.rank + 1] - rp[w.rank];
        if (sdd) { local_precond(prm, "local.", r, lp); prm.put("isolver.type", sv); prm.put("isolver.maxiter", maxiter); prm.put("isolver.tol", tol); prm.put("dsolver.type", ds);
            dv = [nl](ptrdiff_t i, unsigned j) { return j == 0 ? 1.0 : (2.0 * i - nl) / (nl + 1.0); }; prm.put("num_def_vec", ndv); prm.put("def_vec", &dv); }
        else { local_precond(prm, "precond.", r, lp); prm.put("solver.type", sv); prm.put("solver.maxiter", maxiter); prm.put("solver.tol", tol); }
        std::string cellname = lp + ":" + sv; std::string tag = sub + ":" + cellname + (w.size > 1 ? ":np>1" : ":np=1");
        Case c(sub, idx, J().n("ranks", w.size).s("local", lp).s("solver", sv).s("direct", sdd ? ds : "-").n("def_vecs", ndv).s("family", p.family).n("n", n).s("rows", vfm::part_str(rp)));
        Csr<double> S = vfm::slice_rows(p.A, rp[w.rank], rp[w.rank + 1]); size_t nloc = S.n;
        std::vector<double> f(p.f.begin() + rp[w.rank], p.f.begin() + rp[w.rank + 1]), x(nloc, 0.0), x0(n, 0.0);
        SolveOut o;
        try { if (sdd) { SDD slv(comm, std::tie(nloc, S.ptr, S.col, S.val), prm); std::tie(o.iters, o.res) = slv(f, x); }
              else { BPSolver slv(comm, std::tie(nloc, S.ptr, S.col, S.val), prm); std::tie(o.iters, o.res) = slv(f, x); } }
        catch (const std::exception &e) { o.threw = true; if (nonsym) vf::obs_sum("nonsym_exceptions_not_counted"); else c.fail("exception:" + tag, e.what()); }
        bool same = check_rank_consistent(c, tag, o);
        int t = o.threw, gt = 0; MPI_Allreduce(&t, &gt, 1, MPI_INT, MPI_MAX, w.comm); if (gt) continue;
        std::vector<double> gx = allgather_vec(x.data(), rp);
        if (w.rank) continue;
        double kappa = nonsym ? kappa_svd(p.A) : kappa_spd(p.A);
        // sdd: the iteration runs on the projected system and the result is post-processed; every reported value goes through the coarse (deflation) solve, so the recursive-residual rule (conditioning of the call) is used for all solvers
        TruthSpec ts; ts.solver = sdd ? "cg" : sv; ts.maxiter = maxiter; ts.tol = tol; ts.kappa = kappa; ts.must_converge = !nonsym; if (nonsym) { ts.solver = "cg"; vf::obs_sum(sub + "_nonsym_solves"); if (std::isfinite(o.res) && o.res < tol) vf::obs_sum(sub + "_nonsym_converged"); }
        if (same) { SolveOut oo = o; check_truth(c, tag, p.A, p.f, gx, x0, oo, ts); }
        c.nontrivial(); vf::obs_sum(sub + "_solves"); vf::obs_add(sub + "_cells_covered", cellname);
        vf::sample(sub + "_r" + std::to_string(w.size), J().n("ranks", w.size).s("cell", cellname).s("family", p.family).n("n", n).s("rows", vfm::part_str(rp)).n("iters", o.iters).n("res", o.res), 1);
    }
}

//---------------------------------------------------------------------------
static void sub_direct_block() {
    World &w = world(); mpi::communicator comm(w.comm);
    long N = vf::opt_int("direct_cases", vf::tier(10, 100));
    for (long idx = 0; idx < N; ++idx) {
        if (!vf::selected("direct_block", idx)) continue;
        uint64_t cs = vf::case_seed("direct_block", idx * 16 + w.size); Rng r(cs);
        long nb = r.range(1, idx % 3 == 0 ? 8 : 40); Csr<double> A = vf::random_dd(nb, r.uni(0.1, 0.5), r, r.coin()); std::vector<double> Cb = vf::spd_block(2, r); Csr<double> K = vf::kron(A, Cb, 2);
        Part rp = vfm::random_part(nb, w.size, r); std::vector<double> F = vf::random_vector(2 * nb, r);
        Case c("direct_block", idx, J().n("ranks", w.size).n("n", 2 * nb).n("nnz", K.nnz()).s("rows", vfm::part_str(rp)));
        Csr<double> S = vfm::slice_rows(K, 2 * rp[w.rank], 2 * rp[w.rank + 1]); size_t nloc = S.n, nlb = nloc / 2; bool threw = false;
        std::vector<BR> f(nlb), x(nlb); for (size_t i = 0; i < nlb; ++i) for (int q = 0; q < 2; ++q) { f[i](q) = F[2 * (rp[w.rank] + i) + q]; x[i](q) = 9; }
        try { mpi::distributed_matrix<BB> Ad(comm, adapter::block_matrix<BV>(std::tie(nloc, S.ptr, S.col, S.val)), nlb); mpi::direct::skyline_lu<BV> slv(comm, Ad); slv(f, x); }
        catch (const std::exception &e) { threw = true; c.fail("exception:direct:skyline_lu_block", e.what()); }
        int t = threw, gt = 0; MPI_Allreduce(&t, &gt, 1, MPI_INT, MPI_MAX, w.comm); if (gt) continue;
        std::vector<double> gx = allgather_vec(nlb ? &x[0](0) : nullptr, rp, 2); if (w.rank) continue;
        long n = 2 * nb; vf::LD D = vf::to_dense(K); vf::LV rhs = vf::to_lv(F); Eigen::PartialPivLU<vf::LD> lu(D); vf::LV xr = lu.solve(rhs); double kappa = vf::cond2(D);
        long double e = 0, nx = 0; bool fin = true; for (long i = 0; i < n; ++i) { e += (gx[i] - xr[i]) * (gx[i] - xr[i]); nx += xr[i] * xr[i]; if (!std::isfinite(gx[i])) fin = false; }
        double rel = (double)sqrtl(e / nx), bound = 50.0 * (n + 10) * 1.1102230246251565e-16 * kappa;
        c.check(fin && rel <= bound, "direct:solution:skyline_lu_block", "distributed block direct solve differs from the dense solution of the gathered system beyond c n u kappa", J().n("rel_err", rel).n("bound", bound).n("kappa", kappa));
        c.nontrivial(); vf::obs_sum("direct_block_solves");
    }
}

int main(int argc, char **argv) {
    mpi::init mpi_guard(&argc, &argv);
    vf::init(argc, argv); init_world();
    if (vf::opt_int("delays", 1)) vfm::install_delay_hook();
    vf::obs_add("rank_counts_seen", std::to_string(world().size));
    if (vf::sub_enabled("block")) sub_block();
    if (vf::sub_enabled("sdd")) sub_sdd_bp("sdd");
    if (vf::sub_enabled("bp")) sub_sdd_bp("bp");
    if (vf::sub_enabled("direct_block")) sub_direct_block();
    return vf::finish();
}
