// c12_common.hpp -- shared by the C12 harness translation units (c12_solve.cpp, c12_block.cpp).
// Problem generation (G1/G2 SPD M-matrices, validated), distribution over a random contiguous
// partition, the truthful-residual / rank-consistency / convergence oracles, and the gather helpers.
#pragma once
#ifndef AMGCL_PARAM_UNKNOWN
// a parameter name the library does not know is a harness typo, never a finding
#  define AMGCL_PARAM_UNKNOWN(name) do { std::cerr << "harness: unknown amgcl parameter " << name << std::endl; std::exit(3); } while (0)
#endif
#include <iostream>
#include <amgcl/backend/builtin.hpp>
#include <amgcl/adapter/crs_tuple.hpp>
#include <amgcl/mpi/util.hpp>
#include <amgcl/mpi/distributed_matrix.hpp>
#include <amgcl/mpi/make_solver.hpp>
#include <boost/property_tree/ptree.hpp>
#include <vf/hooks.hpp>
#include <vf/mpi.hpp>
#include <vf/dense.hpp>
#include <Eigen/Dense>
#include <Eigen/SVD>

namespace c12 {
using vf::Csr; using vf::J; using vf::Rng; using vf::Case; using vfm::Part; using vfm::Bag;
typedef boost::property_tree::ptree ptree;

struct World { MPI_Comm comm; int rank = 0, size = 1; };
inline World &world() { static World w; return w; }
inline void init_world() { World &w = world(); w.comm = MPI_COMM_WORLD; MPI_Comm_rank(w.comm, &w.rank); MPI_Comm_size(w.comm, &w.size);
    if (w.rank != vf::ctx().rank) { fprintf(stderr, "harness: rank mismatch between MPI and the environment\n"); std::exit(3); } }

//---------------------------------------------------------------------------
// Problems: SPD M-matrices (validated below).  kind 0: G1 model sub-family, 1: G2 geometric graph Laplacian
// with a positive shift on every vertex, 2: G2 Erdos-Renyi graph Laplacian with shift on every vertex.
//---------------------------------------------------------------------------
struct Problem { Csr<double> A; std::vector<double> f, x0; std::string family; double kappa = 0; bool x0_zero = true; };

inline void validate_spd_mmatrix(const Csr<double> &A) {
    // symmetric, positive diagonal, non-positive off-diagonals, weakly diagonally dominant with at least one strict row: => SPD (irreducibility per component comes from the generators)
    std::map<std::pair<long, long>, double> e; for (size_t i = 0; i < A.n; ++i) for (auto j = A.ptr[i]; j < A.ptr[i + 1]; ++j) e[{(long)i, (long)A.col[j]}] = A.val[j];
    bool strict = false;
    for (size_t i = 0; i < A.n; ++i) { double d = 0, off = 0; for (auto j = A.ptr[i]; j < A.ptr[i + 1]; ++j) { if ((size_t)A.col[j] == i) d = A.val[j]; else { off += std::fabs(A.val[j]); if (A.val[j] > 0) { fprintf(stderr, "harness: generated matrix has a positive off-diagonal\n"); std::exit(3); }
                auto it = e.find({(long)A.col[j], (long)i}); if (it == e.end() || std::fabs(it->second - A.val[j]) > 1e-14 * std::fabs(A.val[j])) { fprintf(stderr, "harness: generated matrix is not symmetric\n"); std::exit(3); } } }
        if (!(d > 0) || d < off * (1 - 1e-12)) { fprintf(stderr, "harness: generated matrix is not diagonally dominant\n"); std::exit(3); } if (d > off * (1 + 1e-9)) strict = true; }
    if (!strict) { fprintf(stderr, "harness: generated matrix has no strictly dominant row\n"); std::exit(3); }
}
inline Problem make_problem(Rng &r, int nmin, int nmax, int kind = -1) {
    Problem p; if (kind < 0) kind = r.coin(0.65) ? 0 : (r.coin(0.7) ? 1 : 2);
    if (kind == 0) { vf::GridSpec g; p.A = vf::model_problem(r, nmin, nmax, &g); p.family = std::string("G1-") + (g.nz > 1 ? "3d" : (g.nine ? "9pt" : "5pt")); }
    else { size_t n = (size_t)r.range(nmin, nmax); p.A = vf::graph_laplacian(n, r.uni(5, 8), r, kind == 1, true); p.family = kind == 1 ? "G2-geometric" : "G2-random"; }
    validate_spd_mmatrix(p.A);
    p.f = vf::random_vector(p.A.n, r); p.x0.assign(p.A.n, 0.0);
    if (r.coin(0.2)) { p.x0 = vf::random_vector(p.A.n, r); p.x0_zero = false; }
    return p;
}
// kappa_2 of a symmetric positive definite matrix from a dense symmetric eigen-decomposition (rank 0 only, n <= ~2000)
inline double kappa_spd(const Csr<double> &A) {
    Eigen::MatrixXd D = Eigen::MatrixXd::Zero(A.n, A.n); for (size_t i = 0; i < A.n; ++i) for (auto j = A.ptr[i]; j < A.ptr[i + 1]; ++j) D(i, A.col[j]) += A.val[j];
    Eigen::SelfAdjointEigenSolver<Eigen::MatrixXd> es(D, Eigen::EigenvaluesOnly); double lo = es.eigenvalues()[0], hi = es.eigenvalues()[A.n - 1];
    if (!(lo > 0)) { fprintf(stderr, "harness: generated matrix is not positive definite (lambda_min = %g)\n", lo); std::exit(3); }
    return hi / lo;
}

// kappa_2 of a general nonsingular matrix from the singular values (rank 0 only, n <= ~1000)
inline double kappa_svd(const Csr<double> &A) {
    Eigen::MatrixXd D = Eigen::MatrixXd::Zero(A.n, A.n); for (size_t i = 0; i < A.n; ++i) for (auto j = A.ptr[i]; j < A.ptr[i + 1]; ++j) D(i, A.col[j]) += A.val[j];
    Eigen::BDCSVD<Eigen::MatrixXd> svd(D); double hi = svd.singularValues()[0], lo = svd.singularValues()[A.n - 1];
    if (!(lo > 0)) { fprintf(stderr, "harness: generated matrix is singular\n"); std::exit(3); }
    return hi / lo;
}
// Structurally non-symmetric convection-diffusion on an nx x ny grid: diffusion along x (symmetric -1/-1 couplings), pure first-order upwind
// convection along y (row (i,j) couples to (i,j-1) only), Dirichlet inflow, positive shift: a strictly diagonally dominant non-symmetric
// M-matrix.  With a contiguous row partition across y every rank receives from the rank below and sends to the rank above only.
inline Csr<double> oneway_convection(int nx, int ny, double c, double shift, Rng &r) {
    Csr<double> A((size_t)nx * ny, (size_t)nx * ny);
    for (int j = 0; j < ny; ++j) for (int i = 0; i < nx; ++i) { ptrdiff_t id = (ptrdiff_t)j * nx + i; double cj = c * r.uni(0.8, 1.2);
        if (j > 0) A.push(id - nx, -cj); if (i > 0) A.push(id - 1, -1.0); A.push(id, 2.0 + cj + shift); if (i + 1 < nx) A.push(id + 1, -1.0); A.end_row(); }
    return A;
}

// Partially convective problem: -Laplace(u) + p(y) du/dx, first-order upwind, on an nx x ny grid; the convection coefficient p is present
// on the lowest `conv_lines` grid lines only.  A non-symmetric, diagonally dominant M-matrix whose strength-of-connection graph is
// non-symmetric on part of the grid: cut into strips of grid lines, only some ranks see the non-symmetry (PMIS aggregates vanish there only).
inline Csr<double> partly_convective(int nx, int ny, int conv_lines, double pe) {
    Csr<double> A((size_t)nx * ny, (size_t)nx * ny);
    for (int j = 0; j < ny; ++j) for (int i = 0; i < nx; ++i) { ptrdiff_t id = (ptrdiff_t)j * nx + i; double pc = j < conv_lines ? pe : 0.0;
        if (j > 0) A.push(id - nx, -1.0); if (i > 0) A.push(id - 1, -1.0 - pc); A.push(id, 4.0 + pc); if (i + 1 < nx) A.push(id + 1, -1.0); if (j + 1 < ny) A.push(id + nx, -1.0); A.end_row(); }
    return A;
}
struct ConvSpec { int nx, ny, conv_lines; double pe; };
inline Csr<double> random_partly_convective(Rng &r, int ranks, ConvSpec &cs, Part &rp, int nxmax = 32) {
    cs.nx = (int)r.range(12, nxmax); cs.ny = (int)r.range(std::max(12, 4 * ranks), std::max(24, 6 * ranks) + 12); cs.pe = r.coin(0.5) ? 25.0 : r.uni(10.0, 40.0);
    int frac = (int)r.range(0, 2); cs.conv_lines = frac == 0 ? cs.ny / 3 : (frac == 1 ? cs.ny / 2 : cs.ny / 4);
    rp.assign(ranks + 1, 0); for (int k = 0; k <= ranks; ++k) rp[k] = (ptrdiff_t)((long)cs.ny * k / ranks) * cs.nx;      // strips of whole grid lines
    return partly_convective(cs.nx, cs.ny, cs.conv_lines, cs.pe);
}

//---------------------------------------------------------------------------
// Gather helpers
//---------------------------------------------------------------------------
inline std::vector<double> allgather_vec(const double *loc, const Part &rp, int scal_per_row = 1) {
    World &w = world(); std::vector<int> cnt(w.size), dsp(w.size); for (int k = 0; k < w.size; ++k) { cnt[k] = (int)(rp[k + 1] - rp[k]) * scal_per_row; dsp[k] = (int)rp[k] * scal_per_row; }
    std::vector<double> g((size_t)rp[w.size] * scal_per_row); double dummy = 0;
    MPI_Allgatherv(cnt[w.rank] ? (void*)loc : (void*)&dummy, cnt[w.rank], MPI_DOUBLE, g.data(), cnt.data(), dsp.data(), MPI_DOUBLE, w.comm); return g;
}
inline ptrdiff_t row_shift_of(ptrdiff_t nloc) { World &w = world(); long long v = nloc, s = 0; MPI_Exscan(&v, &s, 1, MPI_LONG_LONG, MPI_SUM, w.comm); return w.rank == 0 ? 0 : (ptrdiff_t)s; }
// rank 0: global CSR (scalar double) from the bag records of one tag; dups / range errors reported through the flags
struct GMat { Csr<double> M; long dups = 0, range = 0; };
// bs > 1: the records carry bs x bs blocks (row-major); the result is the scalar expansion (n*bs x m*bs)
inline GMat bag_to_csr(const Bag &b, int tag, long n, long m, int bs = 1) {
    GMat g; std::vector<std::tuple<ptrdiff_t, ptrdiff_t, double>> t; std::set<std::pair<long, long>> seen;
    for (auto r : b.with(tag)) { if (r->i < 0 || r->i >= n || r->j < 0 || r->j >= m || (int)r->v.size() != bs * bs) { g.range++; continue; } if (!seen.insert({r->i, r->j}).second) { g.dups++; continue; }
        for (int p = 0; p < bs; ++p) for (int q = 0; q < bs; ++q) t.emplace_back(r->i * bs + p, r->j * bs + q, r->v[p * bs + q]); }
    g.M = vf::from_triplets<double>(n * bs, m * bs, t); return g;
}

//---------------------------------------------------------------------------
// Per-solve oracles (rank 0 evaluates; every rank takes part in the gathers)
//---------------------------------------------------------------------------
struct SolveOut { size_t iters = 0; double res = 0; bool threw = false; std::string what; };
inline bool recursive_residual(const std::string &solver) { return solver == "cg" || solver == "bicgstab" || solver == "bicgstabl" || solver == "idrs"; }

// (iters,res) of every rank must be bit-identical.  Returns (on rank 0) whether they are.
inline bool check_rank_consistent(Case &c, const std::string &tag, const SolveOut &o) {
    World &w = world(); struct P { unsigned long long it; double res; int threw; int pad; } me = {o.iters, o.res, o.threw ? 1 : 0, 0};
    std::vector<P> all = vfm::gather_scalar(w.comm, me); if (w.rank) return true;
    bool same = vfm::all_identical(all); std::vector<double> its, rs; for (auto &p : all) { its.push_back((double)p.it); rs.push_back(p.res); }
    c.check(same, "rank-consistency:" + tag, "(iterations, residual) or the exception status returned by the solve differ between ranks", J().arr("iters", its).arr("res", rs));
    return same;
}

struct TruthSpec { std::string solver; size_t maxiter; double tol; double kappa; bool left = false; double left_true = -1; bool must_converge = true; int bicgstabl_L = 2; std::string note = "-"; };
// A, f, x are global (x gathered).  For pside=left the caller passes ||P(f - A x)|| / ||f|| (computed through the solver's own preconditioner) in left_true.
inline void check_truth(Case &c, const std::string &tag, const Csr<double> &A, const std::vector<double> &f, const std::vector<double> &x, const std::vector<double> &x0, const SolveOut &o, const TruthSpec &sp) {
    const double u = 1.1102230246251565e-16;
    size_t itmax = sp.maxiter + (sp.solver == "bicgstabl" ? sp.bicgstabl_L - 1 : 0);
    c.check(o.iters <= itmax, "iterations-exceed-maxiter:" + tag, "returned iteration count exceeds maxiter", J().n("iters", o.iters).n("maxiter", sp.maxiter));
    long double nr = 0, nf = 0, absAx = 0, nx0 = 0, nA = 0; size_t maxrow = 0; bool finite = std::isfinite(o.res);
    for (size_t i = 0; i < A.n; ++i) { long double s = f[i], a = 0, rs = 0; for (auto j = A.ptr[i]; j < A.ptr[i + 1]; ++j) { long double p = (long double)A.val[j] * x[A.col[j]]; s -= p; a += fabsl(p); rs += fabsl(A.val[j]); }
        nr += s * s; nf += (long double)f[i] * f[i]; absAx += a * a; nx0 += (long double)x0[i] * x0[i]; nA = std::max(nA, rs); maxrow = std::max<size_t>(maxrow, A.ptr[i + 1] - A.ptr[i]); if (!std::isfinite(x[i])) finite = false; }
    nr = sqrtl(nr); nf = sqrtl(nf); absAx = sqrtl(absAx); nx0 = sqrtl(nx0); long double tv = sp.left ? (long double)sp.left_true : nr / nf;
    bool tfin = finite && std::isfinite((double)tv) && std::isfinite(o.res);
    if (!tfin) {   // a diverging iteration may overflow: truthful iff reported and true value are both non-finite; whether divergence is allowed is the convergence clause
        bool both = !std::isfinite(o.res) && !(finite && std::isfinite((double)tv));
        c.check(both, "residual-mismatch:" + tag, "exactly one of (reported residual, true residual of the gathered solution) is non-finite", J().n("reported", o.res).n("true", (double)tv).n("iters", o.iters));
        if (sp.must_converge) c.check(false, "not-converged:" + tag, "the distributed solve overflowed instead of converging on an SPD M-matrix", J().n("reported", o.res).n("iters", o.iters).n("maxiter", sp.maxiter).s("single_rank_reference", sp.note));
        vf::obs_sum("solves_overflowed"); return; }
    long double rel, flo;
    if (!recursive_residual(sp.solver) && !sp.left) { rel = 1e-6L; flo = 8.0L * u * (maxrow + 3) * (absAx + nf) / nf; }    // one working-precision evaluation of f - A x and its norm
    else { rel = 1e-3L; flo = 100.0L * u * (o.iters + 1) * sp.kappa * (1 + nA * nx0 / nf); }                              // recursive vs true residual gap, conditioning of the call
    long double bound = std::max(rel * tv, flo), diff = fabsl((long double)o.res - tv);
    vf::obs_max(std::string("max_mismatch_over_bound_") + (recursive_residual(sp.solver) || sp.left ? "recursive" : "explicit"), (double)(diff / bound));
    c.check(diff <= bound, "residual-mismatch:" + tag, "reported residual differs from the true relative residual of the gathered solution beyond the rounding bound",
            J().n("reported", o.res).n("true", (double)tv).n("bound", (double)bound).n("iters", o.iters).bl("left", sp.left));
    if (sp.must_converge) {
        // (the reported value is tied to the true residual by the oracle above, so the clause is stated on the reported one)
        c.check(o.res < sp.tol && o.iters <= itmax, "not-converged:" + tag, "the distributed solve did not reach the tolerance within the iteration budget on an SPD M-matrix",
                J().n("reported", o.res).n("true", (double)(nr / nf)).n("tol", sp.tol).n("iters", o.iters).n("maxiter", sp.maxiter).s("single_rank_reference", sp.note));
        vf::obs_max("max_iters_converged_" + sp.solver, (double)o.iters);
    }
}

//---------------------------------------------------------------------------
// Recording coarsening wrapper (an ordinary template argument of mpi::amg)
//---------------------------------------------------------------------------
struct LevelRec { Csr<double> A, P, R, Ac; long bad = 0; bool have_ac = false; };
struct Recorder { bool on = false; std::vector<LevelRec> lv; };
inline Recorder &rec_state() { static Recorder r; return r; }
#define g_rec (::c12::rec_state())
enum { RT_A = 1, RT_P, RT_R, RT_AC };

template <class Base, class Backend> struct Rec {
    typedef amgcl::mpi::distributed_matrix<Backend> DM; static const int BS = amgcl::math::static_rows<typename Backend::value_type>::value;
    typedef typename Base::params params; Base base;
    Rec(const params &p = params()) : base(p) {}
    std::tuple<std::shared_ptr<DM>, std::shared_ptr<DM>> transfer_operators(const DM &A) {
        auto PR = base.transfer_operators(A);
        if (g_rec.on) { auto &P = *std::get<0>(PR); auto &R = *std::get<1>(PR); Bag bag(world().comm);
            vfm::bag_dm(bag, RT_A, A, A.loc_col_shift()); vfm::bag_dm(bag, RT_P, P, A.loc_col_shift()); vfm::bag_dm(bag, RT_R, R, P.loc_col_shift()); bag.collect();
            LevelRec L; if (world().rank == 0) { GMat a = bag_to_csr(bag, RT_A, A.glob_rows(), A.glob_cols(), BS), p = bag_to_csr(bag, RT_P, P.glob_rows(), P.glob_cols(), BS), r = bag_to_csr(bag, RT_R, R.glob_rows(), R.glob_cols(), BS);
                L.A = a.M; L.P = p.M; L.R = r.M; L.bad = a.dups + a.range + p.dups + p.range + r.dups + r.range; }
            g_rec.lv.push_back(L); }
        return PR;
    }
    std::shared_ptr<DM> coarse_operator(const DM &A, const DM &P, const DM &R) const {
        auto Ac = base.coarse_operator(A, P, R);
        if (g_rec.on && !g_rec.lv.empty()) { Bag bag(world().comm); vfm::bag_dm(bag, RT_AC, *Ac, Ac->loc_col_shift()); bag.collect();
            if (world().rank == 0) { GMat a = bag_to_csr(bag, RT_AC, Ac->glob_rows(), Ac->glob_cols(), BS); g_rec.lv.back().Ac = a.M; g_rec.lv.back().bad += a.dups + a.range; } g_rec.lv.back().have_ac = true; }
        return Ac;
    }
};
template <class Base, class Backend> unsigned block_size(const Rec<Base, Backend> &r) { return block_size(r.base); }


//---------------------------------------------------------------------------
// Hierarchy oracles (rank 0)
//---------------------------------------------------------------------------
inline bool same_matrix(const Csr<double> &X, const Csr<double> &Y) { return X.n == Y.n && X.m == Y.m && X.ptr == Y.ptr && X.col == Y.col && X.val == Y.val; }

// A_c = s * R A P against the sparse long-double triple product; pattern = structural pattern
inline void check_galerkin(Case &c, const std::string &tag, const Csr<double> &A, const Csr<double> &P, const Csr<double> &R, const Csr<double> &Ac, double s) {
    const long double u = 1.1102230246251565e-16L;
    if (!c.check(P.n == A.n && R.m == A.n && R.n == P.m && Ac.n == P.m && Ac.m == P.m, "galerkin:shape:" + tag, "shapes of A, P, R, A_c do not fit", J().n("An", A.n).n("Pn", P.n).n("Pm", P.m).n("Rn", R.n).n("Rm", R.m).n("Acn", Ac.n))) return;
    struct T { long double v = 0, a = 0; long cnt = 0; };
    std::vector<std::map<long, T>> AP(A.n);
    for (size_t i = 0; i < A.n; ++i) for (auto ja = A.ptr[i]; ja < A.ptr[i + 1]; ++ja) { auto k = A.col[ja]; for (auto jp = P.ptr[k]; jp < P.ptr[k + 1]; ++jp) { T &t = AP[i][P.col[jp]]; long double p = (long double)A.val[ja] * P.val[jp]; t.v += p; t.a += fabsl(p); t.cnt++; } }
    bool pat = true, val = true; double worst = 0; long nent = 0;
    for (size_t a = 0; a < R.n; ++a) { std::map<long, T> row;
        for (auto jr = R.ptr[a]; jr < R.ptr[a + 1]; ++jr) for (auto &kv : AP[R.col[jr]]) { T &t = row[kv.first]; t.v += (long double)R.val[jr] * kv.second.v; t.a += fabsl(R.val[jr]) * kv.second.a; t.cnt += kv.second.cnt; }
        if ((size_t)(Ac.ptr[a + 1] - Ac.ptr[a]) != row.size()) pat = false;
        for (auto j = Ac.ptr[a]; j < Ac.ptr[a + 1]; ++j) { auto it = row.find(Ac.col[j]); if (it == row.end()) { pat = false; continue; } ++nent;
            long double ref = s * it->second.v, bound = 2.0L * (it->second.cnt + 6) * u * fabsl(s) * it->second.a, d = fabsl((long double)Ac.val[j] - ref);
            if (!(d <= bound)) val = false; if (it->second.a > 0) worst = std::max(worst, (double)(d / (fabsl(s) * it->second.a))); } }
    c.check(pat, "galerkin:pattern:" + tag, "pattern of the distributed coarse matrix differs from the structural pattern of R A P");
    c.check(val, "galerkin:value:" + tag, "distributed coarse matrix differs from s R A P beyond the forward rounding bound", J().n("scale", s).n("worst_rel", worst));
    vf::obs_max("max_rel_galerkin_discrepancy", worst); vf::obs_sum("galerkin_entries_checked", (double)nent);
}
inline void check_transpose(Case &c, const std::string &tag, const Csr<double> &P, const Csr<double> &R) { c.check(same_matrix(vf::transpose(P), R), "restriction-not-transpose:" + tag, "gathered R is not bit-identical to the transpose of the gathered P"); }

// Global-partition clause for a tentative prolongation.  b: block size (dofs per point), K: near-null-space vectors (0: piecewise constant).
// Strength of connection is evaluated from its definition on the assembled matrix; rows whose classification is within rounding of the threshold are skipped.
struct PartStat { long nonisolated = 0, isolated = 0, ambiguous = 0, aggregates = 0; std::vector<long> agg_of_point; std::vector<long> agg_size; };
inline PartStat check_partition(Case &c, const std::string &tag, const Csr<double> &A, const Csr<double> &P, double eps, int b, int K) {
    PartStat st; long n = A.n, np = n / b; int w = K ? K : b;      // columns per aggregate
    // pointwise matrix: max |a_ij| over the block
    std::vector<std::map<long, double>> Ap(np); for (long i = 0; i < n; ++i) for (auto j = A.ptr[i]; j < A.ptr[i + 1]; ++j) { double &v = Ap[i / b][A.col[j] / b]; v = std::max(v, std::fabs(A.val[j])); }
    std::vector<int> cls(np, 0);   // 1 non-isolated, 0 isolated, -1 ambiguous
    for (long I = 0; I < np; ++I) { double dI = Ap[I].count(I) ? Ap[I][I] : 0; bool strong = false, amb = false;
        for (auto &kv : Ap[I]) { if (kv.first == I) continue; double dJ = Ap[kv.first].count(kv.first) ? Ap[kv.first][kv.first] : 0; double lhs = eps * eps * dI * dJ, rhs = kv.second * kv.second;
            if (rhs > lhs * (1 + 1e-9)) strong = true; else if (rhs >= lhs * (1 - 1e-9)) amb = true; }
        cls[I] = strong ? 1 : (amb ? -1 : 0); (strong ? st.nonisolated : (amb ? st.ambiguous : st.isolated))++; }
    bool shape = (long)P.n == n && P.m % w == 0; if (!c.check(shape, "partition:shape:" + tag, "tentative prolongation has the wrong shape", J().n("rows", P.n).n("cols", P.m).n("n", n))) return st;
    long nagg = P.m / w; st.aggregates = nagg; st.agg_of_point.assign(np, -1); st.agg_size.assign(nagg, 0);
    bool one = true, dofs = true, unit = true; long bad_row = -1;
    for (long I = 0; I < np; ++I) { long agg = -2;
        for (int k = 0; k < b; ++k) { long i = I * b + k; long cnt = P.ptr[i + 1] - P.ptr[i]; long a = -1;
            if (cnt == 0) a = -1;
            else if (K == 0) { if (cnt != 1) { one = false; bad_row = i; continue; } long col = P.col[P.ptr[i]]; a = col / b; if (col % b != k) dofs = false; if (P.val[P.ptr[i]] != 1.0) unit = false; }
            else { if (cnt != K) { one = false; bad_row = i; continue; } a = P.col[P.ptr[i]] / K; for (int q = 0; q < K; ++q) if (P.col[P.ptr[i] + q] != a * K + q) { one = false; bad_row = i; } }
            if (agg == -2) agg = a; else if (agg != a) dofs = false; }
        if (cls[I] == 1 && agg < 0) { one = false; bad_row = I * b; }
        st.agg_of_point[I] = agg; if (agg >= 0 && agg < nagg) st.agg_size[agg]++; }
    c.check(one, "partition:not-exactly-one-aggregate:" + tag, "a non-isolated unknown is in no aggregate, or a row of the tentative prolongation addresses more than one aggregate", J().n("row", bad_row).n("block_size", b).n("nullspace_cols", K));
    c.check(dofs, "partition:dofs-of-a-point-split:" + tag, "the unknowns of one point are mapped to different aggregates or to the wrong component", J().n("block_size", b));
    if (K == 0) c.check(unit, "partition:entry-not-one:" + tag, "piecewise-constant tentative prolongation has an entry different from 1");
    long empty = 0; for (auto s : st.agg_size) if (!s) ++empty;
    c.check(empty == 0, "partition:empty-aggregate:" + tag, "a coarse column (aggregate) has no fine unknown", J().n("empty", empty).n("aggregates", nagg));
    return st;
}


inline std::string part_modes(const Part &p) { int e = 0; for (size_t k = 0; k + 1 < p.size(); ++k) if (p[k + 1] == p[k]) ++e; return e ? "empty-ranks" : "all-active"; }

} // namespace c12
