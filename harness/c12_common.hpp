// c12_common.hpp -- shared by the C12 harness translation units (c12_solve.cpp, c12_block.cpp).
// Problem generation (G1/G2 SPD M-matrices, validated), distribution over a random contiguous
// partition, the truthful-residual / rank-consistency / convergence oracles, and the gather helpers.
#pragma once
#ifndef AMGCL_PARAM_UNKNOWN
// a parameter name the library does not know is a harness typo, never a finding
#  define AMGCL_PARAM_UNKNOWN(name) do { std::cerr << "harness: unknown amgcl parameter " << name << std::endl; std::exit(3); } while (0)
#endif
#include <iostream>
#include <amgcl/backend/builtin.hpp>
#include <amgcl/adapter/crs_tuple.hpp>
#include <amgcl/mpi/util.hpp>
#include <amgcl/mpi/distributed_matrix.hpp>
#include <amgcl/mpi/make_solver.hpp>
#include <boost/property_tree/ptree.hpp>
#include <vf/hooks.hpp>
#include <vf/mpi.hpp>
#include <vf/dense.hpp>
#include <Eigen/Dense>

namespace c12 {
using vf::Csr; using vf::J; using vf::Rng; using vf::Case; using vfm::Part; using vfm::Bag;
typedef boost::property_tree::ptree ptree;

struct World { MPI_Comm comm; int rank = 0, size = 1; };
inline World &world() { static World w; return w; }
inline void init_world() { World &w = world(); w.comm = MPI_COMM_WORLD; MPI_Comm_rank(w.comm, &w.rank); MPI_Comm_size(w.comm, &w.size);
    if (w.rank != vf::ctx().rank) { fprintf(stderr, "harness: rank mismatch between MPI and the environment\n"); std::exit(3); } }

//---------------------------------------------------------------------------
// Problems: SPD M-matrices (validated below).  kind 0: G1 model sub-family, 1: G2 geometric graph Laplacian
// with a positive shift on every vertex, 2: G2 Erdos-Renyi graph Laplacian with shift on every vertex.
//---------------------------------------------------------------------------
struct Problem { Csr<double> A; std::vector<double> f, x0; std::string family; double kappa = 0; bool x0_zero = true; };

inline void validate_spd_mmatrix(const Csr<double> &A) {
    // symmetric, positive diagonal, non-positive off-diagonals, weakly diagonally dominant with at least one strict row: => SPD (irreducibility per component comes from the generators)
    std::map<std::pair<long, long>, double> e; for (size_t i = 0; i < A.n; ++i) for (auto j = A.ptr[i]; j < A.ptr[i + 1]; ++j) e[{(long)i, (long)A.col[j]}] = A.val[j];
    bool strict = false;
    for (size_t i = 0; i < A.n; ++i) { double d = 0, off = 0; for (auto j = A.ptr[i]; j < A.ptr[i + 1]; ++j) { if ((size_t)A.col[j] == i) d = A.val[j]; else { off += std::fabs(A.val[j]); if (A.val[j] > 0) { fprintf(stderr, "harness: generated matrix has a positive off-diagonal\n"); std::exit(3); }
                auto it = e.find({(long)A.col[j], (long)i}); if (it == e.end() || std::fabs(it->second - A.val[j]) > 1e-14 * std::fabs(A.val[j])) { fprintf(stderr, "harness: generated matrix is not symmetric\n"); std::exit(3); } } }
        if (!(d > 0) || d < off * (1 - 1e-12)) { fprintf(stderr, "harness: generated matrix is not diagonally dominant\n"); std::exit(3); } if (d > off * (1 + 1e-9)) strict = true; }
    if (!strict) { fprintf(stderr, "harness: generated matrix has no strictly dominant row\n"); std::exit(3); }
}
inline Problem make_problem(Rng &r, int nmin, int nmax, int kind = -1) {
    Problem p; if (kind < 0) kind = r.coin(0.65) ? 0 : (r.coin(0.7) ? 1 : 2);
    if (kind == 0) { vf::GridSpec g; p.A = vf::model_problem(r, nmin, nmax, &g); p.family = std::string("G1-") + (g.nz > 1 ? "3d" : (g.nine ? "9pt" : "5pt")); }
    else { size_t n = (size_t)r.range(nmin, nmax); p.A = vf::graph_laplacian(n, r.uni(5, 8), r, kind == 1, true); p.family = kind == 1 ? "G2-geometric" : "G2-random"; }
    validate_spd_mmatrix(p.A);
    p.f = vf::random_vector(p.A.n, r); p.x0.assign(p.A.n, 0.0);
    if (r.coin(0.2)) { p.x0 = vf::random_vector(p.A.n, r); p.x0_zero = false; }
    return p;
}
// kappa_2 of a symmetric positive definite matrix from a dense symmetric eigen-decomposition (rank 0 only, n <= ~2000)
inline double kappa_spd(const Csr<double> &A) {
    Eigen::MatrixXd D = Eigen::MatrixXd::Zero(A.n, A.n); for (size_t i = 0; i < A.n; ++i) for (auto j = A.ptr[i]; j < A.ptr[i + 1]; ++j) D(i, A.col[j]) += A.val[j];
    Eigen::SelfAdjointEigenSolver<Eigen::MatrixXd> es(D, Eigen::EigenvaluesOnly); double lo = es.eigenvalues()[0], hi = es.eigenvalues()[A.n - 1];
    if (!(lo > 0)) { fprintf(stderr, "harness: generated matrix is not positive definite (lambda_min = %g)\n", lo); std::exit(3); }
    return hi / lo;
}

//---------------------------------------------------------------------------
// Gather helpers
//---------------------------------------------------------------------------
inline std::vector<double> allgather_vec(const double *loc, const Part &rp, int scal_per_row = 1) {
    World &w = world(); std::vector<int> cnt(w.size), dsp(w.size); for (int k = 0; k < w.size; ++k) { cnt[k] = (int)(rp[k + 1] - rp[k]) * scal_per_row; dsp[k] = (int)rp[k] * scal_per_row; }
    std::vector<double> g((size_t)rp[w.size] * scal_per_row); double dummy = 0;
    MPI_Allgatherv(cnt[w.rank] ? (void*)loc : (void*)&dummy, cnt[w.rank], MPI_DOUBLE, g.data(), cnt.data(), dsp.data(), MPI_DOUBLE, w.comm); return g;
}
inline ptrdiff_t row_shift_of(ptrdiff_t nloc) { World &w = world(); long long v = nloc, s = 0; MPI_Exscan(&v, &s, 1, MPI_LONG_LONG, MPI_SUM, w.comm); return w.rank == 0 ? 0 : (ptrdiff_t)s; }
// rank 0: global CSR (scalar double) from the bag records of one tag; dups / range errors reported through the flags
struct GMat { Csr<double> M; long dups = 0, range = 0; };
inline GMat bag_to_csr(const Bag &b, int tag, long n, long m) {
    GMat g; std::vector<std::tuple<ptrdiff_t, ptrdiff_t, double>> t; std::set<std::pair<long, long>> seen;
    for (auto r : b.with(tag)) { if (r->i < 0 || r->i >= n || r->j < 0 || r->j >= m) { g.range++; continue; } if (!seen.insert({r->i, r->j}).second) { g.dups++; continue; } t.emplace_back(r->i, r->j, r->v[0]); }
    g.M = vf::from_triplets<double>(n, m, t); return g;
}

//---------------------------------------------------------------------------
// Per-solve oracles (rank 0 evaluates; every rank takes part in the gathers)
//---------------------------------------------------------------------------
struct SolveOut { size_t iters = 0; double res = 0; bool threw = false; std::string what; };
inline bool recursive_residual(const std::string &solver) { return solver == "cg" || solver == "bicgstab" || solver == "bicgstabl" || solver == "idrs"; }

// (iters,res) of every rank must be bit-identical.  Returns (on rank 0) whether they are.
inline bool check_rank_consistent(Case &c, const std::string &tag, const SolveOut &o) {
    World &w = world(); struct P { unsigned long long it; double res; int threw; int pad; } me = {o.iters, o.res, o.threw ? 1 : 0, 0};
    std::vector<P> all = vfm::gather_scalar(w.comm, me); if (w.rank) return true;
    bool same = vfm::all_identical(all); std::vector<double> its, rs; for (auto &p : all) { its.push_back((double)p.it); rs.push_back(p.res); }
    c.check(same, "rank-consistency:" + tag, "(iterations, residual) or the exception status returned by the solve differ between ranks", J().arr("iters", its).arr("res", rs));
    return same;
}

struct TruthSpec { std::string solver; size_t maxiter; double tol; double kappa; bool left = false; double left_true = -1; bool must_converge = true; int bicgstabl_L = 2; };
// A, f, x are global (x gathered).  For pside=left the caller passes ||P(f - A x)|| / ||f|| (computed through the solver's own preconditioner) in left_true.
inline void check_truth(Case &c, const std::string &tag, const Csr<double> &A, const std::vector<double> &f, const std::vector<double> &x, const std::vector<double> &x0, const SolveOut &o, const TruthSpec &sp) {
    const double u = 1.1102230246251565e-16;
    size_t itmax = sp.maxiter + (sp.solver == "bicgstabl" ? sp.bicgstabl_L - 1 : 0);
    c.check(o.iters <= itmax, "iterations-exceed-maxiter:" + tag, "returned iteration count exceeds maxiter", J().n("iters", o.iters).n("maxiter", sp.maxiter));
    long double nr = 0, nf = 0, absAx = 0, nx0 = 0, nA = 0; size_t maxrow = 0; bool finite = std::isfinite(o.res);
    for (size_t i = 0; i < A.n; ++i) { long double s = f[i], a = 0, rs = 0; for (auto j = A.ptr[i]; j < A.ptr[i + 1]; ++j) { long double p = (long double)A.val[j] * x[A.col[j]]; s -= p; a += fabsl(p); rs += fabsl(A.val[j]); }
        nr += s * s; nf += (long double)f[i] * f[i]; absAx += a * a; nx0 += (long double)x0[i] * x0[i]; nA = std::max(nA, rs); maxrow = std::max<size_t>(maxrow, A.ptr[i + 1] - A.ptr[i]); if (!std::isfinite(x[i])) finite = false; }
    nr = sqrtl(nr); nf = sqrtl(nf); absAx = sqrtl(absAx); nx0 = sqrtl(nx0); long double tv = sp.left ? (long double)sp.left_true : nr / nf;
    if (!c.check(finite && std::isfinite((double)tv), "non-finite:" + tag, "non-finite reported residual or solution", J().n("reported", o.res).n("true", (double)tv).n("iters", o.iters))) return;
    long double rel, flo;
    if (!recursive_residual(sp.solver) && !sp.left) { rel = 1e-6L; flo = 8.0L * u * (maxrow + 3) * (absAx + nf) / nf; }    // one working-precision evaluation of f - A x and its norm
    else { rel = 1e-3L; flo = 100.0L * u * (o.iters + 1) * sp.kappa * (1 + nA * nx0 / nf); }                              // recursive vs true residual gap, conditioning of the call
    long double bound = std::max(rel * tv, flo), diff = fabsl((long double)o.res - tv);
    vf::obs_max(std::string("max_mismatch_over_bound_") + (recursive_residual(sp.solver) || sp.left ? "recursive" : "explicit"), (double)(diff / bound));
    c.check(diff <= bound, "residual-mismatch:" + tag, "reported residual differs from the true relative residual of the gathered solution beyond the rounding bound",
            J().n("reported", o.res).n("true", (double)tv).n("bound", (double)bound).n("iters", o.iters).bl("left", sp.left));
    if (sp.must_converge) {
        // (the reported value is tied to the true residual by the oracle above, so the clause is stated on the reported one)
        c.check(o.res < sp.tol && o.iters <= itmax, "not-converged:" + tag, "the distributed solve did not reach the tolerance within the iteration budget on an SPD M-matrix",
                J().n("reported", o.res).n("true", (double)(nr / nf)).n("tol", sp.tol).n("iters", o.iters).n("maxiter", sp.maxiter));
        vf::obs_max("max_iters_converged_" + sp.solver, (double)o.iters);
    }
}

inline std::string part_modes(const Part &p) { int e = 0; for (size_t k = 0; k + 1 < p.size(); ++k) if (p[k + 1] == p[k]) ++e; return e ? "empty-ranks" : "all-active"; }

} // namespace c12
