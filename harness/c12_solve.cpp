// C12 -- distributed solve is truthful and rank-consistent for any rank count (DESIGN.md 5/C12), scalar part.
//
// sub-checks
//   solve   mpi::make_solver< mpi::amg<runtime coarsening (inside a recording wrapper), runtime relaxation,
//           runtime direct solver, runtime partition>, runtime solver > over the cross product of the components
//           available offline; oracles: termination (job watchdog), (iters,res) bit-identical on all ranks,
//           true residual of the gathered solution, convergence on G1/G2, and per level of the recorded hierarchy:
//           R = P^T, A_c = s R A P (dense long double), next-level matrix = A_c after repartitioning,
//           global-partition clause of the tentative prolongation (plain aggregation).
//   pmis    mpi::coarsening::pmis called alone: global partition / no empty aggregate / near-null space
//           reproduced across rank boundaries, for block sizes 1..3 and 0..3 near-null-space vectors; then both
//           coarsenings called alone (R = P^T, Galerkin).
//   direct  mpi::direct::{skyline_lu, eigen_splu} and the runtime wrapper called alone against a dense solve.
#define AMGCL_HAVE_EIGEN
#include "c12_common.hpp"
#include <amgcl/mpi/amg.hpp>
#include <amgcl/mpi/coarsening/runtime.hpp>
#include <amgcl/mpi/relaxation/runtime.hpp>
#include <amgcl/mpi/solver/runtime.hpp>
#include <amgcl/mpi/direct_solver/runtime.hpp>
#include <amgcl/mpi/partition/runtime.hpp>
#include <Eigen/LU>

using namespace amgcl;
using namespace c12;
typedef backend::builtin<double> B;
typedef mpi::distributed_matrix<B> DM;

typedef runtime::mpi::coarsening::wrapper<B> RtC;
typedef mpi::amg<B, Rec<RtC, B>, runtime::mpi::relaxation::wrapper<B>, runtime::mpi::direct::solver<double>, runtime::mpi::partition::wrapper<B>> AMG;
typedef mpi::make_solver<AMG, runtime::mpi::solver::wrapper<B>> Solver;

//---------------------------------------------------------------------------
// solve
//---------------------------------------------------------------------------
static const char *COARS[] = {"aggregation", "smoothed_aggregation"};
static const char *RELAX[] = {"spai0", "damped_jacobi", "gauss_seidel", "ilu0", "iluk", "ilup", "ilut", "chebyshev", "spai1"};
static const char *SOLV[] = {"cg", "bicgstab", "bicgstabl", "gmres", "lgmres", "fgmres", "idrs", "richardson"};
static const char *DIRECT[] = {"skyline_lu", "eigen_splu"};
static const int NCELL = 2 * 9 * 8 * 2 * 2;

static void sub_solve() {
    World &w = world(); mpi::communicator comm(w.comm);
    const long sr = vf::opt_int("seed_ranks", w.size);      // development: replay the problem / cell sequence of another rank count on this one
    long N = vf::opt_int("solves", vf::tier(48, 192)); long offset = (long)(sr * 67 + vf::ctx().seed * 29);
    // Cases idx >= N are "thin-slab" cases (ranks > 1 only): a 2-D G1 grid cut into slabs of one or two grid lines per rank, so that EVERY row on
    // EVERY rank (but the outermost lines) has an off-process coupling -- the row distributions under which anything computed from the local part
    // alone (row sums, diagonals of neighbours, strength of connection) is wrong everywhere at once.  Every third one uses the Chebyshev smoother
    // (its polynomial is built on the distributed Gershgorin estimate), the others cycle through the remaining relaxations.
    const long T = w.size > 1 ? vf::opt_int("thin_solves", vf::tier(12, 48)) : 0;
    // Cases idx >= N + T are "partly convective" cases: run only by the dedicated jobs (--convective=1, 2-4 ranks, short watchdog) and only those run there.
    // An upwind convection term covers the lowest third / half / quarter of the grid lines, the grid is cut into strips of lines, so the
    // strength-of-connection graph is non-symmetric on some ranks only and PMIS aggregates vanish on a strict subset of the ranks.  Not an SPD
    // M-matrix: no convergence clause, Krylov breakdowns are not counted; termination, rank-consistency, truthful residual and the hierarchy oracles stay.
    const bool conv_only = vf::opt_int("convective", 0) != 0; const long CV = conv_only ? vf::opt_int("conv_solves", vf::tier(8, 32)) : 0;
    for (long idx = conv_only ? N + T : 0; idx < N + T + CV; ++idx) {
        if (!vf::selected("solve", idx)) continue;
        const bool conv = idx >= N + T; const bool thin = idx >= N && !conv; const long k = idx - N;
        uint64_t cs = vf::case_seed("solve", idx * 16 + sr); Rng r(cs); vfm::seed_delays(cs, w.rank);
        long cell = (offset + idx * 115) % NCELL;
        std::string co = COARS[cell % 2], rl = RELAX[(cell / 2) % 9], sv = SOLV[(cell / 18) % 8], ds = DIRECT[(cell / 144) % 2]; bool repart = (cell / 288) % 2;
        if (thin) { static const char *OTHER[] = {"spai0", "damped_jacobi", "gauss_seidel", "ilu0", "iluk", "ilup", "ilut", "spai1"}; static const char *TS[] = {"cg", "bicgstab", "gmres", "cg", "idrs", "fgmres", "cg", "lgmres", "bicgstabl", "richardson"};
            rl = k % 3 == 0 ? "chebyshev" : OTHER[(k / 3 * 2 + k % 3 - 1 + vf::ctx().seed) % 8]; sv = TS[(k / 3 + (k % 3) * 3 + sr) % 10]; co = COARS[(k / 3 + k % 3) % 2]; }
        // partly convective cases: solvers that recompute the residual on exit (the kappa-based bound for recursive residuals does not cover the residual
        // peaks of BiCGStab / IDR(s) on a convection-dominated system: seen 7e-9 reported vs 3e-7 true after 258 IDR(s) steps) and no Chebyshev smoother (SPD only)
        if (conv) { static const char *CS[] = {"gmres", "fgmres", "lgmres"}; sv = CS[(idx + sr) % 3]; co = COARS[idx % 2]; if (rl == "chebyshev") rl = "spai0"; }
        { std::string fr = vf::opt("force_relax"), fs = vf::opt("force_solver"); if (!fr.empty()) rl = fr; if (!fs.empty()) sv = fs; }      // targeted runs (development / replay of a cell family)
        Problem p; Part rp; Rng rpart(cs ^ 0x5bd1e9955bd1e995ULL);     // own stream for the partition: every other draw is independent of the rank count
        if (conv) { ConvSpec sp; p.A = random_partly_convective(rpart, w.size, sp, rp, 28); p.family = "partly-convective"; p.f = vf::random_vector(p.A.n, r); p.x0.assign(p.A.n, 0.0); vf::obs_sum("partly_convective_solves"); }
        else if (!thin) { p = make_problem(r, 300, (int)vf::tier(900, 1500)); rp = vfm::random_part(p.A.n, w.size, rpart); }
        else { int lines = (int)rpart.range(1, 2); vf::GridSpec g; g.ny = lines * w.size; g.nx = std::max<int>((int)rpart.range(24, 48), (300 + g.ny - 1) / g.ny); g.nz = 1; g.nine = r.coin(0.25);
            g.contrast = r.coin(0.6) ? 1.0 : r.logu(1.0, 10.0); g.aniso = r.coin(0.7) ? 1.0 : r.logu(0.1, 1.0);
            p.A = vf::grid_diffusion(g, r); validate_spd_mmatrix(p.A); p.family = std::string("G1-") + (g.nine ? "9pt" : "5pt") + "-thin-slab"; p.f = vf::random_vector(p.A.n, r); p.x0.assign(p.A.n, 0.0);
            rp.assign(w.size + 1, 0); for (int q = 0; q <= w.size; ++q) rp[q] = (ptrdiff_t)q * lines * g.nx; vf::obs_sum("thin_slab_solves"); if (rl == "chebyshev") vf::obs_sum("thin_slab_chebyshev_solves"); }
        bool budget = r.coin(0.2) && !thin && !conv, left = !budget && !conv && (sv == "bicgstab" || sv == "bicgstabl" || sv == "gmres" || sv == "lgmres") && r.coin(0.25), rebuildable = r.coin();
        size_t maxiter = budget ? (size_t)r.range(3, 9) : (sv == "richardson" ? 1000 : 300); double tol = 1e-8;
        if (!budget) maxiter = (size_t)vf::opt_int("force_maxiter", (long)maxiter);     // development only
        ptree prm; prm.put("precond.coarsening.type", co); prm.put("precond.relax.type", rl); prm.put("precond.direct.type", ds); prm.put("precond.repart.type", "merge");
        unsigned coarse_enough = (unsigned)r.range(20, 120); prm.put("precond.coarse_enough", coarse_enough); prm.put("precond.allow_rebuild", rebuildable);
        if (repart) { prm.put("precond.repart.enable", true); prm.put("precond.repart.min_per_proc", r.range(30, 400)); prm.put("precond.repart.shrink_ratio", r.range(2, 4)); }
        if (r.coin(0.3)) { prm.put("precond.npre", r.range(1, 2)); prm.put("precond.npost", r.range(1, 2)); } if (r.coin(0.15)) prm.put("precond.ncycle", 2);
        double over_interp = 1.5; if (co == "aggregation" && r.coin(0.3)) { over_interp = 1.0 + 0.25 * r.range(0, 2); prm.put("precond.coarsening.over_interp", over_interp); r.range(0, 1); }   // <= the default 1.5: a factor of 2 makes the coarse correction of a stationary iteration overshoot (1 - alpha = -1)
        bool est = co == "smoothed_aggregation" && r.coin(0.4); if (est) { prm.put("precond.coarsening.estimate_spectral_radius", true); prm.put("precond.coarsening.power_iters", r.coin() ? 0 : 5); }
        prm.put("solver.type", sv); prm.put("solver.maxiter", maxiter); prm.put("solver.tol", tol); if (left) prm.put("solver.pside", "left");
        std::string cellname = co + ":" + rl + ":" + sv; std::string tag = cellname + (w.size > 1 ? ":np>1" : ":np=1");
        Case c("solve", idx, J().n("ranks", w.size).s("coarsening", co).s("relax", rl).s("solver", sv).s("direct", ds).bl("repart", repart).s("family", p.family).n("n", p.A.n).s("rows", vfm::part_str(rp)).bl("budget_limited", budget).bl("left", left).bl("x0_zero", p.x0_zero).bl("allow_rebuild", rebuildable).n("coarse_enough", coarse_enough).n("over_interp", over_interp).n("npre", prm.get("precond.npre", 1)).n("npost", prm.get("precond.npost", 1)).n("ncycle", prm.get("precond.ncycle", 1)));
        Csr<double> S = vfm::slice_rows(p.A, rp[w.rank], rp[w.rank + 1]); size_t nloc = S.n;
        std::vector<double> f(p.f.begin() + rp[w.rank], p.f.begin() + rp[w.rank + 1]), x(p.x0.begin() + rp[w.rank], p.x0.begin() + rp[w.rank + 1]);
        SolveOut o; std::unique_ptr<Solver> slv; g_rec.lv.clear(); g_rec.on = true;
        try { slv.reset(new Solver(comm, std::tie(nloc, S.ptr, S.col, S.val), prm)); g_rec.on = false; std::tie(o.iters, o.res) = (*slv)(f, x); }
        catch (const std::exception &e) { g_rec.on = false; o.threw = true; o.what = e.what(); if (conv) vf::obs_sum("nonsym_exceptions_not_counted"); else c.fail("exception:" + tag, e.what()); }
        bool same = check_rank_consistent(c, tag, o);
        int anythrew = o.threw, gt = 0; MPI_Allreduce(&anythrew, &gt, 1, MPI_INT, MPI_MAX, w.comm); if (gt) continue;
        std::vector<double> gx = allgather_vec(x.data(), rp);
        // Richardson is a stationary iteration: it converges iff rho(I - B A) < 1, which the V-cycle with over-interpolated plain aggregation does not
        // guarantee even on one rank (witness: aggregation + damped_jacobi on a G2 geometric graph, n = 775, diverges bit-identically on 1..8 ranks).
        // The convergence clause stays as the property states it; to tell "the method diverges" from "the distribution breaks it" the same
        // configuration is also run by rank 0 alone on MPI_COMM_SELF and the outcome is attached to the failure detail.
        bool ref_converges = true; size_t ref_iters = 0;
        if (sv == "richardson" && !budget && w.size > 1) { if (w.rank == 0) { try { mpi::communicator self(MPI_COMM_SELF); size_t nn = p.A.n; std::vector<double> xr = p.x0; Solver ref(self, std::tie(nn, p.A.ptr, p.A.col, p.A.val), prm); double rr; std::tie(ref_iters, rr) = ref(p.f, xr); ref_converges = std::isfinite(rr) && rr < tol; }
                catch (const std::exception &) { ref_converges = false; } vf::obs_sum(ref_converges ? "richardson_reference_converges" : "richardson_reference_diverges"); } }
        // left preconditioning: the reported quantity is || P (f - A x) || / || f ||, P applied through the solver's own preconditioner
        double left_true = -1;
        if (left) { std::vector<double> rl_(nloc), z(nloc, 0.0); auto y = vf::spmv_ld(p.A, gx); for (size_t i = 0; i < nloc; ++i) rl_[i] = (double)((long double)p.f[rp[w.rank] + i] - y[rp[w.rank] + i]);
            slv->precond().apply(rl_, z); std::vector<double> gz = allgather_vec(z.data(), rp); left_true = vf::norm2(gz) / vf::norm2(p.f); }
        // levels kept by the hierarchy (sources survive only with allow_rebuild): P and R after repartitioning
        Bag bag(w.comm); int nlev = 0; std::vector<std::pair<long, long>> pdim;
        { auto &lv = amgcl::verif::access::levels(slv->precond()); for (auto &l : lv) { if (rebuildable && l.P && l.R && l.P->local() && l.R->local()) { vfm::bag_dm(bag, 100 + 2 * nlev, *l.P, row_shift_of(l.P->loc_rows())); vfm::bag_dm(bag, 101 + 2 * nlev, *l.R, row_shift_of(l.R->loc_rows())); pdim.emplace_back(l.P->glob_rows(), l.P->glob_cols()); } else pdim.emplace_back(-1, -1); ++nlev; } }
        bag.collect();
        if (w.rank) continue;
        //-------------------------------------------------------------- rank 0
        double kappa = conv ? kappa_svd(p.A) : kappa_spd(p.A);
        TruthSpec ts; ts.solver = sv; ts.maxiter = maxiter; ts.tol = tol; ts.kappa = kappa; ts.left = left; ts.left_true = left_true; ts.must_converge = !budget && !conv;
        // CG is defined for a symmetric positive definite preconditioner only; a V(npre != npost) cycle is non-symmetric by the caller's own choice of
        // parameters, so the convergence clause is not asserted there (termination, rank-consistency and the truthful residual still are)
        if (sv == "cg" && prm.get("precond.npre", 1) != prm.get("precond.npost", 1)) { ts.must_converge = false; vf::obs_sum("cg_nonsymmetric_cycle_cases"); }
        if (sv == "richardson" && !budget) { if (w.size > 1) ts.note = ref_converges ? "converges in " + std::to_string(ref_iters) + " iterations" : "does not converge either"; else { ts.note = "this is the single-rank run"; vf::obs_sum((std::isfinite(o.res) && o.res < tol) ? "richardson_np1_converges" : "richardson_np1_diverges"); } }
        if (same) check_truth(c, tag, p.A, p.f, gx, p.x0, o, ts);
        c.check(nlev >= 2, "harness:single-level:" + tag, "hierarchy has a single level; the case does not exercise the distributed setup", J().n("levels", nlev));
        // recorded hierarchy
        double s = co == "aggregation" ? (double)(1 / (float)over_interp) : 1.0;
        for (size_t l = 0; l < g_rec.lv.size(); ++l) { LevelRec &L = g_rec.lv[l]; std::string lt = co + ":level";
            c.check(L.bad == 0, "hierarchy:duplicate-or-out-of-range-entry:" + lt, "a gathered level matrix has duplicate or out-of-range entries", J().n("level", l).n("count", L.bad));
            check_transpose(c, lt, L.P, L.R);
            if (L.have_ac) check_galerkin(c, lt + (repart ? ":repart" : ""), L.A, L.P, L.R, L.Ac, s);
            if (co == "aggregation") { PartStat st = check_partition(c, lt, L.A, L.P, 0.08, 1, 0); vf::obs_sum("partition_levels_checked"); vf::obs_sum("nonisolated_unknowns_checked", (double)st.nonisolated); }
            if (l + 1 < g_rec.lv.size() && L.have_ac) c.check(same_matrix(L.Ac, g_rec.lv[l + 1].A), "hierarchy:next-level-matrix:" + std::string(repart ? "repart" : "norepart"), "the matrix coarsened on the next level is not the Galerkin matrix of this level (as a global matrix)", J().n("level", l));
            if (rebuildable && l < pdim.size() && pdim[l].first >= 0) { GMat gp = bag_to_csr(bag, 100 + 2 * (int)l, pdim[l].first, pdim[l].second), gr = bag_to_csr(bag, 101 + 2 * (int)l, pdim[l].second, pdim[l].first);
                c.check(gp.dups + gp.range + gr.dups + gr.range == 0 && same_matrix(gp.M, L.P) && same_matrix(gr.M, L.R), "hierarchy:transfer-operators-after-repartition:" + std::string(repart ? "repart" : "norepart"), "P / R kept by the hierarchy differ (as global matrices) from those the coarsening produced", J().n("level", l)); }
        }
        c.check(!g_rec.lv.empty(), "harness:nothing-recorded:" + tag, "recording coarsening wrapper saw no level");
        c.nontrivial(); vf::obs_add("cells_covered", cellname + ":" + ds + (repart ? ":merge" : ":norepart")); vf::obs_sum("solves"); if (part_modes(rp) == "empty-ranks") vf::obs_sum("solves_with_empty_ranks"); if (repart) vf::obs_sum("solves_with_repartition");
        vf::obs_sum("levels_recorded", (double)g_rec.lv.size());
        vf::sample("solve_r" + std::to_string(w.size), J().n("ranks", w.size).s("cell", cellname).s("direct", ds).bl("repart", repart).s("family", p.family).n("n", p.A.n).s("rows", vfm::part_str(rp)).n("iters", o.iters).n("res", o.res).n("levels", nlev).n("kappa", kappa), 2);
    }
}

//---------------------------------------------------------------------------
// pmis / coarsenings alone
//---------------------------------------------------------------------------
// Definition oracle for the distributed smoothed aggregation (scalar values, block size 1), in the spirit of the serial C04 one:
// P = (I - omega D_F^-1 A_F) P_tent with omega = 2/3 (relax = 1, no spectral-radius estimate), A_F the filtered matrix: strong off-diagonal
// entries kept, every weak off-diagonal entry -- wherever its column lives -- lumped into the diagonal.  Strength is evaluated from its
// definition a_ij^2 > eps^2 a_ii a_jj on the assembled GLOBAL matrix; rows with an entry within rounding of the threshold are skipped.
// Consequence checked on the way: on zero-row-sum rows of the unfiltered matrix the rows of P reproduce the constant (piecewise-constant P_tent).
static void check_smoothed_prolongation(Case &c, const std::string &tag, const Csr<double> &A, const Csr<double> &Pt, const Csr<double> &P, double eps, bool constants) {
    const long double u = 1.1102230246251565e-16L, omega = 2.0L / 3; long n = A.n; if ((long)Pt.n != n || (long)P.n != n || Pt.m != P.m) { c.check(false, "smoothed-prolongation:shape:" + tag, "P and P_tent do not have the same shape"); return; }
    std::vector<double> dia(n, 0.0); for (long i = 0; i < n; ++i) for (auto j = A.ptr[i]; j < A.ptr[i + 1]; ++j) if (A.col[j] == i) dia[i] = A.val[j];
    bool pat = true, val = true, ones = true; double worst = 0, worst1 = 0; long rows = 0, skipped = 0, weak_rows = 0, badrow = -1;
    for (long i = 0; i < n; ++i) { bool amb = false, hasweak = false; long double dsum = dia[i], rowsum = 0; std::vector<std::pair<long, long double>> strong;
        for (auto j = A.ptr[i]; j < A.ptr[i + 1]; ++j) { long cj = A.col[j]; rowsum += A.val[j]; if (cj == i) continue; long double lhs = (long double)eps * eps * dia[i] * dia[cj], rhs = (long double)A.val[j] * A.val[j];
            if (rhs > lhs * (1 + 1e-9L)) strong.emplace_back(cj, A.val[j]); else if (rhs < lhs * (1 - 1e-9L)) { dsum += A.val[j]; hasweak = true; } else amb = true; }
        if (amb || dsum == 0) { ++skipped; continue; } ++rows; if (hasweak) ++weak_rows;
        struct T { long double v = 0, a = 0; long cnt = 0; }; std::map<long, T> ref;
        auto add = [&](long row, long double coef) { for (auto q = Pt.ptr[row]; q < Pt.ptr[row + 1]; ++q) { T &t = ref[Pt.col[q]]; long double x = coef * Pt.val[q]; t.v += x; t.a += fabsl(x); t.cnt++; } };
        add(i, 1 - omega); for (auto &sj : strong) add(sj.first, -omega * sj.second / dsum);
        if ((size_t)(P.ptr[i + 1] - P.ptr[i]) != ref.size()) { pat = false; badrow = i; }
        long double s1 = 0; for (auto q = P.ptr[i]; q < P.ptr[i + 1]; ++q) { s1 += P.val[q]; auto it = ref.find(P.col[q]); if (it == ref.end()) { pat = false; badrow = i; continue; }
            long double d = fabsl((long double)P.val[q] - it->second.v), bound = 8.0L * (it->second.cnt + 8) * u * it->second.a; if (!(d <= bound)) { val = false; badrow = i; } if (it->second.a > 0) worst = std::max(worst, (double)(d / it->second.a)); }
        // constants: row of A sums to zero (to rounding), the row and all its strong neighbours belong to aggregates => sum_c P_ic = 1
        if (constants && fabsl(rowsum) <= 1e-13L * fabsl(dia[i]) && Pt.ptr[i + 1] > Pt.ptr[i]) { bool all = true; for (auto &sj : strong) if (Pt.ptr[sj.first + 1] == Pt.ptr[sj.first]) all = false;
            if (all) { double e1 = (double)fabsl(s1 - 1); worst1 = std::max(worst1, e1); if (!(e1 <= 1e-12)) { ones = false; badrow = i; } } } }
    c.check(pat, "smoothed-prolongation:pattern:" + tag, "pattern of the distributed smoothed prolongation differs from that of (I - w D_F^-1 A_F) P_tent", J().n("row", badrow));
    c.check(val, "smoothed-prolongation:value:" + tag, "distributed smoothed prolongation differs from (I - w D_F^-1 A_F) P_tent evaluated on the global matrix (weak entries lumped into the diagonal wherever their column lives)", J().n("row", badrow).n("worst_rel", worst));
    if (constants) c.check(ones, "smoothed-prolongation:constants-not-reproduced:" + tag, "rows of P do not sum to one on a zero-row-sum row", J().n("row", badrow).n("worst", worst1));
    vf::obs_max("max_rel_smoothed_prolongation_discrepancy", worst); vf::obs_sum("smoothed_prolongation_rows_checked", (double)rows); vf::obs_sum("smoothed_prolongation_rows_with_weak_entries", (double)weak_rows); vf::obs_sum("smoothed_prolongation_rows_skipped_ambiguous", (double)skipped);
}

// Smallest aggregate (number of unknowns) that mpi::coarsening::pmis forms for (A, eps, block size) -- the aggregates do not depend on the
// near-null-space vectors, so this is computed with none.  Collective.
static long smallest_aggregate(const DM &A, double eps, int b, long cap) {
    World &w = world(); mpi::coarsening::pmis<B>::params p0; p0.eps_strong = eps; p0.block_size = b; mpi::coarsening::pmis<B> a0(A, p0); auto &P0 = *a0.p_tent;
    std::vector<long> cnt(P0.glob_cols() / b + 1, 0), gc(P0.glob_cols() / b + 1, 0);
    for (auto part : {P0.local(), P0.remote()}) for (size_t i = 0; i < part->nrows; ++i) for (auto j = part->ptr[i]; j < part->ptr[i + 1]; ++j) cnt[(part->col[j] + (part == P0.local() ? P0.loc_col_shift() : 0)) / b]++;
    MPI_Allreduce(cnt.data(), gc.data(), (int)cnt.size(), MPI_LONG, MPI_SUM, w.comm); long mn = cap; for (size_t a = 0; a + 1 < gc.size(); ++a) mn = std::min(mn, gc[a]); return mn;
}

// (the number of near-null-space vectors is capped per case by the size of the smallest aggregate, see below)
// sub "pmis": block size 1 with 0..3 near-null-space vectors, or block size 2..3 without near-null space;
// sub "pmis_bk": block size 2..3 together with 1..3 near-null-space vectors (kept apart: on this tree the column
// numbering of that combination is wrong, the library then crashes and would take the other cases with it)
static void sub_pmis(const std::string &sub) {
    World &w = world(); mpi::communicator comm(w.comm); const bool bk = sub == "pmis_bk", small = sub == "pmis_small_aggr";
    // sub "pmis_small_aggr" (own mpi-asan jobs only): the input class "more near-null-space vectors than the smallest aggregate has unknowns".
    // The vectors cannot be reproduced there; what is monitored is memory safety of the call (on this tree: QR::R reads past its buffer).
    const bool conv_only = vf::opt_int("convective", 0) != 0 && !small && !bk;     // dedicated jobs: partly convective inputs only (see sub_solve)
    long N = conv_only ? vf::opt_int("conv_pmis_cases", vf::tier(8, 32)) : small ? vf::opt_int("small_cases", 3) : bk ? vf::opt_int("pmis_bk_cases", vf::tier(8, 60)) : vf::opt_int("pmis_cases", vf::tier(16, 120));
    for (long idx = 0; idx < N; ++idx) {
        if (!vf::selected(sub, idx)) continue;
        uint64_t cs = vf::case_seed(sub, (idx + (conv_only ? 5000 : 0)) * 16 + w.size); Rng r(cs); vfm::seed_delays(cs, w.rank);
        int b = idx % 3 == 2 ? (int)r.range(2, 3) : 1; int K = (int)r.range(0, 3); if (idx % 5 == 0) K = 0;
        if (conv_only) { b = 1; K = (int)r.range(0, 2); }
        if (bk) { b = (int)r.range(2, 3); K = (int)r.range(1, 3); } else if (b > 1) K = 0;
        if (small) { b = 1; K = 3; }
        Problem p = make_problem(r, 40, idx % 4 == 0 ? 120 : 500);
        // every fourth case: anisotropic 2-D grid whose weak direction (y, the slow index) is the one the contiguous row partition cuts,
        // so that weak connections cross rank boundaries
        bool aniso_case = !small && !conv_only && idx % 4 == 1;
        if (aniso_case) { vf::GridSpec g; g.nx = (int)r.range(6, 20); g.ny = (int)r.range(std::max(4, w.size), 24); g.nz = 1; g.aniso = r.logu(0.01, 0.15); g.contrast = r.coin() ? 1.0 : r.logu(1.0, 3.0);
            p.A = vf::grid_diffusion(g, r); validate_spd_mmatrix(p.A); p.family = "G1-5pt-anisotropic"; vf::obs_sum("pmis_anisotropic_cases"); }
        Part conv_rp; if (conv_only) { ConvSpec sp; p.A = random_partly_convective(r, w.size, sp, conv_rp); p.family = "partly-convective"; vf::obs_sum("partly_convective_pmis_cases"); }
        // isolate a few vertices (diagonal-only rows and columns)
        Csr<double> A0 = p.A; bool iso = r.coin(0.5) && !conv_only; std::set<long> isolated;
        if (iso) { long cnt = r.range(1, std::max<long>(1, A0.n / 15)); for (long q = 0; q < cnt; ++q) isolated.insert(r.range(0, A0.n - 1));
            Csr<double> T(A0.n, A0.n); for (size_t i = 0; i < A0.n; ++i) { for (auto j = A0.ptr[i]; j < A0.ptr[i + 1]; ++j) if ((size_t)A0.col[j] == i || (!isolated.count(i) && !isolated.count(A0.col[j]))) T.push(A0.col[j], A0.val[j]); T.end_row(); } A0 = T; validate_spd_mmatrix(A0); }
        Csr<double> G = b == 1 ? A0 : vf::kron(A0, r.coin() ? vf::identity_block(b) : vf::spd_block(b, r), b);
        long n = G.n; Part rp = vfm::random_part(n, w.size, r, b); double eps = r.coin(0.7) ? 0.08 : r.uni(0.02, 0.3); if (small) eps = r.uni(0.2, 0.4);
        if (conv_only) { rp = conv_rp; eps = r.coin(0.7) ? 0.08 : r.uni(0.05, 0.15); }
        long smallest = -1;
        if (small) { Csr<double> S0 = vfm::slice_rows(G, rp[w.rank], rp[w.rank + 1]); size_t n0 = S0.n; DM A0d(comm, std::tie(n0, S0.ptr, S0.col, S0.val), n0); smallest = smallest_aggregate(A0d, eps, b, 4);
            if (smallest >= 3 || smallest < 1) { vf::obs_sum("small_aggr_cases_outside_the_class"); continue; } K = (int)smallest + 1; }
        std::vector<double> Bf((size_t)n * K); for (long i = 0; i < n; ++i) for (int q = 0; q < K; ++q) Bf[i * K + q] = q == 0 ? 1.0 : r.uni(-1, 1);
        Case c(sub, idx, J().n("ranks", w.size).s("family", p.family).n("n", n).n("block_size", b).n("nullspace_cols", K).n("smallest_aggregate", smallest).n("isolated", isolated.size()).n("eps_strong", eps).s("rows", vfm::part_str(rp)));
        Csr<double> S = vfm::slice_rows(G, rp[w.rank], rp[w.rank + 1]); size_t nloc = S.n;
        Bag bag(w.comm); std::vector<double> Bc_loc; long pcols = 0, pshift = 0; bool threw = false, malformed = false; const int Kreq = K; std::string tag;
        try {
            DM A(comm, std::tie(nloc, S.ptr, S.col, S.val), nloc);
            // Precondition of the near-null-space clause: an aggregate with fewer unknowns than vectors cannot reproduce them (and the
            // library's QR then reads past its buffer, in the serial tentative_prolongation as well).  The aggregates do not depend on the
            // vectors, so they are computed once without them and the number of vectors is capped by the smallest aggregate.
            if (K && !small) { long mn = smallest_aggregate(A, eps, b, K);
                if (mn < K) { vf::obs_sum("nullspace_vectors_capped_by_small_aggregate"); K = (int)mn; std::vector<double> B2((size_t)n * K); for (long i = 0; i < n; ++i) for (int q = 0; q < K; ++q) B2[i * K + q] = Bf[i * Kreq + q]; Bf.swap(B2); } }
            tag = "b" + std::string(b > 1 ? ">1" : "=1") + ":K" + (K ? ">0" : "=0");
            mpi::coarsening::pmis<B>::params prm; prm.eps_strong = eps; prm.block_size = b; prm.nullspace.cols = K; prm.nullspace.B.assign(Bf.begin() + rp[w.rank] * K, Bf.begin() + rp[w.rank + 1] * K);
            mpi::coarsening::pmis<B> aggr(A, prm); auto &P = *aggr.p_tent;
            pcols = P.glob_cols(); pshift = P.loc_col_shift();
            int perr = vfm::dm_local_check(P, nloc, P.loc_cols(), pshift, pcols), gperr = 0; MPI_Allreduce(&perr, &gperr, 1, MPI_INT, MPI_MAX, w.comm);
            bag.add(1, w.rank, 0, perr); vfm::bag_dm(bag, 2, P, rp[w.rank]);
            if (gperr) throw std::domain_error("malformed tentative prolongation");      // using it further (transpose, product) would run out of bounds
            if (K) { Bc_loc = prm.nullspace.B; bag.add(1, w.rank, 1, (long)Bc_loc.size() == (long)P.loc_cols() * K ? 0 : 100); for (long g = 0; g < (long)P.loc_cols() && (size_t)(g * K + K) <= Bc_loc.size(); ++g) bag.add(3, pshift + g, 0, &Bc_loc[g * K], K); }
            // both coarsenings alone, same parameters
            for (int which = 0; which < 2; ++which) { std::shared_ptr<DM> Pm, Rm, Ac; double s = 1;
                std::vector<double> Bl(Bf.begin() + rp[w.rank] * K, Bf.begin() + rp[w.rank + 1] * K);
                if (which == 0) { mpi::coarsening::aggregation<B>::params cp; cp.aggr.eps_strong = eps; cp.aggr.block_size = b; cp.aggr.nullspace.cols = K; cp.aggr.nullspace.B = Bl; mpi::coarsening::aggregation<B> C(cp); std::tie(Pm, Rm) = C.transfer_operators(A); Ac = C.coarse_operator(A, *Pm, *Rm); s = (double)(1 / cp.over_interp); }
                else { mpi::coarsening::smoothed_aggregation<B>::params cp; cp.aggr.eps_strong = eps; cp.aggr.block_size = b; cp.aggr.nullspace.cols = K; cp.aggr.nullspace.B = Bl; mpi::coarsening::smoothed_aggregation<B> C(cp); std::tie(Pm, Rm) = C.transfer_operators(A); Ac = C.coarse_operator(A, *Pm, *Rm); }
                if (w.rank == 0) { bag.add(10 + which, 0, 0, (double)Pm->glob_cols()); bag.add(10 + which, 1, 0, s); }
                vfm::bag_dm(bag, 20 + which, *Pm, rp[w.rank]); vfm::bag_dm(bag, 30 + which, *Rm, Pm->loc_col_shift()); vfm::bag_dm(bag, 40 + which, *Ac, Ac->loc_col_shift()); }
        } catch (const std::domain_error &) { malformed = true; }
        catch (const std::exception &e) { threw = true; c.fail("exception:pmis:" + tag, e.what()); }
        bag.collect(); if (w.rank || threw) continue;
        for (auto rec : bag.with(1)) c.check((int)rec->v[0] == 0, rec->j == 0 ? std::string("pmis:malformed:") + vfm::dm_err((int)rec->v[0] % 100) : "pmis:coarse-nullspace-size", "rank-local structural monitor of the tentative prolongation failed", J().n("rank", rec->i).n("code", rec->v[0]));
        GMat gp = bag_to_csr(bag, 2, n, pcols); c.check(gp.dups + gp.range == 0, "pmis:duplicate-or-out-of-range-entry:" + tag, "gathered tentative prolongation has duplicate or out-of-range entries");
        PartStat st = check_partition(c, "pmis:" + tag, G, gp.M, eps, b, K);
        vf::obs_sum("pmis_nonisolated_points", (double)st.nonisolated); vf::obs_sum("pmis_isolated_points", (double)st.isolated); vf::obs_sum("pmis_ambiguous_points", (double)st.ambiguous);
        if (K) { // near-null space: P_tent * B_c = B on every row that belongs to an aggregate with at least K unknowns
            std::vector<std::vector<double>> Bc(pcols, std::vector<double>(K, 0.0)); std::vector<int> got(pcols, 0); for (auto rec : bag.with(3)) if (rec->i >= 0 && rec->i < pcols) { Bc[rec->i] = rec->v; got[rec->i]++; }
            bool cover = true; for (auto g : got) if (g != 1) cover = false; c.check(cover, "nullspace:coarse-vectors-layout:" + tag, "coarse near-null-space rows do not cover every coarse unknown exactly once");
            long np = n / b; std::vector<long double> fro(st.aggregates, 0); std::vector<long> rows_in(st.aggregates, 0);
            for (long i = 0; i < n; ++i) { long a = st.agg_of_point[i / b]; if (a < 0 || a >= st.aggregates) continue; rows_in[a]++; for (int q = 0; q < K; ++q) fro[a] += (long double)Bf[i * K + q] * Bf[i * K + q]; }
            bool ok = true; double worst = 0; long checked = 0, small = 0; (void)np;
            for (long i = 0; i < n; ++i) { long a = st.agg_of_point[i / b]; if (a < 0 || a >= st.aggregates) continue; if (rows_in[a] < K) { ++small; continue; }
                for (int q = 0; q < K; ++q) { long double s = 0; for (auto j = gp.M.ptr[i]; j < gp.M.ptr[i + 1]; ++j) s += (long double)gp.M.val[j] * Bc[gp.M.col[j]][q];
                    long double bound = 100.0L * (rows_in[a] + K) * K * 1.1102230246251565e-16L * sqrtl(fro[a]), d = fabsl(s - Bf[i * K + q]); if (!(d <= bound)) ok = false; worst = std::max(worst, (double)(d / sqrtl(fro[a]))); ++checked; } }
            c.check(ok, "nullspace:not-reproduced:" + tag, "P_tent * B_coarse differs from the fine near-null-space vectors beyond the QR backward error bound", J().n("worst_rel", worst).n("block_size", b).n("nullspace_cols", K));
            vf::obs_max("max_rel_nullspace_discrepancy", worst); vf::obs_sum("nullspace_entries_checked", (double)checked); vf::obs_sum("nullspace_rows_in_small_aggregates", (double)small); }
        for (int which = 0; which < 2 && !malformed; ++which) { auto sc = bag.with(10 + which); if (sc.size() != 2) { c.fail("harness:pmis-scalars", "missing"); continue; } long nc = (long)sc[0]->v[0]; double s = sc[1]->v[0]; std::string ct = std::string(COARS[which]) + ":alone:" + tag;
            GMat P = bag_to_csr(bag, 20 + which, n, nc), R = bag_to_csr(bag, 30 + which, nc, n), Ac = bag_to_csr(bag, 40 + which, nc, nc);
            c.check(P.dups + P.range + R.dups + R.range + Ac.dups + Ac.range == 0, "hierarchy:duplicate-or-out-of-range-entry:" + ct, "a gathered matrix has duplicate or out-of-range entries");
            check_transpose(c, ct, P.M, R.M); check_galerkin(c, ct, G, P.M, R.M, Ac.M, s);
            if (which == 1 && b == 1 && gp.dups + gp.range == 0) check_smoothed_prolongation(c, tag, G, gp.M, P.M, eps, K == 0); }
        if (st.nonisolated) c.nontrivial(); vf::obs_sum("pmis_cases");
        vf::sample("pmis_r" + std::to_string(w.size), J().n("ranks", w.size).n("n", n).n("block_size", b).n("nullspace_cols", K).n("aggregates", st.aggregates).n("isolated_points", st.isolated).s("rows", vfm::part_str(rp)), 1);
    }
}

//---------------------------------------------------------------------------
// direct solvers alone
//---------------------------------------------------------------------------
template <class S, class... Extra> static void run_direct(Case &c, const std::string &name, mpi::communicator comm, const Csr<double> &G, const Part &rp, const std::vector<double> &f1, const std::vector<double> &f2, bool from_strip, Extra... extra) {
    World &w = world(); Csr<double> St = vfm::slice_rows(G, rp[w.rank], rp[w.rank + 1]); size_t nloc = St.n; SolveOut o;
    std::vector<double> fa(f1.begin() + rp[w.rank], f1.begin() + rp[w.rank + 1]), fb(f2.begin() + rp[w.rank], f2.begin() + rp[w.rank + 1]), xa(nloc, 7.0), xb(nloc, -3.0);
    try { std::unique_ptr<S> slv;
        if (from_strip) { backend::crs<double> strip(nloc, G.m, St.ptr, St.col, St.val); slv.reset(new S(comm, strip, extra...)); }
        else { DM A(comm, std::tie(nloc, St.ptr, St.col, St.val), nloc); slv.reset(new S(comm, A, extra...)); }
        (*slv)(fa, xa); (*slv)(fb, xb); (*slv)(fa, xb = std::vector<double>(nloc, 1e300)); }
    catch (const std::exception &e) { o.threw = true; c.fail("exception:direct:" + name, e.what()); }
    int t = o.threw, gt = 0; MPI_Allreduce(&t, &gt, 1, MPI_INT, MPI_MAX, w.comm); if (gt) return;
    std::vector<double> ga = allgather_vec(xa.data(), rp), gb = allgather_vec(xb.data(), rp); if (w.rank) return;
    long n = G.n; vf::LD D = vf::to_dense(G); vf::LV rhs = vf::to_lv(f1); Eigen::PartialPivLU<vf::LD> lu(D); vf::LV xr = lu.solve(rhs); double kappa = vf::cond2(D);
    long double e = 0, nx = 0; bool fin = true; for (long i = 0; i < n; ++i) { e += (ga[i] - xr[i]) * (ga[i] - xr[i]); nx += xr[i] * xr[i]; if (!std::isfinite(ga[i])) fin = false; }
    double rel = (double)sqrtl(e / nx), bound = 50.0 * (n + 10) * 1.1102230246251565e-16 * kappa;     // LU of a diagonally dominant matrix: growth <= 2, forward error <= c n u kappa
    c.check(fin && rel <= bound, "direct:solution:" + name, "distributed direct solve differs from the dense solution of the gathered system beyond c n u kappa", J().n("rel_err", rel).n("bound", bound).n("kappa", kappa).n("n", n));
    c.check(ga == gb, "direct:not-repeatable:" + name, "a second solve with the same right-hand side (after another solve) returned different bits");
    vf::obs_max("max_direct_err_over_bound", rel / bound); vf::obs_sum("direct_solves");
}
static void sub_direct() {
    World &w = world(); mpi::communicator comm(w.comm);
    long N = vf::opt_int("direct_cases", vf::tier(16, 150));
    for (long idx = 0; idx < N; ++idx) {
        if (!vf::selected("direct", idx)) continue;
        uint64_t cs = vf::case_seed("direct", idx * 16 + w.size); Rng r(cs); vfm::seed_delays(cs, w.rank);
        size_t n = (size_t)r.range(1, idx % 3 == 0 ? 12 : 90); bool spd = r.coin(0.3);
        Csr<double> G = spd ? vf::graph_laplacian(n, 4, r, false, true) : vf::random_dd(n, r.uni(0.05, 0.4), r, r.coin());
        Part rp = vfm::random_part(n, w.size, r); std::vector<double> f1 = vf::random_vector(n, r), f2 = vf::random_vector(n, r); bool strip = r.coin(0.4);
        Case c("direct", idx, J().n("ranks", w.size).n("n", n).n("nnz", G.nnz()).bl("spd", spd).bl("from_strip", strip).s("rows", vfm::part_str(rp)));
        run_direct<mpi::direct::skyline_lu<double>>(c, "skyline_lu", comm, G, rp, f1, f2, strip);
        run_direct<mpi::direct::eigen_splu<double>>(c, "eigen_splu", comm, G, rp, f1, f2, strip);
        for (const char *t : DIRECT) { ptree p; p.put("type", t); run_direct<runtime::mpi::direct::solver<double>>(c, std::string("runtime:") + t, comm, G, rp, f1, f2, false, p); }
        c.nontrivial(); if (part_modes(rp) == "empty-ranks") vf::obs_sum("direct_cases_with_empty_ranks");
    }
}

int main(int argc, char **argv) {
    mpi::init mpi_guard(&argc, &argv);
    vf::init(argc, argv); init_world();
    if (vf::opt_int("delays", 1)) vfm::install_delay_hook();
    vf::obs_add("rank_counts_seen", std::to_string(world().size));
    if (vf::sub_enabled("solve")) sub_solve();
    if (vf::sub_enabled("pmis")) sub_pmis("pmis");
    if (vf::sub_enabled("pmis_bk")) sub_pmis("pmis_bk");
    // only when named explicitly (--sub pmis_small_aggr / replay): aborts under ASan on this tree
    if (vf::sub_enabled("pmis_small_aggr") && (!vf::ctx().subs.empty() || !vf::ctx().only_sub.empty())) sub_pmis("pmis_small_aggr");
    if (vf::sub_enabled("direct")) sub_direct();
    if (world().rank == 0) { vf::obs_sum("delay_hook_calls", (double)vfm::delay_state().calls); vf::obs_sum("delays_injected", (double)vfm::delay_state().slept); }
    return vf::finish();
}
