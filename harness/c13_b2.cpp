#define C13_B 2
#include "c13_block.hpp"
