#define C13_B 3
#include "c13_block.hpp"
