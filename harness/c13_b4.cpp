#define C13_B 4
#include "c13_block.hpp"
