// C13 -- block formulations solve the same system (DESIGN.md 5/C13); one translation unit per block
// size (c13_b2.cpp, c13_b3.cpp, c13_b4.cpp define C13_B and include this file).
//
// For each G5 matrix (scalar CRS with b x b block structure) the operator is built through
//   scalar            amg<builtin<double>>                                   (reference formulation)
//   block_adapter     amg<builtin<static_matrix<b,b>>> from block_matrix<>(A), block vectors via reinterpret_as_rhs
//   make_block_solver make_block_solver<amg<builtin<block>>, fgmres | bicgstab> from the scalar matrix, scalar vectors
//   as_block          amg<builtin<double>, ..., as_block<builtin<block>, ilu0>>  (block smoother in a scalar hierarchy)
//   as_scalar         amg<builtin<block>, as_scalar<smoothed_aggregation>, ...>  (scalar coarsening in a block hierarchy)
//   hybrid            amg<builtin_hybrid<block>> under a scalar solver
//   eigen_block       amg<builtin<Eigen::Matrix<double,b,b>>> from block_matrix<>(A)
// Oracles: (R) operators sub-check: crs<block>(block_matrix(A)) and the hybrid / Eigen-block matrices hold exactly
// the entries of A (incomplete blocks zero-filled), unblock(block(A)) == A, SpMV of every representation agrees with
// the scalar SpMV (exact on integer data, forward bound 2 (k+4) eps sum|a||x| on real data);
// (R) every solve is checked against the SCALAR system held by the harness with the truthful-residual oracle of
// include/vf/solvecheck.hpp and must be a solution to the requested tolerance.
#include <amgcl/backend/builtin.hpp>
#include <amgcl/backend/builtin_hybrid.hpp>
#include <amgcl/value_type/static_matrix.hpp>
#include <amgcl/value_type/eigen.hpp>
#include <amgcl/adapter/crs_tuple.hpp>
#include <amgcl/adapter/block_matrix.hpp>
#include <amgcl/amg.hpp>
#include <amgcl/make_solver.hpp>
#include <amgcl/make_block_solver.hpp>
#include <amgcl/coarsening/smoothed_aggregation.hpp>
#include <amgcl/coarsening/as_scalar.hpp>
#include <amgcl/relaxation/spai0.hpp>
#include <amgcl/relaxation/ilu0.hpp>
#include <amgcl/relaxation/as_block.hpp>
#include <amgcl/solver/fgmres.hpp>
#include <amgcl/solver/bicgstab.hpp>
#include <vf/hooks.hpp>
#include <vf/solvecheck.hpp>
#include <omp.h>

using namespace amgcl;
using vf::Csr; using vf::J; using vf::Rng; using vf::Case;
typedef long double LD;
static const int b = C13_B;
typedef static_matrix<double, C13_B, C13_B> Blk; typedef static_matrix<double, C13_B, 1> Rhs;
typedef Eigen::Matrix<double, C13_B, C13_B> EBlk; typedef Eigen::Matrix<double, C13_B, 1> ERhs;
typedef backend::builtin<double> SB; typedef backend::builtin<Blk> BB; typedef backend::builtin_hybrid<Blk> HB; typedef backend::builtin<EBlk> EB;

//---------------------------------------------------------------------------
// G5 generator
//---------------------------------------------------------------------------
struct G5 { Csr<double> A; std::string family; size_t cells; bool spd; bool incomplete; };
static Csr<double> base_graph(Rng &r, int nmin, int nmax, std::string &nm, bool strict) {
    if (r.coin(0.6)) { nm = "grid"; vf::GridSpec g; double n = r.uni(nmin, nmax); int s = std::max(3, (int)std::sqrt(n)); g.nx = s + (int)r.range(0, 3); g.ny = std::max(3, s - (int)r.range(0, 2)); g.contrast = r.coin(0.4) ? 1.0 : r.logu(1, 10); g.nine = r.coin(0.2); g.shift = strict ? r.uni(0.05, 0.3) : 0.0; return vf::grid_diffusion(g, r); }
    nm = "graph"; return vf::graph_laplacian((size_t)r.range(nmin, nmax), r.uni(3, 6), r, r.coin(), true);
}
static G5 gen_g5(Rng &r, long idx, int nmin, int nmax) {
    G5 g; std::string bn; int kind = (int)(idx % 4); g.incomplete = false;
    if (kind == 0) { Csr<double> A0 = base_graph(r, nmin, nmax, bn, false); g.cells = A0.n; g.A = vf::kron(A0, vf::spd_block(b, r), b); g.family = "kron(" + bn + ",spd)"; g.spd = true; }
    else if (kind == 1) { Csr<double> A0 = base_graph(r, nmin, nmax, bn, false); g.cells = A0.n; g.A = vf::kron(A0, vf::identity_block(b), b); g.family = "kron(" + bn + ",identity)"; g.spd = true; g.incomplete = true; }   // only the block diagonals are stored
    else if (kind == 2) {   // elasticity-like: K_IJ = -w_IJ C_IJ (C_IJ SPD, symmetric in IJ), K_II = sum_J w_IJ C_IJ + shift C_I  => SPD
        Csr<double> A0 = base_graph(r, nmin, nmax, bn, true); g.cells = A0.n; g.family = "edge-blocks(" + bn + ")"; g.spd = true;
        std::map<std::pair<ptrdiff_t, ptrdiff_t>, std::vector<double>> eb; std::vector<std::tuple<ptrdiff_t, ptrdiff_t, double>> t;
        for (size_t I = 0; I < A0.n; ++I) { double rowsum = 0; for (auto j = A0.ptr[I]; j < A0.ptr[I + 1]; ++j) rowsum += A0.val[j];   // = shift-like excess (>= 0)
            std::vector<double> CI = vf::spd_block(b, r); for (int p = 0; p < b; ++p) for (int q = 0; q < b; ++q) t.emplace_back(I * b + p, I * b + q, std::max(rowsum, 0.05) * CI[p * b + q]);
            for (auto j = A0.ptr[I]; j < A0.ptr[I + 1]; ++j) { ptrdiff_t Jn = A0.col[j]; if ((size_t)Jn == I) continue; double w = -A0.val[j]; auto key = std::make_pair(std::min<ptrdiff_t>(I, Jn), std::max<ptrdiff_t>(I, Jn));
                if (!eb.count(key)) eb[key] = vf::spd_block(b, r); const std::vector<double> &C = eb[key];
                for (int p = 0; p < b; ++p) for (int q = 0; q < b; ++q) { t.emplace_back(I * b + p, Jn * b + q, -w * C[p * b + q]); t.emplace_back(I * b + p, I * b + q, w * C[p * b + q]); } } }
        g.A = vf::from_triplets<double>(A0.n * b, A0.n * b, t);
    } else { Csr<double> A0 = base_graph(r, nmin, nmax, bn, true); g.cells = A0.n; g.A = vf::punch_blocks(vf::kron(A0, vf::spd_block(b, r), b), r.uni(0.1, 0.4), r); g.family = "punched-kron(" + bn + ",spd)"; g.spd = false; g.incomplete = true; }
    return g;
}

//---------------------------------------------------------------------------
// operators sub-check
//---------------------------------------------------------------------------
template <class V> double bel(const V &v, int p, int q) { return v(p, q); }
// compare a block-valued crs with the scalar matrix: every block row holds exactly the blocks touched by A, zero-filled
template <class BM> bool block_equals_scalar(const BM &M, const Csr<double> &A) {
    size_t nb = A.n / b; if (M.nrows != nb || M.ncols != A.m / b) return false;
    for (size_t ib = 0; ib < nb; ++ib) { std::map<ptrdiff_t, std::array<double, C13_B * C13_B>> ref;
        for (int p = 0; p < b; ++p) for (auto j = A.ptr[ib * b + p]; j < A.ptr[ib * b + p + 1]; ++j) ref[A.col[j] / b][p * b + A.col[j] % b] = A.val[j];
        if ((size_t)(M.ptr[ib + 1] - M.ptr[ib]) != ref.size()) return false; auto it = ref.begin();
        for (auto j = M.ptr[ib]; j < M.ptr[ib + 1]; ++j, ++it) { if (M.col[j] != it->first) return false; for (int p = 0; p < b; ++p) for (int q = 0; q < b; ++q) if (!(bel(M.val[j], p, q) == it->second[p * b + q])) return false; } }
    return true;
}
static bool spmv_matches(const std::vector<double> &got, const Csr<double> &A, const std::vector<double> &x, bool exact, double alpha, double beta, const std::vector<double> &y0, size_t extra_terms) {
    for (size_t i = 0; i < A.n; ++i) { LD s = 0, ac = 0; for (auto j = A.ptr[i]; j < A.ptr[i + 1]; ++j) { s += (LD)A.val[j] * x[A.col[j]]; ac += fabsl((LD)A.val[j] * x[A.col[j]]); }
        LD ref = alpha * s + beta * y0[i], acc = fabsl(alpha) * ac + fabsl(beta * y0[i]);
        if (exact) { if (!((LD)got[i] == ref)) return false; } else if (!(fabsl((LD)got[i] - ref) <= 2.0L * ((A.ptr[i + 1] - A.ptr[i]) + extra_terms + 4) * 2.22e-16L * acc)) return false; }
    return true;
}
static void sub_operators() {
    long N = vf::tier(150, 3000);
    for (long idx = 0; idx < N; ++idx) {
        if (!vf::selected("operators", idx)) continue;
        Rng r(vf::case_seed("operators", idx)); bool exact = r.coin(0.5); Csr<double> A; std::string fam;
        if (idx % 3 == 0) { G5 g = gen_g5(r, idx / 3, 20, 200); A = g.A; fam = g.family; if (exact) for (auto &v : A.val) v = (double)(long)(v * 16); }
        else { size_t nb = r.range(1, 25); fam = "random-incomplete-blocks"; A = exact ? vf::random_int_sparse(nb * b, nb * b, r.pick(std::vector<double>{0.05, 0.2, 0.6}), 6, r) : vf::random_real_sparse(nb * b, nb * b, r.pick(std::vector<double>{0.05, 0.2, 0.6}), r); }
        size_t n = A.n, nb = n / b;
        Case c("operators", idx, J().n("block", b).s("family", fam).n("n", n).n("nnz", A.nnz()).bl("exact", exact).n("threads", omp_get_max_threads()));
        try {
            auto T = A.tie(); auto As = std::make_shared<backend::crs<double>>(T); As->ncols = n;
            backend::crs<Blk> MB(adapter::block_matrix<Blk>(T)); c.check(block_equals_scalar(MB, A), "block_matrix:entries", "crs<block>(block_matrix(A)) does not hold exactly the entries of A (incomplete blocks zero-filled)");
            backend::crs<EBlk> ME(adapter::block_matrix<EBlk>(T)); c.check(block_equals_scalar(ME, A), "block_matrix<eigen>:entries", "crs<Eigen block>(block_matrix(A)) does not hold exactly the entries of A");
            auto MH = HB::copy_matrix(As, typename HB::params()); c.check(block_equals_scalar(*MH, A), "builtin_hybrid:entries", "builtin_hybrid::copy_matrix(A) does not hold exactly the entries of A");
            // unblock(block(A)) == A entry-wise (entries of A preserved, everything else in touched blocks is an explicit zero)
            auto check_unblock = [&](const std::string &nm, const backend::crs<double> &U) { bool ok = U.nrows == n && U.ncols == n; std::vector<double> row(n); std::vector<char> seen(n);
                for (size_t i = 0; ok && i < n; ++i) { std::fill(row.begin(), row.end(), 0.0); std::fill(seen.begin(), seen.end(), 0); std::set<ptrdiff_t> touched; for (int p = 0; p < b; ++p) for (auto j = A.ptr[(i / b) * b + p]; j < A.ptr[(i / b) * b + p + 1]; ++j) touched.insert(A.col[j] / b);
                    for (auto j = A.ptr[i]; j < A.ptr[i + 1]; ++j) row[A.col[j]] = A.val[j];
                    if ((size_t)(U.ptr[i + 1] - U.ptr[i]) != touched.size() * b) ok = false;
                    for (auto j = U.ptr[i]; ok && j < U.ptr[i + 1]; ++j) { auto cc = U.col[j]; if (cc < 0 || (size_t)cc >= n || seen[cc] || !touched.count(cc / b) || !(U.val[j] == row[cc])) ok = false; else seen[cc] = 1; } }
                c.check(ok, nm + ":entries", "unblock_matrix(block(A)) differs from A entry-wise"); };
            check_unblock("unblock(block_matrix)", *adapter::unblock_matrix(MB)); check_unblock("unblock(block_matrix<eigen>)", *adapter::unblock_matrix(ME)); check_unblock("unblock(hybrid)", *adapter::unblock_matrix(*MH));
            // SpMV of every representation against the scalar definition
            std::vector<double> x = exact ? vf::random_int_vector(n, r) : vf::random_vector(n, r), y0 = exact ? vf::random_int_vector(n, r) : vf::random_vector(n, r);
            static const double cs[5] = {0, 1, -1, 2, 0.5};
            for (int k = 0; k < 3; ++k) { double al = k == 0 ? 1.0 : cs[r.range(1, 4)], be = k == 0 ? 0.0 : cs[r.range(0, 4)];
                auto run = [&](const std::string &nm, auto &M, bool blockvec, size_t extra) { std::vector<double> y = y0; if (be == 0) for (auto &v : y) v = std::numeric_limits<double>::quiet_NaN();
                    if (blockvec) { auto X = backend::reinterpret_as_rhs<Blk>(x); auto Y = backend::reinterpret_as_rhs<Blk>(y); backend::spmv(al, M, X, be, Y); } else { backend::numa_vector<double> X(x), Y(y); backend::spmv(al, M, X, be, Y); for (size_t i = 0; i < n; ++i) y[i] = Y[i]; }
                    c.check(spmv_matches(y, A, x, exact, al, be, y0, extra), nm + ":spmv", "spmv through this representation differs from the scalar alpha A x + beta y", J().n("alpha", al).n("beta", be)); vf::obs_sum("representation_spmvs"); };
                auto BA = adapter::block_matrix<Blk>(T);
                run("scalar_crs", *As, false, 0); run("block_adapter(blockvec)", BA, true, (size_t)b * b); run("crs<block>(blockvec)", MB, true, (size_t)b * b); run("crs<block>(scalarvec)", MB, false, (size_t)b * b); run("hybrid(scalarvec)", *MH, false, (size_t)b * b);
                { std::vector<double> y = y0; if (be == 0) for (auto &v : y) v = std::numeric_limits<double>::quiet_NaN(); auto X = backend::reinterpret_as_rhs<EBlk>(x); auto Y = backend::reinterpret_as_rhs<EBlk>(y); backend::spmv(al, ME, X, be, Y);
                  c.check(spmv_matches(y, A, x, exact, al, be, y0, (size_t)b * b), "crs<eigen block>:spmv", "spmv with Eigen block values differs from the scalar alpha A x + beta y"); }
            }
        } catch (const std::exception &e) { c.fail("operators:exception", e.what()); }
        if (A.nnz()) c.nontrivial();
        vf::sample("operators", J().n("block", b).s("family", fam).n("n", n).n("nnz", A.nnz()).bl("exact", exact));
        (void)nb;
    }
}

//---------------------------------------------------------------------------
// solves sub-check
//---------------------------------------------------------------------------
typedef amg<SB, coarsening::smoothed_aggregation, relaxation::spai0> AMG_S;
typedef amg<BB, coarsening::smoothed_aggregation, relaxation::spai0> AMG_B;
typedef amg<SB, coarsening::smoothed_aggregation, relaxation::as_block<BB, relaxation::ilu0>::type> AMG_ASB;
typedef amg<BB, coarsening::as_scalar<coarsening::smoothed_aggregation>::type, relaxation::spai0> AMG_ASS;
typedef amg<HB, coarsening::smoothed_aggregation, relaxation::spai0> AMG_H;
typedef amg<EB, coarsening::smoothed_aggregation, relaxation::spai0> AMG_E;

struct Out { size_t iters = 0; double res = 0; std::vector<double> x; size_t levels = 0; size_t calls = 1; };
template <class P> size_t nlevels(const P &p) { return amgcl::verif::access::levels(p).size(); }

struct FOut { bool ran = false, threw = false, solved = false; size_t iters = 0; double res = 0, tv = -1; };
typedef std::map<std::string, FOut> FMap;
static const size_t MAXIT = 300;

// All formulations on (A, f).  sfx: key suffix of a rescaled run ("" at unit scale).  unit: the outcome at unit scale (rescaled runs only):
// a block formulation must solve the rescaled system whenever it solved the unit-scale one, and -- every component used here (smoothed
// aggregation, spai0, ilu0, skyline_lu, fgmres, bicgstab) only compares quantities relative to others of the same row / vector, and a
// power-of-two factor commutes with every rounding -- with bitwise the same iteration count and reported relative residual.
static FMap solve_all(Case &c, const G5 &g, const Csr<double> &A, const std::vector<double> &f, int ce, double kappa, const std::string &sfx, const FMap *unit, size_t &maxlev) {
    size_t n = A.n; FMap out; auto T = A.tie();
    vf::SolveSpec sp; sp.maxiter = MAXIT; sp.explicit_res = true;
    auto report = [&](const std::string &nm, const Out &o, vf::SolveSpec s) {
        FOut &fo = out[nm]; fo.ran = true; fo.iters = o.iters; fo.res = o.res;
        s.maxiter = MAXIT * o.calls;   // every call has the budget MAXIT; the sum must not exceed it
        if (unit) { auto it = unit->find(nm); s.must_converge = s.must_converge && it != unit->end() && it->second.solved; }
        vf::check_solution(c, nm + sfx, A, f, o.x, o.iters, o.res, s, &fo.tv); fo.solved = std::isfinite(fo.tv) && fo.tv <= 1.001e-8;
        maxlev = std::max(maxlev, o.levels); vf::obs_add("formulations_seen", nm); vf::obs_sum(unit ? "rescaled_solves" : "solves");
        if (unit) { auto it = unit->find(nm); if (it != unit->end() && it->second.ran && !it->second.threw)
            c.check(it->second.iters == o.iters && it->second.res == o.res, nm + sfx + ":differs-from-unit-scale", "iteration count / reported relative residual of the power-of-two rescaled system differ from the unit-scale solve",
                    J().n("iters", o.iters).n("iters_unit", it->second.iters).n("reported", o.res).n("reported_unit", it->second.res)); }
        else vf::sample("solves:" + nm, J().s("formulation", nm).n("block", b).s("family", g.family).n("n", n).n("iters", o.iters).n("reported", o.res).n("true", fo.tv).n("levels", o.levels)); };
    auto guard = [&](const std::string &nm, auto fn) { try { fn(); } catch (const std::exception &e) { out[nm].threw = true; bool unit_threw = unit && unit->count(nm) && unit->at(nm).threw;
        if (!unit_threw) c.fail(nm + sfx + ":exception", e.what()); } };
    // A fixed budget of 300 iterations is not part of the property ("return a solution ... with a truthful residual"): a formulation that has not
    // reached the tolerance when the budget runs out (and says so truthfully) is continued from its current iterate, up to 9 more calls; only a
    // formulation that still has not solved the system after 3000 iterations fails the solution clause.  (Seen on the unchanged tree, thorough
    // seed 2 idx 403: a 4x4 punched graph-Kronecker SPD system on which the four block-hierarchy formulations report, bitwise alike, 1.09e-7
    // after 300 iterations.)  The rescaled runs take the same path, so the bitwise comparison with the unit scale is unaffected.
    auto more = [&](Out &o, auto call) { int rounds = 0;
        while (std::isfinite(o.res) && o.res > 1e-8 && o.iters >= MAXIT * (size_t)(rounds + 1) && rounds < 9) { size_t it; double rs; std::tie(it, rs) = call(); o.iters += it; o.res = rs; ++rounds; ++o.calls; }
        if (rounds) { vf::obs_sum("solves_continued_beyond_300_iterations"); vf::obs_max("max_continuation_calls", rounds); } };
    // scalar reference formulation
    guard("scalar", [&] { typedef make_solver<AMG_S, solver::fgmres<SB>> S; S::params p; p.precond.coarse_enough = ce * b; p.solver.maxiter = MAXIT; S s(T, p); Out o; o.x.assign(n, 0.0); std::tie(o.iters, o.res) = s(f, o.x); o.levels = nlevels(s.precond()); vf::SolveSpec s0 = sp; s0.must_converge = false;   // point-wise aggregation of a block system is not promised to converge (observed: stalls at 1e-5 on a 4x4 Kronecker system); the property lists the block formulations
        report("scalar", o, s0); });
    // block value type through the block_matrix adapter, block vectors
    guard("block_adapter", [&] { typedef make_solver<AMG_B, solver::fgmres<BB>> S; S::params p; p.precond.coarse_enough = ce; p.solver.maxiter = MAXIT; S s(adapter::block_matrix<Blk>(T), p); Out o; o.x.assign(n, 0.0);
        auto F = backend::reinterpret_as_rhs<Blk>(f); auto X = backend::reinterpret_as_rhs<Blk>(o.x); std::tie(o.iters, o.res) = s(F, X); more(o, [&] { return s(F, X); }); o.levels = nlevels(s.precond()); report("block_adapter", o, sp); });
    // make_block_solver: scalar matrix and scalar vectors in, block solver inside
    guard("make_block_solver", [&] { typedef make_block_solver<AMG_B, solver::fgmres<BB>> S; S::params p; p.precond.coarse_enough = ce; p.solver.maxiter = MAXIT; S s(T, p); Out o; o.x.assign(n, 0.0); std::tie(o.iters, o.res) = s(f, o.x); more(o, [&] { return s(f, o.x); }); o.levels = 0; report("make_block_solver", o, sp); });
    if (kappa > 0) guard("make_block_solver<bicgstab>", [&] { typedef make_block_solver<AMG_B, solver::bicgstab<BB>> S; S::params p; p.precond.coarse_enough = ce; p.solver.maxiter = MAXIT; S s(T, p); Out o; o.x.assign(n, 0.0); std::tie(o.iters, o.res) = s(f, o.x); more(o, [&] { return s(f, o.x); });
        vf::SolveSpec s2 = sp; s2.explicit_res = false; s2.kappa = kappa; report("make_block_solver<bicgstab>", o, s2); });
    // block smoother inside a scalar hierarchy
    guard("as_block", [&] { typedef make_solver<AMG_ASB, solver::fgmres<SB>> S; S::params p; p.precond.coarse_enough = ce * b; p.precond.coarsening.aggr.block_size = b; p.solver.maxiter = MAXIT; S s(T, p); Out o; o.x.assign(n, 0.0); std::tie(o.iters, o.res) = s(f, o.x); more(o, [&] { return s(f, o.x); }); o.levels = nlevels(s.precond()); report("as_block", o, sp); });
    // scalar coarsening inside a block hierarchy
    guard("as_scalar", [&] { typedef make_solver<AMG_ASS, solver::fgmres<BB>> S; S::params p; p.precond.coarse_enough = ce; p.precond.coarsening.aggr.block_size = b; p.solver.maxiter = MAXIT; S s(adapter::block_matrix<Blk>(T), p); Out o; o.x.assign(n, 0.0);
        auto F = backend::reinterpret_as_rhs<Blk>(f); auto X = backend::reinterpret_as_rhs<Blk>(o.x); std::tie(o.iters, o.res) = s(F, X); more(o, [&] { return s(F, X); }); o.levels = nlevels(s.precond()); report("as_scalar", o, sp); });
    // hybrid backend: scalar setup, block storage, scalar solver
    guard("hybrid", [&] { typedef make_solver<AMG_H, solver::fgmres<SB>> S; S::params p; p.precond.coarse_enough = ce * b; p.precond.coarsening.aggr.block_size = b; p.solver.maxiter = MAXIT; S s(T, p); Out o; o.x.assign(n, 0.0); std::tie(o.iters, o.res) = s(f, o.x); more(o, [&] { return s(f, o.x); }); o.levels = nlevels(s.precond()); report("hybrid", o, sp); });
    // Eigen block values
    guard("eigen_block", [&] { typedef make_solver<AMG_E, solver::fgmres<EB>> S; S::params p; p.precond.coarse_enough = ce; p.solver.maxiter = MAXIT; S s(adapter::block_matrix<EBlk>(T), p); Out o; o.x.assign(n, 0.0);
        auto F = backend::reinterpret_as_rhs<EBlk>(f); auto X = backend::reinterpret_as_rhs<EBlk>(o.x); std::tie(o.iters, o.res) = s(F, X); more(o, [&] { return s(F, X); }); o.levels = nlevels(s.precond()); report("eigen_block", o, sp); });
    return out;
}

static void sub_solves() {
    long N = vf::tier(60, 800);
    for (long idx = 0; idx < N; ++idx) {
        if (!vf::selected("solves", idx)) continue;
        Rng r(vf::case_seed("solves", idx)); bool small = idx % 3 == 0; G5 g = gen_g5(r, idx, small ? 40 : 150, small ? (int)(560 / b) : (vf::thorough() ? 2500 : 900)); const Csr<double> &A = g.A; size_t n = A.n;
        std::vector<double> f = vf::random_vector(n, r); int ce = (int)r.range(8, 40);
        Case c("solves", idx, J().n("block", b).s("family", g.family).n("cells", g.cells).n("n", n).n("nnz", A.nnz()).bl("incomplete_blocks", g.incomplete).n("coarse_enough", ce).n("threads", omp_get_max_threads()));
        double kappa = n <= 600 ? vf::kappa2(A) : 0; size_t maxlev = 0;
        FMap unit = solve_all(c, g, A, f, ce, kappa, "", nullptr, maxlev);
        // The same system with the MATRIX multiplied by 2^j (coefficients far below / above 1, e.g. SI units); the right-hand side is kept so
        // that ||f|| stays away from the solvers' absolute zero-rhs threshold.  A_j x_j = f has x_j = 2^-j x exactly representable, and the
        // harness checks x_j against ITS OWN rescaled copy of the scalar system.
        if (small) for (int j : {-30, -60, 30}) { Csr<double> Aj = A; for (auto &v : Aj.val) v = std::ldexp(v, j); size_t ml = 0;
            solve_all(c, g, Aj, f, ce, kappa, "@2^" + std::to_string(j), &unit, ml); vf::obs_add("matrix_scalings_seen", "2^" + std::to_string(j)); }
        if (maxlev >= 2) c.nontrivial(); vf::obs_max("max_levels", (double)maxlev);
    }
}

int main(int argc, char **argv) {
    vf::init(argc, argv);
    vf::obs_add("threads_seen", std::to_string(omp_get_max_threads())); vf::obs_add("block_sizes_seen", std::to_string(b));
    if (vf::sub_enabled("operators")) sub_operators();
    if (vf::sub_enabled("solves")) sub_solves();
    return vf::finish();
}
