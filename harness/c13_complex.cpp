// C13 -- a complex system and its real-equivalent 2n x 2n form (complex_adapter) have the same
// solution (DESIGN.md 5/C13).
//   complex_adapter : rows / cols / nonzeros and every entry of complex_matrix(A) against the definition
//                     [[Re a, -Im a], [Im a, Re a]] (exact); SpMV of the adapter on the interleaved real vector
//                     equals the complex SpMV (exact on Gaussian-integer data, forward bound otherwise).
//   complex_solves  : G4 Hermitian positive definite and complex-shifted systems solved (a) with the complex
//                     value type and (b) through complex_matrix / complex_range with a real solver; both results
//                     are checked against the COMPLEX system held by the harness (truthful residual, and a
//                     solution to the tolerance for the Hermitian family); for n <= 600 the two solutions agree:
//                     ||x_c - x_r|| / ||x_c|| <= kappa_2(A) (relres_c + relres_r) (1 + 1e-6).
#include <amgcl/backend/builtin.hpp>
#include <amgcl/value_type/complex.hpp>
#include <amgcl/adapter/crs_tuple.hpp>
#include <amgcl/adapter/complex.hpp>
#include <amgcl/amg.hpp>
#include <amgcl/make_solver.hpp>
#include <amgcl/coarsening/smoothed_aggregation.hpp>
#include <amgcl/relaxation/spai0.hpp>
#include <amgcl/solver/fgmres.hpp>
#include <vf/hooks.hpp>
#include <vf/solvecheck.hpp>
#include <omp.h>

using namespace amgcl;
using vf::Csr; using vf::J; using vf::Rng; using vf::Case;
typedef long double LD; typedef std::complex<double> Z; typedef std::complex<LD> ZL;
typedef backend::builtin<Z> CB; typedef backend::builtin<double> RB;
typedef make_solver<amg<CB, coarsening::smoothed_aggregation, relaxation::spai0>, solver::fgmres<CB>> SolverC;
typedef make_solver<amg<RB, coarsening::smoothed_aggregation, relaxation::spai0>, solver::fgmres<RB>> SolverR;

static void sub_adapter() {
    long N = vf::tier(200, 4000);
    for (long idx = 0; idx < N; ++idx) {
        if (!vf::selected("complex_adapter", idx)) continue;
        Rng r(vf::case_seed("complex_adapter", idx)); bool exact = r.coin(0.5); size_t n = idx % 6 == 0 ? r.range(40, 200) : r.range(1, 25);
        Csr<double> P = vf::random_int_sparse(n, n, n < 30 ? r.pick(std::vector<double>{0.1, 0.4, 1.0}) : r.uni(2, 8) / n, 1, r, r.coin(0.7));
        Csr<Z> A(n, n); A.ptr = P.ptr; A.col = P.col; A.val.resize(P.nnz()); for (auto &v : A.val) v = exact ? Z((double)r.range(-4, 4), (double)r.range(-4, 4)) : Z(r.uni(-2, 2), r.uni(-2, 2));
        Case c("complex_adapter", idx, J().n("n", n).n("nnz", A.nnz()).bl("exact", exact).n("threads", omp_get_max_threads()));
        try {
            auto T = A.tie(); auto R = adapter::complex_matrix(T);
            c.check(backend::rows(R) == 2 * n && backend::cols(R) == 2 * n, "complex_adapter:shape", "real-equivalent matrix is not 2n x 2n");
            c.check(backend::nonzeros(R) == 4 * A.nnz(), "complex_adapter:nonzeros", "real-equivalent matrix does not report 4 nnz entries");
            bool ok = true; for (size_t i = 0; ok && i < 2 * n; ++i) { auto a = backend::row_begin(R, i);
                for (auto j = A.ptr[i / 2]; ok && j < A.ptr[i / 2 + 1]; ++j) { Z v = A.val[j]; double e0 = (i % 2 == 0) ? v.real() : v.imag(), e1 = (i % 2 == 0) ? -v.imag() : v.real();
                    if (!a || (ptrdiff_t)a.col() != 2 * A.col[j] || !(a.value() == e0)) ok = false; if (ok) { ++a; if (!a || (ptrdiff_t)a.col() != 2 * A.col[j] + 1 || !(a.value() == e1)) ok = false; } if (ok) ++a; }
                if (ok && a) ok = false; }
            c.check(ok, "complex_adapter:entries", "entries of complex_matrix(A) differ from [[Re,-Im],[Im,Re]] of the complex entries");
            backend::crs<double> C(R); c.check(C.nrows == 2 * n && C.nnz == 4 * A.nnz(), "complex_adapter:crs-conversion", "crs<double>(complex_matrix(A)) has the wrong size");
            // SpMV: real-equivalent y = R [Re x, Im x] must be [Re (A x), Im (A x)]
            std::vector<Z> x(n), y(n, Z(0)); for (auto &v : x) v = exact ? Z((double)r.range(-4, 4), (double)r.range(-4, 4)) : Z(r.uni(-1, 1), r.uni(-1, 1));
            { auto X = adapter::complex_range(x); auto Y = adapter::complex_range(y); c.check((size_t)X.size() == 2 * n, "complex_range:size", "complex_range does not have 2n elements"); backend::spmv(1.0, R, X, 0.0, Y); }
            auto matches = [&](const std::vector<Z> &yy) { for (size_t i = 0; i < n; ++i) { ZL s = 0; LD ac = 0; for (auto j = A.ptr[i]; j < A.ptr[i + 1]; ++j) { s += vf::sc_ld(A.val[j]) * vf::sc_ld(x[A.col[j]]); ac += std::abs(vf::sc_ld(A.val[j])) * std::abs(vf::sc_ld(x[A.col[j]])); }
                    if (exact) { if (!((LD)yy[i].real() == s.real() && (LD)yy[i].imag() == s.imag())) return false; }
                    else if (!(std::abs(vf::sc_ld(yy[i]) - s) <= 8.0L * (2 * (A.ptr[i + 1] - A.ptr[i]) + 4) * 2.22e-16L * ac)) return false; }   // 4 real terms per complex product: k -> 2k, cf = 8 as for complex arithmetic in C07
                return true; };
            c.check(matches(y), "complex_adapter:spmv", "real-equivalent SpMV differs from the complex SpMV");
            // the complex SpMV of the library itself against the same reference
            { backend::crs<Z> M(n, n, A.ptr, A.col, A.val); backend::numa_vector<Z> X(x), Y(n); backend::spmv(Z(1), M, X, Z(0), Y); std::vector<Z> yc(n); for (size_t i = 0; i < n; ++i) yc[i] = Y[i];
              c.check(matches(yc), "complex_value_type:spmv", "complex-valued SpMV differs from the definition"); }
        } catch (const std::exception &e) { c.fail("complex_adapter:exception", e.what()); }
        if (A.nnz()) c.nontrivial();
        vf::sample("complex_adapter", J().n("n", n).n("nnz", A.nnz()).bl("exact", exact));
    }
}

static void sub_solves() {
    long N = vf::tier(90, 900); const size_t MAXIT = 300;
    for (long idx = 0; idx < N; ++idx) {
        if (!vf::selected("complex_solves", idx)) continue;
        Rng r(vf::case_seed("complex_solves", idx)); bool small = idx % 2 == 0; bool herm = idx % 3 != 2; std::string bn;
        Csr<double> A0; if (r.coin(0.6)) { bn = "grid"; A0 = vf::model_problem(r, small ? 60 : 500, small ? 560 : (vf::thorough() ? 6000 : 2000)); } else { bn = "graph"; A0 = vf::graph_laplacian((size_t)r.range(small ? 60 : 500, small ? 560 : 1500), r.uni(3, 6), r, false, true); }
        double sigma = 0; Csr<Z> A; std::string fam;
        if (herm) { A = vf::complex_hermitian(A0, r); fam = "hermitian(" + bn + ")"; } else { double dmax = 0; for (size_t i = 0; i < A0.n; ++i) for (auto j = A0.ptr[i]; j < A0.ptr[i + 1]; ++j) if (A0.col[j] == (ptrdiff_t)i) dmax = std::max(dmax, A0.val[j]); sigma = r.uni(0.02, 0.3) * dmax; A = vf::complex_shifted(A0, sigma); fam = "shifted(" + bn + ")"; }
        size_t n = A.n; std::vector<Z> f(n); for (auto &v : f) v = Z(r.uni(-1, 1), r.uni(-1, 1)); int ce = (int)r.range(20, 80);
        Case c("complex_solves", idx, J().s("family", fam).n("n", n).n("nnz", A.nnz()).n("sigma", sigma).n("coarse_enough", ce).n("threads", omp_get_max_threads()));
        vf::SolveSpec sp; sp.maxiter = MAXIT; sp.u = 4 * 1.11e-16; sp.must_converge = herm;   // the shifted real-equivalent form is not guaranteed to be AMG-friendly: truthfulness only
        auto T = A.tie(); std::vector<Z> xc(n, Z(0)), xr(n, Z(0)); double tc = -1, tr = -1; bool okc = false, okr = false;
        try { SolverC::params p; p.precond.coarse_enough = ce; p.solver.maxiter = MAXIT; SolverC s(T, p); auto res = s(f, xc); okc = vf::check_solution(c, "complex_value_type", A, f, xc, std::get<0>(res), std::get<1>(res), sp, &tc);
              vf::sample("complex:" + fam.substr(0, 4), J().s("formulation", "complex value type").s("family", fam).n("n", n).n("iters", std::get<0>(res)).n("reported", std::get<1>(res)).n("true", tc)); }
        catch (const std::exception &e) { c.fail("complex_value_type:exception", e.what()); }
        try { SolverR::params p; p.precond.coarse_enough = 2 * ce; p.solver.maxiter = MAXIT; SolverR s(adapter::complex_matrix(T), p); auto F = adapter::complex_range(f); auto X = adapter::complex_range(xr); auto res = s(F, X);
              okr = vf::check_solution(c, "real_equivalent", A, f, xr, std::get<0>(res), std::get<1>(res), sp, &tr);
              vf::sample("real-eq:" + fam.substr(0, 4), J().s("formulation", "real-equivalent via complex_adapter").s("family", fam).n("n", n).n("iters", std::get<0>(res)).n("reported", std::get<1>(res)).n("true", tr)); vf::obs_sum("real_equivalent_solves"); }
        catch (const std::exception &e) { c.fail("real_equivalent:exception", e.what()); }
        if (okc && okr && n <= 600 && tc >= 0 && tr >= 0) { double kap = vf::kappa2(A); LD d = 0, nx = 0; for (size_t i = 0; i < n; ++i) { d += std::norm(vf::sc_ld(xc[i]) - vf::sc_ld(xr[i])); nx += std::norm(vf::sc_ld(xc[i])); }
            double rel = (double)std::sqrt(d / nx), bound = kap * (tc + tr) * (1 + 1e-6); vf::obs_max("max_solution_difference_over_bound", rel / bound);
            c.check_le(rel, bound, "same-solution", "solutions of the complex system and of its real-equivalent form differ by more than kappa (relres_c + relres_r)"); }
        c.nontrivial();
    }
}

int main(int argc, char **argv) {
    vf::init(argc, argv);
    vf::obs_add("threads_seen", std::to_string(omp_get_max_threads()));
    if (vf::sub_enabled("complex_adapter")) sub_adapter();
    if (vf::sub_enabled("complex_solves")) sub_solves();
    return vf::finish();
}
