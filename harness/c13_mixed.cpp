// C13 -- a single-precision preconditioner under a double-precision solver still reaches the default
// 1e-8 tolerance on the model problems (DESIGN.md 5/C13).
// The hierarchy is amg<builtin<float>, runtime coarsening, runtime relaxation> (all 4 x 9 cells), the Krylov
// solver lives on builtin<double> with its DEFAULT parameters (tol 1e-8, maxiter 100), and the solve is made the
// documented way, solve(A, rhs, x) with the double-precision matrix (tutorial/1.poisson3Db).  Oracles (R):
//   * convergence clause on the G1 model sub-family (contrast <= 10, anisotropy >= 0.1, n >= 500): res < 1e-8 within
//     the default budget;
//   * truthful residual of the returned x against the DOUBLE system held by the harness (solvecheck.hpp):
//     FGMRES (recomputed residual) for every cell and size, CG / BiCGStab (recursive residual, bound needs
//     kappa_2 from a dense SVD) for n <= 640.
//   * solve(rhs, x) without a matrix uses the float-rounded system matrix of the hierarchy: its report must be
//     truthful for THAT matrix (the harness rounds its own copy to float).
#include <amgcl/backend/builtin.hpp>
#include <amgcl/backend/builtin_hybrid.hpp>
#include <amgcl/value_type/static_matrix.hpp>
#include <amgcl/adapter/block_matrix.hpp>
#include <amgcl/make_block_solver.hpp>
#include <amgcl/coarsening/smoothed_aggregation.hpp>
#include <amgcl/relaxation/spai0.hpp>
#include <amgcl/adapter/crs_tuple.hpp>
#include <amgcl/amg.hpp>
#include <amgcl/make_solver.hpp>
#include <amgcl/coarsening/runtime.hpp>
#include <amgcl/relaxation/runtime.hpp>
#include <amgcl/solver/fgmres.hpp>
#include <amgcl/solver/cg.hpp>
#include <amgcl/solver/bicgstab.hpp>
#include <vf/hooks.hpp>
#include <vf/solvecheck.hpp>
#include <omp.h>

using namespace amgcl;
using vf::Csr; using vf::J; using vf::Rng; using vf::Case;
typedef backend::builtin<float> FB; typedef backend::builtin<double> DB;
typedef amg<FB, runtime::coarsening::wrapper, runtime::relaxation::wrapper> FAMG;
static const char *RELAX[9] = {"damped_jacobi", "spai0", "spai1", "gauss_seidel", "ilu0", "iluk", "ilut", "ilup", "chebyshev"};
static const char *COARS[4] = {"smoothed_aggregation", "aggregation", "ruge_stuben", "smoothed_aggr_emin"};

template <class Solver> void run(Case &c, const std::string &nm, const Csr<double> &A, const std::vector<double> &f, const boost::property_tree::ptree &pp, bool explicit_res, double kappa, size_t &levels) {
    typedef make_solver<FAMG, Solver> S;
    try {
        boost::property_tree::ptree p; p.put_child("precond", pp);       // solver parameters: library defaults
        auto T = A.tie(); S s(T, p); levels = amgcl::verif::access::levels(s.precond()).size();
        std::vector<double> x(A.n, 0.0); auto res = s(T, f, x);
        vf::SolveSpec sp; sp.maxiter = 100; sp.tol = 1e-8; sp.explicit_res = explicit_res; sp.kappa = kappa; double tv = 0;
        vf::check_solution(c, nm, A, f, x, std::get<0>(res), std::get<1>(res), sp, &tv);
        c.check(std::get<1>(res) < 1e-8 && std::get<0>(res) <= 100, nm + ":not-converged", "float hierarchy under a double solver did not reach the default tolerance within the default budget on a model problem", J().n("iters", std::get<0>(res)).n("reported", std::get<1>(res)));
        vf::obs_max("max_iterations", (double)std::get<0>(res)); vf::obs_sum("mixed_precision_solves");
        vf::sample("mixed:" + nm, J().s("solver", nm).s("coarsening", pp.get<std::string>("coarsening.type")).s("relax", pp.get<std::string>("relax.type")).n("n", A.n).n("iters", std::get<0>(res)).n("reported", std::get<1>(res)).n("true", tv).n("levels", levels));
        if (explicit_res && A.n <= 3000) {   // the matrix-free call works on the float-rounded system matrix
            Csr<double> Af = A; for (auto &v : Af.val) v = (double)(float)v;
            std::vector<double> x2(A.n, 0.0); auto r2 = s(f, x2); vf::SolveSpec s2 = sp; s2.must_converge = false;
            vf::check_solution(c, nm + "(float system matrix)", Af, f, x2, std::get<0>(r2), std::get<1>(r2), s2);
        }
    } catch (const std::exception &e) { c.fail(nm + ":exception", e.what()); }
}

// Mixed precision combined with block values: a single-precision block hierarchy (hybrid backend, or block backend behind
// make_block_solver) under a double-precision Krylov solver must still solve the SCALAR system to the default tolerance.
// (added after a seeded change in the scalar/block reinterpretation of vectors was missed by the scalar-only sub-check)
template <int B> void mixed_block_case(long idx) {
    typedef static_matrix<double, B, B> DBk; typedef static_matrix<float, B, B> FBk;
    Rng r(vf::case_seed("mixed_block", idx)); vf::GridSpec g; Csr<double> S = vf::model_problem(r, 300, 700, &g);
    std::vector<double> Cb = vf::spd_block(B, r); Csr<double> A = vf::kron(S, Cb, B); std::vector<double> f = vf::random_vector(A.n, r);
    // two thirds of the cases: the matrix (not the rhs) multiplied by 2^-30 / 2^+30 -- coefficients ~1e-9 are below the float epsilon but far
    // inside the float range, every component is scale invariant, so the float block hierarchy must still work (h-backend, seeded C13-3)
    static const int SC[3] = {0, -30, 30}; const int sc = SC[(idx / 2) % 3]; if (sc) for (auto &v : A.val) v = std::ldexp(v, sc);
    vf::obs_add("mixed_block_matrix_scalings_seen", "2^" + std::to_string(sc));
    Case c("mixed_block", idx, J().n("b", B).n("scale_log2", sc).n("n", A.n).n("nnz", A.nnz()).n("nx", g.nx).n("ny", g.ny).n("nz", g.nz).n("contrast", g.contrast).n("aniso", g.aniso));
    vf::SolveSpec sp; sp.maxiter = 100; sp.tol = 1e-8; sp.explicit_res = true; auto T = A.tie();
    try {   // hybrid backend: float block hierarchy, double FGMRES
        typedef make_solver<amg<backend::builtin_hybrid<FBk>, coarsening::smoothed_aggregation, relaxation::spai0>, solver::fgmres<backend::builtin_hybrid<DBk>>> S1;
        typename S1::params p; p.precond.coarsening.aggr.block_size = B; p.precond.coarse_enough = 100; S1 s(T, p);
        std::vector<double> x(A.n, 0.0); auto res = s(T, f, x); double tv = 0;
        vf::check_solution(c, "hybrid-float-precond/double-fgmres", A, f, x, std::get<0>(res), std::get<1>(res), sp, &tv);
        c.check(std::get<1>(res) < 1e-8, "hybrid-float-precond/double-fgmres:not-converged", "float block hierarchy (hybrid backend) under a double solver did not reach 1e-8 on a block model problem", J().n("iters", std::get<0>(res)).n("reported", std::get<1>(res)));
        vf::sample("mixed_block", J().s("formulation", "hybrid float precond / double fgmres").n("b", B).n("n", A.n).n("iters", std::get<0>(res)).n("reported", std::get<1>(res)).n("true", tv));
    } catch (const std::exception &e) { c.fail("hybrid-float-precond/double-fgmres:exception", e.what()); }
    try {   // make_block_solver: float block hierarchy, double block FGMRES
        typedef make_block_solver<amg<backend::builtin<FBk>, coarsening::smoothed_aggregation, relaxation::spai0>, solver::fgmres<backend::builtin<DBk>>> S2;
        typename S2::params p; p.precond.coarse_enough = 100; S2 s(T, p);
        std::vector<double> x(A.n, 0.0); auto res = s(f, x);
        Csr<double> Af = A; for (auto &v : Af.val) v = (double)(float)v;      // the matrix-free call works on the float-rounded system matrix
        // (block products with a float matrix are evaluated in float: the residual recomputation carries the float unit roundoff)
        vf::SolveSpec s2 = sp; s2.must_converge = false; s2.u = std::numeric_limits<float>::epsilon(); vf::check_solution(c, "block-solver-float-precond/double-fgmres(float system matrix)", Af, f, x, std::get<0>(res), std::get<1>(res), s2);
        backend::crs<DBk> Ab(adapter::block_matrix<DBk>(T)); std::vector<double> y(A.n, 0.0); auto r2 = s(Ab, f, y);
        vf::check_solution(c, "block-solver-float-precond/double-fgmres", A, f, y, std::get<0>(r2), std::get<1>(r2), sp);
        c.check(std::get<1>(r2) < 1e-8, "block-solver-float-precond/double-fgmres:not-converged", "float block hierarchy behind make_block_solver under a double solver did not reach 1e-8 on a block model problem", J().n("iters", std::get<0>(r2)).n("reported", std::get<1>(r2)));
    } catch (const std::exception &e) { c.fail("block-solver-float-precond/double-fgmres:exception", e.what()); }
    c.nontrivial(); vf::obs_sum("mixed_precision_block_cases");
}

int main(int argc, char **argv) {
    vf::init(argc, argv);
    vf::obs_add("threads_seen", std::to_string(omp_get_max_threads()));
    { long NB = vf::tier(12, 120); for (long idx = 0; idx < NB; ++idx) { if (!vf::selected("mixed_block", idx)) continue; if (idx % 2) mixed_block_case<3>(idx); else mixed_block_case<2>(idx); } }
    long N = vf::tier(144, 1440);
    for (long idx = 0; idx < N; ++idx) {
        if (!vf::selected("mixed", idx)) continue;
        Rng r(vf::case_seed("mixed", idx)); const char *co = COARS[idx % 4], *re = RELAX[(idx / 4) % 9]; bool small = (idx / 36) % 2 == 1;
        vf::GridSpec g; Csr<double> A = small ? vf::model_problem(r, 500, 640, &g) : vf::model_problem(r, 640, vf::thorough() ? 20000 : 4000, &g);
        while (small && A.n > 640) A = vf::model_problem(r, 500, 600, &g);
        std::vector<double> f = vf::random_vector(A.n, r);
        Case c("mixed", idx, J().s("coarsening", co).s("relax", re).n("n", A.n).n("nnz", A.nnz()).n("nx", g.nx).n("ny", g.ny).n("nz", g.nz).n("contrast", g.contrast).n("aniso", g.aniso).n("threads", omp_get_max_threads()));
        boost::property_tree::ptree pp; pp.put("coarsening.type", co); pp.put("relax.type", re); pp.put("coarse_enough", 100);   // (default 3000 would leave the small cases with a single level)
        size_t levels = 0;
        run<solver::fgmres<DB>>(c, "fgmres", A, f, pp, true, 0, levels);
        if (small) { double kap = vf::kappa2(A); run<solver::bicgstab<DB>>(c, "bicgstab", A, f, pp, false, kap, levels);
            // CG needs a symmetric preconditioner: symmetric smoothers only
            std::string rs = re; if (rs == "spai0" || rs == "damped_jacobi" || rs == "chebyshev") run<solver::cg<DB>>(c, "cg", A, f, pp, false, kap, levels); }
        if (levels >= 2) c.nontrivial(); vf::obs_add("cells_seen", std::string(co) + "+" + re); vf::obs_max("max_levels", (double)levels);
    }
    return vf::finish();
}
// (thorough count reduced)
