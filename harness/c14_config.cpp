// C14 -- run-time configuration is equivalent to compile-time configuration (DESIGN.md 5/C14).
// main(): dispatch of the sub-checks implemented in the other C14 translation units, and the
// documentation pass.
//   equiv_amg / equiv_solver / equiv_precond / equiv_make_solver / equiv_block   (c14_eq_*.cpp)   D: bitwise differential
//   param_table                                                    (c14_tables.cpp) R: member table
//   enum_strings / unknown_runtime                                 (c14_rt_misc.cpp)
//   docs_coverage                                                  (here)           coverage observation only
#define C14_DEFINE_RECORDER
#include "c14_pre.hpp"
#include <amgcl/util.hpp>
#include <vf/hooks.hpp>      // defines the AMGCL_VERIF hook pointers for the whole binary
#include <vf/vf.hpp>
#include <fstream>
#include <map>
#include <regex>

namespace c14 {
void run_pair_aggregation(int ri, long idx);
void run_pair_smoothed_aggregation(int ri, long idx);
void run_pair_smoothed_aggr_emin(int ri, long idx);
void run_pair_ruge_stuben(int ri, long idx);
void run_solver_case(int si, long idx);
void run_precond_class_case(int k, long idx);
void run_make_solver_case(int k, long idx);
void run_block_case(int k, long idx);
void run_param_tables();
void run_enum_cases();
void run_unknown_runtime_cases();
std::map<std::string, std::set<std::string>> &table_members_ref();

// Parse docs/components/*.rst: ".. cpp:class:: [template <...> \] NAME", nested ".. cpp:class:: params",
// ".. cpp:member:: TYPE NAME [= default]".  Returns class -> documented member names.
static std::map<std::string, std::set<std::string>> parse_docs(const std::string &repo, long &nfiles) {
    std::map<std::string, std::set<std::string>> doc; nfiles = 0;
    const char *files[] = {"adapters", "backends", "coarsening", "coupled_solvers", "iter_solvers", "preconditioners", "relaxation", "value_types"};
    for (auto fn : files) {
        std::ifstream f(repo + "/docs/components/" + fn + ".rst"); if (!f) continue; ++nfiles;
        std::string line, cur; bool cont = false;
        while (std::getline(f, line)) {
            size_t ind = line.find_first_not_of(' '); if (ind == std::string::npos) continue;
            std::string s = line.substr(ind); while (!s.empty() && (s.back() == ' ' || s.back() == '\r')) s.pop_back();
            if (cont) { cont = false; if (!s.empty() && s.back() == '\\') { cont = true; continue; } cur = s; continue; }   // continuation line holds the class name
            if (s.rfind(".. cpp:class::", 0) == 0) {
                if (ind != 0) continue;                       // nested classes (params, wrappers) stay in the scope of the top-level class
                std::string n = s.substr(14); while (!n.empty() && n.front() == ' ') n.erase(0, 1);
                if (!n.empty() && n.back() == '\\') { cont = true; continue; }
                cur = n; continue;
            }
            if (s.rfind(".. cpp:member::", 0) == 0 && !cur.empty()) {
                std::string n = s.substr(15); size_t eq = n.find(" = "); if (eq != std::string::npos) n = n.substr(0, eq);
                while (!n.empty() && (n.back() == ' ' || n.back() == ';')) n.pop_back();
                size_t b = n.find_last_not_of("abcdefghijklmnopqrstuvwxyzABCDEFGHIJKLMNOPQRSTUVWXYZ0123456789_"); n = b == std::string::npos ? n : n.substr(b + 1);
                // strip template arguments of the class name ("amgcl::amg<...>")
                std::string k = cur; size_t lt = k.find('<'); if (lt != std::string::npos) k = k.substr(0, lt);
                if (!n.empty()) doc[k].insert(n);
            }
        }
    }
    return doc;
}

static void run_docs_coverage() {
    if (!vf::selected("docs_coverage", 0)) return;
    const char *rp = getenv("VERIF_REPO"); std::string repo = rp ? rp : "/repo";
    long nfiles = 0; auto doc = parse_docs(repo, nfiles);
    auto &tab = table_members_ref();
    vf::Case c("docs_coverage", 0, vf::J().s("repo", repo).n("rst_files", nfiles).n("documented_classes", doc.size()).n("table_classes", tab.size()));
    if (nfiles == 0 || doc.empty()) { fprintf(stderr, "c14: no documentation found under %s/docs/components\n", repo.c_str()); exit(3); }
    long documented = 0, covered = 0;
    for (auto &d : doc) for (auto &m : d.second) {
        ++documented; auto it = tab.find(d.first);
        if (it == tab.end()) vf::obs_add("documented_classes_not_in_table", d.first);
        else if (!it->second.count(m)) vf::obs_add("documented_members_missing_from_table", d.first + "::" + m);
        else ++covered;
    }
    for (auto &t : tab) { auto it = doc.find(t.first);
        if (it == doc.end()) { vf::obs_add("table_classes_undocumented", t.first); continue; }
        for (auto &m : t.second) if (!it->second.count(m)) vf::obs_add("table_members_undocumented", t.first + "::" + m); }
    c.check(true, "docs:parsed", ""); if (covered > 50) c.nontrivial();
    vf::obs_set("documented_members", std::to_string(documented)); vf::obs_set("documented_members_in_table", std::to_string(covered));
    vf::sample("docs_coverage", vf::J().n("documented_members", documented).n("covered_by_table", covered).n("documented_classes", doc.size()));
}
} // namespace c14

int main(int argc, char **argv) {
    vf::init(argc, argv);
    using namespace c14;
    { long N = 36 * vf::tier(4, 60);
      for (long idx = 0; idx < N; ++idx) { if (!vf::selected("equiv_amg", idx)) continue; int p = (int)(idx % 36), ci = p / 9, ri = p % 9;
        switch (ci) { case 0: run_pair_aggregation(ri, idx); break; case 1: run_pair_smoothed_aggregation(ri, idx); break; case 2: run_pair_smoothed_aggr_emin(ri, idx); break; default: run_pair_ruge_stuben(ri, idx); } } }
    { long N = 9 * vf::tier(6, 120);  for (long idx = 0; idx < N; ++idx) if (vf::selected("equiv_solver", idx)) run_solver_case((int)(idx % 9), idx); }
    { long N = 8 * vf::tier(4, 30);  for (long idx = 0; idx < N; ++idx) if (vf::selected("equiv_precond", idx)) run_precond_class_case((int)(idx % 8), idx); }
    { long N = 3 * vf::tier(5, 40);  for (long idx = 0; idx < N; ++idx) if (vf::selected("equiv_make_solver", idx)) run_make_solver_case((int)(idx % 3), idx); }
    { long N = 6 * vf::tier(4, 40);  for (long idx = 0; idx < N; ++idx) if (vf::selected("equiv_block", idx)) run_block_case((int)(idx % 6), idx); }
    if (vf::sub_enabled("param_table") || vf::sub_enabled("docs_coverage")) run_param_tables();
    if (vf::sub_enabled("enum_strings")) run_enum_cases();
    if (vf::sub_enabled("unknown_runtime")) run_unknown_runtime_cases();
    if (vf::sub_enabled("docs_coverage")) run_docs_coverage();
    return vf::finish();
}
