// c14_enum.hpp -- enumeration-string oracle shared by c14_rt_misc.cpp and c14_mpi.cpp.
#pragma once
#include "c14_pre.hpp"
#include <boost/property_tree/ptree.hpp>
#include <vf/vf.hpp>
namespace c14 {
typedef boost::property_tree::ptree ptree;
using vf::J; using vf::Rng; using vf::Case;
inline std::vector<std::string> mutate(const std::string &s, Rng &r) {
    std::vector<std::string> m = {"", "nonsense", "0", "1", "-1", "default", "???", s + "x", "x" + s, s + "_", "_" + s, s + " x", "x " + s, s + "," + s};
    std::string u = s; for (auto &ch : u) ch = (char)toupper(ch); m.push_back(u);
    std::string cap = s; cap[0] = (char)toupper(cap[0]); m.push_back(cap);
    if (s.size() > 1) { m.push_back(s.substr(0, s.size() - 1)); m.push_back(s.substr(1)); std::string w = s; std::swap(w[0], w[1]); m.push_back(w); }
    std::string d = s; for (auto &ch : d) if (ch == '_') ch = '-'; m.push_back(d);
    std::string rnd; for (int i = 0; i < 6; ++i) rnd += (char)('a' + r.range(0, 25)); m.push_back(rnd);
    return m;
}

// E: enumeration type; ctor(tree) constructs the library object that reads `key` from the tree
template <class E, class Ctor> void enum_case(const char *what, const char *key, const std::vector<std::string> &names, long idx, Ctor ctor) {
    if (!vf::selected("enum_strings", idx)) return;
    Rng r(vf::case_seed("enum_strings", idx));
    Case c("enum_strings", idx, J().s("enumeration", what).n("names", names.size()));
    std::set<int> seen;
    for (auto &n : names) {
        try { ptree t; t.put(key, n); E v = t.get<E>(key); seen.insert((int)v);
              ptree o; o.put(key, v); c.check(o.get<std::string>(key) == n, std::string("enum:") + what + ":" + n + ":name-not-written-back", "valid name is exported as '" + o.get<std::string>(key) + "'");
              ptree t2; t2.put(key, n); ctor(t2); c.nontrivial(); }
        catch (const std::exception &ex) { c.fail(std::string("enum:") + what + ":" + n + ":valid-name-rejected", ex.what()); }
    }
    c.check(seen.size() == names.size(), std::string("enum:") + what + ":names-not-distinct", "two documented names select the same enumerator");
    std::set<std::string> valid(names.begin(), names.end()); long tried = 0;
    for (auto &n : names) for (auto &bad : mutate(n, r)) {
        if (valid.count(bad)) continue; ++tried;
        bool threw = false; try { ptree t; t.put(key, bad); (void)t.get<E>(key); } catch (const std::exception &) { threw = true; }
        c.check(threw, std::string("enum:") + what + ":invalid-string-accepted-by-parser", "'" + bad + "' was converted to an enumerator without an exception");
        threw = false; try { ptree t; t.put(key, bad); ctor(t); } catch (const std::exception &) { threw = true; }
        // class of the string: a documented name followed by white space and further text is parsed by the
        // stream operator as the valid first token; everything else is a wrong first token
        std::string cls = "other"; { size_t sp = bad.find(' '); if (sp != std::string::npos && valid.count(bad.substr(0, sp))) cls = "valid-name-then-text"; }
        c.check(threw, std::string("enum:") + what + ":invalid-string-accepted-by-constructor:" + cls, "'" + bad + "' was accepted by the class that reads the key (no exception; the default or the first token is used silently)");
    }
    vf::obs_sum("invalid_enum_strings_tried", (double)tried); vf::obs_add("enumerations", what);
    vf::sample("enum_strings", J().s("enumeration", what).n("valid_names", names.size()).n("invalid_strings", tried));
}

} // namespace c14
