// C14 item 1 on a block-valued backend (builtin<static_matrix<double,2,2>>): the run-time wrappers
// dispatch on the value type as well (coarsening::as_scalar when near null-space vectors are given,
// "not supported by the backend" for ruge_stuben).  Same oracle: bitwise equality of the extracted
// operator between amg<BB, runtime, runtime> and the compile-time composition.
#include "c14_equiv.hpp"
#include <amgcl/value_type/static_matrix.hpp>
#include <amgcl/adapter/block_matrix.hpp>
#include <amgcl/coarsening/as_scalar.hpp>

namespace c14 {
typedef amgcl::static_matrix<double, 2, 2> Blk;
typedef amgcl::backend::builtin<Blk> BB;
C14_FILLS(BB)
// as_scalar<C>::type<BB>::params is C<builtin<double>>::params: the scalar fill overloads apply.

template <class P1, class P2> long compare_block_operators(const P1 &a, const P2 &b, size_t n, Rng &r, bool &finite, bool &nz) {
    std::vector<double> f(n, 0.0), x1(n), x2(n); long first = -1; finite = true; nz = false;
    for (size_t j = 0; j <= n; ++j) {
        if (j < n) { std::fill(f.begin(), f.end(), 0.0); f[j] = 1.0; } else f = vf::random_vector(n, r);
        std::fill(x1.begin(), x1.end(), 777.0); std::fill(x2.begin(), x2.end(), 777.0);
        auto F = amgcl::backend::reinterpret_as_rhs<Blk>(f); auto X1 = amgcl::backend::reinterpret_as_rhs<Blk>(x1); auto X2 = amgcl::backend::reinterpret_as_rhs<Blk>(x2);
        a.apply(F, X1); b.apply(F, X2);
        if (!same_bits(x1, x2) && first < 0) first = (long)j;
        for (double v : x1) { if (!std::isfinite(v)) finite = false; if (v != 0) nz = true; }
    }
    return first;
}

template <class CT, class Fill> void block_pair(const char *cn, const char *rn, long idx, bool with_nullspace, Fill extra) {
    Rng r(vf::case_seed("equiv_block", idx)); Env e(r); e.allow_blocks = false; e.allow_nullspace = false; std::string fam;   // vectors are added below for the as_scalar cell only:
    // with vectors the run-time wrapper switches to coarsening::as_scalar, whose compile-time twin is a different class
    Csr<double> A0 = gen_matrix(r, fam, 0); Csr<double> A = vf::kron(A0, vf::spd_block(2, r), 2); e.n = A.n;
    typedef amgcl::amg<BB, amgcl::runtime::coarsening::wrapper, amgcl::runtime::relaxation::wrapper> RT;
    typename CT::params p; ptree t; t.put("coarsening.type", cn); t.put("relax.type", rn);
    fill_amg(p, t, "", e); extra(p, t, e);
    if (with_nullspace) {   // the as_scalar dispatch is taken only when vectors are given
        e.nsB.assign(e.n * 2, 0.0); for (size_t i = 0; i < e.n; ++i) e.nsB[i * 2 + i % 2] = 1.0;
        p.coarsening.nullspace.cols = 2; p.coarsening.nullspace.B = e.nsB; t.put("coarsening.nullspace.cols", 2); t.put("coarsening.nullspace.rows", e.n); t.put("coarsening.nullspace.B", e.nsB.data());
    }
    std::string cell = std::string("block2x2:") + cn + "+" + rn + (with_nullspace ? "+nullspace" : "");
    Case c("equiv_block", idx, J().s("cell", cell).s("family", fam + " (x) spd2").n("n", A.n).s("prm", tree_json(t)));
    unknown_log().clear();
    std::unique_ptr<CT> a; std::unique_ptr<RT> b; std::string e1, e2;
    auto At = A.tie(); auto Ab = amgcl::adapter::block_matrix<Blk>(At);   // the adapter keeps a reference to the tuple
    try { a.reset(new CT(Ab, p)); } catch (const std::exception &ex) { e1 = std::string("E:") + ex.what(); }
    try { b.reset(new RT(Ab, t)); } catch (const std::exception &ex) { e2 = std::string("E:") + ex.what(); }
    std::string unk; for (auto &u : unknown_log()) unk += u + " ";
    c.check(unknown_log().empty(), "amg:" + cell + ":valid-key-reported-unknown", "unknown-parameter hook fired for documented keys: " + unk);
    if (!c.check(e1 == e2, "amg:" + cell + ":exception-mismatch", "construction outcome differs: compile-time [" + e1 + "] run-time [" + e2 + "]")) return;
    if (!a) return;
    size_t l1 = amgcl::verif::access::levels(*a).size(), l2 = amgcl::verif::access::levels(*b).size();
    c.check(l1 == l2, "amg:" + cell + ":levels-differ", "number of levels differs", J().n("compile_time", l1).n("run_time", l2));
    bool fin, nz; long first = compare_block_operators(*a, *b, A.n, r, fin, nz);
    c.check(first < 0, "amg:" + cell + ":operator-differs", "run-time configured block AMG is not bitwise equal to the compile-time composition", J().n("first_column", first));
    if (l1 >= 2 && fin && nz) c.nontrivial();
    vf::obs_add("equiv_block_cells", cell);
    vf::sample("equiv_block", J().s("cell", cell).n("n", A.n).n("levels", l1).bl("bitwise_equal", first < 0));
}

void run_block_case(int k, long idx) {
    using namespace amgcl; auto none = [](auto &, ptree &, Env &) {};
    // block_size of the aggregates must stay 1 here (the unknowns are already blocks), except for the as_scalar path
    switch (k) {
        case 0: block_pair<amg<BB, coarsening::smoothed_aggregation, relaxation::spai0>>("smoothed_aggregation", "spai0", idx, false, none); break;
        case 1: block_pair<amg<BB, coarsening::aggregation, relaxation::ilu0>>("aggregation", "ilu0", idx, false, none); break;
        case 2: block_pair<amg<BB, coarsening::smoothed_aggr_emin, relaxation::damped_jacobi>>("smoothed_aggr_emin", "damped_jacobi", idx, false, none); break;
        case 3: block_pair<amg<BB, coarsening::smoothed_aggregation, relaxation::gauss_seidel>>("smoothed_aggregation", "gauss_seidel", idx, false, none); break;
        case 4: block_pair<amg<BB, coarsening::as_scalar<coarsening::smoothed_aggregation>::type, relaxation::spai0>>("smoothed_aggregation", "spai0", idx, true,
                    [](auto &p, ptree &t, Env &) { p.coarsening.aggr.block_size = 2; t.put("coarsening.aggr.block_size", 2); }); break;
        default: {  // ruge_stuben does not exist for block values: the run-time class has to say so instead of doing something else
            if (!vf::selected("equiv_block", idx)) return;
            Rng r(vf::case_seed("equiv_block", idx)); std::string fam; Csr<double> A0 = gen_matrix(r, fam, 0); Csr<double> A = vf::kron(A0, vf::spd_block(2, r), 2);
            Case c("equiv_block", idx, J().s("cell", "block2x2:ruge_stuben(unsupported)").n("n", A.n));
            ptree t; t.put("coarsening.type", "ruge_stuben"); bool threw = false;
            auto At = A.tie(); try { amg<BB, runtime::coarsening::wrapper, runtime::relaxation::wrapper> b(adapter::block_matrix<Blk>(At), t); } catch (const std::exception &) { threw = true; }
            c.check(threw, "amg:block2x2:ruge_stuben:unsupported-component-accepted", "ruge_stuben on a block-valued backend did not raise an exception");
        }
    }
}
} // namespace c14
