// C14 item 1: the nine amg<B, coarsening::ruge_stuben, relaxation::*> cells against the run-time wrappers.
#include "c14_equiv.hpp"
#include <amgcl/coarsening/ruge_stuben.hpp>
namespace c14 { C14_PAIR_TU(ruge_stuben) }
