// C14 item 1: the nine amg<B, coarsening::smoothed_aggr_emin, relaxation::*> cells against the run-time wrappers.
#include "c14_equiv.hpp"
#include <amgcl/coarsening/smoothed_aggr_emin.hpp>
namespace c14 { C14_PAIR_TU(smoothed_aggr_emin) }
