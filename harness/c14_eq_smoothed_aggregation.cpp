// C14 item 1: the nine amg<B, coarsening::smoothed_aggregation, relaxation::*> cells against the run-time wrappers.
#include "c14_equiv.hpp"
#include <amgcl/coarsening/smoothed_aggregation.hpp>
namespace c14 { C14_PAIR_TU(smoothed_aggregation) }
