// C14 item 1, second half: runtime::solver::wrapper against each compile-time Krylov class around
// one fixed preconditioner; runtime::preconditioner (class = amg | relaxation | dummy | nested)
// and fully run-time make_solver against their compile-time compositions.  Oracle: bitwise
// equality of (iterations, residual, x) resp. of the extracted operator, single thread.
#include "c14_equiv.hpp"
#include <amgcl/preconditioner/runtime.hpp>
#include <amgcl/preconditioner/dummy.hpp>
#include <amgcl/relaxation/as_preconditioner.hpp>
#include <amgcl/coarsening/smoothed_aggregation.hpp>
#include <amgcl/coarsening/aggregation.hpp>
#include <amgcl/coarsening/ruge_stuben.hpp>
#include <amgcl/solver/preonly.hpp>

namespace c14 {
typedef amgcl::amg<B, amgcl::coarsening::smoothed_aggregation, amgcl::relaxation::spai0> FixedAMG;

template <class S> void solver_case(const char *sn, long idx) {
    Rng r(vf::case_seed("equiv_solver", idx)); Env e(r); std::string fam;
    Csr<double> A = gen_matrix(r, fam, 1); e.n = A.n;
    FixedAMG::params pp; pp.coarse_enough = 40; pp.npre = 1 + (unsigned)r.range(0, 1);
    FixedAMG prec(A.tie(), pp);
    typename S::params sp; ptree t; t.put("type", sn);
    fill(sp, t, "", e);
    std::vector<double> f = vf::random_vector(A.n, r), x0 = r.coin() ? std::vector<double>(A.n, 0.0) : vf::random_vector(A.n, r);
    Case c("equiv_solver", idx, J().s("solver", sn).s("family", fam).n("n", A.n).s("prm", tree_json(t)));
    unknown_log().clear();
    std::string e1, e2; size_t it1 = 0, it2 = 0; double r1 = 0, r2 = 0; std::vector<double> x1 = x0, x2 = x0;
    try { S s(A.n, sp); std::tie(it1, r1) = s(prec, f, x1); } catch (const std::exception &ex) { e1 = std::string("E:") + ex.what(); }
    try { amgcl::runtime::solver::wrapper<B> w(A.n, t); std::tie(it2, r2) = w(prec, f, x2); } catch (const std::exception &ex) { e2 = std::string("E:") + ex.what(); }
    std::string unk; for (auto &u : unknown_log()) unk += u + " ";
    c.check(unknown_log().empty(), std::string("solver:") + sn + ":valid-key-reported-unknown", "unknown-parameter hook fired for documented keys: " + unk);
    if (!c.check(e1 == e2, std::string("solver:") + sn + ":exception-mismatch", "outcome differs: compile-time [" + e1 + "] run-time [" + e2 + "]")) return;
    if (!e1.empty()) return;
    c.check(it1 == it2, std::string("solver:") + sn + ":iterations-differ", "iteration counts differ", J().n("compile_time", it1).n("run_time", it2));
    c.check(!memcmp(&r1, &r2, sizeof r1), std::string("solver:") + sn + ":residual-differs", "reported residuals differ bitwise", J().n("compile_time", r1).n("run_time", r2));
    c.check(same_bits(x1, x2), std::string("solver:") + sn + ":solution-differs", "solutions differ bitwise");
    bool moved = !same_bits(x1, x0);
    if (moved && it1 >= 1) c.nontrivial();
    vf::obs_add("equiv_solvers", sn);
    vf::sample("equiv_solver", J().s("solver", sn).n("n", A.n).n("iters", it1).n("resid", r1).bl("bitwise_equal", it1 == it2 && same_bits(x1, x2)).s("prm", tree_json(t)));
}

void run_solver_case(int si, long idx) {
    switch (si) {
        case 0: solver_case<amgcl::solver::cg<B>>("cg", idx); break;
        case 1: solver_case<amgcl::solver::bicgstab<B>>("bicgstab", idx); break;
        case 2: solver_case<amgcl::solver::bicgstabl<B>>("bicgstabl", idx); break;
        case 3: solver_case<amgcl::solver::gmres<B>>("gmres", idx); break;
        case 4: solver_case<amgcl::solver::lgmres<B>>("lgmres", idx); break;
        case 5: solver_case<amgcl::solver::fgmres<B>>("fgmres", idx); break;
        case 6: solver_case<amgcl::solver::idrs<B>>("idrs", idx); break;
        case 7: solver_case<amgcl::solver::richardson<B>>("richardson", idx); break;
        case 8: solver_case<amgcl::solver::preonly<B>>("preonly", idx); break;
        default: fprintf(stderr, "c14: bad solver index\n"); exit(3);
    }
}

//--- runtime::preconditioner ------------------------------------------------
template <class CT, class Fill> void precond_case(const char *klass, const char *what, long idx, Fill fillfn) {
    Rng r(vf::case_seed("equiv_precond", idx)); Env e(r); std::string fam;
    Csr<double> A = gen_matrix(r, fam, 0); e.n = A.n;
    typename CT::params p; ptree t; t.put("class", klass);
    fillfn(p, t, e);
    std::string cell = std::string(klass) + ":" + what;
    Case c("equiv_precond", idx, J().s("class", klass).s("composition", what).s("family", fam).n("n", A.n).s("prm", tree_json(t)));
    unknown_log().clear();
    std::unique_ptr<CT> a; std::unique_ptr<amgcl::runtime::preconditioner<B>> b; std::string e1, e2;
    try { a.reset(new CT(A.tie(), p)); } catch (const std::exception &ex) { e1 = std::string("E:") + ex.what(); }
    try { b.reset(new amgcl::runtime::preconditioner<B>(A.tie(), t)); } catch (const std::exception &ex) { e2 = std::string("E:") + ex.what(); }
    std::string unk; for (auto &u : unknown_log()) unk += u + " ";
    c.check(unknown_log().empty(), "precond:" + cell + ":valid-key-reported-unknown", "unknown-parameter hook fired for documented keys: " + unk);
    if (!c.check(e1 == e2, "precond:" + cell + ":exception-mismatch", "construction outcome differs: compile-time [" + e1 + "] run-time [" + e2 + "]")) return;
    if (!a) return;
    bool fin, nz; double md; long first = compare_operators(*a, *b, A.n, r, fin, nz, md);
    c.check(first < 0, "precond:" + cell + ":operator-differs", "runtime::preconditioner is not bitwise equal to the compile-time composition", J().n("first_column", first).n("max_abs_diff", md));
    if (fin && nz) c.nontrivial();
    vf::obs_add("equiv_precond_classes", cell);
    vf::sample("equiv_precond", J().s("cell", cell).n("n", A.n).bl("bitwise_equal", first < 0));
}

void run_precond_class_case(int k, long idx) {
    using namespace amgcl;
    switch (k) {
        case 0: precond_case<amg<B, coarsening::smoothed_aggregation, relaxation::spai0>>("amg", "smoothed_aggregation+spai0", idx,
                    [](auto &p, ptree &t, Env &e) { t.put("coarsening.type", "smoothed_aggregation"); t.put("relax.type", "spai0"); fill_amg(p, t, "", e); }); break;
        case 1: precond_case<amg<B, coarsening::ruge_stuben, relaxation::gauss_seidel>>("amg", "ruge_stuben+gauss_seidel", idx,
                    [](auto &p, ptree &t, Env &e) { t.put("coarsening.type", "ruge_stuben"); t.put("relax.type", "gauss_seidel"); fill_amg(p, t, "", e); }); break;
        case 2: precond_case<relaxation::as_preconditioner<B, relaxation::ilu0>>("relaxation", "ilu0", idx,
                    [](auto &p, ptree &t, Env &e) { t.put("type", "ilu0"); fill(p, t, "", e); }); break;
        case 3: precond_case<relaxation::as_preconditioner<B, relaxation::damped_jacobi>>("relaxation", "damped_jacobi", idx,
                    [](auto &p, ptree &t, Env &e) { t.put("type", "damped_jacobi"); fill(p, t, "", e); }); break;
        case 4: precond_case<relaxation::as_preconditioner<B, relaxation::chebyshev>>("relaxation", "chebyshev", idx,
                    [](auto &p, ptree &t, Env &e) { t.put("type", "chebyshev"); fill(p, t, "", e); }); break;
        case 5: precond_case<preconditioner::dummy<B>>("dummy", "dummy", idx, [](auto &, ptree &, Env &) {}); break;
        case 6: precond_case<make_solver<relaxation::as_preconditioner<B, relaxation::spai0>, solver::cg<B>>>("nested", "spai0/cg", idx,
                    [](auto &p, ptree &t, Env &e) { t.put("precond.class", "relaxation"); t.put("precond.type", "spai0"); t.put("solver.type", "cg"); fill(p.solver, t, "solver.", e); }); break;
        case 7: precond_case<make_solver<amg<B, coarsening::aggregation, relaxation::ilu0>, solver::gmres<B>>>("nested", "amg(aggregation+ilu0)/gmres", idx,
                    [](auto &p, ptree &t, Env &e) { t.put("precond.class", "amg"); t.put("precond.coarsening.type", "aggregation"); t.put("precond.relax.type", "ilu0"); t.put("solver.type", "gmres");
                        fill_amg(p.precond, t, "precond.", e); fill(p.solver, t, "solver.", e); }); break;
        default: fprintf(stderr, "c14: bad precond index\n"); exit(3);
    }
}

//--- make_solver: everything run-time against everything compile-time --------
template <class CT> void make_solver_case(const char *cn, const char *rn, const char *sn, long idx) {
    Rng r(vf::case_seed("equiv_make_solver", idx)); Env e(r); std::string fam;
    Csr<double> A = gen_matrix(r, fam, 1); e.n = A.n;
    typedef amgcl::make_solver<amgcl::amg<B, amgcl::runtime::coarsening::wrapper, amgcl::runtime::relaxation::wrapper>, amgcl::runtime::solver::wrapper<B>> RT;
    typename CT::params p; ptree t;
    t.put("precond.coarsening.type", cn); t.put("precond.relax.type", rn); t.put("solver.type", sn);
    fill_amg(p.precond, t, "precond.", e); fill(p.solver, t, "solver.", e);
    std::string cell = std::string(cn) + "+" + rn + "+" + sn;
    std::vector<double> f = vf::random_vector(A.n, r);
    // replacement matrix for the operator()(A2, rhs, x) overload: same pattern, perturbed values
    Csr<double> A2 = A; for (auto &v : A2.val) v *= (1.0 + 0.01 * r.uni());
    Case c("equiv_make_solver", idx, J().s("cell", cell).s("family", fam).n("n", A.n).s("prm", tree_json(t)));
    unknown_log().clear();
    std::string e1, e2; size_t it1 = 0, it2 = 0, jt1 = 0, jt2 = 0; double r1 = 0, r2 = 0, q1 = 0, q2 = 0; std::vector<double> x1(A.n, 0.0), x2(A.n, 0.0), y1(A.n, 0.0), y2(A.n, 0.0);
    try { CT s(A.tie(), p); std::tie(it1, r1) = s(f, x1); std::tie(jt1, q1) = s(A2.tie(), f, y1); } catch (const std::exception &ex) { e1 = std::string("E:") + ex.what(); }
    try { RT s(A.tie(), t); std::tie(it2, r2) = s(f, x2); std::tie(jt2, q2) = s(A2.tie(), f, y2); } catch (const std::exception &ex) { e2 = std::string("E:") + ex.what(); }
    std::string unk; for (auto &u : unknown_log()) unk += u + " ";
    c.check(unknown_log().empty(), "make_solver:" + cell + ":valid-key-reported-unknown", "unknown-parameter hook fired for documented keys: " + unk);
    if (!c.check(e1 == e2, "make_solver:" + cell + ":exception-mismatch", "outcome differs: compile-time [" + e1 + "] run-time [" + e2 + "]")) return;
    if (!e1.empty()) return;
    c.check(it1 == it2 && !memcmp(&r1, &r2, 8) && same_bits(x1, x2), "make_solver:" + cell + ":solve-differs", "(iterations, residual, x) differ", J().n("it_ct", it1).n("it_rt", it2).n("res_ct", r1).n("res_rt", r2));
    c.check(jt1 == jt2 && !memcmp(&q1, &q2, 8) && same_bits(y1, y2), "make_solver:" + cell + ":solve-mtx-differs", "(iterations, residual, x) differ for the replacement-matrix overload", J().n("it_ct", jt1).n("it_rt", jt2));
    if (it1 >= 1) c.nontrivial();
    vf::obs_add("equiv_make_solver_cells", cell);
    vf::sample("equiv_make_solver", J().s("cell", cell).n("n", A.n).n("iters", it1).n("resid", r1).bl("bitwise_equal", it1 == it2 && same_bits(x1, x2)));
}

void run_make_solver_case(int k, long idx) {
    using namespace amgcl;
    switch (k) {
        case 0: make_solver_case<make_solver<amg<B, coarsening::smoothed_aggregation, relaxation::spai0>, solver::cg<B>>>("smoothed_aggregation", "spai0", "cg", idx); break;
        case 1: make_solver_case<make_solver<amg<B, coarsening::ruge_stuben, relaxation::gauss_seidel>, solver::bicgstab<B>>>("ruge_stuben", "gauss_seidel", "bicgstab", idx); break;
        case 2: make_solver_case<make_solver<amg<B, coarsening::aggregation, relaxation::ilu0>, solver::gmres<B>>>("aggregation", "ilu0", "gmres", idx); break;
        default: fprintf(stderr, "c14: bad make_solver index\n"); exit(3);
    }
}
} // namespace c14
