// c14_equiv.hpp -- shared code of the C14 bitwise-equivalence translation units
// (DESIGN.md 5/C14 item 1).  A compile-time params struct is filled FIELD BY FIELD with
// random non-default values while the same values are put into a property tree under the
// key that carries the member's name; the two objects built from them must act bitwise
// identically.  The fill functions below are written from the member declarations of the
// params structs (the documented parameter names), not from the import lists.
#pragma once
#include "c14_pre.hpp"
#include <amgcl/backend/builtin.hpp>
#include <amgcl/adapter/crs_tuple.hpp>
#include <amgcl/amg.hpp>
#include <amgcl/make_solver.hpp>
#include <amgcl/coarsening/runtime.hpp>
#include <amgcl/relaxation/runtime.hpp>
#include <amgcl/solver/runtime.hpp>
#include <boost/property_tree/json_parser.hpp>
#ifndef C14_MAIN_TU
#  define VF_HOOKS_NO_DEF
#endif
#include <vf/hooks.hpp>
#include <vf/gen.hpp>
#include <memory>
#include <cstring>
#include <sstream>

namespace c14 {
typedef amgcl::backend::builtin<double> B;
typedef boost::property_tree::ptree ptree;
using vf::Csr; using vf::J; using vf::Rng; using vf::Case;

// entry points implemented by the equivalence TUs (dispatch in c14_config.cpp)
void run_pair_aggregation(int ri, long idx);
void run_pair_smoothed_aggregation(int ri, long idx);
void run_pair_smoothed_aggr_emin(int ri, long idx);
void run_pair_ruge_stuben(int ri, long idx);
void run_solver_case(int si, long idx);
void run_precond_class_case(int k, long idx);
void run_make_solver_case(int k, long idx);

static const char *const COARSENINGS[] = {"aggregation", "smoothed_aggregation", "smoothed_aggr_emin", "ruge_stuben"};
static const char *const RELAXATIONS[] = {"damped_jacobi", "gauss_seidel", "spai0", "spai1", "chebyshev", "ilu0", "iluk", "ilup", "ilut"};
static const char *const SOLVERS[] = {"cg", "bicgstab", "bicgstabl", "gmres", "lgmres", "fgmres", "idrs", "richardson", "preonly"};

struct Env {
    Rng &r; size_t n = 0; std::vector<double> nsB;   // storage of the near null-space vectors handed over by pointer
    bool allow_blocks = true, allow_nullspace = true;
    explicit Env(Rng &r_) : r(r_) {}
};

// Every row has at least one negative off-diagonal (M-matrix / upwind stencils): keeps the
// workload outside the input class of finding F3 (ruge_stuben reads unwritten strength
// values for rows without negative off-diagonals), which belongs to C10.
inline Csr<double> gen_matrix(Rng &r, std::string &family, long size_class) {
    int lo = size_class ? 14 : 8, hi = size_class ? 24 : 16;
    int k = (int)r.range(0, 3);
    if (k == 0) { vf::GridSpec g; g.nx = 2 * (int)r.range(lo / 2, hi / 2); g.ny = (int)r.range(lo, hi); g.contrast = r.logu(1, 8); g.aniso = r.coin() ? 1.0 : r.logu(0.2, 1); g.nine = r.coin(0.3); family = g.nine ? "grid9" : "grid5"; return vf::grid_diffusion(g, r); }
    if (k == 1) { vf::GridSpec g; g.nx = 2 * (int)r.range(2, 4); g.ny = (int)r.range(4, 7); g.nz = (int)r.range(3, 6); g.contrast = r.logu(1, 5); family = "grid7"; return vf::grid_diffusion(g, r); }
    if (k == 2) { family = "convdiff"; return vf::convdiff(2 * (int)r.range(lo / 2, hi / 2), (int)r.range(lo, hi), r.logu(0.1, 5), r, false); }
    vf::GridSpec g; g.nx = 2 * (int)r.range(lo / 2, hi / 2); g.ny = (int)r.range(lo, hi); g.shift = r.uni(0.01, 0.5); family = "grid5_shift"; return vf::grid_diffusion(g, r);
}

template <class T, class V> void setv(T &field, ptree &t, const std::string &key, V v) { field = static_cast<T>(v); t.put(key, static_cast<T>(v)); }

//--- coarsening -------------------------------------------------------------
inline void fill(amgcl::coarsening::pointwise_aggregates::params &p, ptree &t, const std::string &k, Env &e) {
    setv(p.eps_strong, t, k + "eps_strong", (float)e.r.uni(0.02, 0.2));
    setv(p.block_size, t, k + "block_size", (unsigned)((e.allow_blocks && e.n % 2 == 0 && e.r.coin(0.2)) ? 2 : 1));
}
inline void fill(amgcl::coarsening::nullspace_params &p, ptree &t, const std::string &k, Env &e) {
    if (!e.allow_nullspace || !e.r.coin(0.3)) return;   // default: no near null-space vectors
    int cols = (int)e.r.range(1, 2);
    e.nsB.resize(e.n * cols);
    for (size_t i = 0; i < e.n; ++i) { e.nsB[i * cols] = 1.0; if (cols > 1) e.nsB[i * cols + 1] = e.r.uni(-1, 1); }
    p.cols = cols; p.B = e.nsB;
    t.put(k + "cols", cols); t.put(k + "rows", e.n); t.put(k + "B", e.nsB.data());
}
inline void fill(amgcl::detail::empty_params &, ptree &, const std::string &, Env &) {}
// The backend dependent fill overloads, as a macro so that the block-valued backend gets its own set (c14_eq_block.cpp).
#define C14_FILLS(BK) \
inline void fill(amgcl::coarsening::aggregation<BK>::params &p, ptree &t, const std::string &k, Env &e) { \
    fill(p.aggr, t, k + "aggr.", e); fill(p.nullspace, t, k + "nullspace.", e); \
    setv(p.over_interp, t, k + "over_interp", (float)e.r.uni(1.0, 2.0)); \
} \
inline void fill(amgcl::coarsening::smoothed_aggregation<BK>::params &p, ptree &t, const std::string &k, Env &e) { \
    fill(p.aggr, t, k + "aggr.", e); fill(p.nullspace, t, k + "nullspace.", e); \
    setv(p.relax, t, k + "relax", (float)e.r.uni(0.5, 1.4)); \
    setv(p.estimate_spectral_radius, t, k + "estimate_spectral_radius", e.r.coin()); \
    setv(p.power_iters, t, k + "power_iters", (int)e.r.range(0, 4)); \
} \
inline void fill(amgcl::coarsening::smoothed_aggr_emin<BK>::params &p, ptree &t, const std::string &k, Env &e) { \
    fill(p.aggr, t, k + "aggr.", e); fill(p.nullspace, t, k + "nullspace.", e); \
} \
inline void fill(amgcl::coarsening::ruge_stuben<BK>::params &p, ptree &t, const std::string &k, Env &e) { \
    setv(p.eps_strong, t, k + "eps_strong", (float)e.r.uni(0.1, 0.5)); \
    setv(p.do_trunc, t, k + "do_trunc", e.r.coin(0.6)); \
    setv(p.eps_trunc, t, k + "eps_trunc", (float)e.r.uni(0.05, 0.4)); \
} \
inline void fill(amgcl::relaxation::damped_jacobi<BK>::params &p, ptree &t, const std::string &k, Env &e) { setv(p.damping, t, k + "damping", e.r.uni(0.4, 0.95)); } \
inline void fill(amgcl::relaxation::gauss_seidel<BK>::params &p, ptree &t, const std::string &k, Env &e) { setv(p.serial, t, k + "serial", e.r.coin()); } \
inline void fill(amgcl::relaxation::chebyshev<BK>::params &p, ptree &t, const std::string &k, Env &e) { \
    setv(p.degree, t, k + "degree", (unsigned)e.r.range(1, 6)); \
    setv(p.higher, t, k + "higher", (float)e.r.uni(1.0, 1.3)); \
    setv(p.lower, t, k + "lower", (float)e.r.uni(0.02, 0.3)); \
    setv(p.power_iters, t, k + "power_iters", (int)e.r.range(0, 5)); \
    setv(p.scale, t, k + "scale", e.r.coin()); \
} \
inline void fill(amgcl::relaxation::detail::ilu_solve<BK>::params &p, ptree &t, const std::string &k, Env &e) { setv(p.serial, t, k + "serial", e.r.coin()); } \
inline void fill(amgcl::relaxation::ilu0<BK>::params &p, ptree &t, const std::string &k, Env &e) { \
    setv(p.damping, t, k + "damping", e.r.uni(0.5, 1.0)); fill(p.solve, t, k + "solve.", e); \
} \
inline void fill(amgcl::relaxation::iluk<BK>::params &p, ptree &t, const std::string &k, Env &e) { \
    setv(p.k, t, k + "k", (int)e.r.range(0, 3)); setv(p.damping, t, k + "damping", e.r.uni(0.5, 1.0)); fill(p.solve, t, k + "solve.", e); \
} \
inline void fill(amgcl::relaxation::ilup<BK>::params &p, ptree &t, const std::string &k, Env &e) { \
    setv(p.k, t, k + "k", (int)e.r.range(0, 2)); setv(p.damping, t, k + "damping", e.r.uni(0.5, 1.0)); fill(p.solve, t, k + "solve.", e); \
} \
inline void fill(amgcl::relaxation::ilut<BK>::params &p, ptree &t, const std::string &k, Env &e) { \
    setv(p.p, t, k + "p", e.r.uni(1.0, 4.0)); setv(p.tau, t, k + "tau", e.r.logu(1e-3, 1e-1)); \
    setv(p.damping, t, k + "damping", e.r.uni(0.5, 1.0)); fill(p.solve, t, k + "solve.", e); \
}
C14_FILLS(B)
//--- amg --------------------------------------------------------------------
template <class AP> void fill_amg(AP &p, ptree &t, const std::string &k, Env &e) {
    fill(p.coarsening, t, k + "coarsening.", e); fill(p.relax, t, k + "relax.", e);
    setv(p.coarse_enough, t, k + "coarse_enough", (unsigned)e.r.range(8, (long)std::max<size_t>(9, e.n / 3)));
    setv(p.direct_coarse, t, k + "direct_coarse", e.r.coin(0.7));
    setv(p.max_levels, t, k + "max_levels", (unsigned)e.r.range(1, 5));
    setv(p.npre, t, k + "npre", (unsigned)e.r.range(0, 3));
    setv(p.npost, t, k + "npost", (unsigned)e.r.range(0, 3));
    setv(p.ncycle, t, k + "ncycle", (unsigned)e.r.range(1, 2));
    setv(p.pre_cycles, t, k + "pre_cycles", (unsigned)e.r.range(e.r.coin(0.1) ? 0 : 1, 2));
    setv(p.allow_rebuild, t, k + "allow_rebuild", e.r.coin());
}
//--- solvers ----------------------------------------------------------------
template <class SP> void fill_common(SP &p, ptree &t, const std::string &k, Env &e) {
    setv(p.maxiter, t, k + "maxiter", (unsigned)e.r.range(1, 40));
    setv(p.tol, t, k + "tol", e.r.logu(1e-12, 1e-2));
    setv(p.abstol, t, k + "abstol", e.r.coin() ? e.r.logu(1e-14, 1e-6) : 0.0);
    setv(p.ns_search, t, k + "ns_search", e.r.coin());
    setv(p.verbose, t, k + "verbose", false);      // true would only print; exercised in the parameter table
}
template <class SP> void fill_side(SP &p, ptree &t, const std::string &k, Env &e) {
    bool left = e.r.coin(); p.pside = left ? amgcl::preconditioner::side::left : amgcl::preconditioner::side::right; t.put(k + "pside", left ? "left" : "right");
}
inline void fill(amgcl::solver::cg<B>::params &p, ptree &t, const std::string &k, Env &e) { fill_common(p, t, k, e); }
inline void fill(amgcl::solver::bicgstab<B>::params &p, ptree &t, const std::string &k, Env &e) { fill_common(p, t, k, e); fill_side(p, t, k, e); setv(p.check_after, t, k + "check_after", e.r.coin()); }
inline void fill(amgcl::solver::bicgstabl<B>::params &p, ptree &t, const std::string &k, Env &e) { fill_common(p, t, k, e); fill_side(p, t, k, e);
    setv(p.L, t, k + "L", (int)e.r.range(1, 4)); setv(p.delta, t, k + "delta", e.r.coin() ? 0.0 : e.r.uni(0, 0.1)); setv(p.convex, t, k + "convex", e.r.coin()); }
inline void fill(amgcl::solver::gmres<B>::params &p, ptree &t, const std::string &k, Env &e) { fill_common(p, t, k, e); fill_side(p, t, k, e); setv(p.M, t, k + "M", (unsigned)e.r.range(2, 25)); }
inline void fill(amgcl::solver::lgmres<B>::params &p, ptree &t, const std::string &k, Env &e) { fill_common(p, t, k, e); fill_side(p, t, k, e);
    setv(p.M, t, k + "M", (unsigned)e.r.range(3, 20)); setv(p.K, t, k + "K", (unsigned)e.r.range(1, 4)); setv(p.always_reset, t, k + "always_reset", e.r.coin()); }
inline void fill(amgcl::solver::fgmres<B>::params &p, ptree &t, const std::string &k, Env &e) { fill_common(p, t, k, e); setv(p.M, t, k + "M", (unsigned)e.r.range(2, 25)); }
inline void fill(amgcl::solver::idrs<B>::params &p, ptree &t, const std::string &k, Env &e) { fill_common(p, t, k, e);
    setv(p.s, t, k + "s", (unsigned)e.r.range(1, 6)); setv(p.omega, t, k + "omega", e.r.coin(0.3) ? 0.0 : e.r.uni(0.5, 0.9)); setv(p.smoothing, t, k + "smoothing", e.r.coin()); setv(p.replacement, t, k + "replacement", e.r.coin()); }
inline void fill(amgcl::solver::richardson<B>::params &p, ptree &t, const std::string &k, Env &e) { fill_common(p, t, k, e); setv(p.damping, t, k + "damping", e.r.uni(0.5, 1.0)); }

inline std::string tree_json(const ptree &t) { std::ostringstream s; try { boost::property_tree::write_json(s, t, false); } catch (...) { return "?"; } std::string o = s.str(); while (!o.empty() && o.back() == '\n') o.pop_back(); return o; }

inline bool same_bits(const std::vector<double> &a, const std::vector<double> &b) { return a.size() == b.size() && (a.empty() || !memcmp(a.data(), b.data(), a.size() * sizeof(double))); }

// Compare two preconditioner-like objects column by column on unit vectors plus one random vector.
// Returns the index of the first differing column (-1: none); finite = all outputs finite, nz = some output non-zero.
template <class P1, class P2> long compare_operators(const P1 &a, const P2 &b, size_t n, Rng &r, bool &finite, bool &nz, double &maxdiff) {
    std::vector<double> f(n, 0.0), x1(n), x2(n); long first = -1; finite = true; nz = false; maxdiff = 0;
    for (size_t j = 0; j <= n; ++j) {
        if (j < n) { std::fill(f.begin(), f.end(), 0.0); f[j] = 1.0; } else f = vf::random_vector(n, r);
        std::fill(x1.begin(), x1.end(), 777.0); std::fill(x2.begin(), x2.end(), 777.0);   // apply() must overwrite
        a.apply(f, x1); b.apply(f, x2);
        if (!same_bits(x1, x2)) { if (first < 0) first = (long)j; for (size_t i = 0; i < n; ++i) { double d = std::fabs(x1[i] - x2[i]); if (!(d <= maxdiff)) maxdiff = d; } }
        for (double v : x1) { if (!std::isfinite(v)) finite = false; if (v != 0) nz = true; }
    }
    return first;
}

// The 36 (coarsening, relaxation) cells: compile-time amg<B, C, R> against the run-time wrappers.
template <template <class> class C, template <class> class R>
void amg_pair(const char *cn, const char *rn, long idx) {
    Rng r(vf::case_seed("equiv_amg", idx)); Env e(r); std::string fam;
    Csr<double> A = gen_matrix(r, fam, idx / 36 % 2); e.n = A.n;
    typedef amgcl::amg<B, C, R> CT;
    typedef amgcl::amg<B, amgcl::runtime::coarsening::wrapper, amgcl::runtime::relaxation::wrapper> RT;
    typename CT::params p; ptree t;
    t.put("coarsening.type", cn); t.put("relax.type", rn);
    fill_amg(p, t, "", e);
    std::string cell = std::string(cn) + "+" + rn;
    Case c("equiv_amg", idx, J().s("coarsening", cn).s("relax", rn).s("family", fam).n("n", A.n).n("nnz", A.nnz()).s("prm", tree_json(t)));
    unknown_log().clear();
    std::unique_ptr<CT> a; std::unique_ptr<RT> b; std::string e1, e2;
    try { a.reset(new CT(A.tie(), p)); } catch (const std::exception &ex) { e1 = std::string("E:") + ex.what(); }
    try { b.reset(new RT(A.tie(), t)); } catch (const std::exception &ex) { e2 = std::string("E:") + ex.what(); }
    std::string unk; for (auto &u : unknown_log()) unk += u + " ";
    c.check(unknown_log().empty(), "amg:" + cell + ":valid-key-reported-unknown", "the unknown-parameter hook fired for a tree that holds only documented keys: " + unk);
    if (!c.check(e1 == e2, "amg:" + cell + ":exception-mismatch", "construction outcome differs: compile-time [" + e1 + "] run-time [" + e2 + "]")) return;
    if (!a) { vf::obs_sum("equiv_amg_both_threw"); return; }
    size_t l1 = amgcl::verif::access::levels(*a).size(), l2 = amgcl::verif::access::levels(*b).size();
    c.check(l1 == l2, "amg:" + cell + ":levels-differ", "number of levels differs", J().n("compile_time", l1).n("run_time", l2));
    bool fin, nz; double md; long first = compare_operators(*a, *b, A.n, r, fin, nz, md);
    c.check(first < 0, "amg:" + cell + ":operator-differs", "run-time configured AMG is not bitwise equal to the compile-time composition", J().n("first_column", first).n("max_abs_diff", md));
    if (l1 >= 2 && fin && nz) c.nontrivial();
    vf::obs_add("equiv_amg_cells", cell); vf::obs_max("equiv_amg_max_levels", (double)l1);
    vf::sample("equiv_amg", J().s("cell", cell).s("family", fam).n("n", A.n).n("levels", l1).bl("bitwise_equal", first < 0).s("prm", tree_json(t)));
}

#define C14_PAIR_TU(COARSENING) \
    void run_pair_##COARSENING(int ri, long idx) { \
        switch (ri) { \
            case 0: amg_pair<amgcl::coarsening::COARSENING, amgcl::relaxation::damped_jacobi>(#COARSENING, "damped_jacobi", idx); break; \
            case 1: amg_pair<amgcl::coarsening::COARSENING, amgcl::relaxation::gauss_seidel>(#COARSENING, "gauss_seidel", idx); break; \
            case 2: amg_pair<amgcl::coarsening::COARSENING, amgcl::relaxation::spai0>(#COARSENING, "spai0", idx); break; \
            case 3: amg_pair<amgcl::coarsening::COARSENING, amgcl::relaxation::spai1>(#COARSENING, "spai1", idx); break; \
            case 4: amg_pair<amgcl::coarsening::COARSENING, amgcl::relaxation::chebyshev>(#COARSENING, "chebyshev", idx); break; \
            case 5: amg_pair<amgcl::coarsening::COARSENING, amgcl::relaxation::ilu0>(#COARSENING, "ilu0", idx); break; \
            case 6: amg_pair<amgcl::coarsening::COARSENING, amgcl::relaxation::iluk>(#COARSENING, "iluk", idx); break; \
            case 7: amg_pair<amgcl::coarsening::COARSENING, amgcl::relaxation::ilup>(#COARSENING, "ilup", idx); break; \
            case 8: amg_pair<amgcl::coarsening::COARSENING, amgcl::relaxation::ilut>(#COARSENING, "ilut", idx); break; \
            default: fprintf(stderr, "c14: bad relaxation index\n"); exit(3); \
        } \
    }
} // namespace c14
