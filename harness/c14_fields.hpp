// c14_fields.hpp -- member lists of the serial params structs (C14 parameter table).
// Written from the member declarations in the component headers and docs/components/*.rst.
#pragma once
#include "c14_table.hpp"
#include <amgcl/backend/builtin.hpp>
#include <amgcl/backend/block_crs.hpp>
#include <amgcl/amg.hpp>
#include <amgcl/make_solver.hpp>
#include <amgcl/deflated_solver.hpp>
#include <amgcl/solver/cg.hpp>
#include <amgcl/solver/bicgstab.hpp>
#include <amgcl/solver/bicgstabl.hpp>
#include <amgcl/solver/gmres.hpp>
#include <amgcl/solver/lgmres.hpp>
#include <amgcl/solver/fgmres.hpp>
#include <amgcl/solver/idrs.hpp>
#include <amgcl/solver/richardson.hpp>
#include <amgcl/solver/preonly.hpp>
#include <amgcl/relaxation/damped_jacobi.hpp>
#include <amgcl/relaxation/gauss_seidel.hpp>
#include <amgcl/relaxation/spai0.hpp>
#include <amgcl/relaxation/spai1.hpp>
#include <amgcl/relaxation/chebyshev.hpp>
#include <amgcl/relaxation/ilu0.hpp>
#include <amgcl/relaxation/iluk.hpp>
#include <amgcl/relaxation/ilup.hpp>
#include <amgcl/relaxation/ilut.hpp>
#include <amgcl/relaxation/as_preconditioner.hpp>
#include <amgcl/coarsening/aggregation.hpp>
#include <amgcl/coarsening/smoothed_aggregation.hpp>
#include <amgcl/coarsening/smoothed_aggr_emin.hpp>
#include <amgcl/coarsening/ruge_stuben.hpp>
#include <amgcl/coarsening/plain_aggregates.hpp>
#include <amgcl/coarsening/pointwise_aggregates.hpp>
#include <amgcl/preconditioner/cpr.hpp>
#include <amgcl/preconditioner/cpr_drs.hpp>
#include <amgcl/preconditioner/schur_pressure_correction.hpp>
#include <amgcl/preconditioner/dummy.hpp>

namespace c14 {
typedef amgcl::backend::builtin<double> B;
// stand-in for a non-builtin backend: reaches the generic ilu_solve<Backend>::params (iters, damping)
struct OtherBackend { typedef double value_type; typedef ptrdiff_t col_type; typedef ptrdiff_t ptr_type; struct params {}; typedef int matrix; typedef int vector; typedef int matrix_diagonal; };

//--- solvers ------------------------------------------------------------------
C14_FIELDS(amgcl::solver::cg<B>::params)         { C14_VAL(maxiter) C14_VAL(tol) C14_VAL(abstol) C14_VAL(ns_search) C14_VAL(verbose) }
C14_FIELDS(amgcl::solver::bicgstab<B>::params)   { C14_VAL(check_after) C14_VAL(pside) C14_VAL(maxiter) C14_VAL(tol) C14_VAL(abstol) C14_VAL(ns_search) C14_VAL(verbose) }
C14_FIELDS(amgcl::solver::bicgstabl<B>::params)  { C14_VAL(L) C14_VAL(delta) C14_VAL(convex) C14_VAL(pside) C14_VAL(maxiter) C14_VAL(tol) C14_VAL(abstol) C14_VAL(ns_search) C14_VAL(verbose) }
C14_FIELDS(amgcl::solver::gmres<B>::params)      { C14_VAL(M) C14_VAL(pside) C14_VAL(maxiter) C14_VAL(tol) C14_VAL(abstol) C14_VAL(ns_search) C14_VAL(verbose) }
C14_FIELDS(amgcl::solver::lgmres<B>::params)     { C14_VAL(K) C14_VAL(always_reset) C14_VAL(M) C14_VAL(pside) C14_VAL(maxiter) C14_VAL(tol) C14_VAL(abstol) C14_VAL(ns_search) C14_VAL(verbose) }
C14_FIELDS(amgcl::solver::fgmres<B>::params)     { C14_VAL(M) C14_VAL(maxiter) C14_VAL(tol) C14_VAL(abstol) C14_VAL(ns_search) C14_VAL(verbose) }
C14_FIELDS(amgcl::solver::idrs<B>::params)       { C14_VAL(s) C14_VAL(omega) C14_VAL(smoothing) C14_VAL(replacement) C14_VAL(maxiter) C14_VAL(tol) C14_VAL(abstol) C14_VAL(ns_search) C14_VAL(verbose) }
C14_FIELDS(amgcl::solver::richardson<B>::params) { C14_VAL(damping) C14_VAL(maxiter) C14_VAL(tol) C14_VAL(abstol) C14_VAL(ns_search) C14_VAL(verbose) }
//--- relaxation ----------------------------------------------------------------
C14_FIELDS(amgcl::relaxation::damped_jacobi<B>::params) { C14_VAL(damping) }
C14_FIELDS(amgcl::relaxation::gauss_seidel<B>::params)  { C14_VAL(serial) }
C14_FIELDS(amgcl::relaxation::chebyshev<B>::params)     { C14_VAL(degree) C14_VAL(higher) C14_VAL(lower) C14_VAL(power_iters) C14_VAL(scale) }
C14_FIELDS(amgcl::relaxation::detail::ilu_solve<B>::params)            { C14_VAL(serial) }
C14_FIELDS(amgcl::relaxation::detail::ilu_solve<OtherBackend>::params) { C14_VAL(iters) C14_VAL(damping) }
C14_FIELDS(amgcl::relaxation::ilu0<B>::params) { C14_VAL(damping) C14_CHILD(solve) C14_ACCEPTS(k) }   // ilup::params derives from ilu0::params and hands it the whole tree
C14_FIELDS(amgcl::relaxation::iluk<B>::params) { C14_VAL(k) C14_VAL(damping) C14_CHILD(solve) }
C14_FIELDS(amgcl::relaxation::ilup<B>::params) { C14_VAL(k) C14_VAL(damping) C14_CHILD(solve) }
C14_FIELDS(amgcl::relaxation::ilut<B>::params) { C14_VAL(p) C14_VAL(tau) C14_VAL(damping) C14_CHILD(solve) }
//--- coarsening -----------------------------------------------------------------
C14_FIELDS(amgcl::coarsening::plain_aggregates::params)     { C14_VAL(eps_strong) C14_ACCEPTS(block_size) }   // pointwise_aggregates::params derives from it
C14_FIELDS(amgcl::coarsening::pointwise_aggregates::params) { C14_VAL(eps_strong) C14_VAL(block_size) }
// near null-space vectors: cols (value), rows (size of the user array), B (pointer to rows x cols doubles, copied at import).
// Not written back by params::get() by design (the pointer is gone after the copy; cols alone cannot be re-imported).
C14_FIELDS(amgcl::coarsening::nullspace_params) {
    typedef amgcl::coarsening::nullspace_params NS;
    Field f; f.key = pre + "B"; f.type = "int cols; size_t rows; double *B"; f.exported = false; f.optional_in_rep = true; f.offset = tb.offset_of(acc(*tb.probe));
    f.keys = {pre + "cols", pre + "rows", pre + "B"};
    struct St { int cols = 0; size_t rows = 0; std::vector<double> data; };
    auto st = std::make_shared<St>();
    std::string kp = pre;
    f.put = [st, kp](Rng &r, ptree &t, const void *, int) { st->cols = (int)r.range(1, 3); st->rows = (size_t)r.range(1, 7); st->data.resize(st->cols * st->rows); for (auto &v : st->data) v = r.uni(-1, 1);
        t.put(kp + "cols", st->cols); t.put(kp + "rows", st->rows); t.put(kp + "B", st->data.data()); };
    f.has = [st](const void *m) { auto &ns = *static_cast<const NS*>(m); return ns.cols == st->cols && ns.B == st->data; };
    f.equal = [](const void *a, const void *b) { auto &x = *static_cast<const NS*>(a); auto &y = *static_cast<const NS*>(b); return x.cols == y.cols && x.B == y.B; };
    f.exported_ok = [](const ptree &, const std::string &) { return true; };
    f.str = [](const void *m) { auto &ns = *static_cast<const NS*>(m); return "cols=" + std::to_string(ns.cols) + " |B|=" + std::to_string(ns.B.size()); };
    f.want = [st]() { return "cols=" + std::to_string(st->cols) + " |B|=" + std::to_string(st->data.size()); };
    tb.fields.push_back(f);
    if (pre.empty()) { tb.own_names.push_back("cols"); tb.own_names.push_back("B"); }
}
C14_FIELDS(amgcl::coarsening::aggregation<B>::params)          { C14_CHILD(aggr) C14_CHILD(nullspace) C14_VAL(over_interp) }
C14_FIELDS(amgcl::coarsening::smoothed_aggregation<B>::params) { C14_CHILD(aggr) C14_CHILD(nullspace) C14_VAL(relax) C14_VAL(estimate_spectral_radius) C14_VAL(power_iters) }
C14_FIELDS(amgcl::coarsening::smoothed_aggr_emin<B>::params)   { C14_CHILD(aggr) C14_CHILD(nullspace) }
C14_FIELDS(amgcl::coarsening::ruge_stuben<B>::params)          { C14_VAL(eps_strong) C14_VAL(do_trunc) C14_VAL(eps_trunc) }
C14_FIELDS(amgcl::backend::block_crs<double>::params)          { C14_VAL(block_size) }

//--- composites (one overload per concrete instantiation used) --------------------------
#define C14_AMG_FIELDS(TYPE) C14_FIELDS(TYPE::params) { C14_CHILD(coarsening) C14_CHILD(relax) C14_VAL(coarse_enough) C14_VAL(direct_coarse) C14_VAL(max_levels) C14_VAL(npre) C14_VAL(npost) C14_VAL(ncycle) C14_VAL(pre_cycles) C14_VAL(allow_rebuild) }
#define C14_MAKE_SOLVER_FIELDS(TYPE) C14_FIELDS(TYPE::params) { C14_CHILD(precond) C14_CHILD(solver) }
#define C14_DEFLATED_FIELDS(TYPE) C14_FIELDS(TYPE::params) { C14_VAL(nvec) C14_VAL(vec) C14_CHILD(precond) C14_CHILD(solver) }
#define C14_CPR_FIELDS(TYPE) C14_FIELDS(TYPE::params) { C14_CHILD(pprecond) C14_CHILD(sprecond) C14_VAL(block_size) C14_VAL(active_rows) }

typedef amgcl::amg<B, amgcl::coarsening::smoothed_aggregation, amgcl::relaxation::spai0>        AMG_sa_spai0;
typedef amgcl::amg<B, amgcl::coarsening::smoothed_aggregation, amgcl::relaxation::ilut>         AMG_sa_ilut;
typedef amgcl::amg<B, amgcl::coarsening::aggregation,          amgcl::relaxation::ilu0>         AMG_ag_ilu0;
typedef amgcl::amg<B, amgcl::coarsening::smoothed_aggr_emin,   amgcl::relaxation::iluk>         AMG_em_iluk;
typedef amgcl::amg<B, amgcl::coarsening::ruge_stuben,          amgcl::relaxation::ilup>         AMG_rs_ilup;
typedef amgcl::amg<B, amgcl::coarsening::smoothed_aggregation, amgcl::relaxation::chebyshev>    AMG_sa_cheb;
typedef amgcl::amg<B, amgcl::coarsening::aggregation,          amgcl::relaxation::gauss_seidel> AMG_ag_gs;
typedef amgcl::amg<B, amgcl::coarsening::smoothed_aggr_emin,   amgcl::relaxation::damped_jacobi> AMG_em_dj;
typedef amgcl::amg<B, amgcl::coarsening::ruge_stuben,          amgcl::relaxation::spai1>        AMG_rs_spai1;
typedef amgcl::relaxation::as_preconditioner<B, amgcl::relaxation::spai0> REL_spai0;
typedef amgcl::relaxation::as_preconditioner<B, amgcl::relaxation::ilu0>  REL_ilu0;
typedef amgcl::make_solver<AMG_sa_spai0, amgcl::solver::cg<B>>       MS_amg_cg;
typedef amgcl::make_solver<REL_ilu0, amgcl::solver::gmres<B>>        MS_ilu0_gmres;
typedef amgcl::make_solver<REL_spai0, amgcl::solver::bicgstab<B>>    MS_spai0_bicgstab;
typedef amgcl::deflated_solver<AMG_sa_spai0, amgcl::solver::cg<B>>   DEFL_amg_cg;
typedef amgcl::preconditioner::cpr<AMG_sa_spai0, REL_spai0>          CPR_t;
typedef amgcl::preconditioner::cpr_drs<AMG_ag_gs, REL_ilu0>          CPRDRS_t;
typedef amgcl::preconditioner::schur_pressure_correction<MS_amg_cg, MS_spai0_bicgstab> SCHUR_t;

C14_AMG_FIELDS(AMG_sa_spai0) C14_AMG_FIELDS(AMG_sa_ilut) C14_AMG_FIELDS(AMG_ag_ilu0) C14_AMG_FIELDS(AMG_em_iluk) C14_AMG_FIELDS(AMG_rs_ilup)
C14_AMG_FIELDS(AMG_sa_cheb) C14_AMG_FIELDS(AMG_ag_gs) C14_AMG_FIELDS(AMG_em_dj) C14_AMG_FIELDS(AMG_rs_spai1)
C14_MAKE_SOLVER_FIELDS(MS_amg_cg) C14_MAKE_SOLVER_FIELDS(MS_ilu0_gmres) C14_MAKE_SOLVER_FIELDS(MS_spai0_bicgstab)
C14_DEFLATED_FIELDS(DEFL_amg_cg)
C14_CPR_FIELDS(CPR_t)

// cpr_drs: value fields + weights (pointer) / weights_size
C14_FIELDS(CPRDRS_t::params) {
    C14_CHILD(pprecond) C14_CHILD(sprecond) C14_VAL(block_size) C14_VAL(active_rows) C14_VAL(eps_dd) C14_VAL(eps_ps)
    typedef std::vector<double> W;
    Field f; f.key = pre + "weights"; f.type = "double *weights; size_t weights_size"; f.exported = false; f.optional_in_rep = true; f.keys = {pre + "weights", pre + "weights_size"}; f.offset = tb.offset_of(acc(*tb.probe).weights);
    auto st = std::make_shared<W>(); std::string kp = pre;
    f.put = [st, kp](Rng &r, ptree &t, const void *, int) { st->resize((size_t)r.range(1, 9)); for (auto &v : *st) v = r.uni(0, 1); t.put(kp + "weights", (void*)st->data()); t.put(kp + "weights_size", st->size()); };
    f.has = [st](const void *m) { return *static_cast<const W*>(m) == *st; };
    f.equal = [](const void *a, const void *b) { return *static_cast<const W*>(a) == *static_cast<const W*>(b); };
    f.exported_ok = [](const ptree &, const std::string &) { return true; };
    f.str = [](const void *m) { return "|weights|=" + std::to_string(static_cast<const W*>(m)->size()); };
    f.want = [st]() { return "|weights|=" + std::to_string(st->size()); };
    tb.fields.push_back(f); if (pre.empty()) tb.own_names.push_back("weights");
}

// schur_pressure_correction: value fields + the pressure mask, given either as a pattern string
// ("%start:stride", "<m", ">m"; docs/components/preconditioners.rst) or as a pointer, always with pmask_size.
inline std::vector<char> pmask_from_pattern(const std::string &pat, size_t n) {
    std::vector<char> m(n, 0);
    if (pat[0] == '%') { size_t colon = pat.find(':'); size_t start = atoi(pat.substr(1, colon - 1).c_str()), stride = atoi(pat.substr(colon + 1).c_str()); for (size_t i = start; i < n; i += stride) m[i] = 1; }
    else if (pat[0] == '<') { size_t k = atoi(pat.c_str() + 1); for (size_t i = 0; i < std::min(k, n); ++i) m[i] = 1; }
    else if (pat[0] == '>') { size_t k = atoi(pat.c_str() + 1); for (size_t i = k; i < n; ++i) m[i] = 1; }
    return m;
}
template <class P, class A> void add_pmask_field(Table<P> &tb, const std::string &pre, A acc) {
    typedef std::vector<char> M;
    Field f; f.key = pre + "pmask"; f.type = "size_t pmask_size; char *pmask | string pmask_pattern"; f.exported = false; f.optional_in_rep = true; f.keys = {pre + "pmask", pre + "pmask_size", pre + "pmask_pattern"};
    f.offset = tb.offset_of(acc(*tb.probe).pmask);
    struct St { M want, data; }; auto st = std::make_shared<St>(); std::string kp = pre;
    f.put = [st, kp](Rng &r, ptree &t, const void *, int) { size_t n = (size_t)r.range(4, 12); t.put(kp + "pmask_size", n);
        int kind = (int)r.range(0, 3);
        if (kind == 3) { st->data.resize(n); for (auto &v : st->data) v = (char)r.coin(); st->want = st->data; t.put(kp + "pmask", (void*)st->data.data());
            erase_path(t, kp + "pmask_pattern"); }   // the pattern key takes precedence in the library when both are present
        else { std::string pat = kind == 0 ? "%" + std::to_string(r.range(0, 2)) + ":" + std::to_string(r.range(1, 3)) : kind == 1 ? "<" + std::to_string(r.range(0, 14)) : ">" + std::to_string(r.range(0, 12));
            st->want = pmask_from_pattern(pat, n); t.put(kp + "pmask_pattern", pat); erase_path(t, kp + "pmask"); } };
    f.has = [st](const void *m) { return *static_cast<const M*>(m) == st->want; };
    f.equal = [](const void *a, const void *b) { return *static_cast<const M*>(a) == *static_cast<const M*>(b); };
    f.exported_ok = [](const ptree &, const std::string &) { return true; };
    f.str = [](const void *m) { std::string s; for (char ch : *static_cast<const M*>(m)) s += ch ? '1' : '0'; return "pmask=" + s; };
    f.want = [st]() { std::string s; for (char ch : st->want) s += ch ? '1' : '0'; return "pmask=" + s; };
    tb.fields.push_back(f); if (pre.empty()) tb.own_names.push_back("pmask");
}
C14_FIELDS(SCHUR_t::params) {
    C14_CHILD(usolver) C14_CHILD(psolver) C14_VAL(type) C14_VAL(approx_schur) C14_VAL(adjust_p) C14_VAL(simplec_dia) C14_VAL(verbose)
    add_pmask_field(tb, pre, acc);
}
} // namespace c14
