// C14 item 2 for the distributed-memory params structs (mpi::amg, mpi::coarsening::*, pmis,
// partition::merge, mpi::make_solver, mpi::schur_pressure_correction, mpi::cpr,
// mpi::subdomain_deflation) and item 3 for the MPI run-time enumerations.  Built with mpicxx;
// only params objects are constructed, so the binary runs as a singleton without MPI_Init.
#define C14_DEFINE_RECORDER
#include "c14_pre.hpp"
#include "c14_fields.hpp"
#include "c14_enum.hpp"
#include <vf/hooks.hpp>
#include <amgcl/mpi/amg.hpp>
#include <amgcl/mpi/make_solver.hpp>
#include <amgcl/mpi/cpr.hpp>
#include <amgcl/mpi/schur_pressure_correction.hpp>
#include <amgcl/mpi/subdomain_deflation.hpp>
#include <amgcl/mpi/coarsening/aggregation.hpp>
#include <amgcl/mpi/coarsening/smoothed_aggregation.hpp>
#include <amgcl/mpi/coarsening/pmis.hpp>
#include <amgcl/mpi/coarsening/runtime.hpp>
#include <amgcl/mpi/partition/merge.hpp>
#include <amgcl/mpi/partition/runtime.hpp>
#include <amgcl/mpi/direct_solver/runtime.hpp>
#include <amgcl/mpi/relaxation/spai0.hpp>
#include <amgcl/mpi/relaxation/ilu0.hpp>
#include <amgcl/mpi/relaxation/gauss_seidel.hpp>
#include <amgcl/mpi/relaxation/as_preconditioner.hpp>
#include <amgcl/mpi/solver/cg.hpp>
#include <amgcl/mpi/solver/bicgstab.hpp>

namespace c14 {
using namespace amgcl;
typedef mpi::amg<B, mpi::coarsening::smoothed_aggregation<B>, mpi::relaxation::spai0<B>> MAMG_sa_spai0;
typedef mpi::amg<B, mpi::coarsening::aggregation<B>, mpi::relaxation::ilu0<B>>           MAMG_ag_ilu0;
typedef mpi::make_solver<MAMG_sa_spai0, mpi::solver::cg<B>>                             MMS_amg_cg;
typedef mpi::make_solver<mpi::relaxation::as_preconditioner<mpi::relaxation::gauss_seidel<B>>, mpi::solver::bicgstab<B>> MMS_gs_bicgstab;
typedef mpi::cpr<MAMG_sa_spai0, mpi::relaxation::as_preconditioner<mpi::relaxation::spai0<B>>> MCPR_t;
typedef mpi::schur_pressure_correction<MMS_amg_cg, MMS_gs_bicgstab> MSCHUR_t;
typedef mpi::subdomain_deflation<MAMG_ag_ilu0, mpi::solver::cg<B>> SDD_t;

C14_FIELDS(mpi::solver::cg<B>::params)       { C14_VAL(maxiter) C14_VAL(tol) C14_VAL(abstol) C14_VAL(ns_search) C14_VAL(verbose) }
C14_FIELDS(mpi::solver::bicgstab<B>::params) { C14_VAL(check_after) C14_VAL(pside) C14_VAL(maxiter) C14_VAL(tol) C14_VAL(abstol) C14_VAL(ns_search) C14_VAL(verbose) }
C14_FIELDS(mpi::coarsening::pmis<B>::params) { C14_CHILD(nullspace) C14_VAL(eps_strong) C14_VAL(block_size) }
C14_FIELDS(mpi::coarsening::aggregation<B>::params) { C14_CHILD(aggr) C14_VAL(over_interp) }
C14_FIELDS(mpi::coarsening::smoothed_aggregation<B>::params) { C14_CHILD(aggr) C14_VAL(relax) C14_VAL(estimate_spectral_radius) C14_VAL(power_iters) }
C14_FIELDS(mpi::partition::merge<B>::params) { C14_VAL(enable) C14_VAL(min_per_proc) C14_VAL(shrink_ratio) }
#define C14_MAMG_FIELDS(TYPE) C14_FIELDS(TYPE::params) { C14_CHILD(coarsening) C14_CHILD(relax) C14_CHILD(direct) C14_CHILD(repart) C14_VAL(coarse_enough) C14_VAL(direct_coarse) C14_VAL(max_levels) C14_VAL(npre) C14_VAL(npost) C14_VAL(ncycle) C14_VAL(pre_cycles) C14_VAL(allow_rebuild) }
C14_MAMG_FIELDS(MAMG_sa_spai0) C14_MAMG_FIELDS(MAMG_ag_ilu0)
C14_MAKE_SOLVER_FIELDS(MMS_amg_cg) C14_MAKE_SOLVER_FIELDS(MMS_gs_bicgstab)
C14_FIELDS(MCPR_t::params) { C14_CHILD(pprecond) C14_CHILD(sprecond) C14_VAL(block_size) }
C14_FIELDS(MSCHUR_t::params) { C14_CHILD(usolver) C14_CHILD(psolver) C14_VAL(type) C14_VAL(approx_schur) C14_VAL(simplec_dia) C14_VAL(verbose) add_pmask_field(tb, pre, acc); }
// subdomain_deflation: def_vec is a pointer to a std::function (mandatory), num_def_vec a value
static std::function<double(ptrdiff_t, unsigned)> g_defvec = [](ptrdiff_t i, unsigned j) { return (double)(i + 1) * (j + 2); };
C14_FIELDS(SDD_t::params) {
    C14_CHILD(local) C14_CHILD(isolver) C14_CHILD(dsolver) C14_VAL(num_def_vec)
    typedef std::function<double(ptrdiff_t, unsigned)> FN;
    Field f; f.key = pre + "def_vec"; f.type = "std::function<double(ptrdiff_t,unsigned)> *def_vec"; f.exported = false; f.optional_in_rep = true; f.keys = {pre + "def_vec"}; f.offset = tb.offset_of(acc(*tb.probe).def_vec);
    std::string kp = pre;
    f.put = [kp](Rng &, ptree &t, const void *, int) { t.put(kp + "def_vec", (void*)&g_defvec); };
    f.has = [](const void *m) { auto &fn = *static_cast<const FN*>(m); return (bool)fn && fn(3, 1) == g_defvec(3, 1) && fn(0, 0) == g_defvec(0, 0); };
    f.equal = [](const void *a, const void *b) { auto &x = *static_cast<const FN*>(a); auto &y = *static_cast<const FN*>(b); return (bool)x == (bool)y && (!x || x(5, 2) == y(5, 2)); };
    f.exported_ok = [](const ptree &, const std::string &) { return true; };
    f.str = [](const void *m) { return std::string(*static_cast<const FN*>(m) ? "set" : "empty"); };
    f.want = []() { return std::string("set"); };
    tb.fields.push_back(f);
}

static void run_mpi_tables() {
    long reps = vf::tier(4, 20); long idx = 0;
#define C14_RUN(TYPE, NAME, DOC, ...) { auto tb = make_table<TYPE, true>(NAME, DOC, ##__VA_ARGS__); for (long rep = 0; rep < reps; ++rep, ++idx) run_table(tb, idx, (int)rep); }
    auto pm = [](ptree &b) { b.put("pmask_size", 6); b.put("pmask_pattern", "%1:2"); };
    auto dv = [](ptree &b) { b.put("def_vec", (void*)&g_defvec); b.put("num_def_vec", 1); };
    C14_RUN(mpi::coarsening::pmis<B>::params, "mpi::coarsening::pmis", "amgcl::mpi::coarsening::pmis")
    C14_RUN(mpi::coarsening::aggregation<B>::params, "mpi::coarsening::aggregation", "amgcl::mpi::coarsening::aggregation")
    C14_RUN(mpi::coarsening::smoothed_aggregation<B>::params, "mpi::coarsening::smoothed_aggregation", "amgcl::mpi::coarsening::smoothed_aggregation")
    C14_RUN(mpi::partition::merge<B>::params, "mpi::partition::merge", "amgcl::mpi::partition::merge")
    C14_RUN(MAMG_sa_spai0::params, "mpi::amg<smoothed_aggregation+spai0>", "amgcl::mpi::amg")
    C14_RUN(MAMG_ag_ilu0::params, "mpi::amg<aggregation+ilu0>", "amgcl::mpi::amg")
    C14_RUN(MMS_amg_cg::params, "mpi::make_solver<amg+cg>", "amgcl::mpi::make_solver")
    C14_RUN(MMS_gs_bicgstab::params, "mpi::make_solver<relaxation(gauss_seidel)+bicgstab>", "amgcl::mpi::make_solver")
    C14_RUN(MCPR_t::params, "mpi::cpr", "amgcl::mpi::cpr")
    C14_RUN(MSCHUR_t::params, "mpi::schur_pressure_correction", "amgcl::mpi::schur_pressure_correction", pm)
    C14_RUN(SDD_t::params, "mpi::subdomain_deflation", "amgcl::mpi::subdomain_deflation", dv)
#undef C14_RUN
}
static void run_mpi_enums() {
    long reps = vf::tier(1, 4);
    for (long rep = 0; rep < reps; ++rep) { long b = rep * 3;
        enum_case<runtime::mpi::coarsening::type>("runtime::mpi::coarsening::type", "type", {"aggregation", "smoothed_aggregation"}, b + 0, [&](ptree &t) { runtime::mpi::coarsening::wrapper<B> w(t); });
        enum_case<runtime::mpi::partition::type>("runtime::mpi::partition::type", "type", {"merge"}, b + 1, [&](ptree &t) { runtime::mpi::partition::wrapper<B> w(t); });
        enum_case<runtime::mpi::direct::type>("runtime::mpi::direct::type", "type", {"skyline_lu"}, b + 2, [&](ptree &t) { (void)t.get<runtime::mpi::direct::type>("type"); });
    }
}
} // namespace c14
int main(int argc, char **argv) {
    vf::init(argc, argv);
    if (vf::sub_enabled("param_table")) c14::run_mpi_tables();
    if (vf::sub_enabled("enum_strings")) c14::run_mpi_enums();
    return vf::finish();
}
