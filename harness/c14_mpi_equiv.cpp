// C14 item 1 for the distributed-memory run-time classes (run under mpirun, 1 OpenMP thread):
//   equiv_mpi_relax   as_preconditioner<runtime::mpi::relaxation::wrapper>  vs  as_preconditioner<mpi::relaxation::R>   (all 9 R)
//   equiv_mpi_amg     mpi::amg<runtime coarsening, runtime relaxation, runtime direct, runtime partition>  vs  compile-time mpi::amg (4 cells)
//   equiv_mpi_solver  mpi::make_solver<P, runtime::mpi::solver::wrapper>  vs  mpi::make_solver<P, mpi::solver::Z>       (all 9 Z)
// Oracle (D): every rank compares its rows of the results bitwise; iteration counts and residuals bitwise.  The matrices are
// variable-coefficient (non-uniform row sums, so that rank-local and global spectral estimates differ), distributed over a
// random contiguous partition that every rank derives from the case seed.  Parameters: compile-time struct filled field by
// field, the same values put into the tree (fill functions of c14_equiv.hpp).
#define C14_DEFINE_RECORDER
#define C14_MAIN_TU
#include "c14_equiv.hpp"
#include <amgcl/mpi/util.hpp>
#include <amgcl/mpi/distributed_matrix.hpp>
#include <amgcl/mpi/amg.hpp>
#include <amgcl/mpi/make_solver.hpp>
#include <amgcl/mpi/coarsening/aggregation.hpp>
#include <amgcl/mpi/coarsening/smoothed_aggregation.hpp>
#include <amgcl/mpi/coarsening/runtime.hpp>
#include <amgcl/mpi/relaxation/spai0.hpp>
#include <amgcl/mpi/relaxation/spai1.hpp>
#include <amgcl/mpi/relaxation/damped_jacobi.hpp>
#include <amgcl/mpi/relaxation/gauss_seidel.hpp>
#include <amgcl/mpi/relaxation/chebyshev.hpp>
#include <amgcl/mpi/relaxation/ilu0.hpp>
#include <amgcl/mpi/relaxation/iluk.hpp>
#include <amgcl/mpi/relaxation/ilup.hpp>
#include <amgcl/mpi/relaxation/ilut.hpp>
#include <amgcl/mpi/relaxation/as_preconditioner.hpp>
#include <amgcl/mpi/relaxation/runtime.hpp>
#include <amgcl/mpi/direct_solver/skyline_lu.hpp>
#include <amgcl/mpi/direct_solver/runtime.hpp>
#include <amgcl/mpi/partition/merge.hpp>
#include <amgcl/mpi/partition/runtime.hpp>
#include <amgcl/mpi/solver/runtime.hpp>
#include <amgcl/mpi/solver/cg.hpp>
#include <amgcl/mpi/solver/bicgstab.hpp>
#include <amgcl/mpi/solver/bicgstabl.hpp>
#include <amgcl/mpi/solver/gmres.hpp>
#include <amgcl/mpi/solver/lgmres.hpp>
#include <amgcl/mpi/solver/fgmres.hpp>
#include <amgcl/mpi/solver/idrs.hpp>
#include <amgcl/mpi/solver/richardson.hpp>
#include <amgcl/mpi/solver/preonly.hpp>
#include <vf/mpi.hpp>

namespace c14 {
using namespace amgcl;
typedef mpi::distributed_matrix<B> DM;
struct World { int rank = 0, size = 1; };
static World W;

// fills for the parameter structs that exist only in the distributed classes
inline void fill(mpi::coarsening::pmis<B>::params &p, ptree &t, const std::string &k, Env &e) { setv(p.eps_strong, t, k + "eps_strong", e.r.uni(0.02, 0.2)); }
inline void fill(mpi::coarsening::aggregation<B>::params &p, ptree &t, const std::string &k, Env &e) { fill(p.aggr, t, k + "aggr.", e); setv(p.over_interp, t, k + "over_interp", (float)e.r.uni(1.0, 2.0)); }
inline void fill(mpi::coarsening::smoothed_aggregation<B>::params &p, ptree &t, const std::string &k, Env &e) { fill(p.aggr, t, k + "aggr.", e);
    setv(p.relax, t, k + "relax", e.r.uni(0.5, 1.4)); setv(p.estimate_spectral_radius, t, k + "estimate_spectral_radius", e.r.coin()); setv(p.power_iters, t, k + "power_iters", (int)e.r.range(0, 4)); }
// the distributed solver classes derive from solver::Z<B, mpi::inner_product>: their params are distinct types with the same members
#define C14_MPI_SOLVER_FILL(Z, BODY) inline void fill(mpi::solver::Z<B>::params &p, ptree &t, const std::string &k, Env &e) { BODY }
C14_MPI_SOLVER_FILL(cg, fill_common(p, t, k, e);)
C14_MPI_SOLVER_FILL(bicgstab, fill_common(p, t, k, e); fill_side(p, t, k, e); setv(p.check_after, t, k + "check_after", e.r.coin());)
C14_MPI_SOLVER_FILL(bicgstabl, fill_common(p, t, k, e); fill_side(p, t, k, e); setv(p.L, t, k + "L", (int)e.r.range(1, 4)); setv(p.delta, t, k + "delta", e.r.coin() ? 0.0 : e.r.uni(0, 0.1)); setv(p.convex, t, k + "convex", e.r.coin());)
C14_MPI_SOLVER_FILL(gmres, fill_common(p, t, k, e); fill_side(p, t, k, e); setv(p.M, t, k + "M", (unsigned)e.r.range(2, 25));)
C14_MPI_SOLVER_FILL(lgmres, fill_common(p, t, k, e); fill_side(p, t, k, e); setv(p.M, t, k + "M", (unsigned)e.r.range(3, 20)); setv(p.K, t, k + "K", (unsigned)e.r.range(1, 4)); setv(p.always_reset, t, k + "always_reset", e.r.coin());)
C14_MPI_SOLVER_FILL(fgmres, fill_common(p, t, k, e); setv(p.M, t, k + "M", (unsigned)e.r.range(2, 25));)
C14_MPI_SOLVER_FILL(idrs, fill_common(p, t, k, e); setv(p.s, t, k + "s", (unsigned)e.r.range(1, 6)); setv(p.omega, t, k + "omega", e.r.coin(0.3) ? 0.0 : e.r.uni(0.5, 0.9)); setv(p.smoothing, t, k + "smoothing", e.r.coin()); setv(p.replacement, t, k + "replacement", e.r.coin());)
C14_MPI_SOLVER_FILL(richardson, fill_common(p, t, k, e); setv(p.damping, t, k + "damping", e.r.uni(0.5, 1.0));)

// the same global system and partition on every rank; returns this rank's strip (global column numbers)
struct Dist { Csr<double> A, S; vfm::Part part; ptrdiff_t beg = 0, end = 0; std::string family; std::vector<double> f; };
static Dist make_dist(Rng &r, bool big) {
    Dist d; int k = (int)r.range(0, 2);
    if (k == 0) { vf::GridSpec g; g.nx = (int)r.range(12, big ? 40 : 24); g.ny = (int)r.range(12, big ? 40 : 24); g.contrast = r.logu(2, 50); g.aniso = r.coin() ? 1.0 : r.logu(0.2, 1); g.nine = r.coin(0.3); d.family = "grid-varcoef"; d.A = vf::grid_diffusion(g, r); }
    else if (k == 1) { d.family = "convdiff"; d.A = vf::convdiff((int)r.range(12, big ? 36 : 22), (int)r.range(12, big ? 36 : 22), r.logu(0.2, 5), r, false); }
    else { vf::GridSpec g; g.nx = (int)r.range(5, 9); g.ny = (int)r.range(5, 9); g.nz = (int)r.range(4, 8); g.contrast = r.logu(2, 30); d.family = "grid7-varcoef"; d.A = vf::grid_diffusion(g, r); }
    // non-uniform scaling of the rows and columns (symmetric diagonal scaling keeps the M-matrix sign pattern): the largest Gershgorin
    // row sum sits in a random place, usually next to a process boundary for some rank count
    { std::vector<double> s(d.A.n); for (auto &v : s) v = r.logu(0.5, 2.0); for (size_t i = 0; i < d.A.n; ++i) for (auto j = d.A.ptr[i]; j < d.A.ptr[i + 1]; ++j) d.A.val[j] *= s[i] * s[d.A.col[j]]; }
    d.part = vfm::random_part((ptrdiff_t)d.A.n, W.size, r, 1, (int)r.range(0, 1));
    d.beg = d.part[W.rank]; d.end = d.part[W.rank + 1]; d.S = vfm::slice_rows(d.A, d.beg, d.end);
    std::vector<double> fg = vf::random_vector(d.A.n, r); d.f.assign(fg.begin() + d.beg, fg.begin() + d.end);
    return d;
}
static std::shared_ptr<DM> make_dm(const Dist &d) { mpi::communicator comm(MPI_COMM_WORLD); ptrdiff_t nloc = d.end - d.beg; auto strip = std::tie(nloc, d.S.ptr, d.S.col, d.S.val); return std::make_shared<DM>(comm, strip, nloc); }
// a failure on any rank is a failure; all ranks learn it so that they keep the same control flow
static bool all_true(bool v) { int x = v ? 1 : 0, y = 0; MPI_Allreduce(&x, &y, 1, MPI_INT, MPI_MIN, MPI_COMM_WORLD); return y == 1; }
static std::string guarded_all(const std::function<void()> &f) {     // an exception on one rank would dead-lock the others inside a collective: abort instead (never seen on valid input)
    try { f(); return ""; } catch (const std::exception &e) { fprintf(stderr, "c14_mpi_equiv: exception on rank %d: %s\n", W.rank, e.what()); MPI_Abort(MPI_COMM_WORLD, 3); return e.what(); }
}

//--- relaxations -----------------------------------------------------------------------------------------------------
template <template <class> class R> void relax_case(const char *rn, long idx) {
    Rng r(vf::case_seed("equiv_mpi_relax", idx)); Env e(r); Dist d = make_dist(r, false); e.n = d.A.n;
    typedef mpi::relaxation::as_preconditioner<R<B>> CT; typedef mpi::relaxation::as_preconditioner<runtime::mpi::relaxation::wrapper<B>> RT;
    typename CT::params p; ptree t; t.put("type", rn); fill(p, t, "", e);
    Case c("equiv_mpi_relax", idx, J().s("relax", rn).n("ranks", W.size).s("family", d.family).n("n", d.A.n).s("rows", vfm::part_str(d.part)).s("prm", tree_json(t)));
    mpi::communicator comm(MPI_COMM_WORLD); unknown_log().clear();
    std::unique_ptr<CT> a; std::unique_ptr<RT> b;
    guarded_all([&] { a.reset(new CT(comm, make_dm(d), p)); b.reset(new RT(comm, make_dm(d), t)); });
    c.check(unknown_log().empty(), std::string("mpi_relax:") + rn + ":valid-key-reported-unknown", "unknown-parameter hook fired for documented keys");
    size_t nloc = d.end - d.beg; bool same = true, fin = true; double md = 0;
    for (int k = 0; k < 4; ++k) {
        std::vector<double> f = k == 0 ? d.f : std::vector<double>(nloc, 0.0);
        if (k > 0) { ptrdiff_t g = (ptrdiff_t)r.range(0, (long)d.A.n - 1); if (g >= d.beg && g < d.end) f[g - d.beg] = 1.0; }       // global unit vector
        std::vector<double> x1(nloc, 777.0), x2(nloc, 777.0);
        guarded_all([&] { a->apply(f, x1); b->apply(f, x2); });
        if (!same_bits(x1, x2)) { same = false; for (size_t i = 0; i < nloc; ++i) md = std::max(md, std::fabs(x1[i] - x2[i])); }
        for (double v : x1) if (!std::isfinite(v)) fin = false;
    }
    c.check(same, std::string("mpi_relax:") + rn + ":operator-differs", "run-time mpi relaxation wrapper is not bitwise equal to the compile-time mpi::relaxation class on this rank's rows", J().n("rank", W.rank).n("max_abs_diff", md));
    if (all_true(fin) && W.size > 1) c.nontrivial();
    vf::obs_add("equiv_mpi_relaxations", rn); vf::obs_add("mpi_rank_counts", std::to_string(W.size));
    if (W.rank == 0) vf::sample("equiv_mpi_relax", J().s("relax", rn).n("ranks", W.size).n("n", d.A.n).s("rows", vfm::part_str(d.part)).bl("bitwise_equal_rank0", same));
}

//--- amg -------------------------------------------------------------------------------------------------------------------
template <class C, class R> void amg_case(const char *cn, const char *rn, long idx) {
    Rng r(vf::case_seed("equiv_mpi_amg", idx)); Env e(r); Dist d = make_dist(r, true); e.n = d.A.n;
    typedef mpi::amg<B, C, R, mpi::direct::skyline_lu<double>, mpi::partition::merge<B>> CT;
    typedef mpi::amg<B, runtime::mpi::coarsening::wrapper<B>, runtime::mpi::relaxation::wrapper<B>, runtime::mpi::direct::solver<double>, runtime::mpi::partition::wrapper<B>> RT;
    typename CT::params p; ptree t; t.put("coarsening.type", cn); t.put("relax.type", rn); t.put("direct.type", "skyline_lu"); t.put("repart.type", "merge");
    fill(p.coarsening, t, "coarsening.", e); fill(p.relax, t, "relax.", e);
    setv(p.coarse_enough, t, "coarse_enough", (unsigned)r.range(20, (long)std::max<size_t>(30, d.A.n / 4)));
    setv(p.npre, t, "npre", (unsigned)r.range(0, 2)); setv(p.npost, t, "npost", (unsigned)r.range(1, 2)); setv(p.ncycle, t, "ncycle", (unsigned)r.range(1, 2));
    setv(p.max_levels, t, "max_levels", (unsigned)r.range(2, 5)); setv(p.direct_coarse, t, "direct_coarse", r.coin(0.8)); setv(p.pre_cycles, t, "pre_cycles", (unsigned)r.range(1, 2));
    setv(p.repart.enable, t, "repart.enable", r.coin(0.3)); setv(p.repart.min_per_proc, t, "repart.min_per_proc", (ptrdiff_t)r.range(50, 400)); setv(p.repart.shrink_ratio, t, "repart.shrink_ratio", (int)r.range(2, 4));
    std::string cell = std::string(cn) + "+" + rn;
    Case c("equiv_mpi_amg", idx, J().s("cell", cell).n("ranks", W.size).s("family", d.family).n("n", d.A.n).s("rows", vfm::part_str(d.part)).s("prm", tree_json(t)));
    mpi::communicator comm(MPI_COMM_WORLD); unknown_log().clear();
    std::unique_ptr<CT> a; std::unique_ptr<RT> b;
    guarded_all([&] { a.reset(new CT(comm, make_dm(d), p)); b.reset(new RT(comm, make_dm(d), t)); });
    c.check(unknown_log().empty(), "mpi_amg:" + cell + ":valid-key-reported-unknown", "unknown-parameter hook fired for documented keys");
    size_t nloc = d.end - d.beg; bool same = true, fin = true; double md = 0;
    for (int k = 0; k < 3; ++k) {
        std::vector<double> f = k == 0 ? d.f : vf::random_vector(nloc, r), x1(nloc, 777.0), x2(nloc, 777.0);
        guarded_all([&] { a->apply(f, x1); b->apply(f, x2); });
        if (!same_bits(x1, x2)) { same = false; for (size_t i = 0; i < nloc; ++i) md = std::max(md, std::fabs(x1[i] - x2[i])); }
        for (double v : x1) if (!std::isfinite(v)) fin = false;
    }
    c.check(same, "mpi_amg:" + cell + ":operator-differs", "run-time configured mpi::amg is not bitwise equal to the compile-time composition on this rank's rows", J().n("rank", W.rank).n("max_abs_diff", md));
    if (all_true(fin) && W.size > 1) c.nontrivial();
    vf::obs_add("equiv_mpi_amg_cells", cell);
    if (W.rank == 0) vf::sample("equiv_mpi_amg", J().s("cell", cell).n("ranks", W.size).n("n", d.A.n).bl("bitwise_equal_rank0", same));
}

//--- solvers -----------------------------------------------------------------------------------------------------------------
template <class Z> void solver_case(const char *sn, long idx) {
    Rng r(vf::case_seed("equiv_mpi_solver", idx)); Env e(r); Dist d = make_dist(r, false); e.n = d.A.n;
    typedef mpi::relaxation::as_preconditioner<mpi::relaxation::spai0<B>> P;
    typedef mpi::make_solver<P, Z> CT; typedef mpi::make_solver<P, runtime::mpi::solver::wrapper<B>> RT;
    typename CT::params p; ptree t; t.put("solver.type", sn); fill(p.solver, t, "solver.", e);
    Case c("equiv_mpi_solver", idx, J().s("solver", sn).n("ranks", W.size).s("family", d.family).n("n", d.A.n).s("rows", vfm::part_str(d.part)).s("prm", tree_json(t)));
    mpi::communicator comm(MPI_COMM_WORLD); unknown_log().clear();
    size_t nloc = d.end - d.beg, it1 = 0, it2 = 0; double r1 = 0, r2 = 0; std::vector<double> x1(nloc, 0.0), x2(nloc, 0.0);
    // breakdown exceptions of the Krylov methods are thrown on every rank alike (they depend on reduced scalars): compare them
    std::string e1, e2;
    try { CT s(comm, make_dm(d), p); std::tie(it1, r1) = s(d.f, x1); } catch (const std::exception &ex) { e1 = std::string("E:") + ex.what(); }
    try { RT s(comm, make_dm(d), t); std::tie(it2, r2) = s(d.f, x2); } catch (const std::exception &ex) { e2 = std::string("E:") + ex.what(); }
    c.check(unknown_log().empty(), std::string("mpi_solver:") + sn + ":valid-key-reported-unknown", "unknown-parameter hook fired for documented keys");
    if (!c.check(e1 == e2, std::string("mpi_solver:") + sn + ":exception-mismatch", "compile-time [" + e1 + "] run-time [" + e2 + "]") || !e1.empty()) return;
    c.check(it1 == it2 && !memcmp(&r1, &r2, 8) && same_bits(x1, x2), std::string("mpi_solver:") + sn + ":solve-differs", "(iterations, residual, local x) differ between runtime::mpi::solver::wrapper and mpi::solver class", J().n("rank", W.rank).n("it_ct", it1).n("it_rt", it2).n("res_ct", r1).n("res_rt", r2));
    if (it1 >= 1 && W.size > 1) c.nontrivial();
    vf::obs_add("equiv_mpi_solvers", sn);
    if (W.rank == 0) vf::sample("equiv_mpi_solver", J().s("solver", sn).n("ranks", W.size).n("n", d.A.n).n("iters", it1).n("resid", r1));
}
} // namespace c14

int main(int argc, char **argv) {
    amgcl::mpi::init mpi_guard(&argc, &argv);
    vf::init(argc, argv);
    using namespace c14; using namespace amgcl;
    MPI_Comm_rank(MPI_COMM_WORLD, &W.rank); MPI_Comm_size(MPI_COMM_WORLD, &W.size);
    if (W.rank != vf::ctx().rank) { fprintf(stderr, "c14_mpi_equiv: rank mismatch between MPI and the environment\n"); return 3; }
    { long N = 9 * vf::tier(4, 30);
      for (long idx = 0; idx < N; ++idx) { if (!vf::selected("equiv_mpi_relax", idx)) continue;
        switch (idx % 9) {
            case 0: relax_case<mpi::relaxation::chebyshev>("chebyshev", idx); break;
            case 1: relax_case<mpi::relaxation::spai0>("spai0", idx); break;
            case 2: relax_case<mpi::relaxation::spai1>("spai1", idx); break;
            case 3: relax_case<mpi::relaxation::damped_jacobi>("damped_jacobi", idx); break;
            case 4: relax_case<mpi::relaxation::gauss_seidel>("gauss_seidel", idx); break;
            case 5: relax_case<mpi::relaxation::ilu0>("ilu0", idx); break;
            case 6: relax_case<mpi::relaxation::iluk>("iluk", idx); break;
            case 7: relax_case<mpi::relaxation::ilup>("ilup", idx); break;
            default: relax_case<mpi::relaxation::ilut>("ilut", idx); break;
        } } }
    { long N = 4 * vf::tier(3, 20);
      for (long idx = 0; idx < N; ++idx) { if (!vf::selected("equiv_mpi_amg", idx)) continue;
        switch (idx % 4) {
            case 0: amg_case<mpi::coarsening::smoothed_aggregation<B>, mpi::relaxation::chebyshev<B>>("smoothed_aggregation", "chebyshev", idx); break;
            case 1: amg_case<mpi::coarsening::aggregation<B>, mpi::relaxation::spai0<B>>("aggregation", "spai0", idx); break;
            case 2: amg_case<mpi::coarsening::smoothed_aggregation<B>, mpi::relaxation::ilu0<B>>("smoothed_aggregation", "ilu0", idx); break;
            default: amg_case<mpi::coarsening::aggregation<B>, mpi::relaxation::damped_jacobi<B>>("aggregation", "damped_jacobi", idx); break;
        } } }
    { long N = 9 * vf::tier(2, 12);
      for (long idx = 0; idx < N; ++idx) { if (!vf::selected("equiv_mpi_solver", idx)) continue;
        switch (idx % 9) {
            case 0: solver_case<mpi::solver::cg<B>>("cg", idx); break;
            case 1: solver_case<mpi::solver::bicgstab<B>>("bicgstab", idx); break;
            case 2: solver_case<mpi::solver::bicgstabl<B>>("bicgstabl", idx); break;
            case 3: solver_case<mpi::solver::gmres<B>>("gmres", idx); break;
            case 4: solver_case<mpi::solver::lgmres<B>>("lgmres", idx); break;
            case 5: solver_case<mpi::solver::fgmres<B>>("fgmres", idx); break;
            case 6: solver_case<mpi::solver::idrs<B>>("idrs", idx); break;
            case 7: solver_case<mpi::solver::richardson<B>>("richardson", idx); break;
            default: solver_case<mpi::solver::preonly<B>>("preonly", idx); break;
        } } }
    return vf::finish();
}
