// c14_pre.hpp -- first include of every C14 translation unit.
// Redefines the library's unknown-parameter hook (amgcl/util.hpp, AMGCL_PARAM_UNKNOWN)
// so that the harness can observe which keys check_params() reports.  check_params is an
// inline function: every TU of one binary must see the same definition of the macro,
// therefore every C14 TU includes this header before any amgcl header.
#pragma once
#include <string>
#include <vector>
#include <set>
namespace c14 {
// recorder (defined in the TU that defines C14_DEFINE_RECORDER)
std::vector<std::string>& unknown_log();
inline void unknown_key(const std::string &name) { unknown_log().push_back(name); }
}
#define AMGCL_PARAM_UNKNOWN(name) ::c14::unknown_key(name)
#ifdef C14_DEFINE_RECORDER
namespace c14 { std::vector<std::string>& unknown_log() { static std::vector<std::string> v; return v; } }
#endif
